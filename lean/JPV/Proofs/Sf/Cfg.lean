/-
`Proofs.Sf.Cfg` — lexer configurations "in state s at text x about to emit the tokens out", with the
lexer object hidden, and the next-token lemmas in that form.
-/
import JPV.Proofs.Sf.FTokLit
set_option linter.unusedSimpArgs false
set_option linter.unusedVariables false
namespace JPV.Proofs.Sf
open JPV JPV.Impl JPV.Proofs.Rq JPV.Proofs.Cs JPV.Proofs.Ss

variable {lf : Lexer} {d : Int} {br : List (Char × Nat)} {x rest : List Char} {out : List Token} {t : Token}

/-- in the filter state, at `x` up to leading blanks, about to emit `out` -/
def FCfg (lf : Lexer) (d : Int) (br : List (Char × Nat)) (x : List Char) (out : List Token) : Prop :=
  ∃ l pre x' toks, StG d l pre [] x' toks br ∧ Spec.skipS x' = Spec.skipS x ∧ Emits .filter l out lf

/-- in the segment state, exactly at `x`, about to emit `out` -/
def SCfg (lf : Lexer) (d : Int) (br : List (Char × Nat)) (x : List Char) (out : List Token) : Prop :=
  ∃ l pre toks, StG d l pre [] x toks br ∧ Emits .segment l out lf

/-- in the bracketed state, exactly at `x`, about to emit `out` -/
def BCfg (lf : Lexer) (d : Int) (br : List (Char × Nat)) (x : List Char) (out : List Token) : Prop :=
  ∃ l pre toks, StG d l pre [] x toks br ∧ Emits .bracketed l out lf

/-- in the descendant state (just after `..`), exactly at `x`, about to emit `out` -/
def DCfg (lf : Lexer) (d : Int) (br : List (Char × Nat)) (x : List Char) (out : List Token) : Prop :=
  ∃ l pre toks, StG d l pre [] x toks br ∧ Emits .descendant l out lf

theorem fTok_congr {a b : List Char} (h : Spec.skipS a = Spec.skipS b) : fTok a = fTok b := by
  unfold fTok; rw [h]

theorem FCfg.congr {y : List Char} (h : FCfg lf d br x out) (e : Spec.skipS x = Spec.skipS y) :
    FCfg lf d br y out := by
  obtain ⟨l, pre, x', toks, h1, h2, h3⟩ := h
  exact ⟨l, pre, x', toks, h1, h2.trans e, h3⟩

theorem FCfg.skip (h : FCfg lf d br x out) : FCfg lf d br (Spec.skipS x) out :=
  h.congr (skipS_idem x).symm

theorem FCfg.unskip (h : FCfg lf d br (Spec.skipS x) out) : FCfg lf d br x out :=
  h.congr (skipS_idem x)

/-- the configuration after a token of kind `k` read in the filter state -/
def FPost (lf : Lexer) (d : Int) (br : List (Char × Nat)) (k : TokKind) (rest : List Char)
    (out : List Token) : Prop :=
  (k = .rbracket ∧ ∃ i br', br = ('[', i) :: br' ∧ SCfg lf (d - 1) br' rest out) ∨
  (k = .comma ∧ ∃ i br', br = ('(', i) :: br' ∧ FCfg lf d br rest out) ∨
  (k = .comma ∧ (∀ i br', br ≠ ('(', i) :: br') ∧ BCfg lf (d - 1) br rest out) ∨
  ((k = .lparen ∨ k = .function) ∧ ∃ i, FCfg lf d (('(', i) :: br) rest out) ∨
  (k = .rparen ∧ ∃ i br', br = ('(', i) :: br' ∧ FCfg lf d br' rest out) ∨
  ((k = .root ∨ k = .current) ∧ SCfg lf d br rest out) ∨
  (k ≠ .rbracket ∧ k ≠ .comma ∧ k ≠ .lparen ∧ k ≠ .function ∧ k ≠ .rparen ∧ k ≠ .root ∧ k ≠ .current ∧
    FCfg lf d br rest out)

theorem FCfg.next (hg : ¬ Bad lf) (h : FCfg lf d br x (t :: out)) :
    ((∃ r, Spec.skipS x = '.' :: r) ∧ (t.kind = .doubleDot ∨ t.kind = .wild ∨ t.kind = .property)) ∨
    ∃ rest, fTok x = some (t.kind, t.value, rest) ∧ FPost lf d br t.kind rest out := by
  obtain ⟨l, pre, x', toks, h1, h2, h3⟩ := h
  rcases flt_next_emits h1 h3 hg with ⟨⟨r, e⟩, hj⟩ | ⟨rest, l', hf, hp⟩
  · exact .inl ⟨⟨r, h2 ▸ e⟩, hj⟩
  · right
    refine ⟨rest, by rw [← fTok_congr h2]; exact hf, ?_⟩
    rcases hp with ⟨hk, i, br', pre', e, h', he'⟩ | ⟨hk, i, br', pre', e, h', he'⟩ | ⟨hk, hb, pre', h', he'⟩ |
      ⟨hk, i, pre', h', he'⟩ | ⟨hk, i, br', pre', e, h', he'⟩ | ⟨hk, pre', h', he'⟩ |
      ⟨k1, k2, k3, k4, k5, k6, k7, pre', h', he'⟩
    · exact .inl ⟨hk, i, br', e, _, _, _, h', he'⟩
    · exact .inr (.inl ⟨hk, i, br', e, _, _, _, _, h', rfl, he'⟩)
    · exact .inr (.inr (.inl ⟨hk, hb, _, _, _, h', he'⟩))
    · exact .inr (.inr (.inr (.inl ⟨hk, i, _, _, _, _, h', rfl, he'⟩)))
    · exact .inr (.inr (.inr (.inr (.inl ⟨hk, i, br', e, _, _, _, _, h', rfl, he'⟩))))
    · exact .inr (.inr (.inr (.inr (.inr (.inl ⟨hk, _, _, _, h', he'⟩)))))
    · exact .inr (.inr (.inr (.inr (.inr (.inr ⟨k1, k2, k3, k4, k5, k6, k7, _, _, _, _, h', rfl, he'⟩)))))

/-- kinds after which the filter state simply goes on -/
def PlainK (k : TokKind) : Prop :=
  k ≠ .rbracket ∧ k ≠ .comma ∧ k ≠ .lparen ∧ k ≠ .function ∧ k ≠ .rparen ∧ k ≠ .root ∧ k ≠ .current ∧
  k ≠ .doubleDot ∧ k ≠ .wild ∧ k ≠ .property

instance (k : TokKind) : Decidable (PlainK k) := by unfold PlainK; infer_instance

theorem FCfg.next_plain (hg : ¬ Bad lf) (h : FCfg lf d br x (t :: out)) (hk : PlainK t.kind) :
    ∃ rest, fTok x = some (t.kind, t.value, rest) ∧ FCfg lf d br rest out := by
  obtain ⟨k1, k2, k3, k4, k5, k6, k7, k8, k9, k10⟩ := hk
  rcases h.next hg with ⟨_, hj | hj | hj⟩ | ⟨rest, hf, hp⟩
  · exact absurd hj k8
  · exact absurd hj k9
  · exact absurd hj k10
  · refine ⟨rest, hf, ?_⟩
    rcases hp with ⟨hk, _⟩ | ⟨hk, _⟩ | ⟨hk, _⟩ | ⟨hk | hk, _⟩ | ⟨hk, _⟩ | ⟨hk | hk, _⟩ | ⟨_, _, _, _, _, _, _, h'⟩
    · exact absurd hk k1
    · exact absurd hk k2
    · exact absurd hk k2
    · exact absurd hk k3
    · exact absurd hk k4
    · exact absurd hk k5
    · exact absurd hk k6
    · exact absurd hk k7
    · exact h'

theorem FCfg.next_open (hg : ¬ Bad lf) (h : FCfg lf d br x (t :: out))
    (hk : t.kind = .lparen ∨ t.kind = .function) :
    ∃ rest i, fTok x = some (t.kind, t.value, rest) ∧ FCfg lf d (('(', i) :: br) rest out := by
  rcases h.next hg with ⟨_, hj | hj | hj⟩ | ⟨rest, hf, hp⟩
  · rcases hk with hk | hk <;> rw [hk] at hj <;> cases hj
  · rcases hk with hk | hk <;> rw [hk] at hj <;> cases hj
  · rcases hk with hk | hk <;> rw [hk] at hj <;> cases hj
  · rcases hp with ⟨hk', _⟩ | ⟨hk', _⟩ | ⟨hk', _⟩ | ⟨_, i, h'⟩ | ⟨hk', _⟩ | ⟨hk' | hk', _⟩ |
      ⟨_, _, k3, k4, _⟩
    · rcases hk with hk | hk <;> rw [hk] at hk' <;> cases hk'
    · rcases hk with hk | hk <;> rw [hk] at hk' <;> cases hk'
    · rcases hk with hk | hk <;> rw [hk] at hk' <;> cases hk'
    · exact ⟨rest, i, hf, h'⟩
    · rcases hk with hk | hk <;> rw [hk] at hk' <;> cases hk'
    · rcases hk with hk | hk <;> rw [hk] at hk' <;> cases hk'
    · rcases hk with hk | hk <;> rw [hk] at hk' <;> cases hk'
    · rcases hk with hk | hk
      · exact absurd hk k3
      · exact absurd hk k4

theorem FCfg.next_rparen {i : Nat} {br' : List (Char × Nat)} (hg : ¬ Bad lf)
    (h : FCfg lf d (('(', i) :: br') x (t :: out)) (hk : t.kind = .rparen) :
    ∃ rest, Spec.skipS x = ')' :: rest ∧ FCfg lf d br' rest out := by
  rcases h.next hg with ⟨_, hj | hj | hj⟩ | ⟨rest, hf, hp⟩
  · rw [hk] at hj; cases hj
  · rw [hk] at hj; cases hj
  · rw [hk] at hj; cases hj
  · rw [hk] at hf hp
    refine ⟨rest, fTok_punct hf rfl, ?_⟩
    rcases hp with ⟨hk', _⟩ | ⟨hk', _⟩ | ⟨hk', _⟩ | ⟨hk' | hk', _⟩ | ⟨_, j, br2, e, h'⟩ | ⟨hk' | hk', _⟩ |
      ⟨_, _, _, _, k5, _⟩
    all_goals try (cases hk'; done)
    · simp only [List.cons.injEq, Prod.mk.injEq] at e
      obtain ⟨-, rfl⟩ := e
      exact h'
    · exact absurd rfl k5

theorem FCfg.next_query (hg : ¬ Bad lf) (h : FCfg lf d br x (t :: out))
    (hk : t.kind = .root ∨ t.kind = .current) :
    ∃ rest, fTok x = some (t.kind, t.value, rest) ∧ SCfg lf d br rest out := by
  rcases h.next hg with ⟨_, hj | hj | hj⟩ | ⟨rest, hf, hp⟩
  · rcases hk with hk | hk <;> rw [hk] at hj <;> cases hj
  · rcases hk with hk | hk <;> rw [hk] at hj <;> cases hj
  · rcases hk with hk | hk <;> rw [hk] at hj <;> cases hj
  · rcases hp with ⟨hk', _⟩ | ⟨hk', _⟩ | ⟨hk', _⟩ | ⟨hk' | hk', _⟩ | ⟨hk', _⟩ | ⟨_, h'⟩ |
      ⟨_, _, _, _, _, k6, k7, _⟩
    · rcases hk with hk | hk <;> rw [hk] at hk' <;> cases hk'
    · rcases hk with hk | hk <;> rw [hk] at hk' <;> cases hk'
    · rcases hk with hk | hk <;> rw [hk] at hk' <;> cases hk'
    · rcases hk with hk | hk <;> rw [hk] at hk' <;> cases hk'
    · rcases hk with hk | hk <;> rw [hk] at hk' <;> cases hk'
    · rcases hk with hk | hk <;> rw [hk] at hk' <;> cases hk'
    · exact ⟨rest, hf, h'⟩
    · rcases hk with hk | hk
      · exact absurd hk k6
      · exact absurd hk k7

/-- a comma inside a function call -/
theorem FCfg.next_comma_paren {i : Nat} {br' : List (Char × Nat)} (hg : ¬ Bad lf)
    (h : FCfg lf d (('(', i) :: br') x (t :: out)) (hk : t.kind = .comma) :
    ∃ rest, Spec.skipS x = ',' :: rest ∧ FCfg lf d (('(', i) :: br') rest out := by
  rcases h.next hg with ⟨_, hj | hj | hj⟩ | ⟨rest, hf, hp⟩
  · rw [hk] at hj; cases hj
  · rw [hk] at hj; cases hj
  · rw [hk] at hj; cases hj
  · rw [hk] at hf hp
    refine ⟨rest, fTok_punct hf rfl, ?_⟩
    rcases hp with ⟨hk', _⟩ | ⟨_, j, br2, e, h'⟩ | ⟨_, hb, _⟩ | ⟨hk' | hk', _⟩ | ⟨hk', _⟩ | ⟨hk' | hk', _⟩ |
      ⟨_, k2, _⟩
    all_goals try (cases hk'; done)
    · exact h'
    · exact absurd rfl (hb i br')
    · exact absurd rfl k2

/-- a comma ending a filter selector -/
theorem FCfg.next_comma_brack {i : Nat} {br' : List (Char × Nat)} (hg : ¬ Bad lf)
    (h : FCfg lf d (('[', i) :: br') x (t :: out)) (hk : t.kind = .comma) :
    ∃ rest, Spec.skipS x = ',' :: rest ∧ BCfg lf (d - 1) (('[', i) :: br') rest out := by
  rcases h.next hg with ⟨_, hj | hj | hj⟩ | ⟨rest, hf, hp⟩
  · rw [hk] at hj; cases hj
  · rw [hk] at hj; cases hj
  · rw [hk] at hj; cases hj
  · rw [hk] at hf hp
    refine ⟨rest, fTok_punct hf rfl, ?_⟩
    rcases hp with ⟨hk', _⟩ | ⟨_, j, br2, e, h'⟩ | ⟨_, hb, h'⟩ | ⟨hk' | hk', _⟩ | ⟨hk', _⟩ | ⟨hk' | hk', _⟩ |
      ⟨_, k2, _⟩
    all_goals try (cases hk'; done)
    · simp only [List.cons.injEq, Prod.mk.injEq] at e
      exact absurd e.1.1 (by decide)
    · exact h'
    · exact absurd rfl k2

/-- the closing bracket after a filter selector -/
theorem FCfg.next_rbracket {i : Nat} {br' : List (Char × Nat)} (hg : ¬ Bad lf)
    (h : FCfg lf d (('[', i) :: br') x (t :: out)) (hk : t.kind = .rbracket) :
    ∃ rest, Spec.skipS x = ']' :: rest ∧ SCfg lf (d - 1) br' rest out := by
  rcases h.next hg with ⟨_, hj | hj | hj⟩ | ⟨rest, hf, hp⟩
  · rw [hk] at hj; cases hj
  · rw [hk] at hj; cases hj
  · rw [hk] at hj; cases hj
  · rw [hk] at hf hp
    refine ⟨rest, fTok_punct hf rfl, ?_⟩
    rcases hp with ⟨_, j, br2, e, h'⟩ | ⟨hk', _⟩ | ⟨hk', _⟩ | ⟨hk' | hk', _⟩ | ⟨hk', _⟩ | ⟨hk' | hk', _⟩ |
      ⟨k1, _⟩
    all_goals try (cases hk'; done)
    · simp only [List.cons.injEq, Prod.mk.injEq] at e
      obtain ⟨-, rfl⟩ := e
      exact h'
    · exact absurd rfl k1

end JPV.Proofs.Sf
