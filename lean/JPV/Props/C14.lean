/-
C14 — Evaluation is pure and repeatable; queries and environments do not interfere.

Property text: "Applying a query never modifies the JSON value it is applied to;
a compiled query gives the same nodelist every time it is applied to equal data,
regardless of which other queries were compiled or applied before on the same or
any other environment; compiling the same text again gives a query with identical
behaviour. Registering functions on, or subclassing, one environment does not
change the behaviour of any other environment or of the module-level functions."

`Impl.World` is the state a history of API calls can touch.  The theorems are
over *all finite histories* (`World.run`, induction on the operation list).
They are about the model; what makes them about the code is (i) the regenerated
effect table (`Tables.writes_benign`: no attribute store, global rebinding or
container mutation on any object that outlives a call) and (ii) the `hist`
correspondence op replaying random histories on the real objects.  The document
is an immutable value in the model; "never modifies the JSON value" is observed on
the real objects (deep snapshot before/after) and backed by (i).
-/
import JPV.Impl.Api
import JPV.Proofs.Api
namespace JPV.Props
open JPV JPV.Impl

/-- applying a query, or finding through an environment, changes nothing -/
theorem C14_apply_pure (w : World) (q : QueryId) (v : Json) : (w.step (.apply q v)).1 = w :=
  Proofs.apply_pure w q v

theorem C14_envFind_pure (w : World) (e : EnvId) (s : Str) (v : Json) : (w.step (.envFind e s v)).1 = w :=
  Proofs.envFind_pure w e s v

/-- the outcome of applying a query is a function of its AST, its environment's
current configuration and the value: nothing else in the world matters -/
theorem C14_apply_deterministic (w1 w2 : World) (q1 q2 : QueryId) (v : Json) (e1 e2 : EnvId) (ast : Query) (env : Env)
    (h1 : w1.query q1 = some (e1, ast)) (h2 : w2.query q2 = some (e2, ast))
    (g1 : w1.env e1 = some env) (g2 : w2.env e2 = some env) :
    (w1.step (.apply q1 v)).2 = (w2.step (.apply q2 v)).2 := Proofs.apply_deterministic w1 w2 q1 q2 v e1 e2 ast env h1 h2 g1 g2

/-- History irrelevance: after ANY finite history that neither registers on nor configures
environment `e`, a query compiled on `e` before the history gives exactly the outcome it gave before. -/
def C14_history_statement : Prop :=
  ∀ (w : World) (ops : List Op) (q : QueryId) (e : EnvId) (ast : Query) (v : Json),
    w.WF → w.query q = some (e, ast) →
    (∀ op ∈ ops, (∀ name f, op ≠ .register e name f) ∧ (∀ md lo hi, op ≠ .configure e md lo hi)) →
    ((w.run ops).step (.apply q v)).2 = (w.step (.apply q v)).2

theorem C14_history : C14_history_statement := Proofs.history_irrelevant

/-- Frame: registering a function on one environment, or creating another environment
(a subclass instance), leaves every other environment's configuration — hence the
behaviour of everything bound to it, the module-level functions included — unchanged. -/
theorem C14_frame_register (w : World) (e e' : EnvId) (name : Str) (f : Func) (h : e' ≠ e) :
    ((w.step (.register e name f)).1).env e' = w.env e' := Proofs.frame_register w e e' name f h

theorem C14_frame_newEnv (w : World) (cfg : Env) (e : EnvId) (hw : w.WF) (h : e < w.envs.length) :
    ((w.step (.newEnv cfg)).1).env e = w.env e := Proofs.frame_newEnv w cfg e hw h

/-! ### reconfiguration: the limits are attributes read at every use

`env.max_recursion_depth = n` (and the two index bounds) may be assigned at any time.
The model reads them from the environment's CURRENT configuration at every compile and
every evaluation; an implementation that caches a limit on first use violates
`C14_configure_takes_effect` / `C14_history_configure` (see the `example` below). -/

/-- reconfiguring one environment leaves every other environment (the module-level
default environment included) untouched -/
theorem C14_frame_configure (w : World) (e e' : EnvId) (md lo hi : Int) (h : e' ≠ e) :
    ((w.step (.configure e md lo hi)).1).env e' = w.env e' := Proofs.frame_configure w e e' md lo hi h

/-- reconfiguring leaves the compiled queries (ids, bindings, ASTs) untouched -/
theorem C14_configure_queries (w : World) (e : EnvId) (md lo hi : Int) :
    ((w.step (.configure e md lo hi)).1).queries = w.queries := Proofs.configure_queries w e md lo hi

/-- what `configure` does to `e` itself: exactly the three limits change; registry and mode stay -/
theorem C14_configure_env (w : World) (e : EnvId) (md lo hi : Int) (env : Env) (g : w.env e = some env) :
    ((w.step (.configure e md lo hi)).1).env e =
      some { env with maxDepth := md, minIdx := lo, maxIdx := hi } := Proofs.configure_env w e md lo hi env g

/-- the limits in force are the ones configured NOW, also for a query compiled BEFORE the change -/
theorem C14_configure_takes_effect (w : World) (e : EnvId) (md lo hi : Int) (q : QueryId) (ast : Query)
    (v : Json) (env : Env) (hq : w.query q = some (e, ast)) (he : w.env e = some env) :
    ((w.step (.configure e md lo hi)).1.step (.apply q v)).2 =
      Out.ofOutcome (Api.queryFind { env with maxDepth := md, minIdx := lo, maxIdx := hi } ast v) :=
  Proofs.configure_takes_effect w e md lo hi q ast v env hq he

theorem C14_configure_takes_effect_envFind (w : World) (e : EnvId) (md lo hi : Int) (s : Str)
    (v : Json) (env : Env) (he : w.env e = some env) :
    ((w.step (.configure e md lo hi)).1.step (.envFind e s v)).2 =
      Out.ofOutcome (Api.envFind { env with maxDepth := md, minIdx := lo, maxIdx := hi } s v) :=
  Proofs.configure_takes_effect_envFind w e md lo hi s v env he

theorem C14_configure_takes_effect_compile (w : World) (e : EnvId) (md lo hi : Int) (s : Str)
    (env : Env) (he : w.env e = some env) :
    ((w.step (.configure e md lo hi)).1.step (.compile e s)).2 =
      (match Impl.compile { env with maxDepth := md, minIdx := lo, maxIdx := hi } s with
       | .ok _ => Out.compiled w.queries.length
       | .error err => Out.raised err.kind) :=
  Proofs.configure_takes_effect_compile w e md lo hi s env he

/-- General history irrelevance: after ANY finite history (registrations and reconfigurations
of `e` included) the outcome of a query bound to `e` depends on the history ONLY through
`e`'s current configuration. -/
def C14_history_configure_statement : Prop :=
  ∀ (w : World) (ops : List Op) (q : QueryId) (e : EnvId) (ast : Query) (v : Json) (env' : Env),
    w.query q = some (e, ast) → (w.run ops).env e = some env' →
    ((w.run ops).step (.apply q v)).2 = Out.ofOutcome (Api.queryFind env' ast v)

theorem C14_history_configure : C14_history_configure_statement := Proofs.history_configure

/-- ... and that configuration exists (the statement above is not vacuous): environments are never deleted -/
theorem C14_history_env_exists (w : World) (ops : List Op) (q : QueryId) (e : EnvId) (ast : Query)
    (hw : w.WF) (hq : w.query q = some (e, ast)) : ∃ env', (w.run ops).env e = some env' :=
  Proofs.run_env_exists w ops q e ast hw hq

/-- a history that neither registers on nor configures `e` leaves `e`'s configuration alone;
with `C14_history_configure` this gives `C14_history` back (`Proofs.history_irrelevant_of_configure`) -/
theorem C14_history_env (w : World) (ops : List Op) (e : EnvId) (hw : w.WF) (hlt : e < w.envs.length)
    (hops : ∀ op ∈ ops, (∀ name f, op ≠ .register e name f) ∧ (∀ md lo hi, op ≠ .configure e md lo hi)) :
    (w.run ops).env e = w.env e := Proofs.run_env w ops e hw hlt hops

/-- well-formedness is preserved by every operation, `configure` included -/
theorem C14_step_WF (w : World) (op : Op) (hw : w.WF) : (w.step op).1.WF := Proofs.step_WF w op hw

section Example
/-- one environment (recursion limit 5), `$..*` compiled on it as query 0 -/
private def w0 : World := { envs := [(0, { maxDepth := 5 })], queries := [(0, 0, [.desc [.wild]])] }
/-- `[[[1]]]`: containers nested 3 deep -/
private def doc : Json := .arr [.arr [.arr [.num (Num.ofInt 1)]]]

private def Out.isNodes (n : Nat) : Out → Bool
  | .nodes ns => ns.length = n
  | _ => false
private def Out.isRaised (k : ErrKind) : Out → Bool
  | .raised k' => k' = k
  | _ => false

/-- the same compiled query, the same document: 3 nodes under limit 5; `RecursionError` after
`configure` to limit 2 (a cached limit would still answer 3 nodes); 3 nodes again after
`configure` back to 5 -/
example :
    Out.isNodes 3 (w0.step (.apply 0 doc)).2 = true ∧
    (let w1 := (w0.step (.configure 0 2 0 10)).1
     Out.isRaised .recursion (w1.step (.apply 0 doc)).2 = true ∧
     (let w2 := (w1.step (.configure 0 5 0 10)).1
      Out.isNodes 3 (w2.step (.apply 0 doc)).2 = true)) := by decide +kernel
end Example

/-- compiling the same text again gives a query with identical behaviour -/
theorem C14_recompile (w : World) (e : EnvId) (s : Str) (hw : w.WF) (q1 q2 : QueryId)
    (h1 : (w.step (.compile e s)).2 = .compiled q1)
    (h2 : ((w.step (.compile e s)).1.step (.compile e s)).2 = .compiled q2) (v : Json) :
    (((w.step (.compile e s)).1.step (.compile e s)).1.step (.apply q1 v)).2 =
    (((w.step (.compile e s)).1.step (.compile e s)).1.step (.apply q2 v)).2 :=
  Proofs.recompile w e s hw q1 q2 h1 h2 v

end JPV.Props
