import JPV.Props.C01
import JPV.Props.C02
import JPV.Props.C06
import JPV.Props.C07
import JPV.Props.C10
import JPV.Props.C18
import JPV.Props.C05
