/-
`Proofs.LexFuel` — the lexer's state machine stops within `lexFuel`: a potential
`3 * (n - pos) + rank` decreases at every state-function call.
-/
import Lean.Elab.Tactic
import JPV.Proofs.LexInv
namespace JPV.Impl
open JPV

/-! ### how the helpers move the pointer -/

namespace Lexer
variable {l l' : Lexer}

theorem peek_congr (hq : l'.q = l.q) (hp : l'.pos = l.pos) : l'.peek = l.peek := by
  obtain ⟨q, st, pos, fd, fs, br, tk⟩ := l
  obtain ⟨q', st', pos', fd', fs', br', tk'⟩ := l'
  simp only at hq hp
  subst hq hp
  rfl

@[simp] theorem adv_q : l.adv.q = l.q := by
  unfold adv next; split <;> rfl
@[simp] theorem adv_start : l.adv.start = l.start := by
  unfold adv next; split <;> rfl
@[simp] theorem adv_toks : l.adv.toks = l.toks := by
  unfold adv next; split <;> rfl
@[simp] theorem adv_brackets : l.adv.brackets = l.brackets := by
  unfold adv next; split <;> rfl

theorem adv_pos_some {c : Char} (h : l.peek = some c) : l.adv.pos = l.pos + 1 := by
  unfold peek at h
  unfold adv next
  split
  · rfl
  · simp_all

theorem adv_none (h : l.peek = none) : l.adv = l := by
  unfold peek at h
  unfold adv next
  split
  · simp_all
  · rfl

theorem adv_pos_ge : l.pos ≤ l.adv.pos := by
  unfold adv next; split <;> simp

theorem backup_ok_iff (h : l.backup = .ok l') : l.start < l.pos ∧ l' = { l with pos := l.pos - 1 } := by
  unfold backup at h
  split at h
  · cases h
  · cases h; exact ⟨by omega, rfl⟩

theorem backup_pos (h : l.backup = .ok l') : l'.pos + 1 = l.pos ∧ l'.q = l.q ∧ l.start < l.pos := by
  obtain ⟨h1, rfl⟩ := backup_ok_iff h
  simp; omega

theorem ws_ok {b : Bool} (h : l.ignoreWhitespace = .ok (b, l')) :
    l'.q = l.q ∧ l.pos ≤ l'.pos ∧ (l' = l ∨ l.pos < l'.pos) := by
  unfold ignoreWhitespace at h
  split at h
  · cases h
  · split at h
    · rename_i l1 hm
      cases h
      unfold acceptMatch at hm
      cases hr : reWhitespace l.restFrom with
      | none => simp [hr] at hm
      | some k =>
        simp [hr] at hm
        subst hm
        simp only [reWhitespace] at hr
        split at hr
        · cases hr
        · cases hr; simp [ignore]; omega
    · cases h; exact ⟨rfl, Nat.le_refl _, .inl rfl⟩

theorem acceptMatch_pos {re : List Char → Option Nat} (h : l.acceptMatch re = some l') :
    ∃ k, re l.restFrom = some k ∧ l'.pos = l.pos + k ∧ l'.q = l.q := by
  unfold acceptMatch at h
  cases hr : re l.restFrom with
  | none => simp [hr] at h
  | some k => simp [hr] at h; subst h; exact ⟨k, rfl, rfl, rfl⟩

theorem accept_pos {s : List Char} (h : l.accept s = some l') :
    l'.pos = l.pos + s.length ∧ l'.q = l.q := by
  unfold accept at h
  split at h
  · cases h; exact ⟨rfl, rfl⟩
  · cases h

@[simp] theorem emit_pos (k : TokKind) : (l.emit k).pos = l.pos := rfl
@[simp] theorem emit_q (k : TokKind) : (l.emit k).q = l.q := rfl
@[simp] theorem ignore_pos : l.ignore.pos = l.pos := rfl
@[simp] theorem ignore_start : l.ignore.start = l.pos := rfl
@[simp] theorem ignore_q : l.ignore.q = l.q := rfl
@[simp] theorem pushBracket_pos (c : Char) (i : Nat) : (l.pushBracket c i).pos = l.pos := rfl
@[simp] theorem pushBracket_q (c : Char) (i : Nat) : (l.pushBracket c i).q = l.q := rfl

end Lexer

/-- a scanner never matches the empty string -/
def ScanPos (re : List Char → Option Nat) : Prop := ∀ s k, re s = some k → 1 ≤ k

theorem reProperty_pos : ScanPos reProperty := by
  intro s k h
  unfold reProperty at h
  split at h
  · split at h <;> simp at h
    omega
  · simp at h

theorem reFunctionName_pos : ScanPos reFunctionName := by
  intro s k h
  unfold reFunctionName at h
  split at h
  · split at h <;> simp at h
    omega
  · simp at h

theorem reSignedDigits_pos : ScanPos reSignedDigits := by
  intro s k h
  unfold reSignedDigits at h
  split at h
  simp only at h
  split at h <;> simp at h
  omega

theorem reIndex_pos : ScanPos reIndex := reSignedDigits_pos

theorem reInt_pos : ScanPos reInt := by
  intro s k h
  unfold reInt at h
  split at h
  · simp at h
  · rename_i n hn
    have hn' := reSignedDigits_pos s n hn
    split at h
    · split at h
      · split at h
        simp only at h
        split at h <;> simp at h <;> omega
      · simp at h; omega
    · simp at h; omega

theorem floatTry_pos (colon : Nat) (r : List Char) (k : Nat)
    (h : floatTry colon r = some k) : 1 ≤ k := by
  unfold floatTry at h
  split at h
  · simp at h
  · split at h
    · simp only at h
      split at h <;> simp at h
      omega
    · simp at h

theorem reFloat_pos : ScanPos reFloat := by
  intro s k h
  unfold reFloat at h
  rcases orElse_some h with h | h
  · rw [reFloatAlt1_eq] at h
    split at h
    · rcases orElse_some h with h | h <;> exact floatTry_pos _ _ _ h
    · exact floatTry_pos _ _ _ h
  · unfold reFloatAlt2 at h
    split at h
    · simp at h
    · split at h
      · split at h
        · simp only at h
          split at h <;> simp at h
          omega
        · simp at h
      · simp at h

end JPV.Impl

namespace JPV.Impl

theorem reKeyword_pos {kw : List Char} (hk : 0 < kw.length) : ScanPos (reKeyword kw) := by
  intro s k h
  obtain ⟨rfl, _⟩ := reKeyword_some h
  exact hk

theorem Lexer.acceptMatch_lt {l l' : Lexer} {re : List Char → Option Nat} (hre : ScanPos re)
    (h : l.acceptMatch re = some l') : l.pos < l'.pos ∧ l'.q = l.q := by
  obtain ⟨k, hk, hp, hq⟩ := Lexer.acceptMatch_pos h
  have := hre _ _ hk
  exact ⟨by omega, hq⟩

macro "scan_pos" : tactic => `(tactic| first
  | exact reProperty_pos | exact reIndex_pos | exact reInt_pos | exact reFloat_pos
  | exact reFunctionName_pos | exact reKeyword_pos (by decide))

open Lean Elab Tactic in
/-- derive pointer facts from every hypothesis about a helper call -/
elab "lex_facts" : tactic => withMainContext do
  let lctx ← getLCtx
  for d in lctx do
    if d.isImplementationDetail then continue
    let t ← Term.exprToSyntax d.toExpr
    evalTactic (← `(tactic| first
      | have := Lexer.ws_ok $t
      | have := Lexer.backup_pos $t
      | have := Lexer.adv_pos_some $t
      | have := Lexer.adv_none $t
      | have := Lexer.acceptMatch_lt (by scan_pos) $t
      | have := Lexer.accept_pos $t
      | skip))

def rank : LState → Lexer → Nat
  | .segment, l => if l.peek = some '.' then 0 else 2
  | .filter, _ => 1
  | .strStart _ _, _ => 2
  | _, _ => 0

def Prog (s : LState) (l : Lexer) : StepResult → Prop
  | .ok (l', some s') => l.pos < l'.pos ∨ (l'.pos = l.pos ∧ rank s' l' < rank s l)
  | _ => True

theorem len_and : "&&".toList.length = 2 := by decide
theorem len_or : "||".toList.length = 2 := by decide
theorem len_true : "true".toList.length = 4 := by decide
theorem len_false : "false".toList.length = 5 := by decide
theorem len_null : "null".toList.length = 4 := by decide

macro "lex_leaf" : tactic => `(tactic| (
  try simp only [ne_eq, Classical.not_not] at *
  lex_facts
  simp only [Prog, goto, stop, pure, Except.pure, Lexer.emit_pos, Lexer.ignore_pos, Lexer.pushBracket_pos,
    Lexer.adv_start, Lexer.ignore_start, len_and, len_or, len_true, len_false, len_null] at *
  try omega))

theorem lexBracketed_prog (l : Lexer) : Prog .bracketed l (lexBracketed l) := by
  unfold lexBracketed
  simp only [Lexer.next_eq, bind, Except.bind]
  repeat' split
  all_goals lex_leaf

theorem lexRoot_prog (l : Lexer) : Prog .root l (lexRoot l) := by
  unfold lexRoot
  simp only [Lexer.next_eq]
  repeat' split
  all_goals lex_leaf

theorem lexSegment_prog (l : Lexer) : Prog .segment l (lexSegment l) := by
  unfold lexSegment
  simp only [Lexer.next_eq, bind, Except.bind]
  repeat' split
  all_goals lex_leaf
  rename_i v1 _ _ _ c hc1 _ hpk _ _ v hb hw ha hbk
  rcases hw.2.2 with h | h
  · right
    have hp := congrArg Lexer.pos h
    refine ⟨by omega, ?_⟩
    have : l.peek ≠ some '.' := by
      rw [← h, hpk]; intro hc; cases hc; exact hc1 rfl
    simp [rank, this]
  · left; omega

theorem lexDescendant_prog (l : Lexer) : Prog .descendant l (lexDescendant l) := by
  unfold lexDescendant
  simp only [Lexer.next_eq, bind, Except.bind]
  repeat' split
  all_goals lex_leaf

theorem lexShorthand_prog (l : Lexer) : Prog .shorthand l (lexShorthand l) := by
  unfold lexShorthand
  simp only [Lexer.next_eq, bind, Except.bind]
  repeat' split
  all_goals lex_leaf

theorem lexFilterDefault_prog (l : Lexer) : Prog .filter l (lexFilterDefault l) := by
  unfold lexFilterDefault
  simp only [Lexer.next_eq]
  repeat' split
  all_goals lex_leaf
  left
  refine Nat.lt_of_lt_of_le ?_ Lexer.adv_pos_ge
  simp only [Lexer.emit_pos, Lexer.pushBracket_pos]
  omega

theorem Prog.filter_mono {l l' : Lexer} {r : StepResult} (h : Prog .filter l' r) (hp : l.pos ≤ l'.pos) :
    Prog .filter l r := by
  cases r with
  | error e => trivial
  | ok x =>
    obtain ⟨l2, st⟩ := x
    cases st with
    | none => trivial
    | some s' =>
      simp only [Prog] at *
      have h1 : rank .filter l = 1 := rfl
      have h2 : rank .filter l' = 1 := rfl
      rw [h1]; rw [h2] at h; omega

theorem lexFilter_prog (l : Lexer) : Prog .filter l (lexFilter l) := by
  unfold lexFilter
  simp only [Lexer.next_eq, bind, Except.bind]
  repeat' split
  all_goals lex_leaf
  · simp [rank]; omega
  · rename_i v1 _ _ hpk _ v hb hw ha hbk
    rcases hw.2.2 with h | h
    · right
      have hp := congrArg Lexer.pos h
      refine ⟨by omega, ?_⟩
      have : v.peek = some '.' := by
        rw [← hpk]; exact Lexer.peek_congr (by simp [hbk.2.1]) (by omega)
      simp [rank, this]
    · left; omega
  · rename_i v hb hw ha hbk
    exact (lexFilterDefault_prog v).filter_mono (by omega)

theorem lexStrStart_prog (q : Char) (f : Bool) (l : Lexer) : Prog (.strStart q f) l (lexStrStart q f l) := by
  unfold lexStrStart
  simp only [Lexer.next_eq]
  repeat' split
  all_goals lex_leaf
  · rename_i h
    right
    have hn : (l.ignore.emit (strKind q)).peek = none := by
      have : (l.ignore.emit (strKind q)).peek = l.ignore.peek := Lexer.peek_congr rfl rfl
      rw [this]; simpa using h
    rw [Lexer.adv_none hn]
    refine ⟨rfl, ?_⟩
    cases f <;> simp [rank, retState]
  · simp [rank]

theorem lexStrLoop_prog (q : Char) (f : Bool) (l : Lexer) : Prog (.strLoop q f) l (lexStrLoop q f l) := by
  unfold lexStrLoop
  simp only [Lexer.next_eq, bind, Except.bind]
  repeat' split
  all_goals lex_leaf
  rename_i ch hpk _ _ _ v hb ha hbk
  left
  have hn : (v.emit (strKind q)).peek = some ch := by
    rw [← hpk]; exact Lexer.peek_congr (by simp [hbk.2.1]) (by simp; omega)
  rw [Lexer.adv_pos_some hn]
  simp; omega

theorem step_prog (s : LState) (l : Lexer) : Prog s l (step s l) := by
  cases s with
  | root => exact lexRoot_prog l
  | segment => exact lexSegment_prog l
  | descendant => exact lexDescendant_prog l
  | shorthand => exact lexShorthand_prog l
  | bracketed => exact lexBracketed_prog l
  | filter => exact lexFilter_prog l
  | strStart q f => exact lexStrStart_prog q f l
  | strLoop q f => exact lexStrLoop_prog q f l


/-! ### the only exceptions the state functions raise are JSONPathSyntaxError / JSONPathLexerError -/

def KindOK : StepResult → Prop
  | .error e => e.kind = .syntax ∨ e.kind = .lexer
  | .ok _ => True

theorem Lexer.backup_err_kind {l : Lexer} {e : Err} (h : l.backup = .error e) : e.kind = .syntax := by
  unfold Lexer.backup at h
  split at h <;> cases h
  rfl

theorem Lexer.ws_err_kind {l : Lexer} {e : Err} (h : l.ignoreWhitespace = .error e) : e.kind = .lexer := by
  unfold Lexer.ignoreWhitespace at h
  split at h
  · cases h; rfl
  · split at h <;> cases h

macro "kind_leaf" : tactic => `(tactic| first
  | trivial
  | exact .inl (Lexer.backup_err_kind ‹_›)
  | exact .inr (Lexer.ws_err_kind ‹_›))

theorem lexFilterDefault_kind (l : Lexer) : KindOK (lexFilterDefault l) := by
  unfold lexFilterDefault
  repeat' split
  all_goals kind_leaf

theorem step_kind (s : LState) (l : Lexer) : KindOK (step s l) := by
  cases s
  all_goals
    simp only [step]
    (first | unfold lexRoot | unfold lexSegment | unfold lexDescendant | unfold lexShorthand | unfold lexBracketed | unfold lexFilter | unfold lexStrStart | unfold lexStrLoop)
    simp only [Lexer.next_eq, bind, Except.bind, pure, Except.pure]
    repeat' split
    all_goals first | kind_leaf | exact lexFilterDefault_kind _

/-! ### fuel -/

def pot (n : Nat) (s : LState) (l : Lexer) : Nat := 3 * (n - l.pos) + rank s l

theorem rank_le (s : LState) (l : Lexer) : rank s l ≤ 2 := by
  unfold rank; repeat' split
  all_goals omega

/-- the potential decreases at every call, so `run` does not exhaust a fuel above it; and
the errors it reports are syntax / lexer errors -/
theorem run_total {n : Nat} : ∀ (fuel : Nat) (s : LState) (l : Lexer), Lexer.Inv n l → pot n s l < fuel →
    match run fuel s l with
    | .ok _ => True
    | .error e => e.kind = .syntax ∨ e.kind = .lexer := by
  intro fuel
  induction fuel with
  | zero => intro s l _ h; omega
  | succ fuel ih =>
    intro s l h hp
    have hs := step_ok s h
    have hk := step_kind s l
    have hg := step_prog s l
    cases he : step s l with
    | error e => rw [he] at hk; simp only [run, he]; exact hk
    | ok x =>
      obtain ⟨l', st⟩ := x
      rw [he] at hs hg
      cases st with
      | none => simp only [run, he]
      | some s' =>
        simp only [run, he]
        refine ih s' l' hs.1 ?_
        have h1 := hs.1.pos_le
        have h2 := h.pos_le
        have h3 := rank_le s' l'
        simp only [Prog] at hg
        unfold pot at *
        omega

end JPV.Impl
