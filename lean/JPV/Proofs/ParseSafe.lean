/-
`Proofs.ParseSafe` — a small Hoare logic for the parser monad `P`: `exec` equations, the
token-stream invariant `SInv`, triples `T G b m Q b'`, their rules, and the `t_auto`
symbolic-execution tactic; specifications of the non-recursive parser helpers.
-/
import JPV.Proofs.LexInv
namespace JPV.Impl
open JPV

/-- run a parser action on a stream -/
def exec {α} (m : P α) (st : TStream) : Except Err α × TStream := m.run.run st

theorem exec_pure {α} (a : α) (st : TStream) : exec (pure a : P α) st = (.ok a, st) := rfl

theorem exec_bind {α β} (m : P α) (f : α → P β) (st : TStream) :
    exec (m >>= f) st = match exec m st with
      | (.ok a, st') => exec (f a) st'
      | (.error e, st') => (.error e, st') := by
  simp only [exec, ExceptT.run_bind, StateT.run_bind]
  show (match (m.run.run st) with | (a, s) => _) = _
  rcases h : m.run.run st with ⟨r, st'⟩
  cases r <;> rfl

theorem exec_throw {α} (e : Err) (st : TStream) : exec (throw e : P α) st = (.error e, st) := rfl
theorem exec_cur (st : TStream) : exec cur st = (.ok st.cur, st) := rfl
theorem exec_nextTok (st : TStream) : exec nextTok st = (.ok st.next.1, st.next.2) := rfl
theorem exec_peekTok (st : TStream) : exec peekTok st = (.ok st.peek.1, st.peek.2) := rfl
theorem exec_pushTok (t : Token) (st : TStream) : exec (pushTok t) st = (.ok (), st.push t) := rfl
theorem exec_tryCatch {α} (m : P α) (h : Err → P α) (st : TStream) :
    exec (tryCatch m h) st = match exec m st with
      | (.ok a, st') => (.ok a, st')
      | (.error e, st') => exec (h e) st' := by
  simp only [exec, tryCatch, tryCatchThe, MonadExceptOf.tryCatch, ExceptT.tryCatch, ExceptT.run_mk, StateT.run_bind]
  rcases h : m.run.run st with ⟨r, st'⟩
  have h' : StateT.run (m : StateT TStream Id (Except Err α)) st = (r, st') := h
  cases r <;> (rw [h']; rfl)


/-! ### the stream invariant -/

/-- the tokens still to be delivered, in order -/
def TStream.all (st : TStream) : List Token := st.cur :: (st.pushed ++ st.rest)

/-- every token held by the stream is good (so none is the synthetic EOF/INIT token), at most one
token is queued, and the token sequence ends with an EOF-kind token -/
structure SInv (G : Token → Prop) (st : TStream) : Prop where
  good : ∀ t ∈ st.all, G t
  short : st.pushed.length ≤ 1
  last : ∃ t, st.all.getLast? = some t ∧ t.kind = .eof

section
variable {G : Token → Prop} {st : TStream}

theorem SInv.cur (h : SInv G st) : G st.cur := h.good _ (by simp [TStream.all])

theorem TStream.next_fst (st : TStream) : st.next.1 = st.cur := by
  unfold TStream.next
  split
  · rfl
  · split
    · rfl
    · split <;> rfl

theorem SInv.next (h : SInv G st) : SInv G st.next.2 ∧ st.next.2.pushed = [] ∧ G st.next.1 := by
  refine ⟨?_, ?_, by rw [TStream.next_fst]; exact h.cur⟩
  · obtain ⟨cur, pushed, rest⟩ := st
    obtain ⟨hg, hs, t, hl, hk⟩ := h
    simp only [TStream.all] at hg hl hs
    cases pushed with
    | cons p ps =>
      cases ps with
      | cons _ _ => simp at hs
      | nil =>
        refine ⟨?_, by simp [TStream.next], t, ?_, hk⟩
        · intro x hx; apply hg; simp [TStream.next, TStream.all] at hx ⊢; exact .inr hx
        · simpa [TStream.next, TStream.all, List.getLast?_cons_cons] using hl
    | nil =>
      by_cases hc : cur.kind = .eof
      · simp only [TStream.next, hc, if_true]
        exact ⟨hg, by simp, t, hl, hk⟩
      · cases rest with
        | nil =>
          simp at hl; subst hl; exact absurd hk hc
        | cons r rs =>
          simp only [TStream.next, hc, if_false]
          refine ⟨?_, by simp, t, ?_, hk⟩
          · intro x hx; apply hg; simp [TStream.all] at hx ⊢; exact .inr hx
          · simpa [TStream.all, List.getLast?_cons_cons] using hl
  · obtain ⟨cur, pushed, rest⟩ := st
    have hs := h.short
    simp only at hs
    cases pushed with
    | cons p ps =>
      cases ps with
      | cons _ _ => simp at hs
      | nil => rfl
    | nil =>
      simp only [TStream.next]
      split
      · rfl
      · split <;> rfl

theorem SInv.push (h : SInv G st) (he : st.pushed = []) {t : Token} (ht : G t) : SInv G (st.push t) := by
  obtain ⟨cur, pushed, rest⟩ := st
  obtain ⟨hg, hs, t', hl, hk⟩ := h
  simp only at he; subst he
  simp only [TStream.all] at hg hl
  refine ⟨?_, by simp [TStream.push], t', ?_, hk⟩
  · intro x hx
    simp [TStream.push, TStream.all] at hx
    rcases hx with rfl | hx
    · exact ht
    · apply hg; simpa using hx
  · simpa [TStream.push, TStream.all, List.getLast?_cons_cons] using hl

theorem SInv.peek (h : SInv G st) : SInv G st.peek.2 ∧ G st.peek.1 := by
  obtain ⟨h1, h2, h3⟩ := h.next
  have hc := h.cur
  simp only [TStream.peek]
  rw [TStream.next_fst]
  exact ⟨h1.push h2 hc, h1.cur⟩

end

/-! ### Hoare triples for parser actions -/

/-- an error is acceptable if, whenever it is a `JSONPathError`, it carries a good token -/
def ErrG (G : Token → Prop) (e : Err) : Prop :=
  e.kind.isJSONPathError = true → ∃ t, e.tok = some t ∧ G t

/-- flag `true`: the pushed-token queue is known to be empty -/
def FlagOK (b : Bool) (st : TStream) : Prop := b = true → st.pushed = []

/-- `T G b m Q b'`: started on a stream satisfying `SInv G` (with an empty queue if `b`), `m` keeps
`SInv G`; a result satisfies `Q` (and the queue is empty if `b'`); an error satisfies `ErrG G` -/
def T {α} (G : Token → Prop) (b : Bool) (m : P α) (Q : α → Prop) (b' : Bool) : Prop :=
  ∀ st, SInv G st → FlagOK b st →
    match exec m st with
    | (.ok a, st') => SInv G st' ∧ Q a ∧ FlagOK b' st'
    | (.error e, st') => SInv G st' ∧ ErrG G e

section
variable {G : Token → Prop} {α β : Type} {b b' : Bool}

theorem ErrG.of_tok {k : ErrKind} {t : Token} (h : G t) : ErrG G ⟨k, some t⟩ := fun _ => ⟨t, rfl, h⟩
theorem ErrG.py (s : String) : ErrG G ⟨.py s, none⟩ := fun h => by simp [ErrKind.isJSONPathError] at h
theorem ErrG.fuel : ErrG G ⟨.fuel, none⟩ := fun h => by simp [ErrKind.isJSONPathError] at h

theorem T_pure {a : α} {Q : α → Prop} (h : Q a) : T G b (pure a) Q b := by
  intro st hs hf; simp only [exec_pure]; exact ⟨hs, h, hf⟩

theorem T_pure_false {a : α} {Q : α → Prop} (h : Q a) : T G b (pure a) Q false := by
  intro st hs hf; simp only [exec_pure]; exact ⟨hs, h, fun h => by cases h⟩

theorem T_throw {e : Err} {Q : α → Prop} (h : ErrG G e) : T G b (throw e : P α) Q b' := by
  intro st hs hf; simp only [exec_throw]; exact ⟨hs, h⟩

theorem T_failAt {k : ErrKind} {t : Token} {Q : α → Prop} (h : G t) : T G b (failAt k t : P α) Q b' :=
  T_throw (ErrG.of_tok h)

theorem T_keyError {Q : α → Prop} : T G b (keyError : P α) Q b' := T_throw (ErrG.py _)
theorem T_outOfFuel {Q : α → Prop} : T G b (outOfFuel : P α) Q b' := T_throw ErrG.fuel

theorem T_bind {m : P α} {f : α → P β} {Q₁ : α → Prop} {b₁ : Bool} {Q : β → Prop}
    (h₁ : T G b m Q₁ b₁) (h₂ : ∀ a, Q₁ a → T G b₁ (f a) Q b') : T G b (m >>= f) Q b' := by
  intro st hs hf
  have := h₁ st hs hf
  rw [exec_bind]
  rcases hm : exec m st with ⟨r, st'⟩
  rw [hm] at this
  cases r with
  | error e => exact this
  | ok a => exact h₂ a this.2.1 st' this.1 this.2.2

theorem T_throw_bind {e : Err} {f : α → P β} {Q : β → Prop} (h : ErrG G e) :
    T G b ((throw e : P α) >>= f) Q b' := by
  intro st hs hf; simp only [exec_bind, exec_throw]; exact ⟨hs, h⟩

theorem T_failAt_bind {k : ErrKind} {t : Token} {f : α → P β} {Q : β → Prop} (h : G t) :
    T G b ((failAt k t : P α) >>= f) Q b' := T_throw_bind (ErrG.of_tok h)

theorem T_keyError_bind {f : α → P β} {Q : β → Prop} : T G b ((keyError : P α) >>= f) Q b' :=
  T_throw_bind (ErrG.py _)

theorem T_cur : T G b cur G b := by
  intro st hs hf; simp only [exec_cur]; exact ⟨hs, hs.cur, hf⟩

theorem T_nextTok : T G b nextTok G true := by
  intro st hs hf; simp only [exec_nextTok]; exact ⟨hs.next.1, hs.next.2.2, fun _ => hs.next.2.1⟩

theorem T_peekTok : T G b peekTok G false := by
  intro st hs hf; simp only [exec_peekTok]; exact ⟨hs.peek.1, hs.peek.2, fun h => by cases h⟩

theorem T_pushTok {t : Token} (h : G t) : T G true (pushTok t) (fun _ => True) false := by
  intro st hs hf; simp only [exec_pushTok]; exact ⟨hs.push (hf rfl) h, trivial, fun h => by cases h⟩

theorem T_weaken_pre {m : P α} {Q : α → Prop} (h : T G false m Q b') : T G b m Q b' :=
  fun st hs _ => h st hs (fun h => by cases h)

theorem T_weaken_post {m : P α} {Q Q' : α → Prop} (h : T G b m Q b') (hq : ∀ a, Q a → Q' a) :
    T G b m Q' false := by
  intro st hs hf
  have := h st hs hf
  rcases hm : exec m st with ⟨r, st'⟩
  rw [hm] at this
  cases r with
  | error e => exact this
  | ok a => exact ⟨this.1, hq a this.2.1, fun h => by cases h⟩

theorem T_tryCatch {m : P α} {h : Err → P α} {Q : α → Prop}
    (h₁ : T G b m Q b') (h₂ : ∀ e, ErrG G e → T G false (h e) Q b') : T G b (tryCatch m h) Q b' := by
  intro st hs hf
  have := h₁ st hs hf
  rw [exec_tryCatch]
  rcases hm : exec m st with ⟨r, st'⟩
  rw [hm] at this
  cases r with
  | ok a => exact this
  | error e => exact h₂ e this.2 st' this.1 (fun h => by cases h)

theorem T_forIn {γ σ : Type} (l : List γ) (init : σ) (body : γ → σ → P (ForInStep σ))
    (h : ∀ x s, T G b (body x s) (fun _ => True) b) : T G b (forIn l init body) (fun _ => True) b := by
  induction l generalizing init with
  | nil => simp only [List.forIn_nil]; exact T_pure trivial
  | cons x xs ih =>
    simp only [List.forIn_cons]
    refine T_bind (h x init) ?_
    intro r _
    cases r with
    | done s => exact T_pure trivial
    | yield s => exact ih s

end
/-! ### symbolic execution -/

/-- solve `T G b x ?Q ?b'` for an atomic action `x` -/
syntax "t_atom" : tactic
macro_rules | `(tactic| t_atom) => `(tactic| first
  | exact T_cur | exact T_nextTok | exact T_peekTok | exact T_pushTok (by assumption))

/-- one step of symbolic execution of a `T` goal -/
syntax "t_step" : tactic
syntax "t_step_core" : tactic
macro_rules | `(tactic| t_step) => `(tactic| first
  | with_reducible t_step_core
  | dsimp only
  | split)

macro_rules | `(tactic| t_step_core) => `(tactic| first
  | exact T_failAt_bind (by assumption)
  | exact T_keyError_bind
  | exact T_throw_bind (ErrG.py _)
  | exact T_throw (ErrG.py _)
  | (refine T_bind (by t_atom) ?_; intro _ _)
  | (refine T_bind (T_forIn _ _ _ ?_) ?_ <;> intro _ _)
  | exact T_failAt (by assumption)
  | exact T_keyError
  | exact T_outOfFuel
  | exact T_pure True.intro
  | exact T_pure (by assumption)
  | exact T_pure_false True.intro
  | exact T_pure_false (by assumption)
  | (t_atom; done)
  | exact T_weaken_post (by t_atom) (fun _ _ => True.intro)
  | exact T_weaken_post (by t_atom) (fun _ h => h))

macro "t_auto" : tactic => `(tactic| repeat' t_step)

variable {G : Token → Prop} {b : Bool}

theorem T_expect (k : TokKind) : T G b (expect k) (fun _ => True) b := by
  unfold expect
  t_auto

theorem T_expectPeek (k : TokKind) : T G b (expectPeek k) (fun _ => True) false := by
  unfold expectPeek
  t_auto

theorem T_expectPeekNot (k : TokKind) : T G b (expectPeekNot k) (fun _ => True) false := by
  unfold expectPeekNot
  t_auto


theorem T_maybeIndex {t : Token} (ht : G t) : T G b (maybeIndex t) (fun _ => True) b := by
  unfold maybeIndex
  t_auto

theorem T_intOf (t : Token) : T G b (intOf t) (fun _ => True) b := by
  unfold intOf
  t_auto

theorem T_decodeAt {t : Token} (ht : G t) : T G b (decodeAt t) (fun _ => True) b := by
  unfold decodeAt
  t_auto

theorem T_raiseForUncompared (env : Env) {x : PExpr} (hx : G x.tok) :
    T G b (raiseForUncompared env x) (fun _ => True) b := by
  unfold raiseForUncompared
  t_auto

theorem T_raiseForNonComparable (env : Env) (x : PExpr) {tok : Token} (ht : G tok) :
    T G b (raiseForNonComparable env x tok) (fun _ => True) b := by
  unfold raiseForNonComparable
  t_auto

theorem T_validateSignature (env : Env) {tok : Token} (ht : G tok) (args : List Expr) :
    T G b (validateSignature env tok args) (fun _ => True) b := by
  unfold validateSignature
  t_auto

macro_rules | `(tactic| t_atom) => `(tactic| first
  | exact T_expect _ | exact T_expectPeek _ | exact T_expectPeekNot _
  | exact T_maybeIndex (by assumption) | exact T_intOf _ | exact T_decodeAt (by assumption)
  | exact T_raiseForUncompared _ (by assumption) | exact T_raiseForNonComparable _ _ (by assumption)
  | exact T_validateSignature _ (by assumption) _)

theorem T_parseLiteral (h : Handler) : T G b (parseLiteral h) (fun x => G x.tok) b := by
  unfold parseLiteral
  t_auto

theorem T_parseSlice (env : Env) : T G b (parseSlice env) (fun _ => True) false := by
  unfold parseSlice
  t_auto


/-! ### the mutually recursive parser functions -/

/-- the specification of all fourteen functions at one fuel level -/
structure AllSafe (G : Token → Prop) (env : Env) (fuel : Nat) : Prop where
  parseQuery : ∀ inFilter acc, T G true (parseQuery env inFilter fuel acc) (fun _ => True) false
  parseSelectors : ∀ b, T G b (parseSelectors env fuel) (fun _ => True) false
  parseBracketed : ∀ b open_ acc, G open_ → T G b (parseBracketed env open_ fuel acc) (fun _ => True) false
  parseFilterSelector : ∀ b, T G b (parseFilterSelector env fuel) (fun _ => True) false
  parseByHandler : ∀ b h, T G b (parseByHandler env h fuel) (fun x => G x.tok) false
  parseFilterExpr : ∀ b prec, T G b (parseFilterExpr env prec fuel) (fun x => G x.tok) false
  filterExprLoop : ∀ b prec left, G left.tok →
    T G b (filterExprLoop env prec fuel left) (fun x => G x.tok) false
  parseInfix : ∀ b left, G left.tok → T G b (parseInfix env left fuel) (fun x => G x.tok) false
  parsePrefix : ∀ b, T G b (parsePrefix env fuel) (fun x => G x.tok) false
  parseGrouped : ∀ b, T G b (parseGrouped env fuel) (fun x => G x.tok) false
  groupedLoop : ∀ b x, G x.tok → T G b (groupedLoop env fuel x) (fun x => G x.tok) false
  parseFunction : ∀ b, T G b (parseFunction env fuel) (fun x => G x.tok) false
  functionArgs : ∀ b args parens, T G b (functionArgs env fuel args parens) (fun _ => True) false
  functionArgInfix : ∀ b x, G x.tok → T G b (functionArgInfix env fuel x) (fun x => G x.tok) false

macro_rules | `(tactic| t_atom) => `(tactic| first
  | exact T_parseSlice _ | exact T_parseLiteral _
  | exact AllSafe.parseQuery (by assumption) _ _
  | exact AllSafe.parseSelectors (by assumption) _
  | exact AllSafe.parseBracketed (by assumption) _ _ _ (by assumption)
  | exact AllSafe.parseFilterSelector (by assumption) _
  | exact AllSafe.parseByHandler (by assumption) _ _
  | exact AllSafe.parseFilterExpr (by assumption) _ _
  | exact AllSafe.filterExprLoop (by assumption) _ _ _ (by assumption)
  | exact AllSafe.parseInfix (by assumption) _ _ (by assumption)
  | exact AllSafe.parsePrefix (by assumption) _
  | exact AllSafe.parseGrouped (by assumption) _
  | exact AllSafe.groupedLoop (by assumption) _ _ (by assumption)
  | exact AllSafe.parseFunction (by assumption) _
  | exact AllSafe.functionArgs (by assumption) _ _ _
  | exact AllSafe.functionArgInfix (by assumption) _ _ (by assumption))


end JPV.Impl
