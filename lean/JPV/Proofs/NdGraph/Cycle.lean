/-
Stage 2a: on a heap in which the start node reaches a cycle, the nondeterministic traversal never
completes normally — whatever the script and the fuel.  Invariant: the queue holds a container
from which a cycle is reachable.
-/
import JPV.Proofs.NdGraph.Basic
namespace JPV.Proofs.NdG
open JPV JPV.Impl JPV.Impl.G

/-- `n` lies on a cycle or reaches one -/
def Live (g : Heap) (n : Nat) : Prop := ∃ m, (n = m ∨ Reach g n m) ∧ Reach g m m

theorem Live.kid {g : Heap} {n : Nat} (hl : Live g n) : ∃ key c, (key, c) ∈ g.kids n ∧ Live g c := by
  obtain ⟨m, hnm, hc⟩ := hl
  have hr : Reach g n m := by
    rcases hnm with rfl | hr
    · exact hc
    · exact hr
  cases hr with
  | one hm => exact ⟨_, _, hm, m, Or.inl rfl, hc⟩
  | step hm hr' => exact ⟨_, _, hm, m, Or.inr hr', hc⟩

/-- a live container has a live container child (in the full heap view) -/
theorem Live.kid' {h : NdHeap} {n : Nat} (hl : Live h.toHeap n) :
    ∃ key c, (key, Child.ref c) ∈ h.kids n ∧ Live h.toHeap c := by
  obtain ⟨key, c, hm, hc⟩ := hl.kid
  exact ⟨key, c, mem_toHeap.1 hm, hc⟩

/-- the queue holds a live container -/
def QLive (h : NdHeap) (q : List (NdNode × Nat)) : Prop :=
  ∃ loc i d, ((loc, Child.ref i), d) ∈ q ∧ Live h.toHeap i

/-- the children loop: nothing leaves the queue; if it completes, all grandchildren are in the queue;
it completes or raises JSONPathRecursionError -/
theorem now_spec (h : NdHeap) (max : Int) (depth : Nat) (cs : List NdNode) :
    ∀ (q : List (NdNode × Nat)) (s : ND.Script) (acc : List NdNode),
      (∀ e ∈ q, e ∈ (ndVisitNow h max depth cs q s acc).1) ∧
      ((ndVisitNow h max depth cs q s acc).2.2.2 = none →
        ∀ c ∈ cs, ∀ g ∈ kidsOf h c, (g, depth + 2) ∈ (ndVisitNow h max depth cs q s acc).1) ∧
      ((ndVisitNow h max depth cs q s acc).2.2.2 = none ∨
        (ndVisitNow h max depth cs q s acc).2.2.2 = some .recursion) := by
  induction cs with
  | nil =>
    intro q s acc
    rw [now_nil]
    refine ⟨fun e he => he, fun _ c hc => ?_, Or.inl rfl⟩
    cases hc
  | cons c cs ih =>
    intro q s acc
    cases hd : ndIsDeep max c.2 (depth + 1) with
    | true =>
      rw [now_deep h max depth c cs q s acc hd]
      refine ⟨fun e he => he, fun hn => ?_, Or.inr rfl⟩
      cases hn
    | false =>
      rw [now_cons h max depth c cs q s acc hd]
      have hmq := NDp.mergeQ_perm q ((ndKids h c s).1.map (fun g => (g, depth + 2))) (ndKids h c s).2
      obtain ⟨ih1, ih2, ih3⟩ := ih
        (ND.mergeQ q ((ndKids h c s).1.map (fun g => (g, depth + 2))) (ndKids h c s).2).1
        (ND.mergeQ q ((ndKids h c s).1.map (fun g => (g, depth + 2))) (ndKids h c s).2).2 (acc ++ [c])
      refine ⟨fun e he => ih1 e (hmq.2.1.subset he), fun hn c' hc' g hg => ?_, ih3⟩
      rcases List.mem_cons.1 hc' with rfl | hc''
      · apply ih1
        apply hmq.2.2.subset
        exact List.mem_map.2 ⟨g, (kids_perm h c' s).mem_iff.2 hg, rfl⟩
      · exact ih2 hn c' hc'' g hg

/-- with a live container in the queue the loop never completes normally -/
theorem loop_never_none (h : NdHeap) (max : Int) (fuel : Nat) :
    ∀ (q : List (NdNode × Nat)) (s : ND.Script) (acc : List NdNode), QLive h q →
      (ndLoop h max fuel q s acc).2 ≠ none := by
  induction fuel with
  | zero => intro q s acc _; rw [loop_zero]; exact fun hh => by cases hh
  | succ fuel ih =>
    intro q s acc hq
    cases q with
    | nil =>
      obtain ⟨_, _, _, hm, _⟩ := hq
      cases hm
    | cons e q =>
      obtain ⟨node, depth⟩ := e
      cases hd : ndIsDeep max node.2 depth with
      | true => rw [loop_deep h max fuel node depth q s acc hd]; exact fun hh => by cases hh
      | false =>
        cases hc : (ND.coin s).1 with
        | false =>
          rw [loop_false h max fuel node depth q s acc hd hc]
          apply ih
          obtain ⟨loc, i, d, hm, hl⟩ := hq
          rcases List.mem_cons.1 hm with heq | hm'
          · cases heq
            obtain ⟨key, c, hk, hlc⟩ := hl.kid'
            refine ⟨loc ++ [key], c, depth + 1, List.mem_append_right _ ?_, hlc⟩
            exact List.mem_map.2 ⟨_, mem_kids _ hk, rfl⟩
          · exact ⟨loc, i, d, List.mem_append_left _ hm', hl⟩
        | true =>
          obtain ⟨n1, n2, n3⟩ := now_spec h max depth (ndKids h node (ND.coin s).2).1 q
            (ndKids h node (ND.coin s).2).2 (acc ++ [node])
          rcases hv : ndVisitNow h max depth (ndKids h node (ND.coin s).2).1 q
            (ndKids h node (ND.coin s).2).2 (acc ++ [node]) with ⟨q', s', acc', err⟩
          rw [hv] at n1 n2 n3
          cases err with
          | some e =>
            rw [loop_true_err h max fuel node depth q s acc hd hc hv]
            exact fun hh => by cases hh
          | none =>
            rw [loop_true_ok h max fuel node depth q s acc hd hc hv]
            apply ih
            obtain ⟨loc, i, d, hm, hl⟩ := hq
            rcases List.mem_cons.1 hm with heq | hm'
            · cases heq
              obtain ⟨key, c, hk, hlc⟩ := hl.kid'
              obtain ⟨key2, c2, hk2, hlc2⟩ := hlc.kid'
              exact ⟨(loc ++ [key]) ++ [key2], c2, depth + 2,
                n2 rfl (loc ++ [key], .ref c) (mem_kids _ hk) _ (mem_kidsOf hk2), hlc2⟩
            · exact ⟨loc, i, d, n1 _ hm', hl⟩

/-- the traversal started at a container that lies on a cycle or reaches one never completes normally -/
theorem visit_never_none (h : NdHeap) (max : Int) (fuel root : Nat) (s : ND.Script)
    (hl : Live h.toHeap root) : (ndVisit h max fuel root s).2 ≠ none := by
  rw [visit_eq]
  apply loop_never_none
  obtain ⟨key, c, hk, hlc⟩ := hl.kid'
  exact ⟨[] ++ [key], c, 1, List.mem_map.2 ⟨_, mem_kids _ hk, rfl⟩, hlc⟩

/-! ### the only outcomes: completion, JSONPathRecursionError, out of fuel -/

theorem loop_outcomes (h : NdHeap) (max : Int) (fuel : Nat) :
    ∀ (q : List (NdNode × Nat)) (s : ND.Script) (acc : List NdNode),
      (ndLoop h max fuel q s acc).2 = none ∨ (ndLoop h max fuel q s acc).2 = some .recursion ∨
        (ndLoop h max fuel q s acc).2 = some .fuel := by
  induction fuel with
  | zero => intro q s acc; rw [loop_zero]; exact Or.inr (Or.inr rfl)
  | succ fuel ih =>
    intro q s acc
    cases q with
    | nil => rw [loop_nil]; exact Or.inl rfl
    | cons e q =>
      obtain ⟨node, depth⟩ := e
      cases hd : ndIsDeep max node.2 depth with
      | true => rw [loop_deep h max fuel node depth q s acc hd]; exact Or.inr (Or.inl rfl)
      | false =>
        cases hc : (ND.coin s).1 with
        | false => rw [loop_false h max fuel node depth q s acc hd hc]; exact ih _ _ _
        | true =>
          obtain ⟨_, _, n3⟩ := now_spec h max depth (ndKids h node (ND.coin s).2).1 q
            (ndKids h node (ND.coin s).2).2 (acc ++ [node])
          rcases hv : ndVisitNow h max depth (ndKids h node (ND.coin s).2).1 q
            (ndKids h node (ND.coin s).2).2 (acc ++ [node]) with ⟨q', s', acc', err⟩
          rw [hv] at n3
          cases err with
          | some e =>
            rw [loop_true_err h max fuel node depth q s acc hd hc hv]
            rcases n3 with n3 | n3
            · cases n3
            · exact Or.inr (Or.inl n3)
          | none =>
            rw [loop_true_ok h max fuel node depth q s acc hd hc hv]
            exact ih _ _ _

theorem visit_outcomes (h : NdHeap) (max : Int) (fuel root : Nat) (s : ND.Script) :
    (ndVisit h max fuel root s).2 = none ∨ (ndVisit h max fuel root s).2 = some .recursion ∨
      (ndVisit h max fuel root s).2 = some .fuel := by
  rw [visit_eq]
  exact loop_outcomes h max fuel _ _ _

end JPV.Proofs.NdG
