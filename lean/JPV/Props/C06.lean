/-
C06 — Comparison operators implement the RFC 9535 comparison table.

Property text: "For any two comparands (each a JSON value of any kind, or
'nothing' from an empty singular query or a function), '==' holds iff both are
nothing or both are values equal as JSON values (numbers by numeric value,
strings by code points, arrays element-wise, objects member-wise, and never
across kinds, so true is not 1 at any depth); '<' holds only between two numbers
or two strings in their natural order; '!=' is the negation of '==', '>' is '<'
with sides swapped, '<=' and '>=' are '<' or '>' joined with '=='. Booleans,
null, arrays and objects are never ordered."

The implementation side is `Impl.compare` on dynamically typed objects
(`_compare/_eq/_json_eq/_lt`); the RFC side is `Spec.compare` on `Option Json`.
-/
import JPV.Props.Common
import JPV.Proofs.Compare
namespace JPV.Props
open JPV

/-- Full statement: for all comparands and all six operators the implementation's
answer is the RFC table's. -/
def C06_statement : Prop :=
  ∀ (a b : Impl.Obj) (op : COp), Comparand a → Comparand b → ObjWF a → ObjWF b →
    Impl.compare a op b = Spec.compare (floorObj a) op (floorObj b)

theorem C06 : C06_statement := by
  intro a b op ha hb wa wb
  exact Proofs.compare_correct a b op ha hb wa wb

/-- `_json_eq` is RFC equality of JSON values (never across kinds, at any depth). -/
theorem C06_jsonEq (a b : Json) (ha : a.WF) (hb : b.WF) :
    Impl.jsonEq a b = Spec.jsonEq a b := Proofs.jsonEq_correct a b ha hb

/-- RFC equality is an equivalence relation on well-formed values (so "equal as
JSON values" means what it says). -/
theorem C06_jsonEq_refl (a : Json) (ha : a.WF) : Spec.jsonEq a a = true :=
  Proofs.specJsonEq_refl a ha

theorem C06_jsonEq_symm (a b : Json) (ha : a.WF) (hb : b.WF) :
    Spec.jsonEq a b = Spec.jsonEq b a := Proofs.specJsonEq_symm a b ha hb

/-- true is not 1, at any depth: a boolean is equal only to the same boolean. -/
theorem C06_bool_only_bool (b : Bool) (j : Json) :
    Impl.jsonEq (.bool b) j = true ↔ j = .bool b := Proofs.jsonEq_bool_iff b j

/-- booleans, null, arrays and objects are never ordered -/
theorem C06_unordered (a b : Json) (h : ¬ ((∃ x y, a = .num x ∧ b = .num y) ∨ (∃ x y, a = .str x ∧ b = .str y))) :
    Impl.ltObj (.val a) (.val b) = false := Proofs.lt_only_num_str a b h

/-- Non-vacuity: the hypotheses are met by nested values differing only in a
bool-vs-number leaf, and the answer there is "not equal". -/
example : Comparand (.val (.arr [.num (Num.ofInt 1)])) ∧ ObjWF (.val (.arr [.bool true])) ∧
    Impl.compare (.val (.arr [.num (Num.ofInt 1)])) .eq (.val (.arr [.bool true])) = false := by
  refine ⟨.val _, ?_, by decide⟩
  simp [ObjWF, Json.WF, Json.WFArr]

end JPV.Props
