/-
Helper lemmas for `IRegexpAbnfEquiv`: `classItems` / `classExpr` against `CCE1s` / `CharClassExpr`.
-/
import JPV.Proofs.IReAbnf.Lex
namespace JPV.Proofs.IReAbnf
open JPV JPV.Spec JPV.Spec.IRe JPV.Spec.IReAbnf

/-- the body of `classItems` after the two closing cases -/
def classStep (fuel : Nat) (inp : List Char) (acc : List CCItem) : Option (List CCItem × List Char) :=
  match catEsc inp with
  | some ((neg, p), r) => classItems fuel r (.cat neg p :: acc)
  | none =>
    match ccChar inp with
    | none => none
    | some (lo, r) =>
      match r with
      | '-' :: r2 =>
        match r2 with
        | ']' :: _ => classItems fuel r (.range lo lo :: acc)
        | _ =>
          match ccChar r2 with
          | some (hi, r3) => if lo ≤ hi then classItems fuel r3 (.range lo hi :: acc) else none
          | none => none
      | _ => classItems fuel r (.range lo lo :: acc)

theorem classItems_succ' (fuel : Nat) (inp : List Char) (acc : List CCItem) :
    classItems (fuel + 1) inp acc =
    match inp with
    | ']' :: r => some (acc.reverse, r)
    | '-' :: ']' :: r => some ((CCItem.range 45 45 :: acc).reverse, r)
    | _ => classStep fuel inp acc := rfl

theorem classItems_other (fuel : Nat) (c : Char) (t : List Char) (acc : List CCItem)
    (h1 : c ≠ ']') (h2 : c ≠ '-') : classItems (fuel + 1) (c :: t) acc = classStep fuel (c :: t) acc := by
  rw [classItems_succ']
  split
  · rename_i heq; injection heq with e _; exact absurd e h1
  · rename_i heq; injection heq with e _; exact absurd e h2
  · rfl

/-- what may follow a class item: a hyphen only as the trailing hyphen -/
def ClassTail (t : List Char) : Prop := ∀ r2, t = '-' :: r2 → ∃ r3, r2 = ']' :: r3

theorem catEsc_backslash {inp : List Char} {x} (h : catEsc inp = some x) : ∃ t, inp = '\\' :: t := by
  unfold catEsc at h
  split at h
  · exact ⟨_, rfl⟩
  · simp at h

theorem catEsc_none_of_ne {c : Char} (t : List Char) (h : c ≠ '\\') : catEsc (c :: t) = none := by
  cases hx : catEsc (c :: t) with
  | none => rfl
  | some x =>
    obtain ⟨t', e⟩ := catEsc_backslash hx
    injection e with e _
    exact absurd e h

/-- after a single class character: the continuation -/
theorem classStep_single {s : List Char} {n : Nat} (hs : CCchar s n) (tail : List Char) (ht : ClassTail tail)
    (fuel : Nat) (acc : List CCItem) :
    classStep fuel (s ++ tail) acc = classItems fuel tail (.range n n :: acc) := by
  have hcat : catEsc (s ++ tail) = none := by
    rcases CCchar_cases hs with ⟨c, rfl, hc, rfl⟩ | ⟨c, rfl, hc⟩
    · exact catEsc_none_of_ne _ (isCCchar_ne hc).1
    · exact catEsc_none_of_singleEsc _ hc
  unfold classStep
  rw [hcat, ccChar_complete hs]
  simp only
  split
  · rename_i r2
    obtain ⟨r3, rfl⟩ := ht _ rfl
    rfl
  · rfl

theorem CCchar_head {s : List Char} {n : Nat} (hs : CCchar s n) :
    ∃ c t, s = c :: t ∧ c ≠ ']' ∧ c ≠ '-' := by
  rcases CCchar_cases hs with ⟨c, rfl, hc, rfl⟩ | ⟨c, rfl, hc⟩
  · exact ⟨c, [], rfl, (isCCchar_ne hc).2.1, (isCCchar_ne hc).2.2⟩
  · exact ⟨'\\', [c], rfl, by decide, by decide⟩

theorem classStep_range {s t : List Char} {lo hi : Nat} (hs : CCchar s lo) (ht : CCchar t hi) (hle : lo ≤ hi)
    (tail : List Char) (fuel : Nat) (acc : List CCItem) :
    classStep fuel ((s ++ '-' :: t) ++ tail) acc = classItems fuel tail (.range lo hi :: acc) := by
  have hcat : catEsc (s ++ ('-' :: (t ++ tail))) = none := by
    rcases CCchar_cases hs with ⟨c, rfl, hc, rfl⟩ | ⟨c, rfl, hc⟩
    · exact catEsc_none_of_ne _ (isCCchar_ne hc).1
    · exact catEsc_none_of_singleEsc _ hc
  obtain ⟨c, t', rfl, hc1, hc2⟩ := CCchar_head ht
  have e : (s ++ '-' :: (c :: t')) ++ tail = s ++ ('-' :: ((c :: t') ++ tail)) := by simp
  rw [e]
  unfold classStep
  rw [hcat, ccChar_complete hs]
  simp only
  split
  · rename_i heq
    simp only [List.cons_append] at heq
    injection heq with heq _
    exact absurd heq hc1
  · rw [ccChar_complete ht]
    simp [hle]

theorem CharClassEsc_head {s : List Char} {neg : Bool} {p : Str} (h : CharClassEsc s neg p) :
    ∃ t, s = '\\' :: t := by
  cases h <;> exact ⟨_, rfl⟩

theorem CCE1_head {s : List Char} {i : CCItem} (h : CCE1 s i) :
    ∃ c t, s = c :: t ∧ c ≠ ']' ∧ c ≠ '-' := by
  cases h with
  | single hs => exact CCchar_head hs
  | range hs ht _ =>
    obtain ⟨c, t', rfl, h1, h2⟩ := CCchar_head hs
    exact ⟨c, _, rfl, h1, h2⟩
  | esc he =>
    obtain ⟨t, rfl⟩ := CharClassEsc_head he
    exact ⟨'\\', t, rfl, by decide, by decide⟩

theorem classItems_item {s : List Char} {i : CCItem} (h : CCE1 s i) (tail : List Char) (ht : ClassTail tail)
    (fuel : Nat) (acc : List CCItem) :
    classItems (fuel + 1) (s ++ tail) acc = classItems fuel tail (i :: acc) := by
  obtain ⟨c, t, e, h1, h2⟩ := CCE1_head h
  have e' : s ++ tail = c :: (t ++ tail) := by rw [e]; rfl
  rw [e', classItems_other _ _ _ _ h1 h2, ← e']
  cases h with
  | single hs => exact classStep_single hs tail ht fuel acc
  | range hs ht' hle => exact classStep_range hs ht' hle tail fuel acc
  | esc he =>
    unfold classStep
    rw [catEsc_complete he]

theorem classTail_of_CCE1s {body : List Char} {is : List CCItem} (h : CCE1s body is) (trail : Bool)
    (rest : List Char) : ClassTail (body ++ (if trail then ['-'] else []) ++ ']' :: rest) := by
  intro r2 heq
  cases h with
  | nil =>
    cases trail
    · simp at heq
    · simp at heq; exact ⟨rest, heq.symm⟩
  | cons h1 _ =>
    obtain ⟨c, t, rfl, _, h2⟩ := CCE1_head h1
    simp only [List.cons_append, List.append_assoc] at heq
    injection heq with heq _
    exact absurd heq h2

theorem classItems_complete {body : List Char} {is : List CCItem} (h : CCE1s body is) (trail : Bool)
    (rest : List Char) : ∀ (fuel : Nat) (acc : List CCItem), body.length + 2 ≤ fuel →
    classItems fuel (body ++ (if trail then ['-'] else []) ++ ']' :: rest) acc =
      some (acc.reverse ++ is ++ (if trail then [.range 45 45] else []), rest) := by
  induction h with
  | nil =>
    intro fuel acc hf
    obtain ⟨f, rfl⟩ : ∃ f, fuel = f + 1 := ⟨fuel - 1, by omega⟩
    cases trail <;> simp [classItems_succ']
  | @cons s body' i is' h1 h2 ih =>
    intro fuel acc hf
    obtain ⟨c, t, e, _, _⟩ := CCE1_head h1
    have hlen : 1 ≤ s.length := by rw [e]; simp
    obtain ⟨f, rfl⟩ : ∃ f, fuel = f + 1 := ⟨fuel - 1, by omega⟩
    have e2 : s ++ body' ++ (if trail then ['-'] else []) ++ ']' :: rest
        = s ++ (body' ++ (if trail then ['-'] else []) ++ ']' :: rest) := by simp
    rw [e2, classItems_item h1 _ (classTail_of_CCE1s h2 trail rest), ih f _ (by simp at hf; omega)]
    simp

theorem classItems_sound : ∀ (fuel : Nat) (inp : List Char) (acc : List CCItem) (items : List CCItem) (rest : List Char),
    classItems fuel inp acc = some (items, rest) →
    ∃ (body : List Char) (is : List CCItem) (trail : Bool),
      inp = body ++ (if trail then ['-'] else []) ++ ']' :: rest ∧ CCE1s body is ∧
      items = acc.reverse ++ is ++ (if trail then [.range 45 45] else []) := by
  intro fuel
  induction fuel with
  | zero => intro inp acc items rest h; simp [classItems] at h
  | succ fuel ih =>
    intro inp acc items rest h
    rw [classItems_succ'] at h
    unfold classStep at h
    split at h
    · injection h with h; injection h with h1 h2; subst h1 h2
      exact ⟨[], [], false, rfl, .nil, by simp⟩
    · injection h with h; injection h with h1 h2; subst h1 h2
      exact ⟨[], [], true, rfl, .nil, by simp⟩
    · split at h
      · rename_i neg p r hcat
        obtain ⟨s, rfl, hs⟩ := catEsc_sound hcat
        obtain ⟨body, is, trail, rfl, hb, rfl⟩ := ih _ _ _ _ h
        exact ⟨s ++ body, _ :: is, trail, by simp, .cons (.esc hs) hb, by simp⟩
      · split at h
        · simp at h
        · rename_i lo r hcc
          obtain ⟨s, rfl, hs⟩ := ccChar_sound hcc
          split at h
          · rename_i r2
            split at h
            · obtain ⟨body, is, trail, hb1, hb, rfl⟩ := ih _ _ _ _ h
              exact ⟨s ++ body, _ :: is, trail, by rw [hb1]; simp, .cons (.single hs) hb, by simp⟩
            · split at h
              · rename_i hi r3 hcc2
                obtain ⟨t, rfl, ht⟩ := ccChar_sound hcc2
                split at h
                · rename_i hle
                  obtain ⟨body, is, trail, rfl, hb, rfl⟩ := ih _ _ _ _ h
                  exact ⟨(s ++ '-' :: t) ++ body, _ :: is, trail, by simp, .cons (.range hs ht hle) hb, by simp⟩
                · simp at h
              · simp at h
          · obtain ⟨body, is, trail, rfl, hb, rfl⟩ := ih _ _ _ _ h
            exact ⟨s ++ body, _ :: is, trail, by simp, .cons (.single hs) hb, by simp⟩

/-! ### classExpr -/

/-- `classExpr` after the optional negation sign -/
def classBody (neg : Bool) (r : List Char) : Option (Re × List Char) :=
  match r with
  | ']' :: _ => none
  | '-' :: r2 =>
    (classItems (r2.length + 1) r2 [.range 45 45]).map (fun p => (.cls neg p.1, p.2))
  | _ => (classItems (r.length + 1) r []).map (fun p => (.cls neg p.1, p.2))

theorem classExpr_neg (r : List Char) : classExpr ('^' :: r) = classBody true r := rfl

theorem classExpr_pos (inp : List Char) (h : ∀ r, inp ≠ '^' :: r) : classExpr inp = classBody false inp := by
  unfold classExpr
  split
  · rename_i neg r heq
    split at heq
    · exact absurd rfl (h _)
    · injection heq with h1 h2
      subst h1 h2
      rfl

theorem classBody_sound {neg : Bool} {r : List Char} {re : Re} {rest : List Char}
    (h : classBody neg r = some (re, rest)) :
    ∃ (first body : List Char) (i : CCItem) (is : List CCItem) (trail : Bool),
      r = first ++ body ++ (if trail then ['-'] else []) ++ ']' :: rest ∧
      ((first = ['-'] ∧ i = .range 45 45) ∨ CCE1 first i) ∧ CCE1s body is ∧
      re = .cls neg (i :: is ++ (if trail then [.range 45 45] else [])) := by
  unfold classBody at h
  split at h
  · simp at h
  · rename_i r2
    cases hc : classItems (r2.length + 1) r2 [.range 45 45] with
    | none => simp [hc] at h
    | some x =>
      obtain ⟨items, rest'⟩ := x
      simp [hc] at h
      obtain ⟨rfl, rfl⟩ := h
      obtain ⟨body, is, trail, rfl, hb, rfl⟩ := classItems_sound _ _ _ _ _ hc
      exact ⟨['-'], body, .range 45 45, is, trail, by simp, Or.inl ⟨rfl, rfl⟩, hb, by simp⟩
  · rename_i hn1 hn2
    cases hc : classItems (r.length + 1) r [] with
    | none => simp [hc] at h
    | some x =>
      obtain ⟨items, rest'⟩ := x
      simp [hc] at h
      obtain ⟨rfl, rfl⟩ := h
      obtain ⟨body, is, trail, rfl, hb, rfl⟩ := classItems_sound _ _ _ _ _ hc
      cases hb with
      | nil =>
        cases trail
        · exact absurd rfl (hn1 _)
        · exact absurd rfl (hn2 _)
      | @cons s body' i is' h1 h2 =>
        exact ⟨s, body', i, is', trail, by simp, Or.inr h1, h2, by simp⟩

theorem classExpr_sound {inp : List Char} {re : Re} {rest : List Char}
    (h : classExpr inp = some (re, rest)) : ∃ s, '[' :: inp = s ++ rest ∧ CharClassExpr s re := by
  by_cases hneg : ∃ r, inp = '^' :: r
  · obtain ⟨r, rfl⟩ := hneg
    rw [classExpr_neg] at h
    obtain ⟨first, body, i, is, trail, rfl, hf, hb, rfl⟩ := classBody_sound h
    refine ⟨'[' :: ((if true then ['^'] else []) ++ first ++ body ++ (if trail then ['-'] else []) ++ [']']), ?_,
      true, first, body, i, is, trail, rfl, hf, ?_, hb, rfl⟩
    · simp
    · intro hh; cases hh
  · have hneg' : ∀ r, inp ≠ '^' :: r := fun r e => hneg ⟨r, e⟩
    rw [classExpr_pos _ hneg'] at h
    obtain ⟨first, body, i, is, trail, rfl, hf, hb, rfl⟩ := classBody_sound h
    refine ⟨'[' :: ((if false then ['^'] else []) ++ first ++ body ++ (if trail then ['-'] else []) ++ [']']), ?_,
      false, first, body, i, is, trail, rfl, hf, ?_, hb, rfl⟩
    · simp
    · intro _ hh
      cases first with
      | nil => simp at hh
      | cons c t =>
        simp at hh
        subst hh
        exact hneg' _ (by simp; rfl)

theorem classBody_complete {first body : List Char} {i : CCItem} {is : List CCItem} (trail neg : Bool)
    (hf : (first = ['-'] ∧ i = .range 45 45) ∨ CCE1 first i) (hb : CCE1s body is) (rest : List Char) :
    classBody neg (first ++ body ++ (if trail then ['-'] else []) ++ ']' :: rest) =
      some (.cls neg (i :: is ++ (if trail then [.range 45 45] else [])), rest) := by
  rcases hf with ⟨rfl, rfl⟩ | hf
  · show classBody neg ('-' :: (body ++ (if trail then ['-'] else []) ++ ']' :: rest)) = _
    unfold classBody
    simp only
    rw [classItems_complete hb trail rest _ _ (by simp; omega)]
    simp
  · obtain ⟨c, t, e, h1, h2⟩ := CCE1_head hf
    have hall := classItems_complete (CCE1s.cons hf hb) trail rest
      ((first ++ body ++ (if trail then ['-'] else []) ++ ']' :: rest).length + 1) [] (by simp; omega)
    subst e
    unfold classBody
    split
    · rename_i heq; simp only [List.cons_append] at heq; injection heq with heq _; exact absurd heq h1
    · rename_i heq; simp only [List.cons_append] at heq; injection heq with heq _; exact absurd heq h2
    · rw [hall]; simp

theorem classExpr_complete {s : List Char} {re : Re} (h : CharClassExpr s re) :
    ∃ s', s = '[' :: s' ∧ ∀ rest, classExpr (s' ++ rest) = some (re, rest) := by
  obtain ⟨neg, first, body, i, is, trail, rfl, hf, hhead, hb, rfl⟩ := h
  refine ⟨_, rfl, ?_⟩
  intro rest
  cases neg with
  | true =>
    have := classBody_complete trail true hf hb rest
    simp only [if_true, List.cons_append, List.append_assoc, List.nil_append] at this ⊢
    rw [classExpr_neg]
    exact this
  | false =>
    have := classBody_complete trail false hf hb rest
    have hne : ∀ r, (first ++ body ++ (if trail then ['-'] else []) ++ ']' :: rest) ≠ '^' :: r := by
      intro r e
      have hh := hhead rfl
      rcases hf with ⟨rfl, _⟩ | hf
      · simp at e
      · obtain ⟨c, t, rfl, _, _⟩ := CCE1_head hf
        simp only [List.cons_append] at e
        injection e with e _
        subst e
        exact hh rfl
    rw [← classExpr_pos _ hne] at this
    simpa using this

end JPV.Proofs.IReAbnf
