/-
`Proofs.Sv.PiSegs` (copy of `Sf.PiSegs` for the relations of `Sv.Shape`) — inversion of the segment/selector functions (`parseFilterSelector`,
`parseBracketed`, `parseSelectors`, `parseQuery`) with filters, one fuel step each.
-/
import JPV.Proofs.Sf.PiSegs
import JPV.Proofs.Sv.PiFun
set_option linter.unusedSimpArgs false
set_option linter.unusedVariables false
namespace JPV.Proofs.Sv
open JPV JPV.Impl JPV.Proofs.Rq JPV.Proofs.Cs JPV.Proofs.Ss JPV.Proofs.Sf

variable [SigC]

/-! ### `parseFilterSelector` -/

theorem filterSel_step {env : Env} {f : Nat} (ih : FilterExprInv env f) : FilterSelInv env (f + 1) := by
  intro c rest st' sel he hk h
  rw [parseFilterSelector] at h
  have hne : c.kind ≠ .eof := by rw [hk]; simp
  obtain ⟨tok, st1, hN, h2⟩ := exec_bind_ok h
  clear h
  obtain ⟨rfl, t, rest', rfl, he', rfl⟩ := fresh_nextTok he hne hN
  clear hN
  obtain ⟨x, st2, hE, h3⟩ := exec_bind_ok h2
  clear h2
  obtain ⟨ts, y, more, rfl, hrdy, hy, hLI, hstop⟩ := ih _ _ _ _ _ he' hE
  clear hE
  have fin : ∀ {st : TStream}, exec (if isLiteral x.e = true then
        (failAt ErrKind.syntax x.tok : P Unit) >>= fun _ => pure (Selector.filter x.e)
      else pure (Selector.filter x.e)) st = (.ok sel, st') →
      sel = .filter x.e ∧ isLiteral x.e = false ∧ st' = st := by
    intro st h
    obtain ⟨hl, h⟩ := exec_guard_ok h
    obtain ⟨rfl, rfl⟩ := exec_pure_ok h
    exact ⟨rfl, by simpa using hl, rfl⟩
  have hfin : sel = .filter x.e ∧ isLiteral x.e = false ∧ st' = st2 := by
    dsimp only at h3
    split at h3
    · split at h3
      · exact fin (exec_guard_ok h3).2
      · exact fin h3
    · exact fin h3
  obtain ⟨rfl, hl, rfl⟩ := hfin
  exact ⟨x.e, t :: ts, y, more, rfl, rfl, hLI.or_loose hl, hrdy, hy⟩

/-! ### one selector -/

theorem selPart_invF {env : Env} {f : Nat} (ihF : FilterSelInv env f) {c : Token} {rest : List Token}
    {st' : TStream} {sel : Selector} (he : EndsEof (c :: rest))
    (h : exec (selPart env f c) ⟨c, [], rest⟩ = (.ok sel, st')) :
    ∃ ts x more, SelD sel ts ∧ c :: rest = ts ++ x :: more ∧ Ready x more st' ∧ EndsEof (x :: more) := by
  by_cases hf : c.kind = .filter
  · have : selPart env f c = parseFilterSelector env f := by
      simp [selPart, hf]
    rw [this] at h
    obtain ⟨e, ts, x, more, rfl, rfl, hor, hrdy, hx⟩ := ihF _ _ _ _ he hf h
    exact ⟨c :: ts, x, more, .filter c e ts hf hor, rfl, hrdy, hx⟩
  · obtain ⟨ts, x, more, hs, htoks, hrdy, hx⟩ := selPart_inv_nf he hf h
    exact ⟨ts, x, more, .leaf _ _ hs, htoks, hrdy, hx⟩

/-! ### the bracketed selection loop -/

theorem bracketed_step {env : Env} {f : Nat} (ihF : FilterSelInv env f) (ihB : BracketedInv env f) :
    BracketedInv env (f + 1) := by
  intro o acc c rest st' r he h
  rw [parseBracketed_eq] at h
  obtain ⟨c0, st0, h1, h2⟩ := exec_bind_ok h
  clear h
  obtain ⟨rfl, rfl⟩ := exec_cur_ok h1
  clear h1
  by_cases hk : c.kind = .rbracket
  · simp only [hk, if_true] at h2
    obtain ⟨hacc, h3⟩ := exec_guard_ok h2
    obtain ⟨rfl, rfl⟩ := exec_pure_ok h3
    refine ⟨[], [], c, rest, by simp, rfl, hk, rfl, he, fun _ => ⟨rfl, rfl, ?_⟩, fun hn => absurd hk hn⟩
    rintro rfl; exact hacc rfl
  · simp only [hk, if_false] at h2
    obtain ⟨sel, st1, hS, hT⟩ := exec_bind_ok h2
    clear h2
    obtain ⟨ts1, x, more, hsel, htoks, hready, hx⟩ := selPart_invF ihF he hS
    clear hS
    rcases tailPart_inv hready hx hT with ⟨hxk, h3⟩ | ⟨hxk, y, more', rfl, hy, h3⟩
    · obtain ⟨sels, ts2, rb, more2, hr, htoks2, hrb, rfl, herb, hA, -⟩ := ihB _ _ _ _ _ _ hx h3
      obtain ⟨rfl, rfl, -⟩ := hA hxk
      simp only [List.nil_append, List.cons.injEq] at htoks2
      obtain ⟨rfl, rfl⟩ := htoks2
      exact ⟨[sel], ts1, x, more, by simpa using hr, htoks, hrb, rfl, herb, fun hc => absurd hc hk,
        fun _ => ⟨sel, [], ts1, [], rfl, by simp, hsel, .nil⟩⟩
    · obtain ⟨sels, ts2, rb, more2, hr, htoks2, hrb, rfl, herb, -, hB⟩ := ihB _ _ _ _ _ _ hx.tail h3
      obtain ⟨s, ss, u1, u2, rfl, rfl, hs, hmore⟩ := hB hy
      refine ⟨sel :: s :: ss, ts1 ++ (x :: (u1 ++ u2)), rb, more2, by simpa using hr, ?_, hrb, rfl, herb,
        fun hc => absurd hc hk,
        fun _ => ⟨sel, s :: ss, ts1, x :: (u1 ++ u2), rfl, rfl, hsel, .cons x s ss u1 u2 hxk hs hmore⟩⟩
      rw [htoks, htoks2]; simp

/-! ### `parseSelectors` -/

theorem selectors_step {env : Env} {f : Nat} (ihB : BracketedInv env f) : SelectorsInv env (f + 1) := by
  intro c rest sels st' he h
  rw [parseSelectors] at h
  obtain ⟨c0, st0, h1, h2⟩ := exec_bind_ok h
  clear h
  obtain ⟨rfl, rfl⟩ := exec_cur_ok h1
  clear h1
  dsimp only at h2
  by_cases hp : c.kind = .property
  · simp only [hp, if_true] at h2
    obtain ⟨rfl, rfl⟩ := exec_pure_ok h2
    exact .inl ⟨hp, rfl, rfl⟩
  · simp only [hp, if_false] at h2
    by_cases hw : c.kind = .wild
    · simp only [hw, if_true] at h2
      obtain ⟨rfl, rfl⟩ := exec_pure_ok h2
      exact .inr (.inl ⟨hw, rfl, rfl⟩)
    · simp only [hw, if_false] at h2
      by_cases hl : c.kind = .lbracket
      · simp only [hl, if_true] at h2
        refine .inr (.inr (.inl ⟨hl, ?_⟩))
        obtain ⟨tok, st1, hN, h3⟩ := exec_bind_ok h2
        clear h2
        have hne : c.kind ≠ .eof := by rw [hl]; simp
        obtain ⟨rfl, t, rest', rfl, he', rfl⟩ := fresh_nextTok he hne hN
        clear hN
        obtain ⟨sels', ts, rb, more, hr, htoks, hrb, rfl, herb, hA, hB2⟩ := ihB _ _ _ _ _ _ he' h3
        simp only [List.nil_append] at hr
        subst hr
        have htk : t.kind ≠ .rbracket := fun ht => (hA ht).2.2 rfl
        obtain ⟨s, ss, t1, t2, rfl, rfl, hs, hmore⟩ := hB2 htk
        exact ⟨t1 ++ t2, rb, more, htoks, hrb, rfl, herb, .mk s ss t1 t2 hs hmore⟩
      · simp only [hl, if_false] at h2
        obtain ⟨rfl, rfl⟩ := exec_pure_ok h2
        exact .inr (.inr (.inr ⟨hp, hw, hl, rfl, rfl⟩))

/-! ### the segment loop -/

theorem query_step {env : Env} {f : Nat} (ihS : SelectorsInv env f) (ihQ : QueryInv env f) :
    QueryInv env (f + 1) := by
  intro b acc c rest st' r he h
  rw [parseQuery] at h
  obtain ⟨c0, st0, h1, h2⟩ := exec_bind_ok h
  clear h
  obtain ⟨rfl, rfl⟩ := exec_cur_ok h1
  clear h1
  by_cases hd : c.kind = .doubleDot
  · simp only [hd, if_true] at h2
    obtain ⟨_, st1, hN1, h3⟩ := exec_bind_ok h2
    clear h2
    have hne : c.kind ≠ .eof := by rw [hd]; simp
    obtain ⟨rfl, t, rest', rfl, he', rfl⟩ := fresh_nextTok he hne hN1
    clear hN1
    obtain ⟨sels, st2, hS, h4⟩ := exec_bind_ok h3
    clear h3
    obtain ⟨_, st3, hN3, hQ⟩ := exec_bind_ok h4
    clear h4
    have hN3 := exec_nextTok_ok hN3
    rcases ihS _ _ _ _ he' hS with ⟨hp, rfl, rfl⟩ | ⟨hw, rfl, rfl⟩ |
      ⟨hl, ts0, rb, more0, rfl, hrb, rfl, herb, hsels⟩ | ⟨hp, hw, hl, rfl, rfl⟩
    · have hte : t.kind ≠ .eof := by rw [hp]; simp
      obtain ⟨u, rest'', rfl, he'', rfl⟩ := next_step he' hte hN3
      obtain ⟨segs, ts, x, more, rfl, htoks, hsegs, rfl, hx⟩ := ihQ _ _ _ _ _ _ he'' hQ
      refine ⟨_ :: segs, [c, t] ++ ts, x, more, by simp, by rw [htoks]; simp,
        .cons _ _ [c, t] ts (.descName c t hd hp) hsegs, rfl, hx⟩
    · have hte : t.kind ≠ .eof := by rw [hw]; simp
      obtain ⟨u, rest'', rfl, he'', rfl⟩ := next_step he' hte hN3
      obtain ⟨segs, ts, x, more, rfl, htoks, hsegs, rfl, hx⟩ := ihQ _ _ _ _ _ _ he'' hQ
      refine ⟨_ :: segs, [c, t] ++ ts, x, more, by simp, by rw [htoks]; simp,
        .cons _ _ [c, t] ts (.descWild c t hd hw) hsegs, rfl, hx⟩
    · have hrbe : rb.kind ≠ .eof := by rw [hrb]; simp
      obtain ⟨u, more', rfl, he'', rfl⟩ := next_step herb hrbe hN3
      obtain ⟨segs, ts, x, more, rfl, htoks, hsegs, rfl, hx⟩ := ihQ _ _ _ _ _ _ he'' hQ
      refine ⟨_ :: segs, (c :: t :: (ts0 ++ [rb])) ++ ts, x, more, by simp, by rw [htoks]; simp,
        .cons _ _ _ ts (.descBrack c t rb sels ts0 hd hl hrb hsels) hsegs, rfl, hx⟩
    · by_cases hte : t.kind = .eof
      · have : (TStream.next ⟨t, [], rest'⟩).2 = ⟨t, [], rest'⟩ := by simp [TStream.next, hte]
        rw [this] at hN3
        subst hN3
        obtain ⟨rfl, rfl⟩ := parseQuery_eof hte hQ
        exact ⟨[.desc []], [c], t, rest', rfl, rfl, .descEof c hd, rfl, he'⟩
      · obtain ⟨u, rest'', rfl, he'', rfl⟩ := next_step he' hte hN3
        obtain ⟨segs, ts, x, more, rfl, htoks, hsegs, rfl, hx⟩ := ihQ _ _ _ _ _ _ he'' hQ
        refine ⟨_ :: segs, [c, t] ++ ts, x, more, by simp, by rw [htoks]; simp,
          .cons _ _ [c, t] ts (.descBad c t hd hp hw hl hte) hsegs, rfl, hx⟩
  · simp only [hd, if_false] at h2
    by_cases hb : (decide (c.kind = .lbracket) || decide (c.kind = .property) ||
        decide (c.kind = .wild)) = true
    · simp only [hb, if_true] at h2
      obtain ⟨sels, st2, hS, h4⟩ := exec_bind_ok h2
      clear h2
      obtain ⟨_, st3, hN3, hQ⟩ := exec_bind_ok h4
      clear h4
      have hN3 := exec_nextTok_ok hN3
      rcases ihS _ _ _ _ he hS with ⟨hp, rfl, rfl⟩ | ⟨hw, rfl, rfl⟩ |
        ⟨hl, ts0, rb, more0, rfl, hrb, rfl, herb, hsels⟩ | ⟨hp, hw, hl, rfl, rfl⟩
      · have hte : c.kind ≠ .eof := by rw [hp]; simp
        obtain ⟨u, rest'', rfl, he'', rfl⟩ := next_step he hte hN3
        obtain ⟨segs, ts, x, more, rfl, htoks, hsegs, rfl, hx⟩ := ihQ _ _ _ _ _ _ he'' hQ
        refine ⟨_ :: segs, [c] ++ ts, x, more, by simp, by rw [htoks]; simp,
          .cons _ _ [c] ts (.dotName c hp) hsegs, rfl, hx⟩
      · have hte : c.kind ≠ .eof := by rw [hw]; simp
        obtain ⟨u, rest'', rfl, he'', rfl⟩ := next_step he hte hN3
        obtain ⟨segs, ts, x, more, rfl, htoks, hsegs, rfl, hx⟩ := ihQ _ _ _ _ _ _ he'' hQ
        refine ⟨_ :: segs, [c] ++ ts, x, more, by simp, by rw [htoks]; simp,
          .cons _ _ [c] ts (.dotWild c hw) hsegs, rfl, hx⟩
      · have hrbe : rb.kind ≠ .eof := by rw [hrb]; simp
        obtain ⟨u, more', rfl, he'', rfl⟩ := next_step herb hrbe hN3
        obtain ⟨segs, ts, x, more, rfl, htoks, hsegs, rfl, hx⟩ := ihQ _ _ _ _ _ _ he'' hQ
        refine ⟨_ :: segs, (c :: (ts0 ++ [rb])) ++ ts, x, more, by simp, by rw [htoks]; simp,
          .cons _ _ _ ts (.brack c rb sels ts0 hl hrb hsels) hsegs, rfl, hx⟩
      · exfalso
        simp [hp, hw, hl] at hb
    · simp only [hb, if_false, Bool.false_eq_true] at h2
      cases b with
      | true =>
        simp [exec_bind, exec_pure, exec_pushTok, exec_map, TStream.push] at h2
        obtain ⟨rfl, rfl⟩ := h2
        exact ⟨[], [], c, rest, by simp, rfl, .nil, rfl, he⟩
      | false =>
        simp [exec_pure] at h2
        obtain ⟨rfl, rfl⟩ := h2
        exact ⟨[], [], c, rest, by simp, rfl, .nil, rfl, he⟩

end JPV.Proofs.Sv
