/-
Shape verdicts (`cmpShape*`, `singularSegs`) versus the looseness parameter.
-/
import JPV.Proofs.Abnf.Chars
namespace JPV.Proofs.AbnfP
open JPV JPV.Spec

/-- shape verdict acceptable at looseness `l` -/
def OK (l : Bool) (sh : Bool × Bool) : Prop := sh.1 = true ∧ (l = false → sh.2 = false)

theorem OK_triv (l : Bool) : OK l (true, false) := ⟨rfl, fun _ => rfl⟩

theorem OK_and {l : Bool} {a b : Bool × Bool} : OK l (a.1 && b.1, a.2 || b.2) ↔ OK l a ∧ OK l b := by
  unfold OK
  constructor
  · rintro ⟨h1, h2⟩
    simp only [Bool.and_eq_true] at h1
    refine ⟨⟨h1.1, fun hl => ?_⟩, ⟨h1.2, fun hl => ?_⟩⟩
    · have := h2 hl; simp only [Bool.or_eq_false_iff] at this; exact this.1
    · have := h2 hl; simp only [Bool.or_eq_false_iff] at this; exact this.2
  · rintro ⟨⟨h1, h2⟩, ⟨h3, h4⟩⟩
    refine ⟨by simp [h1, h3], fun hl => by simp [h2 hl, h4 hl]⟩

theorem OK_segs_child {l : Bool} {sels b rest} :
    OK l (cmpShapeSegs (.child sels b :: rest)) ↔ OK l (cmpShapeSels sels) ∧ OK l (cmpShapeSegs rest) := by
  rw [cmpShapeSegs]; exact OK_and
theorem OK_segs_desc {l : Bool} {sels rest} :
    OK l (cmpShapeSegs (.desc sels :: rest)) ↔ OK l (cmpShapeSels sels) ∧ OK l (cmpShapeSegs rest) := by
  rw [cmpShapeSegs]; exact OK_and
theorem OK_sels_cons {l : Bool} {s ss} :
    OK l (cmpShapeSels (s :: ss)) ↔ OK l (cmpShapeSel s) ∧ OK l (cmpShapeSels ss) := by
  rw [cmpShapeSels]; exact OK_and
theorem OK_args_cons {l : Bool} {a as} :
    OK l (cmpShapeArgs (a :: as)) ↔ OK l (cmpShapeExpr a) ∧ OK l (cmpShapeArgs as) := by
  rw [cmpShapeArgs]; exact OK_and
theorem OK_and_expr {l : Bool} {a b} :
    OK l (cmpShapeExpr (.and a b)) ↔ OK l (cmpShapeExpr a) ∧ OK l (cmpShapeExpr b) := by
  rw [cmpShapeExpr]; exact OK_and
theorem OK_or_expr {l : Bool} {a b} :
    OK l (cmpShapeExpr (.or a b)) ↔ OK l (cmpShapeExpr a) ∧ OK l (cmpShapeExpr b) := by
  rw [cmpShapeExpr]; exact OK_and
theorem OK_cmp_expr {l : Bool} {op a b} :
    OK l (cmpShapeExpr (.cmp op a b)) ↔
      (OK l (operandShape a) ∧ OK l (operandShape b)) ∧ OK l (cmpShapeExpr a) ∧ OK l (cmpShapeExpr b) := by
  rw [cmpShapeExpr]
  unfold OK
  simp only [Bool.and_eq_true, Bool.or_eq_false_iff]
  constructor
  · rintro ⟨⟨⟨⟨h1, h2⟩, h3⟩, h4⟩, h5⟩
    exact ⟨⟨⟨h1, fun hl => (h5 hl).1.1.1⟩, ⟨h2, fun hl => (h5 hl).1.1.2⟩⟩, ⟨h3, fun hl => (h5 hl).1.2⟩, ⟨h4, fun hl => (h5 hl).2⟩⟩
  · rintro ⟨⟨⟨h1, g1⟩, ⟨h2, g2⟩⟩, ⟨h3, g3⟩, ⟨h4, g4⟩⟩
    exact ⟨⟨⟨⟨h1, h2⟩, h3⟩, h4⟩, fun hl => ⟨⟨⟨g1 hl, g2 hl⟩, g3 hl⟩, g4 hl⟩⟩

/-- a loosely/strictly derived segment list that is singular in shape is a singular-query-segments derivation -/
theorem singularSegs_of_segments {l : Bool} : ∀ (q : List CSegment) {s : List Char},
    Abnf.Segments l s q → OK l (singularSegs q) → Abnf.SingularSegs l s q
  | [], _, h, _ => by cases h; exact .nil
  | seg :: rest, _, h, hok => by
    cases h with
    | cons hb hs hr =>
      cases seg with
      | desc sels => simp [singularSegs, OK] at hok
      | child sels b =>
        cases sels with
        | nil => simp [singularSegs, OK] at hok
        | cons sel tl =>
          cases tl with
          | cons _ _ => cases sel <;> simp [singularSegs, OK] at hok
          | nil =>
            cases sel with
            | wild => simp [singularSegs, OK] at hok
            | slice _ _ _ => simp [singularSegs, OK] at hok
            | filter _ => simp [singularSegs, OK] at hok
            | name n =>
              have hok' : OK l (singularSegs rest) ∧ (l = false → b = false) := by
                simp only [singularSegs, OK, Bool.or_eq_false_iff] at hok ⊢
                exact ⟨⟨hok.1, fun hl => (hok.2 hl).2⟩, fun hl => (hok.2 hl).1⟩
              refine .cons hb ?_ (singularSegs_of_segments rest hr hok'.1)
              cases hs with
              | dotName hn => exact .dotName hn
              | bracketed hbr =>
                cases hbr with
                | mk hb1 hsel hmore hb2 =>
                  cases hmore
                  cases hsel with
                  | name hstr =>
                    have := Abnf.SingularSeg.name (loose := l) hb1 hstr hb2 (by
                      cases l with
                      | true => exact Or.inl rfl
                      | false =>
                        have := hok'.2 rfl
                        simp only [Bool.or_eq_false_iff, Bool.not_eq_false', List.isEmpty_iff] at this
                        exact Or.inr this)
                    simpa using this
            | index i =>
              have hok' : OK l (singularSegs rest) ∧ (l = false → b = false) := by
                simp only [singularSegs, OK, Bool.or_eq_false_iff] at hok ⊢
                exact ⟨⟨hok.1, fun hl => (hok.2 hl).2⟩, fun hl => (hok.2 hl).1⟩
              refine .cons hb ?_ (singularSegs_of_segments rest hr hok'.1)
              cases hs with
              | bracketed hbr =>
                cases hbr with
                | mk hb1 hsel hmore hb2 =>
                  cases hmore
                  cases hsel with
                  | index hint =>
                    have := Abnf.SingularSeg.index (loose := l) hb1 hint hb2 (by
                      cases l with
                      | true => exact Or.inl rfl
                      | false =>
                        have := hok'.2 rfl
                        simp only [Bool.or_eq_false_iff, Bool.not_eq_false', List.isEmpty_iff] at this
                        exact Or.inr this)
                    simpa using this

end JPV.Proofs.AbnfP
