import JPV.Proofs.NdExh.ReachSound
import JPV.Proofs.NonDetPermitted
import JPV.Proofs.NonDetRelEquiv
/-
Known finding D24 as a Lean theorem: nondeterministic mode is NOT exhaustive on descendant segments.
Query `$..*` on `[[[1],[5]],[[2]]]`: RFC 9535 permits the nodelist in which the visit order of the
containers is  [0], [0][0], [1], [0][1], [1][0]  (every node after its parent, array elements in array order),
but no choice script produces it: `_nondeterministic_visit` only interleaves the children of a child visited
"now" into the queue, so `[0][0]` and `[0][1]` are always visited back to back.
The quantifier over all scripts is discharged by `findA_sound` (every script's result is in the finite
enumeration `ND.findA`) and a kernel-checked computation over that enumeration.
-/
namespace JPV.Proofs.NdExh.D24
open JPV JPV.Impl

def num (i : Int) : Json := .num (Num.ofInt i)

/-- `[[[1],[5]],[[2]]]` -/
def doc : Json := .arr [.arr [.arr [num 1], .arr [num 5]], .arr [.arr [num 2]]]

/-- `$..*` -/
def query : Query := [.desc [.wild]]

/-- the default environment with the nondeterministic flag on -/
def env : Env := { nondet := true }

def reg : Spec.Registry := fun _ => none

def at_ (loc : List Int) (v : Json) : Node := ⟨loc.map Key.idx, v⟩

/-- a nodelist RFC 9535 permits (visit order `$`, `[0]`, `[0][0]`, `[1]`, `[0][1]`, `[1][0]`, leaves) that no
script produces -/
def missing : List Node :=
  [at_ [0] (.arr [.arr [num 1], .arr [num 5]]), at_ [1] (.arr [.arr [num 2]]),
   at_ [0, 0] (.arr [num 1]), at_ [0, 1] (.arr [num 5]),
   at_ [0, 0, 0] (num 1),
   at_ [1, 0] (.arr [num 2]),
   at_ [0, 1, 0] (num 5),
   at_ [1, 0, 0] (num 2)]

theorem missing_permitted : missing ∈ Spec.ND.outcomes reg query doc := by
  have h : (Spec.ND.outcomes reg query doc)[45]? = some missing := by rfl
  exact List.mem_of_getElem? h

/-- no enumerated reachable result has the locations of `missing` -/
theorem check :
    (ND.runSegsA env.maxDepth query ⟨[], doc⟩).all
      (fun r => decide (r.1.map (fun n => n.loc) ≠ missing.map (fun n => n.loc))) = true := by
  decide +kernel

theorem missing_unreachable (s : ND.Script) : ND.find env query doc s ≠ .ok missing := by
  intro h
  have hm := findA_sound env query doc (by decide) s
  rw [h] at hm
  obtain ⟨r, hr, he⟩ := List.mem_map.1 hm
  have hc := List.all_eq_true.1 check r hr
  simp only [decide_eq_true_eq] at hc
  apply hc
  obtain ⟨ns, e⟩ := r
  cases e with
  | some e => simp [ND.Res.toExcept] at he
  | none =>
    simp only [ND.Res.toExcept, Except.ok.injEq] at he
    rw [he]

theorem doc_wf : doc.WF := by
  simp [doc, num, Json.WF, Json.WFArr]

theorem doc_depth : (doc.depth : Int) ≤ env.maxDepth := by decide +kernel

/-- D24: a permitted nodelist that no script produces -/
theorem exhaustive_refuted :
    ∃ r, r ∈ Spec.ND.outcomes reg query doc ∧ ∀ s : ND.Script, ND.find env query doc s ≠ .ok r :=
  ⟨missing, missing_permitted, missing_unreachable⟩

theorem exhaustive_refuted_rel :
    ∃ r, Spec.ND.Permitted reg query doc r ∧ ∀ s : ND.Script, ND.find env query doc s ≠ .ok r :=
  ⟨missing, Proofs.outcomes_sound reg query doc doc_wf missing missing_permitted, missing_unreachable⟩

theorem statement_false :
    ¬ (∀ (env : Env) (reg : Spec.Registry) (q : Query) (v : Json),
      Spec.filterFree q = true → v.WF → (v.depth : Int) ≤ env.maxDepth → 1 ≤ env.maxDepth →
      ∀ r ∈ Spec.ND.outcomes reg q v, ∃ s : ND.Script, ND.find env q v s = .ok r) := by
  intro h
  obtain ⟨s, hs⟩ := h env reg query doc (by decide) doc_wf doc_depth (by decide) missing missing_permitted
  exact missing_unreachable s hs

/-! ### "of the 6 RFC-permitted orderings only 3 are ever produced", at the level of node locations -/

def locs (xs : List (List Int)) : List Loc := xs.map (fun l => l.map Key.idx)

def locsOf (r : List Node) : List Loc := r.map (fun n => n.loc)

/-- the three orderings the mode produces (`[0][0]` and `[0][1]` visited back to back) -/
def produced : List (List Loc) :=
  [locs [[0], [1], [0, 0], [0, 1], [1, 0], [0, 0, 0], [0, 1, 0], [1, 0, 0]],
   locs [[0], [1], [0, 0], [0, 1], [1, 0], [1, 0, 0], [0, 0, 0], [0, 1, 0]],
   locs [[0], [1], [0, 0], [0, 1], [0, 0, 0], [0, 1, 0], [1, 0], [1, 0, 0]]]

/-- the three permitted orderings it never produces -/
def notProduced : List (List Loc) :=
  [locs [[0], [1], [0, 0], [0, 1], [0, 0, 0], [1, 0], [0, 1, 0], [1, 0, 0]],
   locs [[0], [1], [0, 0], [0, 1], [0, 0, 0], [1, 0], [1, 0, 0], [0, 1, 0]],
   locs [[0], [1], [0, 0], [0, 1], [1, 0], [0, 0, 0], [1, 0, 0], [0, 1, 0]]]

/-- RFC 9535 permits exactly these six orderings -/
theorem permitted_six :
    (∀ r ∈ Spec.ND.outcomes reg query doc, locsOf r ∈ produced ++ notProduced) ∧
    (∀ l ∈ produced ++ notProduced, ∃ r ∈ Spec.ND.outcomes reg query doc, locsOf r = l) := by
  have h1 : (Spec.ND.outcomes reg query doc).all
      (fun r => decide (locsOf r ∈ produced ++ notProduced)) = true := by decide +kernel
  have h2 : (produced ++ notProduced).all (fun l =>
      (Spec.ND.outcomes reg query doc).any (fun r => decide (locsOf r = l))) = true := by decide +kernel
  constructor
  · intro r hr
    simpa using List.all_eq_true.1 h1 r hr
  · intro l hl
    have := List.all_eq_true.1 h2 l hl
    obtain ⟨r, hr, h⟩ := List.any_eq_true.1 this
    exact ⟨r, hr, by simpa using h⟩

theorem check_produced :
    (ND.runSegsA env.maxDepth query ⟨[], doc⟩).all
      (fun r => r.2.isNone && decide (locsOf r.1 ∈ produced)) = true := by
  decide +kernel

/-- whatever the script, the evaluation succeeds with one of the three `produced` orderings -/
theorem produced_only (s : ND.Script) :
    ∃ r, ND.find env query doc s = .ok r ∧ locsOf r ∈ produced := by
  have hm := findA_sound env query doc (by decide) s
  obtain ⟨⟨ns, e⟩, hr, he⟩ := List.mem_map.1 hm
  have hc := List.all_eq_true.1 check_produced _ hr
  simp only [Bool.and_eq_true, decide_eq_true_eq] at hc
  cases e with
  | some e => simp at hc
  | none => exact ⟨ns, by rw [← he]; rfl, hc.2⟩

/-- each of the three is produced by a script -/
theorem produced_all : ∀ l ∈ produced, ∃ (s : ND.Script) (r : List Node),
    ND.find env query doc s = .ok r ∧ locsOf r = l := by
  have h : ∀ (s : ND.Script) (l : List Loc),
      ((ND.find env query doc s).toOption.map locsOf == some l) = true →
      ∃ (s : ND.Script) (r : List Node), ND.find env query doc s = .ok r ∧ locsOf r = l := by
    intro s l h
    cases hf : ND.find env query doc s with
    | error e => rw [hf] at h; simp [Except.toOption] at h
    | ok r =>
      rw [hf] at h
      refine ⟨s, r, hf, ?_⟩
      simpa [Except.toOption] using h
  intro l hl
  simp only [produced, List.mem_cons, List.not_mem_nil, or_false] at hl
  rcases hl with rfl | rfl | rfl
  · exact h [] _ (by decide +kernel)
  · exact h [.coin false, .coin true] _ (by decide +kernel)
  · exact h [.coin true] _ (by decide +kernel)

/-- none of the other three is -/
theorem notProduced_never : ∀ l ∈ notProduced, ∀ (s : ND.Script) (r : List Node),
    ND.find env query doc s = .ok r → locsOf r ≠ l := by
  intro l hl s r hf
  obtain ⟨r', hf', hp⟩ := produced_only s
  rw [hf] at hf'
  cases hf'
  intro h
  rw [h] at hp
  have hdisj : notProduced.all (fun l => decide (l ∉ produced)) = true := by decide +kernel
  have := List.all_eq_true.1 hdisj l hl
  simp only [decide_eq_true_eq] at this
  exact this hp

end JPV.Proofs.NdExh.D24
