import JPV.Tables.Common
namespace JPV.Tables
open JPV JPV.Impl

/-- the regular expressions the scanners of `Impl.Lex` were written against -/
theorem regexes_model : Generated.regexes =
    [("RE_FALSE", "false(?![a-z_0-9(])"),
     ("RE_FLOAT", "(:?-?[0-9]+\\.[0-9]+(?:[eE][+-]?[0-9]+)?)|(-?[0-9]+[eE]-[0-9]+)"),
     ("RE_FUNCTION_NAME", "[a-z][a-z_0-9]*"),
     ("RE_INDEX", "-?[0-9]+"),
     ("RE_INT", "-?[0-9]+(?:[eE]\\+?[0-9]+)?"),
     ("RE_NULL", "null(?![a-z_0-9(])"),
     ("RE_PROPERTY", "[\\u0080-\\U0010FFFFa-zA-Z_][\\u0080-\\U0010FFFFa-zA-Z0-9_]*"),
     ("RE_TRUE", "true(?![a-z_0-9(])"),
     ("RE_WHITESPACE", "[ \\n\\r\\t]+")] ∧
    Generated.regexFlags.all (fun p => p.2 = 32) = true := by decide +kernel

end JPV.Tables
