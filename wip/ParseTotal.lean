import JPV.Impl.Parse
import JPV.Proofs.LexTotal
import JPV.Proofs.ParseSafeInv
import JPV.Proofs.Strings
namespace JPV.Proofs
open JPV JPV.Impl

/-- compile() never raises an exception that is not a JSONPathError: the only way the model's
compile can fail otherwise is by running out of the parser's fuel -/
theorem compile_no_py : ∀ (env : Env) (s : Str) (e : Err), Impl.compile env s = .error e →
    e.kind = .fuel ∨ e.kind.isJSONPathError = true := by sorry

/-- the parser's fuel (`parseFuel`, four per token plus sixteen) is never exhausted -/
theorem compile_no_fuel : ∀ (env : Env) (s : Str) (e : Err), Impl.compile env s = .error e →
    e.kind ≠ .fuel := by sorry

end JPV.Proofs
