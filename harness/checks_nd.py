"""Exploration for C17 (nondeterministic mode) and the nondeterministic / cyclic parts of C18."""
from __future__ import annotations

import json
import multiprocessing
import random as _random
import time

import chooser
import gen
import model
import real
import wire
from checks_eval import doc_with_all_kinds, enum_docs, shaped_doc, sizes
from sweep import doc_depth

ND_ENV = dict(real.DEFAULT_ENVDESC, nd=True)

D24_WITNESS = ("$..*", [[[1], [5]], [[2]]])

EXHAUSTIVE_FIXED = [
    ({"r": [[{"k": 1}, {"k": 2}], [{"k": 3}]]}, "$..k"),
    ([[[{"k": 1}, {"k": 2}], [{"k": 3}]]], "$..k"),
    ({"r": {"x": [1], "y": [2]}}, "$..[0]"),
    ({"r": [[[1]], [[2]]]}, "$..[0]"),
    ([{"a": {"k": 1}, "b": {"k": 2}}], "$..k"),
    ([[[[1]], [[2]]]], "$..[0]"),
    ([[{"a": [1]}, {"a": [2]}]], "$..a"),
    # the same node several times in a segment's input (consecutively or not): each occurrence is an application of its
    # own, with its own choice of member order
    ([{"a": 1, "b": 2}], "$[0,0][*]"),
    ([{"a": 1, "b": 2}], "$[0,-1].*"),
    ({"k": {"a": 1, "b": 2}}, "$['k','k'][?@]"),
    ([{"a": 1, "b": 2}], "$[0,0,0].*"),
    ({"k": {"a": 1, "b": 2}, "j": 0}, "$['k','j','k'].*"),
]

# a descendant segment applied to SEVERAL input nodes (RFC 9535 2.1.2: the segment's result is the concatenation, in
# input order, of the results for each input node), the inputs' subtrees of different depths: every script walked,
# every outcome judged against the permitted set
PERMITTED_FIXED = [
    ({"a": [{"x": {"b": 1}}, {"b": 2}]}, "$.a[*]..b"),
    ([[[1]], [[2]]], "$[*]..[0]"),
    ([[[1]], [2]], "$.*..*"),
    ([[[1], 2], [[3]]], "$[*]..*"),
    ([{"x": {"a": 1}}, {"a": 2}], "$[0,1]..a"),
    ([{"x": {"a": 1}}, {"a": 2}], "$[1,0]..a"),
    ([{"x": {"a": 1}}, {"a": 2}], "$[0,0]..a"),
    ([[[1]], [2]], "$[*]..[?@]"),
    ([[[[1]], [2]]], "$.*.*..*"),
    ([[[1]], [[2]]], "$[::-1]..[0]"),
    ({"a": [[[1]], [2]]}, "$..a[*]..*"),
    ([[{"k": {"k": 1}}], [{"k": 2}]], "$[*]..k"),
    ([[[1]], [2]], "$[?@]..*"),
    # several filter selectors at work at the same time on OBJECTS (consecutive segments, a filter inside a filter,
    # two filters in one segment): each shuffles its own object's members
    ({"p": {"u": 1, "v": 2}, "q": {"w": 3}}, "$[?@][?@]"),
    ({"p": {"u": {"z": 1}, "v": {"z": 2}}, "q": {"w": {"z": 3}}}, "$[?@.u || @.w][?@.z]"),
    ({"a": {"b": 1, "c": 2}, "d": {"e": 3}}, "$[?@[?@ > 0]]"),
    ({"a": {"b": 1, "c": 2}, "d": {"e": 0, "f": 4}}, "$[?@[?@ > 3]]"),
    ({"a": {"b": 1, "c": 2}}, "$..[?@][?@]"),
    ({"p": {"u": 1, "v": 2}, "q": {"w": 3}}, "$[?@, ?@.w]"),
    ({"p": {"u": 1, "v": 2}, "q": {"w": 3}}, "$[?@].*"),
    ({"p": {"u": 1, "v": 2}, "q": {"w": 3}}, "$.*[?@]"),
    ({"p": {"u": {"k": 1}, "v": {"k": 2}}}, "$[?@.*.k][?@.k][?@]"),
]


def node_count(v):
    if isinstance(v, list):
        return 1 + sum(node_count(x) for x in v)
    if isinstance(v, dict):
        return 1 + sum(node_count(x) for x in v.values())
    return 1


def est_outcomes(doc, ndesc, nwild):
    """a generous upper bound on the number of orderings Spec.ND.outcomes would enumerate"""
    import math

    widths = []

    def walk(v):
        if isinstance(v, dict):
            widths.append(len(v))
            for x in v.values():
                walk(x)
        elif isinstance(v, list):
            for x in v:
                walk(x)

    walk(doc)
    perms = 1
    for w in widths:
        perms *= math.factorial(w)
    n = node_count(doc)
    orders = math.factorial(max(n - 1, 1)) if ndesc else 1
    est = (orders ** ndesc) * (perms ** max(1, nwild + ndesc))
    return est


def choice_tree(env, compiled, doc, cap):
    import jsonpath_rfc9535 as jp

    def run():
        try:
            return "ok\t" + wire.enc_nodes(compiled.find(doc))
        except jp.JSONPathError as e:
            return "err " + type(e).__name__
        except Exception as e:  # noqa: BLE001
            return "err PY:" + type(e).__name__

    return chooser.all_scripts(run, cap=cap)


def explore_c17(rng, tier, res, deep=False):
    import jsonpath_rfc9535 as jp

    res.rule = (
        "nondeterministic environments: the three `random` functions are replaced by a scripted chooser and the WHOLE "
        "choice tree of small (query, value) inputs is walked (every member shuffle, visit-now-or-later coin flip and "
        "queue interleaving; capped per input), plus sampled scripts on larger inputs; every outcome must (a) equal "
        "what the model Impl.ND.find computes for the same script, (b) be in the set of orderings RFC 9535 permits "
        "(Spec.ND.outcomes, enumerated); exhaustiveness (every permitted ordering is produced by some script) is "
        "compared as sets where the walk is complete. Non-trivial = distinct (query, value, script)."
    )
    env = real.make_env(ND_ENV)
    eenv = real.enc_env(ND_ENV)
    queries = ["$..*", "$.*", "$[?@]", "$..[0]", "$..a", "$.*.*", "$..[?@]", "$..*.*", "$..[*]", "$[*,*]", "$..['a','b']",
               "$[?@.a]", "$..[?@.a]", "$.*..*", "$..*..*", "$[?count(@.*)>0]", "$[?@[?@]]", "$[?@][?@]", "$..[?@][?@]", "$[?@].*[?@]", "$[?@, ?@]"]
    small = [d for d in enum_docs(5) if isinstance(d, (list, dict)) and d]
    n_inputs = sizes(tier, deep, 60, 1500)
    cap = 400 if tier != "thorough" else 4000
    lines, expect = [], []
    sets = []
    fixed_idx = set()
    for i in range(n_inputs):
        q = rng.choice(queries)
        doc = rng.choice(small) if rng.random() < 0.7 else doc_with_all_kinds(rng, 2)
        if node_count(doc) > 9:
            continue
        # the enumeration of permitted orderings is exponential: keep it to inputs where it stays small
        ndesc = q.count("..")
        nwild = q.count("*") + q.count("?")
        if est_outcomes(doc, ndesc, nwild) > 3000:
            res.count("skipped-too-many-permitted-orderings")
            continue
        c = env.compile(q)
        a = real.ast_query(c)
        leaves, complete = choice_tree(env, c, doc, cap)
        ed = wire.enc_json(doc)
        for ch, r in leaves:
            lines.append(f"nd.find\t{eenv}\t{a}\t{ed}\t{ch.wire()}")
            expect.append((r, q, doc, ch.wire()))
            res.nontrivial.add((q, ed, ch.wire()))
        lines.append(f"rfc.outcomes\t{eenv}\t{a}\t{ed}")
        expect.append(("__outcomes__", q, doc, None))
        sets.append((q, doc, {r for _ch, r in leaves}, complete, len(expect) - 1))
        res.count("scripts", len(leaves))
        res.count("complete-walks" if complete else "capped-walks")
        res.sample({"query": q, "document": doc, "scripts": len(leaves), "distinct_outcomes": len({r for _c, r in leaves})})
    # inputs beyond the small scope on which EVERY permitted ordering is produced (single-container chains above a
    # branching: the visit-now-or-later choice is taken with an empty queue): walked completely on every run
    for doc, q in EXHAUSTIVE_FIXED:
        c = env.compile(q)
        a = real.ast_query(c)
        leaves, complete = choice_tree(env, c, doc, 20000)
        ed = wire.enc_json(doc)
        for ch, r in leaves[:: max(1, len(leaves) // 60)]:
            lines.append(f"nd.find\t{eenv}\t{a}\t{ed}\t{ch.wire()}")
            expect.append((r, q, doc, ch.wire()))
        lines.append(f"rfc.outcomes\t{eenv}\t{a}\t{ed}")
        expect.append(("__outcomes__", q, doc, None))
        sets.append((q, doc, {r for _ch, r in leaves}, complete, len(expect) - 1))
        fixed_idx.add(len(sets) - 1)
        res.count("scripts", len(leaves))
    for doc, q in PERMITTED_FIXED:
        c = env.compile(q)
        a = real.ast_query(c)
        leaves, complete = choice_tree(env, c, doc, 5000)
        ed = wire.enc_json(doc)
        for ch, r in leaves[:: max(1, len(leaves) // 40)]:
            lines.append(f"nd.find\t{eenv}\t{a}\t{ed}\t{ch.wire()}")
            expect.append((r, q, doc, ch.wire()))
        lines.append(f"rfc.outcomes\t{eenv}\t{a}\t{ed}")
        expect.append(("__outcomes__", q, doc, None))
        sets.append((q, doc, {r for _ch, r in leaves}, False, len(expect) - 1))
        res.count("scripts", len(leaves))
    # values in which one container OBJECT occurs at several places (a finite JSON value all the same): every script gives
    # a permitted nodelist of the value
    _a = {"city": "Oslo", "zip": [1, 2]}
    _row = [1, {"k": 2}]
    _e = []
    for doc, q in (({"home": _a, "work": _a}, "$..city"), ({"home": _a, "work": _a}, "$..zip[0]"), ([_row, _row], "$..[*]"), ({"x": _e, "y": [_e], "z": _e}, "$..*"), ({"p": _a, "q": {"r": _a}}, "$..[?@.city]")):
        c = env.compile(q)
        a = real.ast_query(c)
        leaves, complete = choice_tree(env, c, doc, 300)
        ed = wire.enc_json(doc)
        for ch, r in leaves[:: max(1, len(leaves) // 20)]:
            lines.append(f"nd.find\t{eenv}\t{a}\t{ed}\t{ch.wire()}")
            expect.append((r, q, doc, ch.wire()))
        lines.append(f"rfc.outcomes\t{eenv}\t{a}\t{ed}")
        expect.append(("__outcomes__", q, doc, None))
        sets.append((q, doc, {r for _ch, r in leaves}, False, len(expect) - 1))
        res.count("shared-container-objects", len(leaves))
    # descendant segments applied BELOW the root to data nested exactly to the environment's limit (and one less): the
    # bound counts from the node the segment is applied to, so every script completes with a permitted nodelist
    for lim in (2, 3, 4):
        ldesc = dict(ND_ENV, maxDepth=lim)
        lenv = real.make_env(ldesc)
        leenv = real.enc_env(ldesc)
        for rel in (lim - 1, lim):
            inner = {"x": 1}
            for _ in range(rel - 1):
                inner = {"x": 0, "k": inner} if rel % 2 else [inner, {"x": 2}][:2]
            for q, doc in (("$.a.b..x", {"a": {"b": inner}, "x": 9}), ("$.a[0]..*", {"a": [inner, 5]}), ("$[0][0][0]..[?@]", [[[inner]]]), ("$.s.*..x", {"s": {"p": inner, "q": {"x": 3}}})):
                c = lenv.compile(q)
                a = real.ast_query(c)
                leaves, complete = choice_tree(lenv, c, doc, 400)
                ed = wire.enc_json(doc)
                for ch, r in leaves[:: max(1, len(leaves) // 30)]:
                    lines.append(f"nd.find\t{leenv}\t{a}\t{ed}\t{ch.wire()}")
                    expect.append((r, q, doc, ch.wire()))
                lines.append(f"rfc.outcomes\t{leenv}\t{a}\t{ed}")
                expect.append(("__outcomes__", q, doc, None))
                sets.append((q, doc, {r for _ch, r in leaves}, False, len(expect) - 1))
                res.count("descent-below-root-at-limit", len(leaves))
    # WIDE values (many more pending nodes than the depth limit is large: long arrays of scalars next to arrays of containers),
    # default and low limits, sampled scripts: too many outcomes to enumerate, so each result is judged by the conditions
    # themselves — the multiset of the deterministic result; elements of one array in index order; every node after its
    # parent — which any ordering RFC 9535 permits satisfies
    def _rfc_order_problems(nodes, det_nodes):
        locs = [tuple(n.location) for n in nodes]
        if sorted(map(repr, locs)) != sorted(repr(tuple(n.location)) for n in det_nodes):
            return "not the nodes of the deterministic result"
        def ordered(seq, what):
            pos = {}
            for i, l in enumerate(seq):
                pos.setdefault(l, i)
            for l in seq:
                if l and isinstance(l[-1], int) and l[-1] > 0:
                    for j in range(l[-1]):
                        prev = l[:-1] + (j,)
                        if prev in pos and pos[prev] > pos[l]:
                            return f"{what}: array element {list(l)} before element {list(prev)} of the same array"
                for cut in range(len(l)):
                    if l[:cut] in pos and pos[l[:cut]] > pos[l]:
                        return f"{what}: node {list(l)} before its ancestor {list(l[:cut])}"
            return None

        # the result nodes themselves, and the VISIT order of the descendant segment: with a wildcard as its only selector
        # the visited nodes are the parents of the result nodes, in order of first appearance
        visit = []
        for l in locs:
            if l and l[:-1] not in visit:
                visit.append(l[:-1])
        return ordered(locs, "result") or ordered(visit, "visit order")

    wide_cases = [(100, {"rows": [[1], [2]], "cells": list(range(120))}, "$..[*]"), (100, {"cells": list(range(130)), "rows": [[1, [2]], [3], [[4]]]}, "$..*"),
                  (5, [[[1], [2]], 10, 11, 12, 13, 14, 15], "$..[*]"), (5, [0, 1, 2, 3, 4, 5, 6, [[1], [2], [3]]], "$..*"), (3, {"a": [[1], [2]], "b": [5, 6, 7, 8, 9]}, "$..[0]"),
                  (4, [[[0], [1]], [[2], [3]], 7, 8, 9, 10, 11], "$..[*]")]
    for lim, doc, q in wide_cases:
        wdesc = dict(ND_ENV, maxDepth=lim)
        wenv = real.make_env(wdesc)
        det = real.make_env(dict(wdesc, nd=False)).find(q, doc)
        c = wenv.compile(q)
        for k in range(40 if tier != "thorough" else 400):
            ch = chooser.Chooser((), rng=_random.Random(rng.random()))
            res.evaluations += 1
            try:
                with chooser.scripted(ch):
                    got = c.find(doc)
                prob = _rfc_order_problems(got, det)
            except jp.JSONPathError as exc:
                prob = "raised " + type(exc).__name__
            if prob:
                res.violations.append({"property": "C17", "query": q, "document": doc, "env": wdesc, "observed": prob, "script": ch.wire()[:400],
                                       "expected": "an ordering RFC 9535 permits", "what": "nondeterministic mode on a wide value"})
                break
        res.count("wide-values-sampled-scripts")
    # the flag is the environment's, read when a query is APPLIED: a query compiled while it was off and applied after it
    # was switched on (instance attribute or class attribute) is nondeterministic in full — every permitted ordering of
    # these small inputs is produced by some script, none that is not permitted
    import jsonpath_rfc9535 as jp_

    for doc, q in [({"x": {"a": 1}, "y": {"a": 2}}, "$..a"), ([[[1]], [2]], "$..[0]"), ({"p": 1, "q": 2}, "$.*"), ({"p": 1, "q": 2}, "$[?@]"), ({"x": [1], "y": [2]}, "$..*")]:
        for how in ("instance", "class"):
            cls = type("Late", (jp_.JSONPathEnvironment,), {})
            late = cls()
            c = late.compile(q)
            if how == "instance":
                late.nondeterministic = True
            else:
                cls.nondeterministic = True
            a = real.ast_query(c)
            leaves, complete = choice_tree(late, c, doc, 5000)
            ed = wire.enc_json(doc)
            lines.append(f"rfc.outcomes\t{eenv}\t{a}\t{ed}")
            expect.append(("__outcomes__", q, doc, None))
            sets.append((q + f"   (compiled before the flag was switched on: {how} attribute)", doc, {r for _ch, r in leaves}, complete, len(expect) - 1))
            fixed_idx.add(len(sets) - 1)
            res.count("scripts", len(leaves))
    # the known-finding witness and larger inputs with sampled scripts
    big_cases = [D24_WITNESS] + [(rng.choice(queries), doc_with_all_kinds(rng, 3)) for _ in range(20 if tier != "thorough" else 300)]
    for q, doc in big_cases:
        c = env.compile(q)
        a = real.ast_query(c)
        ed = wire.enc_json(doc)
        if (q, doc) == D24_WITNESS:
            leaves, complete = choice_tree(env, c, doc, 5000)
            lines.append(f"rfc.outcomes\t{eenv}\t{a}\t{ed}")
            expect.append(("__outcomes__", q, doc, None))
            sets.append((q, doc, {r for _ch, r in leaves}, complete, len(expect) - 1))
        else:
            leaves = []
            for _ in range(6):
                ch = chooser.Chooser(rng=_random.Random(rng.random()))
                with chooser.scripted(ch):
                    try:
                        r = "ok\t" + wire.enc_nodes(c.find(doc))
                    except jp.JSONPathError as e:
                        r = "err " + type(e).__name__
                leaves.append((ch, r))
            # permutation of the deterministic result
            det = real.make_env(real.DEFAULT_ENVDESC).find(q, doc)
            want = sorted(wire.enc_node(n.location, n.value) for n in det)
            for _ch, r in leaves:
                got = sorted(r.split("\t", 1)[1].split(" ")) if r.startswith("ok\t") and r != "ok\t" else []
                if got != want:
                    res.violations.append({"property": "C17", "query": q, "document": doc, "observed": r[:300],
                                           "expected": "a permutation of the deterministic result",
                                           "what": "nondeterministic result is not the same multiset of nodes"})
        for ch, r in leaves:
            lines.append(f"nd.find\t{eenv}\t{a}\t{ed}\t{ch.wire()}")
            expect.append((r, q, doc, ch.wire()))
    # a compiled query used before: abandon an application half way (find_one, a finditer dropped after one item), end one
    # in an error (a value beyond the depth limit), then apply it to another value — "every result" includes that one
    deepv = 0
    for _ in range(int(ND_ENV["maxDepth"]) + 2 if int(ND_ENV["maxDepth"]) <= 200 else 0):
        deepv = [deepv]
    det_env = real.make_env(real.DEFAULT_ENVDESC)
    desc_queries = [x for x in queries if ".." in x] + ["$..a", "$..b", "$..[0]", "$..[1]", "$..[?@.a]", "$..[-1]"]
    for _ in range(300 if tier != "thorough" else 3000):
        q = rng.choice(desc_queries) if rng.random() < 0.85 else rng.choice(queries)
        first, second = doc_with_all_kinds(rng, 3), doc_with_all_kinds(rng, 2)
        c = env.compile(q)
        steps = rng.choice([(1, 0, 0), (0, 1, 0), (0, 0, 1), (1, 1, 0), (1, 1, 1), (1, 0, 1)])
        try:
            if steps[0]:
                c.find_one(first)
            if steps[1]:
                it = iter(c.finditer(first))
                for _k in range(rng.randint(1, 3)):
                    next(it, None)
                del it
            if steps[2] and deepv != 0:
                try:
                    c.find(deepv)
                except jp.JSONPathError:
                    pass
            got = sorted(wire.enc_node(n.location, n.value) for n in c.find(second))
        except jp.JSONPathError as e:
            got = "err " + type(e).__name__
        res.evaluations += 1
        want = sorted(wire.enc_node(n.location, n.value) for n in det_env.find(q, second))
        if got != want:
            res.violations.append({"property": "C17", "query": q, "document": second, "observed": str(got)[:300], "expected": str(want)[:300],
                                   "history": {"earlier value": first, "steps": "compile once (nondeterministic environment); find_one; a finditer dropped after two items; maybe a find on a value beyond the depth limit; find on the document shown"},
                                   "what": "nondeterministic result is not the same multiset of nodes (compiled query used before)"})
    out = model.run_batch_parallel(lines)
    outcomes_at = {}
    for i, ((r, q, doc, script), o) in enumerate(zip(expect, out)):
        res.evaluations += 1
        if r == "__outcomes__":
            outcomes_at[i] = set(("ok\t" + x) for x in o.split("\t")[1:]) if "\t" in o else {"ok\t"}
            continue
        if o != r:
            res.mismatches.append({"op": "nd.find", "query": q, "document": doc, "script": script, "model": o[:300], "real": r[:300]})
    for si, (q, doc, realset, complete, idx) in enumerate(sets):
        spec = outcomes_at[idx]
        bad = [r for r in realset if r.startswith("ok\t") and r not in spec]
        for r in bad[:1]:
            res.violations.append({"property": "C17", "query": q, "document": doc, "observed": r[:300],
                                   "expected": f"one of the {len(spec)} orderings RFC 9535 permits",
                                   "what": "nondeterministic mode produced an ordering the RFC does not permit"})
        errs = [r for r in realset if r.startswith("err ")]
        for r in errs[:1]:
            res.violations.append({"property": "C17", "query": q, "document": doc, "observed": r,
                                   "expected": "a result", "what": "nondeterministic evaluation raised on a shallow document"})
        if complete:
            missing = spec - realset
            if (q, doc) == D24_WITNESS:
                if len(missing) == 3 and len(realset) == 3:
                    res.known.append(("D24", "nondeterministic mode is not exhaustive: $..* on [[[1],[5]],[[2]]] reaches 3 of the 6 "
                                             "orderings RFC 9535 permits over all 249 choice scripts (queue only interleaves grandchildren)"))
                elif missing:
                    res.violations.append({"property": "C17", "query": q, "document": doc, "observed": sorted(realset)[:6],
                                           "expected": sorted(spec)[:6], "what": f"exhaustiveness: {len(missing)} permitted orderings unreachable (known finding D24 recorded 3)"})
            elif missing and (node_count(doc) <= 6 or si in fixed_idx):
                res.violations.append({"property": "C17", "query": q, "document": doc, "observed": sorted(realset)[:6],
                                       "expected": sorted(missing)[:3],
                                       "what": f"exhaustiveness: {len(missing)} permitted ordering(s) are produced by no outcome of the random choices"})
            elif missing:
                res.count("non-exhaustive-beyond-6-nodes(D24-region)")


# ---------------------------------------------------------------------------------------------
# C18: nondeterministic mode and cyclic data


def _nd_cyclic_worker(kind, conn):
    import jsonpath_rfc9535 as jp

    class N(jp.JSONPathEnvironment):
        nondeterministic = True

    a = []
    a.append(a)
    a.append(a)
    try:
        N().find("$..*", a)
        conn.send("completed")
    except jp.JSONPathRecursionError:
        conn.send("JSONPathRecursionError")
    except RecursionError:
        conn.send("PY:RecursionError")
    except Exception as e:  # noqa: BLE001
        conn.send("PY:" + type(e).__name__)


def bounded_run(target, args, seconds):
    parent, child = multiprocessing.Pipe()
    p = multiprocessing.Process(target=target, args=args + (child,))
    p.start()
    p.join(seconds)
    if p.is_alive():
        p.kill()
        p.join()
        return "timeout"
    return parent.recv() if parent.poll() else "no-answer"


def cyclic_docs():
    a = []
    a.append(a)
    b = {}
    b["self"] = b
    c = [1, {"x": None}]
    c[1]["x"] = c
    d = {"k": [0, []]}
    d["k"][1].append(d)
    e = [[], 2]
    e[0].append(e[0])
    f = []
    f.append(f)
    f.append(f)
    return [("self-loop list", a), ("self-loop dict", b), ("cycle list->dict->list", c), ("cycle dict->list->list->dict", d),
            ("inner self-loop", e), ("self-loop fan-out 2", f)]


def random_heap(rng, n):
    """n containers (dicts and lists) whose container children are chosen among all n (so cycles and sharing
    are common), plus a few scalar children; returns the objects"""
    objs = [({} if rng.random() < 0.5 else []) for _ in range(n)]
    for o in objs:
        for j in range(rng.randint(0, 3)):
            child = rng.choice(objs) if rng.random() < 0.75 else rng.choice([0, "s", None, True])
            if isinstance(o, dict):
                o[rng.choice("abcd") + str(j)] = child
            else:
                o.append(child)
    return objs


def graph_stage(rng, tier, res):
    import jsonpath_rfc9535 as jp
    from jsonpath_rfc9535.node import JSONPathNode

    lines, expect = [], []
    for _ in range(60 if tier != "thorough" else 600):
        objs = random_heap(rng, rng.randint(1, 6))
        ids = {id(o): i for i, o in enumerate(objs)}
        ents = []
        for i, o in enumerate(objs):
            kids = []
            for k, c in (o.items() if isinstance(o, dict) else enumerate(o)):
                if isinstance(c, (dict, list)):
                    kids.append(f"({k if isinstance(k, int) else wire.enc_str(k)} {ids[id(c)]})")
            ents.append(f"({i} {' '.join(kids)})" if kids else f"({i})")
        heap = "(heap " + " ".join(ents) + ")"
        lim = rng.choice([1, 2, 3, 4, 6])
        cls = type("E", (jp.JSONPathEnvironment,), {"max_recursion_depth": lim})
        env = cls()
        seg = env.compile("$..*").segments[0]
        root = objs[0]
        got = []
        tail = "end"
        try:
            for nd in seg._visit(JSONPathNode(value=root, location=(), root=root)):
                got.append(wire.enc_loc(nd.location) + "@" + str(ids[id(nd.value)]))
                if len(got) > 20000:
                    tail = "too-many"
                    break
        except jp.JSONPathRecursionError:
            tail = "err JSONPathRecursionError"
        except RecursionError:
            tail = "err PY:RecursionError"
        except (AttributeError, TypeError) as err:
            # a private generator that moved or changed its signature: the stage cannot be run (noted), the public entry
            # points below and in the other stages still are
            res.notes.append(f"_visit entry point not reachable: {err!r}")
            return
        res.evaluations += 1
        lines.append(f"g.visit\t{lim}\t0\t{heap}")
        expect.append(("visited\t" + " ".join(got) + "\t" + tail, lim, heap))
        # the public entry point agrees on the outcome
        try:
            env.find("$..*", root)
            pub = "end"
        except jp.JSONPathRecursionError:
            pub = "err JSONPathRecursionError"
        except RecursionError:
            pub = "err PY:RecursionError"
        if pub != tail:
            res.violations.append({"property": "C18", "query": "$..*", "document": heap, "observed": pub, "expected": tail,
                                   "what": f"find() and the traversal disagree on the outcome, limit {lim}"})
        if tail not in ("end", "err JSONPathRecursionError"):
            res.violations.append({"property": "C18", "query": "$..*", "document": heap, "observed": tail,
                                   "expected": "completion or JSONPathRecursionError", "what": f"containers referring to each other, limit {lim}"})
    out = model.run_batch_parallel(lines)
    for (want, lim, heap), o in zip(expect, out):
        if o != want:
            res.mismatches.append({"op": "g.visit", "limit": lim, "heap": heap, "model": o[:300], "real": want[:300]})
    res.count("graph-heaps", len(lines))


def nd_graph_stage(rng, tier, res):
    """Tie B for `Impl.G.ndVisit` (the nondeterministic traversal on containers that refer to each other): random heaps
    with cycles and sharing, small limits, the three `random` functions scripted (random choices, recorded); the real
    generator `_nondeterministic_visit` and the model must visit the same (location, object) sequence and end the same
    way, for the same script.  Plus the two scripts of the D30 theorems on the real code: queue-first is slow, the
    'grandchildren first' script of `C18_ndgraph_d30_fast` raises after about 1.5 * limit nodes."""
    import jsonpath_rfc9535 as jp
    from jsonpath_rfc9535.node import JSONPathNode

    lines, expect = [], []
    for _ in range(80 if tier != "thorough" else 800):
        objs = random_heap(rng, rng.randint(1, 4))
        ids = {id(o): i for i, o in enumerate(objs)}
        ents = []
        for i, o in enumerate(objs):
            kids = []
            for k, c in (o.items() if isinstance(o, dict) else enumerate(o)):
                kids.append(f"({k if isinstance(k, int) else wire.enc_str(k)} {ids[id(c)] if isinstance(c, (dict, list)) else 's'})")
            ents.append(f"({i} {'D' if isinstance(o, dict) else 'L'} {' '.join(kids)})" if kids else f"({i} {'D' if isinstance(o, dict) else 'L'})")
        heap = "(heap " + " ".join(ents) + ")"
        lim = rng.choice([1, 2, 3, 4])
        cls = type("E", (jp.JSONPathEnvironment,), {"max_recursion_depth": lim, "nondeterministic": True})
        env = cls()
        seg = env.compile("$..*").segments[0]
        root = objs[0]
        got, tail = [], "end"
        ch = chooser.Chooser((), rng=_random.Random(rng.random()))
        try:
            with chooser.scripted(ch):
                for nd in seg._nondeterministic_visit(JSONPathNode(value=root, location=(), root=root)):
                    got.append(wire.enc_loc(nd.location) + "@" + (str(ids[id(nd.value)]) if isinstance(nd.value, (dict, list)) else "s"))
                    if len(got) > 4000:
                        tail = "too-many"
                        break
        except jp.JSONPathRecursionError:
            tail = "err JSONPathRecursionError"
        except RecursionError:
            tail = "err PY:RecursionError"
        except (AttributeError, TypeError) as err:
            res.notes.append(f"_nondeterministic_visit entry point not reachable: {err!r}")
            return
        res.evaluations += 1
        if tail == "too-many":
            res.count("nd-graph-too-many-skipped")
            continue
        res.nontrivial.add(("nd-graph", lim, heap, ch.wire()))
        lines.append(f"g.ndvisit\t{lim}\t100000\t0\t{heap}\t{ch.wire()}")
        expect.append(("visited\t" + " ".join(got) + "\t" + tail, lim, heap, ch.wire()))
        if tail not in ("end", "err JSONPathRecursionError"):
            res.violations.append({"property": "C18", "query": "$..*", "document": heap, "observed": tail, "script": ch.wire(),
                                   "expected": "completion or JSONPathRecursionError", "what": f"nondeterministic mode, containers referring to each other, limit {lim}"})
    # D30's heap under the two scripts the theorems are about, on the real code
    a = []
    a.append(a)
    a.append(a)
    for lim, script_kind in ((12, "queue-first"), (12, "fast"), (100, "fast")):
        cls = type("E", (jp.JSONPathEnvironment,), {"max_recursion_depth": lim, "nondeterministic": True})
        seg = cls().compile("$..*").segments[0]

        class Fixed(chooser.Chooser):
            def _pick(self, n):
                # coin: alternative 0 is True; merge: the LAST interleaving takes every new entry first
                k = (0 if n == 2 else n - 1) if script_kind == "fast" else (1 if n == 2 else 0)
                self.trace.append((n, k))
                return k

        ch = Fixed()
        got, tail = [], "end"
        try:
            with chooser.scripted(ch):
                for nd in seg._nondeterministic_visit(JSONPathNode(value=a, location=(), root=a)):
                    got.append(wire.enc_loc(nd.location) + "@0")
                    if len(got) > 20000:
                        tail = "too-many"
                        break
        except jp.JSONPathRecursionError:
            tail = "err JSONPathRecursionError"
        except (AttributeError, TypeError):
            return
        res.evaluations += 1
        if tail != "too-many":
            lines.append(f"g.ndvisit\t{lim}\t100000\t0\t(heap (0 L (0 0) (1 0)))\t{ch.wire()}")
            expect.append(("visited\t" + " ".join(got) + "\t" + tail, lim, "D30 heap", script_kind))
        res.count(f"d30-{script_kind}-limit-{lim}-nodes", len(got))
        if script_kind == "fast" and (tail != "err JSONPathRecursionError" or len(got) > 3 * (lim // 2) + 2):
            res.mismatches.append({"op": "g.ndvisit", "what": "C18_ndgraph_d30_fast: the real traversal under the grandchildren-first script", "limit": lim,
                                   "real": f"{tail} after {len(got)} nodes", "model": f"JSONPathRecursionError after at most {3 * (lim // 2) + 2} nodes"})
        if script_kind == "queue-first" and len(got) + 1 < 2 ** ((lim + 1) // 2):
            res.mismatches.append({"op": "g.ndvisit", "what": "C18_ndgraph_d30_lower: the real traversal under a queue-first script", "limit": lim,
                                   "real": f"{tail} after {len(got)} nodes", "model": f"at least {2 ** ((lim + 1) // 2) - 1} nodes before the error"})
    out = model.run_batch_parallel(lines)
    for (want, lim, heap, script), o in zip(expect, out):
        if o != want:
            res.mismatches.append({"op": "g.ndvisit", "limit": lim, "heap": heap, "script": script, "model": o[:300], "real": want[:300]})
    res.count("nd-graph-heaps", len(lines))


def explore_c18_nd(rng, tier, res, deep=False):
    import jsonpath_rfc9535 as jp

    # (1) nondeterministic mode: the same boundary as deterministic mode, for every choice script
    limits = [1, 2, 3] if tier != "thorough" else [1, 2, 3, 4, 5]
    for lim in limits:
        desc = dict(ND_ENV, maxDepth=lim)
        env = real.make_env(desc)
        eenv = real.enc_env(desc)
        lines, expect = [], []
        # the descent starts at the root, or BELOW it (the bound counts container nesting from the node the segment is
        # applied to, whatever that node's own distance from the root is)
        big = real.make_env(dict(real.DEFAULT_ENVDESC, maxDepth=10**6))
        for prefix, tail in (("$", "..*"), ("$.a", "..*"), ("$[0]", "..*"), ("$[1]", "..a"), ("$.a.a", "..*"), ("$[*]", "..*"), ("$.*[0]", "..[0]")):
            qtext = prefix + tail
            c = env.compile(qtext)
            a = real.ast_query(c)
            for d in range(max(0, lim - 1), lim + 3):
                for where in ("first", "middle", "last"):
                    for _ in range((2 if prefix == "$" else 1) if tier != "thorough" else 6):
                        doc = shaped_doc(rng, d, where)
                        leaves, complete = choice_tree(env, c, doc, (300 if prefix == "$" else 60) if tier != "thorough" else 3000)
                        starts = [n.value for n in big.find(prefix, doc)]
                        rel = max([doc_depth(v) for v in starts], default=0)
                        want_ok = rel <= lim
                        res.nontrivial.add(("nd", lim, d, where, qtext, json.dumps(doc, sort_keys=True, default=str)))
                        if prefix != "$":
                            res.count("nd-descent-below-root" + ("-at-limit" if rel == lim else ""))
                        for ch, r in leaves:
                            res.evaluations += 1
                            ok = r.startswith("ok\t")
                            if ok != want_ok or (not ok and r != "err JSONPathRecursionError"):
                                res.violations.append({"property": "C18", "query": qtext, "document": doc, "env": desc,
                                                       "observed": r[:200], "script": ch.wire(),
                                                       "expected": "full result" if want_ok else "JSONPathRecursionError",
                                                       "what": f"nondeterministic mode, limit {lim}, container nesting {rel} below the node the descendant segment is applied to (document nesting {d})"})
                                break
                            lines.append(f"nd.find\t{eenv}\t{a}\t{wire.enc_json(doc)}\t{ch.wire()}")
                            expect.append((r, doc, ch.wire(), qtext))
        # SEVERAL input nodes whose subtrees are all exactly as deep as the limit allows (or one less): the bound is counted
        # anew for every input node of the segment, whatever was traversed for the input nodes before it
        def _chain(k, leaf):
            v = leaf
            for _ in range(k):
                v = {"a": v}
            return v

        for k in (lim - 1, lim):
            if k < 1:
                continue
            mdoc = {"p": _chain(k, 1), "q": _chain(k, 2), "r": _chain(k, 3)}
            mdoc_arr = [_chain(k, 1), _chain(k, 2), [_chain(k - 1, 3)] if k > 1 else [3]]
            for qtext, doc in (("$[*]..a", mdoc), ("$['p','q','r']..*", mdoc), ("$.*..a", mdoc), ("$[*]..*", mdoc_arr), ("$[0,1,0]..a", mdoc_arr), ("$..a..a", {"a": mdoc} if k + 1 < lim else mdoc)):
                c = env.compile(qtext)
                a = real.ast_query(c)
                leaves, complete = choice_tree(env, c, doc, 40)
                want_ok = doc_depth(doc) - 1 <= lim if not qtext.startswith("$..") else doc_depth(doc) <= lim
                for ch, r in leaves:
                    res.evaluations += 1
                    ok = r.startswith("ok\t")
                    if ok != want_ok or (not ok and r != "err JSONPathRecursionError"):
                        res.violations.append({"property": "C18", "query": qtext, "document": doc, "env": desc, "observed": r[:200], "script": ch.wire(),
                                               "expected": "full result" if want_ok else "JSONPathRecursionError",
                                               "what": f"nondeterministic mode, limit {lim}: several input nodes, each subtree nested {k} deep"})
                        break
                    lines.append(f"nd.find\t{eenv}\t{a}\t{wire.enc_json(doc)}\t{ch.wire()}")
                    expect.append((r, doc, ch.wire(), qtext))
                res.count("nd-several-input-nodes-at-limit")
        out = model.run_batch_parallel(lines)
        for (r, doc, script, qtext), o in zip(expect, out):
            if o != r:
                res.mismatches.append({"op": "nd.find", "query": qtext, "document": doc, "script": script, "model": o[:200], "real": r[:200]})
        res.count(f"nd-limit-{lim}", len(lines))
    # (2) cyclic data, deterministic mode: JSONPathRecursionError promptly, for limits 1..100
    for lim in (1, 3, 100):
        cls = type("E", (jp.JSONPathEnvironment,), {"max_recursion_depth": lim})
        for name, doc in cyclic_docs():
            for q in ("$..*", "$..a", "$[?@..*]"):
                res.evaluations += 1
                t = time.time()
                try:
                    cls().find(q, doc)
                    outc = "completed"
                except jp.JSONPathRecursionError:
                    outc = "JSONPathRecursionError"
                except RecursionError:
                    outc = "PY:RecursionError"
                except Exception as e:  # noqa: BLE001
                    outc = "PY:" + type(e).__name__
                dt = time.time() - t
                res.nontrivial.add(("cyclic", lim, name, q))
                if outc != "JSONPathRecursionError" or dt > 5:
                    res.violations.append({"property": "C18", "query": q, "document": name, "observed": f"{outc} after {dt:.2f}s",
                                           "expected": "JSONPathRecursionError in bounded time",
                                           "what": f"cyclic data, deterministic mode, limit {lim}"})
    # (2b) random heaps of containers that refer to each other (cycles, shared substructure, fan-out 0..3) against
    # the graph model Impl.G.visitTop: same sequence of visited nodes (locations), same outcome, for limits 1..6
    graph_stage(rng, tier, res)
    # (2c) the same for the nondeterministic traversal against Impl.G.ndVisit, per script
    nd_graph_stage(rng, tier, res)
    # (3) cyclic data, nondeterministic mode
    nd_cls = type("N", (jp.JSONPathEnvironment,), {"nondeterministic": True})
    for name, doc in cyclic_docs()[:5]:
        res.evaluations += 1
        t = time.time()
        try:
            nd_cls().find("$..*", doc)
            outc = "completed"
        except jp.JSONPathRecursionError:
            outc = "JSONPathRecursionError"
        except Exception as e:  # noqa: BLE001
            outc = "PY:" + type(e).__name__
        if outc != "JSONPathRecursionError" or time.time() - t > 5:
            res.violations.append({"property": "C18", "query": "$..*", "document": name, "observed": outc,
                                   "expected": "JSONPathRecursionError in bounded time", "what": "cyclic data, nondeterministic mode"})
    r = bounded_run(_nd_cyclic_worker, ("fanout2",), 6)
    res.evaluations += 1
    if r == "timeout":
        res.known.append(("D30", "nondeterministic mode on cyclic data with fan-out 2 (a=[]; a.append(a); a.append(a); $..*) does not "
                                 "raise JSONPathRecursionError in bounded time: the breadth-first queue doubles per level (killed after 6 s); "
                                 "deterministic mode raises at once"))
    elif r != "JSONPathRecursionError":
        res.violations.append({"property": "C18", "query": "$..*", "document": "a=[a,a]", "observed": r,
                               "expected": "JSONPathRecursionError", "what": "cyclic data with fan-out 2, nondeterministic mode"})
    # (4) the interpreter's own stack: deep-but-legal data under a raised limit
    big = type("B", (jp.JSONPathEnvironment,), {"max_recursion_depth": 5000})
    deep_doc = 0
    for _ in range(2000):
        deep_doc = [deep_doc]
    res.evaluations += 1
    try:
        n = len(big().find("$..*", deep_doc))
        if n != 2000:
            res.violations.append({"property": "C18", "query": "$..*", "document": "2000-deep list", "observed": n, "expected": 2000,
                                   "what": "deep-but-legal data under a raised limit"})
    except RecursionError:
        res.known.append(("D26", "max_recursion_depth = 5000 with 2000-deep data: the recursive generators exhaust the interpreter stack "
                                 "(RecursionError) before the configured limit is reached"))
    except jp.JSONPathRecursionError:
        res.violations.append({"property": "C18", "query": "$..*", "document": "2000-deep list", "observed": "JSONPathRecursionError",
                               "expected": "full result (limit 5000)", "what": "deep-but-legal data under a raised limit"})
    # the same beyond the one witness: both modes, object chains, the segment inside a filter, nesting just within and just
    # beyond the raised limit (the outcome is the configured bound's, never the interpreter's)
    def chain(n, kind):
        v = 0
        for _ in range(n):
            v = [v] if kind == "arr" else {"a": v}
        return v

    for nd in (False, True):
        env5k = type("B5", (jp.JSONPathEnvironment,), {"max_recursion_depth": 5000, "nondeterministic": nd})()
        for kind, q, wrap in (("arr", "$..*", False), ("obj", "$..a", False), ("arr", "$[?@..*]", True), ("obj", "$[?count(@..a) > 0]", True)):
            for depth, want in ((1500, "ok"), (4999, "ok"), (5001, "rec")):
                doc = chain(depth, kind)
                if wrap:
                    doc = [doc]
                res.evaluations += 1
                try:
                    env5k.find(q, doc)
                    got = "ok"
                except jp.JSONPathRecursionError:
                    got = "rec"
                except RecursionError:
                    got = "PY:RecursionError"
                except Exception as exc:  # noqa: BLE001
                    got = "PY:" + type(exc).__name__
                if got != want:
                    if got == "PY:RecursionError" and want == "ok":
                        res.known.append(("D26", f"max_recursion_depth = 5000, {kind} chain nested {depth} deep, {q}, nondeterministic={nd}: interpreter RecursionError"))
                    else:
                        res.violations.append({"property": "C18", "query": q, "document": f"{kind} chain nested {depth} deep" + (" inside an array" if wrap else ""),
                                               "env": {"max_recursion_depth": 5000, "nondeterministic": nd}, "observed": got,
                                               "expected": "full result" if want == "ok" else "JSONPathRecursionError", "what": "deep data under a raised limit"})
                    break
