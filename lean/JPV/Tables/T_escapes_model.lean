import JPV.Tables.Common
namespace JPV.Tables
open JPV JPV.Impl

/-- `ESCAPES` -/
theorem escapes_model :
    (List.range 0x250).all (fun n =>
      Impl.isEscapeChar (Char.ofNat n) = Generated.escapes.contains (String.singleton (Char.ofNat n))) = true ∧
    Generated.escapes.all (fun s => s.length = 1 && s.toList.all (fun c => c.toNat < 0x250)) = true := by
  decide +kernel

end JPV.Tables
