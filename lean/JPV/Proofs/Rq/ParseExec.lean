import JPV.Proofs.Rq.IndexTok
import JPV.Proofs.Rq.Decode
import JPV.Proofs.Rq.Eval
import JPV.Proofs.ParseWp
namespace JPV.Proofs.Rq
open JPV JPV.Impl

/-! ### the token stream on a concrete token list -/

theorem next_fresh (c r : Token) (rs : List Token) (hc : c.kind ≠ .eof) :
    TStream.next ⟨c, [], r :: rs⟩ = (c, ⟨r, [], rs⟩) := by
  simp [TStream.next, hc]

theorem next_pushed (c r : Token) (rs : List Token) :
    TStream.next ⟨c, [r], rs⟩ = (c, ⟨r, [], rs⟩) := rfl

theorem peek_fresh (c r : Token) (rs : List Token) (hc : c.kind ≠ .eof) :
    TStream.peek ⟨c, [], r :: rs⟩ = (r, ⟨c, [r], rs⟩) := by
  simp [TStream.peek, next_fresh c r rs hc, TStream.push]

theorem peek_pushed (c r : Token) (rs : List Token) :
    TStream.peek ⟨c, [r], rs⟩ = (r, ⟨c, [r], rs⟩) := rfl

/-! ### one bracketed selection with a single name or index selector -/

theorem parseBracketed_close (env : Env) (open_ : Token) (f : Nat) (acc : List Selector) (st : TStream)
    (hk : st.cur.kind = .rbracket) (ha : acc.isEmpty = false) :
    exec (parseBracketed env open_ (f + 1) acc) st = (.ok acc, st) := by
  rw [parseBracketed]
  simp [exec_bind, exec_cur, hk, ha, exec_pure]

theorem parseBracketed_name (env : Env) (open_ : Token) (f : Nat) (s : Str) (i2 i3 : Int) (rs : List Token) :
    exec (parseBracketed env open_ (f + 2) [])
      ⟨⟨.sqString, nameBody s, i2⟩, [], ⟨.rbracket, [']'], i3⟩ :: rs⟩
      = (.ok [.name s], ⟨⟨.rbracket, [']'], i3⟩, [], rs⟩) := by
  rw [parseBracketed]
  simp [exec_bind, exec_cur, exec_peekTok, exec_nextTok, decodeAt, decode_nameBody,
    peek_fresh, peek_pushed, next_pushed, parseBracketed_close]


theorem parseBracketed_index (env : Env) (open_ : Token) (f : Nat) (n : Nat) (i2 i3 : Int) (rs : List Token)
    (hr : inRange env (n : Int) = true) :
    exec (parseBracketed env open_ (f + 2) [])
      ⟨⟨.index, Nat.toDigits 10 n, i2⟩, [], ⟨.rbracket, [']'], i3⟩ :: rs⟩
      = (.ok [.index (n : Int)], ⟨⟨.rbracket, [']'], i3⟩, [], rs⟩) := by
  have hz : ¬ (1 < (Nat.toDigits 10 n).length ∧ (Nat.toDigits 10 n).head? = some '0' ∨
      ['-', '0'] <+: Nat.toDigits 10 n) := by
    have := index_no_leading_zero n
    simp only [Bool.or_eq_false_iff, Bool.and_eq_false_iff, decide_eq_false_iff_not] at this
    rw [← List.isPrefixOf_iff_prefix]
    rintro (h | h)
    · rcases this.1 with h' | h'
      · exact h' h.1
      · exact h' h.2
    · rw [this.2] at h; cases h
  rw [parseBracketed]
  simp [exec_bind, exec_cur, exec_peekTok, exec_nextTok, intOf, intOfText_toDigits,
    peek_fresh, peek_pushed, next_pushed, parseBracketed_close, hr, hz]


theorem map_kv_cons {ts : List Token} {k : TokKind} {v : Str} {kvs : List (TokKind × Str)}
    (h : ts.map kv = (k, v) :: kvs) : ∃ i ts', ts = ⟨k, v, i⟩ :: ts' ∧ ts'.map kv = kvs := by
  cases ts with
  | nil => cases h
  | cons t ts' =>
    obtain ⟨k', v', i⟩ := t
    simp only [List.map_cons, kv, List.cons.injEq, Prod.mk.injEq] at h
    obtain ⟨⟨rfl, rfl⟩, h2⟩ := h
    exact ⟨i, ts', rfl, h2⟩

/-- the selector a key's middle token parses to -/
def selOfKey : Key → Selector
  | .name s => .name s
  | .idx i => .index i

theorem segOfKey_eq (k : Key) : segOfKey k = .child [selOfKey k] := by cases k <;> rfl

theorem parseBracketed_key (env : Env) (open_ : Token) (f : Nat) (k : Key) (i2 i3 : Int) (rs : List Token)
    (hk : ∀ i, k = .idx i → 0 ≤ i ∧ env.minIdx ≤ i ∧ i ≤ env.maxIdx) :
    exec (parseBracketed env open_ (f + 2) [])
      ⟨⟨keyKind k, keyVal k, i2⟩, [], ⟨.rbracket, [']'], i3⟩ :: rs⟩
      = (.ok [selOfKey k], ⟨⟨.rbracket, [']'], i3⟩, [], rs⟩) := by
  cases k with
  | name s => exact parseBracketed_name env open_ f s i2 i3 rs
  | idx i =>
    obtain ⟨h0, h1, h2⟩ := hk i rfl
    have e : ((i.toNat : Nat) : Int) = i := by omega
    have := parseBracketed_index env open_ f i.toNat i2 i3 rs (by simp [inRange, e, h1, h2])
    rw [e] at this
    exact this

theorem parseQuery_keys (env : Env) (ks : Loc) :
    (∀ k ∈ ks, ∀ i, k = .idx i → 0 ≤ i ∧ env.minIdx ≤ i ∧ i ≤ env.maxIdx) →
    ∀ (fuel : Nat) (acc : List Segment) (ts : List Token), ks.length + 3 ≤ fuel →
    ts.map kv = ks.flatMap keyKV ++ [(.eof, [])] →
    ∃ t ts', ts = t :: ts' ∧ ∃ st', exec (parseQuery env false fuel acc) ⟨t, [], ts'⟩ = (.ok (acc ++ qOfLoc ks), st') ∧
      st'.cur.kind = .eof := by
  induction ks with
  | nil =>
    intro _ fuel acc ts hf hts
    obtain ⟨i, ts', rfl, _⟩ := map_kv_cons hts
    obtain ⟨f, rfl⟩ : ∃ f, fuel = f + 1 := ⟨fuel - 1, by omega⟩
    refine ⟨_, _, rfl, ⟨⟨.eof, [], i⟩, [], ts'⟩, ?_, ?_⟩
    · rw [parseQuery]
      simp [exec_bind, exec_cur, exec_pure, qOfLoc]
    · rfl
  | cons k ks ih =>
    intro hr fuel acc ts hf hts
    simp only [List.flatMap_cons, keyKV, List.cons_append, List.nil_append] at hts
    obtain ⟨i1, ts1, rfl, hts1⟩ := map_kv_cons hts
    obtain ⟨i2, ts2, rfl, hts2⟩ := map_kv_cons hts1
    obtain ⟨i3, ts3, rfl, hts3⟩ := map_kv_cons hts2
    obtain ⟨f, rfl⟩ : ∃ f, fuel = f + 4 := ⟨fuel - 4, by simp at hf; omega⟩
    obtain ⟨t, ts', rfl, st', he, hc⟩ := ih (fun k' hk' => hr k' (List.mem_cons_of_mem _ hk')) (f + 3)
      (acc ++ [segOfKey k]) ts3 (by simp at hf; omega) hts3
    refine ⟨_, _, rfl, st', ?_, hc⟩
    have hb := parseBracketed_key env ⟨.lbracket, ['['], i1⟩ f k i2 i3 (t :: ts') (hr k (by simp))
    have hsel : exec (parseSelectors env (f + 3))
        ⟨⟨.lbracket, ['['], i1⟩, [], ⟨keyKind k, keyVal k, i2⟩ :: ⟨.rbracket, [']'], i3⟩ :: t :: ts'⟩
        = (.ok [selOfKey k], ⟨⟨.rbracket, [']'], i3⟩, [], t :: ts'⟩) := by
      rw [parseSelectors]
      simp [exec_bind, exec_cur, exec_nextTok, next_fresh, hb]
    rw [parseQuery]
    simp [exec_bind, exec_cur, exec_nextTok, next_fresh, hsel]
    rw [← segOfKey_eq, he]
    simp [qOfLoc]


theorem length_flatMap_keyKV (ks : Loc) : (ks.flatMap keyKV).length = 3 * ks.length := by
  induction ks with
  | nil => rfl
  | cons k ks ih => simp [List.flatMap_cons, keyKV, ih]; omega

/-- the parser turns the tokens of a normalized path into the location's singular query -/
theorem parse_path (env : Env) (loc : Loc)
    (h : ∀ k ∈ loc, ∀ i, k = .idx i → 0 ≤ i ∧ env.minIdx ≤ i ∧ i ≤ env.maxIdx)
    (toks : List Token) (ht : toks.map kv = pathKV loc) :
    (exec (parseTop env (parseFuel toks.length)) (TStream.init toks)).1 = .ok (qOfLoc loc) := by
  have hlen : toks.length = 3 * loc.length + 2 := by
    have := congrArg List.length ht
    rw [List.length_map] at this
    rw [this]
    simp only [pathKV, List.length_cons, List.length_append, length_flatMap_keyKV, List.length_nil]
  have hF : loc.length + 3 ≤ parseFuel toks.length := by
    rw [hlen]; simp only [parseFuel]; omega
  generalize parseFuel toks.length = F at hF ⊢
  obtain ⟨i0, ts, rfl, hts⟩ := map_kv_cons ht
  obtain ⟨t, ts', rfl, st', he, hc⟩ := parseQuery_keys env loc h F [] ts hF hts
  have hinit : TStream.init (⟨.root, ['$'], i0⟩ :: t :: ts') = ⟨⟨.root, ['$'], i0⟩, [], t :: ts'⟩ := by
    simp [TStream.init, TStream.next, initTok]
  rw [hinit]
  unfold parseTop
  simp [exec_bind, exec_cur, exec_pure, exec_nextTok, next_fresh, expect, he, hc]

end JPV.Proofs.Rq
