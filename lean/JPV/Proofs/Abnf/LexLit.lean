/-
`literal` against the ABNF rule `literal = number / string-literal / true / false / null`.
-/
import JPV.Proofs.Abnf.LexMisc
import JPV.Proofs.Abnf.LexStr
import JPV.Proofs.Abnf.LexSlice
namespace JPV.Proofs.AbnfP
open JPV JPV.Spec

/-- the characters a literal can start with -/
def LitStart (c : Char) : Prop :=
  isDIGIT c = true ∨ c = '-' ∨ c = '"' ∨ c = '\'' ∨ c = 't' ∨ c = 'f' ∨ c = 'n'

theorem literal_sound {inp rest : List Char} {v : Json} (h : literal inp = some (v, rest)) :
    ∃ pre, inp = pre ++ rest ∧ Abnf.Literal pre v := by
  unfold literal at h
  split at h
  · rename_i s r hs
    cases h
    obtain ⟨pre, hp, hl⟩ := stringLiteral_sound hs
    exact ⟨pre, hp, .str hl⟩
  · split at h
    · rename_i r hl
      cases h
      exact ⟨_, lit_sound hl, .true⟩
    · split at h
      · rename_i r hl
        cases h
        exact ⟨_, lit_sound hl, .false⟩
      · split at h
        · rename_i r hl
          cases h
          exact ⟨_, lit_sound hl, .null⟩
        · split at h
          · rename_i sp r hn
            obtain ⟨hsp, hnum⟩ := numberSpelling_sound hn
            cases hv : numberValue sp with
            | none => simp [hv] at h
            | some x =>
              simp only [hv, Option.map_some, Option.some.injEq, Prod.mk.injEq] at h
              obtain ⟨rfl, rfl⟩ := h
              exact ⟨sp, hsp, .num hnum hv⟩
          · cases h

theorem literal_head {s : List Char} {v : Json} (h : Abnf.Literal s v) : ∃ c t, s = c :: t ∧ LitStart c := by
  cases h with
  | num hn _ =>
    obtain ⟨c, t, rfl, hc⟩ := numberSp_head hn
    exact ⟨c, t, rfl, by rcases hc with h | h <;> simp [LitStart, h]⟩
  | str hs =>
    obtain ⟨t, ht | ht⟩ := stringLit_head hs
    · exact ⟨_, t, ht, by simp [LitStart]⟩
    · exact ⟨_, t, ht, by simp [LitStart]⟩
  | true => exact ⟨'t', _, rfl, by simp [LitStart]⟩
  | false => exact ⟨'f', _, rfl, by simp [LitStart]⟩
  | null => exact ⟨'n', _, rfl, by simp [LitStart]⟩

theorem isDIGIT_ne {c k : Char} (hc : isDIGIT c = true) (hk : isDIGIT k = false) : c ≠ k := by
  intro h; subst h; simp [hc] at hk

theorem literal_complete {s : List Char} {v : Json} (h : Abnf.Literal s v) {R : List Char} (hR : NumFollow R) :
    literal (s ++ R) = some (v, R) := by
  cases h with
  | num hn hv =>
    obtain ⟨c, t, rfl, hc⟩ := numberSp_head hn
    have hq : c ≠ '"' ∧ c ≠ '\'' ∧ c ≠ 't' ∧ c ≠ 'f' ∧ c ≠ 'n' := by
      rcases hc with hc | rfl
      · exact ⟨isDIGIT_ne hc (by decide), isDIGIT_ne hc (by decide), isDIGIT_ne hc (by decide),
          isDIGIT_ne hc (by decide), isDIGIT_ne hc (by decide)⟩
      · decide
    have h1 : stringLiteral (c :: t ++ R) = none :=
      stringLiteral_none_of_head (by intro c' t' e; cases e; exact ⟨hq.1, hq.2.1⟩)
    have h2 : lit "true" (c :: t ++ R) = none := lit_none (c := 't') rfl (HeadP.cons hq.2.2.1)
    have h3 : lit "false" (c :: t ++ R) = none := lit_none (c := 'f') rfl (HeadP.cons hq.2.2.2.1)
    have h4 : lit "null" (c :: t ++ R) = none := lit_none (c := 'n') rfl (HeadP.cons hq.2.2.2.2)
    have h5 := numberSpelling_complete hn hR
    unfold literal
    simp only [h1, h2, h3, h4, h5, hv, Option.map_some]
  | str hs =>
    unfold literal
    simp only [stringLiteral_complete hs R]
  | true =>
    have h1 : stringLiteral ("true".toList ++ R) = none :=
      stringLiteral_none_of_head (by intro c' t' e; cases e; decide)
    unfold literal
    simp only [h1, lit_complete]
  | false =>
    have h1 : stringLiteral ("false".toList ++ R) = none :=
      stringLiteral_none_of_head (by intro c' t' e; cases e; decide)
    have h2 : lit "true" ("false".toList ++ R) = none := lit_none (c := 't') rfl (HeadP.cons (by decide))
    unfold literal
    simp only [h1, h2, lit_complete]
  | null =>
    have h1 : stringLiteral ("null".toList ++ R) = none :=
      stringLiteral_none_of_head (by intro c' t' e; cases e; decide)
    have h2 : lit "true" ("null".toList ++ R) = none := lit_none (c := 't') rfl (HeadP.cons (by decide))
    have h3 : lit "false" ("null".toList ++ R) = none := lit_none (c := 'f') rfl (HeadP.cons (by decide))
    unfold literal
    simp only [h1, h2, h3, lit_complete]

theorem literal_none_of_head {inp : List Char} (h : ∀ c t, inp = c :: t → ¬ LitStart c) : literal inp = none := by
  cases hl : literal inp with
  | none => rfl
  | some x =>
    obtain ⟨v, r⟩ := x
    obtain ⟨pre, hp, hlit⟩ := literal_sound hl
    obtain ⟨c, t, rfl, hc⟩ := literal_head hlit
    exact absurd hc (h c (t ++ r) hp)

/-- on an input starting with a lower-case letter, `literal` can only read a keyword -/
theorem literal_keyword {inp r : List Char} {v : Json} (h : literal inp = some (v, r))
    (hc : ∃ c t, inp = c :: t ∧ isLCALPHA c = true) :
    ∃ k, (k = "true".toList ∨ k = "false".toList ∨ k = "null".toList) ∧ inp = k ++ r := by
  obtain ⟨c, t, rfl, hc⟩ := hc
  have hd : isDIGIT c = false ∧ c ≠ '-' ∧ c ≠ '"' ∧ c ≠ '\'' := by
    refine ⟨?_, ?_, ?_, ?_⟩
    · cases hd : isDIGIT c with
      | false => rfl
      | true =>
        simp only [isLCALPHA, isDIGIT, Bool.and_eq_true, decide_eq_true_eq] at hc hd
        have h1 := Char.le_def.1 hc.1
        have h2 := Char.le_def.1 hd.2
        have : ('a' : Char).val ≤ ('9' : Char).val := Nat.le_trans h1 h2 |> fun h => by exact UInt32.le_iff_toNat_le.2 h
        revert this; decide
    all_goals (intro e; subst e; revert hc; decide)
  obtain ⟨pre, hp, hlit⟩ := literal_sound h
  cases hlit with
  | num hn _ =>
    obtain ⟨c', t', rfl, hc'⟩ := numberSp_head hn
    simp only [List.cons_append, List.cons.injEq] at hp
    obtain ⟨rfl, _⟩ := hp
    rcases hc' with h' | h'
    · simp [hd.1] at h'
    · exact absurd h' hd.2.1
  | str hs =>
    obtain ⟨t', ht | ht⟩ := stringLit_head hs
    · subst ht
      simp only [List.cons_append, List.cons.injEq] at hp
      exact absurd hp.1 hd.2.2.1
    · subst ht
      simp only [List.cons_append, List.cons.injEq] at hp
      exact absurd hp.1 hd.2.2.2
  | true => exact ⟨_, Or.inl rfl, hp⟩
  | false => exact ⟨_, Or.inr (Or.inl rfl), hp⟩
  | null => exact ⟨_, Or.inr (Or.inr rfl), hp⟩

end JPV.Proofs.AbnfP
