/-
`Proofs.Float.Main` — `float(repr(x)) == x` for every finite double of the model, and what it means for
`Proofs.FloatRoundTrips`.
-/
import JPV.Proofs.Float.Find
import JPV.Proofs.Float.Ratio
import JPV.Proofs.Float.Text
import JPV.Proofs.PrintCompile
namespace JPV.Proofs.Float
open JPV

/-- the non-zero doubles: numerator and denominator are positive, and there is a normalised mantissa -/
theorem IsDouble.nonzero {x : Num} (h : IsDouble x) (hn : x.n ≠ 0) :
    0 < x.n.natAbs ∧ 0 < x.d ∧ Nat.gcd x.n.natAbs x.d = 1 ∧
    ∃ (M : ℕ) (E : ℤ), 0 < M ∧ M < 2 ^ 53 ∧ (2 ^ 52 ≤ M ∨ E = -1074) ∧ -1074 ≤ E ∧ E ≤ 971 ∧
      ((x.n.natAbs : ℕ) : ℚ) / x.d = M * 2 ^ E := by
  obtain ⟨_, h | ⟨m, e, hm0, hm, he0, he1, hg, hv⟩⟩ := h
  · exact absurd h.1 hn
  · have hN : 0 < x.n.natAbs := Int.natAbs_pos.mpr hn
    have hd : 0 < x.d := by
      rcases Nat.eq_zero_or_pos x.d with h0 | h0
      · rw [h0, Nat.mul_zero] at hv
        have : x.n.natAbs = 0 := by
          rcases Nat.mul_eq_zero.mp hv with h | h
          · exact h
          · exact absurd h (Nat.two_pow_pos _).ne'
        omega
      · exact h0
    obtain ⟨M, E, a, b, c, d', e', hME⟩ := normalize m e hm0 hm he0 he1
    refine ⟨hN, hd, hg, M, E, a, b, c, d', e', ?_⟩
    rw [hME]
    exact (val_iff _ _ _ _ hd).mp hv

/-- the cross-multiplied value equation of `layout_parse`, on rationals -/
theorem parse_val (n' d' m L : ℕ) (dp : ℤ) (hd' : 0 < d')
    (h : n' * 10 ^ ((L : ℤ) - dp).toNat = m * 10 ^ (dp - (L : ℤ)).toNat * d') :
    (n' : ℚ) / d' = (m : ℚ) * 10 ^ (dp - (L : ℤ)) := by
  have hdq : (0 : ℚ) < d' := by exact_mod_cast hd'
  have hq : (n' : ℚ) * 10 ^ ((L : ℤ) - dp).toNat = m * 10 ^ (dp - (L : ℤ)).toNat * d' := by exact_mod_cast h
  rw [zpow_split 10 (by norm_num) (dp - L), neg_sub, div_eq_iff hdq.ne']
  have : (0 : ℚ) < 10 ^ ((L : ℤ) - dp).toNat := by positivity
  field_simp
  linarith

/-- `float(repr)` on the positive part: the text of `reprPos`, with either sign, is a complete RFC 9535 number
and `parseDecimal` then `roundBinary64` give back the mantissa and exponent -/
theorem reprPos_reads_back (N d M : ℕ) (E : ℤ) (hN : 0 < N) (hd : 0 < d) (hM0 : 0 < M) (hM : M < 2 ^ 53)
    (hnorm : 2 ^ 52 ≤ M ∨ E = -1074) (hE0 : -1074 ≤ E) (hE1 : E ≤ 971) (hv : (N : ℚ) / d = M * 2 ^ E) :
    Spec.numberSpelling (Py.reprPos N d) = some (Py.reprPos N d, []) ∧
    Spec.numberSpelling ('-' :: Py.reprPos N d) = some ('-' :: Py.reprPos N d, []) ∧
    ∃ n' d' : ℕ, Py.parseDecimal (Py.reprPos N d) = some (false, n', d') ∧
      Py.parseDecimal ('-' :: Py.reprPos N d) = some (true, n', d') ∧
      Py.roundBinary64 n' d' = some (M, E) := by
  obtain ⟨k, hk1, hk17, hm1, hm2, hdp1, hdp2, -, -, hback⟩ :=
    find_reads_back N d M E hN hd hM0 hM hnorm hE0 hE1 hv
  rw [reprPos_eq N d (by omega)]
  generalize Py.reprPos.find N d (Py.roundBinary64 N d) 17 1 = r at *
  obtain ⟨m, dp⟩ := r
  simp only at *
  have hm0 : 0 < m := lt_of_lt_of_le (Nat.pow_pos (by norm_num)) hm1
  have hL := natDigits_length m k (by omega) hm1 hm2
  obtain ⟨s1, s2⟩ := layout_spelling m hm0 dp
  obtain ⟨n', d', hd', p1, p2, hval⟩ := layout_parse m hm0 dp hdp1 hdp2 (by omega)
  rw [hL] at hval
  exact ⟨s1, s2, n', d', p1, p2, hback n' d' hd' (parse_val n' d' m k dp hd' hval)⟩

theorem floatOfText_eq (s : Str) : Py.floatOfText s =
    match Py.parseDecimal s with
    | none => none
    | some (neg, n, d) =>
      match Py.roundBinary64 n d with
      | none => some ⟨true, if neg then -1 else 1, 0⟩
      | some (m, e) =>
        if neg ∧ (Py.ratioOfBinary m e).1 = 0 then some ⟨true, 0, 2⟩ else
        some ⟨true, if neg then -((Py.ratioOfBinary m e).1 : Int) else (Py.ratioOfBinary m e).1, (Py.ratioOfBinary m e).2⟩ := by
  unfold Py.floatOfText
  cases Py.parseDecimal s with
  | none => rfl
  | some t =>
    obtain ⟨neg, n, d⟩ := t
    simp only
    cases Py.roundBinary64 n d with
    | none => rfl
    | some me => rfl

/-- `float(repr(x)) == x` for every finite double `x` of the model (`repr` text in `Py.reprFloat`, `float` in
`Py.floatOfText`), and `repr(x)` is a complete RFC 9535 number -/
theorem floatOfText_reprFloat (x : Num) (h : IsDouble x) :
    Spec.numberSpelling (Py.reprFloat x) = some (Py.reprFloat x, []) ∧
    Py.floatOfText (Py.reprFloat x) = some x := by
  by_cases hn : x.n = 0
  · obtain ⟨hf, hz | ⟨m, e, hm0, _, _, _, hg, hv⟩⟩ := h
    · obtain ⟨flt, n, d⟩ := x
      simp only at hf hz hn
      obtain ⟨rfl, hd⟩ := hz
      subst hf
      rcases hd with rfl | rfl
      · constructor <;> decide +kernel
      · constructor <;> decide +kernel
    · exfalso
      rw [hn] at hg hv
      simp only [Int.natAbs_zero, Nat.gcd_zero_left, Nat.zero_mul] at hg hv
      rw [hg] at hv
      have := Nat.mul_pos hm0 (Nat.two_pow_pos e.toNat)
      omega
  · obtain ⟨hN, hd, hg, M, E, hM0, hM, hnorm, hE0, hE1, hv⟩ := h.nonzero hn
    obtain ⟨s1, s2, n', d', p1, p2, hr⟩ :=
      reprPos_reads_back x.n.natAbs x.d M E hN hd hM0 hM hnorm hE0 hE1 hv
    have hrat := ratioOfBinary_of_val M E x.n.natAbs x.d hM0 hg ((val_iff _ _ _ _ hd).mpr hv)
    have hflt := h.1
    obtain ⟨flt, n, d⟩ := x
    simp only at *
    subst hflt
    unfold Py.reprFloat
    simp only
    rw [if_neg (by omega), if_neg (fun hc => hn hc.1)]
    by_cases hneg : n < 0
    · rw [if_pos hneg]
      refine ⟨s2, ?_⟩
      rw [floatOfText_eq, p2]
      simp only
      rw [hr]
      simp only
      rw [hrat]
      simp only
      rw [if_neg (fun hc => by omega)]
      simp only [if_true]
      congr 2
      omega
    · rw [if_neg hneg]
      refine ⟨s1, ?_⟩
      rw [floatOfText_eq, p1]
      simp only
      rw [hr]
      simp only
      rw [hrat]
      simp only [Bool.false_eq_true, false_and, if_false]
      congr 2
      omega

end JPV.Proofs.Float
