/-
`Proofs.Cf.LexPInt` — `Cs.BL_int` (the INDEX token inside brackets) at an arbitrary filter depth `D`.
-/
import JPV.Proofs.Cf.LexPBrk
import JPV.Proofs.Cs.LexInt
namespace JPV.Proofs.Cf
open JPV JPV.Impl JPV.Proofs.Rq

variable {D : Int}

theorem FBL_int {inp r : List Char} {i : Int} (h : Spec.intLit (Spec.skipS inp) = some (i, r))
    (hnd : Prn.NoDigit r) : FBL D inp (fun ts => ∃ v k, Cs.IdxTok v i ∧ ts = [⟨.index, v, k⟩]) r := by
  intro l toks br hs
  obtain ⟨l1, pre', h1, hst⟩ := hs.step_bracketed
  obtain ⟨c, t, v, e1, hc, e2, hre, hi⟩ := Cs.intLit_reIndex h hnd
  rw [e1] at h1 e2 hre
  obtain ⟨l2, s2, h2⟩ := lexBracketed_int h1 hc hre (by rw [e2]; simp)
  have e3 : (c :: t).take v.length = v := by rw [e2]; simp
  have e4 : (c :: t).drop v.length = r := by rw [e2]; simp
  rw [e3, e4] at h2
  exact ⟨l2, [_], .one (hst.trans s2), .of_FSt (by simpa using h2), v, _, hi, rfl⟩

end JPV.Proofs.Cf
