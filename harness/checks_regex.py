"""Exploration for C11: match()/search() vs the I-Regexp semantics of Spec.IRegexp."""
from __future__ import annotations

import unicodedata

import gen
import model
import real
import wire
from checks_eval import sizes

LITERALS = list("abcxyz019 _,-/:;<=>@AZ^`~!#%&'\"") + ["é", "😀", " ", "\n", "\r", "\t", "|x"[1]]
ESCAPABLE = list("()*+-.?[\\]^nrt{|}")
SUBJECT_ALPHABET = list("abcxyz019 _-|&~[].()*+?{}\\^$,") + ["\n", "\r", " ", "é", "😀", "A", "Z", "\t", "ß", "١", "一", " "]
CATS = ["L", "Lu", "Ll", "Lo", "N", "Nd", "P", "Po", "Pd", "Ps", "Pe", "S", "Sm", "Z", "Zs", "Zl", "C", "Cc", "M", "Lt", "Lm", "No", "Nl", "Sc", "Sk", "So", "Zp", "Cf", "Cn", "Co", "Mn", "Mc", "Me", "Pc", "Pi", "Pf"]


def gen_class(rng):
    neg = "^" if rng.random() < 0.3 else ""
    items = []
    if rng.random() < 0.15:
        items.append("-")
    for _ in range(rng.randint(0 if items else 1, 4)):
        k = rng.random()
        if k < 0.5:
            items.append(cc_char(rng))
        elif k < 0.8:
            a, b = sorted([rng.choice("abcxyz019AZ"), rng.choice("abcxyz019AZ")])
            items.append(a + "-" + b)
        else:
            items.append(("\\p{" if rng.random() < 0.6 else "\\P{") + rng.choice(CATS) + "}")
    tail = "-" if rng.random() < 0.1 else ""
    return "[" + neg + "".join(items) + tail + "]"


def cc_char(rng):
    if rng.random() < 0.25:
        return "\\" + rng.choice(ESCAPABLE)
    return rng.choice(list("abcxyz019 _,./:;<=>@AZ^`~!#%&'\"|&~*+?(){}$") + ["é", "😀", " "])


def gen_atom(rng, depth):
    k = rng.random()
    if k < 0.45:
        return rng.choice(LITERALS)
    if k < 0.55:
        return "\\" + rng.choice(ESCAPABLE)
    if k < 0.67:
        return "."
    if k < 0.8:
        return gen_class(rng)
    if k < 0.87:
        return ("\\p{" if rng.random() < 0.6 else "\\P{") + rng.choice(CATS) + "}"
    if depth > 0:
        return "(" + gen_re(rng, depth - 1) + ")"
    return rng.choice(LITERALS)


def gen_piece(rng, depth):
    a = gen_atom(rng, depth)
    k = rng.random()
    if k < 0.6:
        return a
    if k < 0.85:
        return a + rng.choice("*+?")
    lo = rng.randint(0, 3)
    return a + rng.choice(["{%d}" % lo, "{%d,}" % lo, "{%d,%d}" % (lo, lo + rng.randint(0, 2))])


def gen_re(rng, depth=2):
    branches = []
    for _ in range(rng.choice([1, 1, 1, 2, 3])):
        branches.append("".join(gen_piece(rng, depth) for _ in range(rng.randint(0, 4))))
    return "|".join(branches)


def mutate_re(rng, p):
    i = rng.randrange(len(p) + 1)
    return p[:i] + rng.choice(["(", ")", "[", "]", "{", "}", "*", "+", "?", "\\", "|", "\\d", "\\w", "(?:", "(?=a)", "a{2,1}", "[a-", "\\p{X}", "\\1", "*?", "+?", "^", "$", "{,2}", "[[:alpha:]]"]) + p[i:]


def cats_of(s):
    return ",".join(unicodedata.category(c) for c in s) if s else "-"


def gen_subject(rng, pattern):
    n = rng.randint(0, 5)
    pool = SUBJECT_ALPHABET + [c for c in pattern if c not in "\\()[]{}|*+?.^$"][:6]
    return "".join(rng.choice(pool) for _ in range(n))


def in_d32_region(p):
    """a negated character class containing both \\p{X} and \\P{X} for the same X (known finding D32)"""
    import re as _re

    for m in _re.finditer(r"\[\^((?:\\.|[^\]\\])*)\]", p):
        body = m.group(1)
        pos = set(_re.findall(r"\\p\{(\w+)\}", body))
        neg = set(_re.findall(r"\\P\{(\w+)\}", body))
        if pos & neg:
            return True
    return False


def engine_fast(pattern, subject, budget=0.4):
    """Whether the third-party `regex` engine answers fullmatch and search for this (translated) pattern and subject within
    `budget` seconds each.  The property is about WHAT match()/search() answer, not how long the backtracking engine
    takes; a pair on which it backtracks for minutes (nested quantifiers over a long subject) would stall the whole check
    — met once at seed 7 — so such pairs are skipped and counted, not explored."""
    try:
        import regex
        from jsonpath_rfc9535.function_extensions._pattern import map_re
    except Exception:  # noqa: BLE001
        return True
    if not isinstance(pattern, str) or not isinstance(subject, str):
        return True
    if ENGINE_STUCK:
        return False

    def probe():
        rx = map_re(pattern)
        regex.fullmatch(rx, subject, timeout=budget)
        regex.search(rx, subject, timeout=budget)

    kind, val = bounded(probe, 4.0)
    if kind == "timeout":
        ENGINE_STUCK.append((pattern, subject))
        return False
    if kind == "exc" and isinstance(val, TimeoutError):
        return False
    return True


ENGINE_STUCK = []


def bounded(fn, seconds=4.0):
    """Run `fn` in a daemon thread and wait at most `seconds`: ('ok', value), ('exc', exception) or ('timeout', None).  The
    third-party engine releases the GIL while it matches, so a call that does not come back (met once: seed 7, a pair that
    is instant in a fresh process) is abandoned — it cannot be killed — and the case is skipped and counted instead of
    stalling the whole check."""
    import threading

    box = {}

    def run():
        try:
            box["v"] = ("ok", fn())
        except BaseException as exc:  # noqa: BLE001
            box["v"] = ("exc", exc)

    t = threading.Thread(target=run, daemon=True)
    t.start()
    t.join(seconds)
    return box.get("v", ("timeout", None))


def explore_c11(rng, tier, res, deep=False):
    import jsonpath_rfc9535 as jp
    from jsonpath_rfc9535.function_extensions._pattern import map_re

    res.rule = (
        "I-Regexp patterns generated from the RFC 9485 grammar (literals, escaped metacharacters, '.', character "
        "classes with ranges / negation / category escapes, groups, alternation, quantifiers incl. {n,m}), plus "
        "single-insertion mutants outside the grammar, x subject strings over letters, digits, LF, CR, U+2028, "
        "'|', '&', '~', '-', '[', non-BMP, and non-string arguments of every kind; through the public find(): "
        "match() must equal Spec.IRe.fullMatch, search() must equal Spec.IRe.searchMatch (derivative semantics), both "
        "false for invalid patterns and non-strings, never an exception; map_re compared with its model. "
        "'^' and '$' are excluded from patterns (disputed reading). Non-trivial = distinct (pattern, subject) "
        "where match or search is true."
    )
    n = sizes(tier, deep, 1500, 30000)
    env = jp.JSONPathEnvironment()
    cm = env.compile("$[?match(@.s, @.p)]")
    cs = env.compile("$[?search(@.s, @.p)]")
    lines, expect = [], []
    for i in range(n):
        p = gen_re(rng)
        if rng.random() < 0.2:
            p = mutate_re(rng, p)
        if "^" in p.replace("[^", "[") or "$" in p:
            # '^'/'$' as atoms are excluded by the property (negation marker after '[' is fine)
            if "$" in p or "^" in p.replace("[^", "["):
                continue
        for _ in range(3):
            s = gen_subject(rng, p)
            doc = [{"s": s, "p": p}]
            res.evaluations += 1
            if not engine_fast(p, s):
                res.count("engine-too-slow-skipped")
                continue
            if ENGINE_STUCK:
                continue
            kind, val = bounded(lambda: (bool(cm.find(doc)), bool(cs.find(doc))))
            if kind == "timeout":
                # the abandoned call may hold the engine's internal locks: every later call into it would block, so the
                # rest of the real-side exploration of this run is skipped (what was gathered so far is still judged)
                ENGINE_STUCK.append((p, s))
                res.count("engine-did-not-return")
                res.notes.append("the third-party regex engine did not return within 4 s for pattern " + repr(p)[:120] + " on subject " + repr(s)[:60] +
                                 " (instant in a fresh process): the remaining real-side regex cases of this run were skipped")
                continue
            if kind == "exc":
                exc = val
                res.violations.append({"property": "C11", "query": "match/search", "document": doc, "observed": "PY:" + type(exc).__name__ + ": " + str(exc)[:100],
                                       "expected": "true or false", "what": "match()/search() raised"})
                continue
            m, sr = val
            lines.append(f"ireg\t{wire.enc_str(p)}\t{wire.enc_str(s)}\t{cats_of(s)}")
            expect.append((p, s, m, sr))
    # the pattern written as a string LITERAL in the query text (what a compile-time treatment of "simple" patterns would
    # see), subjects including the pattern's own text: plain words, patterns with a stray closing bracket or brace (not
    # valid I-Regexps: always false), metacharacters escaped and not
    def lit_of(t):
        return "'" + t.replace("\\", "\\\\").replace("'", "\\'") + "'"

    lit_pats = ["abc", "a]", "v1}", "}", "]", "a]b", "x}y", "a-b", "a,b", "a b", "ab", "a", "", "é", "a\\]", "a\\}", "a.c", "a\\.c", "[a]", "a{2}", "a|b", "(a)", "a*", "a+", "a?",
                "-", ",", "a:b", "a=b", "a/b", "a\"b", "a'b", "a&b", "a~b", "a<b>", "a#b", "a@b", "a!b", "a%b", "a_b", "a;b", "😀", "a\n"]
    lit_pats += [gen_re(rng) for _ in range(60 if tier != "thorough" else 1500)]
    for pt in lit_pats:
        if ENGINE_STUCK:
            break
        if "$" in pt or "^" in pt.replace("[^", "["):
            continue
        if any(ord(ch) < 0x20 for ch in pt):
            continue
        try:
            qm = env.compile(f"$[?match(@.s, {lit_of(pt)})]")
            qs_ = env.compile(f"$[?search(@.s, {lit_of(pt)})]")
            qn = env.compile(f"$[?!match(@.s, {lit_of(pt)})]")
        except jp.JSONPathError:
            continue
        for sb in [pt, pt + "x", "x" + pt, pt[:-1] if pt else "a"] + [gen_subject(rng, pt) for _ in range(2)]:
            doc = [{"s": sb}]
            res.evaluations += 1
            if not engine_fast(pt, sb):
                res.count("engine-too-slow-skipped")
                continue
            try:
                m = bool(qm.find(doc))
                sr = bool(qs_.find(doc))
                if bool(qn.find(doc)) == m:
                    res.violations.append({"property": "C11", "query": f"$[?!match(@.s, {lit_of(pt)})]", "document": doc, "observed": "same as match()", "expected": "the negation",
                                           "what": "!match() is not the negation of match()"})
            except Exception as exc:  # noqa: BLE001
                res.violations.append({"property": "C11", "query": f"$[?match(@.s, {lit_of(pt)})]", "document": doc, "observed": "PY:" + type(exc).__name__ + ": " + str(exc)[:100],
                                       "expected": "true or false", "what": "match()/search() raised"})
                continue
            lines.append(f"ireg\t{wire.enc_str(pt)}\t{wire.enc_str(sb)}\t{cats_of(sb)}")
            expect.append((pt, sb, m, sr))
    # known finding D32: the witness is replayed; other inputs of the same region are not judged
    res.evaluations += 1
    try:
        w = bool(cm.find([{"s": "a", "p": "[^\\p{L}\\P{L}]"}]))
    except Exception:  # noqa: BLE001
        w = None
    if w is True:
        res.known.append(("D32", "match('a', '[^\\p{L}\\P{L}]') is true: the third-party `regex` engine treats a negated class that "
                                 "contains both \\p{X} and \\P{X} as matching everything; the class is empty under RFC 9485"))
    out = model.run_batch_parallel(lines)
    for (p, s, m, sr), o in zip(expect, out):
        if in_d32_region(p):
            res.count("D32-region-skipped")
            continue
        if o == "invalid":
            res.count("invalid-pattern")
            if m or sr:
                res.violations.append({"property": "C11", "query": "$[?match(@.s, @.p)]", "document": [{"s": s, "p": p}],
                                       "observed": {"match": m, "search": sr}, "expected": "both false (pattern is not a valid I-Regexp)",
                                       "what": "an invalid I-Regexp matched"})
            continue
        if not o.startswith("valid "):
            res.infra.append("ireg: " + o[:60])
            continue
        _v, fm, sm = o.split(" ")
        res.count("valid-pattern")
        if m or sr:
            res.nontrivial.add((p, s))
            res.sample({"pattern": p, "subject": s, "match": m, "search": sr})
        if m != (fm == "1"):
            res.violations.append({"property": "C11", "query": "$[?match(@.s, @.p)]", "document": [{"s": s, "p": p}],
                                   "observed": m, "expected": fm == "1", "what": "match() differs from I-Regexp whole-string matching"})
        if sr != (sm == "1"):
            res.violations.append({"property": "C11", "query": "$[?search(@.s, @.p)]", "document": [{"s": s, "p": p}],
                                   "observed": sr, "expected": sm == "1", "what": "search() differs from I-Regexp substring matching"})
    # non-string arguments of every kind, in both positions
    for bad in ([] if ENGINE_STUCK else [None, True, 0, 1.5, [], ["a"], {}, {"a": 1}]):
        for doc in ([{"s": bad, "p": "a"}], [{"s": "a", "p": bad}], [{"p": "a"}], [{"s": "a"}]):
            res.evaluations += 1
            try:
                if cm.find(doc) or cs.find(doc):
                    res.violations.append({"property": "C11", "query": "match/search", "document": doc, "observed": "true",
                                           "expected": "false", "what": "non-string argument"})
            except Exception as exc:  # noqa: BLE001
                res.violations.append({"property": "C11", "query": "match/search", "document": doc, "observed": "PY:" + type(exc).__name__,
                                       "expected": "false", "what": "non-string argument raised"})
    # SUBJECT strings as `json.loads` really delivers them: with unpaired surrogate code points (from "\\udc00" in the JSON
    # text), very long, or made of astral characters only — judged on the real side alone (such strings are outside the
    # model's Char): no exception, and for patterns that are plain ASCII text the answer is substring / equality
    odd_subjects = ["x\udc00", "\ud800x", "a\udc00b\ud800", "\udfff", "x" * 70000, "\U0001f600" * 3000, "ab" + "\ud83d", "\x00x\x00", "x\ufffe", "\ufeffx"]
    for subj in ([] if ENGINE_STUCK else odd_subjects):
        for pat in ("x", "ab", "a", "zz", "x+", "[a-x]*", "."):
            doc = [{"s": subj, "p": pat}]
            res.evaluations += 1
            try:
                mr, sr = bool(cm.find(doc)), bool(cs.find(doc))
            except Exception as exc:  # noqa: BLE001
                res.violations.append({"property": "C11", "query": "$[?match(@.s, @.p)] / $[?search(@.s, @.p)]", "document": [{"s": subj[:40].encode("unicode_escape").decode() + ("..." if len(subj) > 40 else ""), "p": pat}],
                                       "observed": "PY:" + type(exc).__name__ + ": " + str(exc)[:120], "expected": "true or false",
                                       "what": "match()/search() raised on a subject string (as json.loads delivers it: unpaired surrogate, very long, astral)"})
                break
            if pat.isalnum() and (sr != (pat in subj) or mr != (pat == subj)):
                res.violations.append({"property": "C11", "query": "match/search", "document": [{"s": subj[:40].encode("unicode_escape").decode(), "p": pat}],
                                       "observed": {"match": mr, "search": sr}, "expected": {"match": pat == subj, "search": pat in subj},
                                       "what": "a plain-text pattern against an unusual subject string"})
    # map_re against its model
    pats = [gen_re(rng) for _ in range(400)] + ["a.b", "[.]", "\\.", "[a.]\\..", "\\\\.", "[\\]].", "[^.]", ".[.].", "\\[.\\]"]
    out = model.run_batch_parallel(["mapre\t" + wire.enc_str(p) for p in pats])
    for p, o in zip(pats, out):
        res.evaluations += 1
        if o != "mapre\t" + wire.enc_str(map_re(p)):
            res.mismatches.append({"op": "mapre", "pattern": p, "model": o, "real": map_re(p)})
