import JPV.Impl.Parse
import JPV.Impl.Serialize
import JPV.Proofs.PathsCanon
import JPV.Proofs.LexShape
import JPV.Proofs.Strings
import JPV.Proofs.Rq.Eval
import JPV.Proofs.Rq.ParseExec
namespace JPV.Proofs
open JPV JPV.Impl

/-- the singular query a location denotes -/
def queryOfLoc (loc : Loc) : Query :=
  loc.map (fun k => match k with
    | .name s => Segment.child [.name s]
    | .idx i => Segment.child [.index i])

/-- The normalized path of a location is accepted by the implementation's own lexer and parser and
compiles to the singular query that walks that location (for every member name over every Unicode
scalar value; indices non-negative and within the environment's range). -/
theorem path_compiles (env : Env) (loc : Loc)
    (h : ∀ k ∈ loc, ∀ i, k = .idx i → 0 ≤ i ∧ env.minIdx ≤ i ∧ i ≤ env.maxIdx) :
    Impl.compile env (Impl.path loc) = .ok (queryOfLoc loc) := by
  have hq : queryOfLoc loc = Rq.qOfLoc loc := by
    unfold queryOfLoc Rq.qOfLoc
    apply List.map_congr_left
    intro k _; cases k <;> rfl
  obtain ⟨toks, htok, hkv⟩ := Rq.tokenize_path loc (fun k hk i hi => (h k hk i hi).1)
  have hp := Rq.parse_path env loc h toks hkv
  unfold Impl.compile
  rw [htok, hq]
  exact hp

/-- … and evaluating it on a value in which the location exists returns exactly that one node. -/
theorem requery (env : Env) (v val : Json) (loc : Loc) (hwf : v.WF)
    (hg : Json.getAt v loc = some val)
    (h : ∀ k ∈ loc, ∀ i, k = .idx i → 0 ≤ i) :
    Impl.find env (queryOfLoc loc) v = .ok [⟨loc, val⟩] := by
  have hq : queryOfLoc loc = Rq.qOfLoc loc := by
    unfold queryOfLoc Rq.qOfLoc
    apply List.map_congr_left
    intro k _; cases k <;> rfl
  have := Rq.evalSegs_loc env v loc [] v val hg h
  simp only [List.nil_append] at this
  simp [Impl.find, Impl.finditer, hq, this, Stream.toList]

end JPV.Proofs
