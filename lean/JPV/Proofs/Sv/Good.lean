/-
`Proofs.Sv.Good` — what the validity rules on the DERIVATION (`Spec.cSegs`, parentheses kept) need beyond
well-typedness of the abstract query: `gSegs` — (i) every comparison operand is a term (literal, query,
call; never parenthesised), (ii) every parenthesised function argument meets a LogicalType parameter.
`cSegs_of_good`: a derivation that is good in this sense and whose abstraction is well-typed with in-range
integers satisfies the validity rules.
-/
import JPV.Spec.Grammar
import JPV.Spec.Valid
import JPV.Spec.Typing
import JPV.Proofs.Sf.CmpShape
namespace JPV.Proofs.Sv
open JPV

/-- the signature table the shape relations / judgements of `Sv` refer to -/
class SigC where
  sg : Spec.Sigs

def isParen : Spec.CExpr → Bool
  | .paren _ => true
  | _ => false

/-- literal / filter-query / function-expr -/
def isTermC : Spec.CExpr → Bool
  | .lit _ | .rel _ | .root _ | .call _ _ => true
  | _ => false

theorem isTermC_not_paren {c : Spec.CExpr} (h : isTermC c = true) : isParen c = false := by
  cases c <;> simp [isTermC, isParen] at h ⊢

/-- parenthesised arguments meet LogicalType parameters -/
def pOK : List Ty → List Spec.CExpr → Bool
  | t :: ts, a :: as => (!isParen a || t == .logical) && pOK ts as
  | _, _ => true

/-- the same on flags ("this argument begins with a left parenthesis") -/
def fOK : List Ty → List Bool → Bool
  | t :: ts, b :: bs => (!b || t == .logical) && fOK ts bs
  | _, _ => true

def callOK [SigC] (name : Str) (bs : List Bool) : Bool :=
  match SigC.sg name with
  | some s => fOK s.argTypes bs
  | none => true

/-- the flags over-approximate "is parenthesised" -/
def Flg : List Spec.CExpr → List Bool → Prop
  | [], [] => True
  | c :: cs, b :: bs => (isParen c = true → b = true) ∧ Flg cs bs
  | _, _ => False

theorem pOK_of_fOK : ∀ (tys : List Ty) (cs : List Spec.CExpr) (bs : List Bool),
    fOK tys bs = true → Flg cs bs → pOK tys cs = true
  | [], _, _, _, _ => by simp [pOK]
  | _ :: _, [], _, _, _ => by simp [pOK]
  | t :: ts, c :: cs, [], _, h => by simp [Flg] at h
  | t :: ts, c :: cs, b :: bs, h1, h2 => by
    simp only [fOK, Bool.and_eq_true, Bool.or_eq_true, Bool.not_eq_true'] at h1
    simp only [Flg] at h2
    simp only [pOK, Bool.and_eq_true, Bool.or_eq_true, Bool.not_eq_true']
    refine ⟨?_, pOK_of_fOK ts cs bs h1.2 h2.2⟩
    cases hp : isParen c with
    | false => exact .inl rfl
    | true =>
      rcases h1.1 with h | h
      · rw [h2.1 hp] at h; cases h
      · exact .inr h

mutual
def gExpr [SigC] : Spec.CExpr → Bool
  | .lit _ => true
  | .not e => gExpr e
  | .paren e => gExpr e
  | .and l r => gExpr l && gExpr r
  | .or l r => gExpr l && gExpr r
  | .cmp _ l r => isTermC l && isTermC r && gExpr l && gExpr r
  | .rel q => gSegs q
  | .root q => gSegs q
  | .call f args =>
    gArgs args && (match SigC.sg f with
      | some s => pOK s.argTypes args
      | none => true)
def gArgs [SigC] : List Spec.CExpr → Bool
  | [] => true
  | a :: as => gExpr a && gArgs as
def gSel [SigC] : Spec.CSelector → Bool
  | .filter e => gExpr e
  | _ => true
def gSels [SigC] : List Spec.CSelector → Bool
  | [] => true
  | s :: ss => gSel s && gSels ss
def gSegs [SigC] : List Spec.CSegment → Bool
  | [] => true
  | .child sels _ :: rest => gSels sels && gSegs rest
  | .desc sels :: rest => gSels sels && gSegs rest
end

theorem band_fst (a b : Bool × Bool) : (Spec.band a b).1 = (a.1 && b.1) := rfl
theorem guard_fst (c : Bool) : (Spec.guard c).1 = c := rfl
theorem ok_fst : Spec.ok.1 = true := rfl

variable [S : SigC]

mutual
theorem cTest_of_good (lo hi : Int) : (c : Spec.CExpr) → gExpr c = true →
    Spec.wtTest S.sg (Spec.abstractExpr c) = true → Spec.intsExpr lo hi (Spec.abstractExpr c) = true →
    (Spec.cTest S.sg lo hi c).1 = true
  | .lit _, _, h, _ => by simp [Spec.abstractExpr, Spec.wtTest] at h
  | .not e, g, h, i => by
    simp only [gExpr] at g
    simp only [Spec.abstractExpr, Spec.wtTest] at h
    simp only [Spec.abstractExpr, Spec.intsExpr] at i
    simp only [Spec.cTest]
    exact cTest_of_good lo hi e g h i
  | .paren e, g, h, i => by
    simp only [gExpr] at g
    simp only [Spec.abstractExpr] at h i
    simp only [Spec.cTest]
    exact cTest_of_good lo hi e g h i
  | .and l r, g, h, i => by
    simp only [gExpr, Bool.and_eq_true] at g
    simp only [Spec.abstractExpr, Spec.wtTest, Bool.and_eq_true] at h
    simp only [Spec.abstractExpr, Spec.intsExpr, Bool.and_eq_true] at i
    simp only [Spec.cTest, band_fst, Bool.and_eq_true]
    exact ⟨cTest_of_good lo hi l g.1 h.1 i.1, cTest_of_good lo hi r g.2 h.2 i.2⟩
  | .or l r, g, h, i => by
    simp only [gExpr, Bool.and_eq_true] at g
    simp only [Spec.abstractExpr, Spec.wtTest, Bool.and_eq_true] at h
    simp only [Spec.abstractExpr, Spec.intsExpr, Bool.and_eq_true] at i
    simp only [Spec.cTest, band_fst, Bool.and_eq_true]
    exact ⟨cTest_of_good lo hi l g.1 h.1 i.1, cTest_of_good lo hi r g.2 h.2 i.2⟩
  | .cmp _ l r, g, h, i => by
    simp only [gExpr, Bool.and_eq_true] at g
    simp only [Spec.abstractExpr, Spec.wtTest, Bool.and_eq_true] at h
    simp only [Spec.abstractExpr, Spec.intsExpr, Bool.and_eq_true] at i
    simp only [Spec.cTest, band_fst, Bool.and_eq_true]
    exact ⟨cComparable_of_good lo hi l g.1.2 (isTermC_not_paren g.1.1.1) h.1 i.1,
      cComparable_of_good lo hi r g.2 (isTermC_not_paren g.1.1.2) h.2 i.2⟩
  | .rel q, g, h, i => by
    simp only [gExpr] at g
    simp only [Spec.abstractExpr, Spec.wtTest] at h
    simp only [Spec.abstractExpr, Spec.intsExpr] at i
    simp only [Spec.cTest]
    exact cSegs_of_good lo hi q g h i
  | .root q, g, h, i => by
    simp only [gExpr] at g
    simp only [Spec.abstractExpr, Spec.wtTest] at h
    simp only [Spec.abstractExpr, Spec.intsExpr] at i
    simp only [Spec.cTest]
    exact cSegs_of_good lo hi q g h i
  | .call f args, g, h, i => by
    simp only [gExpr, Bool.and_eq_true] at g
    simp only [Spec.abstractExpr, Spec.wtTest] at h
    simp only [Spec.abstractExpr, Spec.intsExpr] at i
    simp only [Spec.cTest]
    cases hs : S.sg f with
    | none => simp [hs] at h
    | some s =>
      simp only [hs, Bool.and_eq_true] at h g
      simp only [band_fst, guard_fst, Bool.and_eq_true]
      exact ⟨h.1, cArgs_of_good lo hi s.argTypes args g.1 g.2 h.2 i⟩
theorem cComparable_of_good (lo hi : Int) : (c : Spec.CExpr) → gExpr c = true → isParen c = false →
    Spec.wtComparable S.sg (Spec.abstractExpr c) = true → Spec.intsExpr lo hi (Spec.abstractExpr c) = true →
    (Spec.cComparable S.sg lo hi c).1 = true
  | .lit v, _, _, h, _ => by
    simp only [Spec.abstractExpr, Spec.wtComparable] at h
    simp only [Spec.cComparable, guard_fst]
    exact h
  | .not e, _, _, h, _ => by simp [Spec.abstractExpr, Spec.wtComparable] at h
  | .paren e, _, p, _, _ => by simp [isParen] at p
  | .and l r, _, _, h, _ => by simp [Spec.abstractExpr, Spec.wtComparable] at h
  | .or l r, _, _, h, _ => by simp [Spec.abstractExpr, Spec.wtComparable] at h
  | .cmp _ l r, _, _, h, _ => by simp [Spec.abstractExpr, Spec.wtComparable] at h
  | .rel q, g, _, h, i => by
    simp only [gExpr] at g
    simp only [Spec.abstractExpr, Spec.wtComparable, Bool.and_eq_true] at h
    simp only [Spec.abstractExpr, Spec.intsExpr] at i
    simp only [Spec.cComparable, band_fst, Bool.and_eq_true]
    exact ⟨Sf.singularSegs_of q h.1, cSegs_of_good lo hi q g h.2 i⟩
  | .root q, g, _, h, i => by
    simp only [gExpr] at g
    simp only [Spec.abstractExpr, Spec.wtComparable, Bool.and_eq_true] at h
    simp only [Spec.abstractExpr, Spec.intsExpr] at i
    simp only [Spec.cComparable, band_fst, Bool.and_eq_true]
    exact ⟨Sf.singularSegs_of q h.1, cSegs_of_good lo hi q g h.2 i⟩
  | .call f args, g, _, h, i => by
    simp only [gExpr, Bool.and_eq_true] at g
    simp only [Spec.abstractExpr, Spec.wtComparable] at h
    simp only [Spec.abstractExpr, Spec.intsExpr] at i
    simp only [Spec.cComparable]
    cases hs : S.sg f with
    | none => simp [hs] at h
    | some s =>
      simp only [hs, Bool.and_eq_true] at h g
      simp only [band_fst, guard_fst, Bool.and_eq_true]
      exact ⟨h.1, cArgs_of_good lo hi s.argTypes args g.1 g.2 h.2 i⟩
theorem cNodes_of_good (lo hi : Int) : (c : Spec.CExpr) → gExpr c = true → isParen c = false →
    Spec.wtNodes S.sg (Spec.abstractExpr c) = true → Spec.intsExpr lo hi (Spec.abstractExpr c) = true →
    (Spec.cNodes S.sg lo hi c).1 = true
  | .lit v, _, _, h, _ => by simp [Spec.abstractExpr, Spec.wtNodes] at h
  | .not e, _, _, h, _ => by simp [Spec.abstractExpr, Spec.wtNodes] at h
  | .paren e, _, p, _, _ => by simp [isParen] at p
  | .and l r, _, _, h, _ => by simp [Spec.abstractExpr, Spec.wtNodes] at h
  | .or l r, _, _, h, _ => by simp [Spec.abstractExpr, Spec.wtNodes] at h
  | .cmp _ l r, _, _, h, _ => by simp [Spec.abstractExpr, Spec.wtNodes] at h
  | .rel q, g, _, h, i => by
    simp only [gExpr] at g
    simp only [Spec.abstractExpr, Spec.wtNodes] at h
    simp only [Spec.abstractExpr, Spec.intsExpr] at i
    simp only [Spec.cNodes]
    exact cSegs_of_good lo hi q g h i
  | .root q, g, _, h, i => by
    simp only [gExpr] at g
    simp only [Spec.abstractExpr, Spec.wtNodes] at h
    simp only [Spec.abstractExpr, Spec.intsExpr] at i
    simp only [Spec.cNodes]
    exact cSegs_of_good lo hi q g h i
  | .call f args, g, _, h, i => by
    simp only [gExpr, Bool.and_eq_true] at g
    simp only [Spec.abstractExpr, Spec.wtNodes] at h
    simp only [Spec.abstractExpr, Spec.intsExpr] at i
    simp only [Spec.cNodes]
    cases hs : S.sg f with
    | none => simp [hs] at h
    | some s =>
      simp only [hs, Bool.and_eq_true] at h g
      simp only [band_fst, guard_fst, Bool.and_eq_true]
      exact ⟨h.1, cArgs_of_good lo hi s.argTypes args g.1 g.2 h.2 i⟩
theorem cArgs_of_good (lo hi : Int) : (tys : List Ty) → (args : List Spec.CExpr) → gArgs args = true →
    pOK tys args = true → Spec.wtArgs S.sg tys (Spec.abstractArgs args) = true →
    Spec.intsArgs lo hi (Spec.abstractArgs args) = true → (Spec.cArgs S.sg lo hi tys args).1 = true
  | [], [], _, _, _, _ => by simp [Spec.cArgs, ok_fst]
  | [], a :: as, _, _, h, _ => by simp [Spec.abstractArgs, Spec.wtArgs] at h
  | t :: ts, [], _, _, h, _ => by simp [Spec.abstractArgs, Spec.wtArgs] at h
  | t :: ts, a :: as, g, p, h, i => by
    simp only [gArgs, Bool.and_eq_true] at g
    simp only [pOK, Bool.and_eq_true, Bool.or_eq_true, Bool.not_eq_true', beq_iff_eq] at p
    simp only [Spec.abstractArgs, Spec.wtArgs, Bool.and_eq_true] at h
    simp only [Spec.abstractArgs, Spec.intsArgs, Bool.and_eq_true] at i
    simp only [Spec.cArgs, band_fst, Bool.and_eq_true]
    refine ⟨?_, cArgs_of_good lo hi ts as g.2 p.2 h.2 i.2⟩
    have h1 := h.1
    cases t with
    | value =>
      have hp : isParen a = false := by rcases p.1 with p1 | p1 <;> first | exact p1 | cases p1
      exact cComparable_of_good lo hi a g.1 hp h1 i.1
    | logical => exact cTest_of_good lo hi a g.1 h1 i.1
    | nodes =>
      have hp : isParen a = false := by rcases p.1 with p1 | p1 <;> first | exact p1 | cases p1
      exact cNodes_of_good lo hi a g.1 hp h1 i.1
theorem cSel_of_good (lo hi : Int) : (s : Spec.CSelector) → gSel s = true →
    Spec.wtSel S.sg (Spec.abstractSel s) = true → Spec.intsSel lo hi (Spec.abstractSel s) = true →
    (Spec.cSel S.sg lo hi s).1 = true
  | .filter e, g, h, i => by
    simp only [gSel] at g
    simp only [Spec.abstractSel, Spec.wtSel] at h
    simp only [Spec.abstractSel, Spec.intsSel] at i
    simp only [Spec.cSel]
    exact cTest_of_good lo hi e g h i
  | .name _, _, _, _ => by simp [Spec.cSel, ok_fst]
  | .index _, _, _, i => by
    simp only [Spec.abstractSel, Spec.intsSel] at i
    simp only [Spec.cSel, guard_fst]
    exact i
  | .slice _ _ _, _, _, i => by
    simp only [Spec.abstractSel, Spec.intsSel] at i
    simp only [Spec.cSel, guard_fst]
    exact i
  | .wild, _, _, _ => by simp [Spec.cSel, ok_fst]
theorem cSels_of_good (lo hi : Int) : (ss : List Spec.CSelector) → gSels ss = true →
    Spec.wtSels S.sg (Spec.abstractSels ss) = true → Spec.intsSels lo hi (Spec.abstractSels ss) = true →
    (Spec.cSels S.sg lo hi ss).1 = true
  | [], _, _, _ => by simp [Spec.cSels, ok_fst]
  | s :: ss, g, h, i => by
    simp only [gSels, Bool.and_eq_true] at g
    simp only [Spec.abstractSels, Spec.wtSels, Bool.and_eq_true] at h
    simp only [Spec.abstractSels, Spec.intsSels, Bool.and_eq_true] at i
    simp only [Spec.cSels, band_fst, Bool.and_eq_true]
    exact ⟨cSel_of_good lo hi s g.1 h.1 i.1, cSels_of_good lo hi ss g.2 h.2 i.2⟩
theorem cSegs_of_good (lo hi : Int) : (c : List Spec.CSegment) → gSegs c = true →
    Spec.wtQuery S.sg (Spec.abstractSegs c) = true → Spec.intsQuery lo hi (Spec.abstractSegs c) = true →
    (Spec.cSegs S.sg lo hi c).1 = true
  | [], _, _, _ => by simp [Spec.cSegs, ok_fst]
  | .child sels _ :: rest, g, h, i => by
    simp only [gSegs, Bool.and_eq_true] at g
    simp only [Spec.abstractSegs, Spec.wtQuery, Spec.wtSeg, Bool.and_eq_true] at h
    simp only [Spec.abstractSegs, Spec.intsQuery, Spec.intsSeg, Bool.and_eq_true] at i
    simp only [Spec.cSegs, band_fst, Bool.and_eq_true]
    exact ⟨cSels_of_good lo hi sels g.1 h.1 i.1, cSegs_of_good lo hi rest g.2 h.2 i.2⟩
  | .desc sels :: rest, g, h, i => by
    simp only [gSegs, Bool.and_eq_true] at g
    simp only [Spec.abstractSegs, Spec.wtQuery, Spec.wtSeg, Bool.and_eq_true] at h
    simp only [Spec.abstractSegs, Spec.intsQuery, Spec.intsSeg, Bool.and_eq_true] at i
    simp only [Spec.cSegs, band_fst, Bool.and_eq_true]
    exact ⟨cSels_of_good lo hi sels g.1 h.1 i.1, cSegs_of_good lo hi rest g.2 h.2 i.2⟩
end

end JPV.Proofs.Sv
