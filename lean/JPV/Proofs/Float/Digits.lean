/-
`Proofs.Float.Digits` — `Py.toDigits n d k`: `k` significant decimal digits `m` (`10^(k-1) ≤ m < 10^k`) and a
decimal point position `dp` with `|m·10^(dp-k) - n/d| ≤ ½·10^(1-k)·(n/d)`; the candidate `backOf`.
-/
import JPV.Proofs.Float.DecExp
import JPV.Proofs.Float.Round3
namespace JPV.Proofs.Float
open JPV

/-! ### `roundHalfEven` -/

theorem rhe_spec (n d : ℕ) (hd : 0 < d) : |((Py.roundHalfEven n d : ℕ) : ℚ) - (n : ℚ) / d| ≤ 1 / 2 := by
  have hdq : (0 : ℚ) < d := by exact_mod_cast hd
  have hdm : (n : ℚ) = (d : ℚ) * ((n / d : ℕ) : ℚ) + ((n % d : ℕ) : ℚ) := by
    exact_mod_cast (Nat.div_add_mod n d).symm
  have hr : ((n % d : ℕ) : ℚ) < d := by exact_mod_cast Nat.mod_lt n hd
  have hv : (n : ℚ) / d = ((n / d : ℕ) : ℚ) + ((n % d : ℕ) : ℚ) / d := by
    rw [div_eq_iff hdq.ne']; field_simp; linarith
  unfold Py.roundHalfEven
  simp only
  rw [hv]
  split
  · rename_i h
    have h2 : (d : ℚ) ≤ 2 * ((n % d : ℕ) : ℚ) := by
      have : d ≤ 2 * (n % d) := by omega
      exact_mod_cast this
    have : (1 : ℚ) / 2 ≤ ((n % d : ℕ) : ℚ) / d := by
      rw [div_le_div_iff₀ (by norm_num) hdq]; linarith
    have h1 : ((n % d : ℕ) : ℚ) / d < 1 := by rw [div_lt_one hdq]; exact hr
    push_cast
    rw [abs_le]; constructor <;> linarith
  · rename_i h
    have h2 : 2 * ((n % d : ℕ) : ℚ) ≤ d := by
      have : 2 * (n % d) ≤ d := by omega
      exact_mod_cast this
    have : ((n % d : ℕ) : ℚ) / d ≤ 1 / 2 := by
      rw [div_le_div_iff₀ hdq (by norm_num)]; linarith
    have h0 : (0 : ℚ) ≤ ((n % d : ℕ) : ℚ) / d := by positivity
    rw [abs_le]; constructor <;> linarith

/-- the nearest integer does not cross an integer bound -/
theorem rhe_le (n d B : ℕ) (hd : 0 < d) (h : (n : ℚ) / d ≤ B) : Py.roundHalfEven n d ≤ B := by
  have hdq : (0 : ℚ) < d := by exact_mod_cast hd
  rw [div_le_iff₀ hdq] at h
  have hn : n ≤ B * d := by exact_mod_cast h
  unfold Py.roundHalfEven
  simp only
  have hq : n / d ≤ B := by
    calc n / d ≤ B * d / d := Nat.div_le_div_right hn
      _ = B := Nat.mul_div_cancel _ hd
  split
  · rename_i hc
    by_contra hlt
    have hqB : n / d = B := by omega
    have := Nat.div_add_mod n d
    rw [hqB] at this
    have : n % d = 0 := by
      have h3 : d * B + n % d ≤ B * d := by omega
      rw [Nat.mul_comm] at h3; omega
    omega
  · exact hq

theorem rhe_ge (n d A : ℕ) (hd : 0 < d) (h : (A : ℚ) ≤ (n : ℚ) / d) : A ≤ Py.roundHalfEven n d := by
  have hdq : (0 : ℚ) < d := by exact_mod_cast hd
  rw [le_div_iff₀ hdq] at h
  have hn : A * d ≤ n := by exact_mod_cast h
  unfold Py.roundHalfEven
  simp only
  have hq : A ≤ n / d := by
    rw [Nat.le_div_iff_mul_le hd]; exact hn
  split <;> omega

/-! ### `toDigits` -/

theorem toDigits_eq (n d k : ℕ) : Py.toDigits n d k =
    (let e := Py.decimalExponent n d
     let m := if (k : ℤ) - e ≥ 0 then Py.roundHalfEven (n * 10 ^ ((k : ℤ) - e).toNat) d
              else Py.roundHalfEven n (d * 10 ^ (-((k : ℤ) - e)).toNat)
     if m ≥ 10 ^ k then (m / 10, e + 1) else (m, e)) := rfl

/-- the integer `toDigits` rounds to: nearest to `(n/d)·10^(k-e)` -/
def digitsRaw (n d k : ℕ) : ℕ :=
  if (k : ℤ) - Py.decimalExponent n d ≥ 0 then
    Py.roundHalfEven (n * 10 ^ ((k : ℤ) - Py.decimalExponent n d).toNat) d
  else Py.roundHalfEven n (d * 10 ^ (-((k : ℤ) - Py.decimalExponent n d)).toNat)

theorem toDigits_eq' (n d k : ℕ) : Py.toDigits n d k =
    if digitsRaw n d k ≥ 10 ^ k then (digitsRaw n d k / 10, Py.decimalExponent n d + 1)
    else (digitsRaw n d k, Py.decimalExponent n d) := rfl

theorem ten_zpow_pos (e : ℤ) : (0 : ℚ) < 10 ^ e := zpow_pos (by norm_num) e

/-- `digitsRaw` is within `1/2` of `x = (n/d)·10^(k-e)` and between any integer bounds of `x` -/
theorem digitsRaw_spec (n d k : ℕ) (hd : 0 < d) :
    |((digitsRaw n d k : ℕ) : ℚ) - (n : ℚ) / d * 10 ^ ((k : ℤ) - Py.decimalExponent n d)| ≤ 1 / 2 ∧
    (∀ A : ℕ, (A : ℚ) ≤ (n : ℚ) / d * 10 ^ ((k : ℤ) - Py.decimalExponent n d) → A ≤ digitsRaw n d k) ∧
    (∀ B : ℕ, (n : ℚ) / d * 10 ^ ((k : ℤ) - Py.decimalExponent n d) ≤ B → digitsRaw n d k ≤ B) := by
  have hdq : (0 : ℚ) < d := by exact_mod_cast hd
  unfold digitsRaw
  generalize (k : ℤ) - Py.decimalExponent n d = sh
  split
  · rename_i h
    obtain ⟨j, rfl⟩ := Int.eq_ofNat_of_zero_le h
    simp only [Int.toNat_natCast, zpow_natCast]
    have hv : (((n * 10 ^ j : ℕ) : ℕ) : ℚ) / d = (n : ℚ) / d * 10 ^ j := by push_cast; ring
    rw [← hv]
    exact ⟨rhe_spec _ _ hd, fun A hA => rhe_ge _ _ A hd hA, fun B hB => rhe_le _ _ B hd hB⟩
  · rename_i h
    obtain ⟨j, hj⟩ := Int.eq_ofNat_of_zero_le (show 0 ≤ -sh by omega)
    have hs : sh = -(j : ℤ) := by omega
    subst hs
    simp only [Int.neg_neg, Int.toNat_natCast, zpow_neg, zpow_natCast]
    have hv : (n : ℚ) / ((d * 10 ^ j : ℕ) : ℚ) = (n : ℚ) / d * (10 ^ j)⁻¹ := by
      push_cast; field_simp
    rw [← hv]
    have hd' : 0 < d * 10 ^ j := Nat.mul_pos hd (Nat.pow_pos (by norm_num))
    exact ⟨rhe_spec _ _ hd', fun A hA => rhe_ge _ _ A hd' hA, fun B hB => rhe_le _ _ B hd' hB⟩

/-- the digits of `toDigits`: exactly `k` of them, and within half a unit of the `k`-th place of `n/d` -/
theorem toDigits_spec (n d k : ℕ) (hn : 0 < n) (hd : 0 < d) (hk : 0 < k)
    (hlo : -1100 ≤ (Nat.log2 n : Int) - (Nat.log2 d : Int))
    (hhi : (Nat.log2 n : Int) - (Nat.log2 d : Int) ≤ 1100) :
    10 ^ (k - 1) ≤ (Py.toDigits n d k).1 ∧ (Py.toDigits n d k).1 < 10 ^ k ∧
    Py.decimalExponent n d ≤ (Py.toDigits n d k).2 ∧ (Py.toDigits n d k).2 ≤ Py.decimalExponent n d + 1 ∧
    ((Py.toDigits n d k).2 = Py.decimalExponent n d + 1 → (Py.toDigits n d k).1 = 10 ^ (k - 1)) ∧
    |((Py.toDigits n d k).1 : ℚ) * 10 ^ ((Py.toDigits n d k).2 - (k : ℤ)) - (n : ℚ) / d| * (2 * 10 ^ (k - 1)) ≤
      (n : ℚ) / d := by
  obtain ⟨hb1, hb2⟩ := decimalExponent_bounds n d hn hd hlo hhi
  obtain ⟨hr1, hr2, hr3⟩ := digitsRaw_spec n d k hd
  rw [toDigits_eq']
  generalize Py.decimalExponent n d = e at *
  generalize digitsRaw n d k = m0 at *
  set v : ℚ := (n : ℚ) / d with hv
  have hsh : (0 : ℚ) < 10 ^ ((k : ℤ) - e) := ten_zpow_pos _
  -- `10^(k-1) ≤ x < 10^k`
  have hx1 : ((10 ^ (k - 1) : ℕ) : ℚ) ≤ v * 10 ^ ((k : ℤ) - e) := by
    have : (10 : ℚ) ^ (e - 1) * 10 ^ ((k : ℤ) - e) = ((10 ^ (k - 1) : ℕ) : ℚ) := by
      rw [← zpow_add₀ (by norm_num)]
      push_cast
      rw [← zpow_natCast]
      congr 1
      omega
    rw [← this]; gcongr
  have hx2 : v * 10 ^ ((k : ℤ) - e) ≤ ((10 ^ k : ℕ) : ℚ) := by
    have : (10 : ℚ) ^ e * 10 ^ ((k : ℤ) - e) = ((10 ^ k : ℕ) : ℚ) := by
      rw [← zpow_add₀ (by norm_num)]
      push_cast
      rw [← zpow_natCast]
      congr 1
      omega
    rw [← this]; gcongr
  have hm1 := hr2 _ hx1
  have hm2 := hr3 _ hx2
  -- the value printed is `m0 · 10^(e-k)` in both branches
  have hinv : (10 : ℚ) ^ (e - (k : ℤ)) * 10 ^ ((k : ℤ) - e) = 1 := by
    rw [← zpow_add₀ (by norm_num)]; simp
  have hw : |(m0 : ℚ) * 10 ^ (e - (k : ℤ)) - v| * (2 * 10 ^ (k - 1)) ≤ v := by
    have h1 : (m0 : ℚ) * 10 ^ (e - (k : ℤ)) - v = ((m0 : ℚ) - v * 10 ^ ((k : ℤ) - e)) * 10 ^ (e - (k : ℤ)) := by
      have : v * 10 ^ ((k : ℤ) - e) * 10 ^ (e - (k : ℤ)) = v := by
        rw [mul_assoc, mul_comm (10 ^ ((k : ℤ) - e)), hinv, mul_one]
      rw [sub_mul, this]
    rw [h1, abs_mul, abs_of_pos (ten_zpow_pos _)]
    have h2 : (10 : ℚ) ^ (e - (k : ℤ)) * (2 * 10 ^ (k - 1)) = 2 * 10 ^ (e - 1) := by
      rw [mul_comm, mul_assoc, ← zpow_natCast, ← zpow_add₀ (by norm_num)]
      congr 2
      have : ((k - 1 : ℕ) : ℤ) = (k : ℤ) - 1 := by omega
      rw [this]; ring
    calc |(m0 : ℚ) - v * 10 ^ ((k : ℤ) - e)| * 10 ^ (e - (k : ℤ)) * (2 * 10 ^ (k - 1))
        = |(m0 : ℚ) - v * 10 ^ ((k : ℤ) - e)| * (2 * 10 ^ (e - 1)) := by rw [mul_assoc, h2]
      _ ≤ 1 / 2 * (2 * 10 ^ (e - 1)) := by
          have := ten_zpow_pos (e - 1)
          gcongr
      _ = 10 ^ (e - 1) := by ring
      _ ≤ v := hb1
  split
  · rename_i hc
    have hm0 : m0 = 10 ^ k := by omega
    have hk10 : (10 : ℕ) ^ k = 10 * 10 ^ (k - 1) := by
      rw [← Nat.pow_succ']; congr 1; omega
    refine ⟨?_, ?_, by omega, by omega, ?_, ?_⟩
    · simp only; rw [hm0, hk10, Nat.mul_div_cancel_left _ (by norm_num)]
    · simp only; rw [hm0, hk10, Nat.mul_div_cancel_left _ (by norm_num)]
      have : 0 < 10 ^ (k - 1) := Nat.pow_pos (by norm_num)
      omega
    · intro _; simp only; rw [hm0, hk10, Nat.mul_div_cancel_left _ (by norm_num)]
    · simp only
      have : ((m0 / 10 : ℕ) : ℚ) * 10 ^ (e + 1 - (k : ℤ)) = (m0 : ℚ) * 10 ^ (e - (k : ℤ)) := by
        rw [hm0, hk10, Nat.mul_div_cancel_left _ (by norm_num)]
        have : e + 1 - (k : ℤ) = (e - k) + 1 := by ring
        rw [this, zpow_add_one₀ (by norm_num)]
        push_cast; ring
      rw [this]; exact hw
  · rename_i hc
    exact ⟨hm1, by omega, le_refl _, by omega, fun h => by simp only at h; omega, hw⟩

/-! ### the candidate read back -/

theorem backOf_val (m : ℕ) (e : ℤ) (k : ℕ) : ∃ n' d' : ℕ, 0 < d' ∧ backOf m e k = Py.roundBinary64 n' d' ∧
    (n' : ℚ) / d' = (m : ℚ) * 10 ^ (e - (k : ℤ)) := by
  unfold backOf
  split
  · rename_i h
    obtain ⟨j, hj⟩ := Int.eq_ofNat_of_zero_le h
    refine ⟨_, 1, by norm_num, rfl, ?_⟩
    rw [hj]; simp
  · rename_i h
    obtain ⟨j, hj⟩ := Int.eq_ofNat_of_zero_le (show 0 ≤ (k : ℤ) - e by omega)
    refine ⟨_, _, Nat.pow_pos (by norm_num), rfl, ?_⟩
    have : e - (k : ℤ) = -(j : ℤ) := by omega
    rw [hj, this]; simp [div_eq_mul_inv]

/-- `roundBinary64` of two fractions with the same value -/
theorem roundBinary64_congrQ {n d n' d' : ℕ} (hd : 0 < d) (hd' : 0 < d') (h : (n : ℚ) / d = (n' : ℚ) / d') :
    Py.roundBinary64 n d = Py.roundBinary64 n' d' := by
  apply roundBinary64_congr hd hd'
  have hdq : (d : ℚ) ≠ 0 := by exact_mod_cast hd.ne'
  have hdq' : (d' : ℚ) ≠ 0 := by exact_mod_cast hd'.ne'
  rw [div_eq_div_iff hdq hdq'] at h
  exact_mod_cast h

end JPV.Proofs.Float
