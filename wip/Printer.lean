import JPV.Impl.Serialize
import JPV.Spec.Grammar
import JPV.Spec.Typing
import JPV.Spec.NormalizedPath
import JPV.Proofs.PathsCanon
namespace JPV.Proofs
open JPV

/-- an omitted slice step written out (what the canonical text does) -/
def normStepSel : Selector → Selector
  | .slice a b none => .slice a b (some 1)
  | s => s

def normStepSeg : Segment → Segment
  | .child sels => .child (sels.map normStepSel)
  | .desc sels => .desc (sels.map normStepSel)

def normStep (q : Query) : Query := q.map normStepSeg

/-- every segment has at least one selector (true of every parsed query) -/
def nonEmptySegs (q : Query) : Bool :=
  q.all (fun s => match s with | .child sels => !sels.isEmpty | .desc sels => !sels.isEmpty)

theorem print_parse_structural (q : Query) (hff : Spec.filterFree q = true) (hne : nonEmptySegs q = true) :
    ∃ c, Spec.parseQuery (Impl.strQuery q) = .valid c ∧ Spec.abstractSegs c = normStep q := by sorry

theorem print_normStep (q : Query) : Impl.strQuery (normStep q) = Impl.strQuery q := by sorry

theorem print_quoting (s : Str) :
    Impl.strSel (.name s) = Spec.normalName s ∧ Impl.strLit (.str s) = Spec.normalName s := by sorry

end JPV.Proofs
