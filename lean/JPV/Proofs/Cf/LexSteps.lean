/-
`Proofs.Cf.LexSteps` — `Rq.LexSteps` and `Rq.strLoop_walk` at an arbitrary filter depth.
-/
import JPV.Proofs.Cf.LexSt
import JPV.Proofs.Rq.LexPath
namespace JPV.Proofs.Cf
open JPV JPV.Impl JPV.Proofs.Rq

variable {D : Int} {l : Lexer} {pre cur rest : List Char} {toks : List Token} {br : List (Char × Nat)}

theorem lexRoot_exec (h : FSt D l pre [] ('$' :: rest) toks br) :
    Impl.step .root l = .ok (l.adv.emit .root, some .segment) := by
  have hp : l.peek = some '$' := by rw [h.peek]; rfl
  simp [Impl.step, lexRoot, Lexer.next_eq, hp, goto]

theorem lexSegment_eof (h : FSt D l pre [] [] toks br) :
    Impl.step .segment l = .ok (l.adv.emit .eof, none) := by
  have hp : l.peek = none := by rw [h.peek]; rfl
  have hw := h.ws_none (by simp)
  simp [Impl.step, lexSegment, hw, Lexer.next_eq, hp, stop, bind, Except.bind]

theorem lexSegment_lbracket (h : FSt D l pre [] ('[' :: rest) toks br) :
    Impl.step .segment l = .ok ((l.adv.emit .lbracket).pushBracket '[' ((l.adv.emit .lbracket).pos - 1),
      some .bracketed) := by
  have hp : l.peek = some '[' := by rw [h.peek]; rfl
  have hw := h.ws_none (by simp [isWs])
  simp [Impl.step, lexSegment, hw, Lexer.next_eq, hp, goto, bind, Except.bind]


theorem lexBracketed_quote (h : FSt D l pre [] ('\'' :: rest) toks br) :
    Impl.step .bracketed l = .ok (l.adv, some (.strStart '\'' false)) := by
  have hp : l.peek = some '\'' := by rw [h.peek]; rfl
  have hw := h.ws_none (by simp [isWs])
  simp [Impl.step, lexBracketed, hw, Lexer.next_eq, hp, goto, bind, Except.bind]

theorem lexBracketed_rbracket {i : Nat} (h : FSt D l pre [] (']' :: rest) toks (('[', i) :: br)) :
    Impl.step .bracketed l = .ok (({ l.adv with brackets := br } : Lexer).emit .rbracket, some .segment) := by
  have hp : l.peek = some ']' := by rw [h.peek]; rfl
  have hw := h.ws_none (by simp [isWs])
  simp [Impl.step, lexBracketed, hw, Lexer.next_eq, hp, goto, bind, Except.bind, h.br]

theorem lexStrStart_exec {q : Char} {f : Bool} (h : FSt D l pre cur rest toks br) (hr : rest ≠ []) :
    Impl.step (.strStart q f) l = .ok (l.ignore, some (.strLoop q f)) := by
  cases rest with
  | nil => exact absurd rfl hr
  | cons c rest =>
    have hp : l.ignore.peek = some c := by rw [h.ignore.peek]; rfl
    simp [Impl.step, lexStrStart, hp, goto]

theorem lexStrLoop_plain {q : Char} {f : Bool} {c : Char} (h : FSt D l pre cur (c :: rest) toks br)
    (h1 : c ≠ '\\') (h2 : c ≠ q) :
    Impl.step (.strLoop q f) l = .ok (l.adv, some (.strLoop q f)) := by
  have hp : l.peek = some c := by rw [h.peek]; rfl
  simp [Impl.step, lexStrLoop, Lexer.next_eq, hp, goto, h1, h2]

theorem lexStrLoop_esc {q : Char} {f : Bool} {p : Char} (h : FSt D l pre cur ('\\' :: p :: rest) toks br)
    (h1 : (isEscapeChar p || p = q) = true) :
    Impl.step (.strLoop q f) l = .ok (l.adv.adv, some (.strLoop q f)) := by
  have hp : l.peek = some '\\' := by rw [h.peek]; rfl
  have hp2 : l.adv.peek = some p := by rw [h.adv.peek]; rfl
  simp only [Bool.or_eq_true, decide_eq_true_eq] at h1
  simp [Impl.step, lexStrLoop, Lexer.next_eq, hp, hp2, goto, h1]

theorem lexStrLoop_close {q : Char} {f : Bool} (h : FSt D l pre cur (q :: rest) toks br) (hq : q ≠ '\\') :
    ∃ l', Impl.step (.strLoop q f) l = .ok (l', some (retState f)) ∧
      FSt D l' (pre ++ cur ++ [q]) [] rest (⟨strKind q, cur, pre.length⟩ :: toks) br := by
  have hp : l.peek = some q := by rw [h.peek]; rfl
  obtain ⟨l1, hb, h1⟩ := h.adv.backup
  have h2 := ((h1.emit (strKind q)).adv).ignore
  refine ⟨_, ?_, by simpa using h2⟩
  simp [Impl.step, lexStrLoop, Lexer.next_eq, hp, goto, hq, bind, Except.bind, hb]

theorem lexBracketed_index {c : Char} {r : List Char} (h : FSt D l pre [] (c :: r) toks br)
    (hd : isDigit c = true) {k : Nat} (hre : reIndex (c :: r) = some k) (hk : k ≤ (c :: r).length)
    {tk dr : List Char} (e1 : (c :: r).take k = tk) (e2 : (c :: r).drop k = dr) :
    ∃ l', Impl.step .bracketed l = .ok (l', some .bracketed) ∧
      FSt D l' (pre ++ tk) [] dr (⟨.index, tk, pre.length⟩ :: toks) br := by
  subst e1 e2
  have hp : l.peek = some c := by rw [h.peek]; rfl
  have hw := h.ws_none (by
    intro c' hc'; simp at hc'; subst hc'; exact digit_not_ws hd)
  obtain ⟨l1, hb, h1⟩ := h.adv.backup
  obtain ⟨l2, hm, h2⟩ := h1.acceptMatch hre hk
  have h3 := h2.emit .index
  simp only [Impl.step, lexBracketed, hw, Lexer.next_eq, hp, bind, Except.bind]
  rw [isDigit_iff] at hd
  split
  all_goals first | (exfalso; rename_i heq; simp only [Option.some.injEq] at heq; subst heq; revert hd; decide) | skip
  · rename_i heq; cases heq
  · simp only [hb, hm, goto]
    exact ⟨_, rfl, by simpa using h3⟩



/-! ### the string loop walks over a scanned body -/

theorem strLoop_walk {q : Char} {f : Bool} (hq : q ≠ '\\') {t : List Char} (ht : Scanned q t) :
    ∀ (l : Lexer) (cur : List Char), FSt D l pre cur (t ++ q :: rest) toks br →
    ∃ l', Reach (.strLoop q f) l (retState f) l' ∧
      FSt D l' (pre ++ cur ++ t ++ [q]) [] rest (⟨strKind q, cur ++ t, pre.length⟩ :: toks) br := by
  induction ht with
  | nil =>
    intro l cur h
    obtain ⟨l', hs, h'⟩ := lexStrLoop_close (f := f) h hq
    exact ⟨l', .one hs, by simpa using h'⟩
  | plain c t h1 h2 _ ih =>
    intro l cur h
    have hs := lexStrLoop_plain (f := f) h h1 h2
    obtain ⟨l', hr, h'⟩ := ih l.adv (cur ++ [c]) h.adv
    exact ⟨l', .step hs hr, by simpa using h'⟩
  | esc p t h1 _ ih =>
    intro l cur h
    have hs := lexStrLoop_esc (f := f) h h1
    obtain ⟨l', hr, h'⟩ := ih l.adv.adv (cur ++ ['\\'] ++ [p]) h.adv.adv
    exact ⟨l', .step hs hr, by simpa using h'⟩


end JPV.Proofs.Cf
