#!/venv/bin/python
"""Systematic small mutations of /repo's package, as a measurement of what the checks notice (development aid; not a
registered check).  For every sampled mutant that still passes the pinned test suite, the quick checks are run against a
scratch worktree holding the mutant (JPV_REPO), most relevant first, stopping at the first alarm.

  mutate.py list [--seed S] [--n N]            print the sampled mutants (JSON lines)
  mutate.py run --out DIR [--seed S] [--n N] [--jobs J]
        J runners, each with its own scratch worktree of /repo and its own copy of /verif (the checks rewrite
        lean/JPV/Generated.lean and evidence/, so runners must not share a /verif); results in DIR/results.jsonl
Mutation operators (source-level, one token each): comparison operator swaps, and/or, small integer constants +-1,
`not` dropped, + / - swapped, True/False swapped, `break`/`continue` swapped.
"""
import ast, difflib, json, os, random, shutil, subprocess, sys, time

VERIF = os.path.dirname(os.path.dirname(os.path.abspath(__file__)))
PKG = "jsonpath_rfc9535"
FILES = ["cli.py", "environment.py", "exceptions.py", "filter_expressions.py", "lex.py", "node.py", "parse.py", "query.py", "segments.py",
         "selectors.py", "serialize.py", "tokens.py", "function_extensions/_pattern.py", "function_extensions/count.py",
         "function_extensions/length.py", "function_extensions/match.py", "function_extensions/search.py", "function_extensions/value.py"]
CMP = {ast.Lt: ("<", ["<="]), ast.LtE: ("<=", ["<"]), ast.Gt: (">", [">="]), ast.GtE: (">=", [">"]), ast.Eq: ("==", ["!="]),
       ast.NotEq: ("!=", ["=="]), ast.Is: ("is", ["is not"]), ast.IsNot: ("is not", ["is"]), ast.In: ("in", ["not in"]), ast.NotIn: ("not in", ["in"])}
# which checks look at which file first (all 20 are run in the end; this is only the order)
ORDER = {"cli.py": ["C20", "C13"], "lex.py": ["C04", "C03", "C19", "C09", "C13"], "parse.py": ["C04", "C03", "C05", "C09", "C12", "C19", "C13"],
         "filter_expressions.py": ["C06", "C02", "C10", "C12", "C13"], "selectors.py": ["C07", "C01", "C02", "C08", "C17"],
         "segments.py": ["C01", "C18", "C17", "C08"], "serialize.py": ["C08", "C12"], "tokens.py": ["C19", "C04", "C03"],
         "environment.py": ["C05", "C15", "C14", "C03"], "query.py": ["C15", "C01", "C12"], "node.py": ["C08", "C01"], "exceptions.py": ["C19", "C13", "C20"]}
ALL = ["C%02d" % i for i in range(1, 21)]


def offsets(src):
    starts, pos = [0], 0
    for line in src.splitlines(keepends=True):
        pos += len(line.encode("utf8"))
        starts.append(pos)
    return starts


def candidates(repo):
    out = []
    for rel in FILES:
        path = os.path.join(repo, PKG, rel)
        src = open(path, encoding="utf8").read()
        b = src.encode("utf8")
        st = offsets(src)
        tree = ast.parse(src)

        def off(node, end=False):
            return st[(node.end_lineno if end else node.lineno) - 1] + (node.end_col_offset if end else node.col_offset)

        def add(a, z, new, what, line):
            out.append({"file": rel, "line": line, "what": what, "start": a, "end": z, "new": new, "old": b[a:z].decode("utf8")})

        for node in ast.walk(tree):
            if isinstance(node, ast.Compare):
                left = node.left
                for op, right in zip(node.ops, node.comparators):
                    a, z = off(left, True), off(right)
                    seg = b[a:z].decode("utf8")
                    txt, alts = CMP.get(type(op), (None, []))
                    if txt and txt in seg:
                        i = seg.index(txt)
                        for alt in alts:
                            add(a + len(seg[:i].encode()), a + len(seg[:i].encode()) + len(txt), alt, f"{txt} -> {alt}", node.lineno)
                    left = right
            elif isinstance(node, ast.BoolOp):
                txt, alt = ("and", "or") if isinstance(node.op, ast.And) else ("or", "and")
                for l, r in zip(node.values, node.values[1:]):
                    a, z = off(l, True), off(r)
                    seg = b[a:z].decode("utf8")
                    import re
                    m = re.search(r"\b" + txt + r"\b", seg)
                    if m:
                        add(a + len(seg[:m.start()].encode()), a + len(seg[:m.end()].encode()), alt, f"{txt} -> {alt}", node.lineno)
            elif isinstance(node, ast.Constant) and isinstance(node.value, bool):
                add(off(node), off(node, True), "False" if node.value else "True", f"{node.value} -> {not node.value}", node.lineno)
            elif isinstance(node, ast.Constant) and isinstance(node.value, int) and not isinstance(node.value, bool) and abs(node.value) <= 16:
                seg = b[off(node):off(node, True)].decode("utf8")
                if seg.isdigit():
                    for d in (1, -1):
                        if node.value + d >= 0:
                            add(off(node), off(node, True), str(node.value + d), f"{node.value} -> {node.value + d}", node.lineno)
            elif isinstance(node, ast.UnaryOp) and isinstance(node.op, ast.Not):
                a = off(node)
                if b[a:a + 4] == b"not ":
                    add(a, a + 4, "", "not dropped", node.lineno)
            elif isinstance(node, ast.BinOp) and isinstance(node.op, (ast.Add, ast.Sub)):
                a, z = off(node.left, True), off(node.right)
                seg = b[a:z].decode("utf8")
                txt, alt = ("+", "-") if isinstance(node.op, ast.Add) else ("-", "+")
                if seg.count(txt) == 1:
                    i = seg.index(txt)
                    add(a + len(seg[:i].encode()), a + len(seg[:i].encode()) + 1, alt, f"{txt} -> {alt}", node.lineno)
            elif isinstance(node, (ast.Break, ast.Continue)):
                add(off(node), off(node, True), "continue" if isinstance(node, ast.Break) else "break", "break <-> continue", node.lineno)
    # skip docstring-free duplicates and type-checking blocks
    seen, uniq = set(), []
    for c in out:
        k = (c["file"], c["start"], c["new"])
        if k not in seen:
            seen.add(k)
            uniq.append(c)
    return uniq


def sample(repo, seed, n):
    cs = candidates(repo)
    rng = random.Random(seed)
    rng.shuffle(cs)
    for i, c in enumerate(cs[:n]):
        c["id"] = f"m{seed}_{i:03d}"
    return cs[:n], len(cs)


def apply(repo, wt, c):
    src = open(os.path.join(repo, PKG, c["file"]), "rb").read()
    new = src[:c["start"]] + c["new"].encode("utf8") + src[c["end"]:]
    open(os.path.join(wt, PKG, c["file"]), "wb").write(new)
    return "".join(difflib.unified_diff(src.decode().splitlines(True), new.decode().splitlines(True), f"a/{PKG}/{c['file']}", f"b/{PKG}/{c['file']}", n=2))


def sh(cmd, timeout=3600, **kw):
    try:
        p = subprocess.run(cmd, shell=True, stdout=subprocess.PIPE, stderr=subprocess.STDOUT, timeout=timeout, **kw)
        return p.returncode, p.stdout.decode("utf8", "replace")
    except subprocess.TimeoutExpired:
        return 124, "timeout"


def runner(k, repo, muts, outdir):
    wt = f"/tmp/mut_wt_{k}"
    vf = f"/tmp/mut_verif_{k}"
    sh(f"git -C {repo} worktree remove --force {wt}; git -C {repo} worktree add -q --detach {wt} HEAD")
    shutil.rmtree(vf, ignore_errors=True)
    sh(f"cp -r {VERIF} {vf}; rm -rf {vf}/replays {vf}/.work")
    with open(os.path.join(outdir, f"results_{k}.jsonl"), "a") as fd:
        for c in muts:
            sh(f"git -C {wt} checkout -q -- .")
            diff = apply(repo, wt, c)
            rec = dict(c, diff=diff)
            rc, out = sh(f"cd {wt} && PYTHONPATH={wt} /venv/bin/python -m pytest -q -p no:cacheprovider --timeout=120 --continue-on-collection-errors 2>&1 | tail -1", timeout=600)
            rec["tests"] = out.strip()[-80:]
            if "352 passed" not in out:
                rec["verdict"] = "killed-by-tests"
            else:
                order = ORDER.get(c["file"].split("/")[-1], []) if "/" not in c["file"] else ["C11", "C10", "C13"]
                order = order + [p for p in ALL if p not in order]
                rec["verdict"], t0 = "SURVIVED", time.time()
                for p in order:
                    rc, out = sh(f"cd {vf} && JPV_REPO={wt} VERIF_SEED=1 VERIF_BUDGET_S=600 /venv/bin/python harness/run_check.py {p} --tier quick 2>&1 | grep -E '^(VIOLATION|OK|INFRA)' | head -2", timeout=900)
                    if "VIOLATION" in out:
                        rec["verdict"] = "caught"
                        rec["by"] = p
                        rec["line_out"] = out.strip()[:300]
                        rec["with_input"] = "no-failing-input-found" not in out
                        break
                    if "INFRA" in out or rc == 124:
                        rec.setdefault("infra", []).append(p)
                rec["check_s"] = round(time.time() - t0, 1)
            fd.write(json.dumps(rec) + "\n")
            fd.flush()
    sh(f"git -C {repo} worktree remove --force {wt}")
    shutil.rmtree(vf, ignore_errors=True)


def main():
    args = sys.argv[1:]
    seed = int(args[args.index("--seed") + 1]) if "--seed" in args else 1
    n = int(args[args.index("--n") + 1]) if "--n" in args else 120
    repo = os.environ.get("JPV_REPO", "/repo")
    muts, total = sample(repo, seed, n)
    if args[0] == "list":
        for c in muts:
            print(json.dumps(c))
        print(f"# {len(muts)} of {total} candidates", file=sys.stderr)
        return
    out = args[args.index("--out") + 1]
    jobs = int(args[args.index("--jobs") + 1]) if "--jobs" in args else 4
    os.makedirs(out, exist_ok=True)
    import multiprocessing as mp

    ps = [mp.Process(target=runner, args=(k, repo, muts[k::jobs], out)) for k in range(jobs)]
    for p in ps:
        p.start()
    for p in ps:
        p.join()


if __name__ == "__main__":
    main()
