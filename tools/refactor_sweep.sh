#!/bin/sh
# run every kept behaviour-preserving change through all checks in a scratch worktree (for `vp run`): prints one line per
# refactor with the checks that raised an alarm (none expected)
cd "$(dirname "$0")/.."
sh tools/setup.sh >/dev/null 2>&1
WT=${1:-/tmp/rf_sweep_wt}
git -C /repo worktree remove --force $WT 2>/dev/null
git -C /repo worktree add -q --detach $WT HEAD || exit 2
for d in refactors/*/; do
  n=$(basename $d)
  /venv/bin/python tools/eval_refactor.py $n --wt $WT > /tmp/rf_$n.log 2>&1
  /venv/bin/python - "$n" <<'PY'
import json, sys
n = sys.argv[1]
try:
    s = open(f"/tmp/rf_{n}.log").read()
    d = json.loads(s[s.index("{"):])
    bad = {c: v["lines"][:2] for c, v in d["checks"].items() if v["exit"] != 0}
    print("REFACTOR", n, "tests:", d.get("tests_with_change"), "ALARMS:", json.dumps(bad)[:600] if bad else "none", flush=True)
except Exception as e:
    print("REFACTOR", n, "could not be evaluated:", repr(e), s[-300:].replace("\n", " | "), flush=True)
PY
done
git -C /repo worktree remove --force $WT
