/-
`Impl.Lex` — lex.py transcribed: the `Lexer` object (start, pos, filter_depth,
func_call_stack, bracket_stack, tokens), its helper methods, the eight state
functions and `tokenize`.  One call of `step` is one state-function call or one
iteration of a state function's `while True` loop.

The six regular expressions are hand-written scanners with Python `re`
semantics (leftmost alternative first, greedy repetition with backtracking);
the pattern strings they were written against are pinned in `Impl/Tables.lean`
and compared with the regenerated `Generated.lean` (Tie A); their behaviour is
compared with the real `re` module by the `lex` correspondence op (Tie B).
-/
import JPV.Impl.Tokens
namespace JPV.Impl

/-! ### scanners: `pattern.match(query, pos)` ↦ length of the match -/

def isWs (c : Char) : Bool := c = ' ' || c = '\n' || c = '\r' || c = '\t'
def isDigit (c : Char) : Bool := '0' ≤ c && c ≤ '9'
def isLower (c : Char) : Bool := 'a' ≤ c && c ≤ 'z'
def isAlpha (c : Char) : Bool := isLower c || ('A' ≤ c && c ≤ 'Z')
/-- `[\u0080-\U0010FFFFa-zA-Z_]` -/
def isNameFirst (c : Char) : Bool := isAlpha c || c = '_' || c.toNat ≥ 0x80
/-- `[\u0080-\U0010FFFFa-zA-Z0-9_]` -/
def isNameChar (c : Char) : Bool := isNameFirst c || isDigit c

/-- length of the longest prefix of characters satisfying `p` -/
def spanLen (p : Char → Bool) : List Char → Nat
  | [] => 0
  | c :: cs => if p c then 1 + spanLen p cs else 0

/-- `RE_WHITESPACE = [ \n\r\t]+` -/
def reWhitespace (s : List Char) : Option Nat :=
  let n := spanLen isWs s
  if n = 0 then none else some n

/-- `RE_PROPERTY` -/
def reProperty : List Char → Option Nat
  | c :: cs => if isNameFirst c then some (1 + spanLen isNameChar cs) else none
  | [] => none

/-- `-?[0-9]+` : (length) -/
def reSignedDigits (s : List Char) : Option Nat :=
  let (sign, r) := match s with
    | '-' :: r => (1, r)
    | _ => (0, s)
  let n := spanLen isDigit r
  if n = 0 then none else some (sign + n)

/-- `RE_INDEX = -?[0-9]+` -/
def reIndex := reSignedDigits

/-- `RE_INT = -?[0-9]+(?:[eE]\+?[0-9]+)?` -/
def reInt (s : List Char) : Option Nat :=
  match reSignedDigits s with
  | none => none
  | some n =>
    match s.drop n with
    | e :: r =>
      if e = 'e' || e = 'E' then
        let (plus, r') := match r with
          | '+' :: r' => (1, r')
          | _ => (0, r)
        let d := spanLen isDigit r'
        if d = 0 then some n else some (n + 1 + plus + d)
      else some n
    | [] => some n

/-- `(?:[eE][+-]?[0-9]+)?` after a float mantissa: extra length -/
def reExpOpt : List Char → Nat
  | e :: r =>
    if e = 'e' || e = 'E' then
      let (sg, r') := match r with
        | '+' :: r' => (1, r')
        | '-' :: r' => (1, r')
        | _ => (0, r)
      let d := spanLen isDigit r'
      if d = 0 then 0 else 1 + sg + d
    else 0
  | [] => 0

/-- first alternative of `RE_FLOAT`: `:?-?[0-9]+\.[0-9]+(?:[eE][+-]?[0-9]+)?`
(the `(:?` in the source is an optional literal colon) -/
def reFloatAlt1 (s : List Char) : Option Nat :=
  let try_ (colon : Nat) (r : List Char) : Option Nat :=
    match reSignedDigits r with
    | none => none
    | some n =>
      match r.drop n with
      | '.' :: r2 =>
        let d := spanLen isDigit r2
        if d = 0 then none else some (colon + n + 1 + d + reExpOpt (r2.drop d))
      | _ => none
  match s with
  | ':' :: r => (try_ 1 r).orElse (fun _ => try_ 0 s)
  | _ => try_ 0 s

/-- second alternative of `RE_FLOAT`: `-?[0-9]+[eE]-[0-9]+` -/
def reFloatAlt2 (s : List Char) : Option Nat :=
  match reSignedDigits s with
  | none => none
  | some n =>
    match s.drop n with
    | e :: '-' :: r =>
      if e = 'e' || e = 'E' then
        let d := spanLen isDigit r
        if d = 0 then none else some (n + 2 + d)
      else none
    | _ => none

/-- `RE_FLOAT` -/
def reFloat (s : List Char) : Option Nat :=
  (reFloatAlt1 s).orElse (fun _ => reFloatAlt2 s)

/-- `RE_FUNCTION_NAME = [a-z][a-z_0-9]*` -/
def reFunctionName : List Char → Option Nat
  | c :: cs => if isLower c then some (1 + spanLen (fun c => isLower c || c = '_' || isDigit c) cs) else none
  | [] => none

/-- `RE_TRUE = true(?![a-z_0-9(])`, `RE_FALSE`, `RE_NULL`: a keyword literal, not the start of a function
name (`truex`, `null_`) or a call (`true(`) -/
def reKeyword (kw : List Char) (inp : List Char) : Option Nat :=
  if kw.isPrefixOf inp then
    match inp.drop kw.length with
    | c :: _ => if isLower c || c = '_' || isDigit c || c = '(' then none else some kw.length
    | [] => some kw.length
  else none

/-- `ESCAPES` -/
def isEscapeChar (c : Char) : Bool :=
  c = 'b' || c = 'f' || c = 'n' || c = 'r' || c = 't' || c = 'u' || c = '/' || c = '\\'

/-! ### the `Lexer` object -/

structure Lexer where
  q : Array Char
  start : Nat := 0
  pos : Nat := 0
  filterDepth : Int := 0
  /-- `func_call_stack`, top first -/
  funcStack : List Nat := []
  /-- `bracket_stack`, top first -/
  brackets : List (Char × Nat) := []
  /-- emitted tokens, newest first -/
  toks : List Token := []

inductive LState where
  | root | segment | descendant | shorthand | bracketed | filter
  /-- `_lex_string` before its loop: `quote`, and whether control returns to the filter state -/
  | strStart (quote : Char) (inFilter : Bool)
  | strLoop (quote : Char) (inFilter : Bool)
deriving DecidableEq, Repr

namespace Lexer

def slice (l : Lexer) (a b : Nat) : Str := (l.q.extract a b).toList
def restFrom (l : Lexer) : List Char := (l.q.extract l.pos l.q.size).toList

def emit (l : Lexer) (k : TokKind) : Lexer :=
  { l with toks := ⟨k, l.slice l.start l.pos, l.start⟩ :: l.toks, start := l.pos }

/-- `next()`: `none` is the empty string (end of input; pointer not moved) -/
def next (l : Lexer) : Option Char × Lexer :=
  if h : l.pos < l.q.size then (some l.q[l.pos], { l with pos := l.pos + 1 }) else (none, l)

def peek (l : Lexer) : Option Char :=
  if h : l.pos < l.q.size then some l.q[l.pos] else none

def ignore (l : Lexer) : Lexer := { l with start := l.pos }

def errTok (l : Lexer) : Token := ⟨.error, [], l.pos⟩

/-- `backup()` -/
def backup (l : Lexer) : Except Err Lexer :=
  if l.pos ≤ l.start then .error ⟨.syntax, some l.errTok⟩ else .ok { l with pos := l.pos - 1 }

/-- `accept(s)` -/
def accept (l : Lexer) (s : List Char) : Option Lexer :=
  if s.isPrefixOf l.restFrom then some { l with pos := l.pos + s.length } else none

/-- `accept_match(pattern)` -/
def acceptMatch (l : Lexer) (re : List Char → Option Nat) : Option Lexer :=
  (re l.restFrom).map (fun n => { l with pos := l.pos + n })

/-- `ignore_whitespace()` -/
def ignoreWhitespace (l : Lexer) : Except Err (Bool × Lexer) :=
  if l.pos ≠ l.start then .error ⟨.lexer, some l.errTok⟩ else
  match l.acceptMatch reWhitespace with
  | some l' => .ok (true, l'.ignore)
  | none => .ok (false, l)

/-- `error(msg)`: append an ERROR token (message not modelled) -/
def error (l : Lexer) : Lexer :=
  { l with toks := ⟨.error, l.slice l.start l.pos, l.start⟩ :: l.toks }

def pushBracket (l : Lexer) (c : Char) (i : Nat) : Lexer := { l with brackets := (c, i) :: l.brackets }

end Lexer

abbrev StepResult := Except Err (Lexer × Option LState)

def stop (l : Lexer) : StepResult := .ok (l, none)
def goto (l : Lexer) (s : LState) : StepResult := .ok (l, some s)

def lexRoot (l : Lexer) : StepResult :=
  let (c, l) := l.next
  if c ≠ some '$' then stop l.error else goto (l.emit .root) .segment

def lexSegment (l : Lexer) : StepResult := do
  let (ws, l) ← l.ignoreWhitespace
  if ws && l.peek.isNone then return (l.error, none)
  let (c, l) := l.next
  match c with
  | none => stop (l.emit .eof)
  | some '.' =>
    if l.peek = some '.' then
      let l := l.next.2
      goto (l.emit .doubleDot) .descendant
    else goto l .shorthand
  | some '[' =>
    let l := l.emit .lbracket
    goto (l.pushBracket '[' (l.pos - 1)) .bracketed
  | some _ =>
    if l.filterDepth ≠ 0 then do
      let l ← l.backup
      goto l .filter
    else stop l.error

def lexDescendant (l : Lexer) : StepResult := do
  let (c, l) := l.next
  match c with
  | none => stop l.error
  | some '*' => goto (l.emit .wild) .segment
  | some '[' =>
    let l := l.emit .lbracket
    goto (l.pushBracket '[' (l.pos - 1)) .bracketed
  | some _ =>
    let l ← l.backup
    match l.acceptMatch reProperty with
    | some l => goto (l.emit .property) .segment
    | none =>
      let l := l.next.2
      stop l.error

def lexShorthand (l : Lexer) : StepResult := do
  let l := l.ignore
  match l.acceptMatch reWhitespace with
  | some l => stop l.error
  | none =>
    let (c, l) := l.next
    if c = some '*' then goto (l.emit .wild) .segment else
    let l ← l.backup
    match l.acceptMatch reProperty with
    | some l => goto (l.emit .property) .segment
    | none => stop l.error

/-- one iteration of `lex_inside_bracketed_segment`'s loop -/
def lexBracketed (l : Lexer) : StepResult := do
  let (_, l) ← l.ignoreWhitespace
  let (c, l) := l.next
  match c with
  | some ']' =>
    match l.brackets with
    | ('[', _) :: rest => goto ({ l with brackets := rest }.emit .rbracket) .segment
    | _ => do
      let l ← l.backup
      stop l.error
  | none => stop l.error
  | some '*' => goto (l.emit .wild) .bracketed
  | some '?' => goto { (l.emit .filter) with filterDepth := l.filterDepth + 1 } .filter
  | some ',' => goto (l.emit .comma) .bracketed
  | some ':' => goto (l.emit .colon) .bracketed
  | some '\'' => goto l (.strStart '\'' false)
  | some '"' => goto l (.strStart '"' false)
  | some _ =>
    let l ← l.backup
    match l.acceptMatch reIndex with
    | some l => goto (l.emit .index) .bracketed
    | none => stop l.error

/-- `lex_inside_filter` after `l.backup()` in its default branch -/
def lexFilterDefault (l : Lexer) : StepResult :=
  match l.accept "&&".toList with
  | some l => goto (l.emit .and) .filter
  | none =>
  match l.accept "||".toList with
  | some l => goto (l.emit .or) .filter
  | none =>
  match l.acceptMatch (reKeyword "true".toList) with
  | some l => goto (l.emit .true_) .filter
  | none =>
  match l.acceptMatch (reKeyword "false".toList) with
  | some l => goto (l.emit .false_) .filter
  | none =>
  match l.acceptMatch (reKeyword "null".toList) with
  | some l => goto (l.emit .null) .filter
  | none =>
  match l.acceptMatch reFloat with
  | some l => goto (l.emit .float) .filter
  | none =>
  match l.acceptMatch reInt with
  | some l => goto (l.emit .int) .filter
  | none =>
  match l.acceptMatch reFunctionName with
  | some l' =>
    if l'.peek = some '(' then
      let l := { l' with funcStack := 1 :: l'.funcStack }
      let l := l.emit .function
      let l := l.pushBracket '(' l.pos
      let l := l.next.2
      goto l.ignore .filter
    else stop l'.error
  | none => stop l.error

/-- one iteration of `lex_inside_filter`'s loop -/
def lexFilter (l : Lexer) : StepResult := do
  let (_, l) ← l.ignoreWhitespace
  let (c, l) := l.next
  match c with
  | none => stop l.error
  | some ']' =>
    let l := { l with filterDepth := l.filterDepth - 1 }
    let l ← l.backup
    goto l .bracketed
  | some ',' =>
    let l := l.emit .comma
    match l.brackets with
    | ('(', _) :: _ => goto l .filter
    | _ => goto { l with filterDepth := l.filterDepth - 1 } .bracketed
  | some '\'' => goto l (.strStart '\'' true)
  | some '"' => goto l (.strStart '"' true)
  | some '(' =>
    let l := l.emit .lparen
    let l := l.pushBracket '(' (l.pos - 1)
    match l.funcStack with
    | n :: rest => goto { l with funcStack := (n + 1) :: rest } .filter
    | [] => goto l .filter
  | some ')' =>
    match l.brackets with
    | ('(', _) :: rest =>
      let l := { l with brackets := rest }.emit .rparen
      match l.funcStack with
      | n :: more => if n = 1 then goto { l with funcStack := more } .filter
                     else goto { l with funcStack := (n - 1) :: more } .filter
      | [] => goto l .filter
    | _ => do
      let l ← l.backup
      stop l.error
  | some '$' => goto (l.emit .root) .segment
  | some '@' => goto (l.emit .current) .segment
  | some '.' => do
    let l ← l.backup
    goto l .segment
  | some '!' =>
    if l.peek = some '=' then goto (l.next.2.emit .ne) .filter else goto (l.emit .not) .filter
  | some '=' =>
    if l.peek = some '=' then goto (l.next.2.emit .eq) .filter
    else do
      let l ← l.backup
      stop l.error
  | some '<' =>
    if l.peek = some '=' then goto (l.next.2.emit .le) .filter else goto (l.emit .lt) .filter
  | some '>' =>
    if l.peek = some '=' then goto (l.next.2.emit .ge) .filter else goto (l.emit .gt) .filter
  | some _ => do
    let l ← l.backup
    lexFilterDefault l

def strKind (quote : Char) : TokKind := if quote = '\'' then .sqString else .dqString
def retState (inFilter : Bool) : LState := if inFilter then .filter else .bracketed

/-- `_lex_string` up to its loop -/
def lexStrStart (quote : Char) (inFilter : Bool) (l : Lexer) : StepResult :=
  let l := l.ignore
  if l.peek.isNone then
    let l := l.emit (strKind quote)
    let l := l.next.2
    goto l.ignore (retState inFilter)
  else goto l (.strLoop quote inFilter)

/-- one iteration of `_lex_string`'s loop -/
def lexStrLoop (quote : Char) (inFilter : Bool) (l : Lexer) : StepResult := do
  let (c, l) := l.next
  match c with
  | none => stop l.error
  | some ch =>
    if ch = '\\' then
      match l.peek with
      | some p =>
        if isEscapeChar p || p = quote then goto l.next.2 (.strLoop quote inFilter)
        else stop l.error
      | none => stop l.error
    else if ch = quote then do
      let l ← l.backup
      let l := l.emit (strKind quote)
      let l := l.next.2
      goto l.ignore (retState inFilter)
    else goto l (.strLoop quote inFilter)

def step : LState → Lexer → StepResult
  | .root => lexRoot
  | .segment => lexSegment
  | .descendant => lexDescendant
  | .shorthand => lexShorthand
  | .bracketed => lexBracketed
  | .filter => lexFilter
  | .strStart q f => lexStrStart q f
  | .strLoop q f => lexStrLoop q f

/-- `Lexer.run`: `while state is not None: state = state(self)`.  Out of fuel is
`ErrKind.fuel`, never an answer; `run_fuel_sufficient` shows `3 * size + 6` is enough. -/
def run : Nat → LState → Lexer → Except Err Lexer
  | 0, _, _ => .error ⟨.fuel, none⟩
  | fuel + 1, s, l =>
    match step s l with
    | .error e => .error e
    | .ok (l', none) => .ok l'
    | .ok (l', some s') => run fuel s' l'

def lexFuel (n : Nat) : Nat := 3 * n + 6

/-- `tokenize(query)` -/
def tokenize (query : Str) : Except Err (List Token) := do
  let l ← run (lexFuel query.length) .root { q := query.toArray }
  match l.toks with
  | t :: _ => if t.kind = .error then throw ⟨.syntax, some t⟩
  | [] => pure ()
  match l.brackets with
  | (_, i) :: _ => throw ⟨.syntax, some ⟨.error, [], i⟩⟩
  | [] => pure l.toks.reverse

end JPV.Impl

namespace JPV.Impl

/-- `_lex_string`'s loop on the characters that follow the opening quote, in list
form: the token value (characters up to the closing quote, escapes kept) and the
input after the closing quote; `none` = "invalid escape" or "unclosed string".
(`lexStrLoop` is the same loop on the `Lexer` object; `Proofs.LexStr`.) -/
def scanString (quote : Char) : List Char → Option (Str × List Char)
  | [] => none
  | c :: r =>
    if c = '\\' then
      match r with
      | p :: r2 =>
        if isEscapeChar p || p = quote then
          (scanString quote r2).map (fun res => (c :: p :: res.1, res.2))
        else none
      | [] => none
    else if c = quote then some ([], r)
    else (scanString quote r).map (fun res => (c :: res.1, res.2))

end JPV.Impl
