/-
`Proofs.Ss.BrTok` — a pure model of the lexer inside brackets: one token from the remaining input.
-/
import JPV.Impl.Parse
import JPV.Spec.Grammar
namespace JPV.Proofs.Ss
open JPV JPV.Impl

/-- the next token inside brackets (kind, text, remaining input); `none` where the lexer reports an error -/
def brTok (inp : List Char) : Option (TokKind × Str × List Char) :=
  match Spec.skipS inp with
  | [] => none
  | c :: r =>
    if c = ']' then some (.rbracket, [c], r)
    else if c = '*' then some (.wild, [c], r)
    else if c = '?' then some (.filter, [c], r)
    else if c = ',' then some (.comma, [c], r)
    else if c = ':' then some (.colon, [c], r)
    else if c = '\'' then (scanString '\'' r).map (fun x => (.sqString, x.1, x.2))
    else if c = '"' then (scanString '"' r).map (fun x => (.dqString, x.1, x.2))
    else (reIndex (c :: r)).map (fun n => (.index, (c :: r).take n, (c :: r).drop n))

/-- `BrToks inp ts rest`: inside brackets the tokens `ts` (none of them `]` or `?`) are read from `inp`,
leaving `rest` -/
inductive BrToks : List Char → List Token → List Char → Prop
  | nil (inp : List Char) : BrToks inp [] inp
  | cons (inp r rest : List Char) (t : Token) (ts : List Token) :
      brTok inp = some (t.kind, t.value, r) → t.kind ≠ .rbracket → t.kind ≠ .filter →
      BrToks r ts rest → BrToks inp (t :: ts) rest

end JPV.Proofs.Ss
