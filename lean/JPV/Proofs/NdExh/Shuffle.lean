import JPV.Impl.NonDet
import JPV.Proofs.NonDetAux
/-
Exhaustiveness of the primitive choice `ND.shuffle`: every permutation of the list is produced by
some script entry (none when the list has fewer than two elements), whatever follows in the script.
-/
namespace JPV.Proofs.NdExh
open JPV JPV.Impl

/-- the index map that skips position `k` -/
def skip (k i : Nat) : Nat := if i < k then i else i + 1

theorem getElem?_skip {α} (a b : List α) (y : α) (i : Nat) :
    (a ++ y :: b)[skip a.length i]? = (a ++ b)[i]? := by
  unfold skip
  by_cases h : i < a.length
  · rw [if_pos h, List.getElem?_append_left h, List.getElem?_append_left h]
  · rw [if_neg h, List.getElem?_append_right (by omega), List.getElem?_append_right (by omega)]
    have : i + 1 - a.length = (i - a.length) + 1 := by omega
    rw [this, List.getElem?_cons_succ]

/-- every permutation is the image of the list under a list of indices that is a permutation of
`0 .. n-1` (in the sense of `ND.isPerm`: right length, every index present) -/
theorem exists_index {α} : ∀ (ys xs : List α), ys.Perm xs →
    ∃ p : List Nat, p.length = xs.length ∧ (∀ i, i < xs.length → i ∈ p) ∧
      p.filterMap (fun i => xs[i]?) = ys := by
  intro ys
  induction ys with
  | nil =>
    intro xs hp
    have := hp.symm.eq_nil
    subst this
    exact ⟨[], rfl, by intro i hi; simp at hi, rfl⟩
  | cons y ys ih =>
    intro xs hp
    have hy : y ∈ xs := hp.subset List.mem_cons_self
    obtain ⟨a, b, rfl⟩ := List.append_of_mem hy
    have hp' : ys.Perm (a ++ b) := (hp.trans List.perm_middle).cons_inv
    obtain ⟨p, hlen, hall, hmap⟩ := ih (a ++ b) hp'
    refine ⟨a.length :: p.map (skip a.length), ?_, ?_, ?_⟩
    · simp only [List.length_cons, List.length_map, hlen, List.length_append]
      omega
    · intro i hi
      simp only [List.length_append, List.length_cons] at hi
      simp only [List.length_append] at hall
      by_cases h1 : i = a.length
      · subst h1; exact List.mem_cons_self
      · refine List.mem_cons_of_mem _ (List.mem_map.2 ?_)
        by_cases h2 : i < a.length
        · exact ⟨i, hall i (by omega), by simp [skip, h2]⟩
        · refine ⟨i - 1, hall (i - 1) (by omega), ?_⟩
          unfold skip
          rw [if_neg (by omega)]
          omega
    · rw [List.filterMap_cons]
      have h0 : (a ++ y :: b)[a.length]? = some y := by
        rw [List.getElem?_append_right (Nat.le_refl _)]
        simp
      rw [h0]
      simp only
      rw [List.filterMap_map]
      have : ((fun i => (a ++ y :: b)[i]?) ∘ skip a.length) = fun i => (a ++ b)[i]? := by
        funext i
        exact getElem?_skip a b y i
      rw [this, hmap]

theorem isPerm_of {p : List Nat} {n : Nat} (hlen : p.length = n) (hall : ∀ i, i < n → i ∈ p) :
    ND.isPerm p n = true := by
  simp only [ND.isPerm, Bool.and_eq_true, beq_iff_eq, List.all_eq_true, List.mem_range,
    List.contains_iff_mem]
  exact ⟨hlen, hall⟩

theorem perm_short {α} {xs ys : List α} (hp : ys.Perm xs) (h : xs.length < 2) : ys = xs := by
  match xs, h with
  | [], _ => exact hp.eq_nil
  | [x], _ => exact List.perm_singleton.1 hp
  | _ :: _ :: _, h => simp at h; omega

/-- `random.shuffle` is exhaustive: every permutation `ys` of `xs` is produced by a script prefix
(one `perm` entry, or nothing when `xs` has fewer than two elements), and exactly that prefix is
consumed -/
theorem shuffle_surj {α} (xs ys : List α) (hp : ys.Perm xs) :
    ∃ pre : ND.Script, pre.length ≤ 1 ∧ ∀ t, ND.shuffle xs (pre ++ t) = (ys, t) := by
  by_cases h : xs.length < 2
  · refine ⟨[], by simp, fun t => ?_⟩
    have := perm_short hp h
    subst this
    simp [ND.shuffle, h]
  · obtain ⟨p, hlen, hall, hmap⟩ := exists_index ys xs hp
    refine ⟨[.perm p], by simp, fun t => ?_⟩
    simp only [ND.shuffle, if_neg h, List.cons_append, List.nil_append, isPerm_of hlen hall,
      if_true, hmap]

/-- the members / children of a node: every RFC-permitted order (any permutation for an object,
the order of the elements for an array) is produced by a script prefix -/
theorem ndChildren_surj (n : Node) (m : List Node)
    (hm : match n.val with
      | .obj _ => m.Perm (Spec.children n)
      | _ => m = Spec.children n) :
    ∃ pre : ND.Script, ∀ t, ND.ndChildren n (pre ++ t) = (m, t) := by
  cases hv : n.val with
  | obj kvs =>
    rw [hv] at hm
    simp only at hm
    have hc : Spec.children n = kvs.map (fun p => Spec.child n (.name p.1) p.2) := by
      simp [Spec.children, hv]
    rw [hc] at hm
    obtain ⟨p, hlen, hall, hmap⟩ := exists_index _ _ hm
    rw [List.length_map] at hlen hall
    have hkv : (p.filterMap (fun i => kvs[i]?)).Perm kvs := by
      have := (NDp.isPerm_perm (isPerm_of hlen hall)).symm.filterMap (fun i => kvs[i]?)
      rwa [NDp.filterMap_range] at this
    obtain ⟨pre, _, hpre⟩ := shuffle_surj kvs _ hkv
    refine ⟨pre, fun t => ?_⟩
    simp only [ND.ndChildren, hv, hpre t]
    congr 1
    rw [← hmap]
    simp only [Impl.objChildren, List.map_filterMap, List.getElem?_map]
    congr 1
  | arr xs =>
    rw [hv] at hm
    simp only at hm
    refine ⟨[], fun t => ?_⟩
    simp [ND.ndChildren, hv, hm, Spec.children]
    rfl
  | null => rw [hv] at hm; exact ⟨[], fun t => by simp [ND.ndChildren, hv, hm, Spec.children]⟩
  | bool b => rw [hv] at hm; exact ⟨[], fun t => by simp [ND.ndChildren, hv, hm, Spec.children]⟩
  | num x => rw [hv] at hm; exact ⟨[], fun t => by simp [ND.ndChildren, hv, hm, Spec.children]⟩
  | str x => rw [hv] at hm; exact ⟨[], fun t => by simp [ND.ndChildren, hv, hm, Spec.children]⟩

end JPV.Proofs.NdExh
