/-
`Proofs.Cf.ParseArgs` — `functionArgs` / `parseFunction` on the tokens of a function expression, given the
chain statement `StOr` for the (shorter) arguments.
-/
import JPV.Proofs.Cf.ParseInfix
set_option linter.unusedSimpArgs false
set_option linter.unusedVariables false
namespace JPV.Proofs.Cf
open JPV JPV.Impl JPV.Proofs.Rq

/-- the chain statement for logical-or-exprs with token lists of length `≤ n` -/
def StOr (env : Env) (n : Nat) : Prop :=
  ∀ (e : Spec.CExpr) (ts : List Token), OrShape e ts → WT env e → ts.length ≤ n →
    ∀ (p : Nat), p ≤ precOr → ∀ (x : Token) (more : List Token), isCloser x.kind = true →
    ∃ t ts', ts = t :: ts' ∧ ChainRes env p (Spec.abstractExpr e) ⟨t, [], ts' ++ x :: more⟩ x more

theorem StOr.expr {env : Env} {n : Nat} (h : StOr env n) : StExpr env n := by
  intro e ts ho hv hl x more hx
  obtain ⟨t, ts', rfl, hc⟩ := h e ts ho hv.wt hl precLowest (by simp [precLowest, precOr]) x more hx
  exact ⟨t, ts', rfl, (hc.stop (stops_of_isCloser _ hx)).expr⟩

/-- what follows an argument's expression in one `functionArgs` iteration -/
def argsTail (env : Env) (fuel : Nat) (args : List Expr) (parens : List Nat) (x : PExpr) :
    P (List Expr × List Nat) := do
  if (← peekTok).kind ≠ .rparen then
    expectPeek .comma
    let _ ← nextTok
    expectPeekNot .rparen
  let _ ← nextTok
  functionArgs env fuel (args ++ [x.e]) parens

theorem functionArgs_eq (env : Env) (fuel : Nat) (args : List Expr) (parens : List Nat) :
    functionArgs env (fuel + 1) args parens = (do
      let c ← cur
      if c.kind = .rparen then return (args, parens)
      match functionArgumentMap c.kind with
      | none => failAt .syntax c
      | some h =>
        let parens := if c.kind = .lparen then parens ++ [args.length] else parens
        let x ← parseByHandler env h fuel
        let x ← functionArgInfix env fuel x
        argsTail env fuel args parens x) := by
  rw [functionArgs]; rfl

section
variable {env : Env} {n : Nat}

theorem functionArgs_close (f : Nat) (args : List Expr) (parens : List Nat) (st : TStream)
    (hk : st.cur.kind = .rparen) :
    exec (functionArgs env (f + 1) args parens) st = (.ok (args, parens), st) := by
  rw [functionArgs_eq]
  simp [exec_bind, exec_cur, hk, exec_pure]

theorem args_step (f : Nat) (args : List Expr) (parens : List Nat) {t : Token} {rest : List Token} {h : Handler}
    {px : PExpr} {st1 : TStream} {R : Except Err (List Expr × List Nat) × TStream}
    (htm : tokenMap t.kind = some h) (hnr : t.kind ≠ .rparen)
    (e1 : exec (unitLoop env precLowest h f) ⟨t, [], rest⟩ = (.ok px, st1))
    (e2 : exec (argsTail env f args (if t.kind = .lparen then parens ++ [args.length] else parens) px) st1 = R) :
    exec (functionArgs env (f + 1) args parens) ⟨t, [], rest⟩ = R := by
  rw [functionArgs_eq]
  simp only [exec_bind, exec_cur, hnr, if_false, functionArgumentMap, htm]
  unfold unitLoop at e1
  rw [exec_bind] at e1
  rcases hh : exec (parseByHandler env h f) ⟨t, [], rest⟩ with ⟨r, s1⟩
  rw [hh] at e1
  cases r with
  | error err => simp at e1
  | ok a =>
    simp only at e1 ⊢
    rw [functionArgInfix_eq, e1]
    exact e2

theorem argsTail_close (f : Nat) (args : List Expr) (parens : List Nat) (px : PExpr)
    {x : Token} {more : List Token} {st : TStream} (h : Cs.Ready x more st) (hx : x.kind = .rparen) :
    exec (argsTail env f args parens px) st
      = exec (functionArgs env f (args ++ [px.e]) parens) ⟨x, [], more⟩ := by
  rcases h with ⟨c, hc, rfl⟩ | ⟨c, rfl⟩
  · simp [argsTail, exec_bind, exec_peekTok, exec_nextTok, exec_pure, peek_fresh, peek_pushed, next_pushed, hc, hx]
  · simp [argsTail, exec_bind, exec_peekTok, exec_nextTok, exec_pure, peek_fresh, peek_pushed, next_pushed, hx]

theorem argsTail_comma (f : Nat) (args : List Expr) (parens : List Nat) (px : PExpr)
    {x y : Token} {more : List Token} {st : TStream} (h : Cs.Ready x (y :: more) st) (hx : x.kind = .comma)
    (hy : y.kind ≠ .rparen) :
    exec (argsTail env f args parens px) st
      = exec (functionArgs env f (args ++ [px.e]) parens) ⟨y, [], more⟩ := by
  have hxe : x.kind ≠ .eof := by rw [hx]; simp
  rcases h with ⟨c, hc, rfl⟩ | ⟨c, rfl⟩
  · simp [argsTail, exec_bind, exec_peekTok, exec_nextTok, exec_pure, peek_fresh, peek_pushed, next_pushed,
      expectPeek, expectPeekNot, hc, hx, hy, hxe]
  · simp [argsTail, exec_bind, exec_peekTok, exec_nextTok, exec_pure, peek_fresh, peek_pushed, next_pushed,
      expectPeek, expectPeekNot, hx, hy, hxe]

/-- one argument: handler, then the loop, up to the `,` or `)` that follows -/
theorem arg_exec (hO : StOr env n) {a : Spec.CExpr} {ts : List Token} (h : ArgShape a ts) {ty : Ty}
    (hv : ArgOK env ty a) (hl : ts.length ≤ n) (y : Token) (more : List Token) (hy : isCloser y.kind = true) :
    ∃ t ts', ts = t :: ts' ∧ t.kind ≠ .rparen ∧ (t.kind = .lparen → ty = .logical) ∧
      UnitLoopRes env precLowest (Spec.abstractExpr a) ⟨t, [], ts' ++ y :: more⟩ y more := by
  cases h with
  | lit t v hlit =>
    obtain ⟨h, ht, hu⟩ := unit_lit env hlit y more
    obtain ⟨_, hlp, _, hrp, _⟩ := termStart_ne hlit.termStart
    refine ⟨t, [], rfl, hrp, fun e => absurd e hlp, ?_⟩
    exact (hu.chain ht).stop (stops_of_isCloser _ hy)
  | expr e ts ho =>
    obtain ⟨t, ts', rfl, hc⟩ := hO a ts ho hv.wt hl precLowest (by simp [precLowest, precOr]) y more hy
    refine ⟨t, ts', rfl, ?_, fun e => argOK_nonTerm hv (ho.lparen e), hc.stop (stops_of_isCloser _ hy)⟩
    obtain ⟨h, ht, _⟩ := hc
    intro e
    simp [e, tokenMap] at ht

theorem MoreArgsShape.follow {as : List Spec.CExpr} {ts : List Token} (h : MoreArgsShape as ts) (rp : Token)
    (more2 : List Token) (hrp : rp.kind = .rparen) :
    ∃ x more, ts ++ rp :: more2 = x :: more ∧ (x.kind = .comma ∨ x.kind = .rparen) := by
  cases h with
  | nil => exact ⟨rp, more2, rfl, .inr hrp⟩
  | cons => exact ⟨_, _, rfl, .inl rfl⟩

theorem closer_of_comma_rparen {k : TokKind} (h : k = .comma ∨ k = .rparen) : isCloser k = true := by
  rcases h with rfl | rfl <;> rfl

/-- the `functionArgs` loop over the remaining arguments -/
theorem parse_moreArgs (hO : StOr env n) : ∀ (as : List Spec.CExpr) (ts : List Token) (tys : List Ty),
    MoreArgsShape as ts → ArgsOK env tys as → ts.length ≤ n →
    ∀ (args0 : List Expr) (ps0 : List Nat) (px : PExpr) (rp : Token) (more2 : List Token) (x : Token)
      (more : List Token) (st : TStream), rp.kind = .rparen →
      x :: more = ts ++ rp :: more2 → Cs.Ready x more st →
      ∃ ps, Ev (fun F => argsTail env F args0 ps0 px) st
          (.ok (args0 ++ [px.e] ++ Spec.abstractArgs as, ps), ⟨rp, [], more2⟩) ∧
        ∀ idx ∈ ps, idx ∈ ps0 ∨ ∃ i, idx = args0.length + 1 + i ∧ tys[i]? = some .logical := by
  intro as
  induction as with
  | nil =>
    intro ts tys h _ _ args0 ps0 px rp more2 x more st hrp heq hst
    cases h
    simp only [List.nil_append, List.cons.injEq] at heq
    obtain ⟨rfl, rfl⟩ := heq
    refine ⟨ps0, Ev.step0 fun f => ?_, fun idx hidx => .inl hidx⟩
    rw [argsTail_close _ _ _ _ hst hrp, functionArgs_close _ _ _ _ hrp]
    simp [Spec.abstractArgs]
  | cons a as ih =>
    intro ts tys h hv hl args0 ps0 px rp more2 x more st hrp heq hst
    obtain ⟨ty, tys', rfl⟩ := hv.cons_inv
    cases h with
    | cons a as v k t1 t2 ha hm =>
      simp only [List.cons_append, List.cons.injEq] at heq
      obtain ⟨rfl, rfl⟩ := heq
      obtain ⟨y, more', ht2, hy⟩ := hm.follow rp more2 hrp
      obtain ⟨t, ts', rfl, htr, htl, hd, htm, pa, st1, hpa, hready, hev⟩ := arg_exec hO ha hv.cons.1
        (by simp at hl; omega) y more' (closer_of_comma_rparen hy)
      obtain ⟨ps, hrec, hps⟩ := ih t2 tys' hm hv.cons.2 (by simp at hl; omega) (args0 ++ [px.e])
        (if t.kind = .lparen then ps0 ++ [(args0 ++ [px.e]).length] else ps0) pa rp more2 y more' st1 hrp
        ht2.symm hready
      refine ⟨ps, ?_, ?_⟩
      · have hFA : Ev (fun F => functionArgs env F (args0 ++ [px.e]) ps0) ⟨t, [], ts' ++ y :: more'⟩
            (.ok (args0 ++ [px.e] ++ [pa.e] ++ Spec.abstractArgs as, ps), ⟨rp, [], more2⟩) :=
          Ev.step2 hev hrec fun f e1 e2 => args_step f _ _ htm htr e1 e2
        refine Ev.same1 hFA fun f e => ?_
        simp only [List.append_assoc, List.cons_append] at hst
        rw [argsTail_comma _ _ _ _ hst rfl htr, ht2, e, hpa]
        simp [Spec.abstractArgs]
      · intro idx hidx
        rcases hps idx hidx with h1 | ⟨i, rfl, hi⟩
        · by_cases hlp : t.kind = .lparen
          · simp only [hlp, if_true, List.mem_append, List.mem_singleton] at h1
            rcases h1 with h1 | rfl
            · exact .inl h1
            · exact .inr ⟨0, by simp, by simp [htl hlp]⟩
          · simp only [hlp, if_false] at h1
            exact .inl h1
        · exact .inr ⟨i + 1, by simp; omega, by simpa using hi⟩

/-- `functionArgs` on all arguments of a call -/
theorem parse_args (hO : StOr env n) {args : List Spec.CExpr} {ts : List Token} (h : ArgsShape args ts)
    {tys : List Ty} (hv : ArgsOK env tys args) (hl : ts.length ≤ n) (rp : Token) (more : List Token)
    (hrp : rp.kind = .rparen) :
    ∃ t ts' ps, ts ++ rp :: more = t :: ts' ∧
      Ev (fun F => functionArgs env F [] []) ⟨t, [], ts'⟩ (.ok (Spec.abstractArgs args, ps), ⟨rp, [], more⟩) ∧
      ∀ idx ∈ ps, tys[idx]? = some .logical := by
  cases h with
  | nil =>
    refine ⟨rp, more, [], rfl, Ev.step0 fun f => ?_, by simp⟩
    rw [functionArgs_close _ _ _ _ hrp]
    simp [Spec.abstractArgs]
  | cons a as t1 t2 ha hm =>
    obtain ⟨ty, tys', rfl⟩ := hv.cons_inv
    obtain ⟨y, more', ht2, hy⟩ := hm.follow rp more hrp
    obtain ⟨t, ts', rfl, htr, htl, hd, htm, pa, st1, hpa, hready, hev⟩ := arg_exec hO ha hv.cons.1
      (by simp at hl; omega) y more' (closer_of_comma_rparen hy)
    obtain ⟨ps, hrec, hps⟩ := parse_moreArgs hO as t2 tys' hm hv.cons.2 (by simp at hl; omega) []
      (if t.kind = .lparen then [] ++ [([] : List Expr).length] else []) pa rp more y more' st1 hrp ht2.symm hready
    refine ⟨t, ts' ++ y :: more', ps, by simp [ht2], ?_, ?_⟩
    · have := Ev.step2 (m := fun F => functionArgs env F [] []) hev hrec
        fun f e1 e2 => args_step f _ _ htm htr e1 e2
      simpa [Spec.abstractArgs, hpa] using this
    · intro idx hidx
      rcases hps idx hidx with h1 | ⟨i, rfl, hi⟩
      · by_cases hlp : t.kind = .lparen
        · simp only [hlp, if_true, List.nil_append, List.length_nil, List.mem_singleton] at h1
          subst h1
          simp [htl hlp]
        · simp [hlp] at h1
      · simpa [Nat.add_comm] using hi

/-- a function expression as a unit -/
theorem unit_call (hO : StOr env n) {name : Str} {args : List Spec.CExpr} {ts : List Token}
    (h : ArgsShape args ts) (hv : WT env (.call name args)) (hl : ts.length ≤ n) (tok rp : Token)
    (hk : tok.kind = .function) (hval : tok.value = name) (hrp : rp.kind = .rparen)
    (x : Token) (more : List Token) :
    UnitRes env (.call name (Spec.abstractArgs args)) .function ⟨tok, [], ts ++ rp :: x :: more⟩ x more := by
  obtain ⟨fn, hf, hargs⟩ := hv.call
  obtain ⟨t, ts', ps, hts, hev, hps⟩ := parse_args hO h hargs hl rp (x :: more) hrp
  have hne : tok.kind ≠ .eof := by rw [hk]; simp
  have hrne : rp.kind ≠ .eof := by rw [hrp]; simp
  refine ⟨⟨.call name (Spec.abstractArgs args), tok⟩, ⟨rp, [], x :: more⟩, rfl, .inl ⟨rp, hrne, rfl⟩,
    handler_function ?_⟩
  refine Ev.step1 hev fun f e1 => ?_
  rw [parseFunction, hts]
  simp only [exec_bind, exec_nextTok, next_fresh _ _ _ hne, e1, hval, hf]
  rw [forIn_ok _ ps (fun idx hidx st => by simp [hps idx hidx, exec_pure])]
  simp [validateSignature_ok hf hargs tok hval, exec_pure]

end

end JPV.Proofs.Cf
