/-
`Proofs.Ss.LexSegs` — LEXER INVERSION: a successful run of the lexer whose tokens have the shape the
parser accepts for a filter-free query reads a text the grammar derives.
-/
import JPV.Proofs.Ss.LexStep
import JPV.Proofs.Ss.BrPure
set_option linter.unusedSimpArgs false
namespace JPV.Proofs.Ss
open JPV JPV.Impl JPV.Proofs.Rq JPV.Proofs.Cs

variable {l lf : Lexer} {pre inp : List Char} {toks : List Token} {br : List (Char × Nat)}

/-! ### the step descriptions with the emitted tokens -/

theorem seg_first_emits {out : List Token} (hst : St l pre [] inp toks br) (he : Emits .segment l out lf)
    (hg : ¬ Bad lf) :
    (inp = [] ∧ ∃ k, out = [⟨.eof, [], k⟩]) ∨
    (∃ r l' pre' k out', Spec.skipS inp = '.' :: '.' :: r ∧ out = ⟨.doubleDot, ['.', '.'], k⟩ :: out' ∧
      St l' pre' [] r (⟨.doubleDot, ['.', '.'], k⟩ :: toks) br ∧ Emits .descendant l' out' lf) ∨
    (∃ r l' pre' k out', Spec.skipS inp = '.' :: '*' :: r ∧ out = ⟨.wild, ['*'], k⟩ :: out' ∧
      St l' pre' [] r (⟨.wild, ['*'], k⟩ :: toks) br ∧ Emits .segment l' out' lf) ∨
    (∃ c r n l' pre' k out', Spec.skipS inp = '.' :: c :: r ∧ Impl.isNameFirst c = true ∧
      reProperty (c :: r) = some n ∧ out = ⟨.property, (c :: r).take n, k⟩ :: out' ∧
      St l' pre' [] ((c :: r).drop n) (⟨.property, (c :: r).take n, k⟩ :: toks) br ∧
      Emits .segment l' out' lf) ∨
    (∃ r l' pre' k i out', Spec.skipS inp = '[' :: r ∧ out = ⟨.lbracket, ['['], k⟩ :: out' ∧
      St l' pre' [] r (⟨.lbracket, ['['], k⟩ :: toks) (('[', i) :: br) ∧ Emits .bracketed l' out' lf) := by
  rcases seg_first hst he.halts hg with ⟨rfl, k, hk⟩ | ⟨r, l', pre', k, e, h', hh'⟩ | ⟨r, l', pre', k, e, h', hh'⟩ |
    ⟨c, r, n, l', pre', k, e, hn, hre, h', hh'⟩ | ⟨r, l', pre', k, i, e, h', hh'⟩
  · exact .inl ⟨rfl, k, he.last (by rw [hk, hst.toks])⟩
  · obtain ⟨out', eo, he'⟩ := he.peel hh' (by rw [h'.toks, hst.toks])
    exact .inr (.inl ⟨r, l', pre', k, out', e, eo, h', he'⟩)
  · obtain ⟨out', eo, he'⟩ := he.peel hh' (by rw [h'.toks, hst.toks])
    exact .inr (.inr (.inl ⟨r, l', pre', k, out', e, eo, h', he'⟩))
  · obtain ⟨out', eo, he'⟩ := he.peel hh' (by rw [h'.toks, hst.toks])
    exact .inr (.inr (.inr (.inl ⟨c, r, n, l', pre', k, out', e, hn, hre, eo, h', he'⟩)))
  · obtain ⟨out', eo, he'⟩ := he.peel hh' (by rw [h'.toks, hst.toks])
    exact .inr (.inr (.inr (.inr ⟨r, l', pre', k, i, out', e, eo, h', he'⟩)))

theorem desc_first_emits {out : List Token} (hst : St l pre [] inp toks br) (he : Emits .descendant l out lf)
    (hg : ¬ Bad lf) :
    (∃ r l' pre' k out', inp = '*' :: r ∧ out = ⟨.wild, ['*'], k⟩ :: out' ∧
      St l' pre' [] r (⟨.wild, ['*'], k⟩ :: toks) br ∧ Emits .segment l' out' lf) ∨
    (∃ c r n l' pre' k out', inp = c :: r ∧ Impl.isNameFirst c = true ∧
      reProperty (c :: r) = some n ∧ out = ⟨.property, (c :: r).take n, k⟩ :: out' ∧
      St l' pre' [] ((c :: r).drop n) (⟨.property, (c :: r).take n, k⟩ :: toks) br ∧
      Emits .segment l' out' lf) ∨
    (∃ r l' pre' k i out', inp = '[' :: r ∧ out = ⟨.lbracket, ['['], k⟩ :: out' ∧
      St l' pre' [] r (⟨.lbracket, ['['], k⟩ :: toks) (('[', i) :: br) ∧ Emits .bracketed l' out' lf) := by
  rcases desc_first hst he.halts hg with ⟨r, l', pre', k, e, h', hh'⟩ |
    ⟨c, r, n, l', pre', k, e, hn, hre, h', hh'⟩ | ⟨r, l', pre', k, i, e, h', hh'⟩
  · obtain ⟨out', eo, he'⟩ := he.peel hh' (by rw [h'.toks, hst.toks])
    exact .inl ⟨r, l', pre', k, out', e, eo, h', he'⟩
  · obtain ⟨out', eo, he'⟩ := he.peel hh' (by rw [h'.toks, hst.toks])
    exact .inr (.inl ⟨c, r, n, l', pre', k, out', e, hn, hre, eo, h', he'⟩)
  · obtain ⟨out', eo, he'⟩ := he.peel hh' (by rw [h'.toks, hst.toks])
    exact .inr (.inr ⟨r, l', pre', k, i, out', e, eo, h', he'⟩)

/-! ### the inside of a bracketed selection -/

/-- the run inside brackets over tokens none of which is `]` or `?`, up to and including the `]` -/
theorem brk_toks {i : Nat} (hg : ¬ Bad lf) : ∀ (ts : List Token) (l : Lexer) (pre inp : List Char)
    (toks out' : List Token) (rb : Token),
    (∀ t ∈ ts, t.kind ≠ .rbracket ∧ t.kind ≠ .filter) → rb.kind = .rbracket →
    St l pre [] inp toks (('[', i) :: br) → Emits .bracketed l (ts ++ rb :: out') lf →
    ∃ m m' l' pre', BrToks inp ts m ∧ Spec.skipS m = ']' :: m' ∧
      St l' pre' [] m' (rb :: (ts.reverse ++ toks)) br ∧ Emits .segment l' out' lf := by
  intro ts
  induction ts with
  | nil =>
    intro l pre inp toks out' rb _ hrb hst he
    obtain ⟨k, v, rest, l', n, hbt, hc⟩ := brk_next hst he.halts hg
    rcases hc with ⟨rfl, pre', h', hh'⟩ | ⟨rfl, ht, hh'⟩ | ⟨hk1, _, pre', h', hh'⟩
    · obtain ⟨o, eo, he'⟩ := he.peel hh' (by rw [h'.toks, hst.toks])
      simp only [List.nil_append, List.cons.injEq] at eo
      obtain ⟨rfl, rfl⟩ := eo
      exact ⟨inp, rest, l', pre', .nil _, brTok_rbracket hbt, by simpa using h', he'⟩
    · obtain ⟨o, eo, _⟩ := he.peel hh' (by rw [ht, hst.toks])
      simp only [List.nil_append, List.cons.injEq] at eo
      rw [eo.1] at hrb; cases hrb
    · obtain ⟨o, eo, _⟩ := he.peel hh' (by rw [h'.toks, hst.toks])
      simp only [List.nil_append, List.cons.injEq] at eo
      rw [eo.1] at hrb; exact absurd hrb hk1
  | cons t ts ih =>
    intro l pre inp toks out' rb hts hrb hst he
    obtain ⟨k, v, rest, l', n, hbt, hc⟩ := brk_next hst he.halts hg
    have ht := hts t (by simp)
    rcases hc with ⟨rfl, pre', h', hh'⟩ | ⟨rfl, htk, hh'⟩ | ⟨hk1, hk2, pre', h', hh'⟩
    · obtain ⟨o, eo, _⟩ := he.peel hh' (by rw [h'.toks, hst.toks])
      simp only [List.cons_append, List.cons.injEq] at eo
      exact absurd (by rw [eo.1]) ht.1
    · obtain ⟨o, eo, _⟩ := he.peel hh' (by rw [htk, hst.toks])
      simp only [List.cons_append, List.cons.injEq] at eo
      exact absurd (by rw [eo.1]) ht.2
    · obtain ⟨o, eo, he'⟩ := he.peel hh' (by rw [h'.toks, hst.toks])
      simp only [List.cons_append, List.cons.injEq] at eo
      obtain ⟨rfl, rfl⟩ := eo
      obtain ⟨m, m', l2, pre2, hb, hm, h2, he2⟩ := ih l' pre' rest _ out' rb
        (fun x hx => hts x (by simp [hx])) hrb h' he'
      exact ⟨m, m', l2, pre2, .cons _ rest _ _ _ hbt hk1 hk2 hb, hm, by simpa using h2, he2⟩

theorem SelT.kinds {sel : Selector} {ts : List Token} (h : SelT sel ts) :
    ∀ t ∈ ts, t.kind ≠ .rbracket ∧ t.kind ≠ .filter := by
  have hO : ∀ {a : Option Int} {ta : List Token}, OptT a ta → ∀ t ∈ ta, t.kind ≠ .rbracket ∧ t.kind ≠ .filter := by
    intro a ta h t ht
    cases h with
    | none => simp at ht
    | some t' i hk _ => simp at ht; subst ht; simp [hk]
  have hS : ∀ {c : Option Int} {tc : List Token}, StepT c tc → ∀ t ∈ tc, t.kind ≠ .rbracket ∧ t.kind ≠ .filter := by
    intro c tc h t ht
    cases h with
    | absent => simp at ht
    | colon t' hk => simp at ht; subst ht; simp [hk]
    | step t1 t2 i hk1 hk2 _ =>
      simp at ht
      rcases ht with rfl | rfl
      · simp [hk1]
      · simp [hk2]
  intro t ht
  cases h with
  | wild t' hk => simp at ht; subst ht; simp [hk]
  | name t' s hk _ => simp at ht; subst ht; rcases hk with hk | hk <;> simp [hk]
  | index t' i hk _ => simp at ht; subst ht; simp [hk]
  | slice a b c ta tb tc t' hk ha hb hc =>
    simp only [List.mem_append, List.mem_cons] at ht
    rcases ht with ht | rfl | ht | ht
    · exact hO ha t ht
    · simp [hk]
    · exact hO hb t ht
    · exact hS hc t ht

theorem SelsT.kinds {sels : List Selector} {ts : List Token} (h : SelsT sels ts) :
    ∀ t ∈ ts, t.kind ≠ .rbracket ∧ t.kind ≠ .filter := by
  induction h with
  | one s ts hs => exact hs.kinds
  | cons s ss t ts1 ts2 hs hk _ ih =>
    intro x hx
    simp only [List.mem_append, List.mem_cons] at hx
    rcases hx with hx | rfl | hx
    · exact hs.kinds x hx
    · simp [hk]
    · exact ih x hx

/-! ### the grammar's `segment`, by the first characters -/

theorem segment_dd_wild (F : Nat) (r : List Char) :
    Spec.segment (F + 1) ('.' :: '.' :: '*' :: r) = some (.desc [.wild], r) := by rw [Spec.segment]

theorem segment_dd_brack (F : Nat) (r : List Char) :
    Spec.segment (F + 1) ('.' :: '.' :: '[' :: r) =
      (Spec.bracketed F ('[' :: r)).map (fun (sels, _, r2) => (.desc sels, r2)) := by rw [Spec.segment]

theorem segment_dd_name (F : Nat) (c : Char) (r : List Char) (h1 : c ≠ '*') (h2 : c ≠ '[') :
    Spec.segment (F + 1) ('.' :: '.' :: c :: r) =
      (Spec.shorthand (c :: r)).map (fun (s, r2) => (.desc [.name s], r2)) := by
  rw [Spec.segment]
  · intro r' e; simp only [List.cons.injEq] at e; exact h1 e.1
  · intro r' e; simp only [List.cons.injEq] at e; exact h2 e.1

theorem segment_dot_wild (F : Nat) (r : List Char) :
    Spec.segment (F + 1) ('.' :: '*' :: r) = some (.child [.wild] false, r) := by rw [Spec.segment]

theorem segment_dot_name (F : Nat) (c : Char) (r : List Char) (h1 : c ≠ '.') (h2 : c ≠ '*') :
    Spec.segment (F + 1) ('.' :: c :: r) =
      (Spec.shorthand (c :: r)).map (fun (s, r2) => (.child [.name s] false, r2)) := by
  rw [Spec.segment]
  · intro r' e; simp only [List.cons.injEq] at e; exact h1 e.1
  · intro r' e; simp only [List.cons.injEq] at e; exact h2 e.1

theorem segment_brack (F : Nat) (r : List Char) :
    Spec.segment (F + 1) ('[' :: r) =
      (Spec.bracketed F ('[' :: r)).map (fun (sels, fl, r2) => (.child sels fl, r2)) := by rw [Spec.segment]

theorem segment_nil (F : Nat) : Spec.segment F [] = none := by
  cases F with
  | zero => rw [Spec.segment]
  | succ F => rw [Spec.segment]; all_goals (intros; simp_all)

theorem shorthand_of_reProperty {c : Char} {r : List Char} {n : Nat} (hc : Impl.isNameFirst c = true)
    (hre : reProperty (c :: r) = some n) :
    Spec.shorthand (c :: r) = some ((c :: r).take n, (c :: r).drop n) := by
  rw [reProperty_some hc] at hre
  simp only [Option.some.injEq] at hre
  subst hre
  simp only [Spec.shorthand, ← isNameFirst_eq, hc, if_true]
  rw [Nat.add_comm, List.take_succ_cons, List.drop_succ_cons, take_spanLen, spanLen_eq]
  rfl

theorem segments_cons {F : Nat} {inp r r2 : List Char} {seg : Spec.CSegment} {segs : List Spec.CSegment}
    (h1 : Spec.segment F (Spec.skipS inp) = some (seg, r)) (h2 : Spec.segments F r = some (segs, r2)) :
    Spec.segments (F + 1) inp = some (seg :: segs, r2) := by
  rw [Spec.segments]; simp only [h1, h2]

theorem segments_nil (F : Nat) : Spec.segments (F + 1) [] = some ([], []) := by
  rw [Spec.segments]
  have : Spec.skipS [] = [] := rfl
  simp only [this, segment_nil]

/-! ### one segment, then the rest -/

theorem segs_step {inp r : List Char} {seg : Spec.CSegment} {segs : List Spec.CSegment}
    (hlen : r.length < inp.length)
    (h1 : ∀ F', inp.length + 2 ≤ F' → Spec.segment F' (Spec.skipS inp) = some (seg, r))
    (h2 : ∀ F', 2 * r.length + 3 ≤ F' → Spec.segments F' r = some (segs, []))
    (F : Nat) (hF : 2 * inp.length + 3 ≤ F) : Spec.segments F inp = some (seg :: segs, []) := by
  obtain ⟨F1, rfl⟩ : ∃ F1, F = F1 + 1 := ⟨F - 1, by omega⟩
  exact segments_cons (h1 F1 (by omega)) (h2 F1 (by omega))

/-- contradiction between the kind of the token the lexer emitted and the kind the parser saw -/
macro "tok_contra" eo:ident hk:ident : tactic => `(tactic| (
  simp only [List.cons_append, List.nil_append, List.cons.injEq] at $eo:ident
  rw [($eo).1] at $hk:ident
  simp at $hk:ident))

theorem drop_length_lt {c : Char} {r : List Char} {n : Nat} (hre : reProperty (c :: r) = some n) :
    ((c :: r).drop n).length < (c :: r).length := by
  have := reProperty_pos _ _ hre
  simp only [List.length_drop, List.length_cons]
  omega

/-- a bracketed selection of the parser's shape, read by the lexer from after the `[` -/
theorem brack_inv {i : Nat} (hg : ¬ Bad lf) {sels : List Selector} {ts : List Token} (hs : SelsT sels ts)
    {rb : Token} (hrb : rb.kind = .rbracket) {r : List Char} {out' : List Token}
    (hst : St l pre [] r toks [('[', i)]) (he : Emits .bracketed l (ts ++ rb :: out') lf) :
    ∃ m' l' pre' csels fl, m'.length < r.length ∧ St l' pre' [] m' (rb :: (ts.reverse ++ toks)) [] ∧
      Emits .segment l' out' lf ∧ Spec.abstractSels csels = sels ∧
      ∀ F, r.length + 1 ≤ F → Spec.bracketed F ('[' :: r) = some (csels, fl, m') := by
  obtain ⟨m, m', l', pre', hb, hm, h', he'⟩ := brk_toks hg ts l pre r toks out' rb hs.kinds hrb hst he
  have h1 := hb.length_le
  have h2 := skipS_length m
  rw [hm] at h2
  simp only [List.length_cons] at h2
  have h3 := hs.length_le
  obtain ⟨csels, fl, hab, hbr⟩ := brk_pure hs hb hm
  refine ⟨m', l', pre', csels, fl, by omega, h', he', hab, ?_⟩
  intro F hF
  exact hbr F (by omega)

/-- LEXER INVERSION for the segments of a query -/
theorem lex_segs (hg : ¬ Bad lf) {q : Query} {out left : List Token} (h : QT q out left) :
    ∀ (e : Token) (more : List Token), left = e :: more → e.kind = .eof →
    ∀ (l : Lexer) (pre inp : List Char) (toks : List Token), St l pre [] inp toks [] →
    Emits .segment l out lf →
    ∃ c, (∀ F, 2 * inp.length + 3 ≤ F → Spec.segments F inp = some (c, [])) ∧ Spec.abstractSegs c = q := by
  induction h with
  | nil lst =>
    intro e more hl hek l pre inp toks hst he
    subst hl
    rcases seg_first_emits hst he hg with ⟨rfl, _⟩ | ⟨r, l', pre', k, out', _, eo, _⟩ |
      ⟨r, l', pre', k, out', _, eo, _⟩ | ⟨c, r, n, l', pre', k, out', _, _, _, eo, _⟩ |
      ⟨r, l', pre', k, i, out', _, eo, _⟩
    · refine ⟨[], ?_, rfl⟩
      intro F hF
      obtain ⟨F1, rfl⟩ : ∃ F1, F = F1 + 1 := ⟨F - 1, by omega⟩
      exact segments_nil F1
    · tok_contra eo hek
    · tok_contra eo hek
    · tok_contra eo hek
    · tok_contra eo hek
  | cons s ss t1 rest left hs _ ih =>
    intro e more hl hek l pre inp toks hst he
    have hsk := skipS_length inp
    cases hs with
    | dotName t hk =>
      rcases seg_first_emits hst he hg with ⟨_, k, eo⟩ | ⟨r, l', pre', k, out', _, eo, _⟩ |
        ⟨r, l', pre', k, out', _, eo, _⟩ | ⟨c, r, n, l', pre', k, out', e1, hn, hre, eo, h', he'⟩ |
        ⟨r, l', pre', k, i, out', _, eo, _⟩
      · tok_contra eo hk
      · tok_contra eo hk
      · tok_contra eo hk
      · simp only [List.cons_append, List.nil_append, List.cons.injEq] at eo
        obtain ⟨rfl, rfl⟩ := eo
        obtain ⟨c', hc', ha⟩ := ih e more hl hek l' pre' _ _ h' he'
        have hdl := drop_length_lt hre
        rw [e1] at hsk
        simp only [List.length_cons] at hsk hdl
        obtain ⟨n1, n2, n3⟩ := nameFirst_ne hn
        refine ⟨.child [.name ((c :: r).take n)] false :: c', segs_step (by omega) ?_ hc', ?_⟩
        · intro F' hF'
          obtain ⟨F2, rfl⟩ : ∃ F2, F' = F2 + 1 := ⟨F' - 1, by omega⟩
          rw [e1, segment_dot_name _ _ _ n3 n1, shorthand_of_reProperty hn hre]
          rfl
        · simp [Spec.abstractSegs, Spec.abstractSels, Spec.abstractSel, ha]
      · tok_contra eo hk
    | dotWild t hk =>
      rcases seg_first_emits hst he hg with ⟨_, k, eo⟩ | ⟨r, l', pre', k, out', _, eo, _⟩ |
        ⟨r, l', pre', k, out', e1, eo, h', he'⟩ | ⟨c, r, n, l', pre', k, out', _, _, _, eo, _⟩ |
        ⟨r, l', pre', k, i, out', _, eo, _⟩
      · tok_contra eo hk
      · tok_contra eo hk
      · simp only [List.cons_append, List.nil_append, List.cons.injEq] at eo
        obtain ⟨rfl, rfl⟩ := eo
        obtain ⟨c', hc', ha⟩ := ih e more hl hek l' pre' _ _ h' he'
        rw [e1] at hsk
        simp only [List.length_cons] at hsk
        refine ⟨.child [.wild] false :: c', segs_step (by omega) ?_ hc', ?_⟩
        · intro F' hF'
          obtain ⟨F2, rfl⟩ : ∃ F2, F' = F2 + 1 := ⟨F' - 1, by omega⟩
          rw [e1, segment_dot_wild]
        · simp [Spec.abstractSegs, Spec.abstractSels, Spec.abstractSel, ha]
      · tok_contra eo hk
      · tok_contra eo hk
    | brack lb rb sels ts hlb hrb hsels =>
      rcases seg_first_emits hst he hg with ⟨_, k, eo⟩ | ⟨r, l', pre', k, out', _, eo, _⟩ |
        ⟨r, l', pre', k, out', _, eo, _⟩ | ⟨c, r, n, l', pre', k, out', _, _, _, eo, _⟩ |
        ⟨r, l', pre', k, i, out', e1, eo, h', he'⟩
      · tok_contra eo hlb
      · tok_contra eo hlb
      · tok_contra eo hlb
      · tok_contra eo hlb
      · simp only [List.cons_append, List.nil_append, List.append_assoc, List.cons.injEq] at eo
        obtain ⟨rfl, rfl⟩ := eo
        obtain ⟨m', l2, pre2, csels, fl, hlen, h2, he2, hab, hbr⟩ := brack_inv hg hsels hrb h' he'
        obtain ⟨c', hc', ha⟩ := ih e more hl hek l2 pre2 _ _ h2 he2
        rw [e1] at hsk
        simp only [List.length_cons] at hsk
        refine ⟨.child csels fl :: c', segs_step (by omega) ?_ hc', ?_⟩
        · intro F' hF'
          obtain ⟨F2, rfl⟩ : ∃ F2, F' = F2 + 1 := ⟨F' - 1, by omega⟩
          rw [e1, segment_brack, hbr F2 (by omega)]
          rfl
        · simp [Spec.abstractSegs, hab, ha]
    | descName d t hd hk =>
      rcases seg_first_emits hst he hg with ⟨_, k, eo⟩ | ⟨r, l', pre', k, out', e1, eo, h', he'⟩ |
        ⟨r, l', pre', k, out', _, eo, _⟩ | ⟨c, r, n, l', pre', k, out', _, _, _, eo, _⟩ |
        ⟨r, l', pre', k, i, out', _, eo, _⟩
      · tok_contra eo hd
      · simp only [List.cons_append, List.nil_append, List.cons.injEq] at eo
        obtain ⟨rfl, rfl⟩ := eo
        rcases desc_first_emits h' he' hg with ⟨r1, l1, pre1, k1, out1, _, eo, _⟩ |
          ⟨c, r1, n, l1, pre1, k1, out1, e2, hn, hre, eo, h1, he1⟩ | ⟨r1, l1, pre1, k1, i, out1, _, eo, _⟩
        · tok_contra eo hk
        · simp only [List.cons.injEq] at eo
          obtain ⟨rfl, rfl⟩ := eo
          subst e2
          obtain ⟨c', hc', ha⟩ := ih e more hl hek l1 pre1 _ _ h1 he1
          have hdl := drop_length_lt hre
          rw [e1] at hsk
          simp only [List.length_cons] at hsk hdl
          obtain ⟨n1, n2, n3⟩ := nameFirst_ne hn
          refine ⟨.desc [.name ((c :: r1).take n)] :: c', segs_step (by omega) ?_ hc', ?_⟩
          · intro F' hF'
            obtain ⟨F2, rfl⟩ : ∃ F2, F' = F2 + 1 := ⟨F' - 1, by omega⟩
            rw [e1, segment_dd_name _ _ _ n1 n2, shorthand_of_reProperty hn hre]
            rfl
          · simp [Spec.abstractSegs, Spec.abstractSels, Spec.abstractSel, ha]
        · tok_contra eo hk
      · tok_contra eo hd
      · tok_contra eo hd
      · tok_contra eo hd
    | descWild d t hd hk =>
      rcases seg_first_emits hst he hg with ⟨_, k, eo⟩ | ⟨r, l', pre', k, out', e1, eo, h', he'⟩ |
        ⟨r, l', pre', k, out', _, eo, _⟩ | ⟨c, r, n, l', pre', k, out', _, _, _, eo, _⟩ |
        ⟨r, l', pre', k, i, out', _, eo, _⟩
      · tok_contra eo hd
      · simp only [List.cons_append, List.nil_append, List.cons.injEq] at eo
        obtain ⟨rfl, rfl⟩ := eo
        rcases desc_first_emits h' he' hg with ⟨r1, l1, pre1, k1, out1, e2, eo, h1, he1⟩ |
          ⟨c, r1, n, l1, pre1, k1, out1, _, _, _, eo, _⟩ | ⟨r1, l1, pre1, k1, i, out1, _, eo, _⟩
        · simp only [List.cons.injEq] at eo
          obtain ⟨rfl, rfl⟩ := eo
          subst e2
          obtain ⟨c', hc', ha⟩ := ih e more hl hek l1 pre1 _ _ h1 he1
          rw [e1] at hsk
          simp only [List.length_cons] at hsk
          refine ⟨.desc [.wild] :: c', segs_step (by omega) ?_ hc', ?_⟩
          · intro F' hF'
            obtain ⟨F2, rfl⟩ : ∃ F2, F' = F2 + 1 := ⟨F' - 1, by omega⟩
            rw [e1, segment_dd_wild]
          · simp [Spec.abstractSegs, Spec.abstractSels, Spec.abstractSel, ha]
        · tok_contra eo hk
        · tok_contra eo hk
      · tok_contra eo hd
      · tok_contra eo hd
      · tok_contra eo hd
    | descBrack d lb rb sels ts hd hlb hrb hsels =>
      rcases seg_first_emits hst he hg with ⟨_, k, eo⟩ | ⟨r, l', pre', k, out', e1, eo, h', he'⟩ |
        ⟨r, l', pre', k, out', _, eo, _⟩ | ⟨c, r, n, l', pre', k, out', _, _, _, eo, _⟩ |
        ⟨r, l', pre', k, i, out', _, eo, _⟩
      · tok_contra eo hd
      · simp only [List.cons_append, List.nil_append, List.append_assoc, List.cons.injEq] at eo
        obtain ⟨rfl, rfl⟩ := eo
        rcases desc_first_emits h' he' hg with ⟨r1, l1, pre1, k1, out1, _, eo, _⟩ |
          ⟨c, r1, n, l1, pre1, k1, out1, _, _, _, eo, _⟩ | ⟨r1, l1, pre1, k1, i, out1, e2, eo, h1, he1⟩
        · tok_contra eo hlb
        · tok_contra eo hlb
        · simp only [List.cons.injEq] at eo
          obtain ⟨rfl, rfl⟩ := eo
          subst e2
          obtain ⟨m', l2, pre2, csels, fl, hlen, h2, he2, hab, hbr⟩ := brack_inv hg hsels hrb h1 he1
          obtain ⟨c', hc', ha⟩ := ih e more hl hek l2 pre2 _ _ h2 he2
          rw [e1] at hsk
          simp only [List.length_cons] at hsk
          refine ⟨.desc csels :: c', segs_step (by omega) ?_ hc', ?_⟩
          · intro F' hF'
            obtain ⟨F2, rfl⟩ : ∃ F2, F' = F2 + 1 := ⟨F' - 1, by omega⟩
            rw [e1, segment_dd_brack, hbr F2 (by omega)]
            rfl
          · simp [Spec.abstractSegs, hab, ha]
      · tok_contra eo hd
      · tok_contra eo hd
      · tok_contra eo hd
    | descBad d t hd h1 h2 h3 =>
      exfalso
      rcases seg_first_emits hst he hg with ⟨_, k, eo⟩ | ⟨r, l', pre', k, out', e1, eo, h', he'⟩ |
        ⟨r, l', pre', k, out', _, eo, _⟩ | ⟨c, r, n, l', pre', k, out', _, _, _, eo, _⟩ |
        ⟨r, l', pre', k, i, out', _, eo, _⟩
      · tok_contra eo hd
      · simp only [List.cons_append, List.nil_append, List.cons.injEq] at eo
        obtain ⟨rfl, rfl⟩ := eo
        rcases desc_first_emits h' he' hg with ⟨r1, l1, pre1, k1, out1, _, eo, _⟩ |
          ⟨c, r1, n, l1, pre1, k1, out1, _, _, _, eo, _⟩ | ⟨r1, l1, pre1, k1, i, out1, _, eo, _⟩
        · tok_contra eo h2
        · tok_contra eo h1
        · tok_contra eo h3
      · tok_contra eo hd
      · tok_contra eo hd
      · tok_contra eo hd
  | descEof d e' more' hd he' =>
    intro e more hl hek l pre inp toks hst he
    exfalso
    rcases seg_first_emits hst he hg with ⟨_, k, eo⟩ | ⟨r, l', pre', k, out', e1, eo, h', he1⟩ |
      ⟨r, l', pre', k, out', _, eo, _⟩ | ⟨c, r, n, l', pre', k, out', _, _, _, eo, _⟩ |
      ⟨r, l', pre', k, i, out', _, eo, _⟩
    · tok_contra eo hd
    · simp only [List.cons.injEq] at eo
      obtain ⟨rfl, rfl⟩ := eo
      rcases desc_first_emits h' he1 hg with ⟨r1, l1, pre1, k1, out1, _, eo, _⟩ |
        ⟨c, r1, n, l1, pre1, k1, out1, _, _, _, eo, _⟩ | ⟨r1, l1, pre1, k1, i, out1, _, eo, _⟩
      · tok_contra eo he'
      · tok_contra eo he'
      · tok_contra eo he'
    · tok_contra eo hd
    · tok_contra eo hd
    · tok_contra eo hd

end JPV.Proofs.Ss
