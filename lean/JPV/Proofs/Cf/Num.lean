/-
`Proofs.Cf.Num` — number literals: the grammar's `number` against the lexer's `RE_FLOAT` / `RE_INT` and the
parser's literal handlers.
-/
import JPV.Proofs.Cf.Shape
import JPV.Proofs.Cs.LexInt
namespace JPV.Proofs.Cf
open JPV JPV.Impl

/-! ### the shape of a number spelling -/

/-- a non-empty string of digits -/
def Digs (D : List Char) : Prop := D ≠ [] ∧ ∀ c ∈ D, isDigit c = true

/-- does not begin with a digit -/
def NoDig (r : List Char) : Prop := ∀ c, r.head? = some c → isDigit c = false

/-- what follows a number literal cannot continue it -/
def NumFollow (r : List Char) : Prop :=
  ∀ c t, r = c :: t → Impl.isDigit c = false ∧ c ≠ '.' ∧ c ≠ 'e' ∧ c ≠ 'E'

/-- `int / "-0"`: an optional minus and digits without a superfluous leading zero -/
inductive IntP : List Char → Prop
  | pos (D : List Char) : Digs D → (D.head? = some '0' → D.length = 1) → IntP D
  | neg (D : List Char) : Digs D → (D.head? = some '0' → D.length = 1) → IntP ('-' :: D)

/-- `[frac]` -/
inductive FracP : List Char → Prop
  | none : FracP []
  | some (D : List Char) : Digs D → FracP ('.' :: D)

/-- `[exp]` -/
inductive ExpP : List Char → Prop
  | none : ExpP []
  | some (e : Char) (S D : List Char) : (e = 'e' ∨ e = 'E') → (S = [] ∨ S = ['+'] ∨ S = ['-']) → Digs D →
      ExpP (e :: (S ++ D))

theorem digit_ne {c : Char} (h : isDigit c = true) :
    c ≠ '.' ∧ c ≠ 'e' ∧ c ≠ 'E' ∧ c ≠ '-' ∧ c ≠ ':' ∧ c ≠ '+' := by
  refine ⟨?_, ?_, ?_, ?_, ?_, ?_⟩ <;> (rintro rfl; revert h; decide)

theorem Digs.takeWhile {c : Char} {r : List Char} (hc : Spec.isDIGIT c = true) :
    Digs ((c :: r).takeWhile Spec.isDIGIT) := by
  refine ⟨by simp [List.takeWhile, hc], fun x hx => ?_⟩
  exact Cs.takeWhile_all _ _ x hx

theorem Digs.cons {D : List Char} (h : Digs D) : ∃ d ds, D = d :: ds ∧ isDigit d = true := by
  cases D with
  | nil => exact absurd rfl h.1
  | cons d ds => exact ⟨d, ds, rfl, h.2 d (by simp)⟩

theorem NumFollow.noDig {r : List Char} (h : NumFollow r) : NoDig r := by
  intro c hc
  cases r with
  | nil => simp at hc
  | cons d t => simp at hc; subst hc; exact (h d t rfl).1

theorem noDig_cons {c : Char} {t : List Char} (h : isDigit c = false) : NoDig (c :: t) := by
  intro d hd; simp at hd; subst hd; exact h

theorem FracP.noDig {F x : List Char} (h : FracP F) (hx : NoDig x) : NoDig (F ++ x) := by
  cases h with
  | none => simpa using hx
  | some D _ => exact noDig_cons (by decide)

theorem ExpP.noDig {E x : List Char} (h : ExpP E) (hx : NoDig x) : NoDig (E ++ x) := by
  cases h with
  | none => simpa using hx
  | some e S D he _ _ => rcases he with rfl | rfl <;> exact noDig_cons (by decide)

theorem spanLen_digs {D rest : List Char} (h : Digs D) (hr : NoDig rest) :
    spanLen isDigit (D ++ rest) = D.length :=
  Rq.spanLen_append isDigit D rest h.2 hr

/-! ### `Spec.numberSpelling` in three stages -/

def ipStage (inp : List Char) : Option (List Char × List Char) :=
  match inp with
  | '-' :: '0' :: r => some (['-', '0'], r)
  | _ => match Spec.intLit inp with
    | some (_, r) => some (inp.take (inp.length - r.length), r)
    | none => none

def fracStage (sp r : List Char) : List Char × List Char :=
  match r with
  | '.' :: d :: r2 =>
    if Spec.isDIGIT d then
      let ds := (d :: r2).takeWhile Spec.isDIGIT
      (sp ++ ['.'] ++ ds, (d :: r2).drop ds.length)
    else (sp, r)
  | _ => (sp, r)

def expStage (sp r : List Char) : List Char × List Char :=
  match r with
  | e :: r2 =>
    if e = 'e' || e = 'E' then
      let (sg, r3) := match r2 with
        | '+' :: r3 => (['+'], r3)
        | '-' :: r3 => (['-'], r3)
        | _ => ([], r2)
      let ds := r3.takeWhile Spec.isDIGIT
      if ds.isEmpty then (sp, r) else (sp ++ [e] ++ sg ++ ds, r3.drop ds.length)
    else (sp, r)
  | [] => (sp, r)

theorem numberSpelling_eq (inp : List Char) :
    Spec.numberSpelling inp =
      match ipStage inp with
      | none => none
      | some (sp, r) => some (expStage (fracStage sp r).1 (fracStage sp r).2) := by
  rfl

theorem take_len_sub {α} (M r : List α) : (M ++ r).take ((M ++ r).length - r.length) = M := by
  simp

theorem intLit_parts {inp r : List Char} {i : Int} (h : Spec.intLit inp = some (i, r)) :
    ∃ M, inp = M ++ r ∧ IntP M := by
  unfold Spec.intLit at h
  split at h
  · rename_i r0
    simp only [Option.some.injEq, Prod.mk.injEq] at h
    obtain ⟨-, rfl⟩ := h
    exact ⟨['0'], rfl, .pos _ ⟨by simp, by simp; decide⟩ (fun _ => rfl)⟩
  · rename_i c r0
    split at h
    · rename_i hc
      simp only [Option.some.injEq, Prod.mk.injEq] at h
      obtain ⟨-, rfl⟩ := h
      have hd := Cs.D1_digit hc
      refine ⟨'-' :: (c :: r0).takeWhile Spec.isDIGIT, ?_, .neg _ (Digs.takeWhile hd) ?_⟩
      · rw [List.cons_append, Cs.takeWhile_append_drop]
      · simp [List.takeWhile, hd, Cs.D1_ne_zero hc]
    · simp at h
  · rename_i c r0 h0 hm
    split at h
    · rename_i hc
      simp only [Option.some.injEq, Prod.mk.injEq] at h
      obtain ⟨-, rfl⟩ := h
      have hd := Cs.D1_digit hc
      refine ⟨(c :: r0).takeWhile Spec.isDIGIT, ?_, .pos _ (Digs.takeWhile hd) ?_⟩
      · rw [Cs.takeWhile_append_drop]
      · simp [List.takeWhile, hd, Cs.D1_ne_zero hc]
    · simp at h
  · simp at h

theorem ipStage_parts {inp M r : List Char} (h : ipStage inp = some (M, r)) : inp = M ++ r ∧ IntP M := by
  unfold ipStage at h
  split at h
  · rename_i r0
    simp only [Option.some.injEq, Prod.mk.injEq] at h
    obtain ⟨rfl, rfl⟩ := h
    exact ⟨rfl, .neg ['0'] ⟨by simp, by simp; decide⟩ (fun _ => rfl)⟩
  · split at h
    · rename_i i r0 hi
      simp only [Option.some.injEq, Prod.mk.injEq] at h
      obtain ⟨rfl, rfl⟩ := h
      obtain ⟨M, e, hM⟩ := intLit_parts hi
      subst e
      rw [take_len_sub]
      exact ⟨rfl, hM⟩
    · simp at h

theorem fracStage_parts {sp r sp' r' : List Char} (h : fracStage sp r = (sp', r')) :
    ∃ F, FracP F ∧ sp' = sp ++ F ∧ r = F ++ r' := by
  unfold fracStage at h
  split at h
  · rename_i d r2
    split at h
    · rename_i hd
      simp only [Prod.mk.injEq] at h
      obtain ⟨rfl, rfl⟩ := h
      refine ⟨'.' :: (d :: r2).takeWhile Spec.isDIGIT, .some _ (Digs.takeWhile hd), by simp, ?_⟩
      rw [List.cons_append, Cs.takeWhile_append_drop]
    · simp only [Prod.mk.injEq] at h
      obtain ⟨rfl, rfl⟩ := h
      exact ⟨[], .none, by simp, rfl⟩
  · simp only [Prod.mk.injEq] at h
    obtain ⟨rfl, rfl⟩ := h
    exact ⟨[], .none, by simp, rfl⟩

theorem expStage_aux {sp r sp' r' r3 sg : List Char} {e : Char} (he : e = 'e' ∨ e = 'E')
    (hsg : sg = [] ∨ sg = ['+'] ∨ sg = ['-']) (hr : r = e :: (sg ++ r3))
    (h : (if (r3.takeWhile Spec.isDIGIT).isEmpty then (sp, r)
      else (sp ++ [e] ++ sg ++ r3.takeWhile Spec.isDIGIT, r3.drop (r3.takeWhile Spec.isDIGIT).length)) = (sp', r')) :
    ∃ E, ExpP E ∧ sp' = sp ++ E ∧ r = E ++ r' := by
  split at h
  · simp only [Prod.mk.injEq] at h
    obtain ⟨rfl, rfl⟩ := h
    exact ⟨[], .none, by simp, rfl⟩
  · rename_i hne
    simp only [Prod.mk.injEq] at h
    obtain ⟨rfl, rfl⟩ := h
    refine ⟨e :: (sg ++ r3.takeWhile Spec.isDIGIT), .some e sg _ he hsg ⟨?_, Cs.takeWhile_all _ _⟩, by simp, ?_⟩
    · simpa using hne
    · rw [hr, List.cons_append, List.append_assoc, Cs.takeWhile_append_drop]

theorem expStage_parts {sp r sp' r' : List Char} (h : expStage sp r = (sp', r')) :
    ∃ E, ExpP E ∧ sp' = sp ++ E ∧ r = E ++ r' := by
  unfold expStage at h
  split at h
  · rename_i e r2
    split at h
    · rename_i he
      have he' : e = 'e' ∨ e = 'E' := by simpa using he
      split at h
      · rename_i sg r3 hm
        split at hm
        · simp only [Prod.mk.injEq] at hm
          obtain ⟨rfl, rfl⟩ := hm
          exact expStage_aux he' (.inr (.inl rfl)) rfl h
        · simp only [Prod.mk.injEq] at hm
          obtain ⟨rfl, rfl⟩ := hm
          exact expStage_aux he' (.inr (.inr rfl)) rfl h
        · simp only [Prod.mk.injEq] at hm
          obtain ⟨rfl, rfl⟩ := hm
          exact expStage_aux he' (.inl rfl) rfl h
    · simp only [Prod.mk.injEq] at h
      obtain ⟨rfl, rfl⟩ := h
      exact ⟨[], .none, by simp, rfl⟩
  · simp only [Prod.mk.injEq] at h
    obtain ⟨rfl, rfl⟩ := h
    exact ⟨[], .none, by simp, rfl⟩

/-- the structure of a number spelling: `(int / "-0") [frac] [exp]` -/
theorem numberSpelling_parts {inp sp r : List Char} (h : Spec.numberSpelling inp = some (sp, r)) :
    inp = sp ++ r ∧ ∃ M F E, sp = M ++ F ++ E ∧ IntP M ∧ FracP F ∧ ExpP E := by
  rw [numberSpelling_eq] at h
  split at h
  · simp at h
  · rename_i M r0 hip
    simp only [Option.some.injEq] at h
    obtain ⟨e0, hM⟩ := ipStage_parts hip
    cases hfs : fracStage M r0 with
    | mk sp1 r1 =>
    rw [hfs] at h
    simp only at h
    obtain ⟨F, hF, e1, e2⟩ := fracStage_parts hfs
    obtain ⟨E, hE, e3, e4⟩ := expStage_parts h
    refine ⟨?_, M, F, E, ?_, hM, hF, hE⟩
    · rw [e0, e2, e4, e3, e1]; simp
    · rw [e3, e1]

/-! ### the lexer's regexes on `int-part ++ rest` -/

theorem IntP.not_colon {M rest t : List Char} (h : IntP M) : M ++ rest ≠ ':' :: t := by
  cases h with
  | pos D hD _ =>
    obtain ⟨d, ds, rfl, hd⟩ := hD.cons
    intro e; simp only [List.cons_append, List.cons.injEq] at e
    exact (digit_ne hd).2.2.2.2.1 e.1
  | neg D _ _ => intro e; simp only [List.cons_append, List.cons.injEq] at e; exact absurd e.1 (by decide)

theorem reSignedDigits_int {M rest : List Char} (hM : IntP M) (hr : NoDig rest) :
    reSignedDigits (M ++ rest) = some M.length := by
  cases hM with
  | pos D hD _ =>
    obtain ⟨d, ds, rfl, hd⟩ := hD.cons
    have hs := spanLen_digs hD hr
    unfold reSignedDigits
    simp only [List.cons_append] at hs ⊢
    split
    · rename_i heq; simp only [List.cons.injEq] at heq; exact absurd heq.1 (digit_ne hd).2.2.2.1
    · simp only [hs]; simp
  | neg D hD _ =>
    have hs := spanLen_digs hD hr
    obtain ⟨d, ds, rfl, hd⟩ := hD.cons
    unfold reSignedDigits
    simp only [List.cons_append] at hs ⊢
    simp only [hs]; simp; omega

theorem reExpOpt_exp {E r : List Char} (hE : ExpP E) (hr : NumFollow r) : reExpOpt (E ++ r) = E.length := by
  cases hE with
  | none =>
    cases r with
    | nil => rfl
    | cons c t =>
      obtain ⟨-, -, h1, h2⟩ := hr c t rfl
      simp [reExpOpt, h1, h2]
  | some e S D he hS hD =>
    have hs := spanLen_digs hD hr.noDig
    obtain ⟨d, ds, rfl, hd⟩ := hD.cons
    have h1 := (digit_ne hd).2.2.2.1
    have h2 := (digit_ne hd).2.2.2.2.2
    have he' : (e = 'e' || e = 'E') = true := by simpa using he
    rcases hS with rfl | rfl | rfl
    · simp only [reExpOpt, List.cons_append, List.nil_append, he', if_true] at hs ⊢
      split
      · rename_i heq; simp only [List.cons.injEq] at heq; exact absurd heq.1 h2
      · rename_i heq; simp only [List.cons.injEq] at heq; exact absurd heq.1 h1
      · simp only [hs]; simp; omega
    · simp only [reExpOpt, List.cons_append, List.nil_append, he', if_true] at hs ⊢
      simp only [hs]; simp; omega
    · simp only [reExpOpt, List.cons_append, List.nil_append, he', if_true] at hs ⊢
      simp only [hs]; simp; omega

/-- `RE_FLOAT`'s first alternative after the `-?[0-9]+` of length `n` -/
def alt1Rest (n : Nat) (rest : List Char) : Option Nat :=
  match rest with
  | '.' :: r2 =>
    if spanLen isDigit r2 = 0 then none
    else some (0 + n + 1 + spanLen isDigit r2 + reExpOpt (r2.drop (spanLen isDigit r2)))
  | _ => none

/-- `RE_FLOAT`'s second alternative after the `-?[0-9]+` of length `n` -/
def alt2Rest (n : Nat) (rest : List Char) : Option Nat :=
  match rest with
  | e :: '-' :: r =>
    if e = 'e' || e = 'E' then
      if spanLen isDigit r = 0 then none else some (n + 2 + spanLen isDigit r)
    else none
  | _ => none

/-- `RE_INT` after the `-?[0-9]+` of length `n` -/
def intRest (n : Nat) (rest : List Char) : Option Nat :=
  match rest with
  | e :: r =>
    if e = 'e' || e = 'E' then
      let (plus, r') := match r with
        | '+' :: r' => (1, r')
        | _ => (0, r)
      let d := spanLen isDigit r'
      if d = 0 then some n else some (n + 1 + plus + d)
    else some n
  | [] => some n

theorem reFloatAlt1_int {M rest : List Char} (hM : IntP M) (hr : NoDig rest) :
    reFloatAlt1 (M ++ rest) = alt1Rest M.length rest := by
  unfold reFloatAlt1 alt1Rest
  split
  · rename_i t heq; exact absurd heq hM.not_colon
  · simp only [reSignedDigits_int hM hr, List.drop_left]
    rfl

theorem reFloatAlt2_int {M rest : List Char} (hM : IntP M) (hr : NoDig rest) :
    reFloatAlt2 (M ++ rest) = alt2Rest M.length rest := by
  unfold reFloatAlt2 alt2Rest
  simp only [reSignedDigits_int hM hr, List.drop_left]
  rfl

theorem reInt_int {M rest : List Char} (hM : IntP M) (hr : NoDig rest) :
    reInt (M ++ rest) = intRest M.length rest := by
  unfold reInt intRest
  simp only [reSignedDigits_int hM hr, List.drop_left]
  rfl

theorem Digs.length_ne {D : List Char} (h : Digs D) : D.length ≠ 0 := by
  obtain ⟨d, ds, rfl, -⟩ := h.cons; simp

theorem alt1Rest_frac {n : Nat} {D E r : List Char} (hD : Digs D) (hE : ExpP E) (hr : NumFollow r) :
    alt1Rest n ('.' :: D ++ (E ++ r)) = some (n + 1 + D.length + E.length) := by
  have hs := spanLen_digs hD (hE.noDig hr.noDig)
  unfold alt1Rest
  simp only [List.cons_append, hs, hD.length_ne, if_false, List.drop_left, reExpOpt_exp hE hr]
  simp

theorem alt1Rest_none {n : Nat} {rest : List Char} (h : ∀ t, rest ≠ '.' :: t) : alt1Rest n rest = none := by
  unfold alt1Rest
  split
  · rename_i t; exact absurd rfl (h t)
  · rfl

theorem alt2Rest_neg {n : Nat} {e : Char} {D r : List Char} (he : e = 'e' ∨ e = 'E') (hD : Digs D) (hr : NoDig r) :
    alt2Rest n (e :: '-' :: D ++ r) = some (n + 2 + D.length) := by
  have hs := spanLen_digs hD hr
  have he' : (e = 'e' || e = 'E') = true := by simpa using he
  unfold alt2Rest
  simp only [List.cons_append, hs, hD.length_ne, if_false, he', if_true]

theorem alt2Rest_none {n : Nat} {rest : List Char}
    (h : ∀ e t, rest = e :: '-' :: t → (e = 'e' || e = 'E') = false) : alt2Rest n rest = none := by
  unfold alt2Rest
  split
  · rename_i e t; simp [h e t rfl]
  · rfl

theorem intRest_follow {n : Nat} {r : List Char} (hr : NumFollow r) : intRest n r = some n := by
  unfold intRest
  cases r with
  | nil => rfl
  | cons c t =>
    obtain ⟨-, -, h1, h2⟩ := hr c t rfl
    simp [h1, h2]

theorem intRest_exp {n : Nat} {e : Char} {S D r : List Char} (he : e = 'e' ∨ e = 'E') (hS : S = [] ∨ S = ['+'])
    (hD : Digs D) (hr : NoDig r) : intRest n (e :: (S ++ D) ++ r) = some (n + 1 + S.length + D.length) := by
  have hs := spanLen_digs hD hr
  have he' : (e = 'e' || e = 'E') = true := by simpa using he
  have hn := hD.length_ne
  obtain ⟨d, ds, rfl, hd⟩ := hD.cons
  have h2 := (digit_ne hd).2.2.2.2.2
  unfold intRest
  rcases hS with rfl | rfl
  · simp only [List.cons_append, List.nil_append, he', if_true] at hs ⊢
    split
    · rename_i heq; simp only [List.cons.injEq] at heq; exact absurd heq.1 h2
    · simp only [hs]; simp
  · simp only [List.cons_append, List.nil_append, he', if_true] at hs ⊢
    simp only [hs]; simp

/-! ### the value: `Spec.numberValue` against the parser's handlers -/

/-- `numberValue`'s test for a float spelling -/
def isFloatSp (sp : Str) : Bool :=
  sp.contains '.' ||
    (match sp.dropWhile (fun c => !(c = 'e' || c = 'E')) with
     | _ :: '-' :: _ => true
     | _ => false)

theorem numberValue_eq (sp : Str) :
    Spec.numberValue sp = if isFloatSp sp then Py.floatOfText sp else numOfIntTok sp := rfl

theorem IntP.chars {M : List Char} (h : IntP M) : ∀ c ∈ M, c ≠ '.' ∧ c ≠ 'e' ∧ c ≠ 'E' := by
  have hd : ∀ D, Digs D → ∀ c ∈ D, c ≠ '.' ∧ c ≠ 'e' ∧ c ≠ 'E' := fun D hD c hc =>
    ⟨(digit_ne (hD.2 c hc)).1, (digit_ne (hD.2 c hc)).2.1, (digit_ne (hD.2 c hc)).2.2.1⟩
  cases h with
  | pos D hD _ => exact hd _ hD
  | neg D hD _ =>
    intro c hc
    rcases List.mem_cons.mp hc with rfl | hc
    · decide
    · exact hd _ hD c hc

theorem IntP.notE {M : List Char} (h : IntP M) : ∀ c ∈ M, (!(c = 'e' || c = 'E')) = true := by
  intro c hc
  obtain ⟨-, h1, h2⟩ := h.chars c hc
  simp [h1, h2]

theorem isFloatSp_frac (M D E : List Char) : isFloatSp (M ++ '.' :: D ++ E) = true := by
  simp [isFloatSp]

theorem isFloatSp_neg {M D : List Char} {e : Char} (hM : IntP M) (he : e = 'e' ∨ e = 'E') :
    isFloatSp (M ++ e :: '-' :: D) = true := by
  have he' : (!(e = 'e' || e = 'E')) = false := by rcases he with rfl | rfl <;> decide
  unfold isFloatSp
  rw [List.dropWhile_append_of_pos hM.notE, List.dropWhile_cons_of_neg (by simpa using he')]
  simp

theorem isFloatSp_int {M : List Char} (hM : IntP M) : isFloatSp M = false := by
  unfold isFloatSp
  have h1 : M.contains '.' = false := by
    simp only [List.contains_eq_mem, decide_eq_false_iff_not]
    intro hc; exact (hM.chars _ hc).1 rfl
  have h2 : M.dropWhile (fun c => !(c = 'e' || c = 'E')) = [] := by
    have := List.dropWhile_append_of_pos (l₂ := []) hM.notE
    simpa using this
  rw [h1, h2]; rfl

theorem isFloatSp_exp {M S D : List Char} {e : Char} (hM : IntP M) (he : e = 'e' ∨ e = 'E')
    (hS : S = [] ∨ S = ['+']) (hD : Digs D) : isFloatSp (M ++ e :: (S ++ D)) = false := by
  have he' : (!(e = 'e' || e = 'E')) = false := by rcases he with rfl | rfl <;> decide
  have hn : ∀ c ∈ D, c ≠ '.' ∧ c ≠ '-' := fun c hc => ⟨(digit_ne (hD.2 c hc)).1, (digit_ne (hD.2 c hc)).2.2.2.1⟩
  unfold isFloatSp
  have h1 : (M ++ e :: (S ++ D)).contains '.' = false := by
    simp only [List.contains_eq_mem, decide_eq_false_iff_not, List.mem_append, List.mem_cons]
    rintro (hc | rfl | hc | hc)
    · exact (hM.chars _ hc).1 rfl
    · rcases he with h | h <;> exact absurd h (by decide)
    · rcases hS with rfl | rfl <;> simp at hc
    · exact (hn _ hc).1 rfl
  rw [h1, List.dropWhile_append_of_pos hM.notE, List.dropWhile_cons_of_neg (by simpa using he')]
  obtain ⟨d, ds, rfl, hd⟩ := hD.cons
  have := (hn d (by simp)).2
  rcases hS with rfl | rfl
  · simp [this]
  · simp

theorem takeWhile_stop {p : Char → Bool} {D X : List Char} (hD : ∀ c ∈ D, p c = true)
    (hX : X = [] ∨ ∃ c t, X = c :: t ∧ p c = false) : (D ++ X).takeWhile p = D := by
  rw [List.takeWhile_append_of_pos hD]
  rcases hX with rfl | ⟨c, t, rfl, hc⟩
  · simp
  · simp [List.takeWhile, hc]

theorem hasLeadingZero_nonneg {s : List Char} (h : ∀ r, s ≠ '-' :: r) :
    hasLeadingZero s =
      (decide ((s.takeWhile (fun c => !(c = '.' || c = 'e' || c = 'E'))).length > 1) &&
        decide ((s.takeWhile (fun c => !(c = '.' || c = 'e' || c = 'E'))).head? = some '0')) := by
  unfold hasLeadingZero
  split
  · rename_i r; exact absurd rfl (h r)
  · rfl

theorem hasLeadingZero_int {M X : List Char} (hM : IntP M)
    (hX : X = [] ∨ ∃ c t, X = c :: t ∧ (c = '.' ∨ c = 'e' ∨ c = 'E')) : hasLeadingZero (M ++ X) = false := by
  have hX' : X = [] ∨ ∃ c t, X = c :: t ∧ (fun c => !(c = '.' || c = 'e' || c = 'E')) c = false := by
    rcases hX with h | ⟨c, t, h, hc⟩
    · exact .inl h
    · exact .inr ⟨c, t, h, by rcases hc with rfl | rfl | rfl <;> decide⟩
  have hd : ∀ D, Digs D → ∀ c ∈ D, (fun c => !(c = '.' || c = 'e' || c = 'E')) c = true := by
    intro D hD c hc
    obtain ⟨h1, h2, h3, -⟩ := digit_ne (hD.2 c hc)
    simp [h1, h2, h3]
  have key : ∀ D, Digs D → (D.head? = some '0' → D.length = 1) →
      (decide (((D ++ X).takeWhile (fun c => !(c = '.' || c = 'e' || c = 'E'))).length > 1) &&
        decide (((D ++ X).takeWhile (fun c => !(c = '.' || c = 'e' || c = 'E'))).head? = some '0')) = false := by
    intro D hD h0
    rw [takeWhile_stop (hd D hD) hX']
    by_cases h : D.head? = some '0'
    · simp [h0 h]
    · simp [h]
  cases hM with
  | pos D hD h0 =>
    obtain ⟨d, ds, rfl, hdd⟩ := hD.cons
    rw [hasLeadingZero_nonneg]
    · exact key _ hD h0
    · intro r heq; simp only [List.cons_append, List.cons.injEq] at heq
      exact absurd heq.1 (digit_ne hdd).2.2.2.1
  | neg D hD h0 =>
    unfold hasLeadingZero
    simp only [List.cons_append]
    exact key _ hD h0

theorem IntP.head {M : List Char} (h : IntP M) : ∃ c t, M = c :: t ∧ (c = '-' ∨ isDigit c = true) := by
  cases h with
  | pos D hD _ => obtain ⟨d, ds, rfl, hd⟩ := hD.cons; exact ⟨d, ds, rfl, .inr hd⟩
  | neg D _ _ => exact ⟨'-', _, rfl, .inl rfl⟩

/-! ### the number token -/

/-- A legal number spelling followed by something that cannot continue a number is matched exactly by the lexer's
`RE_FLOAT` (if it has a fraction or a negative exponent) or else by `RE_INT`, and the token is a literal token for
the grammar's value. -/
theorem number_token {inp sp r : List Char} {x : Num}
    (h : Spec.numberSpelling inp = some (sp, r)) (hv : Spec.numberValue sp = some x) (hf : NumFollow r) :
    inp = sp ++ r ∧ (∃ c t, sp = c :: t ∧ (c = '-' ∨ Impl.isDigit c = true)) ∧
    ((Impl.reFloat inp = some sp.length ∧ ∀ k, LitTok ⟨.float, sp, k⟩ (.num x)) ∨
     (Impl.reFloat inp = none ∧ Impl.reInt inp = some sp.length ∧ ∀ k, LitTok ⟨.int, sp, k⟩ (.num x))) := by
  obtain ⟨e0, M, F, E, e1, hM, hF, hE⟩ := numberSpelling_parts h
  have hX : F ++ E = [] ∨ ∃ c t, F ++ E = c :: t ∧ (c = '.' ∨ c = 'e' ∨ c = 'E') := by
    cases hF with
    | some D _ => exact .inr ⟨'.', _, rfl, .inl rfl⟩
    | none =>
      cases hE with
      | none => exact .inl rfl
      | some e S D he _ _ => exact .inr ⟨e, _, rfl, .inr he⟩
  have hlz : hasLeadingZero sp = false := by
    rw [e1, List.append_assoc]; exact hasLeadingZero_int hM hX
  have hnd : NoDig (F ++ (E ++ r)) := hF.noDig (hE.noDig hf.noDig)
  have hinp : inp = M ++ (F ++ (E ++ r)) := by rw [e0, e1]; simp
  have hhead : ∃ c t, sp = c :: t ∧ (c = '-' ∨ Impl.isDigit c = true) := by
    obtain ⟨c, t, rfl, hc⟩ := hM.head
    exact ⟨c, t ++ F ++ E, by rw [e1]; simp, hc⟩
  have ha1 := reFloatAlt1_int hM hnd
  have ha2 := reFloatAlt2_int hM hnd
  have hint := reInt_int hM hnd
  rw [← hinp] at ha1 ha2 hint
  rw [numberValue_eq] at hv
  refine ⟨e0, hhead, ?_⟩
  cases hF with
  | some D hD =>
    left
    rw [e1, isFloatSp_frac, if_pos rfl, ← e1] at hv
    refine ⟨?_, fun k => .float sp k x hlz hv⟩
    rw [alt1Rest_frac hD hE hf] at ha1
    rw [reFloat, ha1, e1]
    simp; omega
  | none =>
    simp only [List.nil_append, List.append_nil] at ha1 ha2 hint e1
    cases hE with
    | none =>
      right
      simp only [List.nil_append, List.append_nil] at ha1 ha2 hint e1
      subst e1
      rw [isFloatSp_int hM] at hv
      rw [alt1Rest_none (fun t e => (hf _ _ e).2.1 rfl)] at ha1
      rw [alt2Rest_none (fun e t he => by
        obtain ⟨-, -, h1, h2⟩ := hf _ _ he; simp [h1, h2])] at ha2
      rw [intRest_follow hf] at hint
      refine ⟨by rw [reFloat, ha1, ha2]; rfl, hint, fun k => .int sp k x hlz hv⟩
    | some e S D he hS hD =>
      have hne : ∀ t, e :: (S ++ D) ++ r ≠ '.' :: t := by
        intro t heq; simp only [List.cons_append, List.cons.injEq] at heq
        rcases he with rfl | rfl <;> exact absurd heq.1 (by decide)
      rw [alt1Rest_none hne] at ha1
      rcases hS with rfl | rfl | rfl
      · right
        rw [e1, isFloatSp_exp hM he (.inl rfl) hD, ← e1] at hv
        rw [alt2Rest_none (by
          obtain ⟨d, ds, rfl, hd⟩ := hD.cons
          intro e' t heq; simp only [List.cons_append, List.nil_append, List.cons.injEq] at heq
          exact absurd heq.2.1 (digit_ne hd).2.2.2.1)] at ha2
        rw [intRest_exp he (.inl rfl) hD hf.noDig] at hint
        refine ⟨by rw [reFloat, ha1, ha2]; rfl, ?_, fun k => .int sp k x hlz hv⟩
        rw [hint, e1]; simp; omega
      · right
        rw [e1, isFloatSp_exp hM he (.inr rfl) hD, ← e1] at hv
        rw [alt2Rest_none (by
          intro e' t heq; simp only [List.cons_append, List.nil_append, List.cons.injEq] at heq
          exact absurd heq.2.1 (by decide))] at ha2
        rw [intRest_exp he (.inr rfl) hD hf.noDig] at hint
        refine ⟨by rw [reFloat, ha1, ha2]; rfl, ?_, fun k => .int sp k x hlz hv⟩
        rw [hint, e1]; simp; omega
      · left
        simp only [List.cons_append, List.nil_append] at ha2 e1
        rw [e1, isFloatSp_neg hM he, if_pos rfl, ← e1] at hv
        refine ⟨?_, fun k => .float sp k x hlz hv⟩
        have := alt2Rest_neg (n := M.length) he hD hf.noDig
        simp only [List.cons_append] at this
        rw [this] at ha2
        rw [reFloat, ha1, ha2, e1]
        simp; omega

end JPV.Proofs.Cf
