import JPV.Props.Common
import JPV.Proofs.Compare
import JPV.Proofs.Slice
import JPV.Proofs.Visit
namespace JPV.Proofs
open JPV JPV.Props

theorem eval_correct : ∀ (env : Impl.Env) (reg : Spec.Registry) (q : Query) (v : Json),
    EnvConforms env reg → Spec.wtQuery (sigsOf reg) q = true → v.WF →
    (v.depth : Int) ≤ env.maxDepth → 1 ≤ env.maxDepth →
    Impl.find env q v = .ok (Spec.select reg q v) := by sorry

theorem builtin_conforms : EnvConforms builtinEnv builtinReg := by sorry

theorem filter_scalar (env : Impl.Env) (root : Json) (e : Expr) (n : Node) (h : n.val.isContainer = false) :
    Impl.evalSel env root (.filter e) n = ([], none) := by sorry

theorem structural_correct : ∀ (env : Impl.Env) (reg : Spec.Registry) (q : Query) (v : Json),
    Spec.filterFree q = true → v.WF → (v.depth : Int) ≤ env.maxDepth → 1 ≤ env.maxDepth →
    Impl.find env q v = .ok (Spec.select reg q v) := by sorry

theorem structural_correct_child (env : Impl.Env) (reg : Spec.Registry) (q : Query) (v : Json)
    (hf : Spec.filterFree q = true)
    (hd : q.all (fun s => match s with | .child _ => true | .desc _ => false) = true)
    (hwf : v.WF) : Impl.find env q v = .ok (Spec.select reg q v) := by sorry

theorem child_concat (reg : Spec.Registry) (root : Json) (sels : List Selector) (ns : List Node) :
    Spec.selectSeg reg root (.child sels) ns =
      ns.flatMap (fun n => sels.flatMap (fun s => Spec.selectSel reg root s n)) := by sorry

theorem args_correct : ∀ (env : Impl.Env) (reg : Spec.Registry) (root cur : Json) (tys : List Ty) (args : List Expr),
    EnvConforms env reg → Spec.wtArgs (sigsOf reg) tys args = true →
    root.WF → cur.WF → (root.depth : Int) ≤ env.maxDepth → (cur.depth : Int) ≤ env.maxDepth →
    1 ≤ env.maxDepth →
    (Impl.evalArgs env root cur args).bind (Impl.unpack tys) =
      .ok ((Spec.argsOf reg root cur tys args).map argObj) := by sorry

theorem length_spec (v : Spec.Val) :
    Impl.lengthBody [valObj v] = .ok (argObj (Spec.lengthFn.sem [.value v])) ∧
    Spec.lengthFn.sem [.value v] = .value (match v with
      | some (.str s) => Spec.natVal s.length
      | some (.arr xs) => Spec.natVal xs.length
      | some (.obj kvs) => Spec.natVal kvs.length
      | _ => none) := by sorry

theorem count_spec (ns : List Node) :
    Impl.countBody [.nodes ns] = .ok (valObj (Spec.natVal ns.length)) := by sorry

theorem value_spec (ns : List Node) :
    Impl.valueBody [.nodes ns] = .ok (valObj (match ns with | [n] => some n.val | _ => none)) := by sorry

end JPV.Proofs
