import JPV.Proofs.Rq.LexPath
namespace JPV.Proofs.Rq
open JPV JPV.Impl

/-! ### the text of a normalized path and the tokens it lexes to -/

def nameBody (s : Str) : Str := s.flatMap Spec.normalChar

def segText : Key → Str
  | .name s => '[' :: '\'' :: (nameBody s ++ '\'' :: ']' :: [])
  | .idx i => '[' :: (Nat.toDigits 10 i.toNat ++ ']' :: [])

def keyKind : Key → TokKind
  | .name _ => .sqString
  | .idx _ => .index

def keyVal : Key → Str
  | .name s => nameBody s
  | .idx i => Nat.toDigits 10 i.toNat

/-- kind and value of a token (the offset does not matter to the parser's result) -/
def kv (t : Token) : TokKind × Str := (t.kind, t.value)

def keyKV (k : Key) : List (TokKind × Str) := [(.lbracket, ['[']), (keyKind k, keyVal k), (.rbracket, [']'])]

theorem path_text (loc : Loc) (h : ∀ k ∈ loc, ∀ i, k = Key.idx i → 0 ≤ i) :
    Impl.path loc = '$' :: loc.flatMap segText := by
  unfold Impl.path
  congr 1
  apply flatMap_congr'
  intro k hk
  cases k with
  | name s =>
    simp only [canonicalString_eq, Spec.normalName, segText, nameBody]
    simp
  | idx i =>
    have h0 := h _ hk i rfl
    simp only [Prn.reprInt_eq, if_pos h0, segText]
    simp

theorem lowerHex_plain : ∀ n < 16, Spec.lowerHex n ≠ '\\' ∧ Spec.lowerHex n ≠ '\'' := by decide

theorem scanned_normalChar (c : Char) : Scanned '\'' (Spec.normalChar c) := by
  unfold Spec.normalChar
  simp only
  repeat' split
  all_goals first
    | exact .esc _ _ (by decide) .nil
    | skip
  · rename_i h32
    have h1 := lowerHex_plain (c.toNat / 16) (by omega)
    have h2 := lowerHex_plain (c.toNat % 16) (by omega)
    exact .esc 'u' _ (by decide) (.plain _ _ (by decide) (by decide) (.plain _ _ (by decide) (by decide)
      (.plain _ _ h1.1 h1.2 (.plain _ _ h2.1 h2.2 .nil))))
  · rename_i hq hb _
    exact .plain _ _ hb hq .nil

theorem scanned_nameBody (s : Str) : Scanned '\'' (nameBody s) := by
  induction s with
  | nil => exact .nil
  | cons c s ih =>
    show Scanned '\'' (Spec.normalChar c ++ nameBody s)
    exact (scanned_normalChar c).append ih

theorem isDigit_toDigits (n : Nat) : ∀ c ∈ Nat.toDigits 10 n, isDigit c = true := by
  intro c hc
  have := Nat.isDigit_of_mem_toDigits (by omega) (by omega) hc
  rw [isDigit_iff]
  simpa [Char.isDigit, UInt32.le_iff_toNat_le] using this

/-- from the segment state with the remaining path text ahead, the lexer stops having emitted
the three tokens of every key and the final EOF -/
theorem lex_segs (ks : Loc) : ∀ (l : Lexer) (pre : List Char) (toks : List Token),
    St l pre [] (ks.flatMap segText) toks [] →
    ∃ lf, Halts .segment l lf ∧ lf.brackets = [] ∧
      lf.toks.map kv = (.eof, []) :: ((ks.flatMap keyKV).reverse ++ toks.map kv) := by
  induction ks with
  | nil =>
    intro l pre toks h
    have s1 := lexSegment_eof h
    have hp : l.peek = none := by rw [h.peek]; rfl
    rw [Lexer.adv_none hp] at s1
    have h1 := h.emit .eof
    exact ⟨_, .stop s1, h1.br, by rw [h1.toks]; simp [kv]⟩
  | cons k ks ih =>
    intro l pre toks h
    rw [List.flatMap_cons] at h
    cases k with
    | name s =>
      simp only [segText, List.cons_append, List.append_assoc, List.nil_append] at h
      obtain ⟨l', pre', i1, i2, i3, hr, h'⟩ := seg_name (scanned_nameBody s) h
      obtain ⟨lf, hh, hb, ht⟩ := ih l' pre' _ h'
      refine ⟨lf, hr.halts hh, hb, ?_⟩
      rw [ht]
      simp [keyKV, keyKind, keyVal, kv]
    | idx i =>
      obtain ⟨d, ds, e⟩ : ∃ d ds, Nat.toDigits 10 i.toNat = d :: ds := by
        cases hd : Nat.toDigits 10 i.toNat with
        | nil => exact absurd hd Nat.toDigits_ne_nil
        | cons d ds => exact ⟨d, ds, rfl⟩
      have hdig := isDigit_toDigits i.toNat
      simp only [segText, e, List.cons_append, List.append_assoc, List.nil_append] at h hdig
      obtain ⟨l', pre', i1, i2, i3, hr, h'⟩ := seg_index d ds hdig h
      obtain ⟨lf, hh, hb, ht⟩ := ih l' pre' _ h'
      refine ⟨lf, hr.halts hh, hb, ?_⟩
      rw [ht]
      simp [keyKV, keyKind, keyVal, kv, e]


/-- the kinds and values of the tokens of a normalized path -/
def pathKV (loc : Loc) : List (TokKind × Str) := (.root, ['$']) :: (loc.flatMap keyKV ++ [(.eof, [])])

theorem tokenize_path (loc : Loc) (h : ∀ k ∈ loc, ∀ i, k = Key.idx i → 0 ≤ i) :
    ∃ toks, tokenize (Impl.path loc) = .ok toks ∧ toks.map kv = pathKV loc := by
  rw [path_text loc h]
  generalize hs : ('$' :: loc.flatMap segText : Str) = s
  have h0 : St ({ q := s.toArray } : Lexer) [] [] ('$' :: loc.flatMap segText) [] [] :=
    ⟨by simp [hs], rfl, rfl, rfl, rfl, rfl⟩
  have s1 := lexRoot_exec h0
  have h1 := h0.adv.emit .root
  obtain ⟨lf, hh, hb, ht⟩ := lex_segs loc _ _ _ h1
  have hrun := run_of_halts (n := s.length) (.step s1 hh) (lexFuel s.length) (Lexer.Inv.init s)
    (by simp [pot, rank, lexFuel])
  refine ⟨lf.toks.reverse, ?_, ?_⟩
  · unfold tokenize
    simp only [hrun, bind, Except.bind, hb]
    cases hl : lf.toks with
    | nil => rw [hl] at ht; simp at ht
    | cons t ts =>
      rw [hl] at ht
      simp only [List.map_cons, List.cons.injEq] at ht
      have hk : t.kind = .eof := congrArg Prod.fst ht.1
      simp [hk, pure, Except.pure]
  · rw [List.map_reverse, ht]
    simp [pathKV, kv]

end JPV.Proofs.Rq
