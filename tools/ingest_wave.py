#!/venv/bin/python
"""ingest_wave.py <worktree prefix, e.g. /tmp/w5_>: copy every <prefix>Cxx/_seeded/{patch.diff,demo.py,meta.json} into
/verif/seeded/<Cxx>-<slug>/ (slug from the summary), print the names (skips the ones already ingested)."""
import glob, json, os, re, shutil, sys

VERIF = os.path.dirname(os.path.dirname(os.path.abspath(__file__)))
prefix = sys.argv[1]
have = {}
for d in os.listdir(os.path.join(VERIF, "seeded")):
    try:
        have[open(os.path.join(VERIF, "seeded", d, "patch.diff")).read()] = d
    except OSError:
        pass
for wt in sorted(glob.glob(prefix + "C*")):
    sd = os.path.join(wt, "_seeded")
    if not os.path.exists(os.path.join(sd, "meta.json")):
        continue
    patch = open(os.path.join(sd, "patch.diff")).read()
    if patch in have:
        continue
    meta = json.load(open(os.path.join(sd, "meta.json")))
    words = re.findall(r"[a-z0-9]+", meta.get("summary", "").lower())
    stop = {"the", "a", "an", "in", "of", "to", "is", "now", "and", "for", "with", "on", "its", "it", "that", "was", "by", "as"}
    slug = "-".join([w for w in words if w not in stop][:6]) or "change"
    name = f"{meta.get('property', os.path.basename(wt)[-3:])}-{slug}"[:70]
    dst = os.path.join(VERIF, "seeded", name)
    os.makedirs(dst, exist_ok=True)
    for f in ("patch.diff", "demo.py", "meta.json"):
        shutil.copy(os.path.join(sd, f), dst)
    print(name)
