/-
`Impl.Api` — the public entry points (environment.py, query.py, __init__.py):
what each of them computes in terms of `compile` and `finditer`, and `Impl.World`,
the state a history of API calls can touch: environments (each with its own
function registry, limits and mode) and compiled queries (each bound to the
environment that compiled it, whose registry is consulted *at evaluation time*).
-/
import JPV.Impl.Parse
namespace JPV.Impl

/-- outcome of an API call: a value, or the exception class it raises -/
abbrev Outcome (α : Type) := Except ErrKind α

/-- `JSONPathQuery.finditer` is lazy: the call itself never raises -/
def Api.queryFinditer (env : Env) (q : Query) (v : Json) : Stream := finditer env q v
/-- `JSONPathQuery.find` / `apply` -/
def Api.queryFind (env : Env) (q : Query) (v : Json) : Outcome (List Node) := (finditer env q v).toList
/-- `JSONPathQuery.find_one` -/
def Api.queryFindOne (env : Env) (q : Query) (v : Json) : Outcome (Option Node) := findOne env q v

/-- `JSONPathEnvironment.finditer(query, value)` = `self.compile(query).finditer(value)`:
compile errors are raised by the call, evaluation errors by the iteration -/
def Api.envFinditer (env : Env) (s : Str) (v : Json) : Outcome Stream :=
  match compile env s with
  | .error e => .error e.kind
  | .ok q => .ok (finditer env q v)
def Api.envFind (env : Env) (s : Str) (v : Json) : Outcome (List Node) :=
  match compile env s with
  | .error e => .error e.kind
  | .ok q => Api.queryFind env q v
def Api.envFindOne (env : Env) (s : Str) (v : Json) : Outcome (Option Node) :=
  match compile env s with
  | .error e => .error e.kind
  | .ok q => Api.queryFindOne env q v

/-! ### histories -/

abbrev EnvId := Nat
abbrev QueryId := Nat

structure World where
  /-- environment id ↦ its current configuration and registry; id 0 is `DEFAULT_ENV` -/
  envs : List (EnvId × Env)
  /-- compiled query id ↦ (environment it is bound to, AST) -/
  queries : List (QueryId × EnvId × Query)

def World.env (w : World) (e : EnvId) : Option Env := (w.envs.find? (·.1 = e)).map (·.2)
def World.query (w : World) (q : QueryId) : Option (EnvId × Query) := (w.queries.find? (·.1 = q)).map (·.2)

inductive Op where
  /-- `env.compile(text)`; the result gets the next query id -/
  | compile (e : EnvId) (s : Str)
  /-- `compiled.find(value)` -/
  | apply (q : QueryId) (v : Json)
  /-- `env.find(text, value)` (module-level functions are `DEFAULT_ENV`'s methods: `e = 0`) -/
  | envFind (e : EnvId) (s : Str) (v : Json)
  /-- `env.function_extensions[name] = f` -/
  | register (e : EnvId) (name : Str) (f : Func)
  /-- a new environment (possibly of a subclass with other class attributes), built-ins registered -/
  | newEnv (cfg : Env)
  /-- `env.max_recursion_depth = maxDepth; env.min_int_index = minIdx; env.max_int_index = maxIdx`:
  the limits are plain attributes that user code may change at any time; the registry and
  the mode are untouched.  Every later compile / evaluation on `e` reads the NEW values
  (also for queries compiled before the change: nothing is cached). -/
  | configure (e : EnvId) (maxDepth minIdx maxIdx : Int)

inductive Out where
  | compiled (q : QueryId)
  | nodes (ns : List Node)
  | raised (k : ErrKind)
  | unit
  | noSuch

/-- how a step reports the outcome of a `find` -/
def Out.ofOutcome : Outcome (List Node) → Out
  | .ok ns => .nodes ns
  | .error k => .raised k

def setEnv (envs : List (EnvId × Env)) (e : EnvId) (x : Env) : List (EnvId × Env) :=
  envs.map (fun p => if p.1 = e then (e, x) else p)

def World.step (w : World) : Op → World × Out
  | .compile e s =>
    match w.env e with
    | none => (w, .noSuch)
    | some env =>
      match Impl.compile env s with
      | .error err => (w, .raised err.kind)
      | .ok ast => ({ w with queries := w.queries ++ [(w.queries.length, e, ast)] }, .compiled w.queries.length)
  | .apply q v =>
    match w.query q with
    | none => (w, .noSuch)
    | some (e, ast) =>
      match w.env e with
      | none => (w, .noSuch)
      | some env =>
        match Api.queryFind env ast v with
        | .ok ns => (w, .nodes ns)
        | .error k => (w, .raised k)
  | .envFind e s v =>
    match w.env e with
    | none => (w, .noSuch)
    | some env =>
      match Api.envFind env s v with
      | .ok ns => (w, .nodes ns)
      | .error k => (w, .raised k)
  | .register e name f =>
    match w.env e with
    | none => (w, .noSuch)
    | some env =>
      ({ w with envs := setEnv w.envs e { env with funcs := (name, f) :: env.funcs.filter (·.1 ≠ name) } }, .unit)
  | .newEnv cfg => ({ w with envs := w.envs ++ [(w.envs.length, cfg)] }, .unit)
  | .configure e md lo hi =>
    match w.env e with
    | none => (w, .noSuch)
    | some env =>
      ({ w with envs := setEnv w.envs e { env with maxDepth := md, minIdx := lo, maxIdx := hi } }, .unit)

def World.run (w : World) : List Op → World
  | [] => w
  | op :: ops => World.run (World.step w op).1 ops

end JPV.Impl

namespace JPV.Impl

/-- what one `next()` call on a result iterator produces -/
inductive NextOut where
  | item (n : Node)
  | stop
  | raise (e : ErrKind)

/-- ids are positions: environment `i` is the `i`-th created, query `j` the `j`-th compiled -/
def World.WF (w : World) : Prop :=
  w.envs.map (·.1) = List.range w.envs.length ∧
  w.queries.map (·.1) = List.range w.queries.length ∧
  ∀ x ∈ w.queries, x.2.1 < w.envs.length

/-- what `next()` on an iterator over stream `s` at position `pos` returns -/
def nextOut (s : Stream) (pos : Nat) : NextOut :=
  match s.1[pos]? with
  | some n => .item n
  | none => match s.2 with
    | some e => if pos = s.1.length then .raise e else .stop
    | none => .stop

/-- run a schedule (a list of iterator numbers) over cursors; returns the log of (iterator, output) -/
def runSchedule (streams : List Stream) : List Nat → List Nat → List (Nat × NextOut)
  | _, [] => []
  | cursors, i :: rest =>
    match streams[i]?, cursors[i]? with
    | some s, some pos => (i, nextOut s pos) :: runSchedule streams (cursors.set i (pos + 1)) rest
    | _, _ => runSchedule streams cursors rest

/-- the outputs iterator `i` produces when it runs alone for `k` steps -/
def solitary (s : Stream) (k : Nat) : List NextOut := (List.range k).map (nextOut s)

end JPV.Impl
