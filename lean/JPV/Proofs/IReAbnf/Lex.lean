/-
Helper lemmas for `IRegexpAbnfEquiv`: the non-recursive lexical pieces of the recogniser
(`catEsc`, `ccChar`, `quantifier`) against their declarative counterparts.
-/
import JPV.Spec.IRegexpAbnf
namespace JPV.Proofs.IReAbnf
open JPV JPV.Spec JPV.Spec.IRe JPV.Spec.IReAbnf

/-! ### takeWhile / drop -/

theorem takeWhile_split {α} (p : α → Bool) : ∀ (l : List α) (d : α) (rest : List α),
    l.drop (l.takeWhile p).length = d :: rest →
    l = l.takeWhile p ++ d :: rest ∧ p d = false ∧ ∀ c ∈ l.takeWhile p, p c = true := by
  intro l
  induction l with
  | nil => intro d rest h; simp at h
  | cons a l ih =>
    intro d rest h
    by_cases hp : p a = true
    · simp only [List.takeWhile_cons, hp, if_true, List.length_cons, List.drop_succ_cons] at h ⊢
      obtain ⟨h1, h2, h3⟩ := ih d rest h
      refine ⟨?_, h2, ?_⟩
      · rw [List.cons_append, ← h1]
      · intro c hc
        cases hc with
        | head => exact hp
        | tail _ hc => exact h3 c hc
    · have hp' : p a = false := by simpa using hp
      simp only [List.takeWhile_cons, hp'] at h ⊢
      simp only [Bool.false_eq_true, if_false, List.length_nil, List.drop_zero] at h
      injection h with h1 h2
      subst h1 h2
      simp [hp']

theorem takeWhile_append_stop {α} (p : α → Bool) (a : List α) (d : α) (rest : List α)
    (ha : ∀ c ∈ a, p c = true) (hd : p d = false) :
    (a ++ d :: rest).takeWhile p = a := by
  induction a with
  | nil => simp [hd]
  | cons x a ih =>
    have hx : p x = true := ha x (List.mem_cons_self ..)
    simp only [List.cons_append, List.takeWhile_cons, hx, if_true]
    rw [ih (fun c hc => ha c (List.mem_cons_of_mem _ hc))]

theorem drop_length_append {α} (a b : List α) : (a ++ b).drop a.length = b := by
  simp

/-! ### catEsc -/

theorem validProp_no_brace {p : Str} (hv : validProp p = true) :
    ∀ c ∈ p, (fun x : Char => decide (x ≠ '}')) c = true := by
  intro c hc
  show decide (c ≠ '}') = true
  simp only [decide_eq_true_eq]
  intro heq
  subst heq
  unfold validProp at hv
  split at hv
  · simp at hc; subst hc; simp at hv
  · simp at hc; rcases hc with rfl | rfl <;> simp at hv
  · simp at hv

theorem catEsc_sound {inp : List Char} {neg : Bool} {p : Str} {rest : List Char}
    (h : catEsc inp = some ((neg, p), rest)) : ∃ s, inp = s ++ rest ∧ CharClassEsc s neg p := by
  unfold catEsc at h
  split at h
  · rename_i k r
    split at h
    · rename_i hk
      simp only at h
      split at h
      · rename_i r2 hd
        split at h
        · rename_i hv
          injection h with h
          injection h with h1 h3
          injection h1 with h1 h2
          obtain ⟨e1, _, _⟩ := takeWhile_split _ _ _ _ hd
          subst h2 h3
          have hk' : k = 'p' ∨ k = 'P' := by simpa using hk
          rcases hk' with rfl | rfl
          · have : neg = false := by rw [← h1]; decide
            subst this
            refine ⟨_, ?_, CharClassEsc.cat hv⟩
            simp only [List.cons_append, List.append_assoc, List.nil_append]
            rw [← e1]
          · have : neg = true := by rw [← h1]; decide
            subst this
            refine ⟨_, ?_, CharClassEsc.compl hv⟩
            simp only [List.cons_append, List.append_assoc, List.nil_append]
            rw [← e1]
        · simp at h
      · simp at h
    · simp at h
  · simp at h

theorem catEsc_complete {s : List Char} {neg : Bool} {p : Str} (h : CharClassEsc s neg p) (rest : List Char) :
    catEsc (s ++ rest) = some ((neg, p), rest) := by
  cases h with
  | cat hp =>
    have hp' : validProp p = true := hp
    have e := takeWhile_append_stop (fun x : Char => decide (x ≠ '}')) p '}' rest (validProp_no_brace hp') (by decide)
    simp only [ne_eq, decide_not] at e
    simp only [List.cons_append, List.append_assoc, catEsc]
    simp [e, hp']
  | compl hp =>
    have hp' : validProp p = true := hp
    have e := takeWhile_append_stop (fun x : Char => decide (x ≠ '}')) p '}' rest (validProp_no_brace hp') (by decide)
    simp only [ne_eq, decide_not] at e
    simp only [List.cons_append, List.append_assoc, catEsc]
    simp [e, hp']

theorem catEsc_head {c : Char} {r : List Char} {x} (h : catEsc ('\\' :: c :: r) = some x) :
    c = 'p' ∨ c = 'P' := by
  unfold catEsc at h
  split at h
  · rename_i heq
    split at h
    · rename_i hk
      injection heq with _ heq
      injection heq with hc _
      subst hc
      simpa using hk
    · simp at h
  · simp at h

theorem singleEsc_p : singleEsc 'p' = none := by decide
theorem singleEsc_P : singleEsc 'P' = none := by decide

theorem catEsc_none_of_singleEsc {c : Char} {n : Nat} (r : List Char) (h : singleEsc c = some n) :
    catEsc ('\\' :: c :: r) = none := by
  cases hx : catEsc ('\\' :: c :: r) with
  | none => rfl
  | some x =>
    rcases catEsc_head hx with rfl | rfl
    · rw [singleEsc_p] at h; cases h
    · rw [singleEsc_P] at h; cases h

/-! ### ccChar -/

theorem ccChar_sound {inp : List Char} {n : Nat} {rest : List Char}
    (h : ccChar inp = some (n, rest)) : ∃ s, inp = s ++ rest ∧ CCchar s n := by
  unfold ccChar at h
  split at h
  · rename_i c r
    cases hs : singleEsc c with
    | none => simp [hs] at h
    | some m =>
      simp [hs] at h
      obtain ⟨rfl, rfl⟩ := h
      exact ⟨['\\', c], rfl, CCchar.esc ⟨c, rfl, hs⟩⟩
  · rename_i c r _
    split at h
    · rename_i hc
      injection h with h
      injection h with h1 h2
      subst h1 h2
      exact ⟨[c], rfl, CCchar.raw hc⟩
    · simp at h
  · simp at h

theorem isCCchar_ne {c : Char} (h : isCCchar c = true) : c ≠ '\\' ∧ c ≠ ']' ∧ c ≠ '-' := by
  refine ⟨?_, ?_, ?_⟩ <;> (intro e; subst e; revert h; decide)

theorem CCchar_cases {s : List Char} {n : Nat} (h : CCchar s n) :
    (∃ c, s = [c] ∧ isCCchar c = true ∧ n = c.toNat) ∨ (∃ c, s = ['\\', c] ∧ singleEsc c = some n) := by
  cases h with
  | raw hc => exact Or.inl ⟨_, rfl, hc, rfl⟩
  | esc he => exact Or.inr he

theorem ccChar_complete {s : List Char} {n : Nat} (h : CCchar s n) (rest : List Char) :
    ccChar (s ++ rest) = some (n, rest) := by
  rcases CCchar_cases h with ⟨c, rfl, hc, rfl⟩ | ⟨c, rfl, hc⟩
  · have hne := (isCCchar_ne hc).1
    show ccChar (c :: rest) = _
    unfold ccChar
    split
    · rename_i heq; injection heq with h1 _; exact absurd h1 hne
    · rename_i heq; injection heq with h1 h2; subst h1 h2; simp [hc]
    · rename_i heq; cases heq
  · show ccChar ('\\' :: c :: rest) = _
    simp [ccChar, hc]

/-! ### quantifier -/

theorem quantExact_of_takeWhile {r : List Char}
    (hne : ¬(List.takeWhile (fun c => decide ('0' ≤ c) && decide (c ≤ '9')) r).isEmpty = true)
    (hall : ∀ c ∈ List.takeWhile (fun c => decide ('0' ≤ c) && decide (c ≤ '9')) r,
      (fun c => decide ('0' ≤ c) && decide (c ≤ '9')) c = true) :
    QuantExact (List.takeWhile (fun c => decide ('0' ≤ c) && decide (c ≤ '9')) r) := by
  refine ⟨?_, hall⟩
  intro e
  rw [e] at hne
  exact hne rfl

theorem quantifier_sound {inp : List Char} {lo : Nat} {hi : Option Nat} {rest : List Char}
    (h : quantifier inp = some ((lo, hi), rest)) (hle : ∀ k, hi = some k → lo ≤ k) :
    ∃ q, inp = q ++ rest ∧ Quantifier q lo hi := by
  unfold quantifier at h
  split at h
  · simp at h; obtain ⟨⟨rfl, rfl⟩, rfl⟩ := h; exact ⟨['*'], rfl, .star⟩
  · simp at h; obtain ⟨⟨rfl, rfl⟩, rfl⟩ := h; exact ⟨['+'], rfl, .plus⟩
  · simp at h; obtain ⟨⟨rfl, rfl⟩, rfl⟩ := h; exact ⟨['?'], rfl, .opt⟩
  · rename_i r
    simp only at h
    split at h
    · simp at h
    · rename_i hne
      split at h
      · rename_i r2 hd
        obtain ⟨e1, _, hall⟩ := takeWhile_split _ _ _ _ hd
        have hq := quantExact_of_takeWhile hne hall
        injection h with h
        injection h with h1 h3
        injection h1 with h1 h2
        subst h1 h2 h3
        refine ⟨_, ?_, Quantifier.exact hq⟩
        simp only [List.cons_append, List.append_assoc, List.nil_append]
        rw [← e1]
      · rename_i r2 hd
        obtain ⟨e1, _, hall⟩ := takeWhile_split _ _ _ _ hd
        have hq := quantExact_of_takeWhile hne hall
        split at h
        · rename_i r3 hd2
          obtain ⟨e2, _, hall2⟩ := takeWhile_split _ _ _ _ hd2
          split at h
          · rename_i hemp
            injection h with h
            injection h with h1 h3
            injection h1 with h1 h2
            subst h1 h2 h3
            have hb : List.takeWhile (fun c => decide ('0' ≤ c) && decide (c ≤ '9')) r2 = [] := by
              simpa using hemp
            rw [hb, List.nil_append] at e2
            refine ⟨_, ?_, Quantifier.atLeast hq⟩
            simp only [List.cons_append, List.append_assoc, List.nil_append]
            rw [← e2, ← e1] 
          · rename_i hemp
            have hq2 := quantExact_of_takeWhile hemp hall2
            injection h with h
            injection h with h1 h3
            injection h1 with h1 h2
            subst h1 h2 h3
            refine ⟨_, ?_, Quantifier.between hq hq2 (hle _ rfl)⟩
            simp only [List.cons_append, List.append_assoc, List.nil_append]
            rw [← e2, ← e1]
        · simp at h
      · simp at h
  · simp at h

theorem quantExact_stop {a : List Char} (ha : QuantExact a) (d : Char)
    (hd : (decide ('0' ≤ d) && decide (d ≤ '9')) = false) (rest : List Char) :
    List.takeWhile (fun c => decide ('0' ≤ c) && decide (c ≤ '9')) (a ++ d :: rest) = a :=
  takeWhile_append_stop _ a d rest ha.2 hd

theorem quantifier_complete {q : List Char} {lo : Nat} {hi : Option Nat} (h : Quantifier q lo hi)
    (rest : List Char) :
    quantifier (q ++ rest) = some ((lo, hi), rest) ∧ ∀ k, hi = some k → lo ≤ k := by
  cases h with
  | star => exact ⟨rfl, by intro k hk; cases hk⟩
  | plus => exact ⟨rfl, by intro k hk; cases hk⟩
  | opt => exact ⟨rfl, by intro k hk; cases hk; decide⟩
  | exact ha =>
    rename_i a
    refine ⟨?_, by intro k hk; cases hk; exact Nat.le_refl _⟩
    have e := quantExact_stop ha '}' (by decide) rest
    have hne : a.isEmpty = false := by
      cases a with
      | nil => exact absurd rfl ha.1
      | cons _ _ => rfl
    simp only [List.cons_append, List.append_assoc, List.nil_append, quantifier]
    rw [e]
    simp [hne]
  | atLeast ha =>
    rename_i a
    refine ⟨?_, by intro k hk; cases hk⟩
    have e := quantExact_stop ha ',' (by decide) ('}' :: rest)
    have hne : a.isEmpty = false := by
      cases a with
      | nil => exact absurd rfl ha.1
      | cons _ _ => rfl
    simp only [List.cons_append, List.append_assoc, List.nil_append, quantifier]
    rw [e]
    simp [hne]
  | between ha hb hle =>
    rename_i a b
    refine ⟨?_, by intro k hk; cases hk; exact hle⟩
    have e := quantExact_stop ha ',' (by decide) (b ++ '}' :: rest)
    have e2 := quantExact_stop hb '}' (by decide) rest
    have hne : a.isEmpty = false := by
      cases a with
      | nil => exact absurd rfl ha.1
      | cons _ _ => rfl
    have hne2 : b.isEmpty = false := by
      cases b with
      | nil => exact absurd rfl hb.1
      | cons _ _ => rfl
    simp only [List.cons_append, List.append_assoc, List.nil_append, quantifier]
    rw [e]
    simp [hne, hne2, e2]

/-- the text does not start with a quantifier character -/
def NoQuant (t : List Char) : Prop := ∀ c r, t = c :: r → c ≠ '*' ∧ c ≠ '+' ∧ c ≠ '?' ∧ c ≠ '{'

theorem quantifier_none {t : List Char} (h : NoQuant t) : quantifier t = none := by
  unfold quantifier
  split
  · exact absurd rfl (h _ _ rfl).1
  · exact absurd rfl (h _ _ rfl).2.1
  · exact absurd rfl (h _ _ rfl).2.2.1
  · exact absurd rfl (h _ _ rfl).2.2.2
  · rfl

end JPV.Proofs.IReAbnf
