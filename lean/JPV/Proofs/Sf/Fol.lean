/-
`Proofs.Sf.Fol` — follow sets: what the kind of the NEXT token says about the text at the current position
(the stop conditions of the grammar's loops).
-/
import JPV.Proofs.Sf.Cfg2
set_option linter.unusedSimpArgs false
set_option linter.unusedVariables false
namespace JPV.Proofs.Sf
open JPV JPV.Impl JPV.Proofs.Rq JPV.Proofs.Cs JPV.Proofs.Ss

variable {lf : Lexer} {d : Int} {br : List (Char × Nat)} {x rest : List Char} {out : List Token} {t : Token}

/-- kinds that may follow a term -/
def folT : TokKind → Bool
  | .eq | .ne | .lt | .le | .gt | .ge | .and | .or | .rparen | .comma | .rbracket => true
  | _ => false
/-- kinds that may follow a basic-expr -/
def folB : TokKind → Bool
  | .and | .or | .rparen | .comma | .rbracket => true
  | _ => false
/-- kinds that may follow a logical-and-expr -/
def folA : TokKind → Bool
  | .or | .rparen | .comma | .rbracket => true
  | _ => false
/-- kinds that may follow a logical-or-expr -/
def folO : TokKind → Bool
  | .rparen | .comma | .rbracket => true
  | _ => false

theorem folO_A {k : TokKind} (h : folO k = true) : folA k = true := by cases k <;> simp_all [folO, folA]
theorem folA_B {k : TokKind} (h : folA k = true) : folB k = true := by cases k <;> simp_all [folA, folB]
theorem folB_T {k : TokKind} (h : folB k = true) : folT k = true := by cases k <;> simp_all [folB, folT]

theorem folT_plainOr {k : TokKind} (h : folT k = true) :
    k ≠ .doubleDot ∧ k ≠ .wild ∧ k ≠ .property ∧ k ≠ .lbracket ∧ k ≠ .eof := by
  cases k <;> simp_all [folT]

/-- the next token (of a kind that can follow a term) as the pure model sees it -/
theorem FCfg.fol (hg : ¬ Bad lf) (h : FCfg lf d br x (t :: out)) (hk : folT t.kind = true) :
    ∃ rest, fTok x = some (t.kind, t.value, rest) := by
  obtain ⟨k1, k2, k3, -, -⟩ := folT_plainOr hk
  rcases h.next hg with ⟨_, hj | hj | hj⟩ | ⟨rest, hf, -⟩
  · exact absurd hj k1
  · exact absurd hj k2
  · exact absurd hj k3
  · exact ⟨rest, hf⟩

theorem fol_T {k : TokKind} {v rest : List Char} (h : fTok x = some (k, v, rest)) (hk : folT k = true) :
    FolC x := by
  obtain ⟨c, r, e, hc⟩ := fTok_cases h
  refine ⟨c, r, e, ?_⟩
  rcases hc with ⟨rfl, rfl, rfl⟩ | ⟨rfl, rfl, rfl⟩ | ⟨rfl, rfl, hsc⟩ | ⟨rfl, rfl, hsc⟩ | ⟨rfl, rfl, rfl⟩ |
    ⟨rfl, rfl, rfl⟩ | ⟨rfl, rfl, rfl⟩ | ⟨rfl, rfl, rfl⟩ | ⟨rfl, rfl, rfl⟩ | ⟨rfl, rfl, rfl, hne⟩ | ⟨rfl, rfl, rfl⟩ |
    ⟨rfl, rfl, rfl⟩ | ⟨rfl, rfl, rfl, hne⟩ | ⟨rfl, rfl, rfl⟩ | ⟨rfl, rfl, rfl, hne⟩ |
    ⟨c1, c2, c3, c4, c5, c6, c7, c8, c9, c10, c11, c12, c13, hd⟩
  all_goals try (simp [folT] at hk; done)
  all_goals try (simp; done)
  rcases fDefault_cases hd with ⟨rfl, hx⟩ | ⟨rfl, hx⟩ | ⟨rfl, hx⟩ | ⟨rfl, hx⟩ | ⟨rfl, hx⟩ |
    ⟨rfl, m, hfl, rfl, rfl⟩ | ⟨rfl, hfl, m, hin, rfl, rfl⟩ | ⟨rfl, ht, hf, hn, hfl, hin, m, hfn, rfl, hdr⟩
  all_goals try (simp [folT] at hk; done)
  all_goals (simp only [List.cons.injEq] at hx; rw [hx.1]; simp)

theorem fol_B {k : TokKind} {v rest : List Char} (h : fTok x = some (k, v, rest)) (hk : folB k = true) :
    Spec.comparisonOp (Spec.skipS x) = none := by
  cases k <;> simp [folB] at hk
  all_goals (rw [fTok_punct h rfl]; rfl)

theorem fol_A {k : TokKind} {v rest : List Char} (h : fTok x = some (k, v, rest)) (hk : folA k = true) :
    Spec.lit "&&" (Spec.skipS x) = none := by
  cases k <;> simp [folA] at hk
  all_goals (rw [fTok_punct h rfl]; rfl)

theorem fol_O {k : TokKind} {v rest : List Char} (h : fTok x = some (k, v, rest)) (hk : folO k = true) :
    Spec.lit "||" (Spec.skipS x) = none := by
  cases k <;> simp [folO] at hk
  all_goals (rw [fTok_punct h rfl]; rfl)

theorem FolC.noSeg (h : FolC x) : ∀ c t, Spec.skipS x = c :: t → c ≠ '.' ∧ c ≠ '[' := by
  intro c t e
  obtain ⟨c', t', e', hc⟩ := h
  rw [e] at e'
  simp only [List.cons.injEq] at e'
  obtain ⟨rfl, rfl⟩ := e'
  rcases hc with rfl | rfl | rfl | rfl | rfl | rfl | rfl | rfl | rfl <;> decide

theorem FolC.congr {y : List Char} (h : FolC x) (e : Spec.skipS x = Spec.skipS y) : FolC y := by
  obtain ⟨c, t, e', hc⟩ := h
  exact ⟨c, t, e ▸ e', hc⟩

end JPV.Proofs.Sf
