/-
`Proofs.ParseWp` — a weakest-precondition calculus for the parser monad `P` with explicit
states: `wp m Q E st` says that running `m` on `st` either returns `a` in state `st'` with
`Q a st'`, or raises `e` with `E e`.  Facts about the states live in the local context, so
state-dependent pre/postconditions (peek/next coherence, "the current token has kind …",
token-count measures) need no special assertion language.
-/
import JPV.Proofs.ParseSafe
namespace JPV.Impl
open JPV

def wp {α} (m : P α) (Q : α → TStream → Prop) (E : Err → Prop) (st : TStream) : Prop :=
  match exec m st with
  | (.ok a, st') => Q a st'
  | (.error e, _) => E e

section
variable {α β : Type} {Q : α → TStream → Prop} {E : Err → Prop} {st : TStream}

theorem wp_pure {a : α} : wp (pure a : P α) Q E st ↔ Q a st := by
  simp only [wp, exec_pure]

theorem wp_throw {e : Err} : wp (throw e : P α) Q E st ↔ E e := by
  simp only [wp, exec_throw]

theorem wp_failAt {k : ErrKind} {t : Token} : wp (failAt k t : P α) Q E st ↔ E ⟨k, some t⟩ := wp_throw
theorem wp_keyError : wp (keyError : P α) Q E st ↔ E ⟨.py "KeyError", none⟩ := wp_throw
theorem wp_outOfFuel : wp (outOfFuel : P α) Q E st ↔ E ⟨.fuel, none⟩ := wp_throw

theorem wp_bind {m : P α} {f : α → P β} {Q : β → TStream → Prop} :
    wp (m >>= f) Q E st ↔ wp m (fun a st' => wp (f a) Q E st') E st := by
  simp only [wp, exec_bind]
  rcases exec m st with ⟨r, st'⟩
  cases r <;> simp

theorem wp_mono {m : P α} {Q' : α → TStream → Prop} {E' : Err → Prop}
    (h : wp m Q' E' st) (hq : ∀ a st', Q' a st' → Q a st') (he : ∀ e, E' e → E e) : wp m Q E st := by
  unfold wp at *
  rcases hm : exec m st with ⟨r, st'⟩
  rw [hm] at h
  cases r with
  | ok a => exact hq _ _ h
  | error e => exact he _ h

theorem wp_cur {Q : Token → TStream → Prop} : wp cur Q E st ↔ Q st.cur st := by simp only [wp, exec_cur]
theorem wp_nextTok {Q : Token → TStream → Prop} : wp nextTok Q E st ↔ Q st.cur st.next.2 := by
  simp only [wp, exec_nextTok, TStream.next_fst]
theorem wp_peekTok {Q : Token → TStream → Prop} : wp peekTok Q E st ↔ Q st.peek.1 st.peek.2 := by
  simp only [wp, exec_peekTok]
theorem wp_pushTok {t : Token} {Q : Unit → TStream → Prop} : wp (pushTok t) Q E st ↔ Q () (st.push t) := by
  simp only [wp, exec_pushTok]

theorem wp_tryCatch {m : P α} {h : Err → P α} {E' : Err → Prop}
    (h₁ : wp m Q E' st) (h₂ : ∀ e st', E' e → wp (h e) Q E st') : wp (tryCatch m h) Q E st := by
  unfold wp at *
  rw [exec_tryCatch]
  rcases hm : exec m st with ⟨r, st'⟩
  rw [hm] at h₁
  cases r with
  | ok a => exact h₁
  | error e => exact h₂ e st' h₁

/-- a `for` loop whose body keeps an invariant of the state -/
theorem wp_forIn {γ σ : Type} (I : TStream → Prop) (l : List γ) (init : σ) (body : γ → σ → P (ForInStep σ))
    (h : ∀ x s st', I st' → wp (body x s) (fun _ st'' => I st'') E st') (h0 : I st) :
    wp (forIn l init body) (fun _ st' => I st') E st := by
  induction l generalizing init st with
  | nil => simp only [List.forIn_nil]; exact wp_pure.mpr h0
  | cons x xs ih =>
    simp only [List.forIn_cons]
    refine wp_bind.mpr (wp_mono (h x init st h0) ?_ (fun _ h => h))
    intro r st' hI
    cases r with
    | done s => exact wp_pure.mpr hI
    | yield s => exact ih s hI

end

/-! ### the stream operations under the invariant -/

section
variable {G : Token → Prop} {st : TStream}

/-- tokens after the current one -/
def TStream.ahead (st : TStream) : Nat := st.pushed.length + st.rest.length

theorem SInv.peek' (h : SInv G st) :
    SInv G st.peek.2 ∧ st.peek.2.pushed = [st.peek.1] ∧ st.peek.2.cur = st.cur := by
  refine ⟨h.peek.1, ?_, ?_⟩
  · obtain ⟨cur, pushed, rest⟩ := st
    have hs := h.short
    simp only at hs
    cases pushed with
    | cons p ps =>
      cases ps with
      | cons _ _ => simp at hs
      | nil => simp [TStream.peek, TStream.next, TStream.push]
    | nil =>
      simp only [TStream.peek, TStream.next]
      split
      · simp [TStream.push]
      · split <;> simp [TStream.push]
  · simp only [TStream.peek, TStream.push]
    exact st.next_fst

theorem SInv.next_cur (_h : SInv G st) {p : Token} (hp : st.pushed = [p]) : st.next.2.cur = p := by
  obtain ⟨cur, pushed, rest⟩ := st
  simp only at hp; subst hp
  rfl

end

end JPV.Impl
