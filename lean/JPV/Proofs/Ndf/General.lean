import JPV.Proofs.Ndf.Builtin
/-
Generalisation of `nd_find_permitted_builtin` to any typed registry: the environment's function
bodies conform to the registry (`Props.EnvConforms`) and the typed functions do not depend on the
order of the nodelists they are given (`Ndf.OrderInsensitive`; a NodesType result may itself be
permuted).  Also: the nondeterministic result is a permutation of the RFC nodelist.
-/
namespace JPV.Proofs
open JPV JPV.Impl

theorem nd_find_permitted_wt (env : Env) (reg : Spec.Registry) (q : Query) (v : Json) (s : ND.Script)
    (hc : Props.EnvConforms env reg) (hoi : Ndf.OrderInsensitive reg)
    (hwt : Spec.wtQuery (Props.sigsOf reg) q = true)
    (hw : v.WF) (hd : (v.depth : Int) ≤ env.maxDepth) (h1 : 1 ≤ env.maxDepth) :
    ∃ r, ND.find env q v s = .ok r ∧ r ∈ Spec.ND.outcomes reg q v := by
  obtain ⟨r, h, hp, _⟩ := Ndf.find_permitted_wt env reg q v s hc hoi hwt hw hd h1
  exact ⟨r, h, hp⟩

/-- with filters too, every nondeterministic result is a permutation of the RFC nodelist -/
theorem nd_find_perm_wt (env : Env) (reg : Spec.Registry) (q : Query) (v : Json) (s : ND.Script)
    (hc : Props.EnvConforms env reg) (hoi : Ndf.OrderInsensitive reg)
    (hwt : Spec.wtQuery (Props.sigsOf reg) q = true)
    (hw : v.WF) (hd : (v.depth : Int) ≤ env.maxDepth) (h1 : 1 ≤ env.maxDepth) :
    ∃ r, ND.find env q v s = .ok r ∧ r.Perm (Spec.select reg q v) := by
  obtain ⟨r, h, _, hp⟩ := Ndf.find_permitted_wt env reg q v s hc hoi hwt hw hd h1
  exact ⟨r, h, hp⟩

/-- the filter test itself: for every script the nondeterministic evaluation of a well-typed test
expression succeeds and its truthiness is the RFC truth value -/
theorem nd_test_script_independent (env : Env) (reg : Spec.Registry) (root cur : Json) (e : Expr)
    (s : ND.Script) (hc : Props.EnvConforms env reg) (hoi : Ndf.OrderInsensitive reg)
    (hwt : Spec.wtTest (Props.sigsOf reg) e = true)
    (hr : root.WF) (hrd : (root.depth : Int) ≤ env.maxDepth)
    (hcw : cur.WF) (hcd : (cur.depth : Int) ≤ env.maxDepth) (h1 : 1 ≤ env.maxDepth) :
    ∃ o s', ND.evalExpr env root cur e s = (.ok o, s') ∧
      Impl.truthy o = Spec.testOf reg root cur e := by
  obtain ⟨o, s', h, ht⟩ := Ndf.nd_test_ok env reg root ⟨hc, ⟨hr, hrd⟩, h1⟩ hoi e cur s ⟨hcw, hcd⟩ hwt
  exact ⟨o, s', h, ht.truthy⟩

end JPV.Proofs
