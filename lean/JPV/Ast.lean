/-
The compiled-query AST (what `parse.py` builds: `JSONPathQuery` → segments →
selectors → filter expression trees), shared by `Impl` and `Spec`.
Token offsets are not part of the AST; they live in the parser model.
-/
import JPV.Json
namespace JPV

/-- `ExpressionType` of function_extensions/filter_function.py. -/
inductive Ty where
  | value | logical | nodes
deriving DecidableEq, Repr, Inhabited

inductive COp where
  | eq | ne | lt | le | gt | ge
deriving DecidableEq, Repr, Inhabited

inductive LOp where
  | and | or
deriving DecidableEq, Repr, Inhabited

mutual
inductive Expr where
  /-- `FilterExpressionLiteral` subclasses: the literal's Python value. -/
  | lit (v : Json)
  /-- `PrefixExpression` with operator `!`. -/
  | not (e : Expr)
  /-- `LogicalExpression`. -/
  | logical (op : LOp) (l r : Expr)
  /-- `ComparisonExpression`. -/
  | cmp (op : COp) (l r : Expr)
  /-- `RelativeFilterQuery` (`@…`). -/
  | rel (q : List Segment)
  /-- `RootFilterQuery` (`$…`). -/
  | root (q : List Segment)
  /-- `FunctionExtension`. -/
  | call (name : Str) (args : List Expr)
inductive Selector where
  | name (s : Str)
  | index (i : Int)
  | slice (start stop step : Option Int)
  | wild
  | filter (e : Expr)
inductive Segment where
  | child (sels : List Selector)
  | desc (sels : List Selector)
end

abbrev Query := List Segment

instance : Inhabited Expr := ⟨.lit .null⟩
instance : Inhabited Selector := ⟨.wild⟩
instance : Inhabited Segment := ⟨.child []⟩

/-- `JSONPathQuery.singular_query`. -/
def Segment.isSingular : Segment → Bool
  | .child [.name _] => true
  | .child [.index _] => true
  | _ => false

def Query.isSingular (q : Query) : Bool := q.all Segment.isSingular

end JPV
