/-
`Proofs.Sf.CmpShape` — the recogniser's "comparison operands are singular queries" check follows from
well-typedness of the abstract query (which `compile_welltyped` gives for everything the implementation
compiles), whatever the derivation tree.
-/
import JPV.Spec.Grammar
import JPV.Spec.Typing
namespace JPV.Proofs.Sf
open JPV

theorem singularSegs_of (q : List Spec.CSegment)
    (h : Query.isSingular (Spec.abstractSegs q) = true) : (Spec.singularSegs q).1 = true := by
  induction q with
  | nil => simp [Spec.singularSegs]
  | cons s ss ih =>
    cases s with
    | desc sels =>
      simp [Spec.abstractSegs, Query.isSingular, Segment.isSingular] at h
    | child sels b =>
      simp only [Spec.abstractSegs, Query.isSingular, List.all_cons, Bool.and_eq_true] at h
      have ih' := ih h.2
      have h1 := h.1
      cases sels with
      | nil => simp [Spec.abstractSels, Segment.isSingular] at h1
      | cons s t =>
        cases t with
        | cons s2 t2 => simp [Spec.abstractSels, Segment.isSingular] at h1
        | nil =>
          cases s <;>
            first
            | (simp [Spec.abstractSels, Spec.abstractSel, Segment.isSingular] at h1; done)
            | (simp only [Spec.singularSegs]; exact ih')

theorem operandShape_of (sg : Spec.Sigs) (ce : Spec.CExpr)
    (h : Spec.wtComparable sg (Spec.abstractExpr ce) = true) : (Spec.operandShape ce).1 = true := by
  cases ce with
  | rel q =>
    simp only [Spec.abstractExpr, Spec.wtComparable, Bool.and_eq_true] at h
    simp only [Spec.operandShape]
    exact singularSegs_of q h.1
  | root q =>
    simp only [Spec.abstractExpr, Spec.wtComparable, Bool.and_eq_true] at h
    simp only [Spec.operandShape]
    exact singularSegs_of q h.1
  | _ => simp [Spec.operandShape]

mutual
theorem cmpShapeExpr_of (sg : Spec.Sigs) : (ce : Spec.CExpr) →
    (Spec.wtTest sg (Spec.abstractExpr ce) = true ∨ Spec.wtComparable sg (Spec.abstractExpr ce) = true ∨
      Spec.wtNodes sg (Spec.abstractExpr ce) = true) → (Spec.cmpShapeExpr ce).1 = true
  | .lit _, _ => by simp [Spec.cmpShapeExpr]
  | .not e, h => by
    simp only [Spec.abstractExpr, Spec.wtTest, Spec.wtComparable, Spec.wtNodes, Bool.false_eq_true,
      or_false] at h
    simp only [Spec.cmpShapeExpr]
    exact cmpShapeExpr_of sg e (Or.inl h)
  | .paren e, h => by
    simp only [Spec.abstractExpr] at h
    simp only [Spec.cmpShapeExpr]
    exact cmpShapeExpr_of sg e h
  | .and l r, h => by
    simp only [Spec.abstractExpr, Spec.wtTest, Spec.wtComparable, Spec.wtNodes, Bool.false_eq_true,
      or_false, Bool.and_eq_true] at h
    simp only [Spec.cmpShapeExpr, Bool.and_eq_true]
    exact ⟨cmpShapeExpr_of sg l (Or.inl h.1), cmpShapeExpr_of sg r (Or.inl h.2)⟩
  | .or l r, h => by
    simp only [Spec.abstractExpr, Spec.wtTest, Spec.wtComparable, Spec.wtNodes, Bool.false_eq_true,
      or_false, Bool.and_eq_true] at h
    simp only [Spec.cmpShapeExpr, Bool.and_eq_true]
    exact ⟨cmpShapeExpr_of sg l (Or.inl h.1), cmpShapeExpr_of sg r (Or.inl h.2)⟩
  | .cmp _ l r, h => by
    simp only [Spec.abstractExpr, Spec.wtTest, Spec.wtComparable, Spec.wtNodes, Bool.false_eq_true,
      or_false, Bool.and_eq_true] at h
    simp only [Spec.cmpShapeExpr, Bool.and_eq_true]
    exact ⟨⟨⟨operandShape_of sg l h.1, operandShape_of sg r h.2⟩,
      cmpShapeExpr_of sg l (Or.inr (Or.inl h.1))⟩, cmpShapeExpr_of sg r (Or.inr (Or.inl h.2))⟩
  | .rel q, h => by
    simp only [Spec.abstractExpr, Spec.wtTest, Spec.wtComparable, Spec.wtNodes, Bool.and_eq_true] at h
    simp only [Spec.cmpShapeExpr]
    exact cmpShapeSegs_of sg q (by rcases h with h | h | h <;> first | exact h | exact h.2)
  | .root q, h => by
    simp only [Spec.abstractExpr, Spec.wtTest, Spec.wtComparable, Spec.wtNodes, Bool.and_eq_true] at h
    simp only [Spec.cmpShapeExpr]
    exact cmpShapeSegs_of sg q (by rcases h with h | h | h <;> first | exact h | exact h.2)
  | .call f args, h => by
    simp only [Spec.abstractExpr, Spec.wtTest, Spec.wtComparable, Spec.wtNodes] at h
    simp only [Spec.cmpShapeExpr]
    cases hs : sg f with
    | none => simp [hs] at h
    | some s =>
      simp only [hs, Bool.and_eq_true] at h
      exact cmpShapeArgs_of sg s.argTypes args (by rcases h with h | h | h <;> exact h.2)
theorem cmpShapeArgs_of (sg : Spec.Sigs) : (tys : List Ty) → (args : List Spec.CExpr) →
    Spec.wtArgs sg tys (Spec.abstractArgs args) = true → (Spec.cmpShapeArgs args).1 = true
  | _, [], _ => by simp [Spec.cmpShapeArgs]
  | [], a :: as, h => by simp [Spec.abstractArgs, Spec.wtArgs] at h
  | t :: ts, a :: as, h => by
    simp only [Spec.abstractArgs, Spec.wtArgs, Bool.and_eq_true] at h
    simp only [Spec.cmpShapeArgs, Bool.and_eq_true]
    refine ⟨cmpShapeExpr_of sg a ?_, cmpShapeArgs_of sg ts as h.2⟩
    have h1 := h.1
    cases t with
    | value => exact Or.inr (Or.inl h1)
    | logical => exact Or.inl h1
    | nodes => exact Or.inr (Or.inr h1)
theorem cmpShapeSel_of (sg : Spec.Sigs) : (s : Spec.CSelector) →
    Spec.wtSel sg (Spec.abstractSel s) = true → (Spec.cmpShapeSel s).1 = true
  | .filter e, h => by
    simp only [Spec.abstractSel, Spec.wtSel] at h
    simp only [Spec.cmpShapeSel]
    exact cmpShapeExpr_of sg e (Or.inl h)
  | .name _, _ => by simp [Spec.cmpShapeSel]
  | .index _, _ => by simp [Spec.cmpShapeSel]
  | .slice _ _ _, _ => by simp [Spec.cmpShapeSel]
  | .wild, _ => by simp [Spec.cmpShapeSel]
theorem cmpShapeSels_of (sg : Spec.Sigs) : (ss : List Spec.CSelector) →
    Spec.wtSels sg (Spec.abstractSels ss) = true → (Spec.cmpShapeSels ss).1 = true
  | [], _ => by simp [Spec.cmpShapeSels]
  | s :: ss, h => by
    simp only [Spec.abstractSels, Spec.wtSels, Bool.and_eq_true] at h
    simp only [Spec.cmpShapeSels, Bool.and_eq_true]
    exact ⟨cmpShapeSel_of sg s h.1, cmpShapeSels_of sg ss h.2⟩
theorem cmpShapeSegs_of (sg : Spec.Sigs) : (c : List Spec.CSegment) →
    Spec.wtQuery sg (Spec.abstractSegs c) = true → (Spec.cmpShapeSegs c).1 = true
  | [], _ => by simp [Spec.cmpShapeSegs]
  | .child sels _ :: rest, h => by
    simp only [Spec.abstractSegs, Spec.wtQuery, Spec.wtSeg, Bool.and_eq_true] at h
    simp only [Spec.cmpShapeSegs, Bool.and_eq_true]
    exact ⟨cmpShapeSels_of sg sels h.1, cmpShapeSegs_of sg rest h.2⟩
  | .desc sels :: rest, h => by
    simp only [Spec.abstractSegs, Spec.wtQuery, Spec.wtSeg, Bool.and_eq_true] at h
    simp only [Spec.cmpShapeSegs, Bool.and_eq_true]
    exact ⟨cmpShapeSels_of sg sels h.1, cmpShapeSegs_of sg rest h.2⟩
end

theorem cmpShape_of_wt (sg : Spec.Sigs) (c : List Spec.CSegment)
    (h : Spec.wtQuery sg (Spec.abstractSegs c) = true) : (Spec.cmpShapeSegs c).1 = true :=
  cmpShapeSegs_of sg c h

end JPV.Proofs.Sf
