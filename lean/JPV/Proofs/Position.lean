import JPV.Impl.Parse
import JPV.Spec.Position
import JPV.Proofs.LexInv
import JPV.Proofs.ParseSafeInv
namespace JPV.Proofs
open JPV

/-! ### `position_correct` -/

theorem idxOf?_snoc (l : List Char) (c a : Char) :
    (l ++ [c]).idxOf? a = match l.idxOf? a with
      | some k => some k
      | none => if c = a then some l.length else none := by
  simp only [List.idxOf?, List.findIdx?_append]
  cases h : List.findIdx? (fun x => x == a) l with
  | some k => simp
  | none => simp [List.findIdx?_cons]

/-- `scan` in closed form: the line count grows by the number of LFs, and the column is the
distance back to the last LF (its index in the reversed prefix), or `col + n` if there is none -/
theorem scan_eq (n : Nat) : ∀ (s : Str) (line col : Nat), n ≤ s.length →
    Spec.scan n s line col =
      (line + Impl.countLF s n,
        match (s.take n).reverse.idxOf? '\n' with
        | some k => k
        | none => col + n) := by
  induction n with
  | zero => intro s line col _; simp [Spec.scan, Impl.countLF]
  | succ n ih =>
    intro s line col h
    cases s with
    | nil => simp at h
    | cons c cs =>
      simp only [List.length_cons, Nat.add_le_add_iff_right] at h
      simp only [Spec.scan, List.take_succ_cons, List.reverse_cons, idxOf?_snoc]
      by_cases hc : c = '\n'
      · simp only [hc, if_true, ih cs _ _ h, Impl.countLF, List.take_succ_cons]
        cases (List.take n cs).reverse.idxOf? '\n' <;> simp <;> omega
      · simp only [hc, if_false, ih cs _ _ h, Impl.countLF, List.take_succ_cons]
        cases (List.take n cs).reverse.idxOf? '\n' <;> simp [hc] <;> omega

theorem position_correct : ∀ (s : Str) (off : Nat), off ≤ s.length →
    Impl.position s off = ((Spec.lineCol s off).1, ((Spec.lineCol s off).2 : Int)) := by
  intro s off h
  simp only [Spec.lineCol, scan_eq off s 1 0 h, Impl.position, Impl.rfindLF]
  have hl : (s.take off).length = off := by simp [List.length_take]; omega
  cases hk : (List.take off s).reverse.idxOf? '\n' with
  | none => simp; omega
  | some k => simp [hl]; omega

/-! ### `tokenize_offsets` -/

theorem tokenize_offsets (s : Str) (toks : List Impl.Token) (h : Impl.tokenize s = .ok toks) :
    ∀ t ∈ toks, 0 ≤ t.index ∧ t.index ≤ (s.length : Int) := by
  have := Impl.tokenize_spec s
  rw [h] at this
  exact this.1

/-! ### `compile_error_offset` -/

theorem compile_error_offset : ∀ (env : Impl.Env) (s : Str) (e : Impl.Err), Impl.compile env s = .error e →
    e.kind.isJSONPathError = true →
    ∃ t, e.tok = some t ∧ 0 ≤ t.index ∧ t.index ≤ (s.length : Int) := by
  intro env s e h hk
  exact Impl.compile_err env s e h hk

end JPV.Proofs
