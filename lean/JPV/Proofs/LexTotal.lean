import JPV.Impl.Parse
import JPV.Proofs.LexInv
import JPV.Proofs.LexFuel
import JPV.Proofs.LexShape
namespace JPV.Proofs
open JPV JPV.Impl

/-- what the parser relies on about a token -/
def TokShape (t : Token) : Prop :=
  (t.kind = .index → (Py.intOfText t.value).isSome = true) ∧
  (t.kind = .sqString → ∃ inp rest, Impl.scanString '\'' inp = some (t.value, rest)) ∧
  (t.kind = .dqString → ∃ inp rest, Impl.scanString '"' inp = some (t.value, rest))

theorem tokenize_total : ∀ s : Str, match Impl.tokenize s with
    | .ok _ => True
    | .error e => e.kind.isJSONPathError = true := by
  intro s
  have hr := run_total (lexFuel s.length) .root _ (Lexer.Inv.init s)
    (by simp [pot, rank, lexFuel])
  unfold tokenize
  cases hrun : run (lexFuel s.length) .root { q := s.toArray } with
  | error e =>
    rw [hrun] at hr
    simp only [bind, Except.bind]
    rcases hr with h | h <;> simp [h, ErrKind.isJSONPathError]
  | ok l =>
    simp only [bind, Except.bind, throw, throwThe, MonadExceptOf.throw, pure, Except.pure]
    cases l.toks with
    | nil =>
      cases l.brackets with
      | nil => trivial
      | cons b bs => rfl
    | cons t ts =>
      by_cases hte : t.kind = .error
      · simp only [hte, if_true]; rfl
      · simp only [hte, if_false]
        cases l.brackets with
        | nil => trivial
        | cons b bs => rfl

theorem tokenize_shapes (s : Str) (toks : List Token) (h : Impl.tokenize s = .ok toks) :
    (∃ t, toks.getLast? = some t ∧ t.kind = .eof) ∧ ∀ t ∈ toks, TokShape t := by
  have hs := tokenize_spec s
  rw [h] at hs
  exact ⟨hs.2, tokenize_wf s toks h⟩

end JPV.Proofs
