/-
C12, the float literals — `str(float literal)` then `float(text)` on the model, PROVED (was: hypothesis, only
tested), and C12 with NO hypothesis on the float literals (`C12_unconditional`).

`Py.reprFloat` (CPython `float_repr`: shortest digits that read back, 17 at most, four layouts),
`Py.floatOfText` (correctly rounded decimal → binary64) and `Impl.strFloat` (`FloatLiteral.__str__`) are
hand-written models.  Proved here about them:

* `float_repr_round_trip` — for EVERY finite double `x` (`IsDouble`: the two zeros, or `± m·2^e` in lowest terms,
  `0 < m < 2^53`, `-1074 ≤ e ≤ 971`), `repr(x)` is a complete RFC 9535 number and `float(repr(x)) = x`.
  (Digit search: if it stops before 17 digits it has checked the read-back; 17 digits always read back because
  `10^16 > 2^53`; `Py.roundBinary64` depends on the value of the fraction only; `Py.decimalExponent`'s fuel-8
  loops reach the right exponent for every quotient in the double range; the four text layouts parse back to
  exactly the decimal value printed.)
* `floatOfText_isDouble` — every finite value of `float(text)` is such a double; `floats_of_compile_form` — every
  float literal of a compiled query is such a double or one of the infinities `⟨true, ±1, 0⟩`.
* `strFloat_round_trips`, `strFloat_round_trips_inf` — C12's former hypothesis `Proofs.FloatRoundTrips x` (the text
  `Impl.strFloat x` is a complete RFC 9535 number and `Spec.numberValue` reads `x` back from it) holds for every
  finite double and for the infinities; hence `C12_unconditional`.

HISTORY (why `Impl.strFloat` is not plain `repr`).  The first statement attempted, "every double `x` satisfies
`FloatRoundTrips x`" with `FloatLiteral.__str__ = repr`, was REFUTED: `repr(1e16) = "1e+16"`, which the query
syntax (and the implementation's lexer) reads as the INT `10^16` — likewise `1e+22`, `5e+300`, …: one significant
digit and an exponent ≥ 16 — so `$[?@.a==1.0e16]` printed as `$[?@['a'] == 1e+16]`, which compiles to a
DIFFERENT query (int literal instead of float literal); and an infinity (`1e400`) printed as `inf`, which does not
compile.  That was a genuine defect of the implementation; it was repaired upstream (`.0` after the mantissa of
such a repr, `1e400` for an infinity: `Impl.strFloat`).  The record of the defect is kept below as true statements
about the OLD printing (`ReprRoundTrips`, i.e. `FloatRoundTrips` with `Py.reprFloat`): `reprRoundTrips_iff`,
`repr_1e16_reads_back_as_int`, `repr_round_trips_false`, `not_reprRoundTrips_inf`.
-/
import JPV.Props.C12
import JPV.Proofs.Float.C12
namespace JPV.Props
open JPV JPV.Proofs.Float

/-- `float(repr(x)) == x`, and `repr(x)` is a complete RFC 9535 number, for every finite double -/
theorem float_repr_round_trip (x : Num) (h : IsDouble x) :
    Spec.numberSpelling (Py.reprFloat x) = some (Py.reprFloat x, []) ∧
    Py.floatOfText (Py.reprFloat x) = some x := floatOfText_reprFloat x h

/-- every finite value of `float(text)` is a double -/
theorem floatOfText_isDouble (s : Str) (x : Num) : Py.floatOfText s = some x → x.d ≠ 0 → IsDouble x :=
  Proofs.Float.floatOfText_isDouble s x

/-- `IsDouble` is decidable: rounding the fraction to binary64 gives it back -/
theorem isDouble_iff (x : Num) : isDoubleB x = true ↔ IsDouble x := isDoubleB_iff x

/-- the printed float literal (`FloatLiteral.__str__`) reads back, for every finite double … -/
theorem strFloat_round_trips (x : Num) (h : IsDouble x) : Proofs.FloatRoundTrips x :=
  Proofs.Float.strFloat_round_trips x h

/-- … and for the infinities (`1e400`, `-1e400`) -/
theorem strFloat_round_trips_inf (x : Num) (h : x.flt = true) (hd : x.d = 0) (hn : x.n = 1 ∨ x.n = -1) :
    Proofs.FloatRoundTrips x := Proofs.Float.strFloat_round_trips_inf x h hd hn

/-- every float literal of a compiled query is a finite double or one of the infinities `⟨true, ±1, 0⟩` -/
theorem floats_of_compile_form (env : Impl.Env) (s : Str) (q : Query) (h : Impl.compile env s = .ok q) :
    ∀ x ∈ Proofs.floatsSegs q, IsDouble x ∨ (x.flt = true ∧ x.d = 0 ∧ (x.n = 1 ∨ x.n = -1)) :=
  Proofs.Float.floats_of_compile_form env s q h

/-- every finite float literal of a compiled query is a double -/
theorem floats_of_compile_isDouble (env : Impl.Env) (s : Str) (q : Query) (h : Impl.compile env s = .ok q) :
    ∀ x ∈ Proofs.floatsSegs q, x.d ≠ 0 → IsDouble x := Proofs.Float.floats_of_compile_isDouble env s q h

/-- C12 with NO hypothesis on the float literals: str() of any compiled query compiles again to the same query
(omitted slice steps written out) and is a fixpoint -/
theorem C12_unconditional (env : Impl.Env) (s : Str) (q : Query)
    (h : Impl.compile env s = .ok q)
    (h1 : env.minIdx ≤ 1 ∧ 1 ≤ env.maxIdx) :
    Impl.compile env (Impl.strQuery q) = .ok (Proofs.normSegs q) ∧
    Impl.strQuery (Proofs.normSegs q) = Impl.strQuery q := c12_unconditional env s q h h1

/-! ### record of the defect: the OLD printing, plain `repr` (`ReprRoundTrips` = `FloatRoundTrips` over `Py.reprFloat`) -/

/-- for a double, plain `repr` round-trips through the query syntax iff it prints a float spelling -/
theorem reprRoundTrips_iff (x : Num) (h : IsDouble x) : ReprRoundTrips x ↔ ReprIsFloat x :=
  Proofs.Float.reprRoundTrips_iff x h

/-- every double below `10^16` in absolute value is printed by `repr` as a float spelling -/
theorem reprIsFloat_of_lt (x : Num) (h : IsDouble x) (hlt : x.n.natAbs < 10 ^ 16 * x.d) : ReprIsFloat x :=
  Proofs.Float.reprIsFloat_of_lt x h hlt

/-- every double that is not an integer is printed by `repr` as a float spelling -/
theorem reprIsFloat_of_not_int (x : Num) (h : IsDouble x) (hd1 : x.d ≠ 1) (hd2 : x.d ≠ 2 ∨ x.n ≠ 0) :
    ReprIsFloat x := Proofs.Float.reprIsFloat_of_not_int x h hd1 hd2

/-- `repr(1e16) = "1e+16"` reads back as the INT `10^16` -/
theorem repr_1e16_reads_back_as_int :
    Spec.numberValue (Py.reprFloat ⟨true, 10 ^ 16, 1⟩) = some ⟨false, 10 ^ 16, 1⟩ :=
  Proofs.Float.repr_1e16_reads_back_as_int

theorem not_reprRoundTrips_1e16 : ¬ ReprRoundTrips ⟨true, 10 ^ 16, 1⟩ := Proofs.Float.not_reprRoundTrips_1e16
theorem not_reprRoundTrips_1e22 : ¬ ReprRoundTrips ⟨true, 10 ^ 22, 1⟩ := Proofs.Float.not_reprRoundTrips_1e22

/-- with plain `repr`, "every double round-trips" was false -/
theorem repr_round_trips_false : ¬ ∀ x : Num, IsDouble x → ReprRoundTrips x := Proofs.Float.repr_round_trips_false

/-- with plain `repr`, the infinities (printed `inf`) never round-tripped -/
theorem not_reprRoundTrips_inf (x : Num) (h : x.d = 0) : ¬ ReprRoundTrips x :=
  Proofs.Float.not_reprRoundTrips_inf x h

/-- the repaired printing of the former counterexamples -/
theorem strFloat_1e16 : Impl.strFloat ⟨true, 10 ^ 16, 1⟩ = "1.0e+16".toList := Proofs.Float.strFloat_1e16
theorem strFloat_inf : Impl.strFloat ⟨true, 1, 0⟩ = "1e400".toList ∧ Impl.strFloat ⟨true, -1, 0⟩ = "-1e400".toList :=
  Proofs.Float.strFloat_inf

/-! non-vacuity: values of `float(text)` that are doubles (and so round-trip), incl. the former counterexamples -/
example : ∃ x, Py.floatOfText "0.1".toList = some x ∧ IsDouble x :=
  ⟨⟨true, 3602879701896397, 36028797018963968⟩, by decide +kernel, by decide +kernel⟩
example : ∃ x, Py.floatOfText "0.3".toList = some x ∧ IsDouble x :=
  ⟨⟨true, 5404319552844595, 18014398509481984⟩, by decide +kernel, by decide +kernel⟩
example : ∃ x, Py.floatOfText "5e-324".toList = some x ∧ IsDouble x :=
  ⟨⟨true, 1, 2 ^ 1074⟩, by decide +kernel, by decide +kernel⟩
example : ∃ x, Py.floatOfText "1.7976931348623157e308".toList = some x ∧ IsDouble x :=
  ⟨⟨true, (2 ^ 53 - 1) * 2 ^ 971, 1⟩, by decide +kernel, by decide +kernel⟩
example : ∃ x, Py.floatOfText "9007199254740992.0".toList = some x ∧ IsDouble x :=
  ⟨⟨true, 2 ^ 53, 1⟩, by decide +kernel, by decide +kernel⟩
example : ∃ x, Py.floatOfText "123456.789".toList = some x ∧ IsDouble x :=
  ⟨⟨true, 8483885939586761, 68719476736⟩, by decide +kernel, by decide +kernel⟩
example : ∃ x, Py.floatOfText "-2.5e-7".toList = some x ∧ IsDouble x ∧ x.n < 0 :=
  ⟨⟨true, -4722366482869645, 18889465931478580854784⟩, by decide +kernel, by decide +kernel, by decide⟩
example : ∃ x, Py.floatOfText "1e22".toList = some x ∧ IsDouble x ∧ ¬ ReprIsFloat x ∧
    Impl.strFloat x = "1.0e+22".toList :=
  ⟨⟨true, 10 ^ 22, 1⟩, by decide +kernel, by decide +kernel, by decide +kernel, by decide +kernel⟩
/-- the round trip, computed directly on two of them -/
example : Proofs.FloatRoundTrips ⟨true, 10 ^ 22, 1⟩ := by unfold Proofs.FloatRoundTrips; decide +kernel
example : Proofs.FloatRoundTrips ⟨true, 3602879701896397, 36028797018963968⟩ := by
  unfold Proofs.FloatRoundTrips; decide +kernel

end JPV.Props
