import JPV.Spec.Grammar
import JPV.Spec.NormalizedPath
import JPV.Proofs.PathsInj
import JPV.Proofs.StringsAux
namespace JPV.Proofs.Prn
open JPV JPV.Proofs

/-! ### string literals -/

theorem hex_small : ∀ n < 32, Spec.isHEXDIG (Spec.lowerHex (n / 16)) = true ∧
    Spec.isHEXDIG (Spec.lowerHex (n % 16)) = true ∧
    ((Spec.hexVal '0' * 16 + Spec.hexVal '0') * 16 + Spec.hexVal (Spec.lowerHex (n / 16))) * 16
      + Spec.hexVal (Spec.lowerHex (n % 16)) = n := by decide

theorem hexchar_small (n : Nat) (h : n < 32) (r : List Char) :
    Spec.hexchar ('0' :: '0' :: Spec.lowerHex (n / 16) :: Spec.lowerHex (n % 16) :: r)
      = some (Char.ofNat n, r) := by
  obtain ⟨h1, h2, h3⟩ := hex_small n h
  have := StrAux.hex4_cons (r := r) (show Spec.isHEXDIG '0' = true by decide)
    (show Spec.isHEXDIG '0' = true by decide) h1 h2
  rw [h3] at this
  exact StrAux.hexchar_plain this (by omega) (by omega)

theorem body_step (c : Char) (fuel : Nat) (r acc : List Char) :
    Spec.stringBody '\'' (fuel + 1) (Spec.normalChar c ++ r) acc
      = Spec.stringBody '\'' fuel r (c :: acc) := by
  by_cases h8 : c.toNat = 8
  · rw [char_of_toNat h8, show Spec.normalChar (Char.ofNat 8) = ['\\', 'b'] by decide]; rfl
  by_cases h9 : c.toNat = 9
  · rw [char_of_toNat h9, show Spec.normalChar (Char.ofNat 9) = ['\\', 't'] by decide]; rfl
  by_cases h10 : c.toNat = 10
  · rw [char_of_toNat h10, show Spec.normalChar (Char.ofNat 10) = ['\\', 'n'] by decide]; rfl
  by_cases h12 : c.toNat = 12
  · rw [char_of_toNat h12, show Spec.normalChar (Char.ofNat 12) = ['\\', 'f'] by decide]; rfl
  by_cases h13 : c.toNat = 13
  · rw [char_of_toNat h13, show Spec.normalChar (Char.ofNat 13) = ['\\', 'r'] by decide]; rfl
  by_cases hq : c = '\''
  · subst hq; rw [show Spec.normalChar '\'' = ['\\', '\''] by decide]; rfl
  by_cases hb : c = '\\'
  · subst hb; rw [show Spec.normalChar '\\' = ['\\', '\\'] by decide]; rfl
  by_cases h32 : c.toNat < 32
  · have e : Spec.normalChar c =
        ['\\', 'u', '0', '0', Spec.lowerHex (c.toNat / 16), Spec.lowerHex (c.toNat % 16)] := by
      simp [Spec.normalChar, h8, h9, h10, h12, h13, hq, hb, h32]
    rw [e]
    simp only [List.cons_append, List.nil_append]
    rw [Spec.stringBody]
    simp only [show ('\\' : Char) ≠ '\'' by decide, if_true, if_false,
      show ('u' : Char) ≠ '\'' by decide, show ('u' : Char) ≠ 'b' by decide,
      show ('u' : Char) ≠ 't' by decide,
      show ('u' : Char) ≠ 'n' by decide, show ('u' : Char) ≠ 'f' by decide,
      show ('u' : Char) ≠ 'r' by decide, show ('u' : Char) ≠ '/' by decide,
      show ('u' : Char) ≠ '\\' by decide, hexchar_small _ h32, Char.ofNat_toNat]
  · have e : Spec.normalChar c = [c] := by
      simp [Spec.normalChar, h8, h9, h10, h12, h13, hq, hb, h32]
    rw [e]
    simp only [List.cons_append, List.nil_append]
    have hu : (Spec.isUnescaped c || (c = '\'' && '\'' = '"') || (c = '"' && '\'' = '\'')) = true := by
      by_cases hd : c = '"'
      · subst hd; decide
      · have : Spec.isUnescaped c = true := by
          rw [StrAux.isUnescaped_iff]
          refine ⟨by omega, ?_, ?_, ?_⟩
          · intro h; exact hd (char_of_toNat h)
          · intro h; exact hq (char_of_toNat h)
          · intro h; exact hb (char_of_toNat h)
        simp [this]
    simp only [Spec.stringBody, if_neg hq, if_neg hb]
    rw [if_pos]
    simpa using hu

theorem body_all : ∀ (s : Str) (fuel : Nat) (rest acc : List Char),
    (s.flatMap Spec.normalChar).length + 1 ≤ fuel →
    Spec.stringBody '\'' fuel (s.flatMap Spec.normalChar ++ '\'' :: rest) acc
      = some (acc.reverse ++ s, rest) := by
  intro s
  induction s with
  | nil =>
    intro fuel rest acc hf
    obtain ⟨f, rfl⟩ : ∃ f, fuel = f + 1 := ⟨fuel - 1, by omega⟩
    simp [Spec.stringBody]
  | cons c s ih =>
    intro fuel rest acc hf
    obtain ⟨f, rfl⟩ : ∃ f, fuel = f + 1 := ⟨fuel - 1, by omega⟩
    rw [List.flatMap_cons, List.append_assoc, body_step, ih]
    · simp
    · rw [List.flatMap_cons, List.length_append] at hf
      have : 0 < (Spec.normalChar c).length := by
        cases h : Spec.normalChar c with
        | nil =>
          have := unChar_normalChar c []
          rw [h] at this; simp [unChar] at this
        | cons => simp
      omega

theorem stringLiteral_normalName (s : Str) (rest : List Char) :
    Spec.stringLiteral (Spec.normalName s ++ rest) = some (s, rest) := by
  unfold Spec.normalName
  simp only [List.cons_append, List.nil_append, List.append_assoc, Spec.stringLiteral]
  rw [body_all]
  · simp
  · simp

end JPV.Proofs.Prn
