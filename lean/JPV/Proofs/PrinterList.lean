import JPV.Proofs.PrinterSel
namespace JPV.Proofs.Prn
open JPV JPV.Proofs

/-- a printed non-filter selector begins with a non-blank character -/
theorem strSel_head (sel : Selector) (hf : isFilter sel = false) :
    ∃ c t, Impl.strSel sel = c :: t ∧ Spec.isBlank c = false := by
  have hint : ∀ i : Int, ∃ c t, Py.reprInt i = c :: t ∧ Spec.isBlank c = false := by
    intro i
    obtain ⟨c, u, e, h⟩ := reprInt_head i
    exact ⟨c, u, e, intHead_notBlank h⟩
  cases sel with
  | wild => exact ⟨'*', [], strSel_wild, by decide⟩
  | filter e => simp [isFilter] at hf
  | name s =>
    rw [strSel_name, canonicalString_eq]
    exact ⟨'\'', _, rfl, by decide⟩
  | index i => rw [strSel_index]; exact hint i
  | slice a b c =>
    rw [strSel_slice]
    cases a with
    | none => exact ⟨':', _, rfl, by decide⟩
    | some i =>
      obtain ⟨d, u, e, h⟩ := hint i
      exact ⟨d, _, by simp only [Impl.optIntStr, e, List.cons_append]; rfl, h⟩

theorem skipS_strSel (sel : Selector) (hf : isFilter sel = false) (t : List Char) :
    Spec.skipS (Impl.strSel sel ++ t) = Impl.strSel sel ++ t := by
  obtain ⟨c, u, e, h⟩ := strSel_head sel hf
  rw [e]; exact skipS_cons h _

/-- the text after the first selector of a list -/
def tailStr (ss : List Selector) : Str := ss.flatMap (fun s => [',', ' '] ++ Impl.strSel s)

theorem strSels_eq : ∀ (s : Selector) (ss : List Selector),
    Impl.strSels (s :: ss) = Impl.strSel s ++ tailStr ss
  | s, [] => by rw [strSels_one]; simp [tailStr]
  | s, t :: ss => by
    rw [strSels_cons, strSels_eq t ss]
    simp [tailStr]

theorem tailStr_sep (ss : List Selector) (R : List Char) : Sep (tailStr ss ++ ']' :: R) := by
  cases ss with
  | nil => exact ⟨R, Or.inr rfl⟩
  | cons s ss => exact ⟨_, Or.inl (by simp only [tailStr, List.flatMap_cons, List.cons_append, List.nil_append, List.append_assoc]; rfl)⟩

def NoFilter (ss : List Selector) : Prop := ∀ s ∈ ss, isFilter s = false

theorem moreSelectors_stop (fuel : Nat) (R : List Char) :
    Spec.moreSelectors (fuel + 1) (']' :: R) = some ([], ']' :: R) := by
  rw [Spec.moreSelectors, skipS_cons (by decide)]
  rfl

theorem moreSelectors_step (fuel : Nat) (X : List Char) :
    Spec.moreSelectors (fuel + 1) (',' :: X) =
      match Spec.selector fuel (Spec.skipS X) with
      | none => none
      | some (s, r2) =>
        match Spec.moreSelectors fuel r2 with
        | some (ss, r3) => some (s :: ss, r3)
        | none => none := by
  rw [Spec.moreSelectors, skipS_cons (by decide)]
  rfl

theorem more_print : ∀ (ss : List Selector), NoFilter ss → ∀ (fuel : Nat) (R : List Char),
    ss.length + 1 ≤ fuel →
    Spec.moreSelectors fuel (tailStr ss ++ ']' :: R) = some (ss.map cselOf, ']' :: R) := by
  intro ss
  induction ss with
  | nil =>
    intro _ fuel R hf
    obtain ⟨f, rfl⟩ : ∃ f, fuel = f + 1 := ⟨fuel - 1, by omega⟩
    exact moreSelectors_stop f R
  | cons s ss ih =>
    intro hnf fuel R hf
    simp only [List.length_cons] at hf
    obtain ⟨f, rfl⟩ : ∃ f, fuel = f + 2 := ⟨fuel - 2, by omega⟩
    have e : tailStr (s :: ss) ++ ']' :: R = ',' :: ' ' :: (Impl.strSel s ++ (tailStr ss ++ ']' :: R)) := by
      simp [tailStr]
    have hs := hnf s (by simp)
    rw [e, moreSelectors_step]
    have e2 : Spec.skipS (' ' :: (Impl.strSel s ++ (tailStr ss ++ ']' :: R)))
        = Impl.strSel s ++ (tailStr ss ++ ']' :: R) := by
      rw [Spec.skipS, if_pos (by decide), skipS_strSel s hs]
    rw [e2, selector_print s hs f _ (tailStr_sep ss R)]
    simp only
    rw [ih (fun x hx => hnf x (by simp [hx])) (f + 1) R (by omega)]
    rfl

theorem bracketed_print (s : Selector) (ss : List Selector) (hnf : NoFilter (s :: ss)) (fuel : Nat)
    (R : List Char) (hf : ss.length + 2 ≤ fuel) :
    Spec.bracketed fuel ('[' :: (Impl.strSels (s :: ss) ++ ']' :: R))
      = some ((s :: ss).map cselOf, false, R) := by
  obtain ⟨f, rfl⟩ : ∃ f, fuel = f + 2 := ⟨fuel - 2, by omega⟩
  have hs := hnf s (by simp)
  rw [Spec.bracketed, strSels_eq, List.append_assoc]
  simp only [skipS_strSel s hs, selector_print s hs f _ (tailStr_sep ss R)]
  rw [more_print ss (fun x hx => hnf x (by simp [hx])) (f + 1) R (by omega)]
  simp [skipS_cons (show Spec.isBlank ']' = false by decide)]

end JPV.Proofs.Prn
