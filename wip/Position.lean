import JPV.Impl.Parse
import JPV.Spec.Position
namespace JPV.Proofs
open JPV

theorem position_correct : ∀ (s : Str) (off : Nat), off ≤ s.length →
    Impl.position s off = ((Spec.lineCol s off).1, ((Spec.lineCol s off).2 : Int)) := by sorry

theorem tokenize_offsets (s : Str) (toks : List Impl.Token) (h : Impl.tokenize s = .ok toks) :
    ∀ t ∈ toks, 0 ≤ t.index ∧ t.index ≤ (s.length : Int) := by sorry

theorem compile_error_offset : ∀ (env : Impl.Env) (s : Str) (e : Impl.Err), Impl.compile env s = .error e →
    e.kind.isJSONPathError = true →
    ∃ t, e.tok = some t ∧ 0 ≤ t.index ∧ t.index ≤ (s.length : Int) := by sorry

end JPV.Proofs
