#!/bin/sh
# run every registered check at a tier (development aid): tools/run_all.sh quick|thorough [seed]
cd "$(dirname "$0")/.."
TIER=${1:-quick}; export VERIF_SEED=${2:-0}
for p in C01 C02 C03 C04 C05 C06 C07 C08 C09 C10 C11 C12 C13 C14 C15 C16 C17 C18 C19 C20; do
  if grep -q "\"$p\": dict" harness/props.py; then
    /usr/bin/time -f "$p wall=%es" /venv/bin/python harness/run_check.py $p --tier $TIER 2>&1 | grep -v "^  " | tail -3
  fi
done
