import JPV.Impl.NonDet
import JPV.Proofs.NonDetEval
namespace JPV.Proofs
open JPV JPV.Impl

/-- Nondeterministic traversal applies the same limit as the deterministic one, for EVERY choice script:
on a value nested deeper than the limit the traversal ends in JSONPathRecursionError (whatever the
continuation does with the nodes it is handed, as long as it does not fail itself), and it never runs out
of the model's fuel. -/
theorem nd_visit_raises (max : Int) (root : Node) (s : ND.Script) (k : Node → ND.Script → ND.Out)
    (hk : ∀ n s', (k n s').err = none) (h1 : 1 ≤ max) (hd : max < (root.val.depth : Int)) :
    (ND.visit max root s k).err = some .recursion := by sorry

/-- query level, `$..<selectors>` as the first segment: deeper than the limit ⇒ JSONPathRecursionError for every script -/
theorem nd_find_raises (env : Env) (sels : List Selector) (rest : List Segment) (v : Json) (s : ND.Script)
    (hff : Spec.filterFree (.desc sels :: rest) = true)
    (h1 : 1 ≤ env.maxDepth) (hd : env.maxDepth < (v.depth : Int)) :
    ND.find env (.desc sels :: rest) v s = .error .recursion := by sorry

end JPV.Proofs
