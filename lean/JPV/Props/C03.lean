/-
C03 — Every valid RFC 9535 query compiles.

Property text: "Every string that is well-formed under the RFC 9535 ABNF and valid
(well-typed with the built-in functions, integers within the I-JSON range)
compiles without error, whatever optional lexical form it uses: blank space where
the grammar allows it, either quote style, every escape form, shorthand or bracket
notation, any legal number spelling, any non-ASCII member-name shorthand."

`C03_statement` is the property at full strength, in terms of the independent
recogniser `Spec.Grammar` (the ABNF, rule for rule) and the validity rules
`Spec.Valid`; `C03` proves it for every environment and every string (a joint
simulation of lexer and Pratt parser along the derivation, `Proofs/Cf/*`).
`C03_structural` is the filter-free special case (proved first, `Proofs/Cs/*`),
`C01_end_to_end` composes it with evaluation.
-/
import JPV.Spec.Valid
import JPV.Props.C05
import JPV.Props.C13
import JPV.Proofs.CompleteStructural
import JPV.Proofs.Cf.CompleteKw
import JPV.Proofs.CompleteFull
import JPV.Proofs.CompleteDisputed
namespace JPV.Props
open JPV

/-- the property at full strength: what the RFC recogniser and validity rules accept, compile() accepts,
and it builds the derivation's query -/
def C03_statement : Prop :=
  ∀ (env : Impl.Env) (s : Str) (c : List Spec.CSegment),
    Spec.judge (sigsOfEnv env) env.minIdx env.maxIdx s = (.valid, some c) →
    Impl.compile env s = .ok (Spec.abstractSegs c)

/-- PROVED, at full strength: the WHOLE language, filters included — blanks wherever the grammar allows them,
redundant parentheses, `!`, both quote styles, every number spelling, nested filters, function calls with the
well-typedness checks — for EVERY environment (any function registry, any integer range): what the RFC
recogniser derives and the validity rules accept, compile() accepts, and it builds the derivation's query.
(Before the repair of D33 — keyword literals lexed as prefixes of function names such as `truex(` — this
held only for registries without such names, `C03_kwfree`, and was refuted in general.) -/
theorem C03 : C03_statement := fun env s c hj => Proofs.compile_complete env s c hj

/-- ... and the strings the recogniser marks `disputed` (D28) compile too; so, with `C05_sound`, compile() accepts
EXACTLY the strings that `Spec.judge` calls valid or disputed, for every environment: -/
theorem C03_disputed (env : Impl.Env) (s : Str) (c : List Spec.CSegment)
    (hj : Spec.judge (sigsOfEnv env) env.minIdx env.maxIdx s = (.disputed, some c)) :
    Impl.compile env s = .ok (Spec.abstractSegs c) := Proofs.compile_complete_disputed env s c hj

/-- the accepted language, exactly: compile() returns a query iff the independent recogniser + validity rules say
valid or disputed, and then the query is the derivation's abstraction -/
theorem C05_iff (env : Impl.Env) (s : Str) (q : Query) :
    Impl.compile env s = .ok q ↔
      ∃ c, (Spec.judge (sigsOfEnv env) env.minIdx env.maxIdx s = (.valid, some c) ∨
            Spec.judge (sigsOfEnv env) env.minIdx env.maxIdx s = (.disputed, some c)) ∧
        Spec.abstractSegs c = q := by
  constructor
  · exact C05_sound env s q
  · rintro ⟨c, hj | hj, rfl⟩
    · exact C03 env s c hj
    · exact C03_disputed env s c hj

theorem C03_kwfree (env : Impl.Env) (hkw : Proofs.Cf.KwFree env) (s : Str) (c : List Spec.CSegment)
    (hj : Spec.judge (sigsOfEnv env) env.minIdx env.maxIdx s = (.valid, some c)) :
    Impl.compile env s = .ok (Spec.abstractSegs c) :=
  Proofs.compile_complete_kwfree env hkw s c hj

/-- the built-in functions satisfy the restriction -/
theorem C03_builtin (s : Str) (c : List Spec.CSegment)
    (hj : Spec.judge (sigsOfEnv builtinEnv) builtinEnv.minIdx builtinEnv.maxIdx s = (.valid, some c)) :
    Impl.compile builtinEnv s = .ok (Spec.abstractSegs c) :=
  C03_kwfree builtinEnv (Proofs.kwFree_of_b _ (by decide +kernel)) s c hj

/-- proved: the filter-free language, every lexical form -/
theorem C03_structural (env : Impl.Env) (s : Str) (c : List Spec.CSegment)
    (hp : Spec.parseQuery s = .valid c)
    (hff : Spec.filterFree (Spec.abstractSegs c) = true)
    (hr : Spec.intsQuery env.minIdx env.maxIdx (Spec.abstractSegs c) = true) :
    Impl.compile env s = .ok (Spec.abstractSegs c) :=
  Proofs.compile_complete_structural env s c hp hff hr

/-- End to end, from the RFC side (C03 ∘ C05 ∘ C01): for every string the ABNF derives without filter
selectors (integers in the I-JSON range) and every well-formed JSON value within the default depth limit,
compile() succeeds and find() returns exactly the RFC 9535 nodelist of the *derivation* — text in, nodelist
out, with no reference to what the implementation's parser built. -/
theorem C01_end_to_end (s : Str) (c : List Spec.CSegment) (v : Json)
    (hp : Spec.parseQuery s = .valid c)
    (hff : Spec.filterFree (Spec.abstractSegs c) = true)
    (hr : Spec.intsQuery builtinEnv.minIdx builtinEnv.maxIdx (Spec.abstractSegs c) = true)
    (hwf : v.WF) (hd : v.depth ≤ 100) :
    ∃ q, Impl.compile builtinEnv s = .ok q ∧
      Impl.find builtinEnv q v = .ok (Spec.select builtinReg (Spec.abstractSegs c) v) :=
  ⟨_, C03_structural builtinEnv s c hp hff hr,
    compile_then_find s _ v (C03_structural builtinEnv s c hp hff hr) hwf hd⟩

/-- End to end WITH filters (C03 ∘ C05 ∘ C02), built-in functions: for every string the RFC recogniser derives
and the validity rules accept, and every well-formed JSON value within the default depth limit, compile()
succeeds and find() returns exactly the RFC 9535 nodelist of the derivation. -/
theorem C02_end_to_end (s : Str) (c : List Spec.CSegment) (v : Json)
    (hj : Spec.judge (sigsOfEnv builtinEnv) builtinEnv.minIdx builtinEnv.maxIdx s = (.valid, some c))
    (hwf : v.WF) (hd : v.depth ≤ 100) :
    ∃ q, Impl.compile builtinEnv s = .ok q ∧
      Impl.find builtinEnv q v = .ok (Spec.select builtinReg (Spec.abstractSegs c) v) :=
  ⟨_, C03 builtinEnv s c hj, compile_then_find s _ v (C03 builtinEnv s c hj) hwf hd⟩

-- the hypotheses are satisfiable by non-trivial strings (blanks, both quotes, escapes, slices, descendant)
example : (match Spec.parseQuery "$ [ 'a\\u00e9' , \"b\" ]..[ 1 : : -2 , * ] .é".toList with
    | .valid c => Spec.filterFree (Spec.abstractSegs c) &&
        Spec.intsQuery (-(2^53) + 1) (2^53 - 1) (Spec.abstractSegs c) && (Spec.abstractSegs c).length == 3
    | _ => false) = true := by decide +kernel

end JPV.Props
