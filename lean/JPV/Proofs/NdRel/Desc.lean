/-
Facts about `Spec.descendants`: equation lemmas, the shape of the locations it produces,
pairwise distinct locations for a well-formed value, length = `Json.size`, well-formedness of
the values it lists, and `descendants n = n :: descendants of the children`.
-/
import JPV.Proofs.NdRel.Basic
namespace JPV.Proofs.NdRel
open JPV JPV.Spec JPV.Spec.ND

/-! ### equation lemmas -/

theorem descendants_arr (loc : Loc) (xs : List Json) :
    descendants loc (.arr xs) = ⟨loc, .arr xs⟩ :: descArr loc 0 xs := by
  rw [descendants]
theorem descendants_obj (loc : Loc) (kvs : List (Str × Json)) :
    descendants loc (.obj kvs) = ⟨loc, .obj kvs⟩ :: descObj loc kvs := by
  rw [descendants]
theorem descendants_scalar (loc : Loc) {v : Json} (hv : v.isContainer = false) :
    descendants loc v = [⟨loc, v⟩] := by
  cases v <;> first | (unfold descendants; rfl) | exact absurd hv (by simp [Json.isContainer])
theorem descArr_nil (loc : Loc) (i : Nat) : descArr loc i [] = [] := by rw [descArr]
theorem descArr_cons (loc : Loc) (i : Nat) (x : Json) (xs : List Json) :
    descArr loc i (x :: xs) = descendants (loc ++ [.idx (i : Int)]) x ++ descArr loc (i + 1) xs := by
  rw [descArr]
theorem descObj_nil (loc : Loc) : descObj loc [] = [] := by rw [descObj]
theorem descObj_cons (loc : Loc) (k : Str) (x : Json) (rest : List (Str × Json)) :
    descObj loc ((k, x) :: rest) = descendants (loc ++ [.name k]) x ++ descObj loc rest := by
  rw [descObj]

theorem wf_arr (xs : List Json) : (Json.arr xs).WF ↔ Json.WFArr xs := by rw [Json.WF]
theorem wf_obj (kvs : List (Str × Json)) :
    (Json.obj kvs).WF ↔ (Json.keys kvs).Nodup ∧ Json.WFObj kvs := by rw [Json.WF]
theorem wfArr_cons (x : Json) (xs : List Json) : Json.WFArr (x :: xs) ↔ x.WF ∧ Json.WFArr xs := by
  rw [Json.WFArr]
theorem wfObj_cons (k : Str) (x : Json) (rest : List (Str × Json)) :
    Json.WFObj ((k, x) :: rest) ↔ x.WF ∧ Json.WFObj rest := by
  rw [Json.WFObj]

/-- a node and its descendants -/
abbrev desc (m : Node) : List Node := descendants m.loc m.val

/-! ### shape of the locations -/

/-- every array index in the relative path is a natural number -/
def Natural (t : Loc) : Prop := ∀ j : Int, Key.idx j ∈ t → 0 ≤ j

theorem Natural.nil : Natural [] := by intro j h; cases h

theorem Natural.cons_idx {i : Nat} {t : Loc} (h : Natural t) : Natural (.idx (i : Int) :: t) := by
  intro j hj
  rcases List.mem_cons.1 hj with hj | hj
  · cases hj; omega
  · exact h j hj

theorem Natural.cons_name {k : Str} {t : Loc} (h : Natural t) : Natural (.name k :: t) := by
  intro j hj
  rcases List.mem_cons.1 hj with hj | hj
  · cases hj
  · exact h j hj

theorem Natural.append {s t : Loc} (hs : Natural s) (ht : Natural t) : Natural (s ++ t) := by
  intro j hj
  rcases List.mem_append.1 hj with hj | hj
  · exact hs j hj
  · exact ht j hj

mutual
theorem desc_rel (loc : Loc) (v : Json) (y : Node) (h : y ∈ descendants loc v) :
    y = ⟨loc, v⟩ ∨ ∃ k t, y.loc = loc ++ k :: t ∧ Natural (k :: t) := by
  match v with
  | .arr xs =>
    rw [descendants_arr, List.mem_cons] at h
    rcases h with h | h
    · exact Or.inl h
    · obtain ⟨j, t, _, h1, h2⟩ := descArr_rel loc 0 xs y h
      exact Or.inr ⟨_, t, h1, h2.cons_idx⟩
  | .obj kvs =>
    rw [descendants_obj, List.mem_cons] at h
    rcases h with h | h
    · exact Or.inl h
    · obtain ⟨k, t, _, h1, h2⟩ := descObj_rel loc kvs y h
      exact Or.inr ⟨_, t, h1, h2.cons_name⟩
  | .null | .bool _ | .num _ | .str _ =>
    rw [descendants_scalar loc rfl, List.mem_singleton] at h; exact Or.inl h
theorem descArr_rel (loc : Loc) (i : Nat) (xs : List Json) (y : Node) (h : y ∈ descArr loc i xs) :
    ∃ (j : Nat) (t : Loc), i ≤ j ∧ y.loc = loc ++ Key.idx (j : Int) :: t ∧ Natural t := by
  match xs with
  | [] => rw [descArr_nil] at h; cases h
  | x :: xs =>
    rw [descArr_cons, List.mem_append] at h
    rcases h with h | h
    · rcases desc_rel (loc ++ [.idx (i : Int)]) x y h with h | ⟨k, t, h1, h2⟩
      · subst h; exact ⟨i, [], Nat.le_refl _, rfl, Natural.nil⟩
      · exact ⟨i, k :: t, Nat.le_refl _, by rw [h1, List.append_assoc]; rfl, h2⟩
    · obtain ⟨j, t, hj, h1, h2⟩ := descArr_rel loc (i + 1) xs y h
      exact ⟨j, t, by omega, h1, h2⟩
theorem descObj_rel (loc : Loc) (kvs : List (Str × Json)) (y : Node) (h : y ∈ descObj loc kvs) :
    ∃ (k : Str) (t : Loc), k ∈ Json.keys kvs ∧ y.loc = loc ++ Key.name k :: t ∧ Natural t := by
  match kvs with
  | [] => rw [descObj_nil] at h; cases h
  | (k, x) :: rest =>
    rw [descObj_cons, List.mem_append] at h
    rcases h with h | h
    · rcases desc_rel (loc ++ [.name k]) x y h with h | ⟨k', t, h1, h2⟩
      · subst h; exact ⟨k, [], List.mem_cons_self, rfl, Natural.nil⟩
      · exact ⟨k, k' :: t, List.mem_cons_self, by rw [h1, List.append_assoc]; rfl, h2⟩
    · obtain ⟨k', t, hk, h1, h2⟩ := descObj_rel loc rest y h
      exact ⟨k', t, List.mem_cons_of_mem _ hk, h1, h2⟩
end

/-- locations of descendants: the root location followed by a natural relative path, empty only
for the root itself -/
theorem desc_loc {loc : Loc} {v : Json} {y : Node} (h : y ∈ descendants loc v) :
    ∃ t, y.loc = loc ++ t ∧ Natural t ∧ (t = [] → y = ⟨loc, v⟩) := by
  rcases desc_rel loc v y h with h | ⟨k, t, h1, h2⟩
  · subst h; exact ⟨[], (List.append_nil _).symm, Natural.nil, fun _ => rfl⟩
  · exact ⟨k :: t, h1, h2, fun h => by cases h⟩

theorem root_mem_desc (loc : Loc) (v : Json) : (⟨loc, v⟩ : Node) ∈ descendants loc v := by
  cases v <;> first
    | (rw [descendants_scalar loc rfl]; exact List.mem_singleton.2 rfl)
    | (rw [descendants_arr]; exact List.mem_cons_self)
    | (rw [descendants_obj]; exact List.mem_cons_self)

/-! ### pairwise distinct locations -/

theorem append_cons_ne_self {α} (l : List α) (k : α) (t : List α) : l ++ k :: t ≠ l := by
  intro h
  have := congrArg List.length h
  simp only [List.length_append, List.length_cons] at this
  omega

mutual
theorem desc_nodup (loc : Loc) (v : Json) (hw : v.WF) :
    ((descendants loc v).map (·.loc)).Nodup := by
  match v with
  | .arr xs =>
    rw [descendants_arr, List.map_cons, List.nodup_cons]
    refine ⟨?_, descArr_nodup loc 0 xs ((wf_arr xs).1 hw)⟩
    intro hm
    obtain ⟨y, hy, hyl⟩ := List.mem_map.1 hm
    obtain ⟨j, t, _, h1, _⟩ := descArr_rel loc 0 xs y hy
    exact append_cons_ne_self _ _ _ (h1.symm.trans hyl)
  | .obj kvs =>
    rw [descendants_obj, List.map_cons, List.nodup_cons]
    have hw' := (wf_obj kvs).1 hw
    refine ⟨?_, descObj_nodup loc kvs hw'.1 hw'.2⟩
    intro hm
    obtain ⟨y, hy, hyl⟩ := List.mem_map.1 hm
    obtain ⟨j, t, _, h1, _⟩ := descObj_rel loc kvs y hy
    exact append_cons_ne_self _ _ _ (h1.symm.trans hyl)
  | .null | .bool _ | .num _ | .str _ =>
    rw [descendants_scalar loc rfl]; simp
theorem descArr_nodup (loc : Loc) (i : Nat) (xs : List Json) (hw : Json.WFArr xs) :
    ((descArr loc i xs).map (·.loc)).Nodup := by
  match xs with
  | [] => rw [descArr_nil]; exact List.nodup_nil
  | x :: xs =>
    have hw' := (wfArr_cons x xs).1 hw
    rw [descArr_cons, List.map_append, List.nodup_append]
    refine ⟨desc_nodup _ x hw'.1, descArr_nodup loc (i + 1) xs hw'.2, ?_⟩
    intro a ha b hb hab
    obtain ⟨y, hy, rfl⟩ := List.mem_map.1 ha
    obtain ⟨z, hz, hzl⟩ := List.mem_map.1 hb
    obtain ⟨t, h1, _, _⟩ := desc_loc hy
    obtain ⟨j, t', hj, h2, _⟩ := descArr_rel loc (i + 1) xs z hz
    rw [← hzl, h1, h2, List.append_assoc] at hab
    have := List.append_cancel_left hab
    simp only [List.singleton_append, List.cons.injEq, Key.idx.injEq] at this
    omega
theorem descObj_nodup (loc : Loc) (kvs : List (Str × Json)) (hk : (Json.keys kvs).Nodup)
    (hw : Json.WFObj kvs) : ((descObj loc kvs).map (·.loc)).Nodup := by
  match kvs with
  | [] => rw [descObj_nil]; exact List.nodup_nil
  | (k, x) :: rest =>
    have hw' := (wfObj_cons k x rest).1 hw
    have hk' : k ∉ Json.keys rest ∧ (Json.keys rest).Nodup := by
      simpa [Json.keys] using hk
    rw [descObj_cons, List.map_append, List.nodup_append]
    refine ⟨desc_nodup _ x hw'.1, descObj_nodup loc rest hk'.2 hw'.2, ?_⟩
    intro a ha b hb hab
    obtain ⟨y, hy, rfl⟩ := List.mem_map.1 ha
    obtain ⟨z, hz, hzl⟩ := List.mem_map.1 hb
    obtain ⟨t, h1, _, _⟩ := desc_loc hy
    obtain ⟨k', t', hk'', h2, _⟩ := descObj_rel loc rest z hz
    rw [← hzl, h1, h2, List.append_assoc] at hab
    have := List.append_cancel_left hab
    simp only [List.singleton_append, List.cons.injEq, Key.name.injEq] at this
    exact hk'.1 (this.1 ▸ hk'')
end

/-! ### length and well-formedness -/

mutual
theorem desc_length (loc : Loc) (v : Json) : (descendants loc v).length = v.size := by
  match v with
  | .arr xs => rw [descendants_arr, List.length_cons, descArr_length loc 0 xs, Json.size]; omega
  | .obj kvs => rw [descendants_obj, List.length_cons, descObj_length loc kvs, Json.size]; omega
  | .null | .bool _ | .num _ | .str _ => rw [descendants_scalar loc rfl]; simp [Json.size]
theorem descArr_length (loc : Loc) (i : Nat) (xs : List Json) :
    (descArr loc i xs).length = Json.sizeArr xs := by
  match xs with
  | [] => rw [descArr_nil, Json.sizeArr]; rfl
  | x :: xs =>
    rw [descArr_cons, List.length_append, desc_length _ x, descArr_length loc (i + 1) xs,
      Json.sizeArr]
theorem descObj_length (loc : Loc) (kvs : List (Str × Json)) :
    (descObj loc kvs).length = Json.sizeObj kvs := by
  match kvs with
  | [] => rw [descObj_nil, Json.sizeObj]; rfl
  | (k, x) :: rest =>
    rw [descObj_cons, List.length_append, desc_length _ x, descObj_length loc rest, Json.sizeObj]
end

mutual
theorem desc_wf (loc : Loc) (v : Json) (hw : v.WF) (y : Node) (h : y ∈ descendants loc v) :
    y.val.WF := by
  match v with
  | .arr xs =>
    rw [descendants_arr, List.mem_cons] at h
    rcases h with h | h
    · subst h; exact hw
    · exact descArr_wf loc 0 xs ((wf_arr xs).1 hw) y h
  | .obj kvs =>
    rw [descendants_obj, List.mem_cons] at h
    rcases h with h | h
    · subst h; exact hw
    · exact descObj_wf loc kvs ((wf_obj kvs).1 hw).2 y h
  | .null | .bool _ | .num _ | .str _ =>
    rw [descendants_scalar loc rfl, List.mem_singleton] at h; subst h; exact hw
theorem descArr_wf (loc : Loc) (i : Nat) (xs : List Json) (hw : Json.WFArr xs) (y : Node)
    (h : y ∈ descArr loc i xs) : y.val.WF := by
  match xs with
  | [] => rw [descArr_nil] at h; cases h
  | x :: xs =>
    have hw' := (wfArr_cons x xs).1 hw
    rw [descArr_cons, List.mem_append] at h
    rcases h with h | h
    · exact desc_wf _ x hw'.1 y h
    · exact descArr_wf loc (i + 1) xs hw'.2 y h
theorem descObj_wf (loc : Loc) (kvs : List (Str × Json)) (hw : Json.WFObj kvs) (y : Node)
    (h : y ∈ descObj loc kvs) : y.val.WF := by
  match kvs with
  | [] => rw [descObj_nil] at h; cases h
  | (k, x) :: rest =>
    have hw' := (wfObj_cons k x rest).1 hw
    rw [descObj_cons, List.mem_append] at h
    rcases h with h | h
    · exact desc_wf _ x hw'.1 y h
    · exact descObj_wf loc rest hw'.2 y h
end

/-! ### descendants as node :: descendants of children -/

theorem descArr_eq (loc : Loc) : ∀ (xs : List Json) (i : Nat),
    descArr loc i xs =
      ((List.range' i xs.length).zip xs).flatMap
        (fun p => descendants (loc ++ [.idx (p.1 : Int)]) p.2) := by
  intro xs
  induction xs with
  | nil => intro i; rw [descArr_nil]; rfl
  | cons x xs ih =>
    intro i
    rw [descArr_cons, ih (i + 1), List.length_cons, List.range'_succ, List.zip_cons_cons,
      List.flatMap_cons]

theorem descObj_eq (loc : Loc) : ∀ (kvs : List (Str × Json)),
    descObj loc kvs = kvs.flatMap (fun p => descendants (loc ++ [.name p.1]) p.2) := by
  intro kvs
  induction kvs with
  | nil => rw [descObj_nil]; rfl
  | cons p rest ih =>
    obtain ⟨k, x⟩ := p
    rw [descObj_cons, ih, List.flatMap_cons]

theorem desc_children (n : Node) : desc n = n :: (children n).flatMap desc := by
  obtain ⟨loc, v⟩ := n
  cases v with
  | arr xs =>
    simp only [desc, descendants_arr, children, arrChildren, descArr_eq, List.flatMap_map,
      child, List.range_eq_range']
  | obj kvs =>
    simp only [desc, descendants_obj, children, descObj_eq, List.flatMap_map, child]
  | _ => simp [desc, descendants, children]

/-- the children of a well-formed value are well formed -/
theorem children_wf {n c : Node} (hw : n.val.WF) (hc : c ∈ children n) : c.val.WF := by
  have h1 : c ∈ desc c := root_mem_desc c.loc c.val
  have h2 : c ∈ desc n := by
    rw [desc_children]
    exact List.mem_cons_of_mem _ (List.mem_flatMap.2 ⟨c, hc, h1⟩)
  exact desc_wf n.loc n.val hw c h2

end JPV.Proofs.NdRel
