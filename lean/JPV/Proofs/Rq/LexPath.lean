import JPV.Proofs.Rq.LexSteps
import JPV.Proofs.PathsCanon
import JPV.Proofs.PrinterInt
namespace JPV.Proofs.Rq
open JPV JPV.Impl

variable {pre rest : List Char} {toks : List Token} {br : List (Char × Nat)}

/-! ### the string loop walks over a scanned body -/

theorem strLoop_walk {q : Char} {f : Bool} (hq : q ≠ '\\') {t : List Char} (ht : Scanned q t) :
    ∀ (l : Lexer) (cur : List Char), St l pre cur (t ++ q :: rest) toks br →
    ∃ l', Reach (.strLoop q f) l (retState f) l' ∧
      St l' (pre ++ cur ++ t ++ [q]) [] rest (⟨strKind q, cur ++ t, pre.length⟩ :: toks) br := by
  induction ht with
  | nil =>
    intro l cur h
    obtain ⟨l', hs, h'⟩ := lexStrLoop_close (f := f) h hq
    exact ⟨l', .one hs, by simpa using h'⟩
  | plain c t h1 h2 _ ih =>
    intro l cur h
    have hs := lexStrLoop_plain (f := f) h h1 h2
    obtain ⟨l', hr, h'⟩ := ih l.adv (cur ++ [c]) h.adv
    exact ⟨l', .step hs hr, by simpa using h'⟩
  | esc p t h1 _ ih =>
    intro l cur h
    have hs := lexStrLoop_esc (f := f) h h1
    obtain ⟨l', hr, h'⟩ := ih l.adv.adv (cur ++ ['\\'] ++ [p]) h.adv.adv
    exact ⟨l', .step hs hr, by simpa using h'⟩

/-- a bracketed single-quoted name selector -/
theorem seg_name {l : Lexer} {t : List Char} (ht : Scanned '\'' t)
    (h : St l pre [] ('[' :: '\'' :: (t ++ '\'' :: ']' :: rest)) toks br) :
    ∃ l' pre' i1 i2 i3, Reach .segment l .segment l' ∧
      St l' pre' [] rest
        (⟨.rbracket, [']'], i3⟩ :: ⟨.sqString, t, i2⟩ :: ⟨.lbracket, ['['], i1⟩ :: toks) br := by
  have s1 := lexSegment_lbracket h
  have h1 := (h.adv.emit .lbracket).pushBracket '[' ((l.adv.emit .lbracket).pos - 1)
  simp only [List.nil_append] at h1
  have s2 := lexBracketed_quote h1
  have h2 := h1.adv
  have s3 := lexStrStart_exec (q := '\'') (f := false) h2 (by simp)
  have h3 := h2.ignore
  obtain ⟨l4, r4, h4⟩ := strLoop_walk (f := false) (by decide) ht _ _ h3
  simp only [retState, strKind, List.nil_append] at r4 h4
  have s5 := lexBracketed_rbracket h4
  have h5 := (h4.adv.popBracket).emit .rbracket
  exact ⟨_, _, _, _, _, .step s1 (.step s2 (.step s3 (r4.trans (.one s5)))), h5⟩


/-! ### index selectors -/

theorem spanLen_append (p : Char → Bool) (ds rest : List Char) (h1 : ∀ c ∈ ds, p c = true)
    (h2 : ∀ c, rest.head? = some c → p c = false) : spanLen p (ds ++ rest) = ds.length := by
  induction ds with
  | nil =>
    cases rest with
    | nil => rfl
    | cons c r => simp [spanLen, h2 c rfl]
  | cons d ds ih =>
    simp only [List.cons_append, spanLen, h1 d (by simp), if_true, List.length_cons]
    rw [ih (fun c hc => h1 c (by simp [hc]))]; omega

theorem reIndex_digits (d : Char) (ds rest : List Char) (h1 : ∀ c ∈ d :: ds, isDigit c = true)
    (h2 : ∀ c, rest.head? = some c → isDigit c = false) :
    reIndex ((d :: ds) ++ rest) = some (d :: ds).length := by
  have hd := h1 d (by simp)
  have hne : d ≠ '-' := by
    rintro rfl; revert hd; decide
  have hs := spanLen_append isDigit (d :: ds) rest h1 h2
  unfold reIndex reSignedDigits
  simp only [List.cons_append] at hs ⊢
  split
  · rename_i heq'; simp only [List.cons.injEq] at heq'; exact absurd heq'.1 hne
  · simp only [hs]
    simp

/-- a bracketed index selector -/
theorem seg_index {l : Lexer} (d : Char) (ds : List Char) (h1 : ∀ c ∈ d :: ds, isDigit c = true)
    (h : St l pre [] ('[' :: ((d :: ds) ++ ']' :: rest)) toks br) :
    ∃ l' pre' i1 i2 i3, Reach .segment l .segment l' ∧
      St l' pre' [] rest
        (⟨.rbracket, [']'], i3⟩ :: ⟨.index, d :: ds, i2⟩ :: ⟨.lbracket, ['['], i1⟩ :: toks) br := by
  have s1 := lexSegment_lbracket h
  have h1' := (h.adv.emit .lbracket).pushBracket '[' ((l.adv.emit .lbracket).pos - 1)
  simp only [List.nil_append] at h1'
  have hre := reIndex_digits d ds (']' :: rest) h1 (by simp [isDigit])
  have e1 : (d :: (ds ++ ']' :: rest)).take (d :: ds).length = d :: ds := by simp
  have e2 : (d :: (ds ++ ']' :: rest)).drop (d :: ds).length = ']' :: rest := by simp
  obtain ⟨l2, s2, h2⟩ := lexBracketed_index (c := d) (r := ds ++ ']' :: rest) h1' (h1 d (by simp)) hre
    (by simp) e1 e2
  have s3 := lexBracketed_rbracket h2
  have h3 := (h2.adv.popBracket).emit .rbracket
  exact ⟨_, _, _, _, _, .step s1 (.step s2 (.one s3)), h3⟩

end JPV.Proofs.Rq
