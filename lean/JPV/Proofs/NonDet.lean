import JPV.Impl.NonDet
import JPV.Spec.NonDet
import JPV.Spec.Typing
import JPV.Proofs.NonDetAux
import JPV.Proofs.NonDetEval
namespace JPV.Proofs
open JPV JPV.Impl

theorem nd_shuffle_perm {α} (xs : List α) (s : ND.Script) : ((ND.shuffle xs s).1).Perm xs :=
  NDp.shuffle_perm xs s

theorem nd_merge_interleaves {α} (q g : List α) (s : ND.Script) :
    ((ND.mergeQ q g s).1).Perm (q ++ g) ∧ List.Sublist q (ND.mergeQ q g s).1 ∧ List.Sublist g (ND.mergeQ q g s).1 :=
  NDp.mergeQ_perm q g s

theorem nd_children (n : Node) (s : ND.Script) :
    ((ND.ndChildren n s).1).Perm (Impl.children n) ∧
    (∀ xs, n.val = .arr xs → (ND.ndChildren n s).1 = Impl.children n) :=
  ⟨NDp.ndChildren_perm n s, fun xs h => NDp.ndChildren_arr n s xs h⟩

theorem nd_find_perm : ∀ (env : Env) (reg : Spec.Registry) (q : Query) (v : Json) (s : ND.Script),
    Spec.filterFree q = true → v.WF → (v.depth : Int) ≤ env.maxDepth → 1 ≤ env.maxDepth →
    ∃ r, ND.find env q v s = .ok r ∧ r.Perm (Spec.select reg q v) :=
  fun env reg q v s hf hwf hd _ => NDp.find_perm env reg q v s hf hwf hd

end JPV.Proofs
