import JPV.Proofs.PrinterList
namespace JPV.Proofs.Prn
open JPV JPV.Proofs

theorem noFilter_of (sels : List Selector) (h : Spec.filterFreeSels sels = true) : NoFilter sels := by
  induction sels with
  | nil => intro s hs; simp at hs
  | cons x xs ih =>
    cases x with
    | filter e => simp [Spec.filterFreeSels] at h
    | name _ | index _ | slice _ _ _ | wild =>
      simp only [Spec.filterFreeSels] at h
      intro s hs
      rcases List.mem_cons.1 hs with rfl | hs
      · rfl
      · exact ih h s hs

theorem strSel_length (s : Selector) (h : isFilter s = false) : 1 ≤ (Impl.strSel s).length := by
  obtain ⟨c, t, e, _⟩ := strSel_head s h
  rw [e]; simp

theorem tailStr_length : ∀ (ss : List Selector), NoFilter ss → ss.length ≤ (tailStr ss).length := by
  intro ss
  induction ss with
  | nil => intro _; simp
  | cons s ss ih =>
    intro h
    have := ih (fun x hx => h x (by simp [hx]))
    simp only [tailStr, List.flatMap_cons, List.length_append, List.length_cons] at this ⊢
    omega

/-- the concrete tree a printed query reparses to -/
def csegOf : Segment → Spec.CSegment
  | .child sels => .child (sels.map cselOf) false
  | .desc sels => .desc (sels.map cselOf)

def GoodSeg (sg : Segment) : Prop :=
  match sg with
  | .child sels => NoFilter sels ∧ sels ≠ []
  | .desc sels => NoFilter sels ∧ sels ≠ []

theorem segments_nil (fuel : Nat) : Spec.segments (fuel + 1) [] = some ([], []) := by
  rw [Spec.segments]
  have : Spec.segment fuel (Spec.skipS []) = none := by
    cases fuel with
    | zero => rw [Spec.segment]
    | succ f => rw [Spec.skipS, Spec.segment]; all_goals simp
  rw [this]

theorem segs_print : ∀ (q : List Segment), (∀ sg ∈ q, GoodSeg sg) → ∀ (fuel : Nat),
    (Impl.strSegs q).length + 1 ≤ fuel →
    Spec.segments fuel (Impl.strSegs q) = some (q.map csegOf, []) := by
  intro q
  induction q with
  | nil =>
    intro _ fuel hf
    obtain ⟨f, rfl⟩ : ∃ f, fuel = f + 1 := ⟨fuel - 1, by omega⟩
    rw [strSegs_nil]; exact segments_nil f
  | cons sg q ih =>
    intro hg fuel hf
    have hq := ih (fun x hx => hg x (by simp [hx]))
    have hsg := hg sg (by simp)
    cases sg with
    | child sels =>
      obtain ⟨hnf, hne⟩ := hsg
      cases sels with
      | nil => exact absurd rfl hne
      | cons s ss =>
        rw [strSegs_child] at hf ⊢
        rw [strSels_eq] at hf
        have := tailStr_length ss (fun x hx => hnf x (by simp [hx]))
        have := strSel_length s (hnf s (by simp))
        simp only [List.length_append, List.length_cons, List.length_nil] at hf
        obtain ⟨f, rfl⟩ : ∃ f, fuel = f + 2 := ⟨fuel - 2, by omega⟩
        have e : ['['] ++ Impl.strSels (s :: ss) ++ [']'] ++ Impl.strSegs q
          = '[' :: (Impl.strSels (s :: ss) ++ ']' :: Impl.strSegs q) := by simp
        rw [e, Spec.segments, skipS_cons (by decide), Spec.segment,
          bracketed_print s ss hnf f _ (by omega)]
        simp only [Option.map_some]
        rw [hq (f + 1) (by omega)]
        rfl
    | desc sels =>
      obtain ⟨hnf, hne⟩ := hsg
      cases sels with
      | nil => exact absurd rfl hne
      | cons s ss =>
        rw [strSegs_desc] at hf ⊢
        rw [strSels_eq] at hf
        have := tailStr_length ss (fun x hx => hnf x (by simp [hx]))
        have := strSel_length s (hnf s (by simp))
        simp only [List.length_append, List.length_cons, List.length_nil] at hf
        obtain ⟨f, rfl⟩ : ∃ f, fuel = f + 2 := ⟨fuel - 2, by omega⟩
        have e : ['.', '.', '['] ++ Impl.strSels (s :: ss) ++ [']'] ++ Impl.strSegs q
          = '.' :: '.' :: '[' :: (Impl.strSels (s :: ss) ++ ']' :: Impl.strSegs q) := by simp
        rw [e, Spec.segments, skipS_cons (by decide), Spec.segment,
          bracketed_print s ss hnf f _ (by omega)]
        simp only [Option.map_some]
        rw [hq (f + 1) (by omega)]
        rfl

theorem cmpShapeSels_csel : ∀ (ss : List Selector), Spec.cmpShapeSels (ss.map cselOf) = (true, false)
  | [] => by rw [List.map, Spec.cmpShapeSels]
  | s :: ss => by
    rw [List.map, Spec.cmpShapeSels, cmpShapeSels_csel ss]
    cases s <;> simp [cselOf, Spec.cmpShapeSel]

theorem cmpShapeSegs_cseg : ∀ (q : List Segment), Spec.cmpShapeSegs (q.map csegOf) = (true, false)
  | [] => by rw [List.map, Spec.cmpShapeSegs]
  | .child sels :: q => by
    rw [List.map, csegOf, Spec.cmpShapeSegs, cmpShapeSegs_cseg q, cmpShapeSels_csel]; rfl
  | .desc sels :: q => by
    rw [List.map, csegOf, Spec.cmpShapeSegs, cmpShapeSegs_cseg q, cmpShapeSels_csel]; rfl

/-- the printed text of a filter-free query with non-empty segments is accepted by the RFC
grammar, with the concrete tree `q.map csegOf` -/
theorem parse_print (q : Query) (hg : ∀ sg ∈ q, GoodSeg sg) :
    Spec.parseQuery (Impl.strQuery q) = .valid (q.map csegOf) := by
  unfold Impl.strQuery Spec.parseQuery
  simp only
  rw [segs_print q hg _ (by simp only [List.length_cons]; omega)]
  simp only [cmpShapeSegs_cseg]
  rfl

end JPV.Proofs.Prn
