/-
Tie A obligations: the tables regenerated from /repo (`JPV/Generated.lean`) are
the ones the model was written against.  Each theorem is closed by evaluation
(`decide`); an edit to a table in the source changes `Generated.lean` and the
corresponding theorem stops checking.
-/
import JPV.Generated
import JPV.Impl.Parse
namespace JPV.Tables
open JPV JPV.Impl

def kindOfName : String → Option TokKind
  | "EOF" => some .eof | "ERROR" => some .error | "INIT" => some .init | "COLON" => some .colon
  | "COMMA" => some .comma | "DOUBLE_DOT" => some .doubleDot | "FILTER" => some .filter
  | "INDEX" => some .index | "LBRACKET" => some .lbracket | "PROPERTY" => some .property
  | "RBRACKET" => some .rbracket | "ROOT" => some .root | "WILD" => some .wild | "AND" => some .and
  | "CURRENT" => some .current | "DOUBLE_QUOTE_STRING" => some .dqString | "EQ" => some .eq
  | "FALSE" => some .false_ | "FLOAT" => some .float | "FUNCTION" => some .function | "GE" => some .ge
  | "GT" => some .gt | "INT" => some .int | "LE" => some .le | "LPAREN" => some .lparen | "LT" => some .lt
  | "NE" => some .ne | "NOT" => some .not | "NULL" => some .null | "OR" => some .or
  | "RPAREN" => some .rparen | "SINGLE_QUOTE_STRING" => some .sqString | "TRUE" => some .true_
  | _ => none

def allKinds : List TokKind :=
  [.eof, .error, .init, .colon, .comma, .doubleDot, .filter, .index, .lbracket, .property, .rbracket,
   .root, .wild, .and, .current, .dqString, .eq, .false_, .float, .function, .ge, .gt, .int, .le,
   .lparen, .lt, .ne, .not, .null, .or, .rparen, .sqString, .true_]

def lookupS {β} (k : String) : List (String × β) → Option β
  | [] => none
  | (a, b) :: r => if a = k then some b else lookupS k r

/-- a generated table keyed by token-type name, re-keyed by the model's token kinds
(`none` if some name is not a token kind the model knows) -/
def tableK {β} (t : List (String × β)) : Option (List (TokKind × β)) :=
  t.mapM (fun p => (kindOfName p.1).map (fun k => (k, p.2)))

def lookupK {β} (k : TokKind) : List (TokKind × β) → Option β
  | [] => none
  | (a, b) :: r => if a = k then some b else lookupK k r

def constOf (n : String) : Int := (lookupS n Generated.precConsts).getD 0

/-- `PRECEDENCES.get(kind, PRECEDENCE_LOWEST)` of the source, for every token kind of the model -/
theorem precedences_model :
    (match tableK Generated.precedences with
     | some t => allKinds.all (fun k => (Impl.precedence k : Int) = (lookupK k t).getD (constOf "PRECEDENCE_LOWEST"))
     | none => false) = true := by decide +kernel

theorem precedence_consts :
    ((Impl.precLowest : Int), (Impl.precOr : Int), (Impl.precAnd : Int), (Impl.precRelational : Int), (Impl.precPrefix : Int)) =
    (constOf "PRECEDENCE_LOWEST", constOf "PRECEDENCE_LOGICAL_OR", constOf "PRECEDENCE_LOGICAL_AND",
     constOf "PRECEDENCE_RELATIONAL", constOf "PRECEDENCE_PREFIX") := by decide +kernel

def opText : BinOp → String
  | .logical .and => "&&" | .logical .or => "||"
  | .cmp .eq => "==" | .cmp .ne => "!=" | .cmp .lt => "<" | .cmp .le => "<=" | .cmp .gt => ">" | .cmp .ge => ">="

/-- `BINARY_OPERATORS` and `COMPARISON_OPERATORS` -/
theorem binary_operators_model :
    (match tableK Generated.binaryOperators with
     | some t => allKinds.all (fun k => (Impl.binaryOp k).map opText = lookupK k t)
     | none => false) = true := by decide +kernel

theorem comparison_operators_model :
    (match tableK Generated.binaryOperators with
     | some t => allKinds.all (fun k => Impl.isComparisonTok k =
        (match lookupK k t with
         | some x => Generated.comparisonOperators.contains x
         | none => false))
     | none => false) = true := by decide +kernel

def handlerName : Handler → String
  | .string => "parse_string_literal" | .boolean => "parse_boolean" | .float => "parse_float_literal"
  | .function => "parse_function_extension" | .int => "parse_integer_literal"
  | .grouped => "parse_grouped_expression" | .prefix => "parse_prefix_expression" | .null => "parse_null"
  | .rootQuery => "parse_root_query" | .relQuery => "parse_relative_query"

/-- the two dispatch maps -/
theorem token_map_model :
    (match tableK Generated.tokenMap with
     | some t => allKinds.all (fun k => (Impl.tokenMap k).map handlerName = lookupK k t)
     | none => false) = true := by decide +kernel

theorem function_argument_map_model :
    (match tableK Generated.functionArgumentMap with
     | some t => allKinds.all (fun k => (Impl.functionArgumentMap k).map handlerName = lookupK k t)
     | none => false) = true := by decide +kernel

/-- the regular expressions the scanners of `Impl.Lex` were written against -/
theorem regexes_model : Generated.regexes =
    [("RE_FALSE", "false(?![a-z_0-9(])"),
     ("RE_FLOAT", "(:?-?[0-9]+\\.[0-9]+(?:[eE][+-]?[0-9]+)?)|(-?[0-9]+[eE]-[0-9]+)"),
     ("RE_FUNCTION_NAME", "[a-z][a-z_0-9]*"),
     ("RE_INDEX", "-?[0-9]+"),
     ("RE_INT", "-?[0-9]+(?:[eE]\\+?[0-9]+)?"),
     ("RE_NULL", "null(?![a-z_0-9(])"),
     ("RE_PROPERTY", "[\\u0080-\\U0010FFFFa-zA-Z_][\\u0080-\\U0010FFFFa-zA-Z0-9_]*"),
     ("RE_TRUE", "true(?![a-z_0-9(])"),
     ("RE_WHITESPACE", "[ \\n\\r\\t]+")] ∧
    Generated.regexFlags.all (fun p => p.2 = 32) = true := by decide +kernel

/-- `ESCAPES` -/
theorem escapes_model :
    (List.range 0x250).all (fun n =>
      Impl.isEscapeChar (Char.ofNat n) = Generated.escapes.contains (String.singleton (Char.ofNat n))) = true ∧
    Generated.escapes.all (fun s => s.length = 1 && s.toList.all (fun c => c.toNat < 0x250)) = true := by
  decide +kernel

/-- integer range and recursion limit defaults of `JSONPathEnvironment` -/
theorem env_defaults_model :
    let e : Impl.Env := {}
    Generated.envDefaults = [("max_int_index", e.maxIdx), ("min_int_index", e.minIdx),
      ("max_recursion_depth", e.maxDepth), ("nondeterministic", if e.nondet then 1 else 0)] := by decide +kernel

def tyName : Ty → String
  | .value => "VALUE" | .logical => "LOGICAL" | .nodes => "NODES"

/-- signatures of the built-in functions -/
theorem builtin_sigs_model : Generated.builtins =
    [("count", "Count", Impl.countFunc.argTypes.map tyName, tyName Impl.countFunc.ret),
     ("length", "Length", Impl.lengthFunc.argTypes.map tyName, tyName Impl.lengthFunc.ret),
     ("match", "Match", ["VALUE", "VALUE"], "LOGICAL"),
     ("search", "Search", ["VALUE", "VALUE"], "LOGICAL"),
     ("value", "Value", Impl.valueFunc.argTypes.map tyName, tyName Impl.valueFunc.ret)] := by decide +kernel

/-- serializer precedence constants (filter_expressions.py) -/
def serConst (n : String) : Int := (lookupS n Generated.serPrecConsts).getD 0

/-- every exception class of exceptions.py derives from JSONPathError -/
theorem exceptions_model :
    Generated.excParents.all (fun p => p.1 = "JSONPathError" || p.2.contains "JSONPathError") = true ∧
    (["JSONPathSyntaxError", "JSONPathTypeError", "JSONPathIndexError", "JSONPathNameError",
      "JSONPathRecursionError", "JSONPathLexerError"].all
        (fun n => (Generated.excParents.map Prod.fst).contains n)) = true := by decide +kernel

/-- the regex engine is called with the pattern and the subject only (no flags), and the
only exceptions swallowed are `TypeError` and `re.error` -/
theorem re_calls_model : Generated.reCalls =
    [("function_extensions/match.py", "re.fullmatch", 2, []),
     ("function_extensions/match.py", "except", 1, ["(TypeError,re.error)"]),
     ("function_extensions/search.py", "re.search", 2, []),
     ("function_extensions/search.py", "except", 1, ["(TypeError,re.error)"])] := by decide +kernel

/-! ### effect scan (C14, C16, C17) -/

/-- Names that are local variables of the function that mutates them (fresh per call). -/
def localNames : List String :=
  ["_args", "parts", "unescaped", "selectors", "function_arguments", "parenthesized_arguments", "queue"]

/-- A store is benign when its target cannot outlive the call: the `Lexer` and
`TokenStream` objects created inside one `compile()` call, local lists, the
exception in flight, and the environment's own set-up called from `__init__`. -/
def benignWrite (w : String × String) : Bool :=
  "lex.py:".toList.isPrefixOf w.1.toList ||
  "tokens.py:TokenStream.".toList.isPrefixOf w.1.toList ||
  (w.1 = "environment.py:JSONPathEnvironment.setup_function_extensions" && w.2 = "self.function_extensions[]") ||
  (w.1 = "selectors.py:FilterSelector.resolve" && w.2 = "err.token") ||
  localNames.any (fun n => w.2 = "call " ++ n ++ ".append" || w.2 = "call " ++ n ++ ".extend" ||
    w.2 = "call " ++ n ++ ".popleft" || w.2 = "call " ++ n ++ ".pop")

/-- no attribute store, global rebinding or container mutation on any object that
outlives a call (selectors, segments, expressions, queries, nodes, environments,
module globals, the document) -/
theorem writes_benign : Generated.writes.all benignWrite = true := by decide +kernel

/-- every call into `random` is one of the five sites the nondeterministic model covers -/
theorem random_sites_model : Generated.randomCalls =
    [("segments.py:JSONPathRecursiveDescentSegment._nondeterministic_visit", "random.choice"),
     ("segments.py:JSONPathRecursiveDescentSegment._nondeterministic_visit", "random.sample"),
     ("segments.py:_nondeterministic_children", "random.shuffle"),
     ("selectors.py:FilterSelector.resolve", "random.shuffle"),
     ("selectors.py:WildcardSelector.resolve", "random.shuffle")] := by decide +kernel

end JPV.Tables
