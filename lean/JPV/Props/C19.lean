/-
C19 — Reported error positions are real positions in the query text.

Property text: "Whenever compile() rejects a query, the error identifies an
offset inside the query text (between 0 and its length), and the line and column
printed in the error message are exactly the line and column of that offset in
the query text, for single-line and multi-line queries alike."
-/
import JPV.Impl.Parse
import JPV.Spec.Position
import JPV.Proofs.Position
namespace JPV.Props
open JPV

/-- `Token.position()` (count / rfind over the query text) is the line and column of the offset -/
def C19_linecol_statement : Prop :=
  ∀ (s : Str) (off : Nat), off ≤ s.length →
    Impl.position s off = ((Spec.lineCol s off).1, ((Spec.lineCol s off).2 : Int))

theorem C19_linecol : C19_linecol_statement := Proofs.position_correct

/-- every error compile() raises carries a token, and its offset lies in `[0, |s|]` -/
def C19_offset_statement : Prop :=
  ∀ (env : Impl.Env) (s : Str) (e : Impl.Err), Impl.compile env s = .error e →
    e.kind.isJSONPathError = true →
    ∃ t, e.tok = some t ∧ 0 ≤ t.index ∧ t.index ≤ (s.length : Int)

theorem C19_offset : C19_offset_statement := Proofs.compile_error_offset

/-- the lexer half on its own: every token the lexer produces, and every lexer
error, is positioned inside the text -/
theorem C19_tokens (s : Str) (toks : List Impl.Token) (h : Impl.tokenize s = .ok toks) :
    ∀ t ∈ toks, 0 ≤ t.index ∧ t.index ≤ (s.length : Int) := Proofs.tokenize_offsets s toks h

example : Impl.position "$.a\n.b c".toList 7 = (2, 3) := by decide
example : Spec.lineCol "$.a\n.b c".toList 7 = (2, 3) := by decide

end JPV.Props
