/-
Pure (non-monadic) lemmas about `Spec.Typing` used by the parser invariant:
append lemmas, `argWellTyped` vs. the RFC rule, what the `_raise_for_*` checks
establish on expressions the parser built.
-/
import JPV.Impl.Parse
import JPV.Spec.Typing
namespace JPV.Proofs
open JPV JPV.Impl

/-- the signature table of an environment -/
def sigsOf (env : Impl.Env) : Spec.Sigs :=
  fun n => (env.func n).map (fun f => ⟨f.argTypes, f.ret⟩)

/-- well-typed as a test or as a comparable -/
def BuiltS (env : Impl.Env) (e : Expr) : Prop :=
  Spec.wtTest (sigsOf env) e = true ∨ Spec.wtComparable (sigsOf env) e = true

theorem argWellTyped_iff' (env : Impl.Env) (t : Ty) (a : Expr) (h : BuiltS env a) :
    Impl.argWellTyped env t a = true ↔
      (match t with
       | .value => Spec.wtComparable (sigsOf env) a = true
       | .logical => Spec.wtTest (sigsOf env) a = true
       | .nodes => Spec.wtNodes (sigsOf env) a = true) := by
  unfold BuiltS at h
  cases a with
  | call name args =>
    cases hf : env.func name with
    | none => simp [Spec.wtTest, Spec.wtComparable, sigsOf, hf] at h
    | some f =>
      cases t <;>
      simp [Spec.wtTest, Spec.wtComparable, Spec.wtNodes, sigsOf, hf, Impl.argWellTyped,
        Impl.functionReturnType] at h ⊢ <;>
      rcases h with h | h <;> simp [h]
  | _ =>
    cases t <;>
    simp [Spec.wtTest, Spec.wtComparable, Spec.wtNodes, Impl.argWellTyped,
      Impl.functionReturnType] at h ⊢ <;>
    first
      | exact h
      | (rcases h with h | ⟨_, h⟩ <;> (first | exact h | exact fun _ => h))

/-! ### the invariants -/

/-- an expression the parser built: well-typed one way or the other, integers in range -/
def GoodE (env : Impl.Env) (e : Expr) : Prop :=
  BuiltS env e ∧ Spec.intsExpr env.minIdx env.maxIdx e = true

def GoodPx (env : Impl.Env) (x : PExpr) : Prop := GoodE env x.e

def SelOK (env : Impl.Env) (s : Selector) : Prop :=
  Spec.wtSel (sigsOf env) s = true ∧ Spec.intsSel env.minIdx env.maxIdx s = true

def SelsOK (env : Impl.Env) (ss : List Selector) : Prop :=
  Spec.wtSels (sigsOf env) ss = true ∧ Spec.intsSels env.minIdx env.maxIdx ss = true

def QOK (env : Impl.Env) (q : List Segment) : Prop :=
  Spec.wtQuery (sigsOf env) q = true ∧ Spec.intsQuery env.minIdx env.maxIdx q = true

def ArgsOK (env : Impl.Env) (args : List Expr) : Prop := ∀ a, a ∈ args → GoodE env a

theorem wtSels_append (sg : Spec.Sigs) (a b : List Selector) :
    Spec.wtSels sg (a ++ b) = (Spec.wtSels sg a && Spec.wtSels sg b) := by
  induction a with
  | nil => simp [Spec.wtSels]
  | cons x xs ih => simp [Spec.wtSels, ih, Bool.and_assoc]

theorem intsSels_append (lo hi : Int) (a b : List Selector) :
    Spec.intsSels lo hi (a ++ b) = (Spec.intsSels lo hi a && Spec.intsSels lo hi b) := by
  induction a with
  | nil => simp [Spec.intsSels]
  | cons x xs ih => simp [Spec.intsSels, ih, Bool.and_assoc]

theorem wtQuery_append (sg : Spec.Sigs) (a b : List Segment) :
    Spec.wtQuery sg (a ++ b) = (Spec.wtQuery sg a && Spec.wtQuery sg b) := by
  induction a with
  | nil => simp [Spec.wtQuery]
  | cons x xs ih => simp [Spec.wtQuery, ih, Bool.and_assoc]

theorem intsQuery_append (lo hi : Int) (a b : List Segment) :
    Spec.intsQuery lo hi (a ++ b) = (Spec.intsQuery lo hi a && Spec.intsQuery lo hi b) := by
  induction a with
  | nil => simp [Spec.intsQuery]
  | cons x xs ih => simp [Spec.intsQuery, ih, Bool.and_assoc]

theorem SelsOK.nil (env : Impl.Env) : SelsOK env [] := by simp [SelsOK, Spec.wtSels, Spec.intsSels]

theorem SelsOK.one {env : Impl.Env} {s : Selector} (h : SelOK env s) : SelsOK env [s] := by
  simpa [SelsOK, SelOK, Spec.wtSels, Spec.intsSels] using h

theorem SelsOK.snoc {env : Impl.Env} {acc : List Selector} {s : Selector}
    (h : SelsOK env acc) (hs : SelOK env s) : SelsOK env (acc ++ [s]) := by
  simp only [SelsOK, SelOK] at *
  simp [wtSels_append, intsSels_append, Spec.wtSels, Spec.intsSels, h.1, h.2, hs.1, hs.2]

theorem QOK.nil (env : Impl.Env) : QOK env [] := by simp [QOK, Spec.wtQuery, Spec.intsQuery]

theorem QOK.snoc_child {env : Impl.Env} {acc : List Segment} {sels : List Selector}
    (h : QOK env acc) (hs : SelsOK env sels) : QOK env (acc ++ [.child sels]) := by
  simp only [QOK, SelsOK] at *
  simp [wtQuery_append, intsQuery_append, Spec.wtQuery, Spec.intsQuery, Spec.wtSeg, Spec.intsSeg,
    h.1, h.2, hs.1, hs.2]

theorem QOK.snoc_desc {env : Impl.Env} {acc : List Segment} {sels : List Selector}
    (h : QOK env acc) (hs : SelsOK env sels) : QOK env (acc ++ [.desc sels]) := by
  simp only [QOK, SelsOK] at *
  simp [wtQuery_append, intsQuery_append, Spec.wtQuery, Spec.intsQuery, Spec.wtSeg, Spec.intsSeg,
    h.1, h.2, hs.1, hs.2]

theorem ArgsOK.nil (env : Impl.Env) : ArgsOK env [] := by simp [ArgsOK]

theorem ArgsOK.snoc {env : Impl.Env} {args : List Expr} {a : Expr}
    (h : ArgsOK env args) (ha : GoodE env a) : ArgsOK env (args ++ [a]) := by
  intro b hb
  rcases List.mem_append.1 hb with hb | hb
  · exact h b hb
  · simp at hb; subst hb; exact ha

theorem intsArgs_iff (lo hi : Int) (args : List Expr) :
    Spec.intsArgs lo hi args = true ↔ ∀ a, a ∈ args → Spec.intsExpr lo hi a = true := by
  induction args with
  | nil => simp [Spec.intsArgs]
  | cons x xs ih => simp [Spec.intsArgs, ih]

/-- the per-argument check of `validate_function_extension_signature` on built arguments -/
theorem wtArgs_of_zip (env : Impl.Env) (tys : List Ty) (args : List Expr)
    (hlen : args.length = tys.length)
    (hall : (List.zipWith (Impl.argWellTyped env) tys args).all id = true)
    (hb : ∀ a, a ∈ args → BuiltS env a) :
    Spec.wtArgs (sigsOf env) tys args = true := by
  induction tys generalizing args with
  | nil =>
    cases args with
    | nil => simp [Spec.wtArgs]
    | cons a as => simp at hlen
  | cons t ts ih =>
    cases args with
    | nil => simp at hlen
    | cons a as =>
      simp only [List.zipWith_cons_cons, List.all_cons, Bool.and_eq_true, id] at hall
      have h1 := (argWellTyped_iff' env t a (hb a (by simp))).1 hall.1
      have h2 := ih as (by simpa using hlen) hall.2 (fun b hb' => hb b (by simp [hb']))
      cases t <;> simp [Spec.wtArgs, h2] <;> exact h1

/-- what a successful `validate_function_extension_signature` establishes -/
theorem built_call {env : Impl.Env} {name : Str} {args : List Expr} {f : Func}
    (hf : env.func name = some f) (hlen : args.length = f.argTypes.length)
    (hall : (List.zipWith (Impl.argWellTyped env) f.argTypes args).all id = true)
    (hb : ∀ a, a ∈ args → BuiltS env a) : BuiltS env (.call name args) := by
  have h := wtArgs_of_zip env f.argTypes args hlen hall hb
  unfold BuiltS
  cases hr : f.ret <;> simp [Spec.wtTest, Spec.wtComparable, sigsOf, hf, hr, h]

/-- what a successful `_raise_for_uncompared` (or the two checks of
`parse_filter_selector`) establishes on a built expression -/
theorem built_wtTest {env : Impl.Env} {e : Expr} (h : BuiltS env e)
    (hl : Impl.isLiteral e = false)
    (hc : ∀ name args f, e = .call name args → env.func name = some f → f.ret ≠ .value) :
    Spec.wtTest (sigsOf env) e = true := by
  unfold BuiltS at h
  cases e with
  | lit v => simp [Impl.isLiteral] at hl
  | call name args =>
    cases hf : env.func name with
    | none => simp [Spec.wtTest, Spec.wtComparable, sigsOf, hf] at h
    | some f =>
      have := hc name args f rfl hf
      simp [Spec.wtTest, Spec.wtComparable, sigsOf, hf] at h ⊢
      rcases h with h | h
      · exact h
      · exact absurd h.1 this
  | _ =>
    simp [Spec.wtTest, Spec.wtComparable] at h ⊢ <;>
    first
      | exact h
      | (rcases h with h | ⟨_, h⟩ <;> exact h)

theorem SelOK.index {env : Impl.Env} {i : Int} (h : ¬(!Impl.inRange env i) = true) :
    SelOK env (.index i) := by
  simpa [SelOK, Spec.wtSel, Spec.intsSel, Impl.inRange, Spec.inRange] using h

theorem SelOK.name (env : Impl.Env) (s : Str) : SelOK env (.name s) := by
  simp [SelOK, Spec.wtSel, Spec.intsSel]

theorem SelOK.wild (env : Impl.Env) : SelOK env .wild := by
  simp [SelOK, Spec.wtSel, Spec.intsSel]

theorem SelOK.filter {env : Impl.Env} {e : Expr} (h : GoodE env e)
    (ht : Spec.wtTest (sigsOf env) e = true) : SelOK env (.filter e) := by
  simp [SelOK, Spec.wtSel, Spec.intsSel, ht, h.2]

theorem GoodE.root {env : Impl.Env} {q : List Segment} (h : QOK env q) : GoodE env (.root q) := by
  simp [GoodE, BuiltS, Spec.wtTest, Spec.intsExpr, h.1, h.2]

theorem GoodE.rel {env : Impl.Env} {q : List Segment} (h : QOK env q) : GoodE env (.rel q) := by
  simp [GoodE, BuiltS, Spec.wtTest, Spec.intsExpr, h.1, h.2]

theorem GoodE.cmp {env : Impl.Env} {l r : Expr} (op : COp) (hl : GoodE env l) (hr : GoodE env r)
    (h1 : Spec.wtComparable (sigsOf env) l = true) (h2 : Spec.wtComparable (sigsOf env) r = true) :
    GoodE env (.cmp op l r) := by
  simp [GoodE, BuiltS, Spec.wtTest, Spec.intsExpr, h1, h2, hl.2, hr.2]

theorem GoodE.logical {env : Impl.Env} {l r : Expr} (op : LOp) (hl : GoodE env l) (hr : GoodE env r)
    (h1 : Spec.wtTest (sigsOf env) l = true) (h2 : Spec.wtTest (sigsOf env) r = true) :
    GoodE env (.logical op l r) := by
  simp [GoodE, BuiltS, Spec.wtTest, Spec.intsExpr, h1, h2, hl.2, hr.2]

theorem GoodE.not {env : Impl.Env} {e : Expr} (h : GoodE env e)
    (h1 : Spec.wtTest (sigsOf env) e = true) : GoodE env (.not e) := by
  simp [GoodE, BuiltS, Spec.wtTest, Spec.intsExpr, h1, h.2]

theorem GoodE.call {env : Impl.Env} {name : Str} {args : List Expr}
    (hb : BuiltS env (.call name args)) (h : ArgsOK env args) : GoodE env (.call name args) := by
  refine ⟨hb, ?_⟩
  simp only [Spec.intsExpr]
  exact (intsArgs_iff _ _ _).2 (fun a ha => (h a ha).2)

end JPV.Proofs
