import JPV.Impl.Api
namespace JPV.Proofs
open JPV JPV.Impl

theorem findOne_head (env : Env) (q : Query) (v : Json) (l : List Node)
    (h : Api.queryFind env q v = .ok l) : Api.queryFindOne env q v = .ok l.head? := by sorry

theorem findOne_lazy (env : Env) (q : Query) (v : Json) (n : Node) (rest : List Node) (e : Option ErrKind)
    (h : Api.queryFinditer env q v = (n :: rest, e)) : Api.queryFindOne env q v = .ok (some n) := by sorry

theorem env_paths (env : Env) (s : Str) (q : Query) (v : Json) (h : Impl.compile env s = .ok q) :
    Api.envFind env s v = Api.queryFind env q v ∧
    Api.envFindOne env s v = Api.queryFindOne env q v ∧
    Api.envFinditer env s v = .ok (Api.queryFinditer env q v) := by sorry

theorem env_invalid (env : Env) (s : Str) (e : Err) (v : Json) (h : Impl.compile env s = .error e) :
    Api.envFind env s v = .error e.kind ∧ Api.envFindOne env s v = .error e.kind ∧
    Api.envFinditer env s v = .error e.kind := by sorry

theorem apply_pure (w : World) (q : QueryId) (v : Json) : (w.step (.apply q v)).1 = w := by sorry

theorem envFind_pure (w : World) (e : EnvId) (s : Str) (v : Json) : (w.step (.envFind e s v)).1 = w := by sorry

theorem apply_deterministic (w1 w2 : World) (q1 q2 : QueryId) (v : Json) (e1 e2 : EnvId) (ast : Query) (env : Env)
    (h1 : w1.query q1 = some (e1, ast)) (h2 : w2.query q2 = some (e2, ast))
    (g1 : w1.env e1 = some env) (g2 : w2.env e2 = some env) :
    (w1.step (.apply q1 v)).2 = (w2.step (.apply q2 v)).2 := by sorry

theorem history_irrelevant : ∀ (w : World) (ops : List Op) (q : QueryId) (e : EnvId) (ast : Query) (v : Json),
    w.WF → w.query q = some (e, ast) →
    (∀ op ∈ ops, ∀ name f, op ≠ .register e name f) →
    ((w.run ops).step (.apply q v)).2 = (w.step (.apply q v)).2 := by sorry

theorem frame_register (w : World) (e e' : EnvId) (name : Str) (f : Func) (h : e' ≠ e) :
    ((w.step (.register e name f)).1).env e' = w.env e' := by sorry

theorem frame_newEnv (w : World) (cfg : Env) (e : EnvId) (hw : w.WF) (h : e < w.envs.length) :
    ((w.step (.newEnv cfg)).1).env e = w.env e := by sorry

theorem recompile (w : World) (e : EnvId) (s : Str) (hw : w.WF) (q1 q2 : QueryId)
    (h1 : (w.step (.compile e s)).2 = .compiled q1)
    (h2 : ((w.step (.compile e s)).1.step (.compile e s)).2 = .compiled q2) (v : Json) :
    (((w.step (.compile e s)).1.step (.compile e s)).1.step (.apply q1 v)).2 =
    (((w.step (.compile e s)).1.step (.compile e s)).1.step (.apply q2 v)).2 := by sorry

theorem interleave_independent : ∀ (streams : List Stream) (schedule : List Nat) (i : Nat) (s : Stream),
    streams[i]? = some s →
    ((runSchedule streams (List.replicate streams.length 0) schedule).filter (·.1 = i)).map (·.2)
      = solitary s ((schedule.filter (· = i)).length) := by sorry

theorem abandon (streams : List Stream) (schedule : List Nat) (i : Nat) (s : Stream) (h : streams[i]? = some s) :
    ((runSchedule streams (List.replicate streams.length 0) schedule).filter (·.1 = i)).map (·.2) =
    ((runSchedule streams (List.replicate streams.length 0) (schedule.filter (· = i))).filter (·.1 = i)).map (·.2) := by
  sorry

end JPV.Proofs
