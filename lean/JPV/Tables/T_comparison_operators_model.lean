import JPV.Tables.Common
namespace JPV.Tables
open JPV JPV.Impl

theorem comparison_operators_model :
    (match tableK Generated.binaryOperators with
     | some t => allKinds.all (fun k => Impl.isComparisonTok k =
        (match lookupK k t with
         | some x => Generated.comparisonOperators.contains x
         | none => false))
     | none => false) = true := by decide +kernel

end JPV.Tables
