/-
`Proofs.Pc.Print` — GRAMMAR: the printed text of a query the parser can have built (`OkQ`: non-empty
selector lists, function names as the grammar spells them, literals whose spelling reads back; and
well-typed) is derived by the RFC 9535 grammar with the canonical derivation tree `csegs q`.
Mutual induction over expressions / selectors / segments; filters nested at any depth.
-/
import JPV.Spec.Typing
import JPV.Proofs.Pc.Comb
namespace JPV.Proofs.Pc
open JPV JPV.Impl JPV.Proofs.Prn JPV.Proofs.Pf

/-! ### what is needed of a query beyond well-typedness -/

mutual
def OkE : Expr → Prop
  | .lit v => LitOK v
  | .not e => OkE e
  | .logical _ l r => OkE l ∧ OkE r
  | .cmp _ l r => OkE l ∧ OkE r
  | .rel q => OkQ q
  | .root q => OkQ q
  | .call f args => nameOK f = true ∧ OkArgs args
def OkArgs : List Expr → Prop
  | [] => True
  | a :: as => OkE a ∧ OkArgs as
def OkSel : Selector → Prop
  | .filter e => OkE e
  | _ => True
def OkSels : List Selector → Prop
  | [] => True
  | s :: ss => OkSel s ∧ OkSels ss
def OkQ : List Segment → Prop
  | [] => True
  | .child sels :: rest => sels ≠ [] ∧ OkSels sels ∧ OkQ rest
  | .desc sels :: rest => sels ≠ [] ∧ OkSels sels ∧ OkQ rest
end

/-- queries and calls -/
def isTermLike : Expr → Bool
  | .rel _ => true
  | .root _ => true
  | .call _ _ => true
  | _ => false

/-! ### printed arguments that are not literals -/

theorem noLit_head (c : Char) (t : List Char) (hc : c = '(' ∨ c = '!' ∨ c = '@' ∨ c = '$') :
    NoLitArg (c :: t) := (ArgForm.head c t hc).noLit

theorem noLit_call (fn X : Str) (hfn : nameOK fn = true) : NoLitArg (fn ++ '(' :: X) :=
  (ArgForm.call fn X hfn).noLit

theorem noLit_cmpLit (v : Json) (hv : LitOK v) (op : COp) (X : List Char) :
    NoLitArg (Impl.strLit v ++ ' ' :: (Impl.copText op ++ X)) := by
  intro rest v' r hl
  have := literal_strLit v hv (' ' :: (Impl.copText op ++ X) ++ rest) ⟨' ', _, rfl, .inl rfl⟩
  rw [List.append_assoc, this] at hl
  simp only [Option.some.injEq, Prod.mk.injEq] at hl
  rw [← hl.2]
  obtain ⟨d, u, ed, hd⟩ := copText_cases op
  rw [ed]
  simp only [List.cons_append, skipS_sp]
  have hdb : Spec.isBlank d = false := by rcases hd with rfl | rfl | rfl | rfl <;> decide
  rw [skipS_cons hdb]
  refine ⟨fun t' h => ?_, fun t' h => ?_⟩ <;> simp only [List.cons.injEq] at h <;>
    rcases hd with rfl | rfl | rfl | rfl <;> exact absurd h.1 (by decide)

variable (sg : Spec.Sigs)

theorem noLit_cmpLhs (l : Expr) (h : Spec.wtComparable sg l = true) (ho : OkE l) (op : COp) (Y : List Char) :
    NoLitArg (Impl.strExpr l ++ [' '] ++ Impl.copText op ++ Y) := by
  cases l with
  | lit v =>
    rw [OkE] at ho
    rw [strExpr_lit]
    have := noLit_cmpLit v ho op Y
    simpa using this
  | rel q => rw [strExpr_rel]; exact noLit_head '@' _ (by simp)
  | root q => rw [strExpr_root]; exact noLit_head '$' _ (by simp)
  | call f args =>
    rw [OkE] at ho
    rw [strExpr_call]
    have := noLit_call f (Impl.strArgs args ++ [')'] ++ [' '] ++ Impl.copText op ++ Y) ho.1
    simpa using this
  | not e => simp [Spec.wtComparable] at h
  | logical o a b => simp [Spec.wtComparable] at h
  | cmp o a b => simp [Spec.wtComparable] at h

theorem noLit_test (e : Expr) (h : Spec.wtTest sg e = true) (ho : OkE e) : NoLitArg (Impl.strExpr e) := by
  cases e with
  | lit v => simp [Spec.wtTest] at h
  | rel q => rw [strExpr_rel]; exact noLit_head '@' _ (by simp)
  | root q => rw [strExpr_root]; exact noLit_head '$' _ (by simp)
  | call f args =>
    rw [OkE] at ho
    rw [strExpr_call]
    have := noLit_call f (Impl.strArgs args ++ [')']) ho.1
    simpa using this
  | not e =>
    cases e with
    | cmp o a b => rw [strExpr_not_cmp]; exact noLit_head '!' _ (by simp)
    | not x => rw [strExpr_not_not]; exact noLit_head '!' _ (by simp)
    | logical o a b => rw [strExpr_not_logical]; exact noLit_head '!' _ (by simp)
    | rel q => rw [strExpr_not_rel]; exact noLit_head '!' _ (by simp)
    | root q => rw [strExpr_not_root]; exact noLit_head '!' _ (by simp)
    | call f args => rw [strExpr_not_call]; exact noLit_head '!' _ (by simp)
    | lit v => simp [Spec.wtTest] at h
  | logical o a b =>
    cases o with
    | and => rw [strExpr_and]; exact noLit_head '(' _ (by simp)
    | or => rw [strExpr_or]; exact noLit_head '(' _ (by simp)
  | cmp o a b =>
    simp only [Spec.wtTest, Bool.and_eq_true] at h
    rw [OkE] at ho
    rw [strExpr_cmp]
    have := noLit_cmpLhs sg a h.1 ho.1 o ([' '] ++ Impl.strExpr b)
    simpa using this

theorem noLit_termLike (e : Expr) (h : Spec.wtComparable sg e = true) (ho : OkE e) (hl : ∀ v, e ≠ .lit v) :
    NoLitArg (Impl.strExpr e) := by
  cases e with
  | lit v => exact absurd rfl (hl v)
  | rel q => rw [strExpr_rel]; exact noLit_head '@' _ (by simp)
  | root q => rw [strExpr_root]; exact noLit_head '$' _ (by simp)
  | call f args =>
    rw [OkE] at ho
    rw [strExpr_call]
    have := noLit_call f (Impl.strArgs args ++ [')']) ho.1
    simpa using this
  | not e => simp [Spec.wtComparable] at h
  | logical o a b => simp [Spec.wtComparable] at h
  | cmp o a b => simp [Spec.wtComparable] at h

/-! ### expressions printed by `strExpr` -/

/-- what the induction establishes for one expression printed by `strExpr` -/
def StrOK (e : Expr) : Prop :=
  (Spec.wtTest sg e = true → PB (Impl.strExpr e) (cstr e)) ∧
  ((Spec.wtComparable sg e = true ∨ (Spec.wtTest sg e = true ∧ isTermLike e = true)) →
    PT (Impl.strExpr e) (cstr e))

theorem cstr_rel_notLit (q) : ∀ v, cstr (.rel q) ≠ .lit v := by rw [cstr_rel]; intro v h; cases h
theorem cstr_root_notLit (q) : ∀ v, cstr (.root q) ≠ .lit v := by rw [cstr_root]; intro v h; cases h
theorem cstr_call_notLit (f a) : ∀ v, cstr (.call f a) ≠ .lit v := by rw [cstr_call]; intro v h; cases h

theorem strOK_lit (v : Json) (hv : LitOK v) : StrOK sg (.lit v) := by
  refine ⟨fun h => ?_, fun _ => ?_⟩
  · simp [Spec.wtTest] at h
  · rw [strExpr_lit, cstr_lit]; exact PT_lit v hv

theorem strOK_not (e : Expr) (ih : StrOK sg e) : StrOK sg (.not e) := by
  refine ⟨fun h => ?_, fun h => ?_⟩
  · simp only [Spec.wtTest] at h
    have hb := ih.1 h
    cases e with
    | lit v => simp [Spec.wtTest] at h
    | cmp o a b => rw [strExpr_not_cmp, cstr_not_cmp]; exact hb.toO.notParen
    | not x => rw [strExpr_not_not, cstr_not_not]; exact hb.toO.notParen
    | logical o a b =>
      rw [strExpr_not_logical, cstr_not_logical]
      cases o with
      | and => rw [strExpr_and] at hb ⊢; exact PB.notOfParen hb
      | or => rw [strExpr_or] at hb ⊢; exact PB.notOfParen hb
    | rel q => rw [strExpr_not_rel, cstr_not_rel]; exact (ih.2 (Or.inr ⟨h, rfl⟩)).not (cstr_rel_notLit q)
    | root q => rw [strExpr_not_root, cstr_not_root]; exact (ih.2 (Or.inr ⟨h, rfl⟩)).not (cstr_root_notLit q)
    | call f args =>
      rw [strExpr_not_call, cstr_not_call]; exact (ih.2 (Or.inr ⟨h, rfl⟩)).not (cstr_call_notLit f args)
  · rcases h with h | ⟨_, h⟩
    · simp [Spec.wtComparable] at h
    · cases h

theorem strOK_logical (op : LOp) (l r : Expr) (ihl : StrOK sg l) (ihr : StrOK sg r) :
    StrOK sg (.logical op l r) := by
  refine ⟨fun h => ?_, fun h => ?_⟩
  · simp only [Spec.wtTest, Bool.and_eq_true] at h
    cases op with
    | and => rw [strExpr_and, cstr_and]; exact (ihl.1 h.1).andParen (ihr.1 h.2)
    | or => rw [strExpr_or, cstr_or]; exact (ihl.1 h.1).orParen (ihr.1 h.2)
  · rcases h with h | ⟨_, h⟩
    · simp [Spec.wtComparable] at h
    · cases h

theorem strOK_cmp (op : COp) (l r : Expr) (ihl : StrOK sg l) (ihr : StrOK sg r) :
    StrOK sg (.cmp op l r) := by
  refine ⟨fun h => ?_, fun h => ?_⟩
  · simp only [Spec.wtTest, Bool.and_eq_true] at h
    rw [strExpr_cmp, cstr_cmp]
    exact PT.cmp op (ihl.2 (Or.inl h.1)) (ihr.2 (Or.inl h.2))
  · rcases h with h | ⟨_, h⟩
    · simp [Spec.wtComparable] at h
    · cases h

theorem strOK_rel (q : List Segment) (hq : Spec.wtQuery sg q = true → PQ q) : StrOK sg (.rel q) := by
  have key : (Spec.wtComparable sg (.rel q) = true ∨ Spec.wtTest sg (.rel q) = true) → PQ q := by
    intro h
    simp only [Spec.wtComparable, Spec.wtTest, Bool.and_eq_true] at h
    exact hq (h.elim (fun h => h.2) id)
  refine ⟨fun h => ?_, fun h => ?_⟩
  · rw [strExpr_rel, cstr_rel]; exact (PT_rel (key (.inr h))).test (by intro v h; cases h)
  · rw [strExpr_rel, cstr_rel]; exact PT_rel (key (h.elim .inl (fun h => .inr h.1)))

theorem strOK_root (q : List Segment) (hq : Spec.wtQuery sg q = true → PQ q) : StrOK sg (.root q) := by
  have key : (Spec.wtComparable sg (.root q) = true ∨ Spec.wtTest sg (.root q) = true) → PQ q := by
    intro h
    simp only [Spec.wtComparable, Spec.wtTest, Bool.and_eq_true] at h
    exact hq (h.elim (fun h => h.2) id)
  refine ⟨fun h => ?_, fun h => ?_⟩
  · rw [strExpr_root, cstr_root]; exact (PT_root (key (.inr h))).test (by intro v h; cases h)
  · rw [strExpr_root, cstr_root]; exact PT_root (key (h.elim .inl (fun h => .inr h.1)))

theorem strOK_call (f : Str) (args : List Expr) (hf : nameOK f = true)
    (iha : ∀ tys, Spec.wtArgs sg tys args = true → ∀ a ∈ args, PArg (Impl.strExpr a) (cstr a)) :
    StrOK sg (.call f args) := by
  have key : (Spec.wtComparable sg (.call f args) = true ∨ Spec.wtTest sg (.call f args) = true) →
      PT (Impl.strExpr (.call f args)) (cstr (.call f args)) := by
    intro h
    simp only [Spec.wtComparable, Spec.wtTest] at h
    cases hs : sg f with
    | none => simp [hs] at h
    | some s =>
      simp only [hs, Bool.and_eq_true] at h
      rw [strExpr_call, cstr_call]
      exact PT_call f hf args (iha s.argTypes (h.elim (fun h => h.2) (fun h => h.2)))
  refine ⟨fun h => ?_, fun h => ?_⟩
  · exact (key (.inr h)).test (cstr_call_notLit f args)
  · exact key (h.elim .inl (fun h => .inr h.1))

/-- one argument, whatever its declared parameter type -/
theorem parg_of (t : Ty) (a : Expr) (ih : StrOK sg a) (ho : OkE a)
    (h : (match t with
      | .value => Spec.wtComparable sg a
      | .logical => Spec.wtTest sg a
      | .nodes => Spec.wtNodes sg a) = true) : PArg (Impl.strExpr a) (cstr a) := by
  have htest : Spec.wtTest sg a = true → PArg (Impl.strExpr a) (cstr a) :=
    fun ht => (ih.1 ht).toO.arg (noLit_test sg a ht ho)
  cases t with
  | logical => exact htest h
  | nodes =>
    refine htest ?_
    cases a with
    | rel q => simpa [Spec.wtNodes, Spec.wtTest] using h
    | root q => simpa [Spec.wtNodes, Spec.wtTest] using h
    | call f args =>
      simp only [Spec.wtNodes, Spec.wtTest] at h ⊢
      cases hs : sg f with
      | none => simp [hs] at h
      | some s =>
        simp only [hs, Bool.and_eq_true, beq_iff_eq] at h ⊢
        exact ⟨by simp [h.1], h.2⟩
    | lit v => simp [Spec.wtNodes] at h
    | not e => simp [Spec.wtNodes] at h
    | logical o l r => simp [Spec.wtNodes] at h
    | cmp o l r => simp [Spec.wtNodes] at h
  | value =>
    have hc : Spec.wtComparable sg a = true := h
    cases a with
    | lit v =>
      rw [OkE] at ho
      rw [strExpr_lit, cstr_lit]
      exact PArg_lit v ho
    | rel q =>
      exact ((ih.2 (Or.inl hc)).test (cstr_rel_notLit q)).toO.arg
        (noLit_termLike sg _ hc ho (by intro v h; cases h))
    | root q =>
      exact ((ih.2 (Or.inl hc)).test (cstr_root_notLit q)).toO.arg
        (noLit_termLike sg _ hc ho (by intro v h; cases h))
    | call f args =>
      exact ((ih.2 (Or.inl hc)).test (cstr_call_notLit f args)).toO.arg
        (noLit_termLike sg _ hc ho (by intro v h; cases h))
    | not e => simp [Spec.wtComparable] at hc
    | logical o l r => simp [Spec.wtComparable] at hc
    | cmp o l r => simp [Spec.wtComparable] at hc

/-! ### expressions printed by `canonExpr` -/

/-- what the induction establishes for one expression printed by `canonExpr` -/
structure CanonOK (e : Expr) : Prop where
  b : PB (Impl.canonExpr 4 e) (ccanon 4 e)
  a : PA (Impl.canonExpr 3 e) (ccanon 3 e)
  o : PO (Impl.canonExpr 1 e) (ccanon 1 e)
  n : PB ('!' :: Impl.canonExpr 7 e) (.not (ccanon 7 e))

theorem canonOK_of_body {e : Expr} {body : Str} {cx : Spec.CExpr} (hb : PB body cx)
    (e4 : Impl.canonExpr 4 e = body) (e3 : Impl.canonExpr 3 e = body) (e1 : Impl.canonExpr 1 e = body)
    (e7 : Impl.canonExpr 7 e = ['('] ++ body ++ [')'])
    (c4 : ccanon 4 e = cx) (c3 : ccanon 3 e = cx) (c1 : ccanon 1 e = cx) (c7 : ccanon 7 e = .paren cx) :
    CanonOK e := by
  refine ⟨by rw [e4, c4]; exact hb, by rw [e3, c3]; exact hb.toA, by rw [e1, c1]; exact hb.toO, ?_⟩
  rw [e7, c7]
  exact PB.notOfParen hb.toO.paren

theorem canonOK_and (l r : Expr) (ihl : CanonOK l) (ihr : CanonOK r) : CanonOK (.logical .and l r) := by
  have hbody := ihl.b.and ihr.b.toA
  refine ⟨?_, ?_, ?_, ?_⟩
  · rw [canon_and, ccanon_and, if_pos (by decide), if_pos (by decide)]; exact hbody.toO.paren
  · rw [canon_and, ccanon_and, if_neg (by decide), if_neg (by decide)]; exact hbody
  · rw [canon_and, ccanon_and, if_neg (by decide), if_neg (by decide)]; exact hbody.toO
  · rw [canon_and, ccanon_and, if_pos (by decide), if_pos (by decide)]; exact PB.notOfParen hbody.toO.paren

theorem canonOK_or (l r : Expr) (ihl : CanonOK l) (ihr : CanonOK r) : CanonOK (.logical .or l r) := by
  have hbody := ihl.a.or ihr.a.toO
  refine ⟨?_, ?_, ?_, ?_⟩
  · rw [canon_or, ccanon_or, if_pos (by decide), if_pos (by decide)]; exact hbody.paren
  · rw [canon_or, ccanon_or, if_pos (by decide), if_pos (by decide)]; exact hbody.paren.toA
  · rw [canon_or, ccanon_or, if_neg (by decide), if_neg (by decide)]; exact hbody
  · rw [canon_or, ccanon_or, if_pos (by decide), if_pos (by decide)]; exact PB.notOfParen hbody.paren

theorem canonOK_not (x : Expr) (ih : CanonOK x) : CanonOK (.not x) :=
  canonOK_of_body ih.n (by rw [canon_not, if_neg (by decide)])
    (by rw [canon_not, if_neg (by decide)]) (by rw [canon_not, if_neg (by decide)])
    (by rw [canon_not, if_pos (by decide)])
    (by rw [ccanon_not, if_neg (by decide)]) (by rw [ccanon_not, if_neg (by decide)])
    (by rw [ccanon_not, if_neg (by decide)]) (by rw [ccanon_not, if_pos (by decide)])

theorem canonOK_cmp (op : COp) (l r : Expr) (hb : PB (Impl.strExpr (.cmp op l r)) (cstr (.cmp op l r))) :
    CanonOK (.cmp op l r) :=
  canonOK_of_body hb (by rw [canon_cmp, if_neg (by decide)])
    (by rw [canon_cmp, if_neg (by decide)]) (by rw [canon_cmp, if_neg (by decide)])
    (by rw [canon_cmp, if_pos (by decide)])
    (by rw [ccanon_cmp, if_neg (by decide)]) (by rw [ccanon_cmp, if_neg (by decide)])
    (by rw [ccanon_cmp, if_neg (by decide)]) (by rw [ccanon_cmp, if_pos (by decide)])

theorem canonOK_term (e : Expr) (hpt : PT (Impl.strExpr e) (cstr e)) (hl : ∀ v, cstr e ≠ .lit v)
    (hc : ∀ p, Impl.canonExpr p e = Impl.strExpr e) (hcc : ∀ p, ccanon p e = cstr e) : CanonOK e := by
  have hb := hpt.test hl
  refine ⟨by rw [hc, hcc]; exact hb, by rw [hc, hcc]; exact hb.toA, by rw [hc, hcc]; exact hb.toO, ?_⟩
  rw [hc, hcc]
  exact hpt.not hl

/-! ### the mutual induction -/

mutual
theorem str_ok : (e : Expr) → OkE e → StrOK sg e
  | .lit v, ho => by rw [OkE] at ho; exact strOK_lit sg v ho
  | .not e, ho => by rw [OkE] at ho; exact strOK_not sg e (str_ok e ho)
  | .logical op l r, ho => by
    rw [OkE] at ho; exact strOK_logical sg op l r (str_ok l ho.1) (str_ok r ho.2)
  | .cmp op l r, ho => by
    rw [OkE] at ho; exact strOK_cmp sg op l r (str_ok l ho.1) (str_ok r ho.2)
  | .rel q, ho => by rw [OkE] at ho; exact strOK_rel sg q (segs_ok q ho)
  | .root q, ho => by rw [OkE] at ho; exact strOK_root sg q (segs_ok q ho)
  | .call f args, ho => by rw [OkE] at ho; exact strOK_call sg f args ho.1 (args_ok args ho.2)
theorem args_ok : (as : List Expr) → OkArgs as → ∀ tys, Spec.wtArgs sg tys as = true →
    ∀ a ∈ as, PArg (Impl.strExpr a) (cstr a)
  | [], _ => by intro _ _ a ha; simp at ha
  | a :: as, ho => by
    rw [OkArgs] at ho
    have ih1 := str_ok a ho.1
    have ih2 := args_ok as ho.2
    intro tys h x hx
    cases tys with
    | nil => simp [Spec.wtArgs] at h
    | cons t ts =>
      simp only [Spec.wtArgs, Bool.and_eq_true] at h
      rcases List.mem_cons.1 hx with rfl | hx
      · exact parg_of sg t x ih1 ho.1 h.1
      · exact ih2 ts h.2 x hx
theorem canon_ok : (e : Expr) → OkE e → Spec.wtTest sg e = true → CanonOK e
  | .lit v, _, h => by simp [Spec.wtTest] at h
  | .logical .and l r, ho, h => by
    rw [OkE] at ho
    simp only [Spec.wtTest, Bool.and_eq_true] at h
    exact canonOK_and l r (canon_ok l ho.1 h.1) (canon_ok r ho.2 h.2)
  | .logical .or l r, ho, h => by
    rw [OkE] at ho
    simp only [Spec.wtTest, Bool.and_eq_true] at h
    exact canonOK_or l r (canon_ok l ho.1 h.1) (canon_ok r ho.2 h.2)
  | .not x, ho, h => by
    rw [OkE] at ho
    simp only [Spec.wtTest] at h
    exact canonOK_not x (canon_ok x ho h)
  | .cmp op l r, ho, h => by
    rw [OkE] at ho
    exact canonOK_cmp op l r ((strOK_cmp sg op l r (str_ok l ho.1) (str_ok r ho.2)).1 h)
  | .rel q, ho, h => by
    rw [OkE] at ho
    exact canonOK_term _ ((strOK_rel sg q (segs_ok q ho)).2 (.inr ⟨h, rfl⟩)) (cstr_rel_notLit q)
      (fun p => canon_rel p q) (fun p => ccanon_rel p q)
  | .root q, ho, h => by
    rw [OkE] at ho
    exact canonOK_term _ ((strOK_root sg q (segs_ok q ho)).2 (.inr ⟨h, rfl⟩)) (cstr_root_notLit q)
      (fun p => canon_root p q) (fun p => ccanon_root p q)
  | .call f args, ho, h => by
    rw [OkE] at ho
    exact canonOK_term _ ((strOK_call sg f args ho.1 (args_ok args ho.2)).2 (.inr ⟨h, rfl⟩))
      (cstr_call_notLit f args) (fun p => canon_call p f args) (fun p => ccanon_call p f args)
theorem sel_ok : (s : Selector) → OkSel s → Spec.wtSel sg s = true → PSel s
  | .name s, _, _ => PSel_plain _ rfl
  | .index i, _, _ => PSel_plain _ rfl
  | .wild, _, _ => PSel_plain _ rfl
  | .slice a b c, _, _ => PSel_plain _ rfl
  | .filter e, ho, h => by
    rw [OkSel] at ho
    simp only [Spec.wtSel] at h
    exact PSel_filter e (canon_ok e ho h).o
theorem sels_ok : (ss : List Selector) → OkSels ss → Spec.wtSels sg ss = true → ∀ x ∈ ss, PSel x
  | [], _, _ => by intro x hx; simp at hx
  | s :: ss, ho, h => by
    rw [OkSels] at ho
    simp only [Spec.wtSels, Bool.and_eq_true] at h
    have ih1 := sel_ok s ho.1 h.1
    have ih2 := sels_ok ss ho.2 h.2
    intro x hx
    rcases List.mem_cons.1 hx with rfl | hx
    · exact ih1
    · exact ih2 x hx
theorem segs_ok : (q : List Segment) → OkQ q → Spec.wtQuery sg q = true → PQ q
  | [], _, _ => PQ_nil
  | .child sels :: rest, ho, h => by
    rw [OkQ] at ho
    simp only [Spec.wtQuery, Spec.wtSeg, Bool.and_eq_true] at h
    exact PQ_child sels rest ho.1 (sels_ok sels ho.2.1 h.1) (segs_ok rest ho.2.2 h.2)
  | .desc sels :: rest, ho, h => by
    rw [OkQ] at ho
    simp only [Spec.wtQuery, Spec.wtSeg, Bool.and_eq_true] at h
    exact PQ_desc sels rest ho.1 (sels_ok sels ho.2.1 h.1) (segs_ok rest ho.2.2 h.2)
end

/-- GRAMMAR: the recogniser derives the printed text of `q`, with the canonical tree -/
theorem segments_print (q : Query) (ho : OkQ q) (hw : Spec.wtQuery sg q = true) :
    Spec.segments (2 * (Impl.strQuery q).length + 4) (Impl.strSegs q) = some (csegs q, []) := by
  have := segs_ok sg q ho hw [] segStop_nil
  rw [List.append_nil] at this
  exact this.top

end JPV.Proofs.Pc
