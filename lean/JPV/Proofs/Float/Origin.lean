/-
`Proofs.Float.Origin` — every float literal of a compiled query is a value of `Py.floatOfText` (hence a double or
an infinity).  The invariant `FOkQ` is `Pc.DOkQ` (see `Proofs.Pc.Ok`, whose induction over the RFC 9535
recogniser is repeated here) with the clause for number literals replaced.
-/
import JPV.Proofs.Pc.Roundtrip
import JPV.Proofs.Float.Decide
namespace JPV.Proofs.Float
open JPV JPV.Impl JPV.Proofs.Cf JPV.Proofs.Pf JPV.Proofs.Pc

/-- a literal the grammar can denote: a float literal is the value `Py.floatOfText` gives some spelling -/
def FLit : Json → Prop
  | .num x => x.flt = true → ∃ sp, Py.floatOfText sp = some x
  | .arr _ => False
  | .obj _ => False
  | _ => True

mutual
def FOkE : Expr → Prop
  | .lit v => FLit v
  | .not e => FOkE e
  | .logical _ l r => FOkE l ∧ FOkE r
  | .cmp _ l r => FOkE l ∧ FOkE r
  | .rel q => FOkQ q
  | .root q => FOkQ q
  | .call f args => nameOK f = true ∧ FOkArgs args
def FOkArgs : List Expr → Prop
  | [] => True
  | a :: as => FOkE a ∧ FOkArgs as
def FOkSel : Selector → Prop
  | .filter e => FOkE e
  | _ => True
def FOkSels : List Selector → Prop
  | [] => True
  | s :: ss => FOkSel s ∧ FOkSels ss
def FOkQ : List Segment → Prop
  | [] => True
  | .child sels :: rest => sels ≠ [] ∧ FOkSels sels ∧ FOkQ rest
  | .desc sels :: rest => sels ≠ [] ∧ FOkSels sels ∧ FOkQ rest
end

theorem fokQ_cons (s : Spec.CSegment) (ss : List Spec.CSegment) (h1 : FOkQ (Spec.abstractSegs [s]))
    (h2 : FOkQ (Spec.abstractSegs ss)) : FOkQ (Spec.abstractSegs (s :: ss)) := by
  cases s with
  | child sels fl =>
    simp only [Spec.abstractSegs, FOkQ, and_true] at h1 ⊢
    exact ⟨h1.1, h1.2, h2⟩
  | desc sels =>
    simp only [Spec.abstractSegs, FOkQ, and_true] at h1 ⊢
    exact ⟨h1.1, h1.2, h2⟩

theorem fokQ_child {sels : List Spec.CSelector} {fl : Bool} (h : sels ≠ [] ∧ FOkSels (Spec.abstractSels sels)) :
    FOkQ (Spec.abstractSegs [.child sels fl]) := by
  simp only [Spec.abstractSegs, FOkQ, and_true]
  refine ⟨?_, h.2⟩
  cases sels with
  | nil => exact absurd rfl h.1
  | cons s ss => simp [Spec.abstractSels]

theorem fokQ_desc {sels : List Spec.CSelector} (h : sels ≠ [] ∧ FOkSels (Spec.abstractSels sels)) :
    FOkQ (Spec.abstractSegs [.desc sels]) := by
  simp only [Spec.abstractSegs, FOkQ, and_true]
  refine ⟨?_, h.2⟩
  cases sels with
  | nil => exact absurd rfl h.1
  | cons s ss => simp [Spec.abstractSels]

theorem flit_of_literal {inp r : List Char} {v : Json} (h : Spec.literal inp = some (v, r)) : FLit v := by
  cases literal_inv h with
  | str s _ e => subst e; trivial
  | true_ _ e => subst e; trivial
  | false_ _ e => subst e; trivial
  | null _ e => subst e; trivial
  | num sp x _ hv e =>
    subst e
    show x.flt = true → _
    intro hx
    refine ⟨sp, ?_⟩
    rw [numberValue_eq] at hv
    split at hv
    · exact hv
    · unfold numOfIntTok at hv
      split at hv
      · cases hv; cases hx
      · exact hv
      · cases hv

/-- the invariant, for every function of the recogniser at one fuel -/
structure FAll (F : Nat) : Prop where
  segments : ∀ inp c r, Spec.segments F inp = some (c, r) → FOkQ (Spec.abstractSegs c)
  segment : ∀ inp s r, Spec.segment F inp = some (s, r) → FOkQ (Spec.abstractSegs [s])
  bracketed : ∀ inp ss fl r, Spec.bracketed F inp = some (ss, fl, r) →
    ss ≠ [] ∧ FOkSels (Spec.abstractSels ss)
  moreSelectors : ∀ inp ss r, Spec.moreSelectors F inp = some (ss, r) → FOkSels (Spec.abstractSels ss)
  selector : ∀ inp s r, Spec.selector F inp = some (s, r) → FOkSel (Spec.abstractSel s)
  logicalOr : ∀ inp e r, Spec.logicalOr F inp = some (e, r) → FOkE (Spec.abstractExpr e)
  logicalAnd : ∀ inp e r, Spec.logicalAnd F inp = some (e, r) → FOkE (Spec.abstractExpr e)
  basic : ∀ inp e r, Spec.basic F inp = some (e, r) → FOkE (Spec.abstractExpr e)
  parenExpr : ∀ inp e r, Spec.parenExpr F inp = some (e, r) → FOkE (Spec.abstractExpr e)
  term : ∀ inp e r, Spec.term F inp = some (e, r) → FOkE (Spec.abstractExpr e)
  argument : ∀ inp e r, Spec.argument F inp = some (e, r) → FOkE (Spec.abstractExpr e)
  moreArgs : ∀ inp as r, Spec.moreArgs F inp = some (as, r) → FOkArgs (Spec.abstractArgs as)

theorem fall_zero : FAll 0 := by
  refine ⟨?_, ?_, ?_, ?_, ?_, ?_, ?_, ?_, ?_, ?_, ?_, ?_⟩
  · intro inp c r h; rw [Spec.segments] at h; cases h
  · intro inp c r h; rw [Spec.segment] at h; cases h
  · intro inp c fl r h; rw [Spec.bracketed] at h; cases h
  · intro inp c r h; rw [Spec.moreSelectors] at h; cases h
  · intro inp c r h; rw [Spec.selector] at h; cases h
  · intro inp c r h; rw [Spec.logicalOr] at h; cases h
  · intro inp c r h; rw [Spec.logicalAnd] at h; cases h
  · intro inp c r h; rw [Spec.basic] at h; cases h
  · intro inp c r h; rw [Spec.parenExpr] at h; cases h
  · intro inp c r h; rw [Spec.term] at h; cases h
  · intro inp c r h; rw [Spec.argument] at h; cases h
  · intro inp c r h; rw [Spec.moreArgs] at h; cases h

theorem fall_succ (F : Nat) (ih : FAll F) : FAll (F + 1) := by
  refine ⟨?_, ?_, ?_, ?_, ?_, ?_, ?_, ?_, ?_, ?_, ?_, ?_⟩
  · -- segments
    intro inp c r h
    rcases segments_inv h with ⟨-, rfl, -⟩ | ⟨seg, r1, segs', h1, h2, rfl⟩
    · simp [Spec.abstractSegs, FOkQ]
    · exact fokQ_cons _ _ (ih.segment _ _ _ h1) (ih.segments _ _ _ h2)
  · -- segment
    intro inp s r h
    cases segment_inv h with
    | descWild _ e => subst e; simp [Spec.abstractSegs, Spec.abstractSels, Spec.abstractSel, FOkQ, FOkSels, FOkSel]
    | descBrack t sels fl _ hb e => subst e; exact fokQ_desc (ih.bracketed _ _ _ _ hb)
    | descName c t n _ _ _ _ e =>
      subst e; simp [Spec.abstractSegs, Spec.abstractSels, Spec.abstractSel, FOkQ, FOkSels, FOkSel]
    | dotWild _ e => subst e; simp [Spec.abstractSegs, Spec.abstractSels, Spec.abstractSel, FOkQ, FOkSels, FOkSel]
    | dotName c t n _ _ _ _ e =>
      subst e; simp [Spec.abstractSegs, Spec.abstractSels, Spec.abstractSel, FOkQ, FOkSels, FOkSel]
    | brack t sels fl _ hb e => subst e; exact fokQ_child (ih.bracketed _ _ _ _ hb)
  · -- bracketed
    intro inp ss fl r h
    obtain ⟨t, s, r2, ss', r3, -, hs, hm, -, rfl⟩ := bracketed_inv h
    refine ⟨by simp, ?_⟩
    simp only [Spec.abstractSels, FOkSels]
    exact ⟨ih.selector _ _ _ hs, ih.moreSelectors _ _ _ hm⟩
  · -- moreSelectors
    intro inp ss r h
    rcases moreSelectors_inv h with ⟨-, rfl, -⟩ | ⟨u, s, r2, ss', -, hs, hm, rfl⟩
    · simp [Spec.abstractSels, FOkSels]
    · simp only [Spec.abstractSels, FOkSels]
      exact ⟨ih.selector _ _ _ hs, ih.moreSelectors _ _ _ hm⟩
  · -- selector
    intro inp s r h
    cases inp with
    | nil => rw [selector_nil] at h; cases h
    | cons c t =>
      by_cases hc : c = '?'
      · subst hc
        obtain ⟨e, he, rfl⟩ := selector_filter_inv h
        simp only [Spec.abstractSel, FOkSel]
        exact ih.logicalOr _ _ _ he
      · have := selector_plain hc h
        cases s with
        | filter e => simp [Cs.ffSel] at this
        | name _ => simp [Spec.abstractSel, FOkSel]
        | index _ => simp [Spec.abstractSel, FOkSel]
        | slice _ _ _ => simp [Spec.abstractSel, FOkSel]
        | wild => simp [Spec.abstractSel, FOkSel]
  · -- logicalOr
    intro inp e r h
    obtain ⟨l, r1, h1, h2⟩ := logicalOr_inv h
    rcases h2 with ⟨-, rfl, -⟩ | ⟨r2, x, -, h3, rfl⟩
    · exact ih.logicalAnd _ _ _ h1
    · simp only [Spec.abstractExpr, FOkE]
      exact ⟨ih.logicalAnd _ _ _ h1, ih.logicalOr _ _ _ h3⟩
  · -- logicalAnd
    intro inp e r h
    obtain ⟨l, r1, h1, h2⟩ := logicalAnd_inv h
    rcases h2 with ⟨-, rfl, -⟩ | ⟨r2, x, -, h3, rfl⟩
    · exact ih.basic _ _ _ h1
    · simp only [Spec.abstractExpr, FOkE]
      exact ⟨ih.basic _ _ _ h1, ih.logicalAnd _ _ _ h3⟩
  · -- basic
    intro inp e r h
    cases basic_inv h with
    | notParen t t2 e' _ _ _ hp he =>
      subst he
      simp only [Spec.abstractExpr, FOkE]
      exact ih.parenExpr _ _ _ hp
    | notTerm t e' _ _ _ ht _ he =>
      subst he
      simp only [Spec.abstractExpr, FOkE]
      exact ih.term _ _ _ ht
    | paren t _ hp => exact ih.parenExpr _ _ _ hp
    | cmp c t l rhs r1 r2 op _ _ _ h1 _ h2 he =>
      subst he
      simp only [Spec.abstractExpr, FOkE]
      exact ⟨ih.term _ _ _ h1, ih.term _ _ _ h2⟩
    | test c t _ _ _ ht _ _ => exact ih.term _ _ _ ht
  · -- parenExpr
    intro inp e r h
    obtain ⟨t, e', r2, -, h1, -, rfl⟩ := parenExpr_inv h
    simp only [Spec.abstractExpr]
    exact ih.logicalOr _ _ _ h1
  · -- term
    intro inp e r h
    cases term_inv h with
    | rel t segs _ hs he =>
      subst he
      simp only [Spec.abstractExpr, FOkE]
      exact ih.segments _ _ _ hs
    | root t segs _ hs he =>
      subst he
      simp only [Spec.abstractExpr, FOkE]
      exact ih.segments _ _ _ hs
    | call0 name t hf _ he =>
      subst he
      simp only [Spec.abstractExpr, Spec.abstractArgs, FOkE, FOkArgs, and_true]
      exact nameOK_of_functionName hf
    | call name t a as r2 r3 hf _ ha hm _ he =>
      subst he
      simp only [Spec.abstractExpr, Spec.abstractArgs, FOkE, FOkArgs]
      exact ⟨nameOK_of_functionName hf, ih.argument _ _ _ ha, ih.moreArgs _ _ _ hm⟩
    | lit c t v _ _ _ hl he =>
      subst he
      simp only [Spec.abstractExpr, FOkE]
      exact flit_of_literal hl
  · -- argument
    intro inp e r h
    rcases argument_inv h with ⟨v, hl, rfl, -⟩ | h1
    · simp only [Spec.abstractExpr, FOkE]
      exact flit_of_literal hl
    · exact ih.logicalOr _ _ _ h1
  · -- moreArgs
    intro inp as r h
    rcases moreArgs_inv h with ⟨-, rfl, -⟩ | ⟨u, a, r2, as', -, ha, hm, rfl⟩
    · simp [Spec.abstractArgs, FOkArgs]
    · simp only [Spec.abstractArgs, FOkArgs]
      exact ⟨ih.argument _ _ _ ha, ih.moreArgs _ _ _ hm⟩

theorem fall : ∀ F, FAll F
  | 0 => fall_zero
  | F + 1 => fall_succ F (fall F)

/-- what a derivation says about its abstraction -/
theorem fok_of_segments {F : Nat} {inp r : List Char} {c : List Spec.CSegment}
    (h : Spec.segments F inp = some (c, r)) : FOkQ (Spec.abstractSegs c) :=
  (fall F).segments _ _ _ h

/-! ### the float literals of a query satisfying the invariant -/

/-- `x` is a value of `float(text)` -/
def FromText (x : Num) : Prop := ∃ sp, Py.floatOfText sp = some x

mutual
theorem floats_fokE : (e : Expr) → FOkE e → ∀ x ∈ Proofs.floatsExpr e, FromText x
  | .lit (.num y), hd, x, hx => by
    rw [FOkE, FLit] at hd
    rw [Proofs.floatsExpr] at hx
    split at hx
    · rename_i hy
      simp only [List.mem_singleton] at hx
      subst hx
      exact hd hy
    · cases hx
  | .lit .null, _, x, hx => by simp [Proofs.floatsExpr] at hx
  | .lit (.bool _), _, x, hx => by simp [Proofs.floatsExpr] at hx
  | .lit (.str _), _, x, hx => by simp [Proofs.floatsExpr] at hx
  | .lit (.arr _), _, x, hx => by simp [Proofs.floatsExpr] at hx
  | .lit (.obj _), _, x, hx => by simp [Proofs.floatsExpr] at hx
  | .not e, hd, x, hx => by
    rw [FOkE] at hd; rw [Proofs.floatsExpr] at hx
    exact floats_fokE e hd x hx
  | .logical op l r, hd, x, hx => by
    rw [FOkE] at hd; rw [Proofs.floatsExpr] at hx
    rcases List.mem_append.mp hx with h | h
    · exact floats_fokE l hd.1 x h
    · exact floats_fokE r hd.2 x h
  | .cmp op l r, hd, x, hx => by
    rw [FOkE] at hd; rw [Proofs.floatsExpr] at hx
    rcases List.mem_append.mp hx with h | h
    · exact floats_fokE l hd.1 x h
    · exact floats_fokE r hd.2 x h
  | .rel q, hd, x, hx => by
    rw [FOkE] at hd; rw [Proofs.floatsExpr] at hx
    exact floats_fokQ q hd x hx
  | .root q, hd, x, hx => by
    rw [FOkE] at hd; rw [Proofs.floatsExpr] at hx
    exact floats_fokQ q hd x hx
  | .call f args, hd, x, hx => by
    rw [FOkE] at hd; rw [Proofs.floatsExpr] at hx
    exact floats_fokArgs args hd.2 x hx
theorem floats_fokArgs : (as : List Expr) → FOkArgs as → ∀ x ∈ Proofs.floatsArgs as, FromText x
  | [], _, x, hx => by rw [Proofs.floatsArgs] at hx; cases hx
  | a :: as, hd, x, hx => by
    rw [FOkArgs] at hd; rw [Proofs.floatsArgs] at hx
    rcases List.mem_append.mp hx with h | h
    · exact floats_fokE a hd.1 x h
    · exact floats_fokArgs as hd.2 x h
theorem floats_fokSel : (s : Selector) → FOkSel s → ∀ x ∈ Proofs.floatsSel s, FromText x
  | .filter e, hd, x, hx => by
    rw [FOkSel] at hd; rw [Proofs.floatsSel] at hx
    exact floats_fokE e hd x hx
  | .name _, _, x, hx => by simp [Proofs.floatsSel] at hx
  | .index _, _, x, hx => by simp [Proofs.floatsSel] at hx
  | .wild, _, x, hx => by simp [Proofs.floatsSel] at hx
  | .slice _ _ _, _, x, hx => by simp [Proofs.floatsSel] at hx
theorem floats_fokSels : (ss : List Selector) → FOkSels ss → ∀ x ∈ Proofs.floatsSels ss, FromText x
  | [], _, x, hx => by rw [Proofs.floatsSels] at hx; cases hx
  | s :: ss, hd, x, hx => by
    rw [FOkSels] at hd; rw [Proofs.floatsSels] at hx
    rcases List.mem_append.mp hx with h | h
    · exact floats_fokSel s hd.1 x h
    · exact floats_fokSels ss hd.2 x h
theorem floats_fokQ : (q : List Segment) → FOkQ q → ∀ x ∈ Proofs.floatsSegs q, FromText x
  | [], _, x, hx => by rw [Proofs.floatsSegs] at hx; cases hx
  | .child sels :: rest, hd, x, hx => by
    rw [FOkQ] at hd; rw [Proofs.floatsSegs] at hx
    rcases List.mem_append.mp hx with h | h
    · exact floats_fokSels sels hd.2.1 x h
    · exact floats_fokQ rest hd.2.2 x h
  | .desc sels :: rest, hd, x, hx => by
    rw [FOkQ] at hd; rw [Proofs.floatsSegs] at hx
    rcases List.mem_append.mp hx with h | h
    · exact floats_fokSels sels hd.2.1 x h
    · exact floats_fokQ rest hd.2.2 x h
end

/-- every float literal of a compiled query is a value of `float(text)` … -/
theorem floats_of_compile (env : Env) (s : Str) (q : Query) (h : Impl.compile env s = .ok q) :
    ∀ x ∈ Proofs.floatsSegs q, FromText x := by
  obtain ⟨c, hj, ha⟩ := compile_sound_valid env s q h
  obtain ⟨F, r, hseg0⟩ := segments_of_parseQuery (hj.elim parseQuery_of_judge parseQuery_of_judge)
  have hd : FOkQ q := by rw [← ha]; exact fok_of_segments hseg0
  exact floats_fokQ q hd

/-- … hence a double, or an infinity (`d = 0`) -/
theorem floats_of_compile_isDouble (env : Env) (s : Str) (q : Query) (h : Impl.compile env s = .ok q) :
    ∀ x ∈ Proofs.floatsSegs q, x.d ≠ 0 → IsDouble x := by
  intro x hx hd
  obtain ⟨sp, hsp⟩ := floats_of_compile env s q h x hx
  exact floatOfText_isDouble sp x hsp hd

end JPV.Proofs.Float
