import JPV.Proofs.Cs.ParseSel
set_option linter.unusedSimpArgs false
namespace JPV.Proofs.Cs
open JPV JPV.Impl JPV.Proofs.Rq

def absSeg : Spec.CSegment → Segment
  | .child sels _ => .child (Spec.abstractSels sels)
  | .desc sels => .desc (Spec.abstractSels sels)

theorem abstractSegs_cons (s : Spec.CSegment) (ss : List Spec.CSegment) :
    Spec.abstractSegs (s :: ss) = absSeg s :: Spec.abstractSegs ss := by
  cases s <;> simp [Spec.abstractSegs, absSeg]

/-- one `parseQuery` iteration consumes the tokens of one segment -/
theorem parse_seg (env : Env) {seg : Spec.CSegment} {ts : List Token} (h : SegShape seg ts)
    (hr : Spec.intsSeg env.minIdx env.maxIdx (absSeg seg) = true)
    (fuel : Nat) (acc : List Segment) (x : Token) (more : List Token) (hf : ts.length ≤ fuel) :
    ∃ t ts', ts = t :: ts' ∧
      exec (parseQuery env false (fuel + 1) acc) ⟨t, [], ts' ++ x :: more⟩
        = exec (parseQuery env false fuel (acc ++ [absSeg seg])) ⟨x, [], more⟩ := by
  cases h with
  | dotName s k =>
    refine ⟨_, _, rfl, ?_⟩
    obtain ⟨f, rfl⟩ : ∃ f, fuel = f + 1 := ⟨fuel - 1, by simp at hf; omega⟩
    rw [parseQuery, parseSelectors]
    simp [exec_bind, exec_cur, exec_nextTok, exec_pure, next_fresh, absSeg, Spec.abstractSels, Spec.abstractSel]
  | dotWild k =>
    refine ⟨_, _, rfl, ?_⟩
    obtain ⟨f, rfl⟩ : ∃ f, fuel = f + 1 := ⟨fuel - 1, by simp at hf; omega⟩
    rw [parseQuery, parseSelectors]
    simp [exec_bind, exec_cur, exec_nextTok, exec_pure, next_fresh, absSeg, Spec.abstractSels, Spec.abstractSel]
  | brack sels fl ts k k' hs =>
    refine ⟨_, _, rfl, ?_⟩
    simp only [absSeg, Spec.intsSeg] at hr
    have hl := hs.length_le
    have hb := parse_brack env hs hr fuel ⟨.lbracket, ['['], k⟩ ⟨.rbracket, [']'], k'⟩ (x :: more) rfl rfl
      (by simp at hf; omega)
    rw [parseQuery]
    simp [exec_bind, exec_cur, exec_nextTok, exec_pure, next_fresh, absSeg, hb]
  | descName s k k' =>
    refine ⟨_, _, rfl, ?_⟩
    obtain ⟨f, rfl⟩ : ∃ f, fuel = f + 1 := ⟨fuel - 1, by simp at hf; omega⟩
    rw [parseQuery, parseSelectors]
    simp [exec_bind, exec_cur, exec_nextTok, exec_pure, next_fresh, absSeg, Spec.abstractSels, Spec.abstractSel]
  | descWild k k' =>
    refine ⟨_, _, rfl, ?_⟩
    obtain ⟨f, rfl⟩ : ∃ f, fuel = f + 1 := ⟨fuel - 1, by simp at hf; omega⟩
    rw [parseQuery, parseSelectors]
    simp [exec_bind, exec_cur, exec_nextTok, exec_pure, next_fresh, absSeg, Spec.abstractSels, Spec.abstractSel]
  | descBrack sels ts k0 k k' hs =>
    refine ⟨_, _, rfl, ?_⟩
    simp only [absSeg, Spec.intsSeg] at hr
    have hl := hs.length_le
    have hb := parse_brack env hs hr fuel ⟨.lbracket, ['['], k⟩ ⟨.rbracket, [']'], k'⟩ (x :: more) rfl rfl
      (by simp at hf; omega)
    rw [parseQuery]
    simp [exec_bind, exec_cur, exec_nextTok, exec_pure, next_fresh, absSeg, hb]

/-- `parseQuery` on the tokens of a filter-free derivation followed by EOF -/
theorem parse_segs (env : Env) {segs : List Spec.CSegment} {ts : List Token} (h : SegsShape segs ts) :
    Spec.intsQuery env.minIdx env.maxIdx (Spec.abstractSegs segs) = true →
    ∀ (fuel : Nat) (acc : List Segment) (e : Token) (more : List Token), e.kind = .eof → ts.length + 1 ≤ fuel →
    ∃ t ts', ts ++ e :: more = t :: ts' ∧ ∃ st',
      exec (parseQuery env false fuel acc) ⟨t, [], ts'⟩ = (.ok (acc ++ Spec.abstractSegs segs), st') ∧
      st'.cur.kind = .eof := by
  induction h with
  | nil =>
    intro _ fuel acc e more he hf
    obtain ⟨f, rfl⟩ : ∃ f, fuel = f + 1 := ⟨fuel - 1, by omega⟩
    refine ⟨e, more, rfl, ⟨e, [], more⟩, ?_, he⟩
    rw [parseQuery]
    simp [exec_bind, exec_cur, exec_pure, he, Spec.abstractSegs]
  | cons s ss t1 t2 hs _ ih =>
    intro hr fuel acc e more he hf
    rw [abstractSegs_cons] at hr ⊢
    simp only [Spec.intsQuery, Bool.and_eq_true] at hr
    obtain ⟨f, rfl⟩ : ∃ f, fuel = f + 1 := ⟨fuel - 1, by omega⟩
    have h1 := hs.length_pos
    obtain ⟨x, more', hx, st', hex, hc⟩ := ih hr.2 f (acc ++ [absSeg s]) e more he (by simp at hf; omega)
    obtain ⟨t, ts', rfl, hseg⟩ := parse_seg env hs hr.1 f acc x more' (by simp at hf; omega)
    refine ⟨t, ts' ++ x :: more', by simp [hx], st', ?_, hc⟩
    rw [hseg, hex]
    simp


/-- the parser on `ROOT`, the tokens of a filter-free derivation, `EOF` -/
theorem parse_top (env : Env) {segs : List Spec.CSegment} {ts : List Token} (h : SegsShape segs ts)
    (hr : Spec.intsQuery env.minIdx env.maxIdx (Spec.abstractSegs segs) = true)
    (r e : Token) (hrk : r.kind = .root) (hek : e.kind = .eof) (F : Nat) (hF : ts.length + 1 ≤ F) :
    (exec (parseTop env F) (TStream.init (r :: (ts ++ [e])))).1 = .ok (Spec.abstractSegs segs) := by
  obtain ⟨t, ts', hx, st', he, hc⟩ := parse_segs env h hr F [] e [] hek hF
  have hre : r.kind ≠ .eof := by rw [hrk]; simp
  have hinit : TStream.init (r :: (ts ++ [e])) = ⟨r, [], t :: ts'⟩ := by
    rw [hx]; simp [TStream.init, TStream.next, initTok]
  rw [hinit]
  unfold parseTop
  simp [exec_bind, exec_cur, exec_pure, exec_nextTok, next_fresh, expect, he, hc, hrk, hre]

end JPV.Proofs.Cs
