import JPV.Proofs.Ndp.Enum
/-
The order in which `ND.visit` hands nodes to its continuation is one of `Spec.ND.visitOrders`.
The work queue of the implementation is an interleaving (`Abs`) of the chains `it.node :: it.later`
of a frontier of the specification.
-/
namespace JPV.Proofs.Ndp
open JPV JPV.Impl JPV.Spec.ND
open JPV.Proofs.NDp

/-! ### interleavings -/

inductive Merge {α} : List α → List α → List α → Prop
  | nil_left (b : List α) : Merge [] b b
  | nil_right (a : List α) : Merge a [] a
  | left (x : α) {a b c : List α} : Merge a b c → Merge (x :: a) b (x :: c)
  | right (y : α) {a b c : List α} : Merge a b c → Merge a (y :: b) (y :: c)

theorem Merge.map {α β} (f : α → β) {a b c : List α} (h : Merge a b c) :
    Merge (a.map f) (b.map f) (c.map f) := by
  induction h with
  | nil_left b => exact .nil_left _
  | nil_right a => exact .nil_right _
  | left x _ ih => exact .left _ ih
  | right y _ ih => exact .right _ ih

theorem Merge.append {α} : ∀ (a b : List α), Merge a b (a ++ b) := by
  intro a
  induction a with
  | nil => intro b; exact .nil_left _
  | cons x a ih => intro b; exact .left x (ih b)

theorem interleave_merge {α} : ∀ (bs : List Bool) (a b : List α), Merge a b (ND.interleave bs a b) := by
  intro bs a b
  induction bs, a, b using ND.interleave.induct with
  | case1 bs b => simp only [ND.interleave]; exact .nil_left _
  | case2 bs a h =>
    rw [ND.interleave]
    · exact .nil_right _
    · exact h
  | case3 a b h1 h2 =>
    rw [ND.interleave]
    · exact Merge.append _ _
    · exact h1
    · exact h2
  | case4 bs x a b h ih =>
    rw [ND.interleave]
    · exact .left x ih
    · exact h
  | case5 bs a y b h ih =>
    rw [ND.interleave]
    · exact .right y ih
    · exact h

theorem mergeQ_merge {α} (q g : List α) (s : ND.Script) : Merge q g (ND.mergeQ q g s).1 := by
  unfold ND.mergeQ
  split
  · exact Merge.append _ _
  · split
    · exact interleave_merge _ _ _
    · exact Merge.append _ _
    · exact Merge.append _ _

/-! ### the abstraction relation -/

/-- `Abs fr q`: the node list `q` is an interleaving of the chains of the frontier `fr` -/
inductive Abs : List Item → List Node → Prop
  | nil : Abs [] []
  | take (fr a b : List Item) (it : Item) (q : List Node) :
      fr = a ++ it :: b → Abs (a ++ chainItem it.later ++ b) q → Abs fr (it.node :: q)

theorem Abs.nil_inv {fr : List Item} (h : Abs fr []) : fr = [] := by
  cases h; rfl

theorem Abs.cons_inv {fr : List Item} {x : Node} {q : List Node} (h : Abs fr (x :: q)) :
    ∃ a b it, fr = a ++ it :: b ∧ it.node = x ∧ Abs (a ++ chainItem it.later ++ b) q := by
  cases h with
  | take _ a b it _ hfr h => exact ⟨a, b, it, hfr, rfl, h⟩

theorem Abs.merge {q1 q2 q : List Node} (hm : Merge q1 q2 q) :
    ∀ fr1 fr2, Abs fr1 q1 → Abs fr2 q2 → Abs (fr1 ++ fr2) q := by
  induction hm with
  | nil_left b =>
    intro fr1 fr2 h1 h2
    rw [h1.nil_inv]; simpa using h2
  | nil_right a =>
    intro fr1 fr2 h1 h2
    rw [h2.nil_inv]; simpa using h1
  | left x _ ih =>
    intro fr1 fr2 h1 h2
    obtain ⟨a, b, it, rfl, rfl, h⟩ := h1.cons_inv
    refine .take _ a (b ++ fr2) it _ (by simp) ?_
    have := ih _ _ h h2
    simpa [List.append_assoc] using this
  | right y _ ih =>
    intro fr1 fr2 h1 h2
    obtain ⟨a, b, it, rfl, rfl, h⟩ := h2.cons_inv
    refine .take _ (fr1 ++ a) b it _ (by simp) ?_
    have := ih _ _ h1 h
    simpa [List.append_assoc] using this

theorem Abs.chain : ∀ (l : List Node), Abs (chainItem l) l := by
  intro l
  induction l with
  | nil => exact .nil
  | cons x l ih =>
    refine .take _ [] [] ⟨x, l⟩ _ rfl ?_
    simpa using ih

theorem Abs.singletons : ∀ (l : List Node), Abs (l.map (fun c => (⟨c, []⟩ : Item))) l := by
  intro l
  induction l with
  | nil => exact .nil
  | cons x l ih =>
    refine .take _ [] (l.map (fun c => (⟨c, []⟩ : Item))) ⟨x, []⟩ _ rfl ?_
    simpa [chainItem] using ih

/-- the children the implementation queues are an interleaving of (a permutation of) the node's items -/
theorem ndChildren_abs (n : Node) (s : ND.Script) :
    ∃ ci, Abs ci (ND.ndChildren n s).1 ∧ ci.Perm (childItems n) := by
  cases hv : n.val with
  | arr xs =>
    refine ⟨chainItem (Spec.arrChildren n xs), ?_, ?_⟩
    · have h1 : (ND.ndChildren n s).1 = Spec.arrChildren n xs := by
        rw [ndChildren_arr n s xs hv, children_eq]
        simp [Spec.children, hv]
      rw [h1]
      exact Abs.chain _
    · rw [childItems_arr n xs hv]
  | obj kvs =>
    refine ⟨(ND.ndChildren n s).1.map (fun c => ⟨c, []⟩), Abs.singletons _, ?_⟩
    rw [childItems_obj n kvs hv]
    exact (ndChildren_perm_spec n s).map _
  | _ =>
    refine ⟨[], ?_, ?_⟩
    · simp only [ND.ndChildren, hv]
      exact .nil
    · simp [childItems, hv]

/-! ### continuations -/

/-- the output of `k` on a good node satisfies `Q` -/
def KQ (mx : Int) (k : Node → ND.Script → ND.Out) (Q : Node → List Node → Prop) : Prop :=
  ∀ n s, Good mx n → Q n (k n s).nodes

/-- `Lift Q ns r`: `r` is a concatenation of one `Q`-output per node of `ns` -/
inductive Lift (Q : Node → List Node → Prop) : List Node → List Node → Prop
  | nil : Lift Q [] []
  | cons {n : Node} {r : List Node} {ns rs : List Node} :
      Q n r → Lift Q ns rs → Lift Q (n :: ns) (r ++ rs)

theorem Lift.append {Q : Node → List Node → Prop} {a x : List Node} (h : Lift Q a x) :
    ∀ {b y : List Node}, Lift Q b y → Lift Q (a ++ b) (x ++ y) := by
  induction h with
  | nil => intro b y h; simpa using h
  | cons hq _ ih =>
    intro b y h
    rw [List.cons_append, List.append_assoc]
    exact .cons hq (ih h)

/-- `ord` leads from frontier `fr` to frontier `fr'` -/
def Steps (fr : List Item) (ord : List Node) (fr' : List Item) : Prop :=
  ∀ rest, Ord fr' rest → Ord fr (ord ++ rest)

/-! ### the traversal -/

theorem vcn_ord {mx : Int} {k : Node → ND.Script → ND.Out} {f : Node → List Node}
    {Q : Node → List Node → Prop} (hk : KOK mx k f) (hQ : KQ mx k Q) (d : Nat) :
    ∀ (cs : List Node) (queue : List (Node × Nat)) (s : ND.Script) (acc : List Node)
      (frq ci : List Item),
      (∀ c ∈ cs, QOK mx (c, d + 1)) → (∀ e ∈ queue, QOK mx e) →
      Abs frq (queue.map Prod.fst) → Abs ci cs →
      ∃ frq' ord out,
        Abs frq' ((ND.visitChildrenNow mx d k cs queue s acc).1.map Prod.fst) ∧
        Steps (frq ++ ci) ord frq' ∧ Lift Q ord out ∧
        (ND.visitChildrenNow mx d k cs queue s acc).2.nodes = acc ++ out := by
  intro cs
  induction cs with
  | nil =>
    intro queue s acc frq ci _ _ hq hci
    refine ⟨frq, [], [], ?_, ?_, .nil, ?_⟩
    · simpa [ND.visitChildrenNow] using hq
    · rw [hci.nil_inv]
      intro rest h
      simpa using h
    · simp [ND.visitChildrenNow]
  | cons c cs ih =>
    intro queue s acc frq ci hcs hq habs hci
    have hc := hcs c List.mem_cons_self
    have hr := hk c s hc.good
    have hg := ndChildren_perm_spec c (k c s).script
    have hm := (mergeQ_perm queue ((ND.ndChildren c (k c s).script).1.map (fun g => (g, d + 2)))
      (ND.ndChildren c (k c s).script).2).1
    have hq' : ∀ e ∈ (ND.mergeQ queue ((ND.ndChildren c (k c s).script).1.map (fun g => (g, d + 2)))
        (ND.ndChildren c (k c s).script).2).1, QOK mx e := by
      intro e he
      rcases List.mem_append.1 (hm.mem_iff.1 he) with he | he
      · exact hq e he
      · obtain ⟨g, hg', rfl⟩ := List.mem_map.1 he
        exact hc.child (hg.mem_iff.1 hg')
    have hstep : ND.visitChildrenNow mx d k (c :: cs) queue s acc =
        ND.visitChildrenNow mx d k cs
          (ND.mergeQ queue ((ND.ndChildren c (k c s).script).1.map (fun g => (g, d + 2)))
            (ND.ndChildren c (k c s).script).2).1
          (ND.mergeQ queue ((ND.ndChildren c (k c s).script).1.map (fun g => (g, d + 2)))
            (ND.ndChildren c (k c s).script).2).2 (acc ++ (k c s).nodes) := by
      simp only [ND.visitChildrenNow, hc.notDeep, hr.1, Bool.false_eq_true, if_false]
    rw [hstep]
    obtain ⟨a, b, it, rfl, rfl, hrest⟩ := hci.cons_inv
    obtain ⟨cic, hcic, hcicp⟩ := ndChildren_abs it.node (k it.node s).script
    have hmg := (mergeQ_merge queue ((ND.ndChildren it.node (k it.node s).script).1.map (fun g => (g, d + 2)))
      (ND.ndChildren it.node (k it.node s).script).2).map Prod.fst
    have hg2 : ((ND.ndChildren it.node (k it.node s).script).1.map (fun g => (g, d + 2))).map Prod.fst
        = (ND.ndChildren it.node (k it.node s).script).1 := by
      simp [List.map_map, Function.comp_def]
    rw [hg2] at hmg
    have habs' := Abs.merge hmg _ _ habs hcic
    obtain ⟨frq', ord, out, h1, h2, h3, h4⟩ := ih _
      (ND.mergeQ queue ((ND.ndChildren it.node (k it.node s).script).1.map (fun g => (g, d + 2)))
        (ND.ndChildren it.node (k it.node s).script).2).2 (acc ++ (k it.node s).nodes)
      (frq ++ cic) (a ++ chainItem it.later ++ b)
      (fun x hx => hcs x (List.mem_cons_of_mem _ hx)) hq' habs' hrest
    refine ⟨frq', it.node :: ord, (k it.node s).nodes ++ out, h1, ?_, .cons (hQ _ _ hc.good) h3, ?_⟩
    · intro rest hrest'
      have h5 := h2 rest hrest'
      refine .step _ (frq ++ a) b it _ (by simp) ?_
      refine h5.perm _ ?_
      unfold nextItems
      classical
      rw [List.perm_iff_count] at *
      intro x
      have := hcicp x
      simp only [List.count_append] at *
      omega
    · rw [h4, List.append_assoc]

theorem visitLoop_ord {mx : Int} {k : Node → ND.Script → ND.Out} {f : Node → List Node}
    {Q : Node → List Node → Prop} (hk : KOK mx k f) (hQ : KQ mx k Q) :
    ∀ (fuel : Nat) (queue : List (Node × Nat)) (s : ND.Script) (acc : List Node) (fr : List Item),
      (∀ e ∈ queue, QOK mx e) → qsize queue < fuel → Abs fr (queue.map Prod.fst) →
      ∃ ord out, Ord fr ord ∧ Lift Q ord out ∧
        (ND.visitLoop mx k fuel queue s acc).nodes = acc ++ out := by
  intro fuel
  induction fuel with
  | zero => intro queue s acc fr _ h; omega
  | succ fuel ih =>
    intro queue s acc fr hq hfuel habs
    match queue, hq, hfuel, habs with
    | [], _, _, habs =>
      have := habs.nil_inv
      subst this
      exact ⟨[], [], .nil, .nil, by simp [ND.visitLoop]⟩
    | (node, d) :: queue, hq, hfuel, habs =>
      have hn : QOK mx (node, d) := hq _ List.mem_cons_self
      have hq0 : ∀ e ∈ queue, QOK mx e := fun e he => hq e (List.mem_cons_of_mem _ he)
      have hr := hk node s hn.good
      have hsz := size_children node
      have hfuel' : node.val.size + qsize queue < fuel + 1 := by
        simpa [qsize] using hfuel
      have hcs := ndChildren_perm_spec node (ND.coin (k node s).script).2
      have hcsq : ∀ c ∈ (ND.ndChildren node (ND.coin (k node s).script).2).1, QOK mx (c, d + 1) :=
        fun c hc => hn.child (hcs.mem_iff.1 hc)
      obtain ⟨a, b, it, rfl, hit, hrest⟩ := Abs.cons_inv (by simpa using habs)
      subst hit
      obtain ⟨ci, hci, hcip⟩ := ndChildren_abs it.node (ND.coin (k it.node s).script).2
      cases hb : (ND.coin (k it.node s).script).1 with
      | false =>
        have hstep : ND.visitLoop mx k (fuel + 1) ((it.node, d) :: queue) s acc =
            ND.visitLoop mx k fuel
              (queue ++ (ND.ndChildren it.node (ND.coin (k it.node s).script).2).1.map (fun c => (c, d + 1)))
              (ND.ndChildren it.node (ND.coin (k it.node s).script).2).2 (acc ++ (k it.node s).nodes) := by
          simp only [ND.visitLoop, hn.notDeep, hr.1, hb, Bool.false_eq_true, if_false]
        rw [hstep]
        have habs' : Abs ((a ++ chainItem it.later ++ b) ++ ci)
            ((queue ++ (ND.ndChildren it.node (ND.coin (k it.node s).script).2).1.map
              (fun c => (c, d + 1))).map Prod.fst) := by
          rw [List.map_append]
          have : ((ND.ndChildren it.node (ND.coin (k it.node s).script).2).1.map
              (fun c => (c, d + 1))).map Prod.fst =
              (ND.ndChildren it.node (ND.coin (k it.node s).script).2).1 := by
            simp [List.map_map, Function.comp_def]
          rw [this]
          exact Abs.merge (Merge.append _ _) _ _ hrest hci
        obtain ⟨ord, out, h1, h2, h3⟩ := ih
          (queue ++ (ND.ndChildren it.node (ND.coin (k it.node s).script).2).1.map (fun c => (c, d + 1)))
          (ND.ndChildren it.node (ND.coin (k it.node s).script).2).2 (acc ++ (k it.node s).nodes) _
          (by
            intro e he
            rcases List.mem_append.1 he with he | he
            · exact hq0 e he
            · obtain ⟨c, hc, rfl⟩ := List.mem_map.1 he
              exact hcsq c hc)
          (by
            rw [qsize_append, qsize_map, (hcs.map _).sum_nat]
            omega)
          habs'
        refine ⟨it.node :: ord, (k it.node s).nodes ++ out, ?_, .cons (hQ _ _ hn.good) h2, ?_⟩
        · refine .step _ a b it _ rfl ?_
          refine h1.perm _ ?_
          unfold nextItems
          classical
          rw [List.perm_iff_count] at *
          intro x
          have := hcip x
          simp only [List.count_append] at *
          omega
        · rw [h3, List.append_assoc]
      | true =>
        have hv := visitChildrenNow_ok hk d (ND.ndChildren it.node (ND.coin (k it.node s).script).2).1 queue
          (ND.ndChildren it.node (ND.coin (k it.node s).script).2).2 (acc ++ (k it.node s).nodes) hcsq hq0
        have hstep : ND.visitLoop mx k (fuel + 1) ((it.node, d) :: queue) s acc =
            ND.visitLoop mx k fuel
              (ND.visitChildrenNow mx d k (ND.ndChildren it.node (ND.coin (k it.node s).script).2).1 queue
                (ND.ndChildren it.node (ND.coin (k it.node s).script).2).2 (acc ++ (k it.node s).nodes)).1
              (ND.visitChildrenNow mx d k (ND.ndChildren it.node (ND.coin (k it.node s).script).2).1 queue
                (ND.ndChildren it.node (ND.coin (k it.node s).script).2).2 (acc ++ (k it.node s).nodes)).2.script
              (ND.visitChildrenNow mx d k (ND.ndChildren it.node (ND.coin (k it.node s).script).2).1 queue
                (ND.ndChildren it.node (ND.coin (k it.node s).script).2).2 (acc ++ (k it.node s).nodes)).2.nodes := by
          simp only [ND.visitLoop, hn.notDeep, hr.1, hb, Bool.false_eq_true, if_false, if_true, hv.1]
        rw [hstep]
        obtain ⟨frq', ord1, out1, g1, g2, g3, g4⟩ := vcn_ord hk hQ d
          (ND.ndChildren it.node (ND.coin (k it.node s).script).2).1 queue
          (ND.ndChildren it.node (ND.coin (k it.node s).script).2).2 (acc ++ (k it.node s).nodes)
          (a ++ chainItem it.later ++ b) ci hcsq hq0 hrest hci
        obtain ⟨ord, out, h1, h2, h3⟩ := ih _
          (ND.visitChildrenNow mx d k (ND.ndChildren it.node (ND.coin (k it.node s).script).2).1 queue
                (ND.ndChildren it.node (ND.coin (k it.node s).script).2).2 (acc ++ (k it.node s).nodes)).2.script
          (ND.visitChildrenNow mx d k (ND.ndChildren it.node (ND.coin (k it.node s).script).2).1 queue
                (ND.ndChildren it.node (ND.coin (k it.node s).script).2).2 (acc ++ (k it.node s).nodes)).2.nodes
          frq' hv.2.1
          (by
            have := hv.2.2.1
            rw [(hcs.map _).sum_nat] at this
            omega)
          g1
        refine ⟨it.node :: (ord1 ++ ord), (k it.node s).nodes ++ (out1 ++ out), ?_,
          .cons (hQ _ _ hn.good) (g3.append h2), ?_⟩
        · refine .step _ a b it _ rfl ?_
          refine (g2 ord h1).perm _ ?_
          unfold nextItems
          classical
          rw [List.perm_iff_count] at *
          intro x
          have := hcip x
          simp only [List.count_append] at *
          omega
        · rw [h3, g4]; simp [List.append_assoc]

/-- the nodes `ND.visit` hands to its continuation, in order, are a permitted visit order -/
theorem visit_ord {mx : Int} {k : Node → ND.Script → ND.Out} {f : Node → List Node}
    {Q : Node → List Node → Prop} (hk : KOK mx k f) (hQ : KQ mx k Q)
    (root : Node) (s : ND.Script) (hroot : Good mx root) :
    ∃ ord, ord ∈ visitOrders root ∧ Lift Q ord (ND.visit mx root s k).nodes := by
  have hr := hk root s hroot
  have hcs := ndChildren_perm_spec root (k root s).script
  have h0 : QOK mx (root, 0) := ⟨hroot.1, by have := hroot.2; simp only at *; omega⟩
  have hstep : ND.visit mx root s k =
      ND.visitLoop mx k (root.val.size + 1)
        ((ND.ndChildren root (k root s).script).1.map (fun c => (c, 1)))
        (ND.ndChildren root (k root s).script).2 (k root s).nodes := by
    simp only [ND.visit, hr.1]
  rw [hstep]
  obtain ⟨ci, hci, hcip⟩ := ndChildren_abs root (k root s).script
  obtain ⟨ord, out, h1, h2, h3⟩ := visitLoop_ord hk hQ (root.val.size + 1)
    ((ND.ndChildren root (k root s).script).1.map (fun c => (c, 1)))
    (ND.ndChildren root (k root s).script).2 (k root s).nodes ci
    (by
      intro e he
      obtain ⟨c, hc, rfl⟩ := List.mem_map.1 he
      exact h0.child (hcs.mem_iff.1 hc))
    (by
      rw [qsize_map, (hcs.map _).sum_nat]
      have := size_children root
      omega)
    (by simpa [List.map_map, Function.comp_def] using hci)
  refine ⟨root :: ord, mem_visitOrders (h1.perm _ hcip), ?_⟩
  rw [h3]
  exact .cons (hQ _ _ hroot) h2

end JPV.Proofs.Ndp
