/-
Completeness, argument level: `Argument`, `MoreArgs`, and the lookahead of `argument`
(a literal exactly when `,` or `)` follows).
-/
import JPV.Proofs.Abnf.Compl5
namespace JPV.Proofs.AbnfP
open JPV JPV.Spec

/-- `argument` does not take its literal shortcut on `inp` -/
def NoLitArg (inp : List Char) : Prop :=
  ∀ v r, literal inp = some (v, r) → ∀ t, skipS r ≠ ',' :: t ∧ skipS r ≠ ')' :: t

theorem argument_logical {f : Nat} {inp : List Char} (h : NoLitArg inp) :
    argument (f + 1) inp = logicalOr f inp := by
  rw [argument]
  split
  · rename_i v r hl
    split
    · rename_i t ht; exact absurd ht (h v r hl t).1
    · rename_i t ht; exact absurd ht (h v r hl t).2
    · rfl
  · rfl

theorem noLitArg_of_head {inp : List Char} (h : ∀ c t, inp = c :: t → ¬ LitStart c) : NoLitArg inp := by
  intro v r hl
  rw [literal_none_of_head h] at hl
  cases hl

/-- splitting `n ++ '(' :: X` after a prefix `k` that has no `(` -/
theorem prefix_split_paren : ∀ (k n : List Char) {X r : List Char}, n ++ '(' :: X = k ++ r →
    (∀ c ∈ k, c ≠ '(') → ∃ n', r = n' ++ '(' :: X ∧ ∀ c ∈ n', c ∈ n
  | [], n, X, r, h, _ => ⟨n, by simpa using h.symm, fun _ hc => hc⟩
  | a :: k, [], X, r, h, hk => by
    simp only [List.nil_append, List.cons_append, List.cons.injEq] at h
    exact absurd h.1.symm (hk a List.mem_cons_self)
  | a :: k, b :: n, X, r, h, hk => by
    simp only [List.cons_append, List.cons.injEq] at h
    obtain ⟨n', h1, h2⟩ := prefix_split_paren k n h.2 (fun c hc => hk c (List.mem_cons_of_mem _ hc))
    exact ⟨n', h1, fun c hc => List.mem_cons_of_mem _ (h2 c hc)⟩

theorem fnchar_facts {c : Char} (h : (isLCALPHA c || c = '_' || isDIGIT c) = true) :
    isBlank c = false ∧ c ≠ ',' ∧ c ≠ ')' := by
  simp only [Bool.or_eq_true, decide_eq_true_eq] at h
  rcases h with (h | h) | h
  · exact ⟨lcalpha_not_blank h, isLCALPHA_ne h (by decide), isLCALPHA_ne h (by decide)⟩
  · subst h; decide
  · exact ⟨digit_not_blank h, isDIGIT_ne h (by decide), isDIGIT_ne h (by decide)⟩

theorem functionName_noLitArg {n : List Char} (hn : Abnf.FunctionName n) (X : List Char) :
    NoLitArg (n ++ '(' :: X) := by
  intro v r hl t
  obtain ⟨c, rest, rfl, hc, hrest⟩ := hn
  obtain ⟨k, hk, hkr⟩ := literal_keyword hl ⟨c, _, rfl, hc⟩
  obtain ⟨n', hr, hn'⟩ := prefix_split_paren k (c :: rest) hkr (by
    rcases hk with rfl | rfl | rfl <;> decide)
  have hall : ∀ d ∈ c :: rest, (isLCALPHA d || d = '_' || isDIGIT d) = true := by
    intro d hd
    cases hd with
    | head => simp [hc]
    | tail _ h => exact hrest d h
  subst hr
  cases n' with
  | nil =>
    have : skipS ('(' :: X) = '(' :: X := by simp [skipS, isBlank]
    simp only [List.nil_append, this]
    exact ⟨by simp, by simp⟩
  | cons d ds =>
    have hd := fnchar_facts (hall d (hn' d List.mem_cons_self))
    have : skipS (d :: ds ++ '(' :: X) = d :: (ds ++ '(' :: X) := by
      simp only [List.cons_append]; simp [skipS, hd.1]
    rw [this]
    exact ⟨by simp [hd.2.1], by simp [hd.2.2]⟩

theorem functionExpr_noLitArg {l : Bool} {s : List Char} {e : CExpr} (h : Abnf.FunctionExpr l s e)
    (R : List Char) : NoLitArg (s ++ R) := by
  cases h with
  | noArgs hn _ =>
    have := functionName_noLitArg hn
    simp only [List.append_assoc, List.cons_append]
    exact this _
  | args hn _ _ _ _ =>
    have := functionName_noLitArg hn
    simp only [List.append_assoc, List.cons_append]
    exact this _

theorem testItem_noLitArg {l : Bool} {s : List Char} {e : CExpr} (h : Abnf.TestItem l s e)
    (R : List Char) : NoLitArg (s ++ R) := by
  cases h with
  | rel _ => exact noLitArg_of_head (by intro c t e; cases e; simp [LitStart, isDIGIT])
  | root _ => exact noLitArg_of_head (by intro c t e; cases e; simp [LitStart, isDIGIT])
  | call hf => exact functionExpr_noLitArg hf R

theorem basic_noLitArg {l : Bool} {s : List Char} {e : CExpr} (h : Abnf.Basic l s e)
    (R : List Char) : NoLitArg (s ++ R) := by
  cases h with
  | paren hp =>
    obtain ⟨t, rfl⟩ := paren_head hp
    exact noLitArg_of_head (by intro c t e; cases e; simp [LitStart, isDIGIT])
  | notParen _ _ => exact noLitArg_of_head (by intro c t e; cases e; simp [LitStart, isDIGIT])
  | test ht => exact testItem_noLitArg ht R
  | notTest _ _ => exact noLitArg_of_head (by intro c t e; cases e; simp [LitStart, isDIGIT])
  | @cmp s1 b1 o b2 s2 op el er h1 hb1 ho hb2 h2 =>
    have hinp : s1 ++ b1 ++ o ++ b2 ++ s2 ++ R = s1 ++ (b1 ++ (o ++ (b2 ++ (s2 ++ R)))) := by simp
    rw [hinp]
    cases h1 with
    | rel _ => exact noLitArg_of_head (by intro c t e; cases e; simp [LitStart, isDIGIT])
    | root _ => exact noLitArg_of_head (by intro c t e; cases e; simp [LitStart, isDIGIT])
    | call hf => exact functionExpr_noLitArg hf _
    | lit hl =>
      obtain ⟨co, to, rfl, hco⟩ := compOp_head ho
      have hcoB : isBlank co = false ∧ StopTerm co ∧ co ≠ ',' ∧ co ≠ ')' := by
        rcases hco with h | h | h | h <;> subst h <;> exact ⟨by decide, by simp [StopTerm], by decide, by decide⟩
      have hfol : SFol StopTerm (b1 ++ (co :: to ++ (b2 ++ (s2 ++ R)))) := SFol.of_blanks hb1 hcoB.1 hcoB.2.1
      have hlit := literal_complete hl (FolChar.numFollow hfol.head)
      intro v r hl' t
      rw [hlit] at hl'
      simp only [Option.some.injEq, Prod.mk.injEq] at hl'
      rw [← hl'.2]
      have : skipS (b1 ++ (co :: to ++ (b2 ++ (s2 ++ R)))) = co :: (to ++ (b2 ++ (s2 ++ R))) :=
        skipS_blanks_cons hb1 hcoB.1 _
      rw [this]
      exact ⟨by simp [hcoB.2.2.1], by simp [hcoB.2.2.2]⟩

theorem logicalAnd_noLitArg {l : Bool} {s : List Char} {e : CExpr} (h : Abnf.LogicalAnd l s e)
    (R : List Char) : NoLitArg (s ++ R) := by
  cases h with
  | single hb => exact basic_noLitArg hb R
  | and hb _ _ _ =>
    simp only [List.append_assoc]
    exact basic_noLitArg hb _

theorem logicalOr_noLitArg {l : Bool} {s : List Char} {e : CExpr} (h : Abnf.LogicalOr l s e)
    (R : List Char) : NoLitArg (s ++ R) := by
  cases h with
  | single hb => exact logicalAnd_noLitArg hb R
  | or hb _ _ _ =>
    simp only [List.append_assoc]
    exact logicalAnd_noLitArg hb _

theorem ArgFollow.head {R : List Char} (h : ArgFollow R) : HeadP FolChar R := h.sfol.or_term.head

theorem cArg_logical {s : List Char} {e : CExpr} (hno : ∀ R, NoLitArg (s ++ R)) (ih : COr s e) : CArg s e := by
  intro R fuel hR hf
  obtain ⟨f, rfl⟩ : ∃ f, fuel = f + 1 := ⟨fuel - 1, by omega⟩
  obtain ⟨e', h1, hn⟩ := ih R f hR.sfol (by omega)
  exact ⟨e', by rw [argument_logical (hno R), h1], hn⟩

theorem cArg_lit {s : List Char} {v : Json} (hl : Abnf.Literal s v) : CArg s (.lit v) := by
  intro R fuel hR hf
  obtain ⟨f, rfl⟩ : ∃ f, fuel = f + 1 := ⟨fuel - 1, by omega⟩
  have hlit := literal_complete hl (FolChar.numFollow hR.head)
  refine ⟨.lit v, ?_, rfl⟩
  rw [argument, hlit]
  obtain ⟨t, ht | ht⟩ := hR <;> simp only [ht]

theorem cMArgs_nil : CMArgs [] [] := by
  intro R fuel hR hf
  obtain ⟨f, rfl⟩ : ∃ f, fuel = f + 1 := ⟨fuel - 1, by omega⟩
  obtain ⟨t, ht⟩ := hR
  refine ⟨[], ?_, rfl⟩
  simp only [List.nil_append]
  rw [moreArgs, ht]
  split
  · rename_i heq; simp at heq
  · rfl

theorem cMArgs_cons {l : Bool} {b1 b2 s more : List Char} {a : CExpr} {as : List CExpr}
    (hb1 : Abnf.Blanks b1) (hb2 : Abnf.Blanks b2) (hs : Abnf.Argument l s a)
    (hm : Abnf.MoreArgs l more as) (iha : CArg s a) (ihm : CMArgs more as) :
    CMArgs (b1 ++ ',' :: (b2 ++ s ++ more)) (a :: as) := by
  intro R fuel hR hf
  simp only [List.length_cons, List.length_append] at hf
  obtain ⟨f, rfl⟩ : ∃ f, fuel = f + 1 := ⟨fuel - 1, by omega⟩
  obtain ⟨ch, t, rfl, hch⟩ := argument_head hs
  have hsk : skipS (b1 ++ ',' :: (b2 ++ (ch :: t) ++ more) ++ R) = ',' :: (b2 ++ ((ch :: t) ++ (more ++ R))) := by
    simp only [List.append_assoc, List.cons_append]
    exact skipS_blanks_cons hb1 (by decide) _
  have hsk2 : skipS (b2 ++ ((ch :: t) ++ (more ++ R))) = (ch :: t) ++ (more ++ R) :=
    skipS_blanks_cons hb2 hch.facts.notBlank _
  obtain ⟨a', h1, hn1⟩ := iha (more ++ R) f (moreArgs_skip hm hR) (by omega)
  obtain ⟨as', h2, hn2⟩ := ihm R f hR (by omega)
  refine ⟨a' :: as', ?_, by simp only [normArgs, hn1, hn2]⟩
  rw [moreArgs, hsk]
  simp only [hsk2, h1, h2]

end JPV.Proofs.AbnfP
