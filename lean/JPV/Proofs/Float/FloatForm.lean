/-
`Proofs.Float.FloatForm` — which doubles `repr` prints as a float spelling (`ReprIsFloat`): every double below
`10^16` in absolute value — in particular every double that is not an integer.  (From `1e16` on, `repr` uses the
exponent form, and a single significant digit then gives `1e+16`, `2e+22`, …, which the query syntax reads as ints.)
-/
import JPV.Proofs.Float.Decide
namespace JPV.Proofs.Float
open JPV JPV.Proofs.Cf

theorem round_1e16 : Py.roundBinary64 (10 ^ 16) 1 = some (5000000000000000, 1) := by decide +kernel

/-- every double of absolute value below `10^16` is printed with a `.` or a negative exponent -/
theorem reprIsFloat_of_lt (x : Num) (h : IsDouble x) (hlt : x.n.natAbs < 10 ^ 16 * x.d) : ReprIsFloat x := by
  unfold ReprIsFloat
  by_cases hn : x.n = 0
  · obtain ⟨hf, hz | ⟨m, e, hm0, _, _, _, hg, hv⟩⟩ := h
    · obtain ⟨flt, n, d⟩ := x
      simp only at hf hz hn
      obtain ⟨rfl, hd⟩ := hz
      subst hf
      rcases hd with rfl | rfl <;> decide +kernel
    · exfalso
      rw [hn] at hg hv
      simp only [Int.natAbs_zero, Nat.gcd_zero_left, Nat.zero_mul] at hg hv
      rw [hg] at hv
      have := Nat.mul_pos hm0 (Nat.two_pow_pos e.toNat)
      omega
  · obtain ⟨hN, hd, hg, M, E, hM0, hM, hnorm, hE0, hE1, hv⟩ := h.nonzero hn
    obtain ⟨hlo, hhi⟩ := double_log2_range _ _ M E hN hd hM0 hM hE0 hE1 hv
    obtain ⟨hb1, _⟩ := decimalExponent_bounds _ _ hN hd hlo hhi
    obtain ⟨k, hk1, hk17, hm1, hm2, _, _, hdp, hcarry, hback⟩ :=
      find_reads_back _ _ M E hN hd hM0 hM hnorm hE0 hE1 hv
    have hdq : (0 : ℚ) < x.d := by exact_mod_cast hd
    have hvlt : ((x.n.natAbs : ℕ) : ℚ) / x.d < 10 ^ (16 : ℤ) := by
      rw [div_lt_iff₀ hdq]
      have : ((x.n.natAbs : ℕ) : ℚ) < ((10 ^ 16 * x.d : ℕ) : ℚ) := by exact_mod_cast hlt
      push_cast at this
      exact_mod_cast this
    have he10 : Py.decimalExponent x.n.natAbs x.d ≤ 16 := by
      have := lt_of_le_of_lt hb1 hvlt
      rw [zpow_lt_zpow_iff_right₀ (by norm_num)] at this
      omega
    have hform : Py.reprFloat x = if x.n < 0 then '-' :: Py.reprPos x.n.natAbs x.d else Py.reprPos x.n.natAbs x.d := by
      unfold Py.reprFloat
      rw [if_neg (by omega), if_neg (fun hc => hn hc.1)]
    rw [hform, reprPos_eq _ _ (by omega)]
    generalize Py.reprPos.find x.n.natAbs x.d (Py.roundBinary64 x.n.natAbs x.d) 17 1 = r at *
    obtain ⟨m, dp⟩ := r
    simp only at *
    have hm0 : 0 < m := lt_of_lt_of_le (Nat.pow_pos (by norm_num)) hm1
    have hsmall : dp ≤ 16 := by
      by_contra hc
      have hdp17 : dp = Py.decimalExponent x.n.natAbs x.d + 1 := by omega
      have h16 : Py.decimalExponent x.n.natAbs x.d = 16 := by omega
      have hm := hcarry hdp17
      have hr := hback (10 ^ 16) 1 (by norm_num) (by
        rw [hm, hdp17, h16]
        push_cast
        rw [← zpow_natCast, ← zpow_add₀ (by norm_num)]
        have : ((k - 1 : ℕ) : ℤ) + (17 - (k : ℤ)) = 16 := by omega
        rw [this]; norm_num)
      rw [round_1e16] at hr
      simp only [Option.some.injEq, Prod.mk.injEq] at hr
      obtain ⟨rfl, rfl⟩ := hr
      rw [hv] at hvlt
      norm_num at hvlt
    obtain ⟨f1, f2⟩ := layout_isFloatSp_of_small m hm0 dp hsmall
    split
    · exact f2
    · exact f1

/-- every double that is not an integer is printed as a float spelling -/
theorem reprIsFloat_of_not_int (x : Num) (h : IsDouble x) (hd1 : x.d ≠ 1) (hd2 : x.d ≠ 2 ∨ x.n ≠ 0) :
    ReprIsFloat x := by
  by_cases hn : x.n = 0
  · apply reprIsFloat_of_lt x h
    have := h.d_ne_zero
    rw [hn]; simp only [Int.natAbs_zero]
    exact Nat.mul_pos (by norm_num) (by omega)
  · apply reprIsFloat_of_lt x h
    obtain ⟨_, hz | ⟨m, e, hm0, hm, he0, he1, hg, hv⟩⟩ := h
    · exact absurd hz.1 hn
    · have hd : 0 < x.d := (IsDouble.nonzero ⟨‹_›, .inr ⟨m, e, hm0, hm, he0, he1, hg, hv⟩⟩ hn).2.1
      by_cases he : 0 ≤ e
      · exfalso
        have : (-e).toNat = 0 := by omega
        rw [this, Nat.pow_zero, Nat.mul_one] at hv
        have hdvd : x.d ∣ x.n.natAbs := ⟨m * 2 ^ e.toNat, by rw [hv, Nat.mul_comm]⟩
        have := Nat.gcd_eq_right hdvd
        omega
      · have h0 : e.toNat = 0 := by omega
        rw [h0, Nat.pow_zero, Nat.mul_one] at hv
        have hp : 1 ≤ 2 ^ (-e).toNat := Nat.one_le_two_pow
        calc x.n.natAbs ≤ x.n.natAbs * 2 ^ (-e).toNat := Nat.le_mul_of_pos_right _ hp
          _ = m * x.d := hv
          _ < 10 ^ 16 * x.d := Nat.mul_lt_mul_of_pos_right (by omega) hd

end JPV.Proofs.Float
