"""Exploration (Tie B + oracle search) for the evaluator-side properties
C01, C02, C06, C07, C10, C18."""
from __future__ import annotations

import itertools
import random

import gen
import real
import wire
import model
from sweep import sweep, doc_depth
import sweep as sweep_mod

BASE_ENV = dict(real.DEFAULT_ENVDESC)
PROBE_ENV = dict(real.DEFAULT_ENVDESC)
PROBE_ENV["fns"] = gen.PROBE_FNS


def sizes(tier, deep, quick, thorough):
    n = thorough if tier == "thorough" else quick
    return n * 3 if deep and tier != "thorough" else n


# ---------------------------------------------------------------------------------------------
# helpers: queries that follow the structure of a document


def walk_query(rng, doc, g, max_seg=4, filters=False):
    out = ["$"]
    cur = [doc]
    for _seg in range(rng.randint(1, max_seg)):
        # mostly stop where the walk has run out of containers (a further segment selects nothing)
        if _seg > 0 and not any(isinstance(x, (list, dict)) and x for x in cur) and rng.random() < 0.85:
            break
        live = [x for x in cur if isinstance(x, (list, dict)) and x]
        v = rng.choice(live) if live and rng.random() < 0.8 else (rng.choice(cur) if cur else None)
        out.append(g.S())
        k = rng.random()
        desc = rng.random() < 0.15
        if isinstance(v, dict) and v and k < 0.55:
            name = rng.choice(list(v.keys())) if rng.random() < 0.85 else g.name()
            if gen.is_shorthand(name) and rng.random() < 0.5:
                out.append((".." if desc else ".") + name)
            else:
                out.append((".." if desc else "") + "[" + g.S() + gen.quote_name(rng, name) + g.S() + "]")
            nxt = [x[name] for x in cur if isinstance(x, dict) and name in x]
        elif isinstance(v, list) and k < 0.6:
            if rng.random() < 0.5:
                n = len(v)
                i = rng.choice([0, -1, n - 1, -n, 0, -1, rng.randrange(max(n, 1)), -rng.randint(1, max(n, 1)), n, -n - 1, 1, rng.randint(-n - 1, n + 1)])
                out.append((".." if desc else "") + f"[{g.S()}{i}{g.S()}]")
                nxt = []
                for x in cur:
                    if isinstance(x, list) and -len(x) <= i < len(x):
                        nxt.append(x[i])
            else:
                sl = g.slice_() if rng.random() < 0.5 else doc_slice(rng, len(v), g)
                out.append((".." if desc else "") + "[" + sl + "]")
                nxt = [y for x in cur if isinstance(x, list) for y in x]
        elif k < 0.8 or not filters:
            out.append(("..*" if desc else ".*") if rng.random() < 0.5 else ((".." if desc else "") + "[*]"))
            nxt = [y for x in cur for y in (x.values() if isinstance(x, dict) else x if isinstance(x, list) else [])]
        else:
            out.append((".." if desc else "") + "[?" + g.S() + g.logical_or(1) + g.S() + "]")
            nxt = [y for x in cur for y in (x.values() if isinstance(x, dict) else x if isinstance(x, list) else [])]
        cur = nxt
    return "".join(out)


def doc_slice(rng, n, g):
    """a slice whose bounds sit at the array's own boundaries (0, n-1, n, n+1, 2n and their negatives), any step sign"""
    bounds = [0, 1, n - 1, n, n + 1, 2 * n, -1, -n, -n - 1, -n + 1, -2 * n, 100, -100]
    a = str(rng.choice(bounds)) if rng.random() < 0.7 else ""
    b = str(rng.choice(bounds)) if rng.random() < 0.6 else ""
    out = a + g.S() + ":" + g.S() + b
    if rng.random() < 0.75:
        c = str(rng.choice([-1, -1, -2, -3, 1, 2, 3, 0, -n, n])) if rng.random() < 0.9 else ""
        out += g.S() + ":" + (g.S() + c if c else "")
    return out


KIND_CHILDREN = [0, False, "", None, [], {}, 1, True, "a", 0.0, -1, [0], {"a": 0}, "hello", "ab"]


def doc_with_all_kinds(rng, depth=3):
    d = gen.gen_container(rng, depth=depth)
    extra = [gen._copy(x) for x in rng.sample(KIND_CHILDREN, rng.randint(3, len(KIND_CHILDREN)))]
    if isinstance(d, list):
        d.extend(extra)
        rng.shuffle(d)
    else:
        for i, x in enumerate(extra):
            d[rng.choice(gen.SIMPLE_NAMES) + str(i % 3)] = x
    return d


# ---------------------------------------------------------------------------------------------
# C01


def explore_c01(rng, tier, res, deep=False):
    res.rule = (
        "filter-free query texts (grammar-directed + document-following, all lexical spellings) x random JSON "
        "documents (objects/arrays/scalars, names incl. quotes/controls/non-BMP); real find() vs Lean model "
        "(impl.query, iter) and vs RFC oracle (rfc.query). Non-trivial = distinct (query, document) with a "
        "non-empty result."
    )
    n = sizes(tier, deep, 1500, 40000)
    cases = []
    g = gen.QueryGen(rng, names=gen.NAMES, max_filter_depth=0)
    gs = gen.QueryGen(rng, names=gen.SIMPLE_NAMES, max_filter_depth=0)
    for i in range(n):
        names = gen.NAMES if i % 3 == 0 else gen.SIMPLE_NAMES
        doc = gen.gen_doc(rng, depth=rng.choice([2, 3, 4]), names=names)
        if i % 4 != 1:
            q = walk_query(rng, doc, g if i % 3 == 0 else gs)
        else:
            q = (g if i % 3 == 0 else gs).query()
        cases.append((q, doc))
    # member names from every supplementary plane, each spelled as a surrogate-pair escape (both hex cases, both
    # quote styles), in a document that also holds the names 0x10000 below and above (what faulty pair arithmetic yields)
    cps = [0x10000, 0x1F600, 0x1FFFF, 0x20000, 0x20BB7, 0x2FFFF, 0x30000, 0x3FFFF, 0x40000, 0x50000, 0xE0001, 0xF0000, 0xFFFFF, 0x100000, 0x10FFFF]
    pdoc = {chr(c): i for i, c in enumerate(cps)}
    pdoc.update({"x" + chr(c): 100 + i for i, c in enumerate(cps[:6])})
    for c in cps:
        v = c - 0x10000
        hi, lo = 0xD800 + (v >> 10), 0xDC00 + (v & 0x3FF)
        for fmt in ("\\u%04X\\u%04X", "\\u%04x\\u%04x"):
            esc = fmt % (hi, lo)
            cases.append((f'$["{esc}"]', pdoc))
            cases.append((f"$['{esc}', 'x{esc}']", pdoc))
            cases.append((f"$..['{esc}']", {"k": pdoc, "l": [pdoc]}))
    # every selector applied to a SCALAR reached by a singular path, a wildcard or a descendant segment: a JSON string is
    # not an array of characters and not an object (a Python str is subscriptable, sliceable and iterable), numbers,
    # booleans and null have no children
    scalars = ["xyz", "", "0", 5, 0, True, False, None, 1.5, "a\U0001F600b"]
    sdoc = {"a": "xyz", "b": {"c": "héllo", "d": 7, "e": True, "f": None}, "s": scalars, "0": "zero", "n": 12345, "l": ["ab", ["cd"], {"a": "ef"}]}
    for prefix in ("$.a", "$['a']", "$.b.c", "$.b.d", "$.b.e", "$.b.f", "$.s[0]", "$.s[3]", "$.s[-1]", "$.n", "$.l[0]", "$.l[1][0]", "$.l[2].a", "$.s[*]", "$..a", "$..c", "$.s[9]", "$[0]"):
        for sel in ("[0]", "[-1]", "[2]", "[1:]", "[:]", "[::-1]", "[*]", ".*", "['0']", ".length", ".a", "[0, 1]", "[0][0]", "..[0]", "..*", "[-3]", "[0:1]", "['a', 0]"):
            cases.append((prefix + sel, sdoc))
    # several index selectors in one segment, every combination of small indices of either sign (runs that ascend,
    # descend, repeat, cross zero), on arrays shorter and longer than the run: each selector is applied on its own
    small = [-3, -2, -1, 0, 1, 2]
    arrs = [["z"], ["a", "b"], ["a", "b", "c"], ["a", "b", "c", "d", "e"]]
    for i, j, k in itertools.product(small, repeat=3):
        arr = arrs[(i + 2 * j + 3 * k) % len(arrs)]
        cases.append((f"$[{i},{j},{k}]", arr))
    for run in ([-2, -1, 0, 1], [-1, 0, 1, 2, 3], [-3, -2, -1, 0], [-1, 0, -1, 0, 1], [2, 1, 0, -1], [0, 1, 2, 3, 4], [-4, -3, -2, -1]):
        body = ",".join(str(x) for x in run)
        for arr in arrs:
            cases.append((f"$[{body}]", arr))
            cases.append((f"$['x',{body}].k", {"x": 1}))
            cases.append((f"$..[{body}]", [arr, {"k": arr}]))
            cases.append((f"$.k[{body}, 0:2]", {"k": arr}))
    for v in scalars:
        for q in ("$[0]", "$[-1]", "$[:]", "$[*]", "$.*", "$..*", "$..[0]", "$['a']", "$.a", "$[0, 'a']"):
            cases.append((q, v))
            cases.append(("$.k" + q[1:], {"k": v}))
            cases.append(("$[0]" + q[1:], [v]))
    sweep(res, BASE_ENV, cases, "C01", expect_valid=True)
    import spec_examples

    spec_examples.values_examples(res)  # the ORACLE against RFC 9535's own examples (validates the trusted Spec, not the code)
    if tier == "thorough":
        small_scope_c01(res)


def small_scope_c01(res):
    """all documents up to 5 nodes over 2 names x all queries up to 2 segments over a 12-selector alphabet"""
    docs = list(enum_docs(3))
    sels = ["a", "b", "*", "0", "-1", "1:", ":1", "::-1", "'a','b'", "0,0", "*,a_", "5"]
    segs = []
    for s in sels:
        s2 = s.replace("a_", "'a'")
        body = s2 if s2[0] in "*'-0123456789:" else "'" + s2 + "'"
        segs.append("[" + body + "]")
        segs.append("..[" + body + "]")
    qs = ["$" + a for a in segs] + ["$" + a + b for a in segs for b in segs]
    cases = [(q, d) for q in qs for d in docs]
    res.notes.append(f"small-scope: {len(docs)} documents x {len(qs)} queries")
    sweep(res, BASE_ENV, cases, "C01", check_ast_iter=False, expect_valid=True)
    res.exhaustive = False


def enum_docs(budget):
    """all JSON trees with at most `budget` nodes over names {a,b} and leaves {0, "a", null}"""
    leaves = [0, "a", None]

    def trees(n):
        if n <= 0:
            return
        if n == 1:
            for x in leaves:
                yield x
            yield []
            yield {}
            return
        for parts in compositions(n - 1):
            for kids in itertools.product(*[list(trees(p)) for p in parts]):
                yield list(kids)
                if len(kids) <= 2:
                    for names in itertools.permutations(["a", "b"], len(kids)):
                        yield dict(zip(names, kids))

    for n in range(1, budget + 1):
        yield from trees(n)


def compositions(n):
    if n == 0:
        yield ()
        return
    for first in range(1, n + 1):
        for rest in compositions(n - first):
            yield (first,) + rest


# ---------------------------------------------------------------------------------------------
# C02


def explore_c02(rng, tier, res, deep=False):
    res.rule = (
        "query texts with filter selectors (nested filters, relative/absolute embedded queries, comparisons, "
        "function calls incl. probe functions of every type, any parenthesisation) x documents whose containers "
        "hold children of every kind (0, false, '', null, [], {}); real find() vs model and vs RFC oracle. "
        "Non-trivial = distinct (query, document) with a non-empty result."
    )
    n = sizes(tier, deep, 1500, 40000)
    fns3 = [(a, b, c) for a, b, c, _ in gen.PROBE_FNS]
    g = gen.QueryGen(rng, names=gen.SIMPLE_NAMES, fns=fns3, max_filter_depth=2)
    cases = []
    for i in range(n):
        doc = doc_with_all_kinds(rng, depth=rng.choice([2, 3]))
        if i % 2 == 0:
            q = walk_query(rng, doc, g, max_seg=3, filters=True)
            if "?" not in q:
                q = "$[?" + g.logical_or(1) + "]"
        else:
            q = "$" + g.S() + "[" + g.S() + "?" + g.S() + g.logical_or(1) + g.S() + "]" + (g.segment(1) if rng.random() < 0.3 else "")
        cases.append((q, doc))
    # the shapes the property text singles out
    fixed = [
        ("$[?@]", [0, False, "", None, [], {}, 1]),
        ("$[?!@]", [0, False, "", None, [], {}, 1]),
        ("$.y[?@[?$.x]]", {"x": 0, "y": [[1], [2]]}),
        ("$.y[?@[?$.x==@]]", {"x": 2, "y": [[1], [2]]}),
        ("$[?@.a && (@.b || !@.c)]", [{"a": 0, "c": None}, {"a": 1, "b": 0, "c": 1}, {"b": 1}]),
        ("$[?@.a || @.b && @.c]", [{"a": False}, {"b": 1}, {"b": 1, "c": 0}, {}]),
        ("$.a[?@]", {"a": 1}),
        ("$[?@.*]", [[], [0], {}, {"a": None}, 0]),
    ]
    cases.extend(fixed)
    # STRING children whose text looks like JSON (an array, an object, a number, a keyword, a quoted string): a string is a
    # scalar — selectors select nothing from it, a filter applied to it selects nothing, `@` denotes the string itself
    jtexts = ["[1]", '{"a": 1}', '[{"b": 7}]', "[]", "{}", '"x"', "12", "null", "true", "[1, 2, 3]", '{"a": {"a": [1]}}', " [1]", "[1] ", "1e3", "-0", '["[1]"]']
    for jt in jtexts:
        jdoc = [jt, "x", json_like(jt), {"a": jt, "b": json_like(jt)}, [jt]]
        for q in ("$[?@[0]]", "$[?@.a]", "$[?@.*]", "$[?!@.*]", f"$[?@ == {gen.quote_name(rng, jt, plain=True)}]", "$[?@[?@]]", "$[?count(@.*) > 0]", "$[?@.a[0]]", "$[?length(@) > 1]",
                  "$[?@[?@.b == 7]]", "$..[?@[0]]", "$[?value(@[0]) == 1]", "$[?@.a.a]", "$[*][?@]", "$[?@..a]"):
            cases.append((q, jdoc))
    # long arrays and objects (60..130 children) over a small pool of values that Python's == / hash() conflate but
    # RFC 9535 keeps apart (1, true, 1.0; 0, false, 0.0, -0.0) or that repeat many times: whatever an implementation
    # remembers per distinct child value, per position or per container size shows up here and not on short inputs
    pool = [0, 1, True, False, 1.0, 0.0, -0.0, "1", "", None, 2, "a", [], [1], {}, {"a": 1}, {"a": True}]
    for _ in range(40 if tier != "thorough" else 400):
        n = rng.choice([60, 63, 64, 65, 100, 128, 130])
        xs = [rng.choice(pool) for _ in range(n)]
        doc = rng.choice([xs, {"log": xs, "ok": rng.choice(pool[:7])}, {"k%d" % i: x for i, x in enumerate(xs)}])
        lit = rng.choice(["1", "0", "true", "false", "1.0", "0.0", "null", "'1'", "2"])
        q = rng.choice([f"$[?@ == {lit}]", f"$[?@ != {lit}]", f"$[?{lit} == @]", f"$[?@ < {lit}]", f"$[?@ >= {lit}]", "$.log[?@ == $.ok]", "$.log[?@ != $.ok]",
                        f"$..[?@ == {lit}]", f"$[?@.a == {lit}]", "$[?@]", f"$[?@ == {lit} || @ == 'a']", "$[?" + g.logical_or(1) + "]"])
        cases.append((q, doc))
    sweep(res, PROBE_ENV, cases, "C02", expect_valid=True)
    reuse_after_edit(rng, res, PROBE_ENV, cases[:: max(1, len(cases) // (300 if tier == "quick" and not deep else 3000))], "C02")
    same_query_twice(rng, tier, res)
    root_under_descent(rng, tier, res)
    import spec_examples

    spec_examples.values_examples(res)


def json_like(text):
    """the value a JSON-looking string would decode to (used as a SIBLING of the string, never instead of it)"""
    import json as _json

    try:
        return _json.loads(text)
    except ValueError:
        return text


def root_under_descent(rng, tier, res):
    """`$` is the query argument wherever the filter stands: under a descendant segment that starts below the root,
    inside a filter's own relative descendant query, inside function arguments — with sub-values that carry the same
    member names as the root (so that a wrong `$` gives another answer, not nothing)."""
    doc = {"k": 1, "max": 10, "a": {"k": 2, "max": 100, "b": [1, 2, {"k": 1, "c": [1, 2]}], "p": 50}, "store": {"max": 100, "items": [{"p": 5}, {"p": 50}, {"p": 500}], "k": 3},
           "l": [{"k": 1, "v": [1]}, {"k": 2, "v": [2]}]}
    heads = ["$.a..", "$..", "$.a.b..", "$.store..", "$.l[*]..", "$.l[0]..", "$.a[*]..", "$['a','store']..", "$.l[?@.k]..", "$..a.."]
    filts = ["?@ == $.k", "?@.p < $.max", "?@.k == $.k", "?$.k", "?@ == $.a.k", "?count($..k) == 4", "?@ < $.max && @ > $.k", "?value($.k) == @", "?@.k != $.store.k", "?$.l[?@.k == 1]"]
    cases = []
    for h in heads:
        for f in filts:
            cases.append((f"{h}[{f}]", doc))
    for f in filts:
        cases.append((f"$[?@..[{f}]]", doc))
        cases.append((f"$.*[?count(@..[{f}]) > 0]", doc))
        cases.append((f"$.a[?@..[{f}]]", doc))
        cases.append((f"$..[?@..[{f}]]", doc))
    sweep(res, PROBE_ENV, cases, "C02", check_ast_iter=False, expect_valid=True)


def same_query_twice(rng, tier, res):
    """One filter that uses the SAME embedded query (or the same literal, or the same call) in two places joined by a
    logical operator: an existence test next to a comparison of it, the two in either order, `a && a`, `a || !a`,
    `!(!a)` — each operand is evaluated for what it is (a comparison with Nothing is not an existence test)."""
    doc = [{"a": 2}, {"b": 3}, {"a": 1}, {"a": None}, {"a": False}, 5, None, "a", [], {}, {"a": [1]}, {"a": 0, "b": 0}, [1, 2], {"a": {"a": 1}}]
    cases = []
    queries = ["@.a", "@['a']", "@[0]", "$[0].a", "@.a.a", "@.b"]
    lits = ["1", "null", "false", "0", "'a'", "2"]
    for q in queries:
        for op in OPS:
            for lit in lits:
                for l, r in ((q, f"{q} {op} {lit}"), (f"{q} {op} {lit}", q), (q, f"{lit} {op} {q}"), (f"!{q}", f"{q} {op} {lit}"), (q, f"!({q} {op} {lit})")):
                    for conj in ("&&", "||"):
                        cases.append((f"$[?{l} {conj} {r}]", doc))
        for other in queries:
            cases.append((f"$[?{q} && {other}]", doc))
            cases.append((f"$[?{q} || !{other}]", doc))
            cases.append((f"$[?{q} == {other} && {q}]", doc))
            cases.append((f"$[?count({q}) == 1 && {other} != 1]", doc))
        cases += [(f"$[?!(!{q})]", doc), (f"$[?!(!(!{q}))]", doc), (f"$[?({q}) && (({q}))]", doc), (f"$[?{q} && {q} && !{q}]", doc)]
    if tier != "thorough":
        keep = cases[::3] + [c for c in cases if "!=" in c[0]][::2]
        cases = keep
    sweep(res, PROBE_ENV, cases, "C02", check_ast_iter=False, expect_valid=True)


def reuse_after_edit(rng, res, envdesc, cases, prop):
    """`$` and `@` denote the query argument / current node of THIS application: compile once, apply, edit the very
    same container object in place, apply again — the second nodelist must be the RFC nodelist of the edited value"""
    import copy

    import checks_api

    env = real.make_env(envdesc)
    eenv = real.enc_env(envdesc)
    lines, got = [], []
    for q, doc in cases:
        try:
            _line, compiled = real.observe_compile(env, q)
        except RecursionError:
            continue
        if compiled is None or not isinstance(doc, (dict, list)):
            continue
        live = copy.deepcopy(doc)
        try:
            real.observe_stream(compiled, live)
        except RecursionError:
            continue
        for _ in range(2):
            checks_api.edit_in_place(rng, live)
            snap = copy.deepcopy(live)
            got.append((q, snap, real.observe_stream(compiled, live)))
            lines.append(f"rfc.query\t{eenv}\t{wire.enc_str(q)}\t{wire.enc_json(snap)}")
    if not lines:
        return
    import model

    for (q, snap, rl), rep in zip(got, model.run_batch_parallel(lines)):
        res.evaluations += 1
        if rep.split("\t")[0] != "valid" or not (rl.startswith("stream\t") and rl.endswith("\tend")):
            continue
        want = rep.split("\t", 1)[1] if "\t" in rep else ""
        if rl.split("\t")[1] != want:
            res.violations.append({"property": prop, "query": q, "document": snap, "env": envdesc,
                                   "observed": rl.split("\t")[1][:300], "expected": want[:300],
                                   "history": "compile once; apply; edit the same container object in place; apply again (second result shown)",
                                   "what": "a reused compiled query does not return the RFC 9535 nodelist of the value it is applied to"})
    res.count("reuse-after-edit", len(lines))


# ---------------------------------------------------------------------------------------------
# C06

CMP_POOL = [
    None, True, False, 0, 1, -1, 2, 0.0, -0.0, 1.0, 1.5, 2.0, 2**53, 2**53 + 1, float(2**53), 10**20, 1e20,
    "", "a", "b", "ab", "A", "é", "😀", "a😀", "\U0001F600a", "1", "0", "true",
    [], [1], [True], [1.0], [1, 2], [[1]], [[True]], {}, {"a": 1}, {"a": True}, {"a": 1.0}, {"b": 1},
    {"a": 1, "b": 2}, {"b": 2, "a": 1}, {"a": [1, {"b": False}]}, {"a": [1, {"b": 0}]},
]
OPS = ["==", "!=", "<", "<=", ">", ">="]


def lit_of(rng, v):
    if v is None:
        return "null"
    if v is True:
        return "true"
    if v is False:
        return "false"
    if isinstance(v, str):
        return gen.quote_name(rng, v)
    if isinstance(v, int):
        return str(v)
    if isinstance(v, float):
        r = repr(v)
        return r if ("e" in r or "." in r) and "inf" not in r else None
    return None


SIMILAR = {True: [1, 1.0, "true"], False: [0, 0.0, "", None], None: [0, False, "", "null", [], {}], 0: [False, 0.0, "0", None],
           1: [True, 1.0, "1"], 0.0: [0, False], 1.0: [1, True], "": [None, False, 0, []], "a": ["A", "a ", ["a"]], "1": [1, 1.0, True]}


def near_copy(rng, v):
    """a deep copy of v with exactly one small edit somewhere"""
    import copy

    w = copy.deepcopy(v)
    paths = []

    def walk(x, path):
        paths.append(path)
        if isinstance(x, list):
            for i, y in enumerate(x):
                walk(y, path + [i])
        elif isinstance(x, dict):
            for k, y in x.items():
                walk(y, path + [k])

    walk(w, [])
    path = rng.choice(paths)

    def edit(x):
        k = rng.random()
        if isinstance(x, dict) and x and k < 0.7:
            key = rng.choice(list(x.keys()))
            r = rng.random()
            if r < 0.35:  # rename a member, value kept
                items = [(("z" + kk) if kk == key else kk, vv) for kk, vv in x.items()]
                return dict(items)
            if r < 0.5:  # drop a member
                return {kk: vv for kk, vv in x.items() if kk != key}
            if r < 0.65:  # reorder
                items = list(x.items())
                rng.shuffle(items)
                return dict(items)
            if r < 0.8:  # add a null member
                y = dict(x)
                y["n"] = None
                return y
            y = dict(x)
            y[key] = edit(x[key])
            return y
        if isinstance(x, list) and x and k < 0.7:
            i = rng.randrange(len(x))
            r = rng.random()
            if r < 0.3:
                return x[:i] + x[i + 1 :]
            if r < 0.5:
                return x + [None]
            if r < 0.6 and len(x) > 1:
                y = list(x)
                y[0], y[-1] = y[-1], y[0]
                return y
            return x[:i] + [edit(x[i])] + x[i + 1 :]
        if isinstance(x, (dict, list)):
            return rng.choice([None, [] if isinstance(x, dict) else {}, [x], {"a": x}])
        for key, alts in SIMILAR.items():
            if type(key) is type(x) and key == x:
                return rng.choice(alts)
        return rng.choice([None, True, 0, "", x])

    if not path:
        return edit(w)
    cur = w
    for k in path[:-1]:
        cur = cur[k]
    cur[path[-1]] = edit(cur[path[-1]])
    return w


def explore_c06(rng, tier, res, deep=False):
    res.rule = (
        "ordered pairs from a kind-complete pool (every JSON kind, equal int/float pairs, -0.0, ints beyond 2^53, "
        "empty and non-BMP strings, nested values differing only in a bool-vs-number leaf) plus Nothing x 6 "
        "operators x ways of producing each comparand (literal, @.x, $.x, value(@.x), vf(@.x)); through the "
        "public find(). Non-trivial = distinct (operator, left, right, production) whose comparison is true."
    )
    pairs = [(a, b) for a in CMP_POOL for b in CMP_POOL]
    if tier != "thorough":
        rng.shuffle(pairs)
        pairs = pairs[: (1400 if deep else 500)]
    cases = []
    MISSING = object()
    for a, b in pairs:
        for op in OPS if tier == "thorough" else rng.sample(OPS, 2):
            prods = rng.sample(["rel", "root", "value", "vf", "lit"], 2) if tier != "thorough" else ["rel", "root", "value", "vf", "lit"]
            for prod in prods:
                docrow = {"a": gen._copy(a), "b": gen._copy(b)}
                if rng.random() < 0.08:
                    docrow.pop("a")
                if rng.random() < 0.08:
                    docrow.pop("b", None)
                doc = {"rows": [docrow], "x": gen._copy(a)}

                def side(which, val, prod=prod):
                    if prod == "rel":
                        return f"@.{which}"
                    if prod == "root":
                        return "$.x" if which == "a" else f"@.{which}"
                    if prod == "value":
                        return f"value(@.{which})"
                    if prod == "vf":
                        return f"vf(@.{which})"
                    lit = lit_of(rng, val)
                    return lit if lit is not None else f"@.{which}"

                q = f"$.rows[?{side('a', a)} {op} {side('b', b)}]"
                cases.append((q, doc))
    # objects of equal size whose member NAMES differ, null members against missing ones, at the top and nested
    obj_pairs = [({"a": None}, {"b": None}), ({"a": 1}, {"b": 1}), ({"a": None, "b": 1}, {"a": None, "c": 1}), ({"a": None}, {}), ({}, {"a": None}),
                 ({"a": None, "b": 2}, {"b": 2, "c": None}), ({"x": {"a": None}}, {"x": {"b": None}}), ([{"a": None}], [{"b": None}]),
                 ({"a": 0}, {"a": False}), ({"a": [None]}, {"a": []}), ({"a": None, "b": None}, {"a": None, "c": None}), ({"": None}, {"a": None})]
    for a, b in obj_pairs:
        for op in OPS:
            for l, r in (("@.a", "@.b"), ("@.b", "@.a"), ("value(@.a)", "@.b"), ("$.x", "@.b")):
                cases.append((f"$.rows[?{l} {op} {r}]", {"rows": [{"a": gen._copy(a), "b": gen._copy(b)}], "x": gen._copy(a)}))
    # Nothing against every value of the pool (empty containers and falsy scalars above all), every way of producing
    # Nothing (an empty singular query from @ or $, value() of an empty or multi-node nodelist, a function passing it
    # on), both sides, every operator
    nothing_forms = ["@.missing", "$.missing", "value(@.missing)", "vf(@.missing)", "value(@.*)", "@.a.missing", "@[99]",
                     # a selector applied to a scalar selects nothing (a Python str is subscriptable, a JSON string is not)
                     "@.str[0]", "$.str[0]", "@.str[-1]", "$.str[1]", "@.str['0']", "@.num[0]", "$.t[0]", "@.str.a", "$.str[0][0]"]
    for v in CMP_POOL:
        for nf_ in (nothing_forms if tier == "thorough" else rng.sample(nothing_forms, 3)):
            for op in (OPS if tier == "thorough" else rng.sample(OPS, 3)):
                doc = {"rows": [{"a": gen._copy(v), "b": 1, "c": 2, "str": "abc", "num": 5}], "x": gen._copy(v), "str": "abc", "t": True}
                some = rng.choice(["@.a", "$.x", "value(@.a)"])
                cases.append((f"$.rows[?{some} {op} {nf_}]", doc))
                cases.append((f"$.rows[?{nf_} {op} {some}]", doc))
    for nf1 in nothing_forms:
        for nf2 in nothing_forms:
            for op in OPS if tier == "thorough" else rng.sample(OPS, 2):
                cases.append((f"$.rows[?{nf1} {op} {nf2}]", {"rows": [{"a": [], "b": 1, "c": 2, "str": "abc", "num": 5}], "x": {}, "str": "abc", "t": True}))
    # Nothing that comes out of a FUNCTION (length() of a number / boolean / null / missing member / Nothing result of
    # another call) against the values a duck-typed implementation would produce instead (0, 0.0, false, "", [], null),
    # every operator, both sides, literal and queried comparand: Nothing equals only Nothing and is never ordered
    fn_nothing = ["length(@.missing)", "length(@.num)", "length(@.t)", "length(@.nul)", "length(value(@.*))", "length(value(@.missing))",
                  "length(vf(@.missing))", "vf(length(@.missing))", "length($.missing)", "value(@.emp[*])", "length(@.emp[0])"]
    zeros = [("0", 0), ("0.0", 0.0), ("-0.0", -0.0), ("1", 1), ("-1", -1), ("false", False), ("null", None), ("''", ""), ("true", True)]
    fdoc = {"rows": [{"num": 5, "t": True, "nul": None, "emp": [], "z": 0, "a": 1, "b": 2}, {"num": 0, "t": False, "nul": None, "emp": [], "z": 0.0}], "x": 0}
    for fnf in fn_nothing:
        for op in OPS:
            for lit, _v in zeros:
                cases.append((f"$.rows[?{fnf} {op} {lit}]", fdoc))
                cases.append((f"$.rows[?{lit} {op} {fnf}]", fdoc))
            for other in ("@.z", "$.x", "@.emp", "@.missing", "length(@.emp)", "count(@.missing)", "value(@.z)"):
                cases.append((f"$.rows[?{fnf} {op} {other}]", fdoc))
                cases.append((f"$.rows[?{other} {op} {fnf}]", fdoc))
    # an INTEGER against a FLOAT where converting the integer to a float would round it (beyond 2^53), equal pairs just
    # below, huge integers no float can hold, at the top and nested: numbers compare by their exact mathematical value
    big_pairs = [(2**53 + 1, float(2**53)), (2**53, float(2**53)), (2**53 - 1, float(2**53)), (10**23, 1e23), (10**22, 1e22), (-(2**53) - 1, -float(2**53)),
                 (2**63 + 1, float(2**63)), (2**64, float(2**64)), (10**400, 1e308), (-(10**400), -1e308), (3 * 10**22 + 1, 3e22), (9007199254740993, 9007199254740994.0),
                 (123456789012345678, 1.2345678901234568e17), (2**53 + 1, 2**53 + 2), (1, 1.0000000000000002)]
    for a, b in big_pairs:
        for x, y in ((a, b), (b, a)):
            for wrap in (lambda v: v, lambda v: [v], lambda v: {"k": [1, v]}):
                bdoc = [{"a": wrap(x), "b": wrap(y)}]
                for op in OPS:
                    cases.append((f"$[?@.a {op} @.b]", bdoc))
                cases.append(("$[?value(@.a) >= @.b]", bdoc))
                cases.append(("$[?@.a == $[0].b]", bdoc))
    # near-miss pairs: a random value against a copy that differs by ONE small edit (a renamed member, a leaf of
    # another kind with a "similar" value, a reordered object, an equal int/float, a dropped element, null vs missing)
    npairs = 4000 if tier == "thorough" else (900 if deep else 350)
    for _ in range(npairs):
        a = gen.gen_doc(rng, depth=rng.choice([1, 2, 3]), width=3, names=["a", "b", "c"],
                        scalars=[None, True, False, 0, 1, 2, 0.0, 1.0, 1.5, "", "a", "1", [], {}])
        b = near_copy(rng, a)
        op = rng.choice(OPS)
        cases.append((f"$[?@.a {op} @.b]", [{"a": a, "b": b}]))
        if rng.random() < 0.3:
            cases.append((f"$[?@.b {op} @.a]", [{"a": a, "b": b}]))
    # long arrays and wide objects (9..14 elements) that differ in exactly one place — a nested container, its content, a
    # bool against a number, a scalar against a container — at the start, in the middle, at the end
    for n in (9, 10, 12, 14):
        base = list(range(n))
        for pos in (0, n // 2, n - 1):
            for x, y in (([1], [2]), ({"k": 1}, {"k": 2}), ([True], [1]), ([1], 1), ({"k": []}, {"k": {}}), ([[1, [2]]], [[1, [3]]]), (None, [None]), ({"a": 1, "b": 2}, {"b": 2, "a": 1})):
                a, b = list(base), list(base)
                a[pos], b[pos] = x, y
                for op in ("==", "!=", "<=", ">="):
                    cases.append((f"$[?@.a {op} @.b]", [{"a": a, "b": b}, {"a": b, "b": a}, {"a": a, "b": gen._copy(a)}]))
                oa = {"k%d" % i: v for i, v in enumerate(a)}
                ob = {"k%d" % i: v for i, v in enumerate(b)}
                cases.append(("$[?@.a == @.b]", [{"a": oa, "b": ob}, {"a": oa, "b": gen._copy(oa)}]))
                cases.append(("$[?$[0].a != @.b]", [{"a": oa, "b": ob}, {"a": [oa], "b": [ob]}]))
    # every operator with a literal null / true / false (and each other kind) on either side against the SAME value and
    # against others, produced every way: <= and >= hold between equal values of ANY kind, < and > only within numbers/strings
    lit_vals = [("null", None), ("true", True), ("false", False), ("0", 0), ("1", 1), ("''", ""), ("'a'", "a"), ("1.0", 1.0), ("-0.0", -0.0)]
    for lit, val in lit_vals:
        ldoc = {"rows": [{"v": gen._copy(val)}, {"v": None}, {"v": True}, {"v": False}, {"v": 0}, {"v": 1}, {"v": ""}, {"v": "a"}, {}, {"v": []}, {"v": [None]}], "x": gen._copy(val)}
        for op in OPS:
            for other in ("@.v", "$.x", "value(@.v)", "vf(@.v)", lit, "@.missing"):
                cases.append((f"$.rows[?{other} {op} {lit}]", ldoc))
                cases.append((f"$.rows[?{lit} {op} {other}]", ldoc))
    # several comparisons in ONE query whose literals Python's == (and hash) cannot tell apart although they are different
    # JSON values (true / 1 / 1.0, false / 0 / 0.0 / -0.0), or that spell the same value differently: each comparison
    # is against its own literal
    twins = [["true", "1", "1.0", "1e0"], ["false", "0", "0.0", "-0.0", "0e0"], ["'1'", "1", "true"], ["null", "0", "false", "''"], ["'a'", '"a"', "'\\u0061'"]]
    tdoc = [1, True, 1.0, False, 0, 0.0, -0.0, None, "1", "", "true", "a", 2, [1], {"a": 1}]
    for grp in twins:
        for a, b in itertools.permutations(grp, 2):
            for op1, op2 in (("==", "=="), ("!=", "!="), ("==", "<="), ("<", "=="), (">=", "!=")):
                for conj in ("||", "&&"):
                    cases.append((f"$[?@ {op1} {a} {conj} @ {op2} {b}]", tdoc))
            cases.append((f"$[?@ == {a}][?@ == {b}]", [tdoc, [tdoc]]))
            cases.append((f"$[?@ == {a}, ?@ == {b}]", tdoc))
            cases.append((f"$[?{a} == @ || vf({b}) == @]", tdoc))
            cases.append((f"$[?@[?@ == {a}] && @[?@ == {b}]]", [tdoc, [1], [True], [0], [False]]))
    sweep(res, PROBE_ENV, cases, "C06", check_ast_iter=(tier != "thorough"), expect_valid=True)
    comparand_series(rng, tier, res)
    import spec_examples

    spec_examples.comparison_examples(res)


def comparand_series(rng, tier, res):
    """The table holds on EVERY evaluation: one compiled query, one container object; the comparands (the member an
    absolute query `$.x` reads, the member `@.b` reads) are replaced in place between applications, through every
    kind and through absence; each application is judged by the RFC oracle on a snapshot of the value as it then is."""
    import copy

    import model

    env = real.make_env(PROBE_ENV)
    eenv = real.enc_env(PROBE_ENV)
    MISSING = object()
    series = [2, 5, "b", MISSING, 0, False, None, [], {"a": 1}, 1.0, "a", MISSING, True, 1, [1], {}, "", 2]
    forms = [("$.x", "@.b"), ("@.b", "$.x"), ("$.x", "$.y"), ("value($.x)", "@.b"), ("$.x", "2"), ("@.b", "$.rows[0].b"), ("$.x.a", "@.b")]
    lines, got = [], []
    for l, r in forms:
        for op in OPS:
            q = f"$.rows[?{l} {op} {r}]"
            _line, compiled = real.observe_compile(env, q)
            if compiled is None:
                continue
            live = {"rows": [{"b": 2}, {"b": "b"}, {"b": None}, {}, {"b": 1}, {"b": [1]}], "x": 1, "y": 2}
            ser = list(series)
            if tier == "thorough":
                ser = ser + [rng.choice(CMP_POOL) for _ in range(40)]
            for i, v in enumerate(ser):
                where = live if i % 3 != 2 else live["rows"][i % len(live["rows"])]
                key = ("x" if i % 2 == 0 else "y") if where is live else "b"
                if v is MISSING:
                    where.pop(key, None)
                else:
                    where[key] = gen._copy(v)
                snap = copy.deepcopy(live)
                got.append((q, snap, real.observe_stream(compiled, live)))
                lines.append(f"rfc.query\t{eenv}\t{wire.enc_str(q)}\t{wire.enc_json(snap)}")
    for (q, snap, rl), rep in zip(got, model.run_batch_parallel(lines)):
        res.evaluations += 1
        if rep.split("\t")[0] != "valid" or not (rl.startswith("stream\t") and rl.endswith("\tend")):
            res.violations.append({"property": "C06", "query": q, "document": snap, "env": PROBE_ENV, "observed": rl[:300], "expected": rep[:300],
                                   "what": "a comparison query the RFC accepts does not compile or does not run to the end"})
            continue
        want = rep.split("\t", 1)[1] if "\t" in rep else ""
        if rl.split("\t")[1] != want:
            res.violations.append({"property": "C06", "query": q, "document": snap, "env": PROBE_ENV,
                                   "observed": rl.split("\t")[1][:300], "expected": want[:300],
                                   "history": "compile once; apply repeatedly to one container object whose members are replaced in place between applications (the value at the time of the failing application is shown)",
                                   "what": "a comparison in a reused compiled query is not the RFC 9535 outcome for the comparands as they are at that application"})
    res.count("comparand-series", len(lines))


# ---------------------------------------------------------------------------------------------
# C07


def explore_c07(rng, tier, res, deep=False):
    res.rule = (
        "array lengths 0..8 x (start, end, step) each omitted / 0 / +-1 / +-2 / +-len / +-(len+-1) / +-(2^53-1), and "
        "indices likewise, plus the same selectors applied to objects and scalars; real find() vs model vs RFC "
        "slice procedure. Thorough: the full product. Non-trivial = distinct (length, selector) selecting >= 1 element."
    )
    big = 2**53 - 1
    cases = []

    def comps(n):
        return [None, 0, 1, -1, 2, -2, n, -n, n + 1, -n - 1, n - 1, 1 - n, big, -big]

    lengths = range(0, 9) if tier == "thorough" else [0, 1, 2, 3, 5, 8]
    for n in lengths:
        arr = list(range(10, 10 + n))
        cs = comps(n)
        triples = list(itertools.product(cs, cs, [None, 0, 1, -1, 2, -2, 3, -3, n, -n, big, -big]))
        if tier != "thorough":
            rng.shuffle(triples)
            triples = triples[: (500 if deep else 170)]
        for a, b, c in triples:
            sa = "" if a is None else str(a)
            sb = "" if b is None else str(b)
            if c is None:
                q = f"$[{sa}:{sb}]" if rng.random() < 0.5 else f"$[{sa}:{sb}:]"
            else:
                q = f"$[{sa}:{sb}:{c}]"
            cases.append((q, arr))
        for i in set(comps(n)) - {None}:
            cases.append((f"$[{i}]", arr))
        # several index selectors in one segment (each applies on its own: one that selects nothing does not affect the next)
        for i, j in itertools.product([-n - 2, -n - 1, -n, -1, 0, 1, n - 1, n, n + 1], repeat=2):
            cases.append((f"$[{i}, {j}]", arr))
            if (i + j) % 3 == 0:
                cases.append((f"$[{i}, {j}, 0, -1]", arr))
                cases.append((f"$..[{i}, {j}]", [arr, [arr]]))
        # an omitted component next to the explicit value it might be mistaken for (start 0 / end len / step 1), on the
        # same array, in both orders (alternating): the defaults depend on the SIGN of step and are per evaluation
        k = 0
        for c in [None, 1, -1, 2, -2, 3, -3]:
            sc = "" if c is None else f":{c}"
            for b in [None, 0, 1, -1, n, -n - 1, n - 1]:
                sb = "" if b is None else str(b)
                for a in [0, n - 1, -1, n, -n - 1]:
                    pair = [(f"$[{a}:{sb}{sc}]", arr), (f"$[:{sb}{sc}]", arr)]
                    k += 1
                    cases.extend(pair if k % 2 else pair[::-1])
                    cases.append(pair[k % 2])
            for a in [None, 0, 1, -1]:
                sa = "" if a is None else str(a)
                for b in [n, -n - 1, 0, -1, n - 1]:
                    pair = [(f"$[{sa}:{b}{sc}]", arr), (f"$[{sa}:{sc}]" if sc else f"$[{sa}:]", arr)]
                    k += 1
                    cases.extend(pair if k % 2 else pair[::-1])
                    cases.append(pair[k % 2])
    for v in ({"0": 1, "a": 2}, "abc", 5, None, True, {}):
        for sel in ("0", "-1", "0:1", "::-1", ":"):
            cases.append((f"$[{sel}]", v))
            cases.append((f"$..[{sel}]", [v, [v]]))
    # slices below the top level and in descendant segments
    for _ in range(60 if tier != "thorough" else 600):
        doc = gen.gen_container(rng, depth=3)
        g = gen.QueryGen(rng, max_filter_depth=0)
        cases.append(("$" + rng.choice(["", "..", ".*", "[*]"]).replace("..", "..") + "[" + g.slice_() + "]", doc))
    sweep(res, BASE_ENV, cases, "C07", check_ast_iter=(tier != "thorough"), expect_valid=True)
    # the CPython primitive the model relies on, directly
    lines, exp = [], []
    for n in range(0, 7):
        for a, b, c in itertools.product([None, 0, 1, -1, 3, -3, n, -n - 1, big, -big], repeat=3):
            if c == 0:
                continue
            s = slice(a, b, c).indices(n)
            lines.append(f"py.slice\t{n}\t{wire.enc_opt_int(a)}\t{wire.enc_opt_int(b)}\t{wire.enc_opt_int(c)}")
            exp.append(f"{s[0]} {s[1]} {s[2]}\t" + " ".join(str(i) for i in range(*s)))
    if tier != "thorough":
        idx = rng.sample(range(len(lines)), 800)
        lines = [lines[i] for i in idx]
        exp = [exp[i] for i in idx]
    out = model.run_batch_parallel(lines)
    for ln, o, e in zip(lines, out, exp):
        res.evaluations += 1
        if o != e:
            res.mismatches.append({"op": "py.slice", "input": ln, "model": o, "real": e})
    res.count("py.slice-primitive", len(lines))


# ---------------------------------------------------------------------------------------------
# C10

ARG_VALUES = [None, True, False, 0, 3, 1.5, "", "abc", "a😀", "é", [], [1, 2, 3], [[]], {}, {"a": 1, "b": 2}, {"a": {}}]


def explore_c10(rng, tier, res, deep=False):
    res.rule = (
        "length/count/value and probe functions of every parameter type over argument values of every JSON kind "
        "and Nothing, argument expressions: literal, '@' on container and scalar children, '$', singular and "
        "non-singular queries, nested calls; (a) end-to-end through find(), (b) the objects a call's body "
        "receives (recording probes) vs Impl.evalArgs+unpack. Non-trivial = distinct (call, child value)."
    )
    cases = []
    doc = [gen._copy(v) for v in ARG_VALUES]
    docs = [doc, {"k%d" % i: gen._copy(v) for i, v in enumerate(ARG_VALUES)},
            [{"a": gen._copy(v)} for v in ARG_VALUES] + [{}]]
    lits = ["0", "1", "2", "3", "'abc'", "null", "true", "1.5"]
    exprs = []
    for arg in ["@", "@.a", "$", "$[0]", "@[0]", "'abc'", "\"a😀\"", "1", "null", "value(@)", "value(@.*)", "vf(@)", "vf(@.a)",
                "length(@)", "length(@.a)", "@.missing", "vf(@.missing)", "length(@.missing)", "value(@.missing)"]:
        exprs.append(f"length({arg})")
        exprs.append(f"vf({arg})")
    for arg in ["@", "@.*", "@..*", "@.a", "$", "$.*", "$[*].a", "@[0,0]", "@[?@]", "nf(@.*)", "nf(@)"]:
        exprs.append(f"count({arg})")
        exprs.append(f"value({arg})")
    for e in exprs:
        for op in ("==", "!=", "<", ">="):
            for lit in (lits if tier == "thorough" else rng.sample(lits, 2)):
                for d in docs:
                    cases.append((f"$[?{e} {op} {lit}]", d))
    # Python-equal but JSON-distinct (or simply repeated) arguments in ONE call: each parameter receives its own argument
    for a, b in [("1", "true"), ("true", "1"), ("false", "0"), ("0", "false"), ("1", "1.0"), ("1", "1"), ("@.a", "@.a"), ("0", "-0.0"), ("'1'", "1"), ("null", "false"), ("@", "@"), ("$[0]", "$[0]")]:
        for d in docs:
            cases.append((f"$[?vvl({a}, {b})]", d))
            cases.append((f"$[?vvl({b}, {a}) || vvl({a}, {a})]", d))
            cases.append((f"$[?lnv(vvl({a}, {b}), @.*) == 7]", d))
    # a PARENTHESISED (or negated) logical expression in a LogicalType parameter that is FOLLOWED by parameters of other
    # types, and parenthesised arguments in the last position: which parameter an argument is checked against and
    # converted for is its own position
    for d in docs[:6]:
        for first in ("(@.a)", "(@.a && @.b)", "!(@.a)", "(@.a == 1)", "((@[0]))", "(lf(@.a))"):
            cases.append((f"$[?lnv({first}, @.*) == 7]", d))
            cases.append((f"$[?lnv({first}, @[?@]) == 7 || lf({first})]", d))
            cases.append((f"$[?lf({first}) && vvl(1, 2)]", d))
    tests = ["lf(@)", "lf(@.a)", "lf(@.*)", "lf(@==1)", "lf(!@.a)", "lf((@.a || @[0]))", "lf(lf(@))", "lf(nf(@.*))",
             "nf(@)", "nf(@.*)", "nf(nf(@..*))", "vvl(@, 1)", "vvl(@.a, $[0])", "zl()", "lnv(@.a, @.*) == 7",
             "lnv(@ == 1, @) == 7", "lnv(lf(@), nf(@)) == 7", "!lf(@)", "!nf(@.a)", "lf(@) && nf(@.*)",
             "vvl(1, true)", "vvl(true, 1)", "vvl(false, 0)", "vvl(1, 1.0)", "vvl(0, -0.0)", "vvl(1, 1)", "vvl(vf(0), vf(false))", "vvl(null, false)",
             "lnv(vvl(0, 1), @.*) == 7 || lnv(vvl(0, true), @.*) == 7", "vvl(@.a, @.a)", "vvl('1', 1)"]
    for t in tests:
        for d in docs:
            cases.append((f"$[?{t}]", d))
    if tier != "thorough":
        rng.shuffle(cases)
        cases = cases[: (3000 if deep else 1200)]
    # a result that is Nothing IS the special result, wherever it came from (length() of a number, value() of several
    # nodes, a user function handing its argument on): compared with a query that selects nothing, with another such
    # result, on either side — always part of the run
    nres = ["length(@)", "length(@.a)", "value(@.*)", "value(@.missing)", "vf(@.missing)", "vf(length(@))", "length(length(@))", "value(@..*)"]
    nrhs = ["@.missing", "$.missing", "value(@.missing)", "length(@.missing)", "vf(@.nope)", "@[99]"]
    for e in nres:
        for r in nrhs:
            for op in ("==", "!=", "<=", ">=", "<"):
                for d in docs:
                    cases.append((f"$[?{e} {op} {r}]", d))
                    cases.append((f"$[?{r} {op} {e}]", d))
    sweep(res, PROBE_ENV, cases, "C10", expect_valid=True)
    cross_env_stage(rng, res, cases[:: max(1, len(cases) // (400 if tier != "thorough" else 4000))])
    callargs_check(rng, tier, res, docs, exprs + tests)
    literal_args_check(res)
    overlapping_calls(res)
    # `$`-rooted (and `@`-rooted) function arguments of a compiled query that is applied again after the document was
    # edited IN PLACE: what count/length/value and user functions receive is converted from what the query selects NOW
    redocs = [{"tags": ["a", "b", "c"], "rows": [{"n": 2}, {"n": 3}, {"n": 4}], "name": "abcd", "only": [7], "flag": [1]},
              {"tags": [], "rows": [{"n": 0}, {"n": 1}], "name": "", "only": [], "flag": []}]
    reqs = ["$.rows[?count($.tags[*]) == @.n]", "$.rows[?length($.name) == @.n]", "$.rows[?value($.only[*]) == @.n]", "$.rows[?lf($.flag[*])]", "$.rows[?count($..n) > @.n]",
            "$.rows[?vf(value($.only[0])) == @.n || length($.tags) == @.n]", "$.rows[?count(@.*) == count($.only[*])]", "$.rows[?length(value($.tags[0])) == @.n]", "$.rows[?lf(count($.tags.*) > @.n)]"]
    reuse_after_edit(rng, res, PROBE_ENV, [(q, d) for q in reqs for d in redocs for _ in range(3)], "C10")


def cross_env_stage(rng, res, cases):
    """The quantifier's "configurations" axis: several environments alive at once that give the same function NAMES
    other bodies and other signatures (a built-in overridden in one of them, a default environment constructed in
    between).  Each environment must keep evaluating calls with ITS OWN registry: every query goes through each
    environment in turn and is judged by the oracle for that environment's description."""
    descA = dict(PROBE_ENV)
    swap = {"pick0": "const", "const": "pick0"}
    fnsB = []
    for n, ats, ret, body in gen.PROBE_FNS:
        if n == "length":
            fnsB.append((n, ats, ret, "const"))          # a built-in overridden: always 7
        elif n == "vvl":
            fnsB.append((n, ["N"], "L", "const"))        # another signature under the same name
        elif n in ("count", "value"):
            fnsB.append((n, ats, ret, body))
        else:
            b2 = swap.get(body, body)
            if b2 == "pick0" and (not ats or ats[0] != ret):
                b2 = "const"
            fnsB.append((n, ats, ret, b2))
    descB = dict(PROBE_ENV, fns=fnsB)
    envA = real.make_env(descA)
    envB = real.make_env(descB)
    real.make_env(dict(real.DEFAULT_ENVDESC))  # constructing one more environment must not reset the others
    lines, recs = [], []
    for q, doc in cases:
        for env, desc in ((envA, descA), (envB, descB), (envA, descA)):
            try:
                rl, _c = sweep_mod.observe_query(env, q, doc)
            except RecursionError:
                continue
            recs.append((q, doc, desc, rl))
            lines.append(f"rfc.query\t{real.enc_env(desc)}\t{wire.enc_str(q)}\t{wire.enc_json(doc)}")
    for (q, doc, desc, rl), rep in zip(recs, model.run_batch_parallel(lines)):
        res.evaluations += 1
        verdict = rep.split("\t")[0]
        if verdict == "valid":
            want = rep.split("\t", 1)[1] if "\t" in rep else ""
            got = rl.split("\t")[1] if rl.startswith("stream\t") and rl.endswith("\tend") else rl
            if got != want:
                res.violations.append({"property": "C10", "query": q, "document": doc, "env": desc, "observed": got[:300], "expected": want[:300],
                                       "history": "three environments alive: this one, one giving the same function names other bodies/signatures, and a default one constructed last",
                                       "what": "a call was not evaluated with the registry of the environment the query was compiled and applied in"})
        elif verdict == "invalid" and not rl.startswith("err JSONPath"):
            res.violations.append({"property": "C10", "query": q, "document": doc, "env": desc, "observed": rl[:300], "expected": "JSONPathError",
                                   "history": "three environments alive with different signatures under the same names",
                                   "what": "a call ill-typed for this environment's registry was accepted"})
    res.count("cross-environment-cases", len(lines))


def overlapping_calls(res):
    """"At every call": a compiled query whose filter calls functions on `$`-rooted arguments, applied to two values at
    the same time (two finditer() consumed alternately; a find() in the middle of a finditer()): every call receives the
    arguments of ITS application; each result judged by the oracle."""
    env = real.make_env(PROBE_ENV)
    eenv = real.enc_env(PROBE_ENV)
    pairs = [("$.rows[?count($.cols[*]) == length(@)]", {"cols": [1, 2], "rows": [[1, 2], [1], [3, 4]]}, {"cols": [1], "rows": [[1, 2], [1], [3, 4]]}),
             ("$.rows[?vf($.want) == @]", {"want": "x", "rows": ["x", "y", "x"]}, {"want": "y", "rows": ["x", "y", "x"]}),
             ("$.rows[?value($.k[*]) == @]", {"k": [1], "rows": [1, 2, 1]}, {"k": [2], "rows": [1, 2, 1]}),
             ("$.rows[?length($.s) == @]", {"s": "ab", "rows": [1, 2, 3, 2]}, {"s": "abc", "rows": [1, 2, 3, 2]}),
             ("$.rows[?lf($.flag)]", {"flag": 1, "rows": [1, 2, 3]}, {"rows": [1, 2, 3]}),
             ("$.rows[?count($..x) > @]", {"x": 1, "a": {"x": 2}, "rows": [0, 1, 2, 3]}, {"rows": [0, 1, 2, 3]})]
    lines, recs = [], []
    for q, da, db in pairs:
        c = env.compile(q)
        for mode in ("alternate", "find-inside"):
            ga, gb = [], []
            ia = iter(c.finditer(da))
            if mode == "alternate":
                ib = iter(c.finditer(db))
                la = lb = True
                while la or lb:
                    if la:
                        n = next(ia, None)
                        la = n is not None
                        if la:
                            ga.append(wire.enc_node(n.location, n.value))
                    if lb:
                        n = next(ib, None)
                        lb = n is not None
                        if lb:
                            gb.append(wire.enc_node(n.location, n.value))
            else:
                n = next(ia, None)
                if n is not None:
                    ga.append(wire.enc_node(n.location, n.value))
                gb = [wire.enc_node(x.location, x.value) for x in c.find(db)]
                for n in ia:
                    ga.append(wire.enc_node(n.location, n.value))
            recs.append((q, da, " ".join(ga), mode))
            lines.append(f"rfc.query\t{eenv}\t{wire.enc_str(q)}\t{wire.enc_json(da)}")
            recs.append((q, db, " ".join(gb), mode))
            lines.append(f"rfc.query\t{eenv}\t{wire.enc_str(q)}\t{wire.enc_json(db)}")
    for (q, d, got, mode), rep in zip(recs, model.run_batch_parallel(lines)):
        res.evaluations += 1
        if rep.split("\t")[0] != "valid":
            continue
        want = rep.split("\t", 1)[1] if "\t" in rep else ""
        if got != want:
            res.violations.append({"property": "C10", "query": q, "document": d, "observed": got[:300], "expected": want[:300],
                                   "history": f"one compiled query, two applications under way at once ({mode}); the other value differs in what `$` selects",
                                   "what": "a function call in one application received arguments of another application"})


def literal_args_check(res):
    """"a ValueType parameter receives the literal": a recording two-parameter function called with every ordered pair of
    literals — Python-equal ones above all (1 / true / 1.0, 0 / false / -0.0, '1' / 1) — must receive exactly the JSON
    values written, each in its own position (kind included), also in nested calls."""
    import jsonpath_rfc9535 as jp

    log = []
    desc = dict(PROBE_ENV)
    desc["fns"] = [(n, a, r, "const") for n, a, r, _b in gen.PROBE_FNS]
    env = real.make_env(desc, log=log)
    lits = [("1", 1), ("true", True), ("1.0", 1.0), ("0", 0), ("false", False), ("-0.0", -0.0), ("null", None), ("'1'", "1"), ("''", ""), ("2", 2), ("'a'", "a"), ("0.0", 0.0)]

    def same(x, v):
        if type(x) is not type(v):
            return False
        if isinstance(v, float):
            import math
            return x == v and math.copysign(1, x) == math.copysign(1, v)
        return x == v

    for (ta, va), (tb, vb) in itertools.product(lits, repeat=2):
        for q, want in ((f"$[?vvl({ta}, {tb})]", [va, vb]), (f"$[?vvl({tb}, {ta}) && vvl({ta}, {tb})]", [va, vb]), (f"$[?lnv(vvl({ta}, {tb}), @.*) == 7]", [va, vb])):
            res.evaluations += 1
            del log[:]
            try:
                env.find(q, [0])
            except jp.JSONPathError as exc:
                res.violations.append({"property": "C10", "query": q, "document": [0], "observed": type(exc).__name__, "expected": "evaluates", "what": "a well-typed call with literal arguments raised"})
                continue
            got = [a for n, a in log if n == "vvl"]
            if not got or not (len(got[-1]) == 2 and same(got[-1][0], want[0]) and same(got[-1][1], want[1])):
                res.violations.append({"property": "C10", "query": q, "document": [0], "observed": repr(got[-1] if got else None), "expected": repr(want),
                                       "what": "a ValueType parameter did not receive the literal written in its position"})
    res.count("literal-argument-pairs", len(lits) ** 2)


def callargs_check(rng, tier, res, docs, exprs):
    """What a call's body receives: recording probes on the real side, evalArgs+unpack on the model side."""
    import jsonpath_rfc9535 as jp
    from jsonpath_rfc9535 import filter_expressions as fe

    log = []
    desc = dict(PROBE_ENV)
    # every function becomes a recording probe with a constant result so that the log is what is compared
    desc["fns"] = [(n, a, r, "const") for n, a, r, _b in gen.PROBE_FNS]
    env = real.make_env(desc, log=log)
    eenv = real.enc_env(desc)
    lines, exp = [], []
    for e in exprs:
        q = f"$[?{e}]" if not any(e.startswith(p) for p in ("length", "vf", "count", "value", "lnv")) or "==" in e else f"$[?{e} == 0]"
        try:
            c = env.compile(q)
        except jp.JSONPathError:
            continue
        expr = c.segments[0].selectors[0].expression.expression
        calls = []

        def find_calls(x):
            if isinstance(x, fe.FunctionExtension):
                calls.append(x)
            for attr in ("left", "right"):
                if hasattr(x, attr):
                    find_calls(getattr(x, attr))

        find_calls(expr)
        for call in calls[:1]:
            for d in docs:
                children = list(d.values()) if isinstance(d, dict) else d
                for cur in children if tier == "thorough" else rng.sample(children, min(4, len(children))):
                    del log[:]
                    ctx = fe.FilterContext(env=env, current=cur, root=d)
                    try:
                        call.evaluate(ctx)
                        got = [x for x in log if x[0] == call.name]
                        # the outermost call is the last one logged under its name
                        args = got[-1][1] if got else None
                        line = "args\t" + " ".join(real.enc_obj(a) for a in args) if args is not None else "nolog"
                    except Exception as exc:  # noqa: BLE001
                        line = "err " + real.err_name(exc)
                    lines.append(f"callargs\t{eenv}\t{real.ast_expr(call)}\t{wire.enc_json(d)}\t{wire.enc_json(cur)}")
                    exp.append(line)
    out = model.run_batch_parallel(lines)
    for ln, o, e in zip(lines, out, exp):
        res.evaluations += 1
        if o != e:
            res.mismatches.append({"op": "callargs", "input": ln[:400], "model": o[:300], "real": e[:300]})
        else:
            res.nontrivial.add(("callargs", ln[-120:]))
    res.count("callargs", len(lines))


# ---------------------------------------------------------------------------------------------
# C18 (deterministic mode, finite trees; cyclic data and nondeterministic mode in checks_nd)


def nest(depth, kind, bottom, rng=None):
    v = bottom
    for i in range(depth):
        k = kind if kind in ("arr", "obj") else ("arr" if (i % 2 == 0) else "obj")
        v = [v] if k == "arr" else {"a": v}
    return v


def shaped_doc(rng, depth, where):
    """a document of container nesting `depth` whose deep branch sits first / last / in the middle"""
    kind = rng.choice(["arr", "obj", "mix"])
    bottom = rng.choice([1, "x", None])
    core_depth = depth
    if depth == 0:
        return bottom
    # bottom may itself be an empty container counting one level
    if rng.random() < 0.4 and depth >= 1:
        bottom = rng.choice([[], {}])
        core_depth = depth - 1
    deep = nest(core_depth, kind, bottom)
    if depth <= 1:
        return deep
    shallow = [0, [1], {"a": 2}, "s"]
    rng.shuffle(shallow)
    # put siblings next to the deep branch at the top level (depth unchanged: siblings are shallower)
    inner = deep[0] if isinstance(deep, list) else deep["a"]
    if isinstance(deep, list):
        sibs = shallow[:2] if depth >= 3 else [0, "s"]
        if where == "first":
            return [inner] + sibs
        if where == "last":
            return sibs + [inner]
        return sibs[:1] + [inner] + sibs[1:]
    d = {}
    sibs = shallow[:2] if depth >= 3 else [0, "s"]
    items = [("a", inner)]
    if where == "first":
        items = items + [("s%d" % i, s) for i, s in enumerate(sibs)]
    elif where == "last":
        items = [("s%d" % i, s) for i, s in enumerate(sibs)] + items
    else:
        items = [("s0", sibs[0])] + items + [("s1", sibs[1])]
    for k, v in items:
        d[k] = v
    return d


def explore_c18(rng, tier, res, deep=False):
    res.rule = (
        "descendant queries ($..*, $..a, $..[0], $..[?@], nested @..* in filters) on documents of container "
        "nesting limit-2 .. limit+2 for limits 1..6 and 100; object/array mixes, the deep branch first / middle / "
        "last, scalar or empty container at the bottom; deterministic mode: real outcome (full result or "
        "JSONPathRecursionError) vs model and vs the exact boundary depth <= limit; nondeterministic mode: the same "
        "boundary for every script of the (capped) choice tree, model vs real per script; cyclic structures "
        "(self-loops, longer cycles through objects and arrays, fan-out 2) in both modes with a time bound; "
        "2000-deep data under a raised limit. Non-trivial = distinct (limit, depth, shape, query)."
    )
    limits = [1, 2, 3, 4, 5, 6, 100] if tier == "thorough" else [1, 2, 3, 5, 100]
    reps = 6 if tier == "thorough" else (3 if deep else 1)
    qs = ["$..*", "$..a", "$..[0]", "$..[?@]", "$[?@..*]", "$..[*]..a", "$..['a',0]",
          # the descendant segment inside a function argument / under a comparison: the error is still the recursion error
          "$[?count(@..*) > 0]", "$[?value(@..a) == 1]", "$[?count($..*) >= 0]", "$[?length(value(@..a)) == 1 || count(@..[0]) > 99]"]
    one_down = {"$[?@..*]", "$[?count(@..*) > 0]", "$[?value(@..a) == 1]", "$[?length(value(@..a)) == 1 || count(@..[0]) > 99]"}
    for lim in limits:
        desc = dict(BASE_ENV)
        desc["maxDepth"] = lim
        cases = []
        meta = []
        for d in range(max(0, lim - 2), lim + 3):
            for where in ("first", "middle", "last"):
                for _ in range(reps):
                    doc = shaped_doc(rng, d, where)
                    assert doc_depth(doc) == d, (doc, d)
                    for q in qs if tier == "thorough" else rng.sample(qs[:7], 3) + rng.sample(qs[7:], 1):
                        cases.append((q, doc))
                        meta.append((lim, d, where, q))
        before = len(res.violations)
        sweep(res, desc, cases, "C18", check_ast_iter=False, expect_valid=True)
        # the boundary itself, judged directly on the real code (independent of model and oracle)
        env = real.make_env(desc)
        for (q, doc), m in zip(cases, meta):
            res.evaluations += 1
            try:
                env.find(q, doc)
                outcome = "ok"
            except real.jp.JSONPathRecursionError:
                outcome = "rec"
            except RecursionError:
                outcome = "PY:RecursionError"
            except Exception as exc:  # noqa: BLE001
                outcome = "PY:" + type(exc).__name__
            dd = m[1]
            # '$[?@..*]' applies the descendant segment to the children, one level down
            eff = dd - 1 if q in one_down else dd
            want = "ok" if eff <= lim else "rec"
            if q == "$..[*]..a":
                want = "ok" if dd <= lim else "rec"
            res.nontrivial.add(m)
            if outcome != want:
                res.violations.append(
                    {"property": "C18", "query": q, "document": doc, "env": desc, "observed": outcome,
                     "expected": want, "what": f"limit {lim}, container nesting {dd}"}
                )
        res.count(f"limit-{lim}", len(cases))
    deepen_in_place(rng, tier, res)
    limit_changed_between_applications(res)
    instances_with_their_own_limits(res)
    import checks_nd

    checks_nd.explore_c18_nd(rng, tier, res, deep)


def instances_with_their_own_limits(res):
    """The bound is the one configured on THE environment that is asked: several instances of one class (the stock class,
    a subclass), each given its own max_recursion_depth as an instance attribute, and the module-level default
    environment, all handed the same query TEXTS one after the other, in both orders, both modes."""
    import jsonpath_rfc9535 as jp

    def nested(d):
        v = {"a": 1}
        for _ in range(d - 1):
            v = {"a": v}
        return v

    for nd in (False, True):
        for base in (jp.JSONPathEnvironment, type("Sub", (jp.JSONPathEnvironment,), {})):
            for order in ((5, 300), (300, 5), (2, 3, 4), (4, 3, 2)):
                envs = []
                for lim in order:
                    e = base()
                    e.max_recursion_depth = lim
                    e.nondeterministic = nd
                    envs.append((lim, e))
                for q in ("$..a", "$.a..a", "$[?@..a]", "$..[?@.a]"):
                    for lim, e in envs:
                        for depth in (lim, lim + 2):
                            doc = nested(depth)
                            eff = depth - 1 if q in ("$.a..a", "$[?@..a]") else depth
                            want_ok = eff <= lim
                            for label, fn in (("env.find", lambda: e.find(q, doc)), ("env.compile().find", lambda: e.compile(q).find(doc)), ("env.find_one", lambda: [e.find_one(q, doc)]),
                                              ("list(env.finditer)", lambda: list(e.finditer(q, doc)))):
                                res.evaluations += 1
                                try:
                                    fn()
                                    got = "ok"
                                except jp.JSONPathRecursionError:
                                    got = "rec"
                                except RecursionError:
                                    got = "PY:RecursionError"
                                except Exception as exc:  # noqa: BLE001
                                    got = "PY:" + type(exc).__name__
                                if label == "env.find_one" and not want_ok:
                                    continue  # the first node may come before the too-deep part is reached
                                if (got == "ok") != want_ok or (not want_ok and got != "rec"):
                                    res.violations.append({"property": "C18", "query": q, "document": doc, "observed": got,
                                                           "expected": "full result" if want_ok else "JSONPathRecursionError",
                                                           "env": {"class": base.__name__, "max_recursion_depth (instance attribute)": lim, "nondeterministic": nd,
                                                                   "other instances of the class, asked the same text before": [l for l, _ in envs if l != lim]},
                                                           "history": f"instances of one class with limits {list(order)}, each asked the same query texts in turn; this is {label} on the instance with limit {lim}",
                                                           "what": "the bound used is not the max_recursion_depth configured on the environment that was asked"})
                                    return
                    res.nontrivial.add(("instances-own-limits", nd, base.__name__, order, q))
    res.count("instances-with-their-own-limits")


def limit_changed_between_applications(res):
    """The bound is the one configured on the environment WHEN the segment is applied: an environment that has already
    applied descendant segments gets another max_recursion_depth (instance attribute, then class attribute; lowered,
    then raised); queries compiled before and after the change alike follow the new bound; both modes."""
    def nested(d):
        v = {"a": 1}
        for _ in range(d - 1):
            v = {"a": v}
        return v

    def outcome(fn):
        try:
            return "ok %d" % len(fn())
        except real.jp.JSONPathRecursionError:
            return "rec"
        except RecursionError:
            return "PY:RecursionError"
        except Exception as exc:  # noqa: BLE001
            return "PY:" + type(exc).__name__

    for nd in (False, True):
        for how in ("instance", "class"):
            for q in ("$..a", "$.a..a", "$[?@..a]", "$[?count(@..*) > 0]"):
                cls = type("Cfg", (real.jp.JSONPathEnvironment,), {"max_recursion_depth": 6, "nondeterministic": nd})
                env = cls()
                old = env.compile(q)
                steps = [(6, 5, None)]
                for new_lim in (3, 40, 2, 6):
                    steps.append((new_lim, new_lim - 1, new_lim))
                    steps.append((new_lim, new_lim + 3, None))
                for lim, depth, set_to in steps:
                    if set_to is not None:
                        if how == "instance":
                            env.max_recursion_depth = set_to
                        else:
                            cls.max_recursion_depth = set_to
                    doc = nested(depth)
                    # '$[?@..a]' and '$.a..a' apply the segment one level below the root
                    eff = depth - 1 if q != "$..a" else depth
                    want_ok = eff <= lim
                    for label, fn in (("query compiled before the change", lambda: old.find(doc)), ("fresh compile", lambda: env.find(q, doc))):
                        res.evaluations += 1
                        got = outcome(fn)
                        res.nontrivial.add(("limit-change", nd, how, q, lim, depth, label))
                        if got.startswith("ok") != want_ok or (not want_ok and got != "rec"):
                            res.violations.append({"property": "C18", "query": q, "document": doc, "observed": got,
                                                   "expected": "full result" if want_ok else "JSONPathRecursionError",
                                                   "env": {"nondeterministic": nd, "max_recursion_depth": lim, "set_as": how + " attribute, after the environment had applied descendant segments under another limit"},
                                                   "history": "environment created with limit 6; descendant queries applied; limit set to %s (then to others); %s" % (lim, label),
                                                   "what": "the configured max_recursion_depth in force when the query is applied is not the bound that is used"})
                            break
    res.count("limit-changed-between-applications")


def deepen_in_place(rng, tier, res):
    """The bound applies to the data as it is when the query is applied: one compiled query (descendant segments at the
    top, inside filters, inside function arguments, from `@` and from `$`), applied to a value within the limit, then
    to the SAME object deepened / made self-referential in place (must raise JSONPathRecursionError), then to the same
    object made shallow again with more matches (must equal a fresh evaluation); both modes."""
    import copy

    for nd in (False, True):
        for lim in (3, 5):
            desc = dict(BASE_ENV, maxDepth=lim, nd=nd)
            env = real.make_env(desc)
            for q in ("$..a", "$.items[?$..a]", "$.items[?count($..a) > 0]", "$.items[?@..a]", "$.items[?count(@..*) >= 0]", "$..[?$..a]", "$.items[?value($..zz) == 1 || $..a]"):
                for kind in ("deeper", "self-loop", "cycle"):
                    res.evaluations += 1
                    c = env.compile(q)
                    doc = {"items": [{"a": 1}, {"b": 2}], "a": 0}
                    try:
                        first = sorted(wire.enc_node(n.location, n.value) for n in c.find(doc))
                    except real.jp.JSONPathError as exc:
                        first = "err " + type(exc).__name__
                    want1 = sorted(wire.enc_node(n.location, n.value) for n in real.make_env(desc).find(q, copy.deepcopy(doc)))
                    if first != want1:
                        res.violations.append({"property": "C18", "query": q, "document": doc, "env": desc, "observed": str(first)[:200], "expected": str(want1)[:200],
                                               "what": "data within the limit: result differs from a fresh evaluation"})
                        continue
                    if kind == "deeper":
                        deep = 0
                        for _ in range(lim + 2):
                            deep = {"a": deep}
                        doc["items"][1]["b"] = deep
                        shown = "items[1].b nested %d deep" % (lim + 2)
                    elif kind == "self-loop":
                        doc["items"][1]["b"] = doc["items"][1]
                        shown = "items[1].b = items[1]"
                    else:
                        loop = [{"a": None}]
                        loop[0]["a"] = loop
                        doc["items"].append(loop)
                        shown = "items[2] = L where L = [{'a': L}]"
                    t0 = __import__("time").time()
                    try:
                        c.find(doc)
                        got = "completed"
                    except real.jp.JSONPathRecursionError:
                        got = "rec"
                    except RecursionError:
                        got = "PY:RecursionError"
                    except Exception as exc:  # noqa: BLE001
                        got = "PY:" + type(exc).__name__
                    if got != "rec":
                        res.violations.append({"property": "C18", "query": q, "document": "{'items': [{'a': 1}, {'b': 2}], 'a': 0} then, in place: " + shown, "env": desc,
                                               "observed": got, "expected": "JSONPathRecursionError",
                                               "history": "compile once; apply to the value (within the limit); edit the same object in place as shown; apply again",
                                               "what": "data deeper than the limit (or self-referential) did not raise JSONPathRecursionError when a compiled query was applied again"})
                        continue
                    # shallow again, with more matches
                    doc["items"] = [{"a": 1}, {"a": 2}, {"c": {"a": 3}}]
                    try:
                        again = sorted(wire.enc_node(n.location, n.value) for n in c.find(doc))
                    except real.jp.JSONPathError as exc:
                        again = "err " + type(exc).__name__
                    try:
                        want2 = sorted(wire.enc_node(n.location, n.value) for n in real.make_env(desc).find(q, copy.deepcopy(doc)))
                    except real.jp.JSONPathError as exc:
                        want2 = "err " + type(exc).__name__
                    if again != want2:
                        res.violations.append({"property": "C18", "query": q, "document": doc, "env": desc, "observed": str(again)[:200], "expected": str(want2)[:200],
                                               "history": "compile once; apply; deepen in place (raised); make shallow again in place; apply again",
                                               "what": "after an application that raised, the compiled query does not give the full result on data within the limit"})
    res.count("deepen-in-place", 2 * 2 * 7 * 3)
