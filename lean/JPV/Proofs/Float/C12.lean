/-
`Proofs.Float.C12` — property C12 without any hypothesis on the float literals, now that `FloatLiteral.__str__`
(`Impl.strFloat`) writes `1.0e+16` for `1e16` and `1e400` for an infinity; and, as a record, the defect of the
OLD printing (plain `repr`) that the refuted statement "every double round-trips" brought to light.
-/
import JPV.Proofs.Float.StrFloatRT
import JPV.Props.C12
namespace JPV.Proofs.Float
open JPV JPV.Impl

/-- C12 with no hypothesis on the float literals -/
theorem c12_unconditional (env : Env) (s : Str) (q : Query)
    (h : Impl.compile env s = .ok q)
    (h1 : env.minIdx ≤ 1 ∧ 1 ≤ env.maxIdx) :
    Impl.compile env (Impl.strQuery q) = .ok (Proofs.normSegs q) ∧
    Impl.strQuery (Proofs.normSegs q) = Impl.strQuery q :=
  Proofs.print_compile_roundtrip env s q h h1 (floats_of_compile_round_trip env s q h)

/-! ### the former counterexamples, now fine -/

theorem strFloat_1e16 : Impl.strFloat ⟨true, 10 ^ 16, 1⟩ = "1.0e+16".toList := by decide +kernel
theorem strFloat_inf : Impl.strFloat ⟨true, 1, 0⟩ = "1e400".toList ∧ Impl.strFloat ⟨true, -1, 0⟩ = "-1e400".toList := by
  constructor <;> decide +kernel

/-- `$[?@.a==1.0e16]` and `$[?@.a==-1e400]` print as `$[?@['a'] == 1.0e+16]` and `$[?@['a'] == -1e400]`, which
compile to queries with the same float literals -/
theorem witnesses_repaired :
    (match Impl.compile {} "$[?@.a==1.0e16]".toList with
      | .ok q => Impl.strQuery q == "$[?@['a'] == 1.0e+16]".toList &&
          (match Impl.compile {} (Impl.strQuery q) with
            | .ok q2 => Proofs.floatsSegs q2 == [⟨true, 10 ^ 16, 1⟩]
            | _ => false)
      | _ => false) = true ∧
    (match Impl.compile {} "$[?@.a==-1e400]".toList with
      | .ok q => Impl.strQuery q == "$[?@['a'] == -1e400]".toList &&
          (match Impl.compile {} (Impl.strQuery q) with
            | .ok q2 => Proofs.floatsSegs q2 == [⟨true, -1, 0⟩]
            | _ => false)
      | _ => false) = true := by
  constructor <;> decide +kernel

/-! ### record of the defect: the OLD printing, plain `repr` -/

theorem isDouble_1e16 : IsDouble ⟨true, 10 ^ 16, 1⟩ := by decide +kernel
theorem floatOfText_1e16 : Py.floatOfText "1.0e16".toList = some ⟨true, 10 ^ 16, 1⟩ := by decide +kernel
theorem reprFloat_1e16 : Py.reprFloat ⟨true, 10 ^ 16, 1⟩ = "1e+16".toList := by decide +kernel
/-- `repr(1e16)` is `1e+16`, which the query syntax reads as the INT `10^16` -/
theorem repr_1e16_reads_back_as_int :
    Spec.numberValue (Py.reprFloat ⟨true, 10 ^ 16, 1⟩) = some ⟨false, 10 ^ 16, 1⟩ := by decide +kernel
theorem not_reprRoundTrips_1e16 : ¬ ReprRoundTrips ⟨true, 10 ^ 16, 1⟩ := by
  unfold ReprRoundTrips; decide +kernel
theorem not_reprRoundTrips_1e22 : ¬ ReprRoundTrips ⟨true, 10 ^ 22, 1⟩ := by
  unfold ReprRoundTrips; decide +kernel

/-- with plain `repr`, "every double round-trips" was false -/
theorem repr_round_trips_false : ¬ ∀ x : Num, IsDouble x → ReprRoundTrips x :=
  fun H => not_reprRoundTrips_1e16 (H _ isDouble_1e16)

end JPV.Proofs.Float
