import JPV.Proofs.NdExh.NoDesc
import JPV.Proofs.NdRel.LinExt
/-
Descendant segments on CHAIN documents (every container has at most one container child), specification
side: whatever visit order RFC 9535 permits, the per-node results concatenate to "the results of the
containers, outermost first" — a scalar yields nothing under any selector, and the containers of a chain
are totally ordered by the ancestor relation.
-/
namespace JPV.Proofs.NdExh
open JPV JPV.Impl JPV.Spec.ND JPV.Proofs.NdRel

/-- every container has at most one container child -/
inductive Chain : Json → Prop
  | mk {v : Json} : ((kids v).filter Json.isContainer).length ≤ 1 → (∀ c, c ∈ kids v → Chain c) → Chain v

theorem Chain.count {v : Json} (h : Chain v) : ((kids v).filter Json.isContainer).length ≤ 1 := by
  cases h with
  | mk h1 _ => exact h1

theorem Chain.kid {v c : Json} (h : Chain v) (hc : c ∈ kids v) : Chain c := by
  cases h with
  | mk _ h2 => exact h2 c hc

/-- all scalars -/
def Sc (l : List Node) : Prop := ∀ y, y ∈ l → y.val.isContainer = false

theorem Sc.append {a b : List Node} (ha : Sc a) (hb : Sc b) : Sc (a ++ b) := by
  intro y hy
  rcases List.mem_append.1 hy with h | h
  · exact ha y h
  · exact hb y h

theorem Sc.perm {a b : List Node} (ha : Sc a) (hp : b.Perm a) : Sc b :=
  fun y hy => ha y (hp.mem_iff.1 hy)

theorem Sc.nil : Sc [] := fun _ h => by cases h

theorem filter_le_one {α} (p : α → Bool) : ∀ (l : List α), (l.filter p).length ≤ 1 →
    (∀ y, y ∈ l → p y = false) ∨
    ∃ a c b, l = a ++ c :: b ∧ (∀ y, y ∈ a → p y = false) ∧ (∀ y, y ∈ b → p y = false) ∧ p c = true := by
  intro l
  induction l with
  | nil => intro _; exact .inl (fun _ h => by cases h)
  | cons y l ih =>
    intro h
    cases hp : p y with
    | true =>
      rw [List.filter_cons_of_pos hp, List.length_cons] at h
      have h0 : l.filter p = [] := List.eq_nil_of_length_eq_zero (by omega)
      rw [List.filter_eq_nil_iff] at h0
      exact .inr ⟨[], y, l, rfl, fun _ h => (by cases h), fun z hz => (by simpa using h0 z hz), hp⟩
    | false =>
      rw [List.filter_cons_of_neg (by simp [hp])] at h
      rcases ih h with h' | ⟨a, c, b, rfl, ha, hb, hc⟩
      · left
        intro z hz
        rcases List.mem_cons.1 hz with rfl | hz
        · exact hp
        · exact h' z hz
      · right
        refine ⟨y :: a, c, b, rfl, ?_, hb, hc⟩
        intro z hz
        rcases List.mem_cons.1 hz with rfl | hz
        · exact hp
        · exact ha z hz

theorem children_vals (n : Node) : (Spec.children n).map (fun c => c.val) = kids n.val := by
  unfold Spec.children kids
  cases hv : n.val with
  | obj kvs => simp [List.map_map, Function.comp_def, Spec.child]
  | arr xs =>
    simp only [Spec.arrChildren, List.map_map, Function.comp_def, Spec.child]
    rw [show (fun x : Nat × Json => x.2) = Prod.snd from rfl, List.map_snd_zip]
    simp
  | _ => rfl

theorem children_scalar {n : Node} (h : n.val.isContainer = false) : Spec.children n = [] := by
  unfold Spec.children
  cases hv : n.val <;> simp_all [Json.isContainer]

/-- the children of a chain node: all scalars, or exactly one container among scalars -/
theorem chain_children {n : Node} (h : Chain n.val) :
    Sc (Spec.children n) ∨
    ∃ a c b, Spec.children n = a ++ c :: b ∧ Sc a ∧ Sc b ∧ c.val.isContainer = true ∧ Chain c.val := by
  have hc := h.count
  rw [← children_vals, List.filter_map, List.length_map] at hc
  rcases filter_le_one _ _ hc with h' | ⟨a, c, b, hab, ha, hb, hcc⟩
  · exact .inl h'
  · refine .inr ⟨a, c, b, hab, ha, hb, hcc, h.kid ?_⟩
    rw [← children_vals, hab]
    exact List.mem_map.2 ⟨c, by simp, rfl⟩

/-- the results along a chain below `x` (not `x` itself), outermost container first -/
inductive CRes (P : Node → List Node → Prop) : Node → List Node → Prop
  | leaf {x : Node} : Sc (Spec.children x) → CRes P x []
  | step {x : Node} {a : List Node} {c : Node} {b R1 R' : List Node} :
      Spec.children x = a ++ c :: b → Sc a → Sc b → c.val.isContainer = true →
      P c R1 → CRes P c R' → CRes P x (R1 ++ R')

/-- all nodes mentioned in a frontier -/
def allNodes (fr : List Item) : List Node := fr.flatMap (fun it => it.node :: it.later)

theorem allNodes_append (a b : List Item) : allNodes (a ++ b) = allNodes a ++ allNodes b := by
  simp [allNodes]

theorem allNodes_cons (it : Item) (b : List Item) :
    allNodes (it :: b) = it.node :: it.later ++ allNodes b := by
  simp [allNodes]

theorem allNodes_chainItem (l : List Node) : allNodes (chainItem l) = l := by
  cases l <;> simp [chainItem, allNodes]

theorem allNodes_childItems (n : Node) : allNodes (childItems n) = Spec.children n := by
  cases hv : n.val with
  | arr xs =>
    rw [childItems_arr n xs hv, allNodes_chainItem]
    simp [Spec.children, hv]
  | obj kvs =>
    rw [childItems_obj n kvs hv]
    simp [allNodes, List.flatMap_map]
  | _ => simp [childItems, Spec.children, hv, allNodes]

theorem allNodes_step (a b : List Item) (it : Item) :
    (allNodes (a ++ it :: b)).Perm (it.node :: (allNodes a ++ allNodes b ++ it.later)) ∧
    allNodes (a ++ b ++ nextItems it) = (allNodes a ++ allNodes b ++ it.later) ++ Spec.children it.node := by
  constructor
  · rw [allNodes_append, allNodes_cons]
    refine List.perm_middle.trans (List.Perm.cons _ ?_)
    rw [List.append_assoc (allNodes a)]
    exact List.Perm.append_left _ List.perm_append_comm
  · simp only [nextItems, allNodes_append, allNodes_chainItem, allNodes_childItems, List.append_assoc]

/-- RFC side: along ANY permitted visit order from a frontier holding at most one container, a chain, the
per-node results concatenate to that container's result followed by the results down its chain -/
theorem ord_chain {P : Node → List Node → Prop}
    (hsc : ∀ n r, n.val.isContainer = false → P n r → r = []) :
    ∀ {fr : List Item} {ns : List Node}, Ord fr ns → ∀ r, Each P ns r →
      (Sc (allNodes fr) → r = []) ∧
      (∀ x rest, (allNodes fr).Perm (x :: rest) → Sc rest → x.val.isContainer = true → Chain x.val →
        ∃ R1 R', P x R1 ∧ CRes P x R' ∧ r = R1 ++ R') := by
  intro fr ns h
  induction h with
  | nil =>
    intro r he
    have := each_nil_inv he
    subst this
    refine ⟨fun _ => rfl, fun x rest hp _ _ _ => ?_⟩
    exact absurd hp.symm.eq_nil (by simp)
  | step fr a b it ns hfr _ ih =>
    intro r he
    subst hfr
    obtain ⟨l, r', rfl, hl, hr'⟩ := each_cons_inv he
    obtain ⟨hold, hnew⟩ := allNodes_step a b it
    have ih' := ih r' hr'
    rw [hnew] at ih'
    constructor
    · intro hs
      have hs' : Sc (it.node :: (allNodes a ++ allNodes b ++ it.later)) := hs.perm hold.symm
      have hit : it.node.val.isContainer = false := hs' _ List.mem_cons_self
      have : l = [] := hsc _ _ hit hl
      subst this
      rw [children_scalar hit, List.append_nil] at ih'
      rw [ih'.1 (fun y hy => hs' y (List.mem_cons_of_mem _ hy))]
      rfl
    · intro x rest hp hrest hx hch
      have hp' : (it.node :: (allNodes a ++ allNodes b ++ it.later)).Perm (x :: rest) := hold.symm.trans hp
      cases hit : it.node.val.isContainer with
      | false =>
        have : l = [] := hsc _ _ hit hl
        subst this
        rw [children_scalar hit, List.append_nil] at ih'
        have hmem : it.node ∈ x :: rest := hp'.mem_iff.1 List.mem_cons_self
        have hne : it.node ∈ rest := by
          rcases List.mem_cons.1 hmem with h | h
          · rw [h, hx] at hit; cases hit
          · exact h
        obtain ⟨r1, r2, rfl⟩ := List.append_of_mem hne
        have hp2 : (allNodes a ++ allNodes b ++ it.later).Perm (x :: (r1 ++ r2)) := by
          have : (x :: (r1 ++ it.node :: r2)).Perm (it.node :: x :: (r1 ++ r2)) := by
            refine (List.Perm.cons x List.perm_middle).trans (List.Perm.swap _ _ _)
          exact (hp'.trans this).cons_inv
        have hsr : Sc (r1 ++ r2) := by
          intro y hy
          refine hrest y ?_
          rcases List.mem_append.1 hy with h | h
          · exact List.mem_append_left _ h
          · exact List.mem_append_right _ (List.mem_cons_of_mem _ h)
        obtain ⟨R1, R', h1, h2, rfl⟩ := ih'.2 x (r1 ++ r2) hp2 hsr hx hch
        exact ⟨R1, R', h1, h2, rfl⟩
      | true =>
        have hmem : it.node ∈ x :: rest := hp'.mem_iff.1 List.mem_cons_self
        have hxe : it.node = x := by
          rcases List.mem_cons.1 hmem with h | h
          · exact h
          · rw [hrest _ h] at hit; cases hit
        rw [hxe] at hp' hl ih'
        have hso : Sc (allNodes a ++ allNodes b ++ it.later) := hrest.perm hp'.cons_inv
        rcases chain_children hch with hcs | ⟨a', c, b', hab, ha', hb', hcc, hchc⟩
        · have := ih'.1 (hso.append hcs)
          subst this
          exact ⟨l, [], hl, .leaf hcs, rfl⟩
        · have hp3 : ((allNodes a ++ allNodes b ++ it.later) ++ Spec.children x).Perm
              (c :: ((allNodes a ++ allNodes b ++ it.later) ++ (a' ++ b'))) := by
            rw [hab]
            refine (List.Perm.append_left _ List.perm_middle).trans ?_
            exact List.perm_middle
          obtain ⟨R1, R', h1, h2, rfl⟩ := ih'.2 c _ hp3 (hso.append (ha'.append hb')) hcc hchc
          exact ⟨l, R1 ++ R', hl, .step hab ha' hb' hcc h1 h2, rfl⟩

end JPV.Proofs.NdExh
