/-
`Proofs.Cf.ParseEv` — the "eventually" judgement `Ev` (a fuel-indexed parser action returns a given
result for all sufficiently large fuel), follow sets, and the generic facts about the Pratt loop
`filterExprLoop`: it stops on a token that is not an operator of sufficient precedence, continues on one
that is; `parseFilterExpr` is "unit, then loop"; `functionArgInfix` is `filterExprLoop` at the lowest
precedence.
-/
import JPV.Proofs.Cf.Shape
import JPV.Proofs.Cs.ParseSegs
import JPV.Proofs.ParseTyping
set_option linter.unusedSimpArgs false
set_option linter.unusedVariables false
namespace JPV.Proofs.Cf
open JPV JPV.Impl JPV.Proofs.Rq

/-- for all sufficiently large fuel, `m fuel` run on `st` gives `R` -/
def Ev {α} (m : Nat → P α) (st : TStream) (R : Except Err α × TStream) : Prop :=
  ∃ F0, ∀ F, F0 ≤ F → exec (m F) st = R

theorem Ev.step0 {α} {m : Nat → P α} {st : TStream} {R : Except Err α × TStream}
    (h : ∀ f, exec (m (f + 1)) st = R) : Ev m st R :=
  ⟨1, fun F hF => by obtain ⟨f, rfl⟩ : ∃ f, F = f + 1 := ⟨F - 1, by omega⟩; exact h f⟩

theorem Ev.const {α} {m : P α} {st : TStream} {R : Except Err α × TStream}
    (h : exec m st = R) : Ev (fun _ => m) st R := ⟨0, fun _ _ => h⟩

theorem Ev.step1 {α β} {m : Nat → P α} {m' : Nat → P β} {st st' : TStream}
    {R : Except Err α × TStream} {R' : Except Err β × TStream} (h : Ev m' st' R')
    (step : ∀ f, exec (m' f) st' = R' → exec (m (f + 1)) st = R) : Ev m st R := by
  obtain ⟨F0, h0⟩ := h
  refine ⟨F0 + 1, fun F hF => ?_⟩
  obtain ⟨f, rfl⟩ : ∃ f, F = f + 1 := ⟨F - 1, by omega⟩
  exact step f (h0 f (by omega))

theorem Ev.step2 {α β γ} {m : Nat → P α} {m1 : Nat → P β} {m2 : Nat → P γ} {st s1 s2 : TStream}
    {R : Except Err α × TStream} {R1 : Except Err β × TStream} {R2 : Except Err γ × TStream}
    (h1 : Ev m1 s1 R1) (h2 : Ev m2 s2 R2)
    (step : ∀ f, exec (m1 f) s1 = R1 → exec (m2 f) s2 = R2 → exec (m (f + 1)) st = R) : Ev m st R := by
  obtain ⟨F1, h1⟩ := h1
  obtain ⟨F2, h2⟩ := h2
  refine ⟨F1 + F2 + 1, fun F hF => ?_⟩
  obtain ⟨f, rfl⟩ : ∃ f, F = f + 1 := ⟨F - 1, by omega⟩
  exact step f (h1 f (by omega)) (h2 f (by omega))

/-- same fuel on both sides (no unfolding) -/
theorem Ev.same1 {α β} {m : Nat → P α} {m' : Nat → P β} {st st' : TStream}
    {R : Except Err α × TStream} {R' : Except Err β × TStream} (h : Ev m' st' R')
    (step : ∀ f, exec (m' f) st' = R' → exec (m f) st = R) : Ev m st R := by
  obtain ⟨F0, h0⟩ := h
  exact ⟨F0, fun F hF => step F (h0 F hF)⟩

theorem Ev.same2 {α β γ} {m : Nat → P α} {m1 : Nat → P β} {m2 : Nat → P γ} {st s1 s2 : TStream}
    {R : Except Err α × TStream} {R1 : Except Err β × TStream} {R2 : Except Err γ × TStream}
    (h1 : Ev m1 s1 R1) (h2 : Ev m2 s2 R2)
    (step : ∀ f, exec (m1 f) s1 = R1 → exec (m2 f) s2 = R2 → exec (m f) st = R) : Ev m st R := by
  obtain ⟨F1, h1⟩ := h1
  obtain ⟨F2, h2⟩ := h2
  exact ⟨F1 + F2, fun F hF => step F (h1 F (by omega)) (h2 F (by omega))⟩

theorem Ev.bind {α β} {m : Nat → P α} {k : Nat → α → P β} {st st1 : TStream} {a : α}
    {R : Except Err β × TStream} (h1 : Ev m st (.ok a, st1)) (h2 : Ev (fun F => k F a) st1 R) :
    Ev (fun F => m F >>= k F) st R :=
  Ev.same2 h1 h2 (fun f e1 e2 => by rw [exec_bind, e1]; exact e2)

/-! ### follow sets -/

/-- `)` `,` `]` -/
def isCloser : TokKind → Bool
  | .rparen | .comma | .rbracket => true
  | _ => false

/-- what can follow a logical-and-expr -/
def folAnd : TokKind → Bool
  | .or => true
  | k => isCloser k

/-- what can follow a basic-expr -/
def folBasic : TokKind → Bool
  | .and => true
  | k => folAnd k

/-- what can follow a term (literal / query / function call) -/
def folTerm (k : TokKind) : Bool := isComparisonTok k || folBasic k

/-- the first token of another segment -/
def segStart : TokKind → Bool
  | .doubleDot | .lbracket | .property | .wild => true
  | _ => false

/-- the Pratt loop at precedence `p` returns on peeking a token of kind `k` -/
def Stops (p : Nat) (k : TokKind) : Bool :=
  k == .eof || k == .rbracket || decide (precedence k < p) || (binaryOp k).isNone

/-- the Pratt loop at precedence `p` goes on with a token of kind `k` -/
def Continues (p : Nat) (k : TokKind) : Bool :=
  (binaryOp k).isSome && decide (p ≤ precedence k)

theorem folBasic_of_folAnd {k : TokKind} (h : folAnd k = true) : folBasic k = true := by
  cases k <;> simp_all [folAnd, folBasic, isCloser]
theorem folAnd_of_isCloser {k : TokKind} (h : isCloser k = true) : folAnd k = true := by
  cases k <;> simp_all [folAnd, isCloser]
theorem folBasic_of_isCloser {k : TokKind} (h : isCloser k = true) : folBasic k = true :=
  folBasic_of_folAnd (folAnd_of_isCloser h)
theorem folTerm_of_folBasic {k : TokKind} (h : folBasic k = true) : folTerm k = true := by
  simp [folTerm, h]
theorem folTerm_copKind (op : COp) : folTerm (copKind op) = true := by
  cases op <;> rfl
theorem folBasic_and : folBasic .and = true := rfl
theorem folAnd_or : folAnd .or = true := rfl

theorem segStart_of_folTerm {k : TokKind} (h : folTerm k = true) : segStart k = false := by
  cases k <;> simp_all [folTerm, folBasic, folAnd, isCloser, segStart, isComparisonTok, binaryOp]
theorem notCmp_of_folBasic {k : TokKind} (h : folBasic k = true) : isComparisonTok k = false := by
  cases k <;> simp_all [folBasic, folAnd, isCloser, isComparisonTok, binaryOp]
theorem ne_eof_of_folTerm {k : TokKind} (h : folTerm k = true) : k ≠ .eof := by
  cases k <;> simp_all [folTerm, folBasic, folAnd, isCloser, isComparisonTok, binaryOp]

theorem stops_prefix_of_folBasic {k : TokKind} (h : folBasic k = true) : Stops precPrefix k = true := by
  cases k <;> simp_all [folBasic, folAnd, isCloser, Stops, precedence, binaryOp, precPrefix, precLowest, precAnd,
    precOr]
theorem stops_rel_of_folBasic {k : TokKind} (h : folBasic k = true) : Stops precRelational k = true := by
  cases k <;> simp_all [folBasic, folAnd, isCloser, Stops, precedence, binaryOp, precRelational, precLowest,
    precAnd, precOr]
theorem stops_and_of_folAnd {k : TokKind} (h : folAnd k = true) : Stops precAnd k = true := by
  cases k <;> simp_all [folAnd, isCloser, Stops, precedence, binaryOp, precLowest, precAnd, precOr]
theorem stops_of_isCloser (p : Nat) {k : TokKind} (h : isCloser k = true) : Stops p k = true := by
  cases k <;> simp_all [isCloser, Stops, binaryOp]

theorem continues_cop (op : COp) {p : Nat} (hp : p ≤ precRelational) : Continues p (copKind op) = true := by
  cases op <;> simp [Continues, copKind, binaryOp, precedence, hp]
theorem continues_and {p : Nat} (hp : p ≤ precAnd) : Continues p .and = true := by
  simp [Continues, binaryOp, precedence, hp]
theorem continues_or {p : Nat} (hp : p ≤ precOr) : Continues p .or = true := by
  simp [Continues, binaryOp, precedence, hp]

theorem binaryOp_copKind (op : COp) : binaryOp (copKind op) = some (.cmp op) := by cases op <;> rfl
theorem precedence_copKind (op : COp) : precedence (copKind op) = precRelational := by cases op <;> rfl
theorem isComparisonTok_copKind (op : COp) : isComparisonTok (copKind op) = true := by cases op <;> rfl
theorem copKind_ne_eof (op : COp) : copKind op ≠ .eof := by cases op <;> simp [copKind]

/-! ### the Pratt loop -/

/-- the loop returns its accumulated expression on a token that stops it -/
theorem loop_stop (env : Env) (p : Nat) (px : PExpr) {x : Token} {more : List Token} {st : TStream}
    (h : Cs.Ready x more st) (hs : Stops p x.kind = true) :
    ∃ st', Cs.Ready x more st' ∧ Ev (fun F => filterExprLoop env p F px) st (.ok px, st') := by
  have key : ∀ c, ∀ f, exec (filterExprLoop env p (f + 1) px) ⟨c, [x], more⟩ = (.ok px, ⟨c, [x], more⟩) := by
    intro c f
    rw [filterExprLoop]
    simp only [Stops, Bool.or_eq_true, beq_iff_eq, decide_eq_true_eq, Option.isNone_iff_eq_none] at hs
    rcases hs with ((hs | hs) | hs) | hs
    · simp [exec_bind, exec_peekTok, peek_pushed, exec_pure, hs]
    · simp [exec_bind, exec_peekTok, peek_pushed, exec_pure, hs]
    · simp [exec_bind, exec_peekTok, peek_pushed, exec_pure, hs]
    · by_cases h1 : (x.kind = .eof ∨ x.kind = .rbracket) ∨ precedence x.kind < p
      · simp [exec_bind, exec_peekTok, peek_pushed, exec_pure, h1]
      · simp [exec_bind, exec_peekTok, peek_pushed, exec_pure, h1, hs]
  rcases h with ⟨c, hc, rfl⟩ | ⟨c, rfl⟩
  · refine ⟨⟨c, [x], more⟩, .inr ⟨c, rfl⟩, Ev.step0 fun f => ?_⟩
    have := key c f
    rw [filterExprLoop] at this ⊢
    simp only [exec_bind, exec_peekTok, peek_fresh _ _ _ hc, peek_pushed] at this ⊢
    exact this
  · exact ⟨⟨c, [x], more⟩, .inr ⟨c, rfl⟩, Ev.step0 (key c)⟩

/-- the loop continues on a binary operator of sufficient precedence -/
theorem loop_step (env : Env) (p : Nat) (left : PExpr) {x : Token} {more : List Token} {st : TStream}
    (h : Cs.Ready x more st) (hc : Continues p x.kind = true)
    {left' : PExpr} {st1 : TStream} {R : Except Err PExpr × TStream}
    (h1 : Ev (fun F => parseInfix env left F) ⟨x, [], more⟩ (.ok left', st1))
    (h2 : Ev (fun F => filterExprLoop env p F left') st1 R) :
    Ev (fun F => filterExprLoop env p F left) st R := by
  simp only [Continues, Bool.and_eq_true, decide_eq_true_eq] at hc
  obtain ⟨hb, hp⟩ := hc
  have hne : x.kind ≠ .eof := by intro e; rw [e] at hb; simp [binaryOp] at hb
  have hnr : x.kind ≠ .rbracket := by intro e; rw [e] at hb; simp [binaryOp] at hb
  have hnn : binaryOp x.kind ≠ none := by
    cases hbb : binaryOp x.kind <;> simp_all
  have hnp : ¬ precedence x.kind < p := by omega
  refine Ev.step2 h1 h2 fun f e1 e2 => ?_
  rw [filterExprLoop]
  rcases h with ⟨c, hc, rfl⟩ | ⟨c, rfl⟩
  · simp [exec_bind, exec_peekTok, peek_fresh _ _ _ hc, exec_nextTok, next_pushed, exec_pure, hne, hnr, hnp, hnn,
      e1, e2]
  · simp [exec_bind, exec_peekTok, peek_pushed, exec_nextTok, next_pushed, exec_pure, hne, hnr, hnp, hnn, e1, e2]

/-! ### `parseFilterExpr` is "unit, then loop" -/

/-- a handler of the dispatch map followed by the Pratt loop -/
def unitLoop (env : Env) (p : Nat) (h : Handler) (F : Nat) : P PExpr :=
  parseByHandler env h F >>= filterExprLoop env p F

theorem pfe_of_unitLoop {env : Env} {p : Nat} {h : Handler} {st : TStream} (ht : tokenMap st.cur.kind = some h)
    {px : PExpr} {st' : TStream} (hu : Ev (unitLoop env p h) st (.ok px, st')) :
    Ev (fun F => parseFilterExpr env p F) st (.ok px, st') := by
  refine Ev.step1 hu fun f e => ?_
  rw [parseFilterExpr]
  unfold unitLoop at e
  rw [exec_bind] at e
  simp only [exec_bind, exec_cur, ht, exec_tryCatch]
  rcases hh : exec (parseByHandler env h f) st with ⟨r, s1⟩
  rw [hh] at e
  cases r with
  | error err => simp at e
  | ok a => simpa using e

/-- `functionArgInfix` is the Pratt loop at the lowest precedence -/
theorem functionArgInfix_eq (env : Env) : ∀ (F : Nat) (x : PExpr) (st : TStream),
    exec (functionArgInfix env F x) st = exec (filterExprLoop env precLowest F x) st := by
  intro F
  induction F with
  | zero => intro x st; rw [functionArgInfix, filterExprLoop]
  | succ f ih =>
    intro x st
    rw [functionArgInfix, filterExprLoop]
    simp only [exec_bind, exec_peekTok]
    have hp : ∀ k, ¬ precedence k < precLowest := by
      intro k; cases k <;> simp [precedence, precLowest, precAnd, precOr, precRelational, precPrefix]
    by_cases hb : (binaryOp st.peek.1.kind).isNone = true
    · have : st.peek.1.kind = .eof ∨ st.peek.1.kind = .rbracket ∨ True := by simp
      by_cases h1 : st.peek.1.kind = .eof ∨ st.peek.1.kind = .rbracket
      · simp [hb, h1, exec_pure, hp]
      · simp [hb, h1, exec_pure, hp]
    · have h1 : ¬ (st.peek.1.kind = .eof ∨ st.peek.1.kind = .rbracket) := by
        rintro (e | e) <;> rw [e] at hb <;> simp [binaryOp] at hb
      simp only [hb, Bool.false_eq_true, if_false, exec_bind, exec_nextTok, exec_pure]
      simp only [not_or] at h1
      simp only [h1.1, h1.2, hp, decide_false, Bool.or_false, Bool.false_eq_true, if_false, exec_pure, exec_bind,
        exec_nextTok]
      rcases exec (parseInfix env x f) st.peek.2.next.2 with ⟨r, s1⟩
      cases r with
      | error e => rfl
      | ok a => exact ih a s1

end JPV.Proofs.Cf
