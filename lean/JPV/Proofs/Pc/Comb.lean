/-
`Proofs.Pc.Comb` — parse judgements for printed texts with EXPLICIT derivation trees (`PT s cx`: whatever
safe text follows `s`, `Spec.term` reads `s` as `cx`), and their composition: the combinators of `PfComb` /
`PfTerm` restated over `Pc.Judge`, plus selector lists, bracketed selections and segments.
-/
import JPV.Proofs.PfPrint
import JPV.Proofs.Pc.Judge
import JPV.Proofs.Pc.Lit
import JPV.Proofs.Pc.CTree
namespace JPV.Proofs.Pc
open JPV JPV.Impl JPV.Proofs.Prn JPV.Proofs.Pf

/-! ### first characters -/

/-- first character of a printed term -/
def THc' (c : Char) : Prop := THc c ∨ NH c

theorem THc'.props {c : Char} (h : THc' c) :
    Spec.isBlank c = false ∧ c ≠ '!' ∧ c ≠ '(' ∧ c ≠ ')' ∧ c ≠ '=' := by
  rcases h with h | h
  · exact ⟨h.notBlank, h.ne '!', h.ne '(', h.ne ')', h.ne '='⟩
  · obtain ⟨a, -, -, -, -, -, b, c', d, e, -⟩ := h.props
    exact ⟨a, b, c', d, e⟩

def TH' (s : Str) : Prop := ∃ c t, s = c :: t ∧ THc' c

theorem TH'.nb {s} (h : TH' s) : NB s := by
  obtain ⟨c, t, rfl, hc⟩ := h
  exact ⟨c, t, rfl, hc.props.1, hc.props.2.2.2.1⟩

theorem head_app {s : Str} {c : Char} {t : Str} (e : s = c :: t) (rest : Str) :
    (s ++ rest).head? = some c := by rw [e]; rfl

theorem head_ne_of {l : List Char} {c d : Char} (e : l.head? = some c) (h : c ≠ d) : l.head? ≠ some d := by
  rw [e]; intro h'; exact h (Option.some.inj h')

theorem length_app_lt {s : Str} (h : NB s) (rest : Str) : rest.length < (s ++ rest).length := by
  obtain ⟨c, t, rfl, _⟩ := h
  simp only [List.cons_append, List.length_cons, List.length_append]; omega

/-! ### the judgements on printed texts -/

def PT (s : Str) (cx : Spec.CExpr) : Prop :=
  TH' s ∧ ∀ rest, SafeT rest → JTerm (s ++ rest) cx rest

def PB (s : Str) (cx : Spec.CExpr) : Prop :=
  NB s ∧ ∀ rest, Follow rest → JBasic (s ++ rest) cx rest

def PA (s : Str) (cx : Spec.CExpr) : Prop :=
  NB s ∧ ∀ rest, SafeA rest → JAnd (s ++ rest) cx rest

def PO (s : Str) (cx : Spec.CExpr) : Prop :=
  NB s ∧ ∀ rest, SafeO rest → JOr (s ++ rest) cx rest

def PArg (s : Str) (cx : Spec.CExpr) : Prop :=
  NB s ∧ ∀ rest, ArgFollow rest → JArg (s ++ rest) cx rest

/-- a query or call standing alone is a test -/
theorem PT.test {s cx} (h : PT s cx) (hl : ∀ v, cx ≠ .lit v) : PB s cx := by
  obtain ⟨hh, hp⟩ := h
  refine ⟨hh.nb, fun rest hr => ?_⟩
  obtain ⟨c, t, e, hc⟩ := hh
  exact JBasic.test (hp rest (.follow hr)) hl hr.cmpNone
    (head_ne_of (head_app e rest) hc.props.2.1) (head_ne_of (head_app e rest) hc.props.2.2.1)

theorem skipS_copText (op : COp) (X : List Char) :
    Spec.skipS (Impl.copText op ++ X) = Impl.copText op ++ X := by
  obtain ⟨d, u, ed, hd⟩ := copText_cases op
  have hdb : Spec.isBlank d = false := by rcases hd with rfl | rfl | rfl | rfl <;> decide
  rw [ed]; exact skipS_cons hdb _

/-- a comparison -/
theorem PT.cmp {s1 s2 l r} (op : COp) (h1 : PT s1 l) (h2 : PT s2 r) :
    PB (s1 ++ [' '] ++ Impl.copText op ++ [' '] ++ s2) (.cmp op l r) := by
  obtain ⟨hh1, hp1⟩ := h1
  obtain ⟨hh2, hp2⟩ := h2
  refine ⟨?_, fun rest hrest => ?_⟩
  · obtain ⟨c, t, rfl, hb, hc⟩ := hh1.nb
    exact ⟨c, _, by simp only [List.cons_append, List.append_assoc]; rfl, hb, hc⟩
  have e : s1 ++ [' '] ++ Impl.copText op ++ [' '] ++ s2 ++ rest
      = s1 ++ ' ' :: (Impl.copText op ++ ' ' :: (s2 ++ rest)) := by simp
  rw [e]
  obtain ⟨c, t, ec, hc⟩ := hh1
  refine JBasic.cmp (r2 := ' ' :: (s2 ++ rest)) (hp1 _ (.cop op (s2 ++ rest))) ?_ ?_
    (head_ne_of (head_app ec _) hc.props.2.1) (head_ne_of (head_app ec _) hc.props.2.2.1)
  · rw [skipS_sp, skipS_copText, comparisonOp_copText]
  · rw [skipS_sp, hh2.nb.skipS]
    exact hp2 rest (.follow hrest)

theorem PB.toA {s cx} (h : PB s cx) : PA s cx :=
  ⟨h.1, fun rest hr => JAnd.one (h.2 rest hr.1) hr.2⟩

theorem PA.toO {s cx} (h : PA s cx) : PO s cx :=
  ⟨h.1, fun rest hr => JOr.one (h.2 rest hr.1) hr.2⟩

theorem PB.toO {s cx} (h : PB s cx) : PO s cx := h.toA.toO

theorem skipS_rparen (t : List Char) : Spec.skipS (')' :: t) = ')' :: t := skipS_cons (by decide) _

/-- parentheses -/
theorem PO.paren {s cx} (h : PO s cx) : PB (['('] ++ s ++ [')']) (.paren cx) := by
  obtain ⟨hh, hp⟩ := h
  refine ⟨⟨'(', _, rfl, by decide, by decide⟩, fun rest _ => ?_⟩
  have e : ['('] ++ s ++ [')'] ++ rest = '(' :: (s ++ ')' :: rest) := by simp
  rw [e]
  refine JBasic.paren (r2 := ')' :: rest) ?_ (skipS_rparen rest)
  rw [hh.skipS]
  exact hp _ (safeO_rparen rest)

/-- `a && b` -/
theorem PB.and {s1 s2 l r} (h1 : PB s1 l) (h2 : PA s2 r) :
    PA (s1 ++ [' ', '&', '&', ' '] ++ s2) (.and l r) := by
  obtain ⟨hh1, hp1⟩ := h1
  obtain ⟨hh2, hp2⟩ := h2
  refine ⟨by rw [List.append_assoc]; exact hh1.append _, fun rest hrest => ?_⟩
  have e : s1 ++ [' ', '&', '&', ' '] ++ s2 ++ rest
      = s1 ++ ' ' :: '&' :: '&' :: ' ' :: (s2 ++ rest) := by simp
  rw [e]
  refine JAnd.and (r2 := ' ' :: (s2 ++ rest)) (hp1 _ (.and _)) ?_ ?_
  · rw [skipS_sp, skipS_cons (by decide)]
  · rw [skipS_sp, hh2.skipS]
    exact hp2 rest hrest

/-- `a || b` -/
theorem PA.or {s1 s2 l r} (h1 : PA s1 l) (h2 : PO s2 r) :
    PO (s1 ++ [' ', '|', '|', ' '] ++ s2) (.or l r) := by
  obtain ⟨hh1, hp1⟩ := h1
  obtain ⟨hh2, hp2⟩ := h2
  refine ⟨by rw [List.append_assoc]; exact hh1.append _, fun rest hrest => ?_⟩
  have e : s1 ++ [' ', '|', '|', ' '] ++ s2 ++ rest
      = s1 ++ ' ' :: '|' :: '|' :: ' ' :: (s2 ++ rest) := by simp
  rw [e]
  refine JOr.or (r2 := ' ' :: (s2 ++ rest)) (hp1 _ (safeA_or _)) ?_ ?_
  · rw [skipS_sp, skipS_cons (by decide)]
  · rw [skipS_sp, hh2.skipS]
    exact hp2 rest hrest

/-- `!( … )` -/
theorem PO.notParen {s cx} (h : PO s cx) : PB (['!', '('] ++ s ++ [')']) (.not (.paren cx)) := by
  obtain ⟨hh, hp⟩ := h
  refine ⟨⟨'!', _, rfl, by decide, by decide⟩, fun rest _ => ?_⟩
  have e : ['!', '('] ++ s ++ [')'] ++ rest = '!' :: ('(' :: (s ++ ')' :: rest)) := by simp
  rw [e]
  refine JBasic.notParen (r' := s ++ ')' :: rest) (r2 := ')' :: rest) (by simp)
    (skipS_cons (by decide) _) ?_ (skipS_rparen rest)
  rw [hh.skipS]
  exact hp _ (safeO_rparen rest)

/-- `!` before a query or call -/
theorem PT.not {s cx} (h : PT s cx) (hl : ∀ v, cx ≠ .lit v) : PB ('!' :: s) (.not cx) := by
  obtain ⟨hh, hp⟩ := h
  refine ⟨⟨'!', _, rfl, by decide, by decide⟩, fun rest hr => ?_⟩
  obtain ⟨c, t, e, hc⟩ := hh
  rw [List.cons_append]
  have hs : Spec.skipS (s ++ rest) = s ++ rest := by rw [e]; exact skipS_cons hc.props.1 _
  refine JBasic.notTerm (head_ne_of (head_app e rest) hc.props.2.2.2.2) ?_ hl ?_
  · rw [hs]; exact hp rest (.follow hr)
  · rw [hs]; exact head_ne_of (head_app e rest) hc.props.2.2.1

/-- `!` before a parenthesised expression -/
theorem PB.notOfParen {s cx} (h : PB ('(' :: s) cx) : PB ('!' :: '(' :: s) (.not cx) := by
  obtain ⟨_, hp⟩ := h
  refine ⟨⟨'!', _, rfl, by decide, by decide⟩, fun rest hr => ?_⟩
  obtain ⟨hlen, hF⟩ := hp rest hr
  rw [List.cons_append] at hlen hF
  rw [List.cons_append, List.cons_append]
  have e1 : ('(' :: (s ++ rest)).length = (s ++ rest).length + 1 := rfl
  have e2 : ('!' :: '(' :: (s ++ rest)).length = (s ++ rest).length + 2 := rfl
  rw [e1] at hlen hF
  refine ⟨by rw [e2]; omega, fun F hb => ?_⟩
  rw [e2] at hb
  obtain ⟨f, rfl⟩ : ∃ f, F = f + 1 := ⟨F - 1, by omega⟩
  have := hF (f + 1) (by omega)
  rw [basic_paren] at this
  rw [basic_bang_paren, this]
  rfl

theorem PB.andParen {sl sr l r} (hl : PB sl l) (hr : PB sr r) :
    PB (['('] ++ (sl ++ [' ', '&', '&', ' '] ++ sr) ++ [')']) (.paren (.and l r)) :=
  (hl.and hr.toA).toO.paren

theorem PB.orParen {sl sr l r} (hl : PB sl l) (hr : PB sr r) :
    PB (['('] ++ (sl ++ [' ', '|', '|', ' '] ++ sr) ++ [')']) (.paren (.or l r)) :=
  (hl.toA.or hr.toO).paren

/-! ### literals -/

theorem lfollow_of_safeT {rest} (h : SafeT rest) : LFollow rest := h.head

theorem lfollow_of_arg {rest} (h : ArgFollow rest) : LFollow rest := by
  rcases h with ⟨t, rfl⟩ | ⟨t, rfl⟩
  · exact ⟨_, _, rfl, by simp⟩
  · exact ⟨_, _, rfl, by simp⟩

theorem strLit_th (v : Json) (hv : LitOK v) : TH' (Impl.strLit v) := by
  obtain ⟨c, t, e, hc⟩ := strLit_head v hv
  refine ⟨c, t, e, ?_⟩
  rcases hc with rfl | hc | hc
  · exact .inl (by show THb _ = true; decide)
  · exact .inl (nameOK_THc hc)
  · exact .inr hc

theorem PT_lit (v : Json) (hv : LitOK v) : PT (Impl.strLit v) (.lit v) := by
  have hth := strLit_th v hv
  refine ⟨hth, fun rest hrest => ?_⟩
  obtain ⟨c, t, e, hc⟩ := hth
  have hne : c ≠ '@' ∧ c ≠ '$' := by
    rcases hc with hc | hc
    · obtain ⟨c', t', e', h'⟩ := strLit_head v hv
      rw [e] at e'
      simp only [List.cons.injEq] at e'
      obtain ⟨rfl, rfl⟩ := e'
      rcases h' with rfl | h' | h'
      · exact ⟨by decide, by decide⟩
      · have := nameOK_head h'
        exact ⟨lc_ne this '@', lc_ne this '$'⟩
      · exact ⟨h'.props.2.2.2.2.1, h'.props.2.2.2.2.2.1⟩
    · exact ⟨hc.props.2.2.2.2.1, hc.props.2.2.2.2.2.1⟩
  exact JTerm.lit (literal_strLit v hv rest (lfollow_of_safeT hrest)) (length_app_lt ⟨c, t, e, hc.props.1, hc.props.2.2.2.1⟩ rest)
    (head_ne_of (head_app e rest) hne.1) (head_ne_of (head_app e rest) hne.2)
    (strLit_noCall v hv rest (lfollow_of_safeT hrest))

theorem PArg_lit (v : Json) (hv : LitOK v) : PArg (Impl.strLit v) (.lit v) := by
  have hnb := (strLit_th v hv).nb
  refine ⟨hnb, fun rest hr => ?_⟩
  refine JArg.lit (literal_strLit v hv rest (lfollow_of_arg hr)) (length_app_lt hnb rest) ?_
  rcases hr with ⟨t, rfl⟩ | ⟨t, rfl⟩
  · exact .inl ⟨t, skipS_cons (by decide) _⟩
  · exact .inr ⟨t, skipS_cons (by decide) _⟩

theorem PO.arg {s cx} (h : PO s cx) (hn : NoLitArg s) : PArg s cx :=
  ⟨h.1, fun rest hr => JArg.expr (h.2 rest hr.safeO) (hn rest)⟩

/-! ### function calls -/

theorem more_args : ∀ (as : List Expr), (∀ a ∈ as, PArg (Impl.strExpr a) (cstr a)) → ∀ (R : List Char),
    JMoreArgs (tailArgs as ++ ')' :: R) (cargs as) (')' :: R) := by
  intro as
  induction as with
  | nil =>
    intro _ R
    rw [cargs_nil]
    refine JMoreArgs.nil ?_
    intro t e
    have : tailArgs [] ++ ')' :: R = ')' :: R := rfl
    rw [this, skipS_rparen] at e
    cases e
  | cons a as ih =>
    intro h R
    have e : tailArgs (a :: as) ++ ')' :: R = ',' :: ' ' :: (Impl.strExpr a ++ (tailArgs as ++ ')' :: R)) := by
      simp [tailArgs]
    rw [e, cargs_cons]
    obtain ⟨hh, hp⟩ := h a (by simp)
    refine JMoreArgs.cons (r := ' ' :: (Impl.strExpr a ++ (tailArgs as ++ ')' :: R)))
      (skipS_cons (by decide) _) ?_ (ih (fun x hx => h x (by simp [hx])) R)
    rw [skipS_sp, hh.skipS]
    exact hp _ (tailArgs_follow as R)

theorem nameOK_th {fn : Str} (hfn : nameOK fn = true) (X : Str) : TH' (fn ++ X) := by
  cases fn with
  | nil => simp [nameOK] at hfn
  | cons c u => exact ⟨c, _, rfl, .inl (nameOK_THc hfn)⟩

theorem PT_call (fn : Str) (hfn : nameOK fn = true) (args : List Expr)
    (h : ∀ a ∈ args, PArg (Impl.strExpr a) (cstr a)) :
    PT (fn ++ ['('] ++ Impl.strArgs args ++ [')']) (.call fn (cargs args)) := by
  refine ⟨by rw [List.append_assoc, List.append_assoc]; exact nameOK_th hfn _, fun rest hrest => ?_⟩
  cases args with
  | nil =>
    have e : fn ++ ['('] ++ Impl.strArgs [] ++ [')'] ++ rest = fn ++ '(' :: ')' :: rest := by
      rw [strArgs_nil]; simp
    rw [e, cargs_nil]
    exact JTerm.call0 (functionName_call fn hfn _) (skipS_rparen rest)
  | cons a as =>
    have e : fn ++ ['('] ++ Impl.strArgs (a :: as) ++ [')'] ++ rest
        = fn ++ '(' :: (Impl.strExpr a ++ (tailArgs as ++ ')' :: rest)) := by
      rw [strArgs_eq]; simp
    rw [e, cargs_cons]
    obtain ⟨hh, hp⟩ := h a (by simp)
    refine JTerm.call (functionName_call fn hfn _) ?_ (more_args as (fun x hx => h x (by simp [hx])) rest)
      (skipS_rparen rest)
    rw [hh.skipS]
    exact hp _ (tailArgs_follow as rest)

/-! ### queries -/

/-- what may follow the segments of a query: neither `.` nor `[` after blank space -/
def SegStop (R : List Char) : Prop := ∀ c t, Spec.skipS R = c :: t → c ≠ '.' ∧ c ≠ '['

theorem segStop_nil : SegStop [] := by intro c t e; cases e

theorem segStop_of_safeT {rest} (h : SafeT rest) : SegStop rest := by
  intro c t e
  cases h with
  | follow h =>
    cases h <;> (try simp only [skipS_sp] at e) <;> rw [skipS_cons (by decide)] at e <;>
      simp only [List.cons.injEq] at e <;> rw [← e.1] <;> exact ⟨by decide, by decide⟩
  | cop op u =>
    rw [skipS_sp, skipS_copText] at e
    obtain ⟨d, u', ed, hd⟩ := copText_cases op
    rw [ed] at e
    simp only [List.cons_append, List.cons.injEq] at e
    rw [← e.1]
    rcases hd with rfl | rfl | rfl | rfl <;> exact ⟨by decide, by decide⟩

def PQ (q : List Segment) : Prop := ∀ R, SegStop R → JSegs (Impl.strSegs q ++ R) (csegs q) R

theorem PT_rel {q : List Segment} (h : PQ q) : PT ('@' :: Impl.strSegs q) (.rel (csegs q)) :=
  ⟨⟨'@', _, rfl, .inl (by show THb _ = true; decide)⟩, fun rest hrest => JTerm.rel (h rest (segStop_of_safeT hrest))⟩

theorem PT_root {q : List Segment} (h : PQ q) : PT ('$' :: Impl.strSegs q) (.root (csegs q)) :=
  ⟨⟨'$', _, rfl, .inl (by show THb _ = true; decide)⟩, fun rest hrest => JTerm.root (h rest (segStop_of_safeT hrest))⟩

/-! ### selectors -/

def PSel (sel : Selector) : Prop := ∀ rest, Sep rest → JSel (Impl.strSel sel ++ rest) (csel sel) rest

theorem cselOf_eq (sel : Selector) (hf : isFilter sel = false) : cselOf sel = csel sel := by
  cases sel with
  | name s => rw [csel_name]; rfl
  | index i => rw [csel_index]; rfl
  | slice a b c => rw [csel_slice]; rfl
  | wild => rw [csel_wild]; rfl
  | filter e => simp [isFilter] at hf

theorem PSel_plain (sel : Selector) (hf : isFilter sel = false) : PSel sel := by
  intro rest hr
  refine JSel.leaf (fun F => ?_) ?_
  · rw [← cselOf_eq sel hf]; exact selector_print sel hf F rest hr
  · have := strSel_length sel hf
    simp only [List.length_append]; omega

theorem safeO_of_sep {rest} (h : Sep rest) : SafeO rest := by
  obtain ⟨t, rfl | rfl⟩ := h
  · exact safeO_comma t
  · exact safeO_rbrack t

theorem PSel_filter (e : Expr) (h : PO (Impl.canonExpr 1 e) (ccanon 1 e)) : PSel (.filter e) := by
  intro rest hr
  rw [strSel_filter, csel_filter, List.cons_append]
  refine JSel.filter ?_
  rw [h.1.skipS]
  exact h.2 rest (safeO_of_sep hr)

theorem strSel_nb (sel : Selector) : ∃ c t, Impl.strSel sel = c :: t ∧ Spec.isBlank c = false := by
  cases hf : isFilter sel with
  | false => exact strSel_head sel hf
  | true =>
    cases sel with
    | filter e => exact ⟨'?', _, strSel_filter e, by decide⟩
    | _ => simp [isFilter] at hf

theorem skipS_strSel' (sel : Selector) (t : List Char) :
    Spec.skipS (Impl.strSel sel ++ t) = Impl.strSel sel ++ t := by
  obtain ⟨c, u, e, h⟩ := strSel_nb sel
  rw [e]; exact skipS_cons h _

theorem more_sels : ∀ (ss : List Selector), (∀ s ∈ ss, PSel s) → ∀ (R : List Char),
    JMoreSels (tailStr ss ++ ']' :: R) (csels ss) (']' :: R) := by
  intro ss
  induction ss with
  | nil =>
    intro _ R
    rw [csels_nil]
    refine JMoreSels.nil ?_
    intro t e
    have : tailStr [] ++ ']' :: R = ']' :: R := rfl
    rw [this, skipS_cons (show Spec.isBlank ']' = false by decide)] at e
    cases e
  | cons s ss ih =>
    intro h R
    have e : tailStr (s :: ss) ++ ']' :: R = ',' :: ' ' :: (Impl.strSel s ++ (tailStr ss ++ ']' :: R)) := by
      simp [tailStr]
    rw [e, csels_cons]
    refine JMoreSels.cons (r := ' ' :: (Impl.strSel s ++ (tailStr ss ++ ']' :: R)))
      (skipS_cons (by decide) _) ?_ (ih (fun x hx => h x (by simp [hx])) R)
    rw [skipS_sp, skipS_strSel']
    exact h s (by simp) _ (tailStr_sep ss R)

theorem brk_print (s : Selector) (ss : List Selector) (h : ∀ x ∈ s :: ss, PSel x) (R : List Char) :
    JBrk ('[' :: (Impl.strSels (s :: ss) ++ ']' :: R)) (csels (s :: ss)) R := by
  rw [strSels_eq, List.append_assoc, csels_cons]
  exact JBrk.mk (skipS_strSel' s _) (h s (by simp) _ (tailStr_sep ss R))
    (more_sels ss (fun x hx => h x (by simp [hx])) R)

theorem PQ_nil : PQ [] := by
  intro R hR
  rw [strSegs_nil, csegs_nil, List.nil_append]
  exact JSegs.nil hR

theorem PQ_child (sels : List Selector) (rest : List Segment) (hne : sels ≠ [])
    (h : ∀ x ∈ sels, PSel x) (hq : PQ rest) : PQ (.child sels :: rest) := by
  intro R hR
  cases sels with
  | nil => exact absurd rfl hne
  | cons s ss =>
    have e : Impl.strSegs (.child (s :: ss) :: rest) ++ R
        = '[' :: (Impl.strSels (s :: ss) ++ ']' :: (Impl.strSegs rest ++ R)) := by
      rw [strSegs_child]; simp
    rw [e, csegs_child]
    refine JSegs.cons ?_ (hq R hR)
    rw [skipS_cons (by decide)]
    exact JSeg.brack (brk_print s ss h _)

theorem PQ_desc (sels : List Selector) (rest : List Segment) (hne : sels ≠ [])
    (h : ∀ x ∈ sels, PSel x) (hq : PQ rest) : PQ (.desc sels :: rest) := by
  intro R hR
  cases sels with
  | nil => exact absurd rfl hne
  | cons s ss =>
    have e : Impl.strSegs (.desc (s :: ss) :: rest) ++ R
        = '.' :: '.' :: '[' :: (Impl.strSels (s :: ss) ++ ']' :: (Impl.strSegs rest ++ R)) := by
      rw [strSegs_desc]; simp
    rw [e, csegs_desc]
    refine JSegs.cons ?_ (hq R hR)
    rw [skipS_cons (by decide)]
    exact JSeg.descBrack (brk_print s ss h _)

end JPV.Proofs.Pc
