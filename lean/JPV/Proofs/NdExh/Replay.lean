import JPV.Proofs.NdExh.ReachComplete
/-
Replay: whatever a stage of the nondeterministic evaluator does under a script `s`, there is a
script PREFIX `pre` under which it does the same and consumes exactly `pre`, whatever follows
(`∀ t, stage (pre ++ t) = (same result, t)`).  (`pre` is in general not a prefix of `s`: where `s`
ran out and defaults were used, `pre` spells the defaults out.)  For the whole mutual evaluator,
filter expressions and embedded queries included, with no typing or depth assumption.
This is what lets the script of a filter test be followed by the script of the next stage.
-/
namespace JPV.Proofs.NdExh
open JPV JPV.Impl JPV.Impl.ND

/-! ### stages returning `Out` -/

def ReplayO (f : Script → Out) : Prop := ∀ s, ∃ pre : Script, ∀ t, Hit (f (pre ++ t)) (f s).res t

def ReplayK (k : Node → Script → Out) : Prop := ∀ n, ReplayO (k n)

theorem Hit.ok' {o x : Out} {t : Script} (h : Hit o x.res t) (he : x.err = none) :
    o.nodes = x.nodes ∧ o.err = none ∧ o.script = t := by
  have : x.res = (x.nodes, none) := by simp only [Out.res, he]
  rw [this] at h
  exact h.ok

theorem Hit.err' {o x : Out} {t : Script} {e : ErrKind} (h : Hit o x.res t) (he : x.err = some e) :
    o.nodes = x.nodes ∧ o.err = some e := by
  have : x.res = (x.nodes, some e) := by simp only [Out.res, he]
  rw [this] at h
  exact h.err

theorem hit_prepend (a : List Node) {o x : Out} {t : Script} (h : Hit o x.res t) :
    Hit ⟨a ++ o.nodes, o.err, o.script⟩ (Out.res ⟨a ++ x.nodes, x.err, x.script⟩) t := by
  obtain ⟨h1, h2⟩ := h
  simp only [Out.res, Prod.mk.injEq] at h1
  refine ⟨?_, h2⟩
  simp only [Out.res, h1.1, h1.2]

theorem ndChildren_replay (n : Node) (s : Script) :
    ∃ pre : Script, ∀ t, ndChildren n (pre ++ t) = ((ndChildren n s).1, t) :=
  ndChildrenA_complete n _ (ndChildren_mem n s)

theorem mergeQ_replay {α} (q g : List α) (s : Script) :
    ∃ pre : Script, ∀ t, mergeQ q g (pre ++ t) = ((mergeQ q g s).1, t) :=
  mergeQ_surj q g _ (mergeQ_mem q g s)

theorem forEach_nil (s : Script) (k : Node → Script → Out) : forEach [] s k = ⟨[], none, s⟩ := rfl

theorem forEach_replay {k : Node → Script → Out} (hk : ReplayK k) :
    ∀ ns : List Node, ReplayO (fun s => forEach ns s k) := by
  intro ns
  induction ns with
  | nil => intro s; exact ⟨[], fun t => hit_ok _ _⟩
  | cons n rest ih =>
    intro s
    obtain ⟨pre1, h1⟩ := hk n s
    cases he : (k n s).err with
    | some e =>
      refine ⟨pre1, fun t => ?_⟩
      have g := (h1 t).err' he
      simp only [forEach_cons, g.2, he, g.1]
      exact hit_err _ _ _ _
    | none =>
      obtain ⟨pre2, h2⟩ := ih (k n s).script
      refine ⟨pre1 ++ pre2, fun t => ?_⟩
      have g := (h1 (pre2 ++ t)).ok' he
      simp only [List.append_assoc, forEach_cons, g.2.1, he, g.1, g.2.2]
      exact hit_prepend _ (h2 t)

theorem vcn_replay {k : Node → Script → Out} (hk : ReplayK k) (max : Int) (depth : Nat) :
    ∀ (cs : List Node) (queue : List (Node × Nat)) (acc : List Node) (s : Script),
      ∃ pre : Script, ∀ t,
        (visitChildrenNow max depth k cs queue (pre ++ t) acc).1 =
          (visitChildrenNow max depth k cs queue s acc).1 ∧
        Hit (visitChildrenNow max depth k cs queue (pre ++ t) acc).2
          (visitChildrenNow max depth k cs queue s acc).2.res t := by
  intro cs
  induction cs with
  | nil => intro queue acc s; exact ⟨[], fun t => ⟨rfl, hit_ok _ _⟩⟩
  | cons c cs ih =>
    intro queue acc s
    by_cases hd : isDeep max c (depth + 1) = true
    · refine ⟨[], fun t => ?_⟩
      simp only [vcn_cons, if_pos hd]
      exact ⟨trivial, hit_err _ _ _ _⟩
    · obtain ⟨pre1, h1⟩ := hk c s
      cases he : (k c s).err with
      | some e =>
        refine ⟨pre1, fun t => ?_⟩
        have g := (h1 t).err' he
        simp only [vcn_cons, if_neg hd, g.2, he, g.1]
        exact ⟨trivial, hit_err _ _ _ _⟩
      | none =>
        obtain ⟨pre2, h2⟩ := ndChildren_replay c (k c s).script
        obtain ⟨pre3, h3⟩ := mergeQ_replay queue
          ((ndChildren c (k c s).script).1.map (fun g => (g, depth + 2))) (ndChildren c (k c s).script).2
        obtain ⟨pre4, h4⟩ := ih
          (mergeQ queue ((ndChildren c (k c s).script).1.map (fun g => (g, depth + 2)))
            (ndChildren c (k c s).script).2).1 (acc ++ (k c s).nodes)
          (mergeQ queue ((ndChildren c (k c s).script).1.map (fun g => (g, depth + 2)))
            (ndChildren c (k c s).script).2).2
        refine ⟨pre1 ++ (pre2 ++ (pre3 ++ pre4)), fun t => ?_⟩
        have g := (h1 (pre2 ++ (pre3 ++ (pre4 ++ t)))).ok' he
        have e1 : pre1 ++ (pre2 ++ (pre3 ++ pre4)) ++ t = pre1 ++ (pre2 ++ (pre3 ++ (pre4 ++ t))) := by
          simp only [List.append_assoc]
        rw [e1, vcn_cons, vcn_cons, if_neg hd, if_neg hd, g.2.1, he]
        simp only [g.1, g.2.2, h2, h3]
        exact h4 t

theorem visitLoop_replay {k : Node → Script → Out} (hk : ReplayK k) (max : Int) :
    ∀ (fuel : Nat) (queue : List (Node × Nat)) (acc : List Node),
      ReplayO (fun s => visitLoop max k fuel queue s acc) := by
  intro fuel
  induction fuel with
  | zero =>
    intro queue acc s
    exact ⟨[], fun t => by simp only [visitLoop_zero]; exact hit_err _ _ _ _⟩
  | succ fuel ih =>
    intro queue acc s
    match queue with
    | [] => exact ⟨[], fun t => by simp only [visitLoop_nil]; exact hit_ok _ _⟩
    | (node, depth) :: queue =>
      by_cases hd : isDeep max node depth = true
      · refine ⟨[], fun t => ?_⟩
        simp only [visitLoop_cons, if_pos hd]
        exact hit_err _ _ _ _
      · obtain ⟨pre1, h1⟩ := hk node s
        cases he : (k node s).err with
        | some e =>
          refine ⟨pre1, fun t => ?_⟩
          have g := (h1 t).err' he
          simp only [visitLoop_cons, if_neg hd, g.2, he, g.1]
          exact hit_err _ _ _ _
        | none =>
          obtain ⟨pre3, h3⟩ := ndChildren_replay node (coin (k node s).script).2
          cases hb : (coin (k node s).script).1 with
          | false =>
            obtain ⟨pre4, h4⟩ := ih
              (queue ++ (ndChildren node (coin (k node s).script).2).1.map (fun c => (c, depth + 1)))
              (acc ++ (k node s).nodes) (ndChildren node (coin (k node s).script).2).2
            refine ⟨pre1 ++ ([.coin false] ++ (pre3 ++ pre4)), fun t => ?_⟩
            have g := (h1 ([.coin false] ++ (pre3 ++ (pre4 ++ t)))).ok' he
            have e1 : pre1 ++ ([.coin false] ++ (pre3 ++ pre4)) ++ t =
                pre1 ++ ([.coin false] ++ (pre3 ++ (pre4 ++ t))) := by
              simp only [List.append_assoc]
            simp only at h4 ⊢
            rw [e1, visitLoop_cons, visitLoop_cons, if_neg hd, if_neg hd, g.2.1, he]
            simp only [g.1, g.2.2, coin_surj, h3, hb, Bool.false_eq_true, if_false]
            exact h4 t
          | true =>
            obtain ⟨pre4, h4⟩ := vcn_replay hk max depth (ndChildren node (coin (k node s).script).2).1
              queue (acc ++ (k node s).nodes) (ndChildren node (coin (k node s).script).2).2
            cases he2 : (visitChildrenNow max depth k (ndChildren node (coin (k node s).script).2).1 queue
                (ndChildren node (coin (k node s).script).2).2 (acc ++ (k node s).nodes)).2.err with
            | some e2 =>
              refine ⟨pre1 ++ ([.coin true] ++ (pre3 ++ pre4)), fun t => ?_⟩
              have g := (h1 ([.coin true] ++ (pre3 ++ (pre4 ++ t)))).ok' he
              have e1 : pre1 ++ ([.coin true] ++ (pre3 ++ pre4)) ++ t =
                  pre1 ++ ([.coin true] ++ (pre3 ++ (pre4 ++ t))) := by
                simp only [List.append_assoc]
              simp only
              rw [e1, visitLoop_cons, visitLoop_cons, if_neg hd, if_neg hd, g.2.1, he]
              simp only [g.1, g.2.2, coin_surj, h3, hb, if_true]
              have g4 := (h4 t).2.err' he2
              rw [g4.2, he2]
              simp only [g4.1]
              exact hit_err _ _ _ _
            | none =>
              obtain ⟨pre5, h5⟩ := ih
                (visitChildrenNow max depth k (ndChildren node (coin (k node s).script).2).1 queue
                  (ndChildren node (coin (k node s).script).2).2 (acc ++ (k node s).nodes)).1
                (visitChildrenNow max depth k (ndChildren node (coin (k node s).script).2).1 queue
                  (ndChildren node (coin (k node s).script).2).2 (acc ++ (k node s).nodes)).2.nodes
                (visitChildrenNow max depth k (ndChildren node (coin (k node s).script).2).1 queue
                  (ndChildren node (coin (k node s).script).2).2 (acc ++ (k node s).nodes)).2.script
              refine ⟨pre1 ++ ([.coin true] ++ (pre3 ++ (pre4 ++ pre5))), fun t => ?_⟩
              have g := (h1 ([.coin true] ++ (pre3 ++ (pre4 ++ (pre5 ++ t))))).ok' he
              have e1 : pre1 ++ ([.coin true] ++ (pre3 ++ (pre4 ++ pre5))) ++ t =
                  pre1 ++ ([.coin true] ++ (pre3 ++ (pre4 ++ (pre5 ++ t)))) := by
                simp only [List.append_assoc]
              simp only at h5 ⊢
              rw [e1, visitLoop_cons, visitLoop_cons, if_neg hd, if_neg hd, g.2.1, he]
              simp only [g.1, g.2.2, coin_surj, h3, hb, if_true]
              have g4 := h4 (pre5 ++ t)
              have g4' := g4.2.ok' he2
              rw [g4'.2.1, he2]
              simp only [g4.1, g4'.1, g4'.2.2]
              exact h5 t

theorem visit_replay {k : Node → Script → Out} (hk : ReplayK k) (max : Int) (root : Node) :
    ReplayO (fun s => visit max root s k) := by
  intro s
  obtain ⟨pre1, h1⟩ := hk root s
  cases he : (k root s).err with
  | some e =>
    refine ⟨pre1, fun t => ?_⟩
    have g := (h1 t).err' he
    simp only [visit_eq, g.2, he, g.1]
    exact hit_err _ _ _ _
  | none =>
    obtain ⟨pre2, h2⟩ := ndChildren_replay root (k root s).script
    obtain ⟨pre3, h3⟩ := visitLoop_replay hk max (root.val.size + 1)
      ((ndChildren root (k root s).script).1.map (fun c => (c, 1))) (k root s).nodes
      (ndChildren root (k root s).script).2
    refine ⟨pre1 ++ (pre2 ++ pre3), fun t => ?_⟩
    have g := (h1 (pre2 ++ (pre3 ++ t))).ok' he
    have e1 : pre1 ++ (pre2 ++ pre3) ++ t = pre1 ++ (pre2 ++ (pre3 ++ t)) := by
      simp only [List.append_assoc]
    simp only at h3 ⊢
    rw [e1, visit_eq, visit_eq, g.2.1, he]
    simp only [g.1, g.2.2, h2]
    exact h3 t

/-! ### stages returning `Except ErrKind α × Script` (filter expressions) -/

def HitE {α} (x : Except ErrKind α × Script) (r : Except ErrKind α) (t : Script) : Prop :=
  x.1 = r ∧ (∀ a, r = .ok a → x.2 = t)

def ReplayE {α} (f : Script → Except ErrKind α × Script) : Prop :=
  ∀ s, ∃ pre : Script, ∀ t, HitE (f (pre ++ t)) (f s).1 t

theorem HitE.ok_eq {α} {x : Except ErrKind α × Script} {a : α} {t : Script} (h : HitE x (.ok a) t) :
    x = (.ok a, t) := by
  obtain ⟨x1, x2⟩ := x
  obtain ⟨h1, h2⟩ := h
  simp only at h1 h2
  rw [h1, h2 a rfl]

theorem HitE.err_eq {α} {x : Except ErrKind α × Script} {e : ErrKind} {t : Script}
    (h : HitE x (.error e) t) : ∃ s', x = (.error e, s') := by
  obtain ⟨x1, x2⟩ := x
  obtain ⟨h1, _⟩ := h
  simp only at h1
  exact ⟨x2, by rw [h1]⟩

/-- sequencing of two script-threading computations, the way `ND.evalExpr` does it -/
def bindE {α β} (f : Script → Except ErrKind α × Script) (g : α → Script → Except ErrKind β × Script) :
    Script → Except ErrKind β × Script :=
  fun s => match f s with
    | (.error k, s') => (.error k, s')
    | (.ok a, s1) => g a s1

theorem replayE_ret {α} (r : Except ErrKind α) : ReplayE (fun s => (r, s)) :=
  fun _ => ⟨[], fun _ => ⟨rfl, fun _ _ => rfl⟩⟩

theorem replayE_bind {α β} {f : Script → Except ErrKind α × Script}
    {g : α → Script → Except ErrKind β × Script} (hf : ReplayE f) (hg : ∀ a, ReplayE (g a)) :
    ReplayE (bindE f g) := by
  intro s
  obtain ⟨pre1, h1⟩ := hf s
  cases hfs : f s with
  | mk r s1 =>
    rw [hfs] at h1
    cases r with
    | error e =>
      refine ⟨pre1, fun t => ?_⟩
      obtain ⟨s', hs'⟩ := (h1 t).err_eq
      simp only [bindE, hfs, hs']
      exact ⟨rfl, fun a h => by cases h⟩
    | ok a =>
      obtain ⟨pre2, h2⟩ := hg a s1
      refine ⟨pre1 ++ pre2, fun t => ?_⟩
      have := (h1 (pre2 ++ t)).ok_eq
      simp only [bindE, hfs, List.append_assoc, this]
      exact h2 t

/-- an embedded query as an expression -/
def queryE (f : Script → Out) : Script → Except ErrKind Obj × Script :=
  fun s => (match (f s).err with
    | some e => .error e
    | none => .ok (.nodes (f s).nodes), (f s).script)

theorem replayE_query {f : Script → Out} (hf : ReplayO f) : ReplayE (queryE f) := by
  intro s
  obtain ⟨pre, h⟩ := hf s
  refine ⟨pre, fun t => ?_⟩
  cases he : (f s).err with
  | some e =>
    have g := (h t).err' he
    simp only [queryE, g.2, he]
    exact ⟨rfl, fun a h => by cases h⟩
  | none =>
    have g := (h t).ok' he
    simp only [queryE, g.2.1, he, g.1, g.2.2]
    exact ⟨rfl, fun _ _ => rfl⟩

theorem filterEach_cons (test : Json → Script → Except ErrKind Obj × Script) (k : Node → Script → Out)
    (c : Node) (cs : List Node) (s : Script) :
    filterEach test k (c :: cs) s =
      match test c.val s with
      | (.error e, s') => ⟨[], some e, s'⟩
      | (.ok o, s1) =>
        if truthy o then
          match (k c s1).err with
          | some e => ⟨(k c s1).nodes, some e, (k c s1).script⟩
          | none =>
            ⟨(k c s1).nodes ++ (filterEach test k cs (k c s1).script).nodes,
              (filterEach test k cs (k c s1).script).err, (filterEach test k cs (k c s1).script).script⟩
        else filterEach test k cs s1 := by
  rw [filterEach]
  rfl

theorem filterEach_replay {test : Json → Script → Except ErrKind Obj × Script}
    {k : Node → Script → Out} (ht : ∀ c, ReplayE (test c)) (hk : ReplayK k) :
    ∀ cs : List Node, ReplayO (fun s => filterEach test k cs s) := by
  intro cs
  induction cs with
  | nil => intro s; exact ⟨[], fun t => by simp only [filterEach]; exact hit_ok _ _⟩
  | cons c cs ih =>
    intro s
    obtain ⟨pre0, h0⟩ := ht c.val s
    cases hts : test c.val s with
    | mk r s1 =>
      rw [hts] at h0
      cases r with
      | error e =>
        refine ⟨pre0, fun t => ?_⟩
        obtain ⟨s', hs'⟩ := (h0 t).err_eq
        simp only [filterEach_cons, hts, hs']
        exact hit_err _ _ _ _
      | ok o =>
        by_cases hto : truthy o = true
        · obtain ⟨pre1, h1⟩ := hk c s1
          cases he : (k c s1).err with
          | some e =>
            refine ⟨pre0 ++ pre1, fun t => ?_⟩
            have g0 := (h0 (pre1 ++ t)).ok_eq
            have g := (h1 t).err' he
            simp only [filterEach_cons, hts, List.append_assoc, g0, hto, if_true, g.2, he, g.1]
            exact hit_err _ _ _ _
          | none =>
            obtain ⟨pre2, h2⟩ := ih (k c s1).script
            refine ⟨pre0 ++ (pre1 ++ pre2), fun t => ?_⟩
            have g0 := (h0 (pre1 ++ (pre2 ++ t))).ok_eq
            have g := (h1 (pre2 ++ t)).ok' he
            simp only [filterEach_cons, hts, List.append_assoc, g0, hto, if_true, g.2.1, he, g.1, g.2.2]
            exact hit_prepend _ (h2 t)
        · obtain ⟨pre2, h2⟩ := ih s1
          refine ⟨pre0 ++ pre2, fun t => ?_⟩
          have g0 := (h0 (pre2 ++ t)).ok_eq
          simp only [filterEach_cons, hts, List.append_assoc, g0, hto]
          exact h2 t

/-! ### the equations of `ND.evalExpr` in terms of `bindE` -/

section
variable (env : Env) (root cur : Json)

theorem evalExpr_lit (v : Json) :
    (fun s => ND.evalExpr env root cur (.lit v) s) = fun s => (.ok (.val v), s) := by
  funext s; simp only [ND.evalExpr]

theorem evalExpr_not (e : Expr) :
    (fun s => ND.evalExpr env root cur (.not e) s) =
      bindE (fun s => ND.evalExpr env root cur e s) (fun o s => (.ok (.val (.bool (!truthy o))), s)) := by
  funext s
  simp only [ND.evalExpr, bindE]
  rcases ND.evalExpr env root cur e s with ⟨r | r, s'⟩ <;> rfl

theorem evalExpr_logical (op : LOp) (l r : Expr) :
    (fun s => ND.evalExpr env root cur (.logical op l r) s) =
      bindE (fun s => ND.evalExpr env root cur l s) (fun a =>
        bindE (fun s => ND.evalExpr env root cur r s) (fun b s =>
          (.ok (.val (.bool (match op with
            | .and => truthy a && truthy b
            | .or => truthy a || truthy b))), s))) := by
  funext s
  simp only [ND.evalExpr, bindE]
  rcases ND.evalExpr env root cur l s with ⟨ra | ra, s1⟩
  · rfl
  · simp only
    rcases ND.evalExpr env root cur r s1 with ⟨rb | rb, s2⟩ <;> rfl

theorem evalExpr_cmp (op : COp) (l r : Expr) :
    (fun s => ND.evalExpr env root cur (.cmp op l r) s) =
      bindE (fun s => ND.evalExpr env root cur l s) (fun a =>
        bindE (fun s => ND.evalExpr env root cur r s) (fun b s =>
          (.ok (.val (.bool (compare (unwrap1 a) op (unwrap1 b)))), s))) := by
  funext s
  simp only [ND.evalExpr, bindE]
  rcases ND.evalExpr env root cur l s with ⟨ra | ra, s1⟩
  · rfl
  · simp only
    rcases ND.evalExpr env root cur r s1 with ⟨rb | rb, s2⟩ <;> rfl

theorem evalExpr_rel (q : List Segment) :
    (fun s => ND.evalExpr env root cur (.rel q) s) = queryE (fun s => runSegs env root q ⟨[], cur⟩ s) := by
  funext s; simp only [ND.evalExpr, queryE]
  cases (runSegs env root q ⟨[], cur⟩ s).err <;> rfl

theorem evalExpr_root (q : List Segment) :
    (fun s => ND.evalExpr env root cur (.root q) s) = queryE (fun s => runSegs env root q ⟨[], root⟩ s) := by
  funext s; simp only [ND.evalExpr, queryE]
  cases (runSegs env root q ⟨[], root⟩ s).err <;> rfl

theorem evalExpr_call_none (name : Str) (args : List Expr) (h : env.func name = none) :
    (fun s => ND.evalExpr env root cur (.call name args) s) = fun s => (.ok .nothing, s) := by
  funext s; simp only [ND.evalExpr, h]

theorem evalExpr_call_some (name : Str) (args : List Expr) (f : Func) (h : env.func name = some f) :
    (fun s => ND.evalExpr env root cur (.call name args) s) =
      bindE (fun s => ND.evalArgs env root cur args s) (fun as s => ((unpack f.argTypes as).bind f.body, s)) := by
  funext s
  simp only [ND.evalExpr, h, bindE]
  rcases ND.evalArgs env root cur args s with ⟨r | r, s'⟩ <;> rfl

theorem evalArgs_nil : (fun s => ND.evalArgs env root cur [] s) = fun s => (.ok [], s) := by
  funext s; simp only [ND.evalArgs]

theorem evalArgs_cons (e : Expr) (es : List Expr) :
    (fun s => ND.evalArgs env root cur (e :: es) s) =
      bindE (fun s => ND.evalExpr env root cur e s) (fun a =>
        bindE (fun s => ND.evalArgs env root cur es s) (fun as s => (.ok (a :: as), s))) := by
  funext s
  simp only [ND.evalArgs, bindE]
  rcases ND.evalExpr env root cur e s with ⟨ra | ra, s1⟩
  · rfl
  · simp only
    rcases ND.evalArgs env root cur es s1 with ⟨rb | rb, s2⟩ <;> rfl

end

/-! ### the mutual induction over the AST -/

mutual
theorem expr_replay (env : Env) (root : Json) :
    ∀ (e : Expr) (cur : Json), ReplayE (fun s => ND.evalExpr env root cur e s)
  | .lit v, cur => by rw [evalExpr_lit]; exact replayE_ret _
  | .not e, cur => by
      rw [evalExpr_not]
      exact replayE_bind (expr_replay env root e cur) (fun _ => replayE_ret _)
  | .logical op l r, cur => by
      rw [evalExpr_logical]
      exact replayE_bind (expr_replay env root l cur)
        (fun _ => replayE_bind (expr_replay env root r cur) (fun _ => replayE_ret _))
  | .cmp op l r, cur => by
      rw [evalExpr_cmp]
      exact replayE_bind (expr_replay env root l cur)
        (fun _ => replayE_bind (expr_replay env root r cur) (fun _ => replayE_ret _))
  | .rel q, cur => by
      rw [evalExpr_rel]
      exact replayE_query (segs_replay env root q ⟨[], cur⟩)
  | .root q, cur => by
      rw [evalExpr_root]
      exact replayE_query (segs_replay env root q ⟨[], root⟩)
  | .call name args, cur => by
      cases hf : env.func name with
      | none => rw [evalExpr_call_none env root cur name args hf]; exact replayE_ret _
      | some f =>
        rw [evalExpr_call_some env root cur name args f hf]
        exact replayE_bind (args_replay env root args cur) (fun _ => replayE_ret _)
theorem args_replay (env : Env) (root : Json) :
    ∀ (args : List Expr) (cur : Json), ReplayE (fun s => ND.evalArgs env root cur args s)
  | [], cur => by rw [evalArgs_nil]; exact replayE_ret _
  | e :: es, cur => by
      rw [evalArgs_cons]
      exact replayE_bind (expr_replay env root e cur)
        (fun _ => replayE_bind (args_replay env root es cur) (fun _ => replayE_ret _))
theorem sel_replay (env : Env) (root : Json) :
    ∀ (sel : Selector) (k : Node → Script → Out), ReplayK k →
      ReplayK (fun n s => runSel env root k sel n s)
  | .name nm, k, hk => by
      intro n; simp only [runSel]; exact forEach_replay hk _
  | .index i, k, hk => by
      intro n; simp only [runSel]; exact forEach_replay hk _
  | .slice a b c, k, hk => by
      intro n; simp only [runSel]; exact forEach_replay hk _
  | .wild, k, hk => by
      intro n s
      obtain ⟨pre1, h1⟩ := ndChildren_replay n s
      obtain ⟨pre2, h2⟩ := forEach_replay hk (ndChildren n s).1 (ndChildren n s).2
      refine ⟨pre1 ++ pre2, fun t => ?_⟩
      simp only [runSel, ndMembers, List.append_assoc, h1]
      exact h2 t
  | .filter e, k, hk => by
      intro n s
      have ht : ∀ c, ReplayE (fun s' => ND.evalExpr env root c e s') := fun c => expr_replay env root e c
      obtain ⟨pre1, h1⟩ := ndChildren_replay n s
      obtain ⟨pre2, h2⟩ := filterEach_replay ht hk (ndChildren n s).1 (ndChildren n s).2
      refine ⟨pre1 ++ pre2, fun t => ?_⟩
      simp only [runSel, ndMembers, List.append_assoc, h1]
      exact h2 t
theorem sels_replay (env : Env) (root : Json) :
    ∀ (sels : List Selector) (k : Node → Script → Out), ReplayK k →
      ReplayK (fun n s => runSels env root k sels n s)
  | [], k, hk => by
      intro n s
      exact ⟨[], fun t => by simp only [runSels_nil]; exact hit_ok _ _⟩
  | sel :: sels, k, hk => by
      intro n s
      obtain ⟨pre1, h1⟩ := sel_replay env root sel k hk n s
      cases he : (runSel env root k sel n s).err with
      | some e =>
        refine ⟨pre1, fun t => ?_⟩
        have g := (h1 t).err' he
        simp only at g
        simp only [runSels_cons, g.2, he, g.1]
        exact hit_err _ _ _ _
      | none =>
        obtain ⟨pre2, h2⟩ := sels_replay env root sels k hk n (runSel env root k sel n s).script
        refine ⟨pre1 ++ pre2, fun t => ?_⟩
        have g := (h1 (pre2 ++ t)).ok' he
        simp only at g
        simp only [List.append_assoc, runSels_cons, g.2.1, he, g.1, g.2.2]
        exact hit_prepend _ (h2 t)
theorem segs_replay (env : Env) (root : Json) :
    ∀ (segs : List Segment), ReplayK (fun n s => runSegs env root segs n s)
  | [] => by
      intro n s
      exact ⟨[], fun t => by simp only [runSegs]; exact hit_ok _ _⟩
  | .child sels :: rest => by
      intro n
      simp only [runSegs]
      exact sels_replay env root sels _ (segs_replay env root rest) n
  | .desc sels :: rest => by
      intro n
      simp only [runSegs]
      exact visit_replay (sels_replay env root sels _ (segs_replay env root rest)) _ _
end

/-- `segs_replay` spelled out -/
theorem segs_replay_explicit (env : Env) (root : Json) (segs : List Segment) (n : Node) (s : Script) :
    ∃ pre : Script, ∀ t,
      (runSegs env root segs n (pre ++ t)).nodes = (runSegs env root segs n s).nodes ∧
      (runSegs env root segs n (pre ++ t)).err = (runSegs env root segs n s).err ∧
      ((runSegs env root segs n s).err = none → (runSegs env root segs n (pre ++ t)).script = t) := by
  obtain ⟨pre, h⟩ := segs_replay env root segs n s
  refine ⟨pre, fun t => ?_⟩
  obtain ⟨h1, h2⟩ := h t
  simp only [Out.res, Prod.mk.injEq] at h1
  exact ⟨h1.1, h1.2, h2⟩

end JPV.Proofs.NdExh
