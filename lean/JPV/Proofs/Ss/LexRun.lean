/-
`Proofs.Ss.LexRun` — facts about whole runs of the lexer state machine: `run` gives a big-step
`Halts`; the machine is deterministic; tokens are only ever appended; the emitted-token view `Emits`.
-/
import JPV.Proofs.Rq.LexExec
namespace JPV.Proofs.Ss
open JPV JPV.Impl JPV.Proofs.Rq

/-! ### `run` and `Halts` -/

theorem halts_of_run : ∀ (fuel : Nat) (s : LState) (l lf : Lexer), run fuel s l = .ok lf → Halts s l lf := by
  intro fuel
  induction fuel with
  | zero => intro s l lf h; simp [run] at h
  | succ f ih =>
    intro s l lf h
    simp only [run] at h
    split at h
    · cases h
    · rename_i l' hs
      cases h
      exact .stop hs
    · rename_i l' s' hs
      exact .step hs (ih _ _ _ h)

theorem _root_.JPV.Proofs.Rq.Halts.step_some {s s' : LState} {l l' lf : Lexer} (h : Halts s l lf)
    (hs : Impl.step s l = .ok (l', some s')) : Halts s' l' lf := by
  cases h with
  | stop h1 => rw [hs] at h1; cases h1
  | step h1 h2 => rw [hs] at h1; cases h1; exact h2

theorem _root_.JPV.Proofs.Rq.Halts.step_none {s : LState} {l l' lf : Lexer} (h : Halts s l lf)
    (hs : Impl.step s l = .ok (l', none)) : lf = l' := by
  cases h with
  | stop h1 => rw [hs] at h1; cases h1; rfl
  | step h1 h2 => rw [hs] at h1; cases h1

theorem _root_.JPV.Proofs.Rq.Halts.step_error {s : LState} {l lf : Lexer} {e : Err} (h : Halts s l lf)
    (hs : Impl.step s l = .error e) : False := by
  cases h with
  | stop h1 => rw [hs] at h1; cases h1
  | step h1 h2 => rw [hs] at h1; cases h1

theorem _root_.JPV.Proofs.Rq.Halts.reach {s s' : LState} {l l' lf : Lexer} (h : Halts s l lf) (hr : Reach s l s' l') :
    Halts s' l' lf := by
  induction hr with
  | refl => exact h
  | step hs _ ih => exact ih (h.step_some hs)

/-! ### tokens are only appended -/

/-- the result of a step keeps the tokens emitted so far -/
def Mono (l0 : Lexer) : StepResult → Prop
  | .ok (l', _) => l0.toks <:+ l'.toks
  | .error _ => True

section
variable {l0 l l' : Lexer}

theorem Suf.emit (k : TokKind) (h : l0.toks <:+ l.toks) : l0.toks <:+ (l.emit k).toks :=
  h.trans (List.suffix_cons _ _)

theorem Suf.error (h : l0.toks <:+ l.toks) : l0.toks <:+ l.error.toks :=
  h.trans (List.suffix_cons _ _)

theorem Suf.of_backup (hb : l.backup = .ok l') (h : l0.toks <:+ l.toks) : l0.toks <:+ l'.toks := by
  obtain ⟨_, rfl⟩ := Lexer.backup_ok_iff hb
  exact h

theorem Suf.of_acceptMatch {re : List Char → Option Nat} (hb : l.acceptMatch re = some l')
    (h : l0.toks <:+ l.toks) : l0.toks <:+ l'.toks := by
  obtain ⟨k, _, rfl⟩ := Lexer.acceptMatch_iff hb
  exact h

theorem Suf.of_accept {s : List Char} (hb : l.accept s = some l') (h : l0.toks <:+ l.toks) :
    l0.toks <:+ l'.toks := by
  unfold Lexer.accept at hb
  split at hb
  · cases hb; exact h
  · cases hb

theorem Suf.of_ws {x : Bool × Lexer} (hb : l.ignoreWhitespace = .ok x) (h : l0.toks <:+ l.toks) :
    l0.toks <:+ x.2.toks := by
  rw [(Lexer.ws_frame hb).1]; exact h

end

macro "suf_ok" : tactic => `(tactic|
  repeat' (first
    | exact List.suffix_refl _
    | assumption
    | apply Suf.error
    | apply Suf.emit
    | refine Suf.of_backup (by assumption) ?_
    | refine Suf.of_ws (by assumption) ?_
    | refine Suf.of_accept (by assumption) ?_
    | refine Suf.of_acceptMatch (by assumption) ?_
    | simp only [Lexer.ignore_toks, Lexer.pushBracket_toks, Lexer.adv_toks]
    | dsimp only))

macro "mono_leaf" : tactic => `(tactic| (
  simp only [Mono, goto, stop, pure, Except.pure]
  first
    | trivial
    | suf_ok))

theorem lexRoot_mono (l : Lexer) : Mono l (lexRoot l) := by
  unfold lexRoot
  simp only [Lexer.next_eq]
  repeat' split
  all_goals mono_leaf

theorem lexSegment_mono (l : Lexer) : Mono l (lexSegment l) := by
  unfold lexSegment
  simp only [Lexer.next_eq, bind, Except.bind]
  repeat' split
  all_goals mono_leaf

theorem lexDescendant_mono (l : Lexer) : Mono l (lexDescendant l) := by
  unfold lexDescendant
  simp only [Lexer.next_eq, bind, Except.bind]
  repeat' split
  all_goals mono_leaf

theorem lexShorthand_mono (l : Lexer) : Mono l (lexShorthand l) := by
  unfold lexShorthand
  simp only [Lexer.next_eq, bind, Except.bind]
  repeat' split
  all_goals mono_leaf

theorem lexBracketed_mono (l : Lexer) : Mono l (lexBracketed l) := by
  unfold lexBracketed
  simp only [Lexer.next_eq, bind, Except.bind]
  repeat' split
  all_goals mono_leaf

theorem lexFilterDefault_mono {l0 : Lexer} (l : Lexer) (h : l0.toks <:+ l.toks) : Mono l0 (lexFilterDefault l) := by
  unfold lexFilterDefault
  simp only [Lexer.next_eq]
  repeat' split
  all_goals mono_leaf

theorem lexFilter_mono (l : Lexer) : Mono l (lexFilter l) := by
  unfold lexFilter
  simp only [Lexer.next_eq, bind, Except.bind]
  repeat' split
  all_goals first | (apply lexFilterDefault_mono; suf_ok; done) | mono_leaf

theorem lexStrStart_mono (q : Char) (f : Bool) (l : Lexer) : Mono l (lexStrStart q f l) := by
  unfold lexStrStart
  simp only [Lexer.next_eq]
  repeat' split
  all_goals mono_leaf

theorem lexStrLoop_mono (q : Char) (f : Bool) (l : Lexer) : Mono l (lexStrLoop q f l) := by
  unfold lexStrLoop
  simp only [Lexer.next_eq, bind, Except.bind]
  repeat' split
  all_goals mono_leaf

theorem step_mono (s : LState) (l : Lexer) : Mono l (Impl.step s l) := by
  cases s with
  | root => exact lexRoot_mono l
  | segment => exact lexSegment_mono l
  | descendant => exact lexDescendant_mono l
  | shorthand => exact lexShorthand_mono l
  | bracketed => exact lexBracketed_mono l
  | filter => exact lexFilter_mono l
  | strStart q f => exact lexStrStart_mono q f l
  | strLoop q f => exact lexStrLoop_mono q f l

theorem _root_.JPV.Proofs.Rq.Halts.toks_suffix {s : LState} {l lf : Lexer} (h : Halts s l lf) : l.toks <:+ lf.toks := by
  induction h with
  | @stop s l lf hs =>
    have := step_mono s l
    rw [hs] at this
    exact this
  | @step s l s' l' lf hs _ ih =>
    have := step_mono s l
    rw [hs] at this
    exact List.IsSuffix.trans this ih

/-! ### the tokens a run emits -/

/-- the run from `(s, l)` stops in `lf` having emitted exactly `out` (oldest first) -/
structure Emits (s : LState) (l : Lexer) (out : List Token) (lf : Lexer) : Prop where
  halts : Halts s l lf
  toks : lf.toks = out.reverse ++ l.toks

/-- a later point of the same run, `new` emitted in between -/
theorem Emits.advance {s s' : LState} {l l' lf : Lexer} {out new : List Token} (h : Emits s l out lf)
    (h' : Halts s' l' lf) (ht : l'.toks = new.reverse ++ l.toks) :
    ∃ out', out = new ++ out' ∧ Emits s' l' out' lf := by
  obtain ⟨x, hx⟩ := h'.toks_suffix
  have e : out.reverse = x ++ new.reverse := by
    have := h.toks
    rw [← hx, ht, ← List.append_assoc] at this
    exact (List.append_cancel_right this).symm
  refine ⟨x.reverse, ?_, h', ?_⟩
  · have := congrArg List.reverse e
    simpa using this
  · rw [← hx]; simp

theorem Emits.peel {s s' : LState} {l l' lf : Lexer} {out : List Token} {t : Token} (h : Emits s l out lf)
    (h' : Halts s' l' lf) (ht : l'.toks = t :: l.toks) :
    ∃ out', out = t :: out' ∧ Emits s' l' out' lf := by
  obtain ⟨out', e, h2⟩ := h.advance (new := [t]) h' (by simpa using ht)
  exact ⟨out', by simpa using e, h2⟩

theorem Emits.same {s s' : LState} {l l' lf : Lexer} {out : List Token} (h : Emits s l out lf)
    (h' : Halts s' l' lf) (ht : l'.toks = l.toks) : Emits s' l' out lf := by
  obtain ⟨out', e, h2⟩ := h.advance (new := []) h' (by simpa using ht)
  simp at e; subst e; exact h2

/-- the run has stopped, `t` being the only token emitted since `l` -/
theorem Emits.last {s : LState} {l lf : Lexer} {out : List Token} {t : Token} (h : Emits s l out lf)
    (ht : lf.toks = t :: l.toks) : out = [t] := by
  have := h.toks
  rw [ht] at this
  have e : [t] ++ l.toks = out.reverse ++ l.toks := by simpa using this
  have := List.append_cancel_right e
  have := congrArg List.reverse this
  simpa using this.symm

/-- the run ended with an ERROR token -/
def Bad (lf : Lexer) : Prop := ∃ t ts, lf.toks = t :: ts ∧ t.kind = .error

theorem Bad.of_error {l : Lexer} : Bad l.error := ⟨_, _, rfl, rfl⟩

end JPV.Proofs.Ss
