import JPV.Impl.Parse
import JPV.Proofs.LexTotal
import JPV.Proofs.ParseSafeInv
import JPV.Proofs.Strings
import JPV.Proofs.ParseNoPy
import JPV.Proofs.ParseFuel
namespace JPV.Proofs
open JPV JPV.Impl

/-- compile() never raises an exception that is not a JSONPathError: the only way the model's
compile can fail otherwise is by running out of the parser's fuel -/
theorem compile_no_py : ∀ (env : Env) (s : Str) (e : Err), Impl.compile env s = .error e →
    e.kind = .fuel ∨ e.kind.isJSONPathError = true := by
  intro env s e h
  unfold Impl.compile at h
  have htot := tokenize_total s
  cases htk : Impl.tokenize s with
  | error e' =>
    rw [htk] at htot h
    cases h
    exact Or.inr htot
  | ok toks =>
    rw [htk] at h
    obtain ⟨hl, hs⟩ := tokenize_shapes s toks htk
    exact Impl.parseTop_no_py env _ toks hl hs e h

/-- the parser's fuel (`parseFuel`, four per token plus sixteen) is never exhausted -/
theorem compile_no_fuel : ∀ (env : Env) (s : Str) (e : Err), Impl.compile env s = .error e →
    e.kind ≠ .fuel := by
  intro env s e h
  unfold Impl.compile at h
  have htot := tokenize_total s
  cases htk : Impl.tokenize s with
  | error e' =>
    rw [htk] at htot h
    cases h
    intro hk
    have htot' : e.kind.isJSONPathError = true := htot
    rw [hk] at htot'
    cases htot'
  | ok toks =>
    rw [htk] at h
    exact Impl.parseTop_no_fuel env toks (tokenize_shapes s toks htk).1 e h

end JPV.Proofs
