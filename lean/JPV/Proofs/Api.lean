import JPV.Impl.Api
namespace JPV.Proofs
open JPV JPV.Impl

theorem findOne_head (env : Env) (q : Query) (v : Json) (l : List Node)
    (h : Api.queryFind env q v = .ok l) : Api.queryFindOne env q v = .ok l.head? := by
  unfold Api.queryFind Stream.toList at h
  unfold Api.queryFindOne Impl.findOne
  generalize Impl.finditer env q v = st at h ⊢
  obtain ⟨ns, err⟩ := st
  cases err with
  | some e => simp at h
  | none =>
    simp at h
    subst h
    cases ns <;> rfl

theorem findOne_lazy (env : Env) (q : Query) (v : Json) (n : Node) (rest : List Node) (e : Option ErrKind)
    (h : Api.queryFinditer env q v = (n :: rest, e)) : Api.queryFindOne env q v = .ok (some n) := by
  unfold Api.queryFinditer at h
  unfold Api.queryFindOne Impl.findOne
  rw [h]

theorem env_paths (env : Env) (s : Str) (q : Query) (v : Json) (h : Impl.compile env s = .ok q) :
    Api.envFind env s v = Api.queryFind env q v ∧
    Api.envFindOne env s v = Api.queryFindOne env q v ∧
    Api.envFinditer env s v = .ok (Api.queryFinditer env q v) := by
  unfold Api.envFind Api.envFindOne Api.envFinditer
  rw [h]
  exact ⟨rfl, rfl, rfl⟩

theorem env_invalid (env : Env) (s : Str) (e : Err) (v : Json) (h : Impl.compile env s = .error e) :
    Api.envFind env s v = .error e.kind ∧ Api.envFindOne env s v = .error e.kind ∧
    Api.envFinditer env s v = .error e.kind := by
  unfold Api.envFind Api.envFindOne Api.envFinditer
  rw [h]
  exact ⟨rfl, rfl, rfl⟩

theorem apply_pure (w : World) (q : QueryId) (v : Json) : (w.step (.apply q v)).1 = w := by
  simp only [World.step]
  split
  · rfl
  · split
    · rfl
    · split <;> rfl

theorem envFind_pure (w : World) (e : EnvId) (s : Str) (v : Json) : (w.step (.envFind e s v)).1 = w := by
  simp only [World.step]
  split
  · rfl
  · split <;> rfl

/-- the outcome of `.apply` is determined by the query's binding and that environment -/
theorem apply_out_eq (w : World) (q : QueryId) (v : Json) (e : EnvId) (ast : Query) (env : Env)
    (h : w.query q = some (e, ast)) (g : w.env e = some env) :
    (w.step (.apply q v)).2 =
      (match Api.queryFind env ast v with
       | .ok ns => Out.nodes ns
       | .error k => Out.raised k) := by
  simp only [World.step, h, g]
  cases Api.queryFind env ast v <;> rfl

theorem apply_deterministic (w1 w2 : World) (q1 q2 : QueryId) (v : Json) (e1 e2 : EnvId) (ast : Query) (env : Env)
    (h1 : w1.query q1 = some (e1, ast)) (h2 : w2.query q2 = some (e2, ast))
    (g1 : w1.env e1 = some env) (g2 : w2.env e2 = some env) :
    (w1.step (.apply q1 v)).2 = (w2.step (.apply q2 v)).2 := by
  rw [apply_out_eq w1 q1 v e1 ast env h1 g1, apply_out_eq w2 q2 v e2 ast env h2 g2]

/-- the same, with the reporting function named -/
theorem apply_out (w : World) (q : QueryId) (v : Json) (e : EnvId) (ast : Query) (env : Env)
    (h : w.query q = some (e, ast)) (g : w.env e = some env) :
    (w.step (.apply q v)).2 = Out.ofOutcome (Api.queryFind env ast v) := by
  rw [apply_out_eq w q v e ast env h g]
  cases Api.queryFind env ast v <;> rfl

theorem envFind_out (w : World) (e : EnvId) (s : Str) (v : Json) (env : Env) (g : w.env e = some env) :
    (w.step (.envFind e s v)).2 = Out.ofOutcome (Api.envFind env s v) := by
  simp only [World.step, g]
  cases Api.envFind env s v <;> rfl

theorem compile_out (w : World) (e : EnvId) (s : Str) (env : Env) (g : w.env e = some env) :
    (w.step (.compile e s)).2 =
      (match Impl.compile env s with
       | .ok _ => Out.compiled w.queries.length
       | .error err => Out.raised err.kind) := by
  simp only [World.step, g]
  cases Impl.compile env s <;> rfl

/-! ### frames -/

theorem find_setEnv_ne (l : List (EnvId × Env)) (e e' : EnvId) (x : Env) (h : e' ≠ e) :
    ((setEnv l e x).find? (·.1 = e')).map (·.2) = (l.find? (·.1 = e')).map (·.2) := by
  induction l with
  | nil => rfl
  | cons p l ih =>
    unfold setEnv at ih ⊢
    rw [List.map_cons]
    by_cases hp : p.1 = e
    · have h1 : ¬ (p.1 = e') := by rw [hp]; exact fun h' => h h'.symm
      have h2 : ¬ (e = e') := fun h' => h h'.symm
      rw [if_pos hp]
      simp only [List.find?_cons, h1, h2, decide_false]
      exact ih
    · rw [if_neg hp]
      simp only [List.find?_cons]
      split
      · rfl
      · exact ih

theorem map_fst_setEnv (l : List (EnvId × Env)) (e : EnvId) (x : Env) :
    (setEnv l e x).map (·.1) = l.map (·.1) := by
  induction l with
  | nil => rfl
  | cons p l ih =>
    unfold setEnv at ih ⊢
    rw [List.map_cons, List.map_cons, List.map_cons, ih]
    by_cases hp : p.1 = e
    · simp [hp]
    · simp [hp]

theorem frame_register (w : World) (e e' : EnvId) (name : Str) (f : Func) (h : e' ≠ e) :
    ((w.step (.register e name f)).1).env e' = w.env e' := by
  simp only [World.step]
  split
  · rfl
  · exact find_setEnv_ne w.envs e e' _ h

theorem find_setEnv_eq (l : List (EnvId × Env)) (e : EnvId) (x : Env)
    (h : (l.find? (·.1 = e)).isSome) :
    ((setEnv l e x).find? (·.1 = e)).map (·.2) = some x := by
  induction l with
  | nil => cases h
  | cons p l ih =>
    unfold setEnv at ih ⊢
    rw [List.map_cons]
    by_cases hp : p.1 = e
    · rw [if_pos hp]
      simp only [List.find?_cons, decide_true, Option.map_some]
    · rw [if_neg hp]
      simp only [List.find?_cons, hp, decide_false] at h ⊢
      exact ih h

theorem frame_configure (w : World) (e e' : EnvId) (md lo hi : Int) (h : e' ≠ e) :
    ((w.step (.configure e md lo hi)).1).env e' = w.env e' := by
  simp only [World.step]
  split
  · rfl
  · exact find_setEnv_ne w.envs e e' _ h

theorem configure_queries (w : World) (e : EnvId) (md lo hi : Int) :
    ((w.step (.configure e md lo hi)).1).queries = w.queries := by
  simp only [World.step]
  split <;> rfl

/-- `configure` sets exactly the three limits of `e`, keeping its registry and mode -/
theorem configure_env (w : World) (e : EnvId) (md lo hi : Int) (env : Env) (g : w.env e = some env) :
    ((w.step (.configure e md lo hi)).1).env e =
      some { env with maxDepth := md, minIdx := lo, maxIdx := hi } := by
  simp only [World.step, g]
  show ((setEnv w.envs e _).find? (·.1 = e)).map (·.2) = _
  apply find_setEnv_eq
  unfold World.env at g
  cases h' : w.envs.find? (·.1 = e) with
  | none => rw [h'] at g; cases g
  | some a => rfl

theorem configure_out (w : World) (e : EnvId) (md lo hi : Int) :
    (w.step (.configure e md lo hi)).2 = (match w.env e with | some _ => Out.unit | none => Out.noSuch) := by
  cases h : w.env e <;> simp only [World.step, h]

theorem find_append_of_isSome {α : Type} (p : α → Bool) (l l' : List α) (h : (l.find? p).isSome) :
    (l ++ l').find? p = l.find? p := by
  rw [List.find?_append]
  cases h' : l.find? p with
  | none => rw [h'] at h; cases h
  | some a => rfl

theorem find_fst_isSome {β : Type} (l : List (Nat × β)) (e : Nat)
    (hl : l.map (·.1) = List.range l.length) (h : e < l.length) :
    (l.find? (·.1 = e)).isSome := by
  rw [List.find?_isSome]
  have : e ∈ l.map (·.1) := by rw [hl]; exact List.mem_range.mpr h
  obtain ⟨x, hx, hxe⟩ := List.mem_map.mp this
  exact ⟨x, hx, by simpa using hxe⟩

theorem find_fst_lt {β : Type} (l : List (Nat × β)) (e : Nat)
    (hl : l.map (·.1) = List.range l.length) (h : (l.find? (·.1 = e)).isSome) : e < l.length := by
  rw [List.find?_isSome] at h
  obtain ⟨x, hx, hxe⟩ := h
  have : x.1 ∈ l.map (·.1) := List.mem_map.mpr ⟨x, hx, rfl⟩
  rw [hl] at this
  have := List.mem_range.mp this
  have hxe : x.1 = e := by simpa using hxe
  omega

theorem frame_newEnv (w : World) (cfg : Env) (e : EnvId) (hw : w.WF) (h : e < w.envs.length) :
    ((w.step (.newEnv cfg)).1).env e = w.env e := by
  simp only [World.step, World.env]
  rw [find_append_of_isSome _ _ _ (find_fst_isSome w.envs e hw.1 h)]

theorem env_some_lt (w : World) (hw : w.WF) (e : EnvId) (env : Env) (h : w.env e = some env) :
    e < w.envs.length := by
  apply find_fst_lt w.envs e hw.1
  unfold World.env at h
  cases h' : w.envs.find? (·.1 = e) with
  | none => rw [h'] at h; cases h
  | some a => rfl

/-! ### history -/

theorem apply_out_congr (w1 w2 : World) (q : QueryId) (v : Json) (e : EnvId) (ast : Query)
    (h1 : w1.query q = some (e, ast)) (h2 : w2.query q = some (e, ast)) (g : w1.env e = w2.env e) :
    (w1.step (.apply q v)).2 = (w2.step (.apply q v)).2 := by
  cases g' : w2.env e with
  | none => simp only [World.step, h1, h2, g, g']
  | some env =>
    simp only [World.step, h1, h2, g, g']
    cases Api.queryFind env ast v <;> rfl

theorem query_env_lt (w : World) (hw : w.WF) (q : QueryId) (e : EnvId) (ast : Query)
    (hq : w.query q = some (e, ast)) : e < w.envs.length := by
  unfold World.query at hq
  cases h' : w.queries.find? (·.1 = q) with
  | none => rw [h'] at hq; cases hq
  | some a =>
    rw [h'] at hq
    have := hw.2.2 a (List.mem_of_find?_eq_some h')
    simp at hq
    rw [hq] at this
    exact this

theorem WF_setEnv (w : World) (hw : w.WF) (e : EnvId) (x : Env) :
    World.WF { w with envs := setEnv w.envs e x } := by
  refine ⟨?_, hw.2.1, ?_⟩
  · show (setEnv w.envs e x).map (·.1) = List.range (setEnv w.envs e x).length
    rw [map_fst_setEnv, hw.1]
    simp [setEnv]
  · intro y hy
    have := hw.2.2 y hy
    simpa [setEnv] using this

/-- well-formedness is preserved by EVERY operation -/
theorem step_WF (w : World) (op : Op) (hw : w.WF) : (w.step op).1.WF := by
  cases op with
  | compile e' s =>
    cases he : w.env e' with
    | none => simp only [World.step, he]; exact hw
    | some env =>
      cases hc : Impl.compile env s with
      | error err => simp only [World.step, he, hc]; exact hw
      | ok ast' =>
        simp only [World.step, he, hc]
        refine ⟨hw.1, ?_, ?_⟩
        · simp only [List.map_append, List.length_append, List.map_cons, List.map_nil, List.length_cons,
            List.length_nil, List.range_succ, hw.2.1]
        · intro x hx
          rcases List.mem_append.mp hx with hx | hx
          · exact hw.2.2 x hx
          · simp at hx
            subst hx
            exact env_some_lt w hw e' env he
  | apply q' v => rw [apply_pure]; exact hw
  | envFind e' s v => rw [envFind_pure]; exact hw
  | register e' name f =>
    simp only [World.step]
    split
    · exact hw
    · exact WF_setEnv w hw e' _
  | newEnv cfg =>
    simp only [World.step]
    refine ⟨?_, hw.2.1, ?_⟩
    · simp only [List.map_append, List.length_append, List.map_cons, List.map_nil, List.length_cons,
        List.length_nil, List.range_succ, hw.1]
    · intro x hx
      have := hw.2.2 x hx
      show x.2.1 < (w.envs ++ [(w.envs.length, cfg)]).length
      rw [List.length_append]
      exact Nat.lt_add_right 1 this
  | configure e' md lo hi =>
    simp only [World.step]
    split
    · exact hw
    · exact WF_setEnv w hw e' _

/-- a compiled query keeps its binding and its AST through EVERY operation -/
theorem step_query (w : World) (op : Op) (q : QueryId) (x : EnvId × Query)
    (hq : w.query q = some x) : (w.step op).1.query q = some x := by
  cases op with
  | compile e' s =>
    cases he : w.env e' with
    | none => simp only [World.step, he]; exact hq
    | some env =>
      cases hc : Impl.compile env s with
      | error err => simp only [World.step, he, hc]; exact hq
      | ok ast' =>
        simp only [World.step, he, hc, World.query]
        rw [find_append_of_isSome]
        · exact hq
        · unfold World.query at hq
          cases h' : w.queries.find? (·.1 = q) with
          | none => rw [h'] at hq; cases hq
          | some a => rfl
  | apply q' v => rw [apply_pure]; exact hq
  | envFind e' s v => rw [envFind_pure]; exact hq
  | register e' name f =>
    simp only [World.step]
    split <;> exact hq
  | newEnv cfg => exact hq
  | configure e' md lo hi =>
    simp only [World.step]
    split <;> exact hq

/-- an existing environment keeps existing through EVERY operation -/
theorem step_env_lt (w : World) (op : Op) (e : EnvId) (h : e < w.envs.length) :
    e < (w.step op).1.envs.length := by
  cases op with
  | compile e' s =>
    simp only [World.step]
    split
    · exact h
    · split <;> exact h
  | apply q' v => rw [apply_pure]; exact h
  | envFind e' s v => rw [envFind_pure]; exact h
  | register e' name f =>
    simp only [World.step]
    split
    · exact h
    · simpa [setEnv] using h
  | newEnv cfg =>
    simp only [World.step, List.length_append]
    exact Nat.lt_add_right _ h
  | configure e' md lo hi =>
    simp only [World.step]
    split
    · exact h
    · simpa [setEnv] using h

/-- the only operations that can change environment `e`'s configuration are
`register e ..` and `configure e ..` -/
theorem step_env (w : World) (op : Op) (e : EnvId) (hw : w.WF) (hlt : e < w.envs.length)
    (hop : ∀ name f, op ≠ .register e name f) (hcf : ∀ md lo hi, op ≠ .configure e md lo hi) :
    (w.step op).1.env e = w.env e := by
  cases op with
  | compile e' s =>
    simp only [World.step]
    split
    · rfl
    · split <;> rfl
  | apply q' v => rw [apply_pure]
  | envFind e' s v => rw [envFind_pure]
  | register e' name f =>
    exact frame_register w e' e name f (fun h => hop name f (by rw [h]))
  | newEnv cfg => exact frame_newEnv w cfg e hw hlt
  | configure e' md lo hi =>
    exact frame_configure w e' e md lo hi (fun h => hcf md lo hi (by rw [h]))

theorem step_preserve (w : World) (op : Op) (q : QueryId) (e : EnvId) (ast : Query)
    (hw : w.WF) (hq : w.query q = some (e, ast)) (hop : ∀ name f, op ≠ .register e name f)
    (hcf : ∀ md lo hi, op ≠ .configure e md lo hi) :
    (w.step op).1.WF ∧ (w.step op).1.query q = some (e, ast) ∧ (w.step op).1.env e = w.env e :=
  ⟨step_WF w op hw, step_query w op q (e, ast) hq,
   step_env w op e hw (query_env_lt w hw q e ast hq) hop hcf⟩

theorem history_irrelevant : ∀ (w : World) (ops : List Op) (q : QueryId) (e : EnvId) (ast : Query) (v : Json),
    w.WF → w.query q = some (e, ast) →
    (∀ op ∈ ops, (∀ name f, op ≠ .register e name f) ∧ (∀ md lo hi, op ≠ .configure e md lo hi)) →
    ((w.run ops).step (.apply q v)).2 = (w.step (.apply q v)).2 := by
  intro w ops
  induction ops generalizing w with
  | nil => intros; rfl
  | cons op ops ih =>
    intro q e ast v hw hq hops
    obtain ⟨hw', hq', he'⟩ := step_preserve w op q e ast hw hq
      (hops op (List.mem_cons_self ..)).1 (hops op (List.mem_cons_self ..)).2
    show (((w.step op).1.run ops).step (.apply q v)).2 = _
    rw [ih (w.step op).1 q e ast v hw' hq' (fun o ho => hops o (List.mem_cons_of_mem _ ho))]
    exact apply_out_congr _ _ q v e ast hq' hq he'

/-! ### histories with reconfiguration -/

theorem run_WF (w : World) (ops : List Op) (hw : w.WF) : (w.run ops).WF := by
  induction ops generalizing w with
  | nil => exact hw
  | cons op ops ih => exact ih (w.step op).1 (step_WF w op hw)

theorem run_query (w : World) (ops : List Op) (q : QueryId) (x : EnvId × Query)
    (hq : w.query q = some x) : (w.run ops).query q = some x := by
  induction ops generalizing w with
  | nil => exact hq
  | cons op ops ih => exact ih (w.step op).1 (step_query w op q x hq)

theorem run_env_lt (w : World) (ops : List Op) (e : EnvId) (h : e < w.envs.length) :
    e < (w.run ops).envs.length := by
  induction ops generalizing w with
  | nil => exact h
  | cons op ops ih => exact ih (w.step op).1 (step_env_lt w op e h)

theorem env_isSome_of_lt (w : World) (hw : w.WF) (e : EnvId) (h : e < w.envs.length) :
    ∃ env, w.env e = some env := by
  have := find_fst_isSome w.envs e hw.1 h
  unfold World.env
  cases h' : w.envs.find? (·.1 = e) with
  | none => rw [h'] at this; cases this
  | some a => exact ⟨a.2, rfl⟩

/-- a bound query's environment still exists after any history -/
theorem run_env_exists (w : World) (ops : List Op) (q : QueryId) (e : EnvId) (ast : Query)
    (hw : w.WF) (hq : w.query q = some (e, ast)) : ∃ env', (w.run ops).env e = some env' :=
  env_isSome_of_lt _ (run_WF w ops hw) e (run_env_lt w ops e (query_env_lt w hw q e ast hq))

/-- the outcome of a query after any history depends on the history only through
the CURRENT configuration of the environment the query is bound to -/
theorem history_configure (w : World) (ops : List Op) (q : QueryId) (e : EnvId) (ast : Query) (v : Json)
    (env' : Env) (hq : w.query q = some (e, ast)) (he : (w.run ops).env e = some env') :
    ((w.run ops).step (.apply q v)).2 = Out.ofOutcome (Api.queryFind env' ast v) :=
  apply_out _ q v e ast env' (run_query w ops q (e, ast) hq) he

/-- a history that neither registers on nor configures `e` leaves `e`'s configuration alone -/
theorem run_env (w : World) (ops : List Op) (e : EnvId) (hw : w.WF) (hlt : e < w.envs.length)
    (hops : ∀ op ∈ ops, (∀ name f, op ≠ .register e name f) ∧ (∀ md lo hi, op ≠ .configure e md lo hi)) :
    (w.run ops).env e = w.env e := by
  induction ops generalizing w with
  | nil => rfl
  | cons op ops ih =>
    show ((w.step op).1.run ops).env e = _
    rw [ih (w.step op).1 (step_WF w op hw) (step_env_lt w op e hlt)
      (fun o ho => hops o (List.mem_cons_of_mem _ ho))]
    exact step_env w op e hw hlt (hops op (List.mem_cons_self ..)).1 (hops op (List.mem_cons_self ..)).2

/-- `history_irrelevant` IS the special case of `history_configure` where the
configuration of `e` did not change -/
theorem history_irrelevant_of_configure (w : World) (ops : List Op) (q : QueryId) (e : EnvId) (ast : Query)
    (v : Json) (hw : w.WF) (hq : w.query q = some (e, ast))
    (hops : ∀ op ∈ ops, (∀ name f, op ≠ .register e name f) ∧ (∀ md lo hi, op ≠ .configure e md lo hi)) :
    ((w.run ops).step (.apply q v)).2 = (w.step (.apply q v)).2 := by
  have hlt := query_env_lt w hw q e ast hq
  obtain ⟨env, he⟩ := env_isSome_of_lt w hw e hlt
  have he' : (w.run ops).env e = some env := by rw [run_env w ops e hw hlt hops, he]
  rw [history_configure w ops q e ast v env hq he', apply_out w q v e ast env hq he]

/-! ### reconfiguration takes effect immediately (nothing is cached) -/

theorem configure_takes_effect (w : World) (e : EnvId) (md lo hi : Int) (q : QueryId) (ast : Query)
    (v : Json) (env : Env) (hq : w.query q = some (e, ast)) (he : w.env e = some env) :
    ((w.step (.configure e md lo hi)).1.step (.apply q v)).2 =
      Out.ofOutcome (Api.queryFind { env with maxDepth := md, minIdx := lo, maxIdx := hi } ast v) :=
  apply_out _ q v e ast _ (step_query w _ q (e, ast) hq) (configure_env w e md lo hi env he)

theorem configure_takes_effect_envFind (w : World) (e : EnvId) (md lo hi : Int) (s : Str)
    (v : Json) (env : Env) (he : w.env e = some env) :
    ((w.step (.configure e md lo hi)).1.step (.envFind e s v)).2 =
      Out.ofOutcome (Api.envFind { env with maxDepth := md, minIdx := lo, maxIdx := hi } s v) :=
  envFind_out _ e s v _ (configure_env w e md lo hi env he)

theorem configure_takes_effect_compile (w : World) (e : EnvId) (md lo hi : Int) (s : Str)
    (env : Env) (he : w.env e = some env) :
    ((w.step (.configure e md lo hi)).1.step (.compile e s)).2 =
      (match Impl.compile { env with maxDepth := md, minIdx := lo, maxIdx := hi } s with
       | .ok _ => Out.compiled w.queries.length
       | .error err => Out.raised err.kind) := by
  rw [compile_out _ e s _ (configure_env w e md lo hi env he), configure_queries]

/-! ### recompile -/

theorem find_fst_none {β : Type} (l : List (Nat × β)) (n : Nat)
    (hl : l.map (·.1) = List.range l.length) (h : l.length ≤ n) :
    l.find? (·.1 = n) = none := by
  cases h' : l.find? (·.1 = n) with
  | none => rfl
  | some a =>
    have := find_fst_lt l n hl (by rw [h']; rfl)
    omega

theorem recompile (w : World) (e : EnvId) (s : Str) (hw : w.WF) (q1 q2 : QueryId)
    (h1 : (w.step (.compile e s)).2 = .compiled q1)
    (h2 : ((w.step (.compile e s)).1.step (.compile e s)).2 = .compiled q2) (v : Json) :
    (((w.step (.compile e s)).1.step (.compile e s)).1.step (.apply q1 v)).2 =
    (((w.step (.compile e s)).1.step (.compile e s)).1.step (.apply q2 v)).2 := by
  cases he : w.env e with
  | none => simp [World.step, he] at h1
  | some env =>
    cases hc : Impl.compile env s with
    | error err => simp [World.step, he, hc] at h1
    | ok ast =>
      let w1 : World := { w with queries := w.queries ++ [(w.queries.length, e, ast)] }
      have hs1 : w.step (.compile e s) = (w1, .compiled w.queries.length) := by
        simp only [World.step, he, hc, w1]
      have he1 : w1.env e = some env := he
      let w2 : World := { w1 with queries := w1.queries ++ [(w1.queries.length, e, ast)] }
      have hs2 : w1.step (.compile e s) = (w2, .compiled w1.queries.length) := by
        simp only [World.step, he1, hc, w2]
      have he2 : w2.env e = some env := he
      rw [hs1] at h1 h2 ⊢
      simp only at h1 h2 ⊢
      rw [hs2] at h2 ⊢
      simp only at h2 ⊢
      have hq1 : q1 = w.queries.length := by injection h1 with h1; exact h1.symm
      have hq2 : q2 = w.queries.length + 1 := by
        injection h2 with h2
        rw [← h2]
        simp [w1]
      have hnone1 := find_fst_none w.queries q1 hw.2.1 (by rw [hq1]; exact Nat.le_refl _)
      have hnone2 := find_fst_none w.queries q2 hw.2.1 (by rw [hq2]; exact Nat.le_succ _)
      have hg1 : w2.query q1 = some (e, ast) := by
        simp only [World.query, w2, w1, List.find?_append, hnone1, List.length_append,
          List.length_cons, List.length_nil]
        simp [hq1]
      have hg2 : w2.query q2 = some (e, ast) := by
        simp only [World.query, w2, w1, List.find?_append, hnone2, List.length_append,
          List.length_cons, List.length_nil]
        simp [hq2]
      exact apply_deterministic w2 w2 q1 q2 v e e ast env hg1 hg2 he2 he2

/-! ### iterators -/

theorem interleave_gen (streams : List Stream) (i : Nat) (s : Stream) (hs : streams[i]? = some s) :
    ∀ (schedule cursors : List Nat) (p : Nat), cursors[i]? = some p →
      ((runSchedule streams cursors schedule).filter (·.1 = i)).map (·.2)
        = (List.range (schedule.filter (· = i)).length).map (fun j => nextOut s (p + j)) := by
  intro schedule
  induction schedule with
  | nil => intros; rfl
  | cons j rest ih =>
    intro cursors p hp
    by_cases hj : j = i
    · subst hj
      have hlen : ((j :: rest).filter (· = j)).length = (rest.filter (· = j)).length + 1 := by
        simp
      rw [hlen, List.range_succ_eq_map]
      simp only [runSchedule, hs, hp]
      have hset : (cursors.set j (p + 1))[j]? = some (p + 1) := by
        have hlt : j < cursors.length := by
          rcases Nat.lt_or_ge j cursors.length with h | h
          · exact h
          · rw [List.getElem?_eq_none h] at hp; cases hp
        simp [hlt]
      have := ih (cursors.set j (p + 1)) (p + 1) hset
      simp only [List.filter_cons, decide_true, if_true, List.map_cons, List.map_map, this]
      congr 1
      apply List.map_congr_left
      intro a _
      simp only [Function.comp, Nat.succ_eq_add_one]
      congr 1
      omega
    · have hlen : (j :: rest).filter (· = i) = rest.filter (· = i) := by
        simp [hj]
      rw [hlen]
      unfold runSchedule
      split
      · rename_i s' pos hs' hpos
        have hset : (cursors.set j (pos + 1))[i]? = some p := by
          rw [List.getElem?_set_ne hj]; exact hp
        have := ih (cursors.set j (pos + 1)) p hset
        simp only [List.filter_cons, hj, decide_false]
        exact this
      · exact ih cursors p hp

theorem interleave_independent : ∀ (streams : List Stream) (schedule : List Nat) (i : Nat) (s : Stream),
    streams[i]? = some s →
    ((runSchedule streams (List.replicate streams.length 0) schedule).filter (·.1 = i)).map (·.2)
      = solitary s ((schedule.filter (· = i)).length) := by
  intro streams schedule i s hs
  have hlt : i < streams.length := by
    rcases Nat.lt_or_ge i streams.length with h | h
    · exact h
    · rw [List.getElem?_eq_none h] at hs; cases hs
  have hp : (List.replicate streams.length 0)[i]? = some 0 := by
    simp [hlt]
  rw [interleave_gen streams i s hs schedule _ 0 hp]
  unfold solitary
  apply List.map_congr_left
  intro a _
  simp

theorem abandon (streams : List Stream) (schedule : List Nat) (i : Nat) (s : Stream) (h : streams[i]? = some s) :
    ((runSchedule streams (List.replicate streams.length 0) schedule).filter (·.1 = i)).map (·.2) =
    ((runSchedule streams (List.replicate streams.length 0) (schedule.filter (· = i))).filter (·.1 = i)).map (·.2) := by
  rw [interleave_independent streams schedule i s h,
    interleave_independent streams (schedule.filter (· = i)) i s h, List.filter_filter]
  simp

end JPV.Proofs
