/-
The D30 heap, nondeterministic mode, queue-first scripts (no `.merge` entry: every `random.sample`
interleaving keeps the queue ahead of the grandchildren — the model's default reading; all-False and
all-True coin scripts are of this kind): whatever the coins, JSONPathRecursionError is not raised before
2^⌈max/2⌉ - 1 nodes have been yielded.

The queue is processed generation by generation (FIFO).  Generation `g` consists of entries at depth
≤ 2g+1 and has at least 2^(g+1) members, since every popped entry leaves at least two entries in the next
generation.  An entry that raises has depth ≥ max - 1, so it belongs to generation ≥ (max-2)/2, and all
earlier generations have been popped (and yielded) before.
-/
import JPV.Proofs.NdGraph.Bound
import JPV.Proofs.NdGraph.D30Det
import JPV.Proofs.NdGraph.D30Fast
namespace JPV.Proofs.NdG
open JPV JPV.Impl JPV.Impl.G

/-- a script without `.merge` entries: every interleaving is "queue first" -/
def MergeFree (s : ND.Script) : Prop := ∀ c ∈ s, ∀ bs, c ≠ ND.Choice.merge bs

theorem coin_snd (s : ND.Script) : (ND.coin s).2 = s.tail := by
  cases s with
  | nil => rfl
  | cons c s => cases c <;> rfl

theorem MergeFree.tail {s : ND.Script} (h : MergeFree s) : MergeFree s.tail :=
  fun c hc => h c (List.mem_of_mem_tail hc)

theorem MergeFree.coin {s : ND.Script} (h : MergeFree s) : MergeFree (ND.coin s).2 := by
  rw [coin_snd]; exact h.tail

theorem mergeQ_mf {α} (q g : List α) {s : ND.Script} (h : MergeFree s) :
    (ND.mergeQ q g s).1 = q ++ g ∧ MergeFree (ND.mergeQ q g s).2 := by
  unfold ND.mergeQ
  split
  · exact ⟨rfl, h⟩
  · split
    · rename_i bs rest
      exact absurd rfl (h (.merge bs) List.mem_cons_self bs)
    · rename_i c rest _
      exact ⟨rfl, fun c' hc' => h c' (List.mem_cons_of_mem _ hc')⟩
    · exact ⟨rfl, h⟩

theorem allCoins_mergeFree (b : Bool) (n : Nat) : MergeFree (coins b n) := by
  intro c hc bs heq
  rw [coins, List.mem_replicate] at hc
  rw [hc.2] at heq
  cases heq

/-- a queue entry: a container at depth at most `D` -/
def RefAt (D : Nat) (e : NdNode × Nat) : Prop := (∃ loc i, e.1 = (loc, Child.ref i)) ∧ e.2 ≤ D

theorem RefAt.mono {D D' : Nat} {e : NdNode × Nat} (h : RefAt D e) (hle : D ≤ D') : RefAt D' e :=
  ⟨h.1, Nat.le_trans h.2 hle⟩

/-- the generation invariant: `cur` = what is left of generation `g`, `nxt` = generation `g + 1` so far;
`v` = number of nodes yielded so far -/
def Inv (q : List (NdNode × Nat)) (v : Nat) : Prop :=
  ∃ cur nxt g, q = cur ++ nxt ∧ (∀ e ∈ cur, RefAt (2 * g + 1) e) ∧ (∀ e ∈ nxt, RefAt (2 * g + 3) e) ∧
    2 ^ (g + 2) ≤ 2 * cur.length + nxt.length ∧ 2 ^ (g + 2) ≤ v + cur.length + 1 ∧ 2 ^ (g + 1) ≤ v + 1

/-- the head of the queue can be taken to belong to the current generation -/
theorem inv_cons {e : NdNode × Nat} {q : List (NdNode × Nat)} {v : Nat} (h : Inv (e :: q) v) :
    ∃ cur nxt g, q = cur ++ nxt ∧ RefAt (2 * g + 1) e ∧ (∀ e ∈ cur, RefAt (2 * g + 1) e) ∧
      (∀ e ∈ nxt, RefAt (2 * g + 3) e) ∧
      2 ^ (g + 2) ≤ 2 * cur.length + 2 + nxt.length ∧ 2 ^ (g + 2) ≤ v + cur.length + 2 ∧ 2 ^ (g + 1) ≤ v + 1 := by
  obtain ⟨cur, nxt, g, hq, hc, hn, h1, h2, h3⟩ := h
  cases cur with
  | nil =>
    simp only [List.nil_append] at hq
    subst hq
    simp only [List.length_nil, List.length_cons] at h1 h2
    have p1 : 2 ^ (g + 1 + 2) = 2 * 2 ^ (g + 2) := by rw [Nat.pow_succ]; omega
    have p2 : 2 ^ (g + 1 + 1) = 2 ^ (g + 2) := rfl
    refine ⟨q, [], g + 1, by simp, ?_, ?_, ?_, ?_, ?_, ?_⟩
    · exact (hn e List.mem_cons_self).mono (by omega)
    · intro e' he'
      exact (hn e' (List.mem_cons_of_mem _ he')).mono (by omega)
    · intro e' he'; cases he'
    · simp only [List.length_nil]; omega
    · omega
    · omega
  | cons e' cur =>
    simp only [List.cons_append, List.cons.injEq] at hq
    obtain ⟨rfl, rfl⟩ := hq
    simp only [List.length_cons] at h1 h2
    refine ⟨cur, nxt, g, rfl, hc e List.mem_cons_self, fun x hx => hc x (List.mem_cons_of_mem _ hx), hn, ?_, ?_, h3⟩
    · omega
    · omega

/-- the invariant after a pop that added `k ≥ 2` entries (at depth ≤ 2g+3) and yielded `w ≥ 1` nodes -/
theorem inv_step {cur nxt new : List (NdNode × Nat)} {g v w : Nat}
    (hc : ∀ e ∈ cur, RefAt (2 * g + 1) e) (hn : ∀ e ∈ nxt, RefAt (2 * g + 3) e)
    (hnew : ∀ e ∈ new, RefAt (2 * g + 3) e) (hk : 2 ≤ new.length) (hw : 1 ≤ w)
    (h1 : 2 ^ (g + 2) ≤ 2 * cur.length + 2 + nxt.length) (h2 : 2 ^ (g + 2) ≤ v + cur.length + 2)
    (h3 : 2 ^ (g + 1) ≤ v + 1) : Inv (cur ++ nxt ++ new) (v + w) := by
  refine ⟨cur, nxt ++ new, g, by rw [List.append_assoc], hc, ?_, ?_, ?_, ?_⟩
  · intro e he
    rcases List.mem_append.1 he with he | he
    · exact hn e he
    · exact hnew e he
  · rw [List.length_append]; omega
  · omega
  · omega

/-- the children loop on the D30 heap under a queue-first script -/
theorem now_d30 (max : Int) (depth : Nat) (l1 l2 : Loc) (i1 i2 : Nat) (q : List (NdNode × Nat))
    {s : ND.Script} (acc : List NdNode) (hmf : MergeFree s)
    (hd : ndIsDeep max (Child.ref 0) (depth + 1) = false) :
    ∃ s', MergeFree s' ∧
      ndVisitNow d30 max depth [(l1, .ref i1), (l2, .ref i2)] q s acc =
        (q ++ [((l1 ++ [.idx 0], .ref 0), depth + 2), ((l1 ++ [.idx 1], .ref 0), depth + 2)] ++
            [((l2 ++ [.idx 0], .ref 0), depth + 2), ((l2 ++ [.idx 1], .ref 0), depth + 2)],
          s', (acc ++ [(l1, .ref i1)] ++ [(l2, .ref i2)], none)) := by
  have hd1 : ndIsDeep max (l1, Child.ref i1).2 (depth + 1) = false := by
    rw [isDeep_ref]; rw [isDeep_ref] at hd; exact hd
  have hd2 : ndIsDeep max (l2, Child.ref i2).2 (depth + 1) = false := by
    rw [isDeep_ref]; rw [isDeep_ref] at hd; exact hd
  rw [now_cons d30 max depth _ _ _ _ _ hd1, d30_kids]
  simp only [List.map_cons, List.map_nil]
  obtain ⟨m1, mf1⟩ := mergeQ_mf q [((l1 ++ [.idx 0], Child.ref 0), depth + 2),
    ((l1 ++ [.idx 1], Child.ref 0), depth + 2)] hmf
  rw [m1]
  rw [now_cons d30 max depth _ _ _ _ _ hd2, d30_kids]
  simp only [List.map_cons, List.map_nil]
  obtain ⟨m2, mf2⟩ := mergeQ_mf (q ++ [((l1 ++ [.idx 0], Child.ref 0), depth + 2),
    ((l1 ++ [.idx 1], Child.ref 0), depth + 2)]) [((l2 ++ [.idx 0], Child.ref 0), depth + 2),
    ((l2 ++ [.idx 1], Child.ref 0), depth + 2)] mf1
  rw [m2, now_nil]
  exact ⟨_, mf2, rfl⟩

theorem pow_half_le {M g : Nat} (h : M ≤ 2 * g + 2) : 2 ^ ((M + 1) / 2) ≤ 2 ^ (g + 1) :=
  Nat.pow_le_pow_right (by omega) (by omega)

/-- the loop on the D30 heap under a queue-first script: if it raises, at least 2^⌈max/2⌉ - 1 nodes were yielded -/
theorem lower_loop (max : Int) (fuel : Nat) :
    ∀ (q : List (NdNode × Nat)) (s : ND.Script) (acc : List NdNode), MergeFree s → Inv q acc.length →
      (ndLoop d30 max fuel q s acc).2 = some .recursion →
      2 ^ ((max.toNat + 1) / 2) ≤ (ndLoop d30 max fuel q s acc).1.length + 1 := by
  induction fuel with
  | zero => intro q s acc _ _ hr; rw [loop_zero] at hr; cases hr
  | succ fuel ih =>
    intro q s acc hmf hinv hr
    cases q with
    | nil => rw [loop_nil] at hr; cases hr
    | cons e q =>
      obtain ⟨cur, nxt, g, rfl, ⟨⟨loc, i, he1⟩, he2⟩, hc, hn, h1, h2, h3⟩ := inv_cons hinv
      obtain ⟨node, d⟩ := e
      simp only at he1 he2
      subst he1
      cases hd : ndIsDeep max (loc, Child.ref i).2 d with
      | true =>
        rw [loop_deep d30 max fuel _ d _ s acc hd]
        have hM : max.toNat ≤ 2 * g + 2 := by
          rw [isDeep_ref] at hd
          have := of_decide_eq_true hd
          omega
        exact Nat.le_trans (pow_half_le hM) h3
      | false =>
        cases hcoin : (ND.coin s).1 with
        | false =>
          rw [loop_false d30 max fuel _ d _ s acc hd hcoin] at hr ⊢
          rw [d30_kids] at hr ⊢
          apply ih _ _ _ hmf.coin _ hr
          rw [List.length_append]
          apply inv_step hc hn _ _ (Nat.le_refl 1) h1 h2 h3
          · intro e he
            simp only [List.map_cons, List.map_nil, List.mem_cons, List.not_mem_nil, or_false] at he
            rcases he with rfl | rfl
            · exact ⟨⟨_, _, rfl⟩, by simp only; omega⟩
            · exact ⟨⟨_, _, rfl⟩, by simp only; omega⟩
          · simp
        | true =>
          cases hd1 : ndIsDeep max (Child.ref 0) (d + 1) with
          | true =>
            rw [loop_true_err d30 max fuel _ d _ s acc hd hcoin
              (q' := cur ++ nxt) (s' := (ND.coin s).2) (acc' := acc ++ [(loc, .ref i)])
              (e := .recursion) (by rw [d30_kids]; exact now_deep d30 max d _ _ _ _ _ hd1)]
            have hM : max.toNat ≤ 2 * g + 2 := by
              rw [isDeep_ref] at hd1
              have := of_decide_eq_true hd1
              push_cast at this
              omega
            have := pow_half_le hM
            simp only [List.length_append, List.length_cons, List.length_nil]
            omega
          | false =>
            obtain ⟨s', mf', hv⟩ := now_d30 max d (loc ++ [.idx 0]) (loc ++ [.idx 1]) 0 0 (cur ++ nxt)
              (acc ++ [(loc, .ref i)]) hmf.coin hd1
            rw [loop_true_ok d30 max fuel _ d _ s acc hd hcoin hv] at hr ⊢
            apply ih _ _ _ mf' _ hr
            have hl : (acc ++ [(loc, Child.ref i)] ++ [(loc ++ [Key.idx 0], Child.ref 0)] ++
                [(loc ++ [Key.idx 1], Child.ref 0)]).length = acc.length + 3 := by
              simp only [List.length_append, List.length_cons, List.length_nil]
            rw [hl, List.append_assoc (cur ++ nxt)]
            apply inv_step hc hn _ _ (by omega) h1 h2 h3
            · intro e he
              simp only [List.cons_append, List.nil_append, List.mem_cons, List.not_mem_nil, or_false] at he
              rcases he with rfl | rfl | rfl | rfl
              · exact ⟨⟨_, _, rfl⟩, by simp only; omega⟩
              · exact ⟨⟨_, _, rfl⟩, by simp only; omega⟩
              · exact ⟨⟨_, _, rfl⟩, by simp only; omega⟩
              · exact ⟨⟨_, _, rfl⟩, by simp only; omega⟩
            · simp

/-- finding D30 in the model: under every queue-first script, a JSONPathRecursionError on the D30 heap
comes only after at least 2^⌈max/2⌉ - 1 yielded nodes -/
theorem d30_lower (max : Int) (fuel : Nat) (s : ND.Script) (hmf : MergeFree s)
    (hr : (ndVisit d30 max fuel 0 s).2 = some .recursion) :
    2 ^ ((max.toNat + 1) / 2) ≤ (ndVisit d30 max fuel 0 s).1.length + 1 := by
  rw [visit_eq, d30_kids] at hr ⊢
  apply lower_loop max fuel _ _ _ hmf _ hr
  refine ⟨_, [], 0, (List.append_nil _).symm, ?_, ?_, ?_, ?_, ?_⟩
  · intro e he
    simp only [List.map_cons, List.map_nil, List.mem_cons, List.not_mem_nil, or_false] at he
    rcases he with rfl | rfl
    · exact ⟨⟨_, _, rfl⟩, by simp⟩
    · exact ⟨⟨_, _, rfl⟩, by simp⟩
  · intro e he; cases he
  · simp
  · simp
  · simp

theorem d30_kids_length (i : Nat) : (d30.kids i).length ≤ 2 := Nat.le_refl 2

theorem d30_live : Live d30.toHeap 0 :=
  ⟨0, Or.inl rfl, Reach.one (key := .idx 0) (by rw [d30_toHeap_kids]; exact List.mem_cons_self)⟩

/-- with enough fuel it does raise, so the lower bound is about an actual raise -/
theorem d30_raises (max : Int) (fuel : Nat) (s : ND.Script) (hf : geom 2 (max.toNat + 2) ≤ fuel) :
    (ndVisit d30 max fuel 0 s).2 = some .recursion :=
  (visit_cycle_raises d30 2 d30_kids_length max fuel 0 s d30_live hf).1

/-- and with few pops it is still running: under a queue-first script, `fuel` pops with
3·fuel + 2 < 2^⌈max/2⌉ end in the out-of-fuel outcome -/
theorem d30_still_running (max : Int) (fuel : Nat) (s : ND.Script) (hmf : MergeFree s)
    (hf : 3 * fuel + 2 < 2 ^ ((max.toNat + 1) / 2)) : (ndVisit d30 max fuel 0 s).2 = some .fuel := by
  rcases visit_outcomes d30 max fuel 0 s with h0 | h1 | h2
  · exact absurd h0 (visit_never_none d30 max fuel 0 s d30_live)
  · have hl := d30_lower max fuel s hmf h1
    have hu := visit_length d30 2 d30_kids_length max fuel 0 s
    omega
  · exact h2

end JPV.Proofs.NdG
