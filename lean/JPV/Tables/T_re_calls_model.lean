import JPV.Tables.Common
namespace JPV.Tables
open JPV JPV.Impl

/-- the regex engine is entered once per call — `fullmatch` for `match()`, `search` for `search()` — with the pattern
and the subject only (no flags), and of the exceptions the engine may raise exactly `TypeError` and `re.error` are
swallowed (the function returns false); obtained by EXECUTING the two functions with the engine's entry points
replaced by recorders (`gen_tables.extract_regex_behaviour`), so it survives any rewrite that keeps the behaviour -/
theorem re_calls_model : Generated.reCalls =
    [("match", "calls fullmatch", 2, []),
     ("match", "swallows", 2, ["TypeError", "error"]),
     ("search", "calls search", 2, []),
     ("search", "swallows", 2, ["TypeError", "error"])] := by decide +kernel

end JPV.Tables
