import JPV.Impl.Parse
import JPV.Spec.Grammar
import JPV.Spec.Valid
import JPV.Spec.Typing
import JPV.Proofs.ParseTyping
import JPV.Proofs.CompleteStructural
import JPV.Proofs.PrinterFilter
namespace JPV.Proofs
open JPV JPV.Impl

/-- C03 at full strength: every string that the RFC 9535 grammar derives (`Spec.parseQuery`, filters
included, parentheses kept in the derivation tree) and that is valid under the RFC's rules for the
environment's own function signatures and integer range (`Spec.judge … = (.valid, some c)`) compiles, and the
query the implementation builds is the derivation's abstraction. -/
theorem compile_complete (env : Env) (s : Str) (c : List Spec.CSegment)
    (hj : Spec.judge (sigsOfEnv' env) env.minIdx env.maxIdx s = (.valid, some c)) :
    Impl.compile env s = .ok (Spec.abstractSegs c) := by
  sorry

end JPV.Proofs
