/-
`Proofs.Sv.LexSel` (copy of `Sf.LexSel` for the relations of `Sv.Shape` and the judgements of `Sv.Judge`) — LEXER INVERSION, the induction steps for selectors and bracketed selections.
-/
import JPV.Proofs.Sf.LexSel
import JPV.Proofs.Sv.LexExpr
set_option linter.unusedSimpArgs false
set_option linter.unusedVariables false
namespace JPV.Proofs.Sv
open JPV JPV.Impl JPV.Proofs.Rq JPV.Proofs.Cs JPV.Proofs.Ss JPV.Proofs.Sf

variable [SigC]

variable {lf : Lexer} {n : Nat}

/-! ### selectors -/

theorem pSel_step (hg : ¬ Bad lf) (hO : POr lf n) : PSel lf (n + 1) := by
  intro s ts hD hlen d i br x y out hd hcfg hy
  cases hD with
  | leaf _ _ hs =>
    obtain ⟨m, hb, hm⟩ := BCfg.toks hg ts x (y :: out) hs.kinds hcfg
    obtain ⟨rest, hbt, -⟩ := BCfg.next hg hm
    have hfol : Cs.Follow m := by
      rcases hy with hy | hy
      · rw [hy] at hbt; exact ⟨rest, .inl (brTok_comma hbt)⟩
      · rw [hy] at hbt; exact ⟨rest, .inr (brTok_rbracket hbt)⟩
    obtain ⟨csel, r', hsel, habs, hsk⟩ := sel_pure hs hb hfol
    have hq : (Spec.skipS x).head? ≠ some '?' := by
      have hpos := hs.length_pos
      cases ts with
      | nil => simp at hpos
      | cons t0 ts0 =>
        obtain ⟨r0, h1, -⟩ := hb.cons_inv
        exact brTok_head h1 (hs.kinds t0 (by simp)).2
    exact ⟨r', HSel.leaf hsel habs (selector_progress (hsel 0) hq) (by intro e he; subst he; cases hs),
      .inl ⟨m, hsk.symm, hm⟩⟩
  | filter t e ts' hk hor =>
    have hcfg' : BCfg lf d (('[', i) :: br) x (t :: (ts' ++ y :: out)) := by simpa using hcfg
    obtain ⟨rest, hbt, hcs⟩ := BCfg.next hg hcfg'
    rw [hk] at hbt
    have hx := brTok_filter hbt
    rcases hcs with ⟨hk', _⟩ | ⟨_, hf⟩ | ⟨_, hk', _⟩
    · rw [hk] at hk'; cases hk'
    · obtain ⟨r2, hO', hc2⟩ := hO e ts' hor (by simp at hlen; omega) (d + 1) _ rest y out (by omega) hf
        (by rcases hy with hy | hy <;> rw [hy] <;> rfl)
      rw [hx]
      exact ⟨r2, HSel.filter hO', .inr hc2⟩
    · exact absurd hk hk'

theorem pMoreSels_step (hg : ¬ Bad lf) (hS : PSel lf n) (hM : PMoreSels lf n) : PMoreSels lf (n + 1) := by
  intro ss ts hD hlen d i br r2 rb out hd hcfg hrb
  cases hD with
  | nil =>
    obtain ⟨rest, hr, hs⟩ := ECfg.rbracket hg (by simpa using hcfg) hrb
    refine ⟨r2, rest, HMoreSels.nil ?_, hr, hs⟩
    intro t e; rw [e] at hr; cases hr
  | cons c s ss t1 t2 hc hs hm =>
    have hcfg' : ECfg lf d i br r2 (c :: (t1 ++ (t2 ++ rb :: out))) := by simpa using hcfg
    obtain ⟨r, hx, hb⟩ := ECfg.comma hg hcfg' hc
    obtain ⟨y, ys, ey, hy⟩ := hm.head rb out hrb
    rw [ey] at hb
    obtain ⟨r2', hS', he⟩ := hS s t1 hs (by simp at hlen; omega) d i br r y ys hd hb hy
    rw [← ey] at he
    obtain ⟨r3, rest, hM', hr3, hsc⟩ := hM ss t2 hm (by simp at hlen; omega) d i br r2' rb out hd he hrb
    exact ⟨r3, rest, HMoreSels.cons hx hS' hM', hr3, hsc⟩

theorem pSels_step (hg : ¬ Bad lf) (hS1 : PSel lf (n + 1)) (hM1 : PMoreSels lf (n + 1)) :
    PSels lf (n + 1) := by
  intro ss ts hD hlen d i br x rb out hd hcfg hrb
  cases hD with
  | mk s ss t1 t2 hs hm =>
    have hcfg' : BCfg lf d (('[', i) :: br) x (t1 ++ (t2 ++ rb :: out)) := by simpa using hcfg
    obtain ⟨y, ys, ey, hy⟩ := hm.head rb out hrb
    rw [ey] at hcfg'
    obtain ⟨r2, hS', he⟩ := hS1 s t1 hs (by simp at hlen; omega) d i br x y ys hd hcfg' hy
    rw [← ey] at he
    obtain ⟨r3, rest, hM', hr3, hsc⟩ := hM1 ss t2 hm (by simp at hlen; omega) d i br r2 rb out hd he hrb
    exact ⟨rest, HBrk.mk hS' hM' hr3, hsc⟩

end JPV.Proofs.Sv
