/-
C03 — Every valid RFC 9535 query compiles.

Property text: "Every string that is well-formed under the RFC 9535 ABNF and valid
(well-typed with the built-in functions, integers within the I-JSON range)
compiles without error, whatever optional lexical form it uses: blank space where
the grammar allows it, either quote style, every escape form, shorthand or bracket
notation, any legal number spelling, any non-ASCII member-name shorthand."

`C03_statement` is the property at full strength, in terms of the independent
recogniser `Spec.Grammar` (the ABNF, rule for rule) and the validity rules
`Spec.Valid`.  Proved here: `C03_structural`, the statement for every query
without filter selectors — the whole segment/selector language: child and
descendant segments, shorthand (incl. non-ASCII) and bracket notation, both quote
styles with every escape form, index, slice (every combination of omitted parts)
and wildcard selectors, blank space wherever the grammar allows it — for every
environment (any integer range).  For filter selectors the proved part is the
canonical spelling (`C12_filter_partial`: compile (print q) = q for every valid
AST); arbitrary spellings of filters are decided by the oracle search on the real
code (grammar-directed generation, judged by `Spec.judge`).
-/
import JPV.Spec.Valid
import JPV.Props.C05
import JPV.Props.C13
import JPV.Proofs.CompleteStructural
import JPV.Proofs.Cf.CompleteKw
import JPV.Proofs.Cf.Refute
namespace JPV.Props
open JPV

/-- the property at full strength: what the RFC recogniser and validity rules accept, compile() accepts,
and it builds the derivation's query -/
def C03_statement : Prop :=
  ∀ (env : Impl.Env) (s : Str) (c : List Spec.CSegment),
    Spec.judge (sigsOfEnv env) env.minIdx env.maxIdx s = (.valid, some c) →
    Impl.compile env s = .ok (Spec.abstractSegs c)

/-- proved: the WHOLE language, filters included — blanks wherever the grammar allows them, redundant
parentheses, `!`, both quote styles, every number spelling, nested filters, function calls with the
well-typedness checks — for every environment none of whose registered function names begins with a keyword
literal (`true`, `false`, `null`): `C03_statement` restricted to such environments.  (The restriction
cannot be dropped on the code as it stood when this was proved: `C03_statement_refuted_D33`.) -/
theorem C03_kwfree (env : Impl.Env) (hkw : Proofs.Cf.KwFree env) (s : Str) (c : List Spec.CSegment)
    (hj : Spec.judge (sigsOfEnv env) env.minIdx env.maxIdx s = (.valid, some c)) :
    Impl.compile env s = .ok (Spec.abstractSegs c) :=
  Proofs.compile_complete_kwfree env hkw s c hj

/-- the built-in functions satisfy the restriction -/
theorem C03_builtin (s : Str) (c : List Spec.CSegment)
    (hj : Spec.judge (sigsOfEnv builtinEnv) builtinEnv.minIdx builtinEnv.maxIdx s = (.valid, some c)) :
    Impl.compile builtinEnv s = .ok (Spec.abstractSegs c) :=
  C03_kwfree builtinEnv (Proofs.kwFree_of_b _ (by decide +kernel)) s c hj

/-- proved: the filter-free language, every lexical form -/
theorem C03_structural (env : Impl.Env) (s : Str) (c : List Spec.CSegment)
    (hp : Spec.parseQuery s = .valid c)
    (hff : Spec.filterFree (Spec.abstractSegs c) = true)
    (hr : Spec.intsQuery env.minIdx env.maxIdx (Spec.abstractSegs c) = true) :
    Impl.compile env s = .ok (Spec.abstractSegs c) :=
  Proofs.compile_complete_structural env s c hp hff hr

/-- End to end, from the RFC side (C03 ∘ C05 ∘ C01): for every string the ABNF derives without filter
selectors (integers in the I-JSON range) and every well-formed JSON value within the default depth limit,
compile() succeeds and find() returns exactly the RFC 9535 nodelist of the *derivation* — text in, nodelist
out, with no reference to what the implementation's parser built. -/
theorem C01_end_to_end (s : Str) (c : List Spec.CSegment) (v : Json)
    (hp : Spec.parseQuery s = .valid c)
    (hff : Spec.filterFree (Spec.abstractSegs c) = true)
    (hr : Spec.intsQuery builtinEnv.minIdx builtinEnv.maxIdx (Spec.abstractSegs c) = true)
    (hwf : v.WF) (hd : v.depth ≤ 100) :
    ∃ q, Impl.compile builtinEnv s = .ok q ∧
      Impl.find builtinEnv q v = .ok (Spec.select builtinReg (Spec.abstractSegs c) v) :=
  ⟨_, C03_structural builtinEnv s c hp hff hr,
    compile_then_find s _ v (C03_structural builtinEnv s c hp hff hr) hwf hd⟩

-- the hypotheses are satisfiable by non-trivial strings (blanks, both quotes, escapes, slices, descendant)
example : (match Spec.parseQuery "$ [ 'a\\u00e9' , \"b\" ]..[ 1 : : -2 , * ] .é".toList with
    | .valid c => Spec.filterFree (Spec.abstractSegs c) &&
        Spec.intsQuery (-(2^53) + 1) (2^53 - 1) (Spec.abstractSegs c) && (Spec.abstractSegs c).length == 3
    | _ => false) = true := by decide +kernel

end JPV.Props
