import JPV.Props.Common
import JPV.Proofs.Eval
/-
Helpers for `Proofs/EvalTotal.lean`: evaluation without a depth hypothesis.
Every evaluation function either agrees with the RFC semantics or fails with
`ErrKind.recursion`; failures propagate (they are never swallowed).
-/
namespace JPV.Proofs.ET
open JPV JPV.Props JPV.Proofs

/-! ### Outcomes -/

/-- Outcome of a stream-valued evaluation: all nodes yielded satisfy the node invariant, and
the stream is either the complete RFC nodelist or ends with `recursion`. -/
def Out (mx : Int) (s : Impl.Stream) (L : List Node) : Prop :=
  (∀ n ∈ s.1, Good mx n) ∧ (s = (L, none) ∨ s.2 = some .recursion)

/-- Outcome of an `Except`-valued evaluation: a result satisfying `P`, or `recursion`. -/
def OutE {α : Type} (r : Except Impl.ErrKind α) (P : α → Prop) : Prop :=
  (∃ o, r = .ok o ∧ P o) ∨ r = .error .recursion

theorem oute_bind {α β : Type} {r : Except Impl.ErrKind α} {P : α → Prop}
    {k : α → Except Impl.ErrKind β} {Q : β → Prop}
    (h : OutE r P) (hk : ∀ o, P o → OutE (k o) Q) : OutE (r >>= k) Q := by
  rcases h with ⟨o, rfl, hp⟩ | rfl
  · exact hk o hp
  · exact .inr rfl

theorem oute_pure {α : Type} {Q : α → Prop} {o : α} (h : Q o) :
    OutE (pure o : Except Impl.ErrKind α) Q := .inl ⟨o, rfl, h⟩

theorem oute_ok {α : Type} {Q : α → Prop} {o : α} (h : Q o) :
    OutE (.ok o : Except Impl.ErrKind α) Q := .inl ⟨o, rfl, h⟩

theorem oute_map {α β : Type} {r : Except Impl.ErrKind α} {P : α → Prop} {f : α → β}
    {Q : β → Prop} (h : OutE r P) (hf : ∀ o, P o → Q (f o)) : OutE (r.map f) Q := by
  rcases h with ⟨o, rfl, hp⟩ | rfl
  · exact .inl ⟨f o, rfl, hf o hp⟩
  · exact .inr rfl

theorem oute_mono {α : Type} {r : Except Impl.ErrKind α} {P Q : α → Prop}
    (h : OutE r P) (hpq : ∀ o, P o → Q o) : OutE r Q := by
  rcases h with ⟨o, ho, hp⟩ | h
  · exact .inl ⟨o, ho, hpq o hp⟩
  · exact .inr h

/-! ### Streams -/

theorem out_of_eq {mx : Int} {s : Impl.Stream} {L : List Node} (h : s = (L, none))
    (hg : ∀ n ∈ L, Good mx n) : Out mx s L := by
  subst h
  exact ⟨hg, .inl rfl⟩

theorem good_nil {mx : Int} : ∀ n ∈ ([] : List Node), Good mx n := by
  intro n hn; cases hn

theorem out_nil {mx : Int} : Out mx Impl.Stream.nil [] :=
  ⟨good_nil, .inl rfl⟩

theorem out_single {mx : Int} {j : Json} (h : GoodJ mx j) :
    Out mx ([(⟨[], j⟩ : Node)], none) [⟨[], j⟩] :=
  ⟨good_single h, .inl rfl⟩

theorem Out.good {mx : Int} {s : Impl.Stream} {L : List Node} (h : Out mx s L) :
    ∀ n ∈ s.1, Good mx n := h.1

theorem out_append {mx : Int} {a b : Impl.Stream} {A B : List Node}
    (ha : Out mx a A) (hb : Out mx b B) : Out mx (Impl.Stream.append a b) (A ++ B) := by
  obtain ⟨ga, ha⟩ := ha
  obtain ⟨gb, hb⟩ := hb
  rcases ha with rfl | ha
  · rw [show Impl.Stream.append (A, none) b = (A ++ b.1, b.2) from rfl]
    refine ⟨?_, ?_⟩
    · intro n hn
      rcases List.mem_append.1 hn with h | h
      · exact ga n h
      · exact gb n h
    · rcases hb with rfl | hb
      · exact .inl rfl
      · exact .inr hb
  · rw [Stream.append_of_some b ha]
    exact ⟨ga, .inr rfl⟩

/-- appending a failing stream always gives a failing stream -/
theorem out_append_rec {mx : Int} {a b : Impl.Stream} {A : List Node}
    (ha : Out mx a A) (gb : ∀ n ∈ b.1, Good mx n) (hb : b.2 = some .recursion) (L : List Node) :
    Out mx (Impl.Stream.append a b) L := by
  obtain ⟨ga, ha⟩ := ha
  rcases ha with rfl | ha
  · rw [show Impl.Stream.append (A, none) b = (A ++ b.1, b.2) from rfl]
    refine ⟨?_, .inr hb⟩
    intro n hn
    rcases List.mem_append.1 hn with h | h
    · exact ga n h
    · exact gb n h
  · rw [Stream.append_of_some b ha]
    exact ⟨ga, .inr rfl⟩

theorem out_bindList {mx : Int} (ns : List Node) (f : Node → Impl.Stream) (g : Node → List Node)
    (h : ∀ n ∈ ns, Out mx (f n) (g n)) : Out mx (Impl.Stream.bindList ns f) (ns.flatMap g) := by
  induction ns with
  | nil => exact out_nil
  | cons n rest ih =>
    simp only [Impl.Stream.bindList, List.flatMap_cons]
    exact out_append (h n (by simp)) (ih (fun x hx => h x (by simp [hx])))

theorem out_bind {mx : Int} {s : Impl.Stream} {NS : List Node} {f : Node → Impl.Stream}
    {g : Node → List Node} (hs : Out mx s NS) (h : ∀ n, Good mx n → Out mx (f n) (g n)) :
    Out mx (Impl.Stream.bind s f) (NS.flatMap g) := by
  have hb := out_bindList s.1 f g (fun n hn => h n (hs.1 n hn))
  unfold Impl.Stream.bind
  rcases hs.2 with rfl | he
  · have := out_append hb (out_nil (mx := mx))
    rw [List.append_nil] at this
    exact this
  · exact out_append_rec (b := ([], s.2)) hb good_nil he _

theorem out_cons {mx : Int} {c : Node} {s : Impl.Stream} {L : List Node} (hc : Good mx c)
    (h : Out mx s L) : Out mx (Impl.Stream.cons c s) (c :: L) := by
  obtain ⟨g, h⟩ := h
  refine ⟨?_, ?_⟩
  · intro n hn
    rcases List.mem_cons.1 hn with rfl | hn
    · exact hc
    · exact g n hn
  · rcases h with rfl | h
    · exact .inl rfl
    · exact .inr h

theorem out_filterChildren {mx : Int} (cs : List Node) (test : Json → Except Impl.ErrKind Bool)
    (p : Node → Bool) (hg : ∀ c ∈ cs, Good mx c)
    (h : ∀ c ∈ cs, OutE (test c.val) (fun b => b = p c)) :
    Out mx (Impl.filterChildren cs test) (cs.filter p) := by
  induction cs with
  | nil => exact out_nil
  | cons c rest ih =>
    have ih' := ih (fun x hx => hg x (by simp [hx])) (fun x hx => h x (by simp [hx]))
    rcases h c (by simp) with ⟨b, hb, rfl⟩ | he
    · simp only [Impl.filterChildren, hb]
      cases hp : p c
      · simp only [List.filter_cons, hp]
        exact ih'
      · simp only [List.filter_cons, hp]
        exact out_cons (hg c (by simp)) ih'
    · simp only [Impl.filterChildren, he]
      exact ⟨good_nil, .inr rfl⟩

theorem toList_out {mx : Int} {s : Impl.Stream} {L : List Node} (h : Out mx s L) :
    OutE s.toList (fun ns => ns = L) := by
  rcases h.2 with rfl | he
  · exact .inl ⟨L, rfl, rfl⟩
  · right
    unfold Impl.Stream.toList
    rw [he]

/-! ### `_visit` -/

theorem out_visit {mx : Int} (max : Int) (n : Node) (hn : Good mx n) :
    Out mx (Impl.visit max 1 n.loc n.val)
      ((Spec.descendants n.loc n.val).filter (fun d => d.val.isContainer || d.loc == n.loc)) := by
  refine ⟨?_, ?_⟩
  · intro d hd
    have := (visit_prefix_gen max 1 n.loc n.val).subset hd
    exact descendants_good hn (List.mem_filter.1 this).1
  · rcases visit_err max 1 n.loc n.val with h | h
    · exact .inl (visit_complete_gen max 1 n.loc n.val h)
    · exact .inr h

/-! ### Segments, given the outcome of the selector list on good nodes -/

def SelsOut (env : Impl.Env) (reg : Spec.Registry) (root : Json) (mx : Int) (ss : List Selector) :
    Prop :=
  ∀ n, Good mx n → Out mx (Impl.evalSels env root ss n) (Spec.selectSels reg root ss n)

theorem seg_child_out {env : Impl.Env} {reg : Spec.Registry} {root : Json} {mx : Int}
    {ss : List Selector} (hs : SelsOut env reg root mx ss) {s : Impl.Stream} {NS : List Node}
    (h : Out mx s NS) :
    Out mx (Impl.evalSeg env root (.child ss) s) (Spec.selectSeg reg root (.child ss) NS) := by
  simp only [Impl.evalSeg, Spec.selectSeg]
  exact out_bind h hs

theorem seg_desc_out {env : Impl.Env} {reg : Spec.Registry} {root : Json} {mx : Int}
    {ss : List Selector} (hs : SelsOut env reg root mx ss) {s : Impl.Stream} {NS : List Node}
    (h : Out mx s NS) :
    Out mx (Impl.evalSeg env root (.desc ss) s) (Spec.selectSeg reg root (.desc ss) NS) := by
  simp only [Impl.evalSeg, Spec.selectSeg]
  apply out_bind h
  intro n hn
  have := out_bind (out_visit env.maxDepth n hn) hs
  rw [flatMap_filter_of_nil] at this
  · exact this
  · intro d _ hp
    simp only [Bool.or_eq_false_iff] at hp
    exact spec_sels_scalar reg root ss d hp.1

/-! ### Function calls whose arguments fail -/

theorem call_err {env : Impl.Env} {reg : Spec.Registry} {root cur : Json} {name : Str}
    {args : List Expr} (hc : EnvConforms env reg) {fn : Spec.Fn} (hreg : reg name = some fn)
    (h : Impl.evalArgs env root cur args = .error .recursion) :
    Impl.evalExpr env root cur (.call name args) = .error .recursion := by
  have h' := hc name
  rw [hreg] at h'
  cases hf : env.func name with
  | none => rw [hf] at h'; exact h'.elim
  | some f =>
    simp only [Impl.evalExpr, hf, h]
    rfl

end JPV.Proofs.ET
