/-
`Spec.Valid` — RFC 9535 validity of a *derivation* (`CExpr` keeps parentheses):
§2.4.3 well-typedness of function expressions with the parenthesis-aware
reading of "logical-expr" arguments, plus the integer range rule.  The second
component of each result says the verdict used the disputed reading "a query
written with blank space inside single-selector brackets is still a singular
query" (only relevant for ValueType arguments).
-/
import JPV.Spec.Grammar
import JPV.Spec.Typing
namespace JPV.Spec

def band (a b : Bool × Bool) : Bool × Bool := (a.1 && b.1, a.2 || b.2)
def ok : Bool × Bool := (true, false)
def bad : Bool × Bool := (false, false)
def guard (c : Bool) : Bool × Bool := (c, false)

mutual
/-- `e` is a well-typed logical-expr (a test) -/
def cTest (sg : Sigs) (lo hi : Int) : CExpr → Bool × Bool
  | .lit _ => bad
  | .paren e => cTest sg lo hi e
  | .not e => cTest sg lo hi e
  | .and l r => band (cTest sg lo hi l) (cTest sg lo hi r)
  | .or l r => band (cTest sg lo hi l) (cTest sg lo hi r)
  | .cmp _ l r => band (cComparable sg lo hi l) (cComparable sg lo hi r)
  | .rel q => cSegs sg lo hi q
  | .root q => cSegs sg lo hi q
  | .call f args =>
    match sg f with
    | some s => band (guard (s.ret == .logical || s.ret == .nodes)) (cArgs sg lo hi s.argTypes args)
    | none => bad
/-- `e` is a well-typed comparable / ValueType argument (never parenthesised) -/
def cComparable (sg : Sigs) (lo hi : Int) : CExpr → Bool × Bool
  | .lit v => guard v.isScalar
  | .rel q => band (singularSegs q) (cSegs sg lo hi q)
  | .root q => band (singularSegs q) (cSegs sg lo hi q)
  | .call f args =>
    match sg f with
    | some s => band (guard (s.ret == .value)) (cArgs sg lo hi s.argTypes args)
    | none => bad
  | _ => bad
/-- `e` is a well-typed NodesType argument (never parenthesised) -/
def cNodes (sg : Sigs) (lo hi : Int) : CExpr → Bool × Bool
  | .rel q => cSegs sg lo hi q
  | .root q => cSegs sg lo hi q
  | .call f args =>
    match sg f with
    | some s => band (guard (s.ret == .nodes)) (cArgs sg lo hi s.argTypes args)
    | none => bad
  | _ => bad
def cArgs (sg : Sigs) (lo hi : Int) : List Ty → List CExpr → Bool × Bool
  | [], [] => ok
  | t :: ts, e :: es =>
    band (match t with
      | .value => cComparable sg lo hi e
      | .logical => cTest sg lo hi e
      | .nodes => cNodes sg lo hi e) (cArgs sg lo hi ts es)
  | _, _ => bad
def cSel (sg : Sigs) (lo hi : Int) : CSelector → Bool × Bool
  | .filter e => cTest sg lo hi e
  | .index i => guard (inRange lo hi i)
  | .slice a b c => guard (optInRange lo hi a && optInRange lo hi b && optInRange lo hi c)
  | _ => ok
def cSels (sg : Sigs) (lo hi : Int) : List CSelector → Bool × Bool
  | [] => ok
  | s :: ss => band (cSel sg lo hi s) (cSels sg lo hi ss)
def cSegs (sg : Sigs) (lo hi : Int) : List CSegment → Bool × Bool
  | [] => ok
  | .child sels _ :: rest => band (cSels sg lo hi sels) (cSegs sg lo hi rest)
  | .desc sels :: rest => band (cSels sg lo hi sels) (cSegs sg lo hi rest)
end

inductive Validity where
  | valid | invalid | disputed
deriving DecidableEq, Repr

/-- grammar + validity rules for a whole query text -/
def judge (sg : Sigs) (lo hi : Int) (inp : List Char) : Validity × Option (List CSegment) :=
  match parseQuery inp with
  | .invalid => (.invalid, none)
  | .valid q =>
    let r := cSegs sg lo hi q
    (if !r.1 then .invalid else if r.2 then .disputed else .valid, some q)
  | .disputed q =>
    let r := cSegs sg lo hi q
    (if !r.1 then .invalid else .disputed, some q)

end JPV.Spec
