/-
The inductive step of the parser invariant: every function at `fuel + 1`, given
all of them at `fuel`.
-/
import JPV.Proofs.ParseInv
namespace JPV.Proofs
open JPV JPV.Impl

variable {env : Env} {fuel : Nat}

theorem parseQuery_step (ih : Inv env fuel) (inF : Bool) (acc : List Segment) (hacc : QOK env acc) :
    Post (parseQuery env inF (fuel + 1) acc) (QOK env) := by
  rw [parseQuery]
  pnorm
  psteps
  · pcall ih.selectors with sels hs
    psteps
    exact ih.query _ _ (QOK.snoc_desc hacc hs)
  · pcall ih.selectors with sels hs
    psteps
    exact ih.query _ _ (QOK.snoc_child hacc hs)
  all_goals exact hacc

theorem parseSelectors_step (ih : Inv env fuel) :
    Post (parseSelectors env (fuel + 1)) (SelsOK env) := by
  rw [parseSelectors]
  pnorm
  psteps
  · exact SelsOK.one (by simp [SelOK, Spec.wtSel, Spec.intsSel])
  · exact SelsOK.one (by simp [SelOK, Spec.wtSel, Spec.intsSel])
  · exact ih.bracketed _ _ (SelsOK.nil env)
  · exact SelsOK.nil env

theorem parseBracketed_step (ih : Inv env fuel) (op : Token) (acc : List Selector)
    (hacc : SelsOK env acc) :
    Post (parseBracketed env op (fuel + 1) acc) (SelsOK env) := by
  rw [parseBracketed]
  pnorm
  psteps
  all_goals first
    | exact hacc
    | exact ih.bracketed _ _ (SelsOK.snoc hacc (SelOK.index ‹_›))
    | exact ih.bracketed _ _ (SelsOK.snoc hacc (SelOK.name _ _))
    | exact ih.bracketed _ _ (SelsOK.snoc hacc (SelOK.wild _))
    | (pcall (parseSlice_spec env) with sel hsel
       psteps
       all_goals exact ih.bracketed _ _ (SelsOK.snoc hacc hsel))
    | (pcall ih.filterSel with sel hsel
       psteps
       all_goals exact ih.bracketed _ _ (SelsOK.snoc hacc hsel))

theorem parseFilterSelector_step (ih : Inv env fuel) :
    Post (parseFilterSelector env (fuel + 1)) (SelOK env) := by
  rw [parseFilterSelector]
  pnorm
  pskip
  pcall (ih.filterExpr _) with x hx
  psteps
  all_goals
    refine SelOK.filter hx (built_wtTest hx.1 (by simpa using ‹¬ isLiteral x.e = true›) ?_)
    intro name args f he hf
    simp_all

theorem parseByHandler_step (ih : Inv env fuel) (h : Handler) :
    Post (parseByHandler env h (fuel + 1)) (GoodPx env) := by
  cases h <;> simp only [parseByHandler]
  all_goals first
    | exact ih.grouped
    | exact ih.prefx
    | exact ih.function
    | exact parseLiteral_spec env _
    | (pskip
       pcall (ih.query _ _ (QOK.nil env)) with segs hs
       first
        | exact Post.pure (GoodE.root hs)
        | exact Post.pure (GoodE.rel hs))

theorem parseFilterExpr_step (ih : Inv env fuel) (prec : Nat) :
    Post (parseFilterExpr env prec (fuel + 1)) (GoodPx env) := by
  rw [parseFilterExpr]
  pnorm
  pskip
  split
  · pfail
  · refine Post.bind (Post.tryCatch (ih.byHandler _) ?_) ?_
    · intro e
      psteps
    · intro left hl
      exact ih.loop _ _ hl

theorem filterExprLoop_step (ih : Inv env fuel) (prec : Nat) (left : PExpr) (hl : GoodPx env left) :
    Post (filterExprLoop env prec (fuel + 1) left) (GoodPx env) := by
  rw [filterExprLoop]
  pnorm
  psteps
  · exact hl
  · exact hl
  · pcall (ih.infx _ hl) with l' hl'
    exact ih.loop _ _ hl'

theorem parseInfix_step (ih : Inv env fuel) (left : PExpr) (hl : GoodPx env left) :
    Post (parseInfix env left (fuel + 1)) (GoodPx env) := by
  rw [parseInfix]
  pnorm
  pskip
  pskip
  split
  · pfail
  · pnorm
    pcall (ih.filterExpr _) with right hr
    split
    · pfail
    · pcall (raiseForNonComparable_spec env left _ hl.1) with u1 h1
      pcall (raiseForNonComparable_spec env right _ hr.1) with u2 h2
      exact Post.pure (GoodE.cmp _ hl hr h1 h2)
    · pcall (raiseForUncompared_spec env left hl.1) with u1 h1
      pcall (raiseForUncompared_spec env right hr.1) with u2 h2
      exact Post.pure (GoodE.logical _ hl hr h1 h2)

theorem parsePrefix_step (ih : Inv env fuel) :
    Post (parsePrefix env (fuel + 1)) (GoodPx env) := by
  rw [parsePrefix]
  pnorm
  pskip
  pskip
  split
  · pfail
  · pnorm
    pcall (ih.filterExpr _) with right hr
    pcall (raiseForUncompared_spec env right hr.1) with u1 h1
    exact Post.pure (GoodE.not hr h1)

theorem parseGrouped_step (ih : Inv env fuel) :
    Post (parseGrouped env (fuel + 1)) (GoodPx env) := by
  rw [parseGrouped]
  pnorm
  pskip
  pcall (ih.filterExpr _) with x hx
  pskip
  pcall (ih.gloop _ hx) with y hy
  pskip
  refine Post.bind_triv (fun _ => ?_)
  psteps
  exact hy

theorem groupedLoop_step (ih : Inv env fuel) (x : PExpr) (hx : GoodPx env x) :
    Post (groupedLoop env (fuel + 1) x) (GoodPx env) := by
  rw [groupedLoop]
  pnorm
  psteps
  · exact hx
  · pcall (ih.infx _ hx) with y hy
    exact ih.gloop _ hy

theorem parseFunction_step (ih : Inv env fuel) :
    Post (parseFunction env (fuel + 1)) (GoodPx env) := by
  rw [parseFunction]
  pnorm
  pskip
  pcall (ih.fargs [] [] (ArgsOK.nil env)) with r hr
  obtain ⟨args, parens⟩ := r
  dsimp only at hr ⊢
  split
  · refine Post.bind_triv (fun _ => ?_)
    pcall (validateSignature_spec env _ args (fun a ha => (hr a ha).1)) with u hb
    exact Post.pure (GoodE.call hb hr)
  · pcall (validateSignature_spec env _ args (fun a ha => (hr a ha).1)) with u hb
    exact Post.pure (GoodE.call hb hr)

theorem functionArgs_step (ih : Inv env fuel) (args : List Expr) (parens : List Nat)
    (ha : ArgsOK env args) :
    Post (functionArgs env (fuel + 1) args parens) (fun r => ArgsOK env r.1) := by
  rw [functionArgs]
  pnorm
  pskip
  split
  · exact Post.pure ha
  · pnorm
    split
    · pfail
    · pcall (ih.byHandler _) with x hx
      pcall (ih.argInfix _ hx) with y hy
      psteps
      all_goals exact ih.fargs _ _ (ArgsOK.snoc ha hy)

theorem functionArgInfix_step (ih : Inv env fuel) (x : PExpr) (hx : GoodPx env x) :
    Post (functionArgInfix env (fuel + 1) x) (GoodPx env) := by
  rw [functionArgInfix]
  pnorm
  psteps
  · exact hx
  · pcall (ih.infx _ hx) with y hy
    exact ih.argInfix _ hy

theorem Inv.succ (ih : Inv env fuel) : Inv env (fuel + 1) where
  query := parseQuery_step ih
  selectors := parseSelectors_step ih
  bracketed := parseBracketed_step ih
  filterSel := parseFilterSelector_step ih
  byHandler := parseByHandler_step ih
  filterExpr := parseFilterExpr_step ih
  loop := filterExprLoop_step ih
  infx := parseInfix_step ih
  prefx := parsePrefix_step ih
  grouped := parseGrouped_step ih
  gloop := groupedLoop_step ih
  function := parseFunction_step ih
  fargs := functionArgs_step ih
  argInfix := functionArgInfix_step ih

theorem Inv.all (env : Env) : ∀ fuel, Inv env fuel
  | 0 => Inv.zero env
  | fuel + 1 => (Inv.all env fuel).succ

theorem parseTop_spec (env : Env) (fuel : Nat) : Post (parseTop env fuel) (QOK env) := by
  unfold parseTop
  pnorm
  pskip
  pskip
  pcall ((Inv.all env fuel).query _ _ (QOK.nil env)) with segs hs
  psteps
  exact hs

theorem compile_welltyped' (env : Env) (s : Str) (q : Query) (h : Impl.compile env s = .ok q) :
    QOK env q := by
  unfold Impl.compile at h
  split at h
  · cases h
  · exact (parseTop_spec env _).elim h

end JPV.Proofs
