import JPV.Spec.NonDet
import JPV.Proofs.NonDetEval
/-
Membership lemmas for the enumerators of `Spec.NonDet` (`picks`, `perms`, `product`, `orders`),
and the inductive characterisation `Ord` of the visit orders `orders` enumerates.
-/
namespace JPV.Proofs.Ndp
open JPV JPV.Spec.ND

/-! ### picks / perms / product -/

theorem mem_picks {α} (x : α) : ∀ (a b : List α), (x, a ++ b) ∈ picks (a ++ x :: b) := by
  intro a
  induction a with
  | nil => intro b; simp [picks]
  | cons y a ih =>
    intro b
    simp only [List.cons_append, picks, List.mem_cons, List.mem_map]
    exact Or.inr ⟨(x, a ++ b), ih b, rfl⟩

theorem permsAux_cons {α} (n : Nat) (x : α) (xs : List α) :
    permsAux (n + 1) (x :: xs) =
      (picks (x :: xs)).flatMap (fun p => (permsAux n p.2).map (fun r => p.1 :: r)) := by
  rw [permsAux]
  intro h; cases h

theorem mem_permsAux {α} : ∀ (n : Nat) (xs ys : List α), ys.Perm xs → xs.length ≤ n →
    ys ∈ permsAux n xs := by
  intro n
  induction n with
  | zero =>
    intro xs ys hp hl
    have hx : xs = [] := List.eq_nil_of_length_eq_zero (by omega)
    subst hx
    have := hp.eq_nil
    subst this
    simp [permsAux]
  | succ n ih =>
    intro xs ys hp hl
    cases ys with
    | nil =>
      have := hp.symm.eq_nil
      subst this
      simp [permsAux]
    | cons y ys =>
      have hy : y ∈ xs := hp.subset List.mem_cons_self
      obtain ⟨a, b, rfl⟩ := List.append_of_mem hy
      have hp' : ys.Perm (a ++ b) := (hp.trans List.perm_middle).cons_inv
      have hlen : (a ++ b).length ≤ n := by
        simp only [List.length_append, List.length_cons] at hl ⊢; omega
      have h1 := ih (a ++ b) ys hp' hlen
      have h2 := mem_picks y a b
      cases hab : a ++ y :: b with
      | nil => simp at hab
      | cons z zs =>
        rw [permsAux_cons, ← hab]
        exact List.mem_flatMap.2 ⟨(y, a ++ b), h2, List.mem_map.2 ⟨ys, h1, rfl⟩⟩

theorem mem_perms_of_perm {α} {xs ys : List α} (h : ys.Perm xs) : ys ∈ perms xs :=
  mem_permsAux _ _ _ h (Nat.le_refl _)

theorem mem_product_cons {α} {alts : List (List α)} {rest : List (List (List α))} {a r : List α}
    (ha : a ∈ alts) (hr : r ∈ product rest) : a ++ r ∈ product (alts :: rest) := by
  simp only [product]
  exact List.mem_flatMap.2 ⟨a, ha, List.mem_map.2 ⟨r, hr, rfl⟩⟩

theorem mem_product_nil {α} : ([] : List α) ∈ product ([] : List (List (List α))) := by
  simp [product]

theorem mem_product_single {α} {alts : List (List α)} {a : List α} (ha : a ∈ alts) :
    a ∈ product [alts] := by
  have := mem_product_cons ha (mem_product_nil (α := α))
  simpa using this

theorem mem_product_append {α} : ∀ (l1 l2 : List (List (List α))) (a b : List α),
    a ∈ product l1 → b ∈ product l2 → a ++ b ∈ product (l1 ++ l2) := by
  intro l1
  induction l1 with
  | nil =>
    intro l2 a b ha hb
    simp only [product, List.mem_singleton] at ha
    subst ha
    simpa using hb
  | cons alts rest ih =>
    intro l2 a b ha hb
    simp only [product, List.mem_flatMap, List.mem_map] at ha
    obtain ⟨x, hx, r, hr, rfl⟩ := ha
    rw [List.append_assoc, List.cons_append]
    exact mem_product_cons hx (ih l2 r b hr hb)

/-! ### visit orders -/

/-- the item for the rest of an array chain -/
def chainItem : List Node → List Item
  | [] => []
  | s :: ss => [⟨s, ss⟩]

/-- the items that become available once `it` has been visited -/
def nextItems (it : Item) : List Item := chainItem it.later ++ childItems it.node

/-- `Ord fr ns`: `ns` is a complete visit order from the frontier `fr` -/
inductive Ord : List Item → List Node → Prop
  | nil : Ord [] []
  | step (fr a b : List Item) (it : Item) (ns : List Node) :
      fr = a ++ it :: b → Ord (a ++ b ++ nextItems it) ns → Ord fr (it.node :: ns)

theorem orders_cons (fuel : Nat) (i : Item) (fr : List Item) :
    orders (fuel + 1) (i :: fr) =
      (picks (i :: fr)).flatMap (fun p =>
        (orders fuel (p.2 ++ nextItems p.1)).map (fun r => p.1.node :: r)) := by
  rw [orders]
  · rfl
  · intro h; cases h

theorem Ord.mem_orders {fr : List Item} {ns : List Node} (h : Ord fr ns) :
    ∀ fuel, ns.length < fuel → ns ∈ orders fuel fr := by
  induction h with
  | nil =>
    intro fuel hf
    cases fuel with
    | zero => omega
    | succ fuel => simp [orders]
  | step fr a b it ns hfr _ ih =>
    intro fuel hf
    cases fuel with
    | zero => omega
    | succ fuel =>
      simp only [List.length_cons] at hf
      have h1 := ih fuel (by omega)
      subst hfr
      cases hab : a ++ it :: b with
      | nil => simp at hab
      | cons z zs =>
        rw [orders_cons, ← hab]
        exact List.mem_flatMap.2 ⟨(it, a ++ b), mem_picks it a b, List.mem_map.2 ⟨ns, h1, rfl⟩⟩

theorem Ord.perm {fr : List Item} {ns : List Node} (h : Ord fr ns) :
    ∀ fr', fr.Perm fr' → Ord fr' ns := by
  induction h with
  | nil =>
    intro fr' hp
    have := hp.symm.eq_nil
    subst this
    exact .nil
  | step fr a b it ns hfr _ ih =>
    intro fr' hp
    subst hfr
    have hi : it ∈ fr' := hp.subset (by simp)
    obtain ⟨a', b', rfl⟩ := List.append_of_mem hi
    have hp' : (a ++ b).Perm (a' ++ b') :=
      ((List.perm_middle.symm.trans hp).trans List.perm_middle).cons_inv
    exact .step _ a' b' it ns rfl (ih _ (hp'.append_right _))

/-- number of nodes at or below a frontier -/
def nsize (l : List Node) : Nat := (l.map (fun c => c.val.size)).sum

def fsize (fr : List Item) : Nat := (fr.map (fun it => it.node.val.size + nsize it.later)).sum

theorem fsize_append (a b : List Item) : fsize (a ++ b) = fsize a + fsize b := by
  simp [fsize]

theorem fsize_cons (it : Item) (b : List Item) :
    fsize (it :: b) = it.node.val.size + nsize it.later + fsize b := by
  simp [fsize]

theorem fsize_chainItem (l : List Node) : fsize (chainItem l) = nsize l := by
  cases l with
  | nil => rfl
  | cons s ss => simp [chainItem, fsize, nsize]

theorem childItems_arr (n : Node) (xs : List Json) (h : n.val = .arr xs) :
    childItems n = chainItem (Spec.arrChildren n xs) := by
  unfold childItems
  rw [h]
  simp only
  cases Spec.arrChildren n xs <;> rfl

theorem childItems_obj (n : Node) (kvs : List (Str × Json)) (h : n.val = .obj kvs) :
    childItems n = (Spec.children n).map (fun c => ⟨c, []⟩) := by
  unfold childItems Spec.children
  rw [h]
  simp [List.map_map, Function.comp_def]

theorem fsize_singletons (l : List Node) : fsize (l.map (fun c => (⟨c, []⟩ : Item))) = nsize l := by
  simp [fsize, nsize, List.map_map, Function.comp_def]

theorem fsize_childItems (n : Node) : fsize (childItems n) = nsize (Spec.children n) := by
  cases hv : n.val with
  | arr xs =>
    rw [childItems_arr n xs hv, fsize_chainItem]
    simp [Spec.children, hv]
  | obj kvs =>
    rw [childItems_obj n kvs hv, fsize_singletons]
  | _ => simp [childItems, Spec.children, hv, fsize, nsize]

theorem Ord.length {fr : List Item} {ns : List Node} (h : Ord fr ns) : ns.length = fsize fr := by
  induction h with
  | nil => rfl
  | step fr a b it ns hfr _ ih =>
    subst hfr
    have hs := NDp.size_children it.node
    simp only [fsize_append, fsize_cons, nextItems, fsize_chainItem, fsize_childItems] at ih ⊢
    simp only [List.length_cons, ih]
    unfold nsize
    omega

theorem mem_visitOrders {n : Node} {ns : List Node} (h : Ord (childItems n) ns) :
    n :: ns ∈ visitOrders n := by
  have hl := h.length
  rw [fsize_childItems] at hl
  have hs := NDp.size_children n
  unfold nsize at hl
  exact List.mem_map.2 ⟨ns, h.mem_orders _ (by omega), rfl⟩

end JPV.Proofs.Ndp
