/-
`Proofs.Pc.Ok` — what the RFC 9535 recogniser's derivation of the ORIGINAL string says about the compiled
query (`DOkQ`): every segment has a selector, function names are spelled as the grammar spells them,
literals are scalars and every integer literal lies in the image of `int ∘ float` (so that its decimal
spelling reads back).  Together with the round-trip hypothesis on the float literals this gives `OkQ`.
-/
import JPV.Proofs.Cf.GramInv
import JPV.Proofs.Cf.GramFollow
import JPV.Proofs.Pc.Print
namespace JPV.Proofs.Pc
open JPV JPV.Impl JPV.Proofs.Cf JPV.Proofs.Pf

/-- a literal the grammar can denote -/
def DLit : Json → Prop
  | .num x => x.flt = true ∨ Spec.numberValue (Py.reprInt x.n) = some x
  | .arr _ => False
  | .obj _ => False
  | _ => True

mutual
def DOkE : Expr → Prop
  | .lit v => DLit v
  | .not e => DOkE e
  | .logical _ l r => DOkE l ∧ DOkE r
  | .cmp _ l r => DOkE l ∧ DOkE r
  | .rel q => DOkQ q
  | .root q => DOkQ q
  | .call f args => nameOK f = true ∧ DOkArgs args
def DOkArgs : List Expr → Prop
  | [] => True
  | a :: as => DOkE a ∧ DOkArgs as
def DOkSel : Selector → Prop
  | .filter e => DOkE e
  | _ => True
def DOkSels : List Selector → Prop
  | [] => True
  | s :: ss => DOkSel s ∧ DOkSels ss
def DOkQ : List Segment → Prop
  | [] => True
  | .child sels :: rest => sels ≠ [] ∧ DOkSels sels ∧ DOkQ rest
  | .desc sels :: rest => sels ≠ [] ∧ DOkSels sels ∧ DOkQ rest
end

theorem dokQ_cons (s : Spec.CSegment) (ss : List Spec.CSegment) (h1 : DOkQ (Spec.abstractSegs [s]))
    (h2 : DOkQ (Spec.abstractSegs ss)) : DOkQ (Spec.abstractSegs (s :: ss)) := by
  cases s with
  | child sels fl =>
    simp only [Spec.abstractSegs, DOkQ, and_true] at h1 ⊢
    exact ⟨h1.1, h1.2, h2⟩
  | desc sels =>
    simp only [Spec.abstractSegs, DOkQ, and_true] at h1 ⊢
    exact ⟨h1.1, h1.2, h2⟩

theorem dokQ_child {sels : List Spec.CSelector} {fl : Bool} (h : sels ≠ [] ∧ DOkSels (Spec.abstractSels sels)) :
    DOkQ (Spec.abstractSegs [.child sels fl]) := by
  simp only [Spec.abstractSegs, DOkQ, and_true]
  refine ⟨?_, h.2⟩
  cases sels with
  | nil => exact absurd rfl h.1
  | cons s ss => simp [Spec.abstractSels]

theorem dokQ_desc {sels : List Spec.CSelector} (h : sels ≠ [] ∧ DOkSels (Spec.abstractSels sels)) :
    DOkQ (Spec.abstractSegs [.desc sels]) := by
  simp only [Spec.abstractSegs, DOkQ, and_true]
  refine ⟨?_, h.2⟩
  cases sels with
  | nil => exact absurd rfl h.1
  | cons s ss => simp [Spec.abstractSels]

theorem nameOK_of_functionName {inp t : List Char} {name : Str}
    (h : Spec.functionName inp = some (name, '(' :: t)) : nameOK name = true := by
  obtain ⟨-, c, rest, rfl, hc, hr⟩ := Cf.functionName_inv h
  simp only [nameOK, Bool.and_eq_true, List.all_eq_true]
  exact ⟨hc, hr⟩

theorem dlit_of_literal {inp r : List Char} {v : Json} (h : Spec.literal inp = some (v, r)) : DLit v := by
  cases literal_inv h with
  | str s _ e => subst e; trivial
  | true_ _ e => subst e; trivial
  | false_ _ e => subst e; trivial
  | null _ e => subst e; trivial
  | num sp x _ hv e =>
    subst e
    show x.flt = true ∨ _
    cases hx : x.flt with
    | true => exact .inl rfl
    | false => exact .inr (numberValue_int hv hx)

/-- the invariant, for every function of the recogniser at one fuel -/
structure DAll (F : Nat) : Prop where
  segments : ∀ inp c r, Spec.segments F inp = some (c, r) → DOkQ (Spec.abstractSegs c)
  segment : ∀ inp s r, Spec.segment F inp = some (s, r) → DOkQ (Spec.abstractSegs [s])
  bracketed : ∀ inp ss fl r, Spec.bracketed F inp = some (ss, fl, r) →
    ss ≠ [] ∧ DOkSels (Spec.abstractSels ss)
  moreSelectors : ∀ inp ss r, Spec.moreSelectors F inp = some (ss, r) → DOkSels (Spec.abstractSels ss)
  selector : ∀ inp s r, Spec.selector F inp = some (s, r) → DOkSel (Spec.abstractSel s)
  logicalOr : ∀ inp e r, Spec.logicalOr F inp = some (e, r) → DOkE (Spec.abstractExpr e)
  logicalAnd : ∀ inp e r, Spec.logicalAnd F inp = some (e, r) → DOkE (Spec.abstractExpr e)
  basic : ∀ inp e r, Spec.basic F inp = some (e, r) → DOkE (Spec.abstractExpr e)
  parenExpr : ∀ inp e r, Spec.parenExpr F inp = some (e, r) → DOkE (Spec.abstractExpr e)
  term : ∀ inp e r, Spec.term F inp = some (e, r) → DOkE (Spec.abstractExpr e)
  argument : ∀ inp e r, Spec.argument F inp = some (e, r) → DOkE (Spec.abstractExpr e)
  moreArgs : ∀ inp as r, Spec.moreArgs F inp = some (as, r) → DOkArgs (Spec.abstractArgs as)

theorem dall_zero : DAll 0 := by
  refine ⟨?_, ?_, ?_, ?_, ?_, ?_, ?_, ?_, ?_, ?_, ?_, ?_⟩
  · intro inp c r h; rw [Spec.segments] at h; cases h
  · intro inp c r h; rw [Spec.segment] at h; cases h
  · intro inp c fl r h; rw [Spec.bracketed] at h; cases h
  · intro inp c r h; rw [Spec.moreSelectors] at h; cases h
  · intro inp c r h; rw [Spec.selector] at h; cases h
  · intro inp c r h; rw [Spec.logicalOr] at h; cases h
  · intro inp c r h; rw [Spec.logicalAnd] at h; cases h
  · intro inp c r h; rw [Spec.basic] at h; cases h
  · intro inp c r h; rw [Spec.parenExpr] at h; cases h
  · intro inp c r h; rw [Spec.term] at h; cases h
  · intro inp c r h; rw [Spec.argument] at h; cases h
  · intro inp c r h; rw [Spec.moreArgs] at h; cases h

theorem dall_succ (F : Nat) (ih : DAll F) : DAll (F + 1) := by
  refine ⟨?_, ?_, ?_, ?_, ?_, ?_, ?_, ?_, ?_, ?_, ?_, ?_⟩
  · -- segments
    intro inp c r h
    rcases segments_inv h with ⟨-, rfl, -⟩ | ⟨seg, r1, segs', h1, h2, rfl⟩
    · simp [Spec.abstractSegs, DOkQ]
    · exact dokQ_cons _ _ (ih.segment _ _ _ h1) (ih.segments _ _ _ h2)
  · -- segment
    intro inp s r h
    cases segment_inv h with
    | descWild _ e => subst e; simp [Spec.abstractSegs, Spec.abstractSels, Spec.abstractSel, DOkQ, DOkSels, DOkSel]
    | descBrack t sels fl _ hb e => subst e; exact dokQ_desc (ih.bracketed _ _ _ _ hb)
    | descName c t n _ _ _ _ e =>
      subst e; simp [Spec.abstractSegs, Spec.abstractSels, Spec.abstractSel, DOkQ, DOkSels, DOkSel]
    | dotWild _ e => subst e; simp [Spec.abstractSegs, Spec.abstractSels, Spec.abstractSel, DOkQ, DOkSels, DOkSel]
    | dotName c t n _ _ _ _ e =>
      subst e; simp [Spec.abstractSegs, Spec.abstractSels, Spec.abstractSel, DOkQ, DOkSels, DOkSel]
    | brack t sels fl _ hb e => subst e; exact dokQ_child (ih.bracketed _ _ _ _ hb)
  · -- bracketed
    intro inp ss fl r h
    obtain ⟨t, s, r2, ss', r3, -, hs, hm, -, rfl⟩ := bracketed_inv h
    refine ⟨by simp, ?_⟩
    simp only [Spec.abstractSels, DOkSels]
    exact ⟨ih.selector _ _ _ hs, ih.moreSelectors _ _ _ hm⟩
  · -- moreSelectors
    intro inp ss r h
    rcases moreSelectors_inv h with ⟨-, rfl, -⟩ | ⟨u, s, r2, ss', -, hs, hm, rfl⟩
    · simp [Spec.abstractSels, DOkSels]
    · simp only [Spec.abstractSels, DOkSels]
      exact ⟨ih.selector _ _ _ hs, ih.moreSelectors _ _ _ hm⟩
  · -- selector
    intro inp s r h
    cases inp with
    | nil => rw [selector_nil] at h; cases h
    | cons c t =>
      by_cases hc : c = '?'
      · subst hc
        obtain ⟨e, he, rfl⟩ := selector_filter_inv h
        simp only [Spec.abstractSel, DOkSel]
        exact ih.logicalOr _ _ _ he
      · have := selector_plain hc h
        cases s with
        | filter e => simp [Cs.ffSel] at this
        | name _ => simp [Spec.abstractSel, DOkSel]
        | index _ => simp [Spec.abstractSel, DOkSel]
        | slice _ _ _ => simp [Spec.abstractSel, DOkSel]
        | wild => simp [Spec.abstractSel, DOkSel]
  · -- logicalOr
    intro inp e r h
    obtain ⟨l, r1, h1, h2⟩ := logicalOr_inv h
    rcases h2 with ⟨-, rfl, -⟩ | ⟨r2, x, -, h3, rfl⟩
    · exact ih.logicalAnd _ _ _ h1
    · simp only [Spec.abstractExpr, DOkE]
      exact ⟨ih.logicalAnd _ _ _ h1, ih.logicalOr _ _ _ h3⟩
  · -- logicalAnd
    intro inp e r h
    obtain ⟨l, r1, h1, h2⟩ := logicalAnd_inv h
    rcases h2 with ⟨-, rfl, -⟩ | ⟨r2, x, -, h3, rfl⟩
    · exact ih.basic _ _ _ h1
    · simp only [Spec.abstractExpr, DOkE]
      exact ⟨ih.basic _ _ _ h1, ih.logicalAnd _ _ _ h3⟩
  · -- basic
    intro inp e r h
    cases basic_inv h with
    | notParen t t2 e' _ _ _ hp he =>
      subst he
      simp only [Spec.abstractExpr, DOkE]
      exact ih.parenExpr _ _ _ hp
    | notTerm t e' _ _ _ ht _ he =>
      subst he
      simp only [Spec.abstractExpr, DOkE]
      exact ih.term _ _ _ ht
    | paren t _ hp => exact ih.parenExpr _ _ _ hp
    | cmp c t l rhs r1 r2 op _ _ _ h1 _ h2 he =>
      subst he
      simp only [Spec.abstractExpr, DOkE]
      exact ⟨ih.term _ _ _ h1, ih.term _ _ _ h2⟩
    | test c t _ _ _ ht _ _ => exact ih.term _ _ _ ht
  · -- parenExpr
    intro inp e r h
    obtain ⟨t, e', r2, -, h1, -, rfl⟩ := parenExpr_inv h
    simp only [Spec.abstractExpr]
    exact ih.logicalOr _ _ _ h1
  · -- term
    intro inp e r h
    cases term_inv h with
    | rel t segs _ hs he =>
      subst he
      simp only [Spec.abstractExpr, DOkE]
      exact ih.segments _ _ _ hs
    | root t segs _ hs he =>
      subst he
      simp only [Spec.abstractExpr, DOkE]
      exact ih.segments _ _ _ hs
    | call0 name t hf _ he =>
      subst he
      simp only [Spec.abstractExpr, Spec.abstractArgs, DOkE, DOkArgs, and_true]
      exact nameOK_of_functionName hf
    | call name t a as r2 r3 hf _ ha hm _ he =>
      subst he
      simp only [Spec.abstractExpr, Spec.abstractArgs, DOkE, DOkArgs]
      exact ⟨nameOK_of_functionName hf, ih.argument _ _ _ ha, ih.moreArgs _ _ _ hm⟩
    | lit c t v _ _ _ hl he =>
      subst he
      simp only [Spec.abstractExpr, DOkE]
      exact dlit_of_literal hl
  · -- argument
    intro inp e r h
    rcases argument_inv h with ⟨v, hl, rfl, -⟩ | h1
    · simp only [Spec.abstractExpr, DOkE]
      exact dlit_of_literal hl
    · exact ih.logicalOr _ _ _ h1
  · -- moreArgs
    intro inp as r h
    rcases moreArgs_inv h with ⟨-, rfl, -⟩ | ⟨u, a, r2, as', -, ha, hm, rfl⟩
    · simp [Spec.abstractArgs, DOkArgs]
    · simp only [Spec.abstractArgs, DOkArgs]
      exact ⟨ih.argument _ _ _ ha, ih.moreArgs _ _ _ hm⟩

theorem dall : ∀ F, DAll F
  | 0 => dall_zero
  | F + 1 => dall_succ F (dall F)

/-- what a derivation says about its abstraction -/
theorem dok_of_segments {F : Nat} {inp r : List Char} {c : List Spec.CSegment}
    (h : Spec.segments F inp = some (c, r)) : DOkQ (Spec.abstractSegs c) :=
  (dall F).segments _ _ _ h

/-! ### float literals -/

mutual
/-- the float literals of a query (copy of `Proofs.floatsExpr`) -/
def floatsExpr : Expr → List Num
  | .lit (.num x) => if x.flt then [x] else []
  | .lit _ => []
  | .not e => floatsExpr e
  | .logical _ l r => floatsExpr l ++ floatsExpr r
  | .cmp _ l r => floatsExpr l ++ floatsExpr r
  | .rel q => floatsSegs q
  | .root q => floatsSegs q
  | .call _ args => floatsArgs args
def floatsArgs : List Expr → List Num
  | [] => []
  | a :: as => floatsExpr a ++ floatsArgs as
def floatsSel : Selector → List Num
  | .filter e => floatsExpr e
  | _ => []
def floatsSels : List Selector → List Num
  | [] => []
  | s :: ss => floatsSel s ++ floatsSels ss
def floatsSegs : List Segment → List Num
  | [] => []
  | .child sels :: rest => floatsSels sels ++ floatsSegs rest
  | .desc sels :: rest => floatsSels sels ++ floatsSegs rest
end

theorem litOK_of (v : Json) (hd : DLit v) (hf : ∀ x ∈ floatsExpr (.lit v), FloatRT x) : LitOK v := by
  cases v with
  | num x =>
    show NumOK x
    unfold NumOK
    cases hx : x.flt with
    | true =>
      simp only [if_true]
      exact hf x (by simp [floatsExpr, hx])
    | false =>
      simp only [Bool.false_eq_true, if_false]
      rcases hd with hd | hd
      · rw [hx] at hd; cases hd
      · exact hd
  | arr _ => exact hd.elim
  | obj _ => exact hd.elim
  | str _ => trivial
  | bool _ => trivial
  | null => trivial

mutual
theorem okE_of : (e : Expr) → DOkE e → (∀ x ∈ floatsExpr e, FloatRT x) → OkE e
  | .lit v, hd, hf => by rw [DOkE] at hd; rw [OkE]; exact litOK_of v hd hf
  | .not e, hd, hf => by
    rw [DOkE] at hd; rw [OkE]
    exact okE_of e hd (fun x hx => hf x (by rw [floatsExpr]; exact hx))
  | .logical op l r, hd, hf => by
    rw [DOkE] at hd; rw [OkE]
    exact ⟨okE_of l hd.1 (fun x hx => hf x (by rw [floatsExpr]; exact List.mem_append_left _ hx)),
      okE_of r hd.2 (fun x hx => hf x (by rw [floatsExpr]; exact List.mem_append_right _ hx))⟩
  | .cmp op l r, hd, hf => by
    rw [DOkE] at hd; rw [OkE]
    exact ⟨okE_of l hd.1 (fun x hx => hf x (by rw [floatsExpr]; exact List.mem_append_left _ hx)),
      okE_of r hd.2 (fun x hx => hf x (by rw [floatsExpr]; exact List.mem_append_right _ hx))⟩
  | .rel q, hd, hf => by
    rw [DOkE] at hd; rw [OkE]
    exact okQ_of q hd (fun x hx => hf x (by rw [floatsExpr]; exact hx))
  | .root q, hd, hf => by
    rw [DOkE] at hd; rw [OkE]
    exact okQ_of q hd (fun x hx => hf x (by rw [floatsExpr]; exact hx))
  | .call f args, hd, hf => by
    rw [DOkE] at hd; rw [OkE]
    exact ⟨hd.1, okArgs_of args hd.2 (fun x hx => hf x (by rw [floatsExpr]; exact hx))⟩
theorem okArgs_of : (as : List Expr) → DOkArgs as → (∀ x ∈ floatsArgs as, FloatRT x) → OkArgs as
  | [], _, _ => by rw [OkArgs]; trivial
  | a :: as, hd, hf => by
    rw [DOkArgs] at hd; rw [OkArgs]
    exact ⟨okE_of a hd.1 (fun x hx => hf x (by rw [floatsArgs]; exact List.mem_append_left _ hx)),
      okArgs_of as hd.2 (fun x hx => hf x (by rw [floatsArgs]; exact List.mem_append_right _ hx))⟩
theorem okSel_of : (s : Selector) → DOkSel s → (∀ x ∈ floatsSel s, FloatRT x) → OkSel s
  | .filter e, hd, hf => by
    rw [DOkSel] at hd; rw [OkSel]
    exact okE_of e hd (fun x hx => hf x (by rw [floatsSel]; exact hx))
  | .name _, _, _ => by simp [OkSel]
  | .index _, _, _ => by simp [OkSel]
  | .slice _ _ _, _, _ => by simp [OkSel]
  | .wild, _, _ => by simp [OkSel]
theorem okSels_of : (ss : List Selector) → DOkSels ss → (∀ x ∈ floatsSels ss, FloatRT x) → OkSels ss
  | [], _, _ => by rw [OkSels]; trivial
  | s :: ss, hd, hf => by
    rw [DOkSels] at hd; rw [OkSels]
    exact ⟨okSel_of s hd.1 (fun x hx => hf x (by rw [floatsSels]; exact List.mem_append_left _ hx)),
      okSels_of ss hd.2 (fun x hx => hf x (by rw [floatsSels]; exact List.mem_append_right _ hx))⟩
theorem okQ_of : (q : List Segment) → DOkQ q → (∀ x ∈ floatsSegs q, FloatRT x) → OkQ q
  | [], _, _ => by rw [OkQ]; trivial
  | .child sels :: rest, hd, hf => by
    rw [DOkQ] at hd; rw [OkQ]
    exact ⟨hd.1, okSels_of sels hd.2.1 (fun x hx => hf x (by rw [floatsSegs]; exact List.mem_append_left _ hx)),
      okQ_of rest hd.2.2 (fun x hx => hf x (by rw [floatsSegs]; exact List.mem_append_right _ hx))⟩
  | .desc sels :: rest, hd, hf => by
    rw [DOkQ] at hd; rw [OkQ]
    exact ⟨hd.1, okSels_of sels hd.2.1 (fun x hx => hf x (by rw [floatsSegs]; exact List.mem_append_left _ hx)),
      okQ_of rest hd.2.2 (fun x hx => hf x (by rw [floatsSegs]; exact List.mem_append_right _ hx))⟩
end

end JPV.Proofs.Pc
