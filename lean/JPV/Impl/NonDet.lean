/-
`Impl.NonDet` — evaluation with `env.nondeterministic = True`
(segments.py `_nondeterministic_visit`, `_nondeterministic_children`, and the
shuffling branches of `WildcardSelector.resolve` / `FilterSelector.resolve`), as
a function of an explicit *choice script*: every call into `random` consumes the
next entry of the script.

Reading of `random` (trusted base, DESIGN §6):
  * `random.shuffle(items)`            — any permutation of `items` (`Choice.perm`);
  * `random.choice([True, False])`     — a bit (`Choice.coin`);
  * `random.sample([iter(queue)] * len(queue) + [iter(gc)] * len(gc), len(queue) + len(gc))`
    followed by `next(n)` on each    — any interleaving of `queue` and `gc` that keeps
    the order inside each (`Choice.merge`, `true` = take the next queue element).
A shuffle of fewer than two items and a merge with an empty side consume
nothing (only one outcome); the harness's scripted `random` does the same.
A missing or ill-formed entry means "identity permutation / False / queue first".

Generators are lazy, so the *order* in which the pipeline's stages call `random`
is demand-driven: a node yielded by one segment is pushed through all later
segments before the segment resumes.  The model therefore evaluates depth-first
with continuations.
-/
import JPV.Impl.Eval
namespace JPV.Impl.ND

inductive Choice where
  | perm (p : List Nat)
  | coin (b : Bool)
  | merge (bs : List Bool)
deriving Repr, Inhabited

abbrev Script := List Choice

def isPerm (p : List Nat) (n : Nat) : Bool :=
  p.length == n && (List.range n).all (fun i => p.contains i)

/-- `random.shuffle(xs)` -/
def shuffle {α} (xs : List α) (s : Script) : List α × Script :=
  if xs.length < 2 then (xs, s) else
  match s with
  | .perm p :: rest => if isPerm p xs.length then (p.filterMap (fun i => xs[i]?), rest) else (xs, rest)
  | _ :: rest => (xs, rest)
  | [] => (xs, [])

/-- `random.choice([True, False])` -/
def coin (s : Script) : Bool × Script :=
  match s with
  | .coin b :: rest => (b, rest)
  | _ :: rest => (false, rest)
  | [] => (false, [])

/-- interleave by a bit pattern (`true` = from `a`), remaining elements in order -/
def interleave {α} : List Bool → List α → List α → List α
  | _, [], b => b
  | _, a, [] => a
  | [], a, b => a ++ b
  | true :: bs, x :: a, b => x :: interleave bs a b
  | false :: bs, a, y :: b => y :: interleave bs a b

/-- the `random.sample` interleaving of the queue with the grandchildren -/
def mergeQ {α} (q g : List α) (s : Script) : List α × Script :=
  if q.isEmpty || g.isEmpty then (q ++ g, s) else
  match s with
  | .merge bs :: rest => (interleave bs q g, rest)
  | _ :: rest => (q ++ g, rest)
  | [] => (q ++ g, [])

/-- `_nondeterministic_children(node)` -/
def ndChildren (n : Node) (s : Script) : List Node × Script :=
  match n.val with
  | .obj kvs => let (m, s') := shuffle kvs s; (objChildren n m, s')
  | .arr xs => (arrChildren n xs, s)
  | _ => ([], s)

/-- the members a wildcard / filter selector iterates over in nondeterministic mode -/
def ndMembers (n : Node) (s : Script) : List Node × Script := ndChildren n s

/-- result of a pipeline stage: nodes produced (in order), the exception that ended it, the script left -/
structure Out where
  nodes : List Node
  err : Option ErrKind
  script : Script

def Out.ok (s : Script) : Out := ⟨[], none, s⟩

/-- run `k` on each node in turn, threading the script, stopping at the first exception -/
def forEach (ns : List Node) (s : Script) (k : Node → Script → Out) : Out :=
  match ns with
  | [] => Out.ok s
  | n :: rest =>
    let r := k n s
    match r.err with
    | some e => ⟨r.nodes, some e, r.script⟩
    | none =>
      let r2 := forEach rest r.script k
      ⟨r.nodes ++ r2.nodes, r2.err, r2.script⟩

def isDeep (max : Int) (n : Node) (depth : Nat) : Bool := decide ((depth : Int) ≥ max) && n.val.isContainer

/-- the `for child in _nondeterministic_children(node)` loop body of `_nondeterministic_visit`
when `visit_children` is true: yields the child (through `k`), then merges its children into the queue -/
def visitChildrenNow (max : Int) (depth : Nat) (k : Node → Script → Out) :
    List Node → List (Node × Nat) → Script → List Node → (List (Node × Nat) × Out)
  | [], queue, s, acc => (queue, ⟨acc, none, s⟩)
  | c :: cs, queue, s, acc =>
    if isDeep max c (depth + 1) then (queue, ⟨acc, some .recursion, s⟩) else
    let r := k c s
    match r.err with
    | some e => (queue, ⟨acc ++ r.nodes, some e, r.script⟩)
    | none =>
      let (gcs, s2) := ndChildren c r.script
      let (queue', s3) := mergeQ queue (gcs.map (fun g => (g, depth + 2))) s2
      visitChildrenNow max depth k cs queue' s3 (acc ++ r.nodes)

/-- the `while queue` loop of `_nondeterministic_visit`; `fuel` bounds the number of pops
(the number of nodes of the tree suffices) -/
def visitLoop (max : Int) (k : Node → Script → Out) : Nat → List (Node × Nat) → Script → List Node → Out
  | 0, _, s, acc => ⟨acc, some .fuel, s⟩
  | _ + 1, [], s, acc => ⟨acc, none, s⟩
  | fuel + 1, (node, depth) :: queue, s, acc =>
    if isDeep max node depth then ⟨acc, some .recursion, s⟩ else
    let r := k node s
    match r.err with
    | some e => ⟨acc ++ r.nodes, some e, r.script⟩
    | none =>
      let (b, s1) := coin r.script
      let (cs, s2) := ndChildren node s1
      if b then
        let (queue', r2) := visitChildrenNow max depth k cs queue s2 (acc ++ r.nodes)
        match r2.err with
        | some e => ⟨r2.nodes, some e, r2.script⟩
        | none => visitLoop max k fuel queue' r2.script r2.nodes
      else
        visitLoop max k fuel (queue ++ cs.map (fun c => (c, depth + 1))) s2 (acc ++ r.nodes)

/-- `_nondeterministic_visit(root)`: every visited node is handed to `k` at the moment it is yielded -/
def visit (max : Int) (root : Node) (s : Script) (k : Node → Script → Out) : Out :=
  let r := k root s
  match r.err with
  | some e => ⟨r.nodes, some e, r.script⟩
  | none =>
    let (cs, s1) := ndChildren root r.script
    visitLoop max k (root.val.size + 1) (cs.map (fun c => (c, 1))) s1 r.nodes

/-- `FilterSelector.resolve`'s loop over the (shuffled) members: evaluate the filter for each member;
a selected member is pushed through the rest of the pipeline (`k`) before the next one is tested -/
def filterEach (test : Json → Script → Except ErrKind Obj × Script) (k : Node → Script → Out) :
    List Node → Script → Out
  | [], s => Out.ok s
  | c :: cs, s =>
    match test c.val s with
    | (.error e, s') => ⟨[], some e, s'⟩
    | (.ok o, s1) =>
      if truthy o then
        let r := k c s1
        match r.err with
        | some e => ⟨r.nodes, some e, r.script⟩
        | none =>
          let r2 := filterEach test k cs r.script
          ⟨r.nodes ++ r2.nodes, r2.err, r2.script⟩
      else filterEach test k cs s1

mutual
/-- `Expression.evaluate(context)` in nondeterministic mode (embedded queries consume choices too) -/
def evalExpr (env : Env) (root cur : Json) : Expr → Script → Except ErrKind Obj × Script
  | .lit v, s => (.ok (.val v), s)
  | .not e, s =>
    match evalExpr env root cur e s with
    | (.ok o, s') => (.ok (.val (.bool (!truthy o))), s')
    | (.error k, s') => (.error k, s')
  | .logical op l r, s =>
    match evalExpr env root cur l s with
    | (.error k, s') => (.error k, s')
    | (.ok a, s1) =>
      match evalExpr env root cur r s1 with
      | (.error k, s') => (.error k, s')
      | (.ok b, s2) =>
        (.ok (.val (.bool (match op with
          | .and => truthy a && truthy b
          | .or => truthy a || truthy b))), s2)
  | .cmp op l r, s =>
    match evalExpr env root cur l s with
    | (.error k, s') => (.error k, s')
    | (.ok a, s1) =>
      match evalExpr env root cur r s1 with
      | (.error k, s') => (.error k, s')
      | (.ok b, s2) => (.ok (.val (.bool (compare (unwrap1 a) op (unwrap1 b)))), s2)
  | .rel q, s =>
    let r := runSegs env root q ⟨[], cur⟩ s
    (match r.err with
     | some e => .error e
     | none => .ok (.nodes r.nodes), r.script)
  | .root q, s =>
    let r := runSegs env root q ⟨[], root⟩ s
    (match r.err with
     | some e => .error e
     | none => .ok (.nodes r.nodes), r.script)
  | .call name args, s =>
    match env.func name with
    | none => (.ok .nothing, s)
    | some f =>
      match evalArgs env root cur args s with
      | (.error k, s') => (.error k, s')
      | (.ok as, s') => ((unpack f.argTypes as).bind f.body, s')
def evalArgs (env : Env) (root cur : Json) : List Expr → Script → Except ErrKind (List Obj) × Script
  | [], s => (.ok [], s)
  | e :: es, s =>
    match evalExpr env root cur e s with
    | (.error k, s') => (.error k, s')
    | (.ok a, s1) =>
      match evalArgs env root cur es s1 with
      | (.error k, s') => (.error k, s')
      | (.ok as, s2) => (.ok (a :: as), s2)
/-- one selector applied to one node; every selected node goes through the rest of the pipeline (`k`) at once -/
def runSel (env : Env) (root : Json) (k : Node → Script → Out) : Selector → Node → Script → Out
  | .name nm, n, s => forEach (selName nm n) s k
  | .index i, n, s => forEach (selIndex i n) s k
  | .slice a b c, n, s => forEach (selSlice a b c n) s k
  | .wild, n, s => let (m, s1) := ndMembers n s; forEach m s1 k
  | .filter e, n, s =>
    let (m, s1) := ndMembers n s
    filterEach (fun c s' => evalExpr env root c e s') k m s1
def runSels (env : Env) (root : Json) (k : Node → Script → Out) : List Selector → Node → Script → Out
  | [], _, s => Out.ok s
  | sel :: sels, n, s =>
    let r := runSel env root k sel n s
    match r.err with
    | some e => ⟨r.nodes, some e, r.script⟩
    | none =>
      let r2 := runSels env root k sels n r.script
      ⟨r.nodes ++ r2.nodes, r2.err, r2.script⟩
/-- push one node through the segments `segs` (demand-driven order) -/
def runSegs (env : Env) (root : Json) : List Segment → Node → Script → Out
  | [], n, s => ⟨[n], none, s⟩
  | .child sels :: rest, n, s => runSels env root (fun m s' => runSegs env root rest m s') sels n s
  | .desc sels :: rest, n, s =>
    visit env.maxDepth n s (fun m s' => runSels env root (fun m2 s2 => runSegs env root rest m2 s2) sels m s')
end

/-- `find(query, value)` in nondeterministic mode under choice script `s` -/
def find (env : Env) (q : Query) (v : Json) (s : Script) : Except ErrKind (List Node) :=
  let r := runSegs env v q ⟨[], v⟩ s
  match r.err with
  | some e => .error e
  | none => .ok r.nodes

end JPV.Impl.ND
