import JPV.Impl.Serialize
import JPV.Spec.Grammar
import JPV.Spec.Typing
import JPV.Proofs.Printer
namespace JPV.Proofs
open JPV

/-- literals whose printed spelling is proved to read back: strings, booleans, null (number literals go
through `repr(float)`/`float()` and are covered by the oracle search only) -/
def printableLit : Json → Bool
  | .str _ => true
  | .bool _ => true
  | .null => true
  | _ => false

/-- a function name as the grammar spells it -/
def printableName (f : Str) : Bool :=
  match f with
  | c :: rest => Spec.isLCALPHA c && rest.all (fun d => Spec.isLCALPHA d || d = '_' || Spec.isDIGIT d)
  | [] => false

/-- every slice step is written out (so printing is the identity on the AST) -/
def stepsExplicit (q : Query) : Bool :=
  q.all (fun s => match s with
    | .child sels => sels.all (fun x => match x with | .slice _ _ none => false | _ => true)
    | .desc sels => sels.all (fun x => match x with | .slice _ _ none => false | _ => true))

mutual
/-- Expressions the parser can build in *test* position, with literals restricted to the kinds whose
spelling is proved to read back (strings, booleans, null, integers): queries are filter-free here
(nested filters are covered by the oracle search). -/
def printableTest : Expr → Bool
  | .not e => printableTest e
  | .logical _ l r => printableTest l && printableTest r
  | .cmp _ l r => printableCmp l && printableCmp r
  | .rel q => Spec.filterFree q && nonEmptySegs q && stepsExplicit q
  | .root q => Spec.filterFree q && nonEmptySegs q && stepsExplicit q
  | .call f args => printableName f && printableArgs args
  | .lit _ => false
/-- comparison operands: literal, singular query, call -/
def printableCmp : Expr → Bool
  | .lit v => printableLit v
  | .rel q => Query.isSingular q
  | .root q => Query.isSingular q
  | .call f args => printableName f && printableArgs args
  | _ => false
def printableArgs : List Expr → Bool
  | [] => true
  | a :: as => (printableCmp a || printableTest a) && printableArgs as
end

theorem print_parse_filter (e : Expr) (h : printableTest e = true) :
    ∃ c, Spec.parseQuery (Impl.strQuery [.child [.filter e]]) = .valid c ∧
      Spec.abstractSegs c = [.child [.filter e]] := by sorry

end JPV.Proofs
