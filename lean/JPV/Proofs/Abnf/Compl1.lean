/-
Completeness, segment level: one lemma per constructor of `Segments`, `Segment`,
`Bracketed`, `MoreSelectors`, `Selector`, taking the statements for the sub-derivations as hypotheses.
-/
import JPV.Proofs.Abnf.ComplDefs
namespace JPV.Proofs.AbnfP
open JPV JPV.Spec

theorem segment_none_of_head {X : List Char} (h : HeadP (fun c => c ≠ '.' ∧ c ≠ '[') X) (f : Nat) :
    segment f X = none := by
  cases f with
  | zero => rw [segment]
  | succ f =>
    unfold segment
    split
    · exact absurd rfl (h _ _ rfl).1
    · exact absurd rfl (h _ _ rfl).1
    · exact absurd rfl (h _ _ rfl).1
    · exact absurd rfl (h _ _ rfl).2
    · rfl

theorem cSegs_nil : CSegs [] [] := by
  intro R fuel hR hf
  obtain ⟨f, rfl⟩ : ∃ f, fuel = f + 1 := ⟨fuel - 1, by omega⟩
  refine ⟨[], ?_, rfl⟩
  have : segment f (skipS R) = none := by
    apply segment_none_of_head
    intro c t e
    have hc : StopTerm c := hR c t e
    simp only [StopTerm, StopBasic, StopAnd, StopOr] at hc
    rcases hc with (((h | h | h) | h) | h) | h | h | h | h <;> subst h <;> decide
  simp only [List.nil_append]
  rw [segments, this]

theorem cSegs_cons {l : Bool} {b s rest : List Char} {seg : CSegment} {segs : List CSegment}
    (hb : Abnf.Blanks b) (hs : Abnf.Segment l s seg) (hr : Abnf.Segments l rest segs)
    (ihs : CSeg s seg) (ihr : CSegs rest segs) : CSegs (b ++ s ++ rest) (seg :: segs) := by
  intro R fuel hR hf
  obtain ⟨f, rfl⟩ : ∃ f, fuel = f + 1 := ⟨fuel - 1, by omega⟩
  simp only [List.length_append] at hf
  have hslen : 1 ≤ s.length := by
    obtain ⟨t, ht | ht⟩ := segment_head hs <;> subst ht <;> simp
  have hsk : skipS (b ++ s ++ rest ++ R) = s ++ (rest ++ R) := by
    obtain ⟨t, ht | ht⟩ := segment_head hs <;> subst ht <;>
      (simp only [List.append_assoc, List.cons_append]; exact skipS_blanks_cons hb (by decide) _)
  obtain ⟨seg', h1, hn1⟩ := ihs (rest ++ R) f (segments_append_head hr hR) (by omega)
  obtain ⟨segs', h2, hn2⟩ := ihr R f hR (by omega)
  refine ⟨seg' :: segs', ?_, normSegs_cons_congr hn1 hn2⟩
  rw [segments, hsk, h1]
  simp only [h2]

theorem cSeg_bracketed {s : List Char} {sels : List CSelector} {fl : Bool} {l : Bool}
    (hd : Abnf.Bracketed l s sels fl) (ih : CBrk s sels fl) : CSeg s (.child sels fl) := by
  intro R fuel _ hf
  obtain ⟨f, rfl⟩ : ∃ f, fuel = f + 1 := ⟨fuel - 1, by omega⟩
  obtain ⟨t, rfl⟩ := bracketed_head hd
  obtain ⟨c', fl', h1, hn1, hn2⟩ := ih R f (by omega)
  refine ⟨.child c' fl', ?_, normSegs_child hn1 hn2⟩
  simp only [List.cons_append] at h1 ⊢
  rw [segment, h1]
  rfl

theorem cSeg_dotWild : CSeg ['.', '*'] (.child [.wild] false) := by
  intro R fuel _ hf
  obtain ⟨f, rfl⟩ : ∃ f, fuel = f + 1 := ⟨fuel - 1, by omega⟩
  exact ⟨_, by simp only [List.cons_append, List.nil_append]; rw [segment], rfl⟩

theorem nameFirst_ne {c k : Char} (hc : isNameFirst c = true) (hk : isNameFirst k = false) : c ≠ k := by
  intro h; subst h; simp [hc] at hk

theorem cSeg_dotName {n : List Char} (hn : Abnf.Shorthand n) : CSeg ('.' :: n) (.child [.name n] false) := by
  intro R fuel hR hf
  obtain ⟨f, rfl⟩ : ∃ f, fuel = f + 1 := ⟨fuel - 1, by omega⟩
  have hsh := shorthand_complete hn hR
  obtain ⟨c, t, rfl, hc⟩ := shorthand_head hn
  have h1 : c ≠ '.' := nameFirst_ne hc (by decide)
  have h2 : c ≠ '*' := nameFirst_ne hc (by decide)
  refine ⟨_, ?_, rfl⟩
  simp only [List.cons_append] at hsh ⊢
  unfold segment
  split
  · rename_i heq; simp only [List.cons.injEq, true_and] at heq; exact absurd heq.1 h1
  · rename_i heq; simp only [List.cons.injEq, true_and] at heq; exact absurd heq.1 h2
  · rename_i heq; simp only [List.cons.injEq, true_and] at heq; subst heq; rw [hsh]; rfl
  · rename_i heq; simp at heq
  · rename_i h3 _; exact absurd rfl (h3 _)

theorem cSeg_descBracketed {s : List Char} {sels : List CSelector} {fl : Bool} {l : Bool}
    (hd : Abnf.Bracketed l s sels fl) (ih : CBrk s sels fl) : CSeg ('.' :: '.' :: s) (.desc sels) := by
  intro R fuel _ hf
  obtain ⟨f, rfl⟩ : ∃ f, fuel = f + 1 := ⟨fuel - 1, by omega⟩
  obtain ⟨t, rfl⟩ := bracketed_head hd
  simp only [List.length_cons] at hf
  obtain ⟨c', fl', h1, hn1, _⟩ := ih R f (by simp only [List.length_cons]; omega)
  refine ⟨.desc c', ?_, normSegs_desc hn1⟩
  simp only [List.cons_append] at h1 ⊢
  rw [segment]
  simp only [h1]
  rfl

theorem cSeg_descWild : CSeg ['.', '.', '*'] (.desc [.wild]) := by
  intro R fuel _ hf
  obtain ⟨f, rfl⟩ : ∃ f, fuel = f + 1 := ⟨fuel - 1, by omega⟩
  exact ⟨_, by simp only [List.cons_append, List.nil_append]; rw [segment], rfl⟩

theorem cSeg_descName {n : List Char} (hn : Abnf.Shorthand n) : CSeg ('.' :: '.' :: n) (.desc [.name n]) := by
  intro R fuel hR hf
  obtain ⟨f, rfl⟩ : ∃ f, fuel = f + 1 := ⟨fuel - 1, by omega⟩
  have hsh := shorthand_complete hn hR
  obtain ⟨c, t, rfl, hc⟩ := shorthand_head hn
  have h1 : c ≠ '[' := nameFirst_ne hc (by decide)
  have h2 : c ≠ '*' := nameFirst_ne hc (by decide)
  refine ⟨_, ?_, rfl⟩
  simp only [List.cons_append] at hsh ⊢
  rw [segment]
  · rw [hsh]; rfl
  all_goals (intros; simp_all)

end JPV.Proofs.AbnfP
