/-
`Proofs.Float.Decide` — `IsDouble` is decidable: a `Num` is a double iff rounding its fraction to binary64 gives
the fraction back (`isDoubleB`).
-/
import JPV.Proofs.Float.OfText
namespace JPV.Proofs.Float
open JPV JPV.Proofs.Pc

/-- executable test for `IsDouble` -/
def isDoubleB (x : Num) : Bool :=
  x.flt && (if x.n = 0 then x.d == 1 || x.d == 2 else
    x.d != 0 && (match Py.roundBinary64 x.n.natAbs x.d with
      | some (m, e) => Py.ratioOfBinary m e == (x.n.natAbs, x.d)
      | none => false))

theorem isDoubleB_iff (x : Num) : isDoubleB x = true ↔ IsDouble x := by
  unfold isDoubleB
  constructor
  · intro h
    rw [Bool.and_eq_true] at h
    obtain ⟨hf, h⟩ := h
    refine ⟨hf, ?_⟩
    split at h
    · rename_i hn
      left
      refine ⟨hn, ?_⟩
      simpa using h
    · rename_i hn
      right
      rw [Bool.and_eq_true] at h
      obtain ⟨hd, h⟩ := h
      have hd : 0 < x.d := by
        have : x.d ≠ 0 := by simpa using hd
        omega
      split at h
      · rename_i m e hr
        have hab : Py.ratioOfBinary m e = (x.n.natAbs, x.d) := by simpa using h
        obtain ⟨hm, he1⟩ := roundBinary64_bound hr
        have he0 := roundBinary64_exp_ge hd hr
        have hN : 0 < x.n.natAbs := Int.natAbs_pos.mpr hn
        rcases Nat.eq_zero_or_pos m with hm0 | hm0
        · subst hm0
          rw [ratioOfBinary_zero] at hab
          have : x.n.natAbs = 0 := by
            have := congrArg Prod.fst hab
            simpa using this.symm
          omega
        · obtain ⟨_, _, hg, hv⟩ := ratioOfBinary_spec m e hm0
          rw [hab] at hg hv
          exact ⟨m, e, hm0, hm, he0, he1, hg, hv⟩
      · cases h
  · intro h
    rw [Bool.and_eq_true]
    refine ⟨h.1, ?_⟩
    by_cases hn : x.n = 0
    · rw [if_pos hn]
      obtain ⟨_, hz | ⟨m, e, hm0, _, _, _, hg, hv⟩⟩ := h
      · rcases hz.2 with h | h <;> simp [h]
      · exfalso
        rw [hn] at hg hv
        simp only [Int.natAbs_zero, Nat.gcd_zero_left, Nat.zero_mul] at hg hv
        rw [hg] at hv
        have := Nat.mul_pos hm0 (Nat.two_pow_pos e.toNat)
        omega
    · rw [if_neg hn]
      obtain ⟨hN, hd, hg, M, E, hM0, hM, hnorm, hE0, hE1, hv⟩ := h.nonzero hn
      rw [roundBinary64_exact _ _ hN hd M E hM0 hM hnorm hE0 hE1 hv]
      simp only
      rw [ratioOfBinary_of_val M E x.n.natAbs x.d hM0 hg ((val_iff _ _ _ _ hd).mpr hv)]
      have : x.d ≠ 0 := by omega
      simp [this]

instance (x : Num) : Decidable (IsDouble x) := decidable_of_iff _ (isDoubleB_iff x)

end JPV.Proofs.Float
