import JPV.Proofs.NdExh.ChainImpl
import JPV.Proofs.NdExh.D24
/-
A decidable form of "chain document" and the final statement of exhaustiveness on chain documents.
-/
namespace JPV.Spec

mutual
/-- every container has at most one container child -/
def chainDoc : Json → Bool
  | .arr xs => decide ((xs.filter Json.isContainer).length ≤ 1) && chainDocArr xs
  | .obj kvs => decide (((kvs.map Prod.snd).filter Json.isContainer).length ≤ 1) && chainDocObj kvs
  | _ => true
def chainDocArr : List Json → Bool
  | [] => true
  | x :: xs => chainDoc x && chainDocArr xs
def chainDocObj : List (Str × Json) → Bool
  | [] => true
  | (_, v) :: rest => chainDoc v && chainDocObj rest
end

end JPV.Spec

namespace JPV.Proofs.NdExh
open JPV JPV.Impl

mutual
theorem chain_of_chainDoc : ∀ (v : Json), Spec.chainDoc v = true → Chain v
  | .arr xs, h => by
      simp only [Spec.chainDoc, Bool.and_eq_true, decide_eq_true_eq] at h
      exact .mk (by simpa only [kids] using h.1) (chainArr_of xs h.2)
  | .obj kvs, h => by
      simp only [Spec.chainDoc, Bool.and_eq_true, decide_eq_true_eq] at h
      exact .mk (by simpa only [kids] using h.1) (chainObj_of kvs h.2)
  | .null, _ => .mk (by simp [kids]) (by intro c hc; simp [kids] at hc)
  | .bool _, _ => .mk (by simp [kids]) (by intro c hc; simp [kids] at hc)
  | .num _, _ => .mk (by simp [kids]) (by intro c hc; simp [kids] at hc)
  | .str _, _ => .mk (by simp [kids]) (by intro c hc; simp [kids] at hc)
theorem chainArr_of : ∀ (xs : List Json), Spec.chainDocArr xs = true → ∀ c, c ∈ xs → Chain c
  | [], _ => by intro c hc; cases hc
  | x :: xs, h => by
      simp only [Spec.chainDocArr, Bool.and_eq_true] at h
      intro c hc
      cases hc with
      | head => exact chain_of_chainDoc x h.1
      | tail _ hc => exact chainArr_of xs h.2 c hc
theorem chainObj_of : ∀ (kvs : List (Str × Json)), Spec.chainDocObj kvs = true →
    ∀ c, c ∈ kvs.map Prod.snd → Chain c
  | [], _ => by intro c hc; cases hc
  | (k, v) :: rest, h => by
      simp only [Spec.chainDocObj, Bool.and_eq_true] at h
      intro c hc
      simp only [List.map_cons] at hc
      cases hc with
      | head => exact chain_of_chainDoc v h.1
      | tail _ hc => exact chainObj_of rest h.2 c hc
end

/-- on a chain document nondeterministic mode is exhaustive for every filter-free query, descendant segments
included -/
theorem find_exhaustive_chainDoc (env : Env) (reg : Spec.Registry) (q : Query) (v : Json)
    (hff : Spec.filterFree q = true) (hw : v.WF) (hd : (v.depth : Int) ≤ env.maxDepth)
    (hch : Spec.chainDoc v = true) :
    ∀ r ∈ Spec.ND.outcomes reg q v, ∃ s : ND.Script, ND.find env q v s = .ok r :=
  find_exhaustive_chain env reg q v hff hw hd (chain_of_chainDoc v hch)

/-- the D24 document is (of course) not a chain document; `[[[1],5],2]` is -/
example : Spec.chainDoc D24.doc = false := by decide +kernel
example : Spec.chainDoc (.arr [.arr [.arr [D24.num 1], D24.num 5], D24.num 2]) = true := by decide +kernel

end JPV.Proofs.NdExh
