/-
C04 — Every string outside the RFC 9535 grammar is rejected.

Property text: "Every string that is not derivable from the RFC 9535 ABNF
(misplaced blank space, leading zeros in any number, '-0' as an index or slice
bound, malformed numbers or escapes, doubled or dangling operators, parenthesised
or negated comparison operands, trailing or missing commas and colons, unbalanced
brackets, text before '$' or after the last segment, upper-case keywords, ...)
makes compile() raise a JSONPathError; nothing outside the grammar is silently
given a meaning."

`C04_statement` is the property at full strength against the independent
recogniser `Spec.Grammar` (+ `Spec.Valid`): whatever compile() accepts, the RFC
derives (verdict `valid` or — for the blanks inside singular-query brackets that
the RFC's own ABNF and its errata disagree on, D28 — `disputed`), with the same
abstract query.  Proved here:

* `C04_structural`: the statement for every accepted string whose query has no
  filter selector: the ABNF derives that string and the derivation abstracts to
  exactly the query the implementation built (parser SOUNDNESS for the whole
  segment/selector language, by inverting the lexer run and the parser run).
  Contrapositive `C04_structural_reject`: a string the ABNF does not derive is
  never compiled to a filter-free query — it raises (C13_compile: a JSONPathError)
  or, at worst, is read as containing a filter.
* `C13_compile`: compile() is total and raises nothing but JSONPathErrors;
  `C05_partial`: whatever is accepted is well-typed and in range; `C09`: string
  literals are read exactly as the grammar says.

Not proved: soundness for strings compiled to queries WITH filter selectors;
decided by the oracle search on the real code (mutation, token soup, grammar
near-misses; judged by `Spec.judge`).
-/
import JPV.Spec.Valid
import JPV.Props.C05
import JPV.Props.C13
import JPV.Proofs.SoundStructural
namespace JPV.Props
open JPV

/-- the property at full strength -/
def C04_statement : Prop :=
  ∀ (env : Impl.Env) (s : Str) (q : Query), Impl.compile env s = .ok q →
    ∃ c, ((Spec.judge (sigsOfEnv env) env.minIdx env.maxIdx s = (.valid, some c)) ∨
          (Spec.judge (sigsOfEnv env) env.minIdx env.maxIdx s = (.disputed, some c))) ∧
      Spec.abstractSegs c = q

/-- proved: filter-free queries — what compile() accepts, the ABNF derives, with the same meaning -/
theorem C04_structural (env : Impl.Env) (s : Str) (q : Query)
    (h : Impl.compile env s = .ok q) (hff : Spec.filterFree q = true) :
    ∃ c, Spec.parseQuery s = .valid c ∧ Spec.abstractSegs c = q :=
  Proofs.compile_sound_structural env s q h hff

/-- contrapositive: a string the ABNF does not derive is rejected with a JSONPathError, or (not excluded by this
theorem) compiled to a query that contains a filter selector — never to a filter-free query -/
theorem C04_structural_reject (env : Impl.Env) (s : Str)
    (hinv : ∀ c, Spec.parseQuery s ≠ .valid c) :
    (∃ e, Impl.compile env s = .error e ∧ e.kind.isJSONPathError = true) ∨
    (∃ q, Impl.compile env s = .ok q ∧ Spec.filterFree q = false) := by
  cases hc : Impl.compile env s with
  | error e =>
    left
    refine ⟨e, rfl, ?_⟩
    have h13 := C13_compile env s
    rw [hc] at h13
    exact h13
  | ok q =>
    right
    refine ⟨q, rfl, ?_⟩
    cases hff : Spec.filterFree q with
    | false => rfl
    | true =>
      obtain ⟨c, hp, _⟩ := C04_structural env s q hc hff
      exact absurd hp (hinv c)

/-- together with completeness (C03_structural): on strings without `?`, compile() accepts EXACTLY the
filter-free language of the ABNF — the two directions as one equivalence on the built query -/
theorem C03_C04_structural_iff (env : Impl.Env) (s : Str) (q : Query) (hff : Spec.filterFree q = true) :
    Impl.compile env s = .ok q ↔
      ∃ c, Spec.parseQuery s = .valid c ∧ Spec.abstractSegs c = q ∧
        Spec.intsQuery env.minIdx env.maxIdx q = true := by
  constructor
  · intro h
    obtain ⟨c, hp, ha⟩ := C04_structural env s q h hff
    exact ⟨c, hp, ha, (C05_partial env s q h).2⟩
  · rintro ⟨c, hp, ha, hr⟩
    subst ha
    exact Proofs.compile_complete_structural env s c hp hff hr

end JPV.Props
