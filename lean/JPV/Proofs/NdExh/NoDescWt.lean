import JPV.Proofs.NdExh.NoDesc
import JPV.Proofs.NdExh.Replay
import JPV.Proofs.Ndf.General
/-
C17, second half, for queries without (top-level) descendant segments WITH filter selectors, under the
hypotheses of `C17_permitted_wt` (conforming registry of order-insensitive typed functions, well-typed
query, well-formed value within the depth limit): every nodelist RFC 9535 permits is produced by some script.
The members of an object are shuffled into "the wanted selected members first, in the wanted order";
each filter test gets the script prefix `expr_replay` provides (its truth value does not depend on the
script: `nd_test_script_independent`), followed by the script of the stages the selected member is pushed
through.  Embedded queries inside the filters may contain anything (descendant segments included).
-/
namespace JPV.Proofs.NdExh
open JPV JPV.Impl JPV.Spec.ND JPV.Props

/-- a filter test on a good value: some script prefix evaluates it (consuming exactly that prefix) to an
object whose truthiness is the RFC truth value -/
theorem test_reach (env : Env) (reg : Spec.Registry) (root : Json)
    (hc : EnvConforms env reg) (hoi : Ndf.OrderInsensitive reg)
    (hr : GoodJ env.maxDepth root) (h1 : 1 ≤ env.maxDepth)
    (e : Expr) (hwt : Spec.wtTest (sigsOf reg) e = true) (c : Json) (hcg : GoodJ env.maxDepth c) :
    ∃ (pre : ND.Script) (o : Obj), (∀ t, ND.evalExpr env root c e (pre ++ t) = (.ok o, t)) ∧
      truthy o = Spec.testOf reg root c e := by
  obtain ⟨o, s', h, ht⟩ := nd_test_script_independent env reg root c e [] hc hoi hwt hr.1 hr.2 hcg.1 hcg.2 h1
  obtain ⟨pre, hp⟩ := expr_replay env root e c []
  refine ⟨pre, o, fun t => ?_, ht⟩
  have := hp t
  simp only [h] at this
  exact this.ok_eq

/-! ### loops -/

theorem forEach_reach' {G : Node → Prop} {P : Node → List Node → Prop} {k : Node → ND.Script → ND.Out}
    (hk : ∀ n r, G n → P n r → Reach k n r) :
    ∀ {ns r : List Node}, Each P ns r → (∀ n, n ∈ ns → G n) →
      ∃ pre : ND.Script, ∀ t, ND.forEach ns (pre ++ t) k = ⟨r, none, t⟩ := by
  intro ns r h
  induction h with
  | nil => intro _; exact ⟨[], fun t => rfl⟩
  | @cons n ns l r hp _ ih =>
    intro hw
    obtain ⟨pre1, h1⟩ := hk n l (hw n List.mem_cons_self) hp
    obtain ⟨pre2, h2⟩ := ih (fun m hm => hw m (List.mem_cons_of_mem _ hm))
    refine ⟨pre1 ++ pre2, fun t => ?_⟩
    simp only [ND.forEach, List.append_assoc, h1 (pre2 ++ t), h2 t]

theorem filterEach_reach {G : Node → Prop} {P : Node → List Node → Prop} {k : Node → ND.Script → ND.Out}
    {test : Json → ND.Script → Except ErrKind Obj × ND.Script} (p : Node → Bool)
    (hk : ∀ n r, G n → P n r → Reach k n r) :
    ∀ (mem : List Node) (r : List Node), Each P (mem.filter p) r → (∀ c, c ∈ mem → G c) →
      (∀ c, c ∈ mem → ∃ (pre : ND.Script) (o : Obj), (∀ t, test c.val (pre ++ t) = (.ok o, t)) ∧
        truthy o = p c) →
      ∃ pre : ND.Script, ∀ t, ND.filterEach test k mem (pre ++ t) = ⟨r, none, t⟩ := by
  intro mem
  induction mem with
  | nil =>
    intro r he _ _
    have := each_nil_inv he
    subst this
    exact ⟨[], fun t => by simp only [ND.filterEach, ND.Out.ok, List.nil_append]⟩
  | cons c cs ih =>
    intro r he hg ht
    obtain ⟨pre0, o, h0, hto⟩ := ht c List.mem_cons_self
    have hg' : ∀ x, x ∈ cs → G x := fun x hx => hg x (List.mem_cons_of_mem _ hx)
    have ht' := fun x (hx : x ∈ cs) => ht x (List.mem_cons_of_mem _ hx)
    cases hp : p c with
    | true =>
      rw [List.filter_cons_of_pos hp] at he
      obtain ⟨l, r', rfl, hl, hr'⟩ := each_cons_inv he
      obtain ⟨pre1, h1⟩ := hk c l (hg c List.mem_cons_self) hl
      obtain ⟨pre2, h2⟩ := ih r' hr' hg' ht'
      refine ⟨pre0 ++ (pre1 ++ pre2), fun t => ?_⟩
      rw [hp] at hto
      simp only [filterEach_cons, List.append_assoc, h0, hto, if_true, h1, h2]
    | false =>
      rw [List.filter_cons_of_neg (by simp [hp])] at he
      obtain ⟨pre2, h2⟩ := ih r he hg' ht'
      refine ⟨pre0 ++ pre2, fun t => ?_⟩
      rw [hp] at hto
      simp only [filterEach_cons, List.append_assoc, h0, hto, Bool.false_eq_true, if_false, h2]

/-! ### selectors -/

theorem selPermitted_good {mx : Int} {reg : Spec.Registry} {root : Json} {s : Selector} {n : Node}
    {l : List Node} (h : SelPermitted reg root s n l) (hn : Good mx n) : ∀ m, m ∈ l → Good mx m := by
  intro m hm
  cases h with
  | wildObj _ hp => exact NDp.children_good hn (hp.mem_iff.1 hm)
  | wildOther _ => exact NDp.children_good hn hm
  | filterObj _ hp => exact NDp.children_good hn (List.mem_filter.1 (hp.mem_iff.1 hm)).1
  | filterOther _ => exact NDp.children_good hn (List.mem_filter.1 hm).1
  | @name s =>
    exact good_kid (j := n.val) hn (mem_selectSel (reg := reg) (root := root) (s := .name s)
      (by simpa only [Spec.selectSel] using hm))
  | @index i =>
    exact good_kid (j := n.val) hn (mem_selectSel (reg := reg) (root := root) (s := .index i)
      (by simpa only [Spec.selectSel] using hm))
  | @slice a b c =>
    exact good_kid (j := n.val) hn (mem_selectSel (reg := reg) (root := root) (s := .slice a b c)
      (by simpa only [Spec.selectSel] using hm))

theorem selsPermitted_good {mx : Int} {reg : Spec.Registry} {root : Json} {sels : List Selector}
    {n : Node} {l : List Node} (h : SelsPermitted reg root sels n l) (hn : Good mx n) :
    ∀ m, m ∈ l → Good mx m := by
  induction h with
  | nil => intro m hm; cases hm
  | cons h1 _ ih =>
    intro m hm
    rcases List.mem_append.1 hm with hm | hm
    · exact selPermitted_good h1 hn m hm
    · exact ih hn m hm

/-- members with the wanted selection first -/
theorem filter_front {α} (p : α → Bool) (xs m : List α) (hp : m.Perm (xs.filter p)) :
    (m ++ xs.filter (fun x => !p x)).Perm xs ∧ (m ++ xs.filter (fun x => !p x)).filter p = m := by
  constructor
  · exact (hp.append_right _).trans (List.filter_append_perm p xs)
  · rw [List.filter_append]
    have h1 : m.filter p = m := by
      rw [List.filter_eq_self]
      intro a ha
      exact (List.mem_filter.1 (hp.mem_iff.1 ha)).2
    have h2 : (xs.filter (fun x => !p x)).filter p = [] := by
      rw [List.filter_eq_nil_iff]
      intro a ha
      have := (List.mem_filter.1 ha).2
      simpa using this
    rw [h1, h2, List.append_nil]

section
variable (env : Env) (reg : Spec.Registry) (root : Json)
  (hc : EnvConforms env reg) (hoi : Ndf.OrderInsensitive reg)
  (hr : GoodJ env.maxDepth root) (h1 : 1 ≤ env.maxDepth)
include hc hoi hr h1

theorem runSel_reach_wt {P : Node → List Node → Prop} {k : Node → ND.Script → ND.Out}
    (hk : ∀ n r, Good env.maxDepth n → P n r → Reach k n r)
    {sel : Selector} {n : Node} {m r : List Node}
    (hs : SelPermitted reg root sel n m) (hwt : Spec.wtSel (sigsOf reg) sel = true)
    (hn : Good env.maxDepth n) (he : Each P m r) :
    Reach (fun n s => ND.runSel env root k sel n s) n r := by
  have hgm := selPermitted_good hs hn
  cases hs with
  | wildObj ho hp =>
    obtain ⟨pre1, h1⟩ := forEach_reach' hk he hgm
    have hm : (match n.val with
        | .obj _ => m.Perm (Spec.children n)
        | _ => m = Spec.children n) := by
      cases hv : n.val <;> simp_all [isObj]
    obtain ⟨pre0, h0⟩ := ndChildren_surj n m hm
    refine ⟨pre0 ++ pre1, fun t => ?_⟩
    simp only [ND.runSel, ND.ndMembers, List.append_assoc, h0 (pre1 ++ t), h1 t]
  | wildOther ho =>
    obtain ⟨pre1, h1⟩ := forEach_reach' hk he hgm
    have hm : (match n.val with
        | .obj _ => (Spec.children n).Perm (Spec.children n)
        | _ => Spec.children n = Spec.children n) := by
      cases hv : n.val <;> simp_all [isObj]
    obtain ⟨pre0, h0⟩ := ndChildren_surj n _ hm
    refine ⟨pre0 ++ pre1, fun t => ?_⟩
    simp only [ND.runSel, ND.ndMembers, List.append_assoc, h0 (pre1 ++ t), h1 t]
  | @filterObj _ e _ ho hp =>
    simp only [Spec.wtSel] at hwt
    obtain ⟨hperm, hfilt⟩ := filter_front (fun c => Spec.testOf reg root c.val e) (Spec.children n) m hp
    have hm : (match n.val with
        | .obj _ => (m ++ (Spec.children n).filter
            (fun x => !(fun c => Spec.testOf reg root c.val e) x)).Perm (Spec.children n)
        | _ => (m ++ (Spec.children n).filter
            (fun x => !(fun c => Spec.testOf reg root c.val e) x)) = Spec.children n) := by
      cases hv : n.val <;> simp_all [isObj]
    obtain ⟨pre0, h0⟩ := ndChildren_surj n _ hm
    have hgmem : ∀ c, c ∈ m ++ (Spec.children n).filter
        (fun x => !(fun c => Spec.testOf reg root c.val e) x) → Good env.maxDepth c :=
      fun c hc => NDp.children_good hn (hperm.mem_iff.1 hc)
    rw [← hfilt] at he
    obtain ⟨pre1, h1'⟩ := filterEach_reach (test := fun c s' => ND.evalExpr env root c e s')
      (fun c => Spec.testOf reg root c.val e) hk _ r he hgmem
      (fun c hcm => test_reach env reg root hc hoi hr h1 e hwt c.val (hgmem c hcm))
    refine ⟨pre0 ++ pre1, fun t => ?_⟩
    simp only [ND.runSel, ND.ndMembers, List.append_assoc, h0 (pre1 ++ t), h1' t]
  | @filterOther _ e ho =>
    simp only [Spec.wtSel] at hwt
    have hm : (match n.val with
        | .obj _ => (Spec.children n).Perm (Spec.children n)
        | _ => Spec.children n = Spec.children n) := by
      cases hv : n.val <;> simp_all [isObj]
    obtain ⟨pre0, h0⟩ := ndChildren_surj n _ hm
    have hgmem : ∀ c, c ∈ Spec.children n → Good env.maxDepth c := fun c hc => NDp.children_good hn hc
    obtain ⟨pre1, h1'⟩ := filterEach_reach (test := fun c s' => ND.evalExpr env root c e s')
      (fun c => Spec.testOf reg root c.val e) hk _ r he hgmem
      (fun c hcm => test_reach env reg root hc hoi hr h1 e hwt c.val (hgmem c hcm))
    refine ⟨pre0 ++ pre1, fun t => ?_⟩
    simp only [ND.runSel, ND.ndMembers, List.append_assoc, h0 (pre1 ++ t), h1' t]
  | name =>
    obtain ⟨pre1, h1⟩ := forEach_reach' hk he hgm
    refine ⟨pre1, fun t => ?_⟩
    simp only [ND.runSel, selName_eq _ n hn.1, h1 t]
  | index =>
    obtain ⟨pre1, h1⟩ := forEach_reach' hk he hgm
    refine ⟨pre1, fun t => ?_⟩
    simp only [ND.runSel, selIndex_correct, h1 t]
  | slice =>
    obtain ⟨pre1, h1⟩ := forEach_reach' hk he hgm
    refine ⟨pre1, fun t => ?_⟩
    simp only [ND.runSel, selSlice_correct, h1 t]

theorem runSels_reach_wt {P : Node → List Node → Prop} {k : Node → ND.Script → ND.Out}
    (hk : ∀ n r, Good env.maxDepth n → P n r → Reach k n r)
    {sels : List Selector} {n : Node} {m : List Node}
    (hs : SelsPermitted reg root sels n m) (hn : Good env.maxDepth n) :
    Spec.wtSels (sigsOf reg) sels = true → ∀ r, Each P m r →
    Reach (fun n s => ND.runSels env root k sels n s) n r := by
  induction hs with
  | nil =>
    intro _ r he
    have := each_nil_inv he
    subst this
    exact ⟨[], fun t => by simp only [ND.runSels, ND.Out.ok, List.nil_append]⟩
  | @cons sel ss n l r' hs1 _ ih =>
    intro hwt r he
    simp only [Spec.wtSels, Bool.and_eq_true] at hwt
    obtain ⟨o1, o2, rfl, he1, he2⟩ := each_append_inv _ _ _ he
    obtain ⟨pre1, hp1⟩ := runSel_reach_wt env reg root hc hoi hr h1 hk hs1 hwt.1 hn he1
    obtain ⟨pre2, hp2⟩ := ih hn hwt.2 o2 he2
    refine ⟨pre1 ++ pre2, fun t => ?_⟩
    have e1 := hp1 (pre2 ++ t)
    have e2 := hp2 t
    simp only at e1 e2
    simp only [ND.runSels, List.append_assoc, e1, e2]

theorem runSegs_reach_wt :
    ∀ (segs : List Segment), Spec.wtQuery (sigsOf reg) segs = true → ∀ (n : Node) (r : List Node),
      Good env.maxDepth n → DF reg root segs n r →
      Reach (fun m s => ND.runSegs env root segs m s) n r := by
  intro segs
  induction segs with
  | nil =>
    intro _ n r _ h
    simp only [DF] at h
    subst h
    exact ⟨[], fun t => by simp only [ND.runSegs, List.nil_append]⟩
  | cons seg segs ih =>
    intro hwt n r hn h
    simp only [Spec.wtQuery, Bool.and_eq_true] at hwt
    cases seg with
    | desc sels => simp only [DF] at h
    | child sels =>
      simp only [DF] at h
      obtain ⟨m, hm, he⟩ := h
      have hk : ∀ n r, Good env.maxDepth n → DF reg root segs n r →
          Reach (fun m s => ND.runSegs env root segs m s) n r :=
        fun n r hn h => ih hwt.2 n r hn h
      have hws : Spec.wtSels (sigsOf reg) sels = true := by simpa only [Spec.wtSeg] using hwt.1
      obtain ⟨pre, hp⟩ := runSels_reach_wt env reg root hc hoi hr h1 hk hm hn hws r he
      refine ⟨pre, fun t => ?_⟩
      have e := hp t
      simp only at e
      simp only [ND.runSegs, e]

end

/-- C17, second half, WITH filters, for queries without top-level descendant segments -/
theorem find_exhaustive_nodesc_wt (env : Env) (reg : Spec.Registry) (q : Query) (v : Json)
    (hnd : Spec.noDescendant q = true)
    (hc : EnvConforms env reg) (hoi : Ndf.OrderInsensitive reg)
    (hwt : Spec.wtQuery (sigsOf reg) q = true)
    (hw : v.WF) (hd : (v.depth : Int) ≤ env.maxDepth) (h1 : 1 ≤ env.maxDepth) :
    ∀ r ∈ Spec.ND.outcomes reg q v, ∃ s : ND.Script, ND.find env q v s = .ok r := by
  intro r hr
  have hp := Proofs.outcomes_sound reg q v hw r hr
  have he := segsPermitted_df reg v q hnd _ _ hp
  obtain ⟨l, r', rfl, hl, hr'⟩ := each_cons_inv he
  have := each_nil_inv hr'
  subst this
  obtain ⟨pre, hpre⟩ := runSegs_reach_wt env reg v hc hoi ⟨hw, hd⟩ h1 q hwt ⟨[], v⟩ l ⟨hw, hd⟩ hl
  refine ⟨pre, ?_⟩
  have e := hpre []
  simp only [List.append_nil] at e
  simp only [ND.find, e, List.append_nil]

end JPV.Proofs.NdExh
