/-
C01 — Structural selection (segments, name/index/slice/wildcard) follows RFC 9535.

Property text: "For every valid filter-free query and every JSON value, find()
returns exactly the nodelist RFC 9535 defines: the same nodes (value and
location), in the same order, with duplicates kept. Child segments concatenate
their selectors' results per input node in selector order; descendant segments
apply their selectors to the input node and every descendant in document
pre-order; object members are visited in the mapping's own order and array
elements in index order."

Stated on compiled queries; nodes are (location, value) pairs and the equation
is on lists, so order and multiplicity are part of it.  The text → AST step is
C03/C04.
-/
import JPV.Props.Common
import JPV.Props.C02
namespace JPV.Props
open JPV

def C01_statement : Prop :=
  ∀ (env : Impl.Env) (reg : Spec.Registry) (q : Query) (v : Json),
    Spec.filterFree q = true → v.WF → (v.depth : Int) ≤ env.maxDepth → 1 ≤ env.maxDepth →
    Impl.find env q v = .ok (Spec.select reg q v)

/-- A filter-free query needs no function contract and no typing hypothesis. -/
theorem C01 : C01_statement := Proofs.structural_correct

/-- Queries without a descendant segment need no depth hypothesis either. -/
theorem C01_no_descendant (env : Impl.Env) (reg : Spec.Registry) (q : Query) (v : Json)
    (hf : Spec.filterFree q = true) (hd : q.all (fun s => match s with | .child _ => true | .desc _ => false) = true)
    (hwf : v.WF) : Impl.find env q v = .ok (Spec.select reg q v) :=
  Proofs.structural_correct_child env reg q v hf hd hwf

/-- The RFC's own shape of a child segment: per input node, selector results in selector order. -/
theorem C01_child_concat (reg : Spec.Registry) (root : Json) (sels : List Selector) (ns : List Node) :
    Spec.selectSeg reg root (.child sels) ns =
      ns.flatMap (fun n => sels.flatMap (fun s => Spec.selectSel reg root s n)) :=
  Proofs.child_concat reg root sels ns

example :
    let q : Query := [.desc [.wild], .child [.index (-1), .name ['a']]]
    let v : Json := .obj [(['a'], .arr [.null, .obj [(['a'], .bool true)]])]
    Impl.find {} q v = .ok (Spec.select (fun _ => none) q v) ∧ (Spec.select (fun _ => none) q v).length = 2 :=
  ⟨rfl, rfl⟩

end JPV.Props
