/-
JSON values, numbers, locations and nodes: the data every model in this
development ranges over.  Core Lean only.

* Strings are `List Char`; a `Char` is exactly a Unicode scalar value, which is
  what the properties quantify over.
* Numbers are exact rationals `n / d` (`d > 0`) plus a flag saying whether the
  Python object is a `float`.  Python compares `int` and `float` exactly (no
  rounding), so `==` and `<` are cross-multiplication.  (Trusted base: this is
  how CPython compares int/float; doubles are dyadic rationals.)
* Objects are association lists in insertion order (Python `dict` order).
-/
namespace JPV

abbrev Str := List Char

structure Num where
  flt : Bool
  n : Int
  d : Nat
deriving DecidableEq, Repr, Inhabited

namespace Num
def ofInt (i : Int) : Num := ⟨false, i, 1⟩
/-- `d = 0` encodes ±infinity (a number literal too large for a double); two
infinities are compared by sign. -/
def beq (a b : Num) : Bool :=
  if a.d = 0 ∧ b.d = 0 then a.n == b.n else a.n * (b.d : Int) == b.n * (a.d : Int)
def blt (a b : Num) : Bool :=
  if a.d = 0 ∧ b.d = 0 then decide (a.n < b.n) else decide (a.n * (b.d : Int) < b.n * (a.d : Int))
def isZero (a : Num) : Bool := a.n == 0
end Num

inductive Json where
  | null
  | bool (b : Bool)
  | num (x : Num)
  | str (s : Str)
  | arr (xs : List Json)
  | obj (kvs : List (Str × Json))
deriving Repr, Inhabited

inductive Key where
  | name (s : Str)
  | idx (i : Int)
deriving DecidableEq, Repr, Inhabited

abbrev Loc := List Key

structure Node where
  loc : Loc
  val : Json
deriving Repr, Inhabited

namespace Json

/-- a primitive value: what a JSONPath literal can denote -/
def isScalar : Json → Bool
  | arr _ => false
  | obj _ => false
  | _ => true

def isContainer : Json → Bool
  | arr _ => true
  | obj _ => true
  | _ => false

/-- `dict[k]`: first binding (bindings are unique under `WF`). -/
def lookup (k : Str) : List (Str × Json) → Option Json
  | [] => none
  | (k', v) :: rest => if k' = k then some v else lookup k rest

def keys (kvs : List (Str × Json)) : List Str := kvs.map Prod.fst

mutual
/-- Well-formed: member names of every object are pairwise distinct. -/
def WF : Json → Prop
  | arr xs => WFArr xs
  | obj kvs => (keys kvs).Nodup ∧ WFObj kvs
  | _ => True
def WFArr : List Json → Prop
  | [] => True
  | x :: xs => WF x ∧ WFArr xs
def WFObj : List (Str × Json) → Prop
  | [] => True
  | (_, v) :: rest => WF v ∧ WFObj rest
end

mutual
/-- Container nesting depth: scalars 0, a container 1 + max over children. -/
def depth : Json → Nat
  | arr xs => 1 + depthArr xs
  | obj kvs => 1 + depthObj kvs
  | _ => 0
def depthArr : List Json → Nat
  | [] => 0
  | x :: xs => max (depth x) (depthArr xs)
def depthObj : List (Str × Json) → Nat
  | [] => 0
  | (_, v) :: rest => max (depth v) (depthObj rest)
end

mutual
/-- Number of values in the tree (every scalar and container counts one). -/
def size : Json → Nat
  | arr xs => 1 + sizeArr xs
  | obj kvs => 1 + sizeObj kvs
  | _ => 1
def sizeArr : List Json → Nat
  | [] => 0
  | x :: xs => size x + sizeArr xs
def sizeObj : List (Str × Json) → Nat
  | [] => 0
  | (_, v) :: rest => size v + sizeObj rest
end

/-- Follow one key. -/
def step (v : Json) (k : Key) : Option Json :=
  match v, k with
  | obj kvs, .name s => lookup s kvs
  | arr xs, .idx i => if 0 ≤ i then xs[i.toNat]? else none
  | _, _ => none

/-- Follow a location key by key from the root. -/
def getAt (v : Json) : Loc → Option Json
  | [] => some v
  | k :: ks => (step v k).bind (fun c => getAt c ks)

end Json

/-- Code-point lexicographic order on strings (Python `str.__lt__`). -/
def strLt : Str → Str → Bool
  | [], [] => false
  | [], _ :: _ => true
  | _ :: _, [] => false
  | a :: as, b :: bs => if a.toNat < b.toNat then true else if a.toNat > b.toNat then false else strLt as bs

end JPV
