/-
`Spec.Typing` — RFC 9535 §2.4.3 well-typedness of function expressions, the
"only singular queries are compared" rule (§2.3.5.1) and the I-JSON integer
range rule (§2.1), as decidable functions over the AST for an arbitrary
signature table.
-/
import JPV.Ast
namespace JPV.Spec

/-- Declared signature of a function extension. -/
structure Sig where
  argTypes : List Ty
  ret : Ty
deriving DecidableEq, Repr

abbrev Sigs := Str → Option Sig

mutual
/-- `e` is a well-typed logical expression (test position, LogicalType argument). -/
def wtTest (sg : Sigs) : Expr → Bool
  | .lit _ => false
  | .not e => wtTest sg e
  | .logical _ l r => wtTest sg l && wtTest sg r
  | .cmp _ l r => wtComparable sg l && wtComparable sg r
  | .rel q => wtQuery sg q
  | .root q => wtQuery sg q
  | .call f args =>
      match sg f with
      | some s => (s.ret == .logical || s.ret == .nodes) && wtArgs sg s.argTypes args
      | none => false
/-- `e` is a well-typed comparable (also: ValueType argument). -/
def wtComparable (sg : Sigs) : Expr → Bool
  | .lit v => v.isScalar
  | .rel q => Query.isSingular q && wtQuery sg q
  | .root q => Query.isSingular q && wtQuery sg q
  | .call f args =>
      match sg f with
      | some s => s.ret == .value && wtArgs sg s.argTypes args
      | none => false
  | _ => false
/-- `e` is a well-typed NodesType argument. -/
def wtNodes (sg : Sigs) : Expr → Bool
  | .rel q => wtQuery sg q
  | .root q => wtQuery sg q
  | .call f args =>
      match sg f with
      | some s => s.ret == .nodes && wtArgs sg s.argTypes args
      | none => false
  | _ => false
/-- argument count matches and every argument fits its declared parameter type -/
def wtArgs (sg : Sigs) : List Ty → List Expr → Bool
  | [], [] => true
  | t :: ts, e :: es =>
      (match t with
       | .value => wtComparable sg e
       | .logical => wtTest sg e
       | .nodes => wtNodes sg e) && wtArgs sg ts es
  | _, _ => false
def wtSel (sg : Sigs) : Selector → Bool
  | .filter e => wtTest sg e
  | _ => true
def wtSels (sg : Sigs) : List Selector → Bool
  | [] => true
  | s :: ss => wtSel sg s && wtSels sg ss
def wtSeg (sg : Sigs) : Segment → Bool
  | .child sels => wtSels sg sels
  | .desc sels => wtSels sg sels
def wtQuery (sg : Sigs) : List Segment → Bool
  | [] => true
  | s :: ss => wtSeg sg s && wtQuery sg ss
end

def inRange (lo hi : Int) (i : Int) : Bool := decide (lo ≤ i) && decide (i ≤ hi)

def optInRange (lo hi : Int) : Option Int → Bool
  | none => true
  | some i => inRange lo hi i

mutual
/-- every index and slice integer lies within `[lo, hi]` -/
def intsExpr (lo hi : Int) : Expr → Bool
  | .lit _ => true
  | .not e => intsExpr lo hi e
  | .logical _ l r => intsExpr lo hi l && intsExpr lo hi r
  | .cmp _ l r => intsExpr lo hi l && intsExpr lo hi r
  | .rel q => intsQuery lo hi q
  | .root q => intsQuery lo hi q
  | .call _ args => intsArgs lo hi args
def intsArgs (lo hi : Int) : List Expr → Bool
  | [] => true
  | e :: es => intsExpr lo hi e && intsArgs lo hi es
def intsSel (lo hi : Int) : Selector → Bool
  | .index i => inRange lo hi i
  | .slice a b c => optInRange lo hi a && optInRange lo hi b && optInRange lo hi c
  | .filter e => intsExpr lo hi e
  | _ => true
def intsSels (lo hi : Int) : List Selector → Bool
  | [] => true
  | s :: ss => intsSel lo hi s && intsSels lo hi ss
def intsSeg (lo hi : Int) : Segment → Bool
  | .child sels => intsSels lo hi sels
  | .desc sels => intsSels lo hi sels
def intsQuery (lo hi : Int) : List Segment → Bool
  | [] => true
  | s :: ss => intsSeg lo hi s && intsQuery lo hi ss
end

/-- RFC 9535 validity of a grammatical query. -/
def valid (sg : Sigs) (lo hi : Int) (q : Query) : Bool :=
  wtQuery sg q && intsQuery lo hi q

mutual
/-- no filter selector anywhere -/
def filterFreeSels : List Selector → Bool
  | [] => true
  | .filter _ :: _ => false
  | _ :: ss => filterFreeSels ss
end

def filterFreeSeg : Segment → Bool
  | .child sels => filterFreeSels sels
  | .desc sels => filterFreeSels sels

def filterFree (q : Query) : Bool := q.all filterFreeSeg

end JPV.Spec
