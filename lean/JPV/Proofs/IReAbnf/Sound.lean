/-
`IRegexpAbnfEquiv`, soundness half: whatever `parseAlt` / `parseBranch` accept is derivable.
-/
import JPV.Proofs.IReAbnf.Class
namespace JPV.Proofs.IReAbnf
open JPV JPV.Spec JPV.Spec.IRe JPV.Spec.IReAbnf

/-- the atom recogniser inside `parseBranch` -/
def atomP (fuel : Nat) (inp : List Char) : Option (Re × List Char) :=
  match inp with
  | '(' :: r =>
    match parseAlt fuel r with
    | some (e, ')' :: r2) => some (e, r2)
    | _ => none
  | '.' :: r => some (.dot, r)
  | '[' :: r => classExpr r
  | '\\' :: c :: r =>
    match catEsc inp with
    | some ((neg, p), r2) => some (.cat neg p, r2)
    | none => (singleEsc c).map (fun n => (.chr n, r))
  | c :: r => if isNormalChar c then some (.chr c.toNat, r) else none
  | [] => none

theorem parseBranch_succ (fuel : Nat) (inp : List Char) (acc : Re) :
  parseBranch (fuel+1) inp acc =
    match atomP fuel inp with
    | none =>
      (match inp with
       | [] => some (acc, inp)
       | '|' :: _ => some (acc, inp)
       | ')' :: _ => some (acc, inp)
       | _ => none)
    | some (a, r) =>
      match quantifier r with
      | some ((lo, hi), r2) =>
        (match hi with
         | some h => if lo ≤ h then parseBranch fuel r2 (.seq acc (.rep a lo hi)) else none
         | none => parseBranch fuel r2 (.seq acc (.rep a lo hi)))
      | none =>
        (match r with
         | '{' :: _ => none
         | '*' :: _ => none
         | '+' :: _ => none
         | '?' :: _ => none
         | _ => parseBranch fuel r (.seq acc a)) := rfl

theorem parseAlt_succ (fuel : Nat) (inp : List Char) :
  parseAlt (fuel+1) inp =
    match parseBranch fuel inp .eps with
    | none => none
    | some (b, r) =>
      match r with
      | '|' :: r2 => (parseAlt fuel r2).map (fun p => (.alt b p.1, p.2))
      | _ => some (b, r) := rfl

theorem parseAlt_zero (inp : List Char) : parseAlt 0 inp = none := rfl
theorem parseBranch_zero (inp : List Char) (acc : Re) : parseBranch 0 inp acc = none := rfl

/-! ### soundness -/

def AltSound (fuel : Nat) : Prop :=
  ∀ inp r rest, parseAlt fuel inp = some (r, rest) → ∃ pre, inp = pre ++ rest ∧ IRegexp pre r

def BranchSound (fuel : Nat) : Prop :=
  ∀ inp acc r rest, parseBranch fuel inp acc = some (r, rest) →
    ∃ pre ps, inp = pre ++ rest ∧ Pieces pre ps ∧ r = ps.foldl Re.seq acc

theorem atomP_sound {fuel : Nat} (ih : AltSound fuel) {inp : List Char} {a : Re} {rest : List Char}
    (h : atomP fuel inp = some (a, rest)) : ∃ pre, inp = pre ++ rest ∧ Atom pre a := by
  unfold atomP at h
  split at h
  · rename_i r
    split at h
    · rename_i e r2 hp
      injection h with h; injection h with h1 h2; subst h1 h2
      obtain ⟨pre, rfl, hpre⟩ := ih _ _ _ hp
      exact ⟨'(' :: (pre ++ [')']), by simp, .group hpre⟩
    · simp at h
  · injection h with h; injection h with h1 h2; subst h1 h2
    exact ⟨['.'], rfl, .dot⟩
  · obtain ⟨s, e, hs⟩ := classExpr_sound h
    exact ⟨s, e, .classExpr hs⟩
  · rename_i c r
    split at h
    · rename_i neg p r2 hc
      injection h with h; injection h with h1 h2; subst h1 h2
      obtain ⟨s, e, hs⟩ := catEsc_sound hc
      exact ⟨s, e, .classEsc hs⟩
    · cases hs : singleEsc c with
      | none => simp [hs] at h
      | some n =>
        simp [hs] at h
        obtain ⟨rfl, rfl⟩ := h
        exact ⟨['\\', c], rfl, .esc ⟨c, rfl, hs⟩⟩
  · rename_i c r _ _ _ _
    split at h
    · rename_i hn
      injection h with h; injection h with h1 h2; subst h1 h2
      exact ⟨[c], rfl, .normal hn⟩
    · simp at h
  · simp at h

theorem foldl_seq_cons (p : Re) (ps : List Re) (acc : Re) :
    (p :: ps).foldl Re.seq acc = ps.foldl Re.seq (.seq acc p) := rfl

theorem branch_sound_succ {fuel : Nat} (iha : AltSound fuel) (ihb : BranchSound fuel) : BranchSound (fuel + 1) := by
  intro inp acc r rest h
  rw [parseBranch_succ] at h
  split at h
  · -- no atom
    split at h
    · injection h with h; injection h with h1 h2; subst h1 h2
      exact ⟨[], [], rfl, .nil, rfl⟩
    · injection h with h; injection h with h1 h2; subst h1 h2
      exact ⟨[], [], rfl, .nil, rfl⟩
    · injection h with h; injection h with h1 h2; subst h1 h2
      exact ⟨[], [], rfl, .nil, rfl⟩
    · simp at h
  · rename_i a r1 hat
    obtain ⟨s, rfl, hs⟩ := atomP_sound iha hat
    split at h
    · rename_i lo hi r2 hq
      have key : (∀ k, hi = some k → lo ≤ k) ∧ parseBranch fuel r2 (.seq acc (.rep a lo hi)) = some (r, rest) := by
        split at h
        · rename_i k
          split at h
          · rename_i hle
            exact ⟨(by intro k' e; cases e; exact hle), h⟩
          · simp at h
        · exact ⟨(by intro k' e; cases e), h⟩
      obtain ⟨q, rfl, hqq⟩ := quantifier_sound hq key.1
      obtain ⟨pre, ps, rfl, hps, rfl⟩ := ihb _ _ _ _ key.2
      exact ⟨(s ++ q) ++ pre, _ :: ps, by simp, .cons (.quantified hs hqq) hps, rfl⟩
    · have key : parseBranch fuel r1 (.seq acc a) = some (r, rest) := by
        split at h <;> first | (simp at h; done) | exact h
      obtain ⟨pre, ps, rfl, hps, rfl⟩ := ihb _ _ _ _ key
      exact ⟨s ++ pre, _ :: ps, by simp, .cons (.plain hs) hps, rfl⟩

theorem alt_sound_succ {fuel : Nat} (iha : AltSound fuel) (ihb : BranchSound fuel) : AltSound (fuel + 1) := by
  intro inp r rest h
  rw [parseAlt_succ] at h
  split at h
  · simp at h
  · rename_i b r1 hb
    obtain ⟨pre, ps, rfl, hps, rfl⟩ := ihb _ _ _ _ hb
    split at h
    · rename_i r2
      cases ha : parseAlt fuel r2 with
      | none => simp [ha] at h
      | some x =>
        obtain ⟨e, rest'⟩ := x
        simp [ha] at h
        obtain ⟨rfl, rfl⟩ := h
        obtain ⟨pre2, rfl, hpre2⟩ := iha _ _ _ ha
        exact ⟨pre ++ '|' :: pre2, by simp, .alt hps hpre2⟩
    · injection h with h; injection h with h1 h2; subst h1 h2
      exact ⟨pre, rfl, .single hps⟩

theorem sound_all : ∀ fuel, AltSound fuel ∧ BranchSound fuel := by
  intro fuel
  induction fuel with
  | zero =>
    refine ⟨?_, ?_⟩
    · intro inp r rest h; rw [parseAlt_zero] at h; cases h
    · intro inp acc r rest h; rw [parseBranch_zero] at h; cases h
  | succ fuel ih => exact ⟨alt_sound_succ ih.1 ih.2, branch_sound_succ ih.1 ih.2⟩

theorem parse_sound {p : Str} {r : Re} (h : parse p = some r) : IRegexp p r := by
  unfold parse at h
  split at h
  · rename_i e hp
    injection h with h; subst h
    obtain ⟨pre, e1, hpre⟩ := (sound_all _).1 _ _ _ hp
    simp at e1; subst e1; exact hpre
  · simp at h

end JPV.Proofs.IReAbnf
