/-
`Ord fr ns` (the frontier process) holds exactly for the linear extensions `ns` of `MustPrecede`
on the nodes pending from `fr`, under an invariant `Inv` on the frontier that holds for the
single-item frontier of a well-formed node and is preserved by every step.
-/
import JPV.Proofs.NdRel.Orders
namespace JPV.Proofs.NdRel
open JPV JPV.Spec JPV.Spec.ND

/-! ### list helpers -/

theorem snoc_inj {α} {p q : List α} {k k' : α} (h : p ++ [k] = q ++ [k']) : p = q ∧ k = k' := by
  have := List.append_inj' h rfl
  exact ⟨this.1, by simpa using this.2⟩

theorem prefix_of_snoc {α} {a s p : List α} {k : α} (h : a ++ s = p ++ [k]) (hs : s ≠ []) :
    ∃ s', s = s' ++ [k] ∧ p = a ++ s' := by
  have hs' := List.dropLast_concat_getLast hs
  rw [← hs', ← List.append_assoc] at h
  obtain ⟨h1, h2⟩ := snoc_inj h
  exact ⟨s.dropLast, by rw [← h2]; exact hs'.symm, h1.symm⟩

/-! ### facts about `MustPrecede` -/

theorem not_mustPrecede_of_prefix {x y : Node} {t : Loc} (h : y.loc = x.loc ++ t) :
    ¬ MustPrecede y x := by
  rintro (⟨s, hs, hx⟩ | ⟨p, i, j, hy, hx, hij⟩)
  · rw [h, List.append_assoc] at hx
    have := List.append_cancel_left ((List.append_nil _).trans hx)
    exact hs (List.append_eq_nil_iff.1 this.symm).2
  · have hl : t = [] := by
      have := congrArg List.length h
      rw [hy, hx] at this
      simp only [List.length_append, List.length_cons, List.length_nil] at this
      exact List.eq_nil_of_length_eq_zero (by omega)
    subst hl
    rw [List.append_nil, hy, hx] at h
    have := (snoc_inj h).2
    cases this
    omega

/-- the predecessors of a child `c` of `h` (an object member, or the first element of an array)
are `h` and the predecessors of `h` -/
theorem pred_child {h c y : Node} {k : Key} (hc : c.loc = h.loc ++ [k])
    (hneg : ∀ j j', k = .idx j → y.loc = h.loc ++ [.idx j'] → j ≤ j')
    (hR : MustPrecede y c) : y.loc = h.loc ∨ MustPrecede y h := by
  rcases hR with ⟨s, hs, hcs⟩ | ⟨p, i, j, hy, hcp, hij⟩
  · rw [hc] at hcs
    obtain ⟨s', _, h2⟩ := prefix_of_snoc hcs.symm hs
    by_cases hs' : s' = []
    · subst hs'; left; rw [h2, List.append_nil]
    · right; exact Or.inl ⟨s', hs', h2⟩
  · rw [hc] at hcp
    obtain ⟨h1, h2⟩ := snoc_inj hcp
    have := hneg j i h2 (by rw [hy, h1])
    omega

/-- the predecessors of the right sibling `s` of `h` are `h` and the predecessors of `h` -/
theorem pred_next {h s y : Node} {p : Loc} {i : Int} (hh : h.loc = p ++ [.idx i])
    (hs : s.loc = p ++ [.idx (i + 1)]) (hR : MustPrecede y s) :
    y.loc = h.loc ∨ MustPrecede y h := by
  rcases hR with ⟨t, ht, hst⟩ | ⟨q, a, b, hy, hsq, hab⟩
  · rw [hs] at hst
    obtain ⟨t', _, h2⟩ := prefix_of_snoc hst.symm ht
    right
    exact Or.inl ⟨t' ++ [.idx i], by simp, by rw [hh, h2, List.append_assoc]⟩
  · rw [hs] at hsq
    obtain ⟨h1, h2⟩ := snoc_inj hsq
    cases h2
    subst h1
    by_cases hai : a = i
    · subst hai; left; rw [hy, hh]
    · right; exact Or.inr ⟨p, a, i, hy, hh, by omega⟩

/-! ### the invariant -/

/-- consecutive elements of one array, starting at index `i` -/
def IsChain (p : Loc) : Nat → List Node → Prop
  | _, [] => True
  | i, c :: cs => c.loc = p ++ [.idx (i : Int)] ∧ IsChain p (i + 1) cs

theorem IsChain.mem {p : Loc} : ∀ {cs : List Node} {i : Nat} {m : Node}, IsChain p i cs → m ∈ cs →
    ∃ j : Nat, i ≤ j ∧ m.loc = p ++ [.idx (j : Int)] := by
  intro cs
  induction cs with
  | nil => intro i m _ hm; cases hm
  | cons c cs ih =>
    intro i m hc hm
    rcases List.mem_cons.1 hm with hm | hm
    · subst hm; exact ⟨i, Nat.le_refl _, hc.1⟩
    · obtain ⟨j, hj, hl⟩ := ih hc.2 hm
      exact ⟨j, by omega, hl⟩

theorem isChain_arrChildren (n : Node) (xs : List Json) : IsChain n.loc 0 (arrChildren n xs) := by
  have : ∀ (xs : List Json) (i : Nat),
      IsChain n.loc i (((List.range' i xs.length).zip xs).map
        (fun p => child n (.idx (p.1 : Int)) p.2)) := by
    intro xs
    induction xs with
    | nil => intro i; exact True.intro
    | cons x xs ih =>
      intro i
      rw [List.length_cons, List.range'_succ, List.zip_cons_cons, List.map_cons]
      exact ⟨rfl, ih (i + 1)⟩
  have h := this xs 0
  rw [← List.range_eq_range'] at h
  exact h

/-- an item is a single node, or a node with its right siblings in one array -/
def ItemOK (it : Item) : Prop := it.later = [] ∨ ∃ p i, IsChain p i (it.node :: it.later)

/-- where the head of a new item sits relative to the node `h` just visited -/
def NewHead (h c : Node) : Prop :=
  (∃ k, c.loc = h.loc ++ [k] ∧ ∀ j, k = .idx j → j = 0) ∨
  (∃ p i, h.loc = p ++ [.idx i] ∧ c.loc = p ++ [.idx (i + 1)])

theorem nextItems_ok {it : Item} (hok : ItemOK it) :
    ∀ it' ∈ nextItems it, ItemOK it' ∧ NewHead it.node it'.node := by
  intro it' hit'
  rcases List.mem_append.1 hit' with hm | hm
  · -- the next sibling
    obtain ⟨h, later⟩ := it
    cases later with
    | nil => cases hm
    | cons s ss =>
      simp only [chainItem, List.mem_singleton] at hm
      subst hm
      rcases hok with hok | ⟨p, i, hc⟩
      · cases hok
      · refine ⟨Or.inr ⟨p, i + 1, hc.2⟩, Or.inr ⟨p, i, hc.1, ?_⟩⟩
        have := hc.2.1
        simp only at this ⊢
        rw [this]
        simp
  · -- the children
    cases hv : it.node.val with
    | arr xs =>
      rw [childItems_arr _ xs hv] at hm
      have hc := isChain_arrChildren it.node xs
      cases hch : arrChildren it.node xs with
      | nil => rw [hch] at hm; cases hm
      | cons c cs =>
        rw [hch] at hm hc
        simp only [chainItem, List.mem_singleton] at hm
        subst hm
        refine ⟨Or.inr ⟨_, 0, hc⟩, Or.inl ⟨.idx 0, hc.1, ?_⟩⟩
        intro j hj; cases hj; rfl
    | obj kvs =>
      rw [childItems_obj _ kvs hv, children, hv] at hm
      simp only [List.map_map, List.mem_map, Function.comp_apply] at hm
      obtain ⟨kv, _, rfl⟩ := hm
      refine ⟨Or.inl rfl, Or.inl ⟨.name kv.1, rfl, ?_⟩⟩
      intro j hj; cases hj
    | _ => simp [childItems, hv] at hm

structure Inv (l0 : Loc) (fr : List Item) : Prop where
  ok : ∀ it ∈ fr, ItemOK it
  nodup : ((pending fr).map (·.loc)).Nodup
  nat : ∀ y ∈ pending fr, ∃ t, y.loc = l0 ++ t ∧ Natural t
  min : ∀ it ∈ fr, ∀ y ∈ pending fr, ¬ MustPrecede y it.node

theorem head_mem_pending {fr : List Item} {it : Item} (h : it ∈ fr) : it.node ∈ pending fr := by
  refine List.mem_flatMap.2 ⟨it, h, ?_⟩
  rw [pendItem_eq]; exact List.mem_cons_self

theorem Inv.step {l0 : Loc} {a b : List Item} {it : Item} (h : Inv l0 (a ++ it :: b)) :
    Inv l0 (a ++ b ++ nextItems it) := by
  have hp := pending_step a b it
  have hit : it ∈ a ++ it :: b := by simp
  have hsub : ∀ y, y ∈ pending (a ++ b ++ nextItems it) → y ∈ pending (a ++ it :: b) :=
    fun y hy => hp.mem_iff.2 (List.mem_cons_of_mem _ hy)
  have hnd := (hp.map (·.loc)).nodup_iff.1 h.nodup
  rw [List.map_cons, List.nodup_cons] at hnd
  have hold : ∀ it', it' ∈ a ++ b → it' ∈ a ++ it :: b := by
    intro it' h'
    rcases List.mem_append.1 h' with h' | h'
    · exact List.mem_append_left _ h'
    · exact List.mem_append_right _ (List.mem_cons_of_mem _ h')
  refine ⟨?_, hnd.2, fun y hy => h.nat y (hsub y hy), ?_⟩
  · intro it' h'
    rcases List.mem_append.1 h' with h' | h'
    · exact h.ok it' (hold it' h')
    · exact (nextItems_ok (h.ok it hit) it' h').1
  · intro it' h' y hy hR
    rcases List.mem_append.1 h' with h' | h'
    · exact h.min it' (hold it' h') y (hsub y hy) hR
    · have hnew := (nextItems_ok (h.ok it hit) it' h').2
      have hcase : y.loc = it.node.loc ∨ MustPrecede y it.node := by
        rcases hnew with ⟨k, hc, hk⟩ | ⟨p, i, hh, hs⟩
        · refine pred_child hc ?_ hR
          intro j j' hj hyl
          obtain ⟨t, ht, hnat⟩ := h.nat y (hsub y hy)
          obtain ⟨th, hth, _⟩ := h.nat it.node (head_mem_pending hit)
          rw [ht, hth, List.append_assoc] at hyl
          have := List.append_cancel_left hyl
          have hj' := hnat j' (by rw [this]; simp)
          rw [hk j hj]; exact hj'
        · exact pred_next hh hs hR
      rcases hcase with hl | hR'
      · exact hnd.1 (List.mem_map.2 ⟨y, hy, hl⟩)
      · exact h.min it hit y (hsub y hy) hR'

theorem inv_single (n : Node) (hw : n.val.WF) : Inv n.loc [⟨n, []⟩] := by
  refine ⟨?_, ?_, ?_, ?_⟩
  · intro it hit
    rw [List.mem_singleton] at hit; subst hit; exact Or.inl rfl
  · rw [pending_single]; exact desc_nodup n.loc n.val hw
  · intro y hy
    rw [pending_single] at hy
    obtain ⟨t, h1, h2, _⟩ := desc_loc hy
    exact ⟨t, h1, h2⟩
  · intro it hit y hy
    rw [List.mem_singleton] at hit; subst hit
    rw [pending_single] at hy
    obtain ⟨t, h1, _, _⟩ := desc_loc hy
    exact not_mustPrecede_of_prefix h1

/-! ### soundness: every frontier order is a linear extension -/

theorem Ord.pairwise {l0 : Loc} {fr : List Item} {ns : List Node} (h : Ord fr ns) :
    Inv l0 fr → ns.Pairwise (fun x y => ¬ MustPrecede y x) := by
  induction h with
  | nil => intro _; exact .nil
  | step fr a b it ns hfr hord ih =>
    intro hinv
    subst hfr
    rw [List.pairwise_cons]
    refine ⟨?_, ih hinv.step⟩
    intro y hy
    have h1 : y ∈ pending (a ++ b ++ nextItems it) := hord.perm_pending.mem_iff.1 hy
    have h2 : y ∈ pending (a ++ it :: b) :=
      (pending_step a b it).mem_iff.2 (List.mem_cons_of_mem _ h1)
    exact hinv.min it (by simp) y h2

/-! ### completeness: every linear extension is a frontier order -/

/-- a pending node of an item other than its head has a predecessor among the item's pending nodes -/
theorem pendItem_cases {it : Item} (hok : ItemOK it) {x : Node} (hx : x ∈ pendItem it) :
    x = it.node ∨ ∃ m, m ∈ pendItem it ∧ MustPrecede m x := by
  obtain ⟨m, hm, hxm⟩ := List.mem_flatMap.1 hx
  have hmp : m ∈ pendItem it := List.mem_flatMap.2 ⟨m, hm, root_mem_desc m.loc m.val⟩
  obtain ⟨t, h1, _, h3⟩ := desc_loc hxm
  by_cases ht : t = []
  · have hxm' : x = m := h3 ht
    subst hxm'
    rcases List.mem_cons.1 hm with hm' | hm'
    · exact Or.inl hm'
    · right
      rcases hok with hok | ⟨p, i, hc⟩
      · rw [hok] at hm'; cases hm'
      · obtain ⟨j, hj, hl⟩ := hc.2.mem hm'
        refine ⟨it.node, ?_, Or.inr ⟨p, i, j, hc.1, hl, by omega⟩⟩
        rw [pendItem_eq]; exact List.mem_cons_self
  · exact Or.inr ⟨m, hmp, Or.inl ⟨t, ht, h1⟩⟩

theorem ord_of_linExt {l0 : Loc} : ∀ (ns : List Node) (fr : List Item), Inv l0 fr →
    ns.Perm (pending fr) → ns.Pairwise (fun x y => ¬ MustPrecede y x) → Ord fr ns := by
  intro ns
  induction ns with
  | nil =>
    intro fr _ hp _
    have := pending_eq_nil hp.nil_eq.symm
    subst this; exact .nil
  | cons x ns ih =>
    intro fr hinv hp hpw
    rw [List.pairwise_cons] at hpw
    have hx : x ∈ pending fr := hp.mem_iff.1 List.mem_cons_self
    obtain ⟨it, hit, hxi⟩ := List.mem_flatMap.1 hx
    have hhead : x = it.node := by
      rcases pendItem_cases (hinv.ok it hit) hxi with h | ⟨m, hm, hR⟩
      · exact h
      · exfalso
        have hm' : m ∈ x :: ns := hp.mem_iff.2 (List.mem_flatMap.2 ⟨it, hit, hm⟩)
        rcases List.mem_cons.1 hm' with hm' | hm'
        · subst hm'
          exact not_mustPrecede_of_prefix (List.append_nil _).symm hR
        · exact hpw.1 m hm' hR
    obtain ⟨a, b, rfl⟩ := List.append_of_mem hit
    have hp' : ns.Perm (pending (a ++ b ++ nextItems it)) := by
      have := hp.trans (pending_step a b it)
      rw [hhead] at this
      exact this.cons_inv
    rw [hhead]
    exact .step _ a b it ns rfl (ih _ hinv.step hp' hpw.2)

theorem ord_iff_linExt {l0 : Loc} {fr : List Item} (hinv : Inv l0 fr) (ns : List Node) :
    Ord fr ns ↔ ns.Perm (pending fr) ∧ ns.Pairwise (fun x y => ¬ MustPrecede y x) :=
  ⟨fun h => ⟨h.perm_pending, h.pairwise hinv⟩, fun h => ord_of_linExt ns fr hinv h.1 h.2⟩

/-! ### visit orders -/

theorem visitOrders_iff' (n : Node) (hw : n.val.WF) (ord : List Node) :
    ord ∈ visitOrders n ↔ VisitOrder n ord := by
  rw [mem_visitOrders_iff, ord_iff_linExt (inv_single n hw), pending_single]
  exact Iff.rfl

/-- document pre-order is a permitted visit order -/
theorem visitOrder_desc (n : Node) (hw : n.val.WF) : VisitOrder n (descendants n.loc n.val) := by
  have h := ord_pending _ [⟨n, []⟩] (Nat.le_refl _)
  rw [ord_iff_linExt (inv_single n hw), pending_single] at h
  exact h

end JPV.Proofs.NdRel
