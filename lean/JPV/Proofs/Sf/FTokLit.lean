/-
`Proofs.Sf.FTokLit` — literal and function tokens of the filter state, read by the grammar:
a literal token the parser accepts (`litVal`) is a `literal` of the grammar with the same value; a FUNCTION
token is a `function-name "("`.
-/
import JPV.Proofs.Sf.FTokInv
import JPV.Proofs.Sf.NumLit
import JPV.Proofs.PfTerm
set_option linter.unusedSimpArgs false
set_option linter.unusedVariables false
namespace JPV.Proofs.Sf
open JPV JPV.Impl JPV.Proofs.Rq JPV.Proofs.Cs JPV.Proofs.Ss

variable {inp x : List Char}

/-- what may follow a term: (after blanks) an operator, a closing bracket or parenthesis, a comma -/
def FolC (rest : List Char) : Prop :=
  ∃ c t, Spec.skipS rest = c :: t ∧
    (c = '=' ∨ c = '!' ∨ c = '<' ∨ c = '>' ∨ c = '&' ∨ c = '|' ∨ c = ')' ∨ c = ',' ∨ c = ']')

theorem FolC.head {rest : List Char} (h : FolC rest) : ∀ c t, rest = c :: t → Pf.fnChar c = false ∧ c ≠ '(' := by
  intro c t e
  subst e
  obtain ⟨c', t', hs, hc⟩ := h
  by_cases hb : isWs c = true
  · have : ((c = ' ' ∨ c = '\n') ∨ c = '\r') ∨ c = '\t' := by simpa [isWs] using hb
    rcases this with ((rfl | rfl) | rfl) | rfl <;> exact ⟨by decide, by decide⟩
  · have hb' : isWs c = false := by simpa using hb
    rw [skipS_of_head hb'] at hs
    simp only [List.cons.injEq] at hs
    obtain ⟨rfl, rfl⟩ := hs
    rcases hc with rfl | rfl | rfl | rfl | rfl | rfl | rfl | rfl | rfl <;> exact ⟨by decide, by decide⟩

/-- a keyword literal followed by something that cannot continue a name is not a function call -/
theorem kw_not_call {kw rest : List Char} (hk : Pf.nameOK kw = true) (hf : FolC rest) :
    ∀ name r, Spec.functionName (kw ++ rest) ≠ some (name, '(' :: r) := by
  intro name r h
  rw [Pf.functionName_stop kw hk rest (fun c t e => (hf.head c t e).1)] at h
  simp only [Option.some.injEq, Prod.mk.injEq] at h
  exact (hf.head '(' r h.2).2 rfl

theorem functionName_none_of {c : Char} {t : List Char} (h : Spec.isLCALPHA c = false) :
    ∀ name r, Spec.functionName (c :: t) ≠ some (name, '(' :: r) := by
  intro name r e
  rw [Pf.functionName_none c t h] at e
  cases e

theorem digit_not_lc {c : Char} (h : c = '-' ∨ isDigit c = true) : Spec.isLCALPHA c = false := by
  rcases h with rfl | h
  · decide
  · rw [isDigit_iff] at h
    cases hl : Spec.isLCALPHA c with
    | false => rfl
    | true => rw [Pf.isLCALPHA_iff] at hl; omega

theorem digit_ne {c : Char} (h : c = '-' ∨ isDigit c = true) : c ≠ '!' ∧ c ≠ '(' ∧ c ≠ '@' ∧ c ≠ '$' := by
  rcases h with rfl | h
  · decide
  · refine ⟨?_, ?_, ?_, ?_⟩ <;> (rintro rfl; revert h; decide)

theorem reSignedDigits_head {n0 : Nat} (h : reSignedDigits x = some n0) :
    ∃ c t, x = c :: t ∧ (c = '-' ∨ isDigit c = true) := by
  obtain ⟨sg, d, ds, r, rfl, hsg, hd, -⟩ := reSignedDigits_inv h
  rcases hsg with rfl | rfl
  · exact ⟨d, _, rfl, .inr hd⟩
  · exact ⟨'-', _, rfl, .inl rfl⟩

/-- a literal token of the filter state that the parser accepts -/
theorem fTok_lit {k : TokKind} {v rest : List Char} {n : Int} {val : Json}
    (h : fTok inp = some (k, v, rest)) (hv : litVal ⟨k, v, n⟩ = some val) :
    Spec.literal (Spec.skipS inp) = some (val, rest) ∧ rest.length < (Spec.skipS inp).length ∧
    (∃ c t, Spec.skipS inp = c :: t ∧ c ≠ '!' ∧ c ≠ '(' ∧ c ≠ '@' ∧ c ≠ '$') ∧
    (FolC rest → ∀ name r, Spec.functionName (Spec.skipS inp) ≠ some (name, '(' :: r)) := by
  obtain ⟨c, r, e, hc⟩ := fTok_cases h
  rw [e]
  rcases hc with ⟨rfl, rfl, rfl⟩ | ⟨rfl, rfl, rfl⟩ | ⟨rfl, rfl, hsc⟩ | ⟨rfl, rfl, hsc⟩ | ⟨rfl, rfl, rfl⟩ |
    ⟨rfl, rfl, rfl⟩ | ⟨rfl, rfl, rfl⟩ | ⟨rfl, rfl, rfl⟩ | ⟨rfl, rfl, rfl⟩ | ⟨rfl, rfl, rfl, hne⟩ | ⟨rfl, rfl, rfl⟩ |
    ⟨rfl, rfl, rfl⟩ | ⟨rfl, rfl, rfl, hne⟩ | ⟨rfl, rfl, rfl⟩ | ⟨rfl, rfl, rfl, hne⟩ |
    ⟨c1, c2, c3, c4, c5, c6, c7, c8, c9, c10, c11, c12, c13, hd⟩
  all_goals try (simp [litVal] at hv; done)
  · -- single-quoted string
    simp only [litVal] at hv
    cases hdec : decodeStringLiteral .sqString v with
    | error err => rw [hdec] at hv; cases hv
    | ok s =>
      rw [hdec] at hv
      simp only [Option.some.injEq] at hv
      subst hv
      have hsl := stringLiteral_of_scan (q := '\'') (.inl rfl) hsc hdec
      refine ⟨by rw [Spec.literal, hsl], ?_, ⟨_, _, rfl, by decide, by decide, by decide, by decide⟩,
        fun _ => functionName_none_of (by decide)⟩
      have := scanString_length hsc
      simp only [List.length_cons]; omega
  · -- double-quoted string
    simp only [litVal] at hv
    cases hdec : decodeStringLiteral .dqString v with
    | error err => rw [hdec] at hv; cases hv
    | ok s =>
      rw [hdec] at hv
      simp only [Option.some.injEq] at hv
      subst hv
      have hsl := stringLiteral_of_scan (q := '"') (.inr rfl) hsc hdec
      refine ⟨by rw [Spec.literal, hsl], ?_, ⟨_, _, rfl, by decide, by decide, by decide, by decide⟩,
        fun _ => functionName_none_of (by decide)⟩
      have := scanString_length hsc
      simp only [List.length_cons]; omega
  · -- the default branch
    rcases fDefault_cases hd with ⟨rfl, hx⟩ | ⟨rfl, hx⟩ | ⟨rfl, hx⟩ | ⟨rfl, hx⟩ | ⟨rfl, hx⟩ |
      ⟨rfl, m, hfl, rfl, rfl⟩ | ⟨rfl, hfl, m, hin, rfl, rfl⟩ | ⟨rfl, ht, hf, hn, hfl, hin, m, hfn, rfl, hdr⟩
    all_goals try (simp [litVal] at hv; done)
    · simp only [litVal, Option.some.injEq] at hv
      subst hv
      rw [hx]
      refine ⟨Pf.literal_true rest, by simp; omega, ⟨_, _, rfl, by decide, by decide, by decide, by decide⟩,
        fun hf => kw_not_call (kw := "true".toList) (by decide) hf⟩
    · simp only [litVal, Option.some.injEq] at hv
      subst hv
      rw [hx]
      refine ⟨Pf.literal_false rest, by simp; omega, ⟨_, _, rfl, by decide, by decide, by decide, by decide⟩,
        fun hf => kw_not_call (kw := "false".toList) (by decide) hf⟩
    · simp only [litVal, Option.some.injEq] at hv
      subst hv
      rw [hx]
      refine ⟨Pf.literal_null rest, by simp; omega, ⟨_, _, rfl, by decide, by decide, by decide, by decide⟩,
        fun hf => kw_not_call (kw := "null".toList) (by decide) hf⟩
    · -- FLOAT
      have hl := literal_of_float hfl hv
      obtain ⟨n0, h0, -⟩ := reFloat_inv hfl hv
      obtain ⟨c', t', ex, hc'⟩ := reSignedDigits_head h0
      simp only [List.cons.injEq] at ex
      obtain ⟨rfl, rfl⟩ := ex
      obtain ⟨d1, d2, d3, d4⟩ := digit_ne hc'
      have hpos := reFloat_pos _ _ hfl
      have hbd := reFloat_bounded _ _ hfl
      refine ⟨hl, ?_, ⟨_, _, rfl, d1, d2, d3, d4⟩, fun _ => functionName_none_of (digit_not_lc hc')⟩
      simp only [List.length_drop]; omega
    · -- INT
      have hl := literal_of_int hfl hin hv
      obtain ⟨n0, h0, -⟩ := reInt_inv hfl hin
      obtain ⟨c', t', ex, hc'⟩ := reSignedDigits_head h0
      simp only [List.cons.injEq] at ex
      obtain ⟨rfl, rfl⟩ := ex
      obtain ⟨d1, d2, d3, d4⟩ := digit_ne hc'
      have hpos := reInt_pos _ _ hin
      have hbd := reInt_bounded _ _ hin
      refine ⟨hl, ?_, ⟨_, _, rfl, d1, d2, d3, d4⟩, fun _ => functionName_none_of (digit_not_lc hc')⟩
      simp only [List.length_drop]; omega

theorem functionName_of_re {c : Char} {r : List Char} {m : Nat} (h : reFunctionName (c :: r) = some m) :
    Spec.isLCALPHA c = true ∧ Spec.functionName (c :: r) = some ((c :: r).take m, (c :: r).drop m) := by
  by_cases hc : isLower c = true
  · simp only [reFunctionName, hc, if_true, Option.some.injEq] at h
    subst h
    refine ⟨hc, ?_⟩
    have hc' : Spec.isLCALPHA c = true := hc
    simp only [Spec.functionName, hc', if_true]
    rw [Nat.add_comm, List.take_succ_cons, List.drop_succ_cons, take_spanLen, spanLen_eq]
    rfl
  · simp [reFunctionName, hc] at h

theorem reKeyword_none_prefix {kw x : List Char} (h : reKeyword kw x = none) (hp : kw.isPrefixOf x = true) :
    ∃ c t, x.drop kw.length = c :: t ∧ (isLower c || c = '_' || isDigit c || c = '(') = true := by
  unfold reKeyword at h
  rw [if_pos hp] at h
  split at h
  · rename_i c t heq
    split at h
    · rename_i hc; exact ⟨c, t, heq, hc⟩
    · cases h
  · cases h

theorem name_follow {c : Char} {t : List Char} (h : (isLower c || c = '_' || isDigit c || c = '(') = true) :
    (∀ u, Spec.skipS (c :: t) ≠ ',' :: u) ∧ (∀ u, Spec.skipS (c :: t) ≠ ')' :: u) := by
  have hb : isWs c = false := by
    cases hw : isWs c with
    | false => rfl
    | true =>
      have : ((c = ' ' ∨ c = '\n') ∨ c = '\r') ∨ c = '\t' := by simpa [isWs] using hw
      rcases this with ((rfl | rfl) | rfl) | rfl <;> revert h <;> decide
  rw [skipS_of_head hb]
  constructor <;> (intro u e; simp only [List.cons.injEq] at e; obtain ⟨rfl, -⟩ := e; revert h; decide)

theorem lit_inv {s : String} {x r : List Char} (h : Spec.lit s x = some r) :
    s.toList.isPrefixOf x = true ∧ r = x.drop s.length := by
  unfold Spec.lit at h
  split at h
  · rename_i hp; cases h; exact ⟨hp, rfl⟩
  · cases h

/-- a FUNCTION token: `function-name "("`; if its name begins with a keyword, the grammar's `literal`
stops in the middle of the name -/
theorem fTok_function {v rest : List Char} (h : fTok inp = some (.function, v, rest)) :
    Spec.functionName (Spec.skipS inp) = some (v, '(' :: rest) ∧
    (∀ val r', Spec.literal (Spec.skipS inp) = some (val, r') →
      (∀ t, Spec.skipS r' ≠ ',' :: t) ∧ (∀ t, Spec.skipS r' ≠ ')' :: t)) ∧
    (∃ c t, Spec.skipS inp = c :: t ∧ c ≠ '!' ∧ c ≠ '(' ∧ c ≠ '@' ∧ c ≠ '$') := by
  obtain ⟨c, r, e, hc⟩ := fTok_cases h
  rw [e]
  rcases hc with ⟨_, hk, _⟩ | ⟨_, hk, _⟩ | ⟨_, hk, _⟩ | ⟨_, hk, _⟩ | ⟨_, hk, _⟩ |
    ⟨_, hk, _⟩ | ⟨_, hk, _⟩ | ⟨_, hk, _⟩ | ⟨_, hk, _⟩ | ⟨_, hk, _⟩ | ⟨_, hk, _⟩ |
    ⟨_, hk, _⟩ | ⟨_, hk, _⟩ | ⟨_, hk, _⟩ | ⟨_, hk, _⟩ |
    ⟨c1, c2, c3, c4, c5, c6, c7, c8, c9, c10, c11, c12, c13, hd⟩
  all_goals try (cases hk; done)
  rcases fDefault_cases hd with ⟨hk, _⟩ | ⟨hk, _⟩ | ⟨hk, _⟩ | ⟨hk, _⟩ | ⟨hk, _⟩ |
    ⟨hk, _⟩ | ⟨hk, _⟩ | ⟨-, ht, hf, hn, hfl, hin, m, hfn, rfl, hdr⟩
  all_goals try (cases hk; done)
  obtain ⟨hlc, hfn'⟩ := functionName_of_re hfn
  rw [hdr] at hfn'
  refine ⟨hfn', ?_, ⟨c, r, rfl, c10, c5, c8, c7⟩⟩
  intro val r' hl
  rw [Pf.literal_eq_kw c r c4 c3 (Pf.lc_ne hlc _) (Pf.lc_ne hlc _)
    (by rw [Pf.isLCALPHA_iff] at hlc; cases h1 : Spec.isDIGIT1 c with
        | false => rfl
        | true => rw [Prn.isDIGIT1_iff] at h1; omega)] at hl
  have key : ∀ {s : String}, reKeyword s.toList (c :: r) = none → ∀ r1, Spec.lit s (c :: r) = some r1 →
      (∀ t, Spec.skipS r1 ≠ ',' :: t) ∧ (∀ t, Spec.skipS r1 ≠ ')' :: t) := by
    intro s hs r1 h1
    obtain ⟨hp, rfl⟩ := lit_inv h1
    obtain ⟨c', t', hd', hc'⟩ := reKeyword_none_prefix hs hp
    rw [String.length_toList] at hd'
    rw [hd']
    exact name_follow hc'
  split at hl
  · rename_i r1 h1
    simp only [Option.some.injEq, Prod.mk.injEq] at hl
    rw [← hl.2]
    exact key ht r1 h1
  · split at hl
    · rename_i r1 h1
      simp only [Option.some.injEq, Prod.mk.injEq] at hl
      rw [← hl.2]
      exact key hf r1 h1
    · split at hl
      · rename_i r1 h1
        simp only [Option.some.injEq, Prod.mk.injEq] at hl
        rw [← hl.2]
        exact key hn r1 h1
      · cases hl

end JPV.Proofs.Sf
