/-
`Proofs.Sf.Cfg2` — next-token lemmas for the segment, descendant and bracketed states in configuration form.
-/
import JPV.Proofs.Sf.Cfg
set_option linter.unusedSimpArgs false
set_option linter.unusedVariables false
namespace JPV.Proofs.Sf
open JPV JPV.Impl JPV.Proofs.Rq JPV.Proofs.Cs JPV.Proofs.Ss

variable {lf : Lexer} {d : Int} {br : List (Char × Nat)} {x rest : List Char} {out : List Token} {t : Token}

theorem SCfg.next (hg : ¬ Bad lf) (h : SCfg lf d br x out) :
    (x = [] ∧ ∃ k, out = [⟨.eof, [], k⟩]) ∨
    (∃ r k out', Spec.skipS x = '.' :: '.' :: r ∧ out = ⟨.doubleDot, ['.', '.'], k⟩ :: out' ∧
      DCfg lf d br r out') ∨
    (∃ r k out', Spec.skipS x = '.' :: '*' :: r ∧ out = ⟨.wild, ['*'], k⟩ :: out' ∧ SCfg lf d br r out') ∨
    (∃ c r n k out', Spec.skipS x = '.' :: c :: r ∧ Impl.isNameFirst c = true ∧
      reProperty (c :: r) = some n ∧ out = ⟨.property, (c :: r).take n, k⟩ :: out' ∧
      SCfg lf d br ((c :: r).drop n) out') ∨
    (∃ r k i out', Spec.skipS x = '[' :: r ∧ out = ⟨.lbracket, ['['], k⟩ :: out' ∧
      BCfg lf d (('[', i) :: br) r out') ∨
    (d ≠ 0 ∧ (∃ c r, Spec.skipS x = c :: r ∧ c ≠ '.' ∧ c ≠ '[') ∧ FCfg lf d br x out) := by
  obtain ⟨l, pre, toks, hst, he⟩ := h
  rcases seg_first_emits hst he hg with ⟨e0, k, eo⟩ | ⟨r, l', pre', k, out', e1, eo, h', he'⟩ |
    ⟨r, l', pre', k, out', e1, eo, h', he'⟩ | ⟨c, r, n, l', pre', k, out', e1, hn, hre, eo, h', he'⟩ |
    ⟨r, l', pre', k, i, out', e1, eo, h', he'⟩ | ⟨hd, c, r, l', pre', e1, hc1, hc2, h', he'⟩
  · exact .inl ⟨e0, k, eo⟩
  · exact .inr (.inl ⟨r, k, out', e1, eo, _, _, _, h', he'⟩)
  · exact .inr (.inr (.inl ⟨r, k, out', e1, eo, _, _, _, h', he'⟩))
  · exact .inr (.inr (.inr (.inl ⟨c, r, n, k, out', e1, hn, hre, eo, _, _, _, h', he'⟩)))
  · exact .inr (.inr (.inr (.inr (.inl ⟨r, k, i, out', e1, eo, _, _, _, h', he'⟩))))
  · refine .inr (.inr (.inr (.inr (.inr ⟨hd, ⟨c, r, e1, hc1, hc2⟩, _, _, _, _, h', ?_, he'⟩))))
    rw [← e1, skipS_idem]

theorem DCfg.next (hg : ¬ Bad lf) (h : DCfg lf d br x out) :
    (∃ r k out', x = '*' :: r ∧ out = ⟨.wild, ['*'], k⟩ :: out' ∧ SCfg lf d br r out') ∨
    (∃ c r n k out', x = c :: r ∧ Impl.isNameFirst c = true ∧ reProperty (c :: r) = some n ∧
      out = ⟨.property, (c :: r).take n, k⟩ :: out' ∧ SCfg lf d br ((c :: r).drop n) out') ∨
    (∃ r k i out', x = '[' :: r ∧ out = ⟨.lbracket, ['['], k⟩ :: out' ∧ BCfg lf d (('[', i) :: br) r out') := by
  obtain ⟨l, pre, toks, hst, he⟩ := h
  rcases desc_first_emits hst he hg with ⟨r, l', pre', k, out', e1, eo, h', he'⟩ |
    ⟨c, r, n, l', pre', k, out', e1, hn, hre, eo, h', he'⟩ | ⟨r, l', pre', k, i, out', e1, eo, h', he'⟩
  · exact .inl ⟨r, k, out', e1, eo, _, _, _, h', he'⟩
  · exact .inr (.inl ⟨c, r, n, k, out', e1, hn, hre, eo, _, _, _, h', he'⟩)
  · exact .inr (.inr ⟨r, k, i, out', e1, eo, _, _, _, h', he'⟩)

theorem BCfg.next {i : Nat} (hg : ¬ Bad lf) (h : BCfg lf d (('[', i) :: br) x (t :: out)) :
    ∃ rest, brTok x = some (t.kind, t.value, rest) ∧
      ((t.kind = .rbracket ∧ SCfg lf d br rest out) ∨
       (t.kind = .filter ∧ FCfg lf (d + 1) (('[', i) :: br) rest out) ∨
       (t.kind ≠ .rbracket ∧ t.kind ≠ .filter ∧ BCfg lf d (('[', i) :: br) rest out)) := by
  obtain ⟨l, pre, toks, hst, he⟩ := h
  obtain ⟨k, v, rest, l', n, hbt, hc⟩ := brk_next hst he.halts hg
  rcases hc with ⟨rfl, pre', h', hh'⟩ | ⟨rfl, pre', h', hh'⟩ | ⟨hk1, hk2, pre', h', hh'⟩
  · obtain ⟨o, eo, he'⟩ := he.peel hh' (by rw [h'.toks, hst.toks])
    simp only [List.cons.injEq] at eo
    obtain ⟨rfl, rfl⟩ := eo
    exact ⟨rest, hbt, .inl ⟨rfl, _, _, _, h', he'⟩⟩
  · obtain ⟨o, eo, he'⟩ := he.peel hh' (by rw [h'.toks, hst.toks])
    simp only [List.cons.injEq] at eo
    obtain ⟨rfl, rfl⟩ := eo
    exact ⟨rest, hbt, .inr (.inl ⟨rfl, _, _, _, _, h', rfl, he'⟩)⟩
  · obtain ⟨o, eo, he'⟩ := he.peel hh' (by rw [h'.toks, hst.toks])
    simp only [List.cons.injEq] at eo
    obtain ⟨rfl, rfl⟩ := eo
    exact ⟨rest, hbt, .inr (.inr ⟨hk1, hk2, _, _, _, h', he'⟩)⟩

/-- the tokens of a filter-free selector, read in the bracketed state -/
theorem BCfg.toks {i : Nat} (hg : ¬ Bad lf) : ∀ (ts : List Token) (x : List Char) (out : List Token),
    (∀ t ∈ ts, t.kind ≠ .rbracket ∧ t.kind ≠ .filter) → BCfg lf d (('[', i) :: br) x (ts ++ out) →
    ∃ m, BrToks x ts m ∧ BCfg lf d (('[', i) :: br) m out := by
  intro ts
  induction ts with
  | nil => intro x out _ h; exact ⟨x, .nil _, h⟩
  | cons t ts ih =>
    intro x out hts h
    obtain ⟨rest, hbt, hc⟩ := BCfg.next hg (t := t) (out := ts ++ out) (by simpa using h)
    have ht := hts t (by simp)
    rcases hc with ⟨hk, _⟩ | ⟨hk, _⟩ | ⟨hk1, hk2, h'⟩
    · exact absurd hk ht.1
    · exact absurd hk ht.2
    · obtain ⟨m, hb, hm⟩ := ih rest out (fun y hy => hts y (by simp [hy])) h'
      exact ⟨m, .cons _ rest _ _ _ hbt hk1 hk2 hb, hm⟩

end JPV.Proofs.Sf
