/-
C18 on self-referential data, NONDETERMINISTIC mode (`_nondeterministic_visit`), finding D30.

Model: `Impl.G.ndVisit` (JPV/Impl/NdGraph.lean) — the queue-based traversal over a heap of containers
that may refer to each other (`Impl.G.NdHeap`: all children, scalars included; dict-or-list), driven by
the same choice script as the tree model (`ND.coin`, `ND.mergeQ`, `ND.shuffle`); `fuel` = number of
`popleft`s allowed, `some .fuel` = still running.

What is bounded and what is not:
  * `C18_ndgraph_never_completes`, `C18_ndgraph_cycle_outcomes`: if the start node lies on a cycle or
    reaches one, the traversal never completes normally, whatever the script and the fuel;
  * `C18_ndgraph_fuel_bound`, `C18_ndgraph_cycle_raises`: with fan-out ≤ B, `geom B (max+2)`
    = 1 + B + … + B^(max+1) pops suffice on ANY heap, so on cyclic data JSONPathRecursionError IS raised
    within that (exponential) number of steps, for every script;
  * `C18_ndgraph_d30_lower` / `_still_running` (the finding): on the D30 heap `a = [a, a]`, under every
    queue-first script (no `.merge` entry: the interleaving keeps the queue ahead of the grandchildren —
    the all-False and all-True coin scripts are such), whatever the coins, the error comes only after at
    least 2^⌈max/2⌉ - 1 yielded nodes; with the default limit 100 that is 2^50 - 1 — while
    the deterministic traversal raises after exactly `max` nodes (`C18_ndgraph_d30_det`);
  * `C18_ndgraph_d30_fast` (a correction to the finding as first phrased): it is NOT true that no script
    is fast.  The script "coin = True, grandchildren ahead of the queue" raises after at most
    3·(max/2) + 2 nodes.  The exponential behaviour is that of the queue-first (and of the typical random)
    interleavings, not of all of them.
-/
import JPV.Props.Common
import JPV.Proofs.NdGraph.Final
namespace JPV.Props
open JPV

/-- the only outcomes: normal completion, JSONPathRecursionError, still running after `fuel` pops -/
theorem C18_ndgraph_outcomes (h : Impl.G.NdHeap) (max : Int) (fuel root : Nat) (s : Impl.ND.Script) :
    (Impl.G.ndVisit h max fuel root s).2 = none ∨ (Impl.G.ndVisit h max fuel root s).2 = some .recursion ∨
      (Impl.G.ndVisit h max fuel root s).2 = some .fuel := Proofs.NdG.visit_outcomes h max fuel root s

/-- self-referential data: whenever the start node lies on a cycle or reaches one, the traversal never
completes normally — for every limit, every script and every amount of fuel -/
theorem C18_ndgraph_never_completes (h : Impl.G.NdHeap) (max : Int) (fuel root m : Nat) (s : Impl.ND.Script)
    (hnm : root = m ∨ Impl.G.Reach h.toHeap root m) (hc : Impl.G.Reach h.toHeap m m) :
    (Impl.G.ndVisit h max fuel root s).2 ≠ none :=
  Proofs.NdG.visit_never_none h max fuel root s (Proofs.NdG.live_of hnm hc)

theorem C18_ndgraph_cycle_outcomes (h : Impl.G.NdHeap) (max : Int) (fuel root m : Nat) (s : Impl.ND.Script)
    (hnm : root = m ∨ Impl.G.Reach h.toHeap root m) (hc : Impl.G.Reach h.toHeap m m) :
    (Impl.G.ndVisit h max fuel root s).2 = some .recursion ∨ (Impl.G.ndVisit h max fuel root s).2 = some .fuel :=
  Proofs.NdG.cycle_outcomes h max fuel root m s hnm hc

/-- the fuel bound F(B, max) = `geom B (max + 2)` = 1 + B + … + B^(max+1): on ANY heap with fan-out at
most `B` (cyclic or not) the loop has ended — by completion or by JSONPathRecursionError — within that
many pops, for every script -/
theorem C18_ndgraph_fuel_bound (h : Impl.G.NdHeap) (B : Nat) (hB : ∀ i, (h.kids i).length ≤ B) (max : Int)
    (fuel root : Nat) (s : Impl.ND.Script) (hf : Impl.G.geom B (max.toNat + 2) ≤ fuel) :
    (Impl.G.ndVisit h max fuel root s).2 ≠ some .fuel := Proofs.NdG.visit_fuel h B hB max fuel root s hf

/-- at most `1 + B` nodes are yielded per pop -/
theorem C18_ndgraph_yielded (h : Impl.G.NdHeap) (B : Nat) (hB : ∀ i, (h.kids i).length ≤ B) (max : Int)
    (fuel root : Nat) (s : Impl.ND.Script) :
    (Impl.G.ndVisit h max fuel root s).1.length ≤ 1 + fuel * (1 + B) :=
  Proofs.NdG.visit_length h B hB max fuel root s

/-- once the loop has ended, more fuel changes nothing -/
theorem C18_ndgraph_fuel_mono (h : Impl.G.NdHeap) (max : Int) (fuel fuel' root : Nat) (s : Impl.ND.Script)
    (hle : fuel ≤ fuel') (hne : (Impl.G.ndVisit h max fuel root s).2 ≠ some .fuel) :
    Impl.G.ndVisit h max fuel' root s = Impl.G.ndVisit h max fuel root s :=
  Proofs.NdG.visit_mono h max fuel fuel' root s hle hne

/-- self-referential data is rejected in bounded — but exponentially bounded — work: with fan-out at most `B`
and fuel ≥ `geom B (max + 2)`, every script ends in JSONPathRecursionError, after at most
`1 + geom B (max + 2) * (1 + B)` yielded nodes -/
theorem C18_ndgraph_cycle_raises (h : Impl.G.NdHeap) (B : Nat) (hB : ∀ i, (h.kids i).length ≤ B) (max : Int)
    (fuel root m : Nat) (s : Impl.ND.Script)
    (hnm : root = m ∨ Impl.G.Reach h.toHeap root m) (hc : Impl.G.Reach h.toHeap m m)
    (hf : Impl.G.geom B (max.toNat + 2) ≤ fuel) :
    (Impl.G.ndVisit h max fuel root s).2 = some .recursion ∧
    (Impl.G.ndVisit h max fuel root s).1.length ≤ 1 + Impl.G.geom B (max.toNat + 2) * (1 + B) :=
  Proofs.NdG.cycle_raises h B hB max fuel root m s hnm hc hf

/-! ### finding D30: `a = []; a.append(a); a.append(a)` -/

/-- deterministic mode on the D30 heap: JSONPathRecursionError after exactly `max` nodes -/
theorem C18_ndgraph_d30_det (max : Int) :
    (Impl.G.visitTop Impl.G.d30.toHeap max 0).2 = some .recursion ∧
    (Impl.G.visitTop Impl.G.d30.toHeap max 0).1.length = max.toNat := Proofs.NdG.d30_det max

/-- nondeterministic mode on the D30 heap does raise, for every script, given `geom 2 (max + 2)` = 2^(max+2) - 1 pops -/
theorem C18_ndgraph_d30_raises (max : Int) (fuel : Nat) (s : Impl.ND.Script)
    (hf : Impl.G.geom 2 (max.toNat + 2) ≤ fuel) :
    (Impl.G.ndVisit Impl.G.d30 max fuel 0 s).2 = some .recursion := Proofs.NdG.d30_raises max fuel s hf

/-- D30, the lower bound: under every queue-first script (no `.merge` entry), whatever the coins, a
JSONPathRecursionError comes only after at least 2^⌈max/2⌉ - 1 yielded nodes -/
theorem C18_ndgraph_d30_lower (max : Int) (fuel : Nat) (s : Impl.ND.Script)
    (hmf : ∀ c ∈ s, ∀ bs, c ≠ Impl.ND.Choice.merge bs)
    (hr : (Impl.G.ndVisit Impl.G.d30 max fuel 0 s).2 = some .recursion) :
    2 ^ ((max.toNat + 1) / 2) ≤ (Impl.G.ndVisit Impl.G.d30 max fuel 0 s).1.length + 1 :=
  Proofs.NdG.d30_lower max fuel s hmf hr

/-- D30, "no error in any feasible time": under every queue-first script the traversal is still running
after `fuel` pops whenever 3·fuel + 2 < 2^⌈max/2⌉ -/
theorem C18_ndgraph_d30_still_running (max : Int) (fuel : Nat) (s : Impl.ND.Script)
    (hmf : ∀ c ∈ s, ∀ bs, c ≠ Impl.ND.Choice.merge bs)
    (hf : 3 * fuel + 2 < 2 ^ ((max.toNat + 1) / 2)) :
    (Impl.G.ndVisit Impl.G.d30 max fuel 0 s).2 = some .fuel := Proofs.NdG.d30_still_running max fuel s hmf hf

/-- the all-False and all-True coin scripts are queue-first -/
theorem C18_ndgraph_coins_queue_first (b : Bool) (n : Nat) :
    ∀ c ∈ Impl.G.coins b n, ∀ bs, c ≠ Impl.ND.Choice.merge bs := Proofs.NdG.allCoins_mergeFree b n

/-- … but NOT every script is slow: with coin = True and the grandchildren put ahead of the queue in every
interleaving (`fastScript`), JSONPathRecursionError is raised after at most 3·(max/2) + 2 nodes, max/2 + 1 pops -/
theorem C18_ndgraph_d30_fast (max fuel : Nat) (hf : max / 2 + 1 ≤ fuel) :
    (Impl.G.ndVisit Impl.G.d30 max fuel 0 (Proofs.NdG.fastScript (max / 2 + 1))).2 = some .recursion ∧
    (Impl.G.ndVisit Impl.G.d30 max fuel 0 (Proofs.NdG.fastScript (max / 2 + 1))).1.length ≤ 3 * (max / 2) + 2 :=
  Proofs.NdG.d30_fast max fuel hf

/-- the default limit 100 on the D30 heap: deterministic = 100 nodes; queue-first nondeterministic ≥ 2^50 - 1
nodes (still running after any feasible number of pops); grandchildren-first nondeterministic ≤ 152 nodes -/
theorem C18_ndgraph_d30_default :
    ((Impl.G.visitTop Impl.G.d30.toHeap 100 0).2 = some .recursion ∧
      (Impl.G.visitTop Impl.G.d30.toHeap 100 0).1.length = 100) ∧
    (∀ (s : Impl.ND.Script) (fuel : Nat), (∀ c ∈ s, ∀ bs, c ≠ Impl.ND.Choice.merge bs) →
      ((Impl.G.ndVisit Impl.G.d30 100 fuel 0 s).2 = some .recursion →
        2 ^ 50 ≤ (Impl.G.ndVisit Impl.G.d30 100 fuel 0 s).1.length + 1) ∧
      (3 * fuel + 2 < 2 ^ 50 → (Impl.G.ndVisit Impl.G.d30 100 fuel 0 s).2 = some .fuel)) ∧
    ((Impl.G.ndVisit Impl.G.d30 100 51 0 (Proofs.NdG.fastScript 51)).2 = some .recursion ∧
      (Impl.G.ndVisit Impl.G.d30 100 51 0 (Proofs.NdG.fastScript 51)).1.length ≤ 152) :=
  Proofs.NdG.d30_default

/-! evaluated instances (limit 6): all-False coins 2^6 - 1 = 63 nodes, all-True coins 2^5 = 32,
the fast script 8, deterministic 6 -/
example : (Impl.G.ndVisit Impl.G.d30 6 1000 0 []).2 = some .recursion ∧
    (Impl.G.ndVisit Impl.G.d30 6 1000 0 []).1.length = 63 := by decide +kernel
example : (Impl.G.ndVisit Impl.G.d30 6 1000 0 (Impl.G.coins true 1000)).2 = some .recursion ∧
    (Impl.G.ndVisit Impl.G.d30 6 1000 0 (Impl.G.coins true 1000)).1.length = 32 := by decide +kernel
example : (Impl.G.ndVisit Impl.G.d30 6 1000 0 (Proofs.NdG.fastScript 4)).2 = some .recursion ∧
    (Impl.G.ndVisit Impl.G.d30 6 1000 0 (Proofs.NdG.fastScript 4)).1.length = 8 := by decide +kernel
example : (Impl.G.visitTop Impl.G.d30.toHeap 6 0).1.length = 6 := (Proofs.NdG.d30_det 6).2

/-- the lower bound 2^⌈max/2⌉ - 1 for queue-first scripts is tight up to a factor 2: with limit 8 (bound 15) the
coin sequence "True for the first entry of each generation, False otherwise" (the Falses also stand for the
entries the queue-first interleavings consume) raises after 30 = 2^5 - 2 nodes — the minimum over all coin
sequences found by exhaustive search outside Lean for max = 2..8 is 2, 4, 6, 10, 14, 22, 30 -/
example : (Impl.G.ndVisit Impl.G.d30 8 1000 0
      ([.coin true] ++ Impl.G.coins false 3 ++ [.coin true] ++ Impl.G.coins false 7 ++ [.coin true] ++
        Impl.G.coins false 15 ++ [.coin true])).2 = some .recursion ∧
    (Impl.G.ndVisit Impl.G.d30 8 1000 0
      ([.coin true] ++ Impl.G.coins false 3 ++ [.coin true] ++ Impl.G.coins false 7 ++ [.coin true] ++
        Impl.G.coins false 15 ++ [.coin true])).1.length = 30 := by decide +kernel

end JPV.Props
