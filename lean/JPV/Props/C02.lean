/-
C02 — Filter selection follows RFC 9535 (existence, logic, scoping, iteration);
this file also carries the evaluator-level theorem from which C01 and C10 are
corollaries.

Property text: "For every valid query containing filter selectors and every
JSON value, find() selects exactly the children (array elements in order, object
member values) for which the filter expression is true under RFC 9535: a query
used as a test is true iff it selects at least one node whatever that node's
value is, '!', '&&', '||' and parentheses are classical logic with RFC
precedence, '@' denotes the child being tested and '$' the root of the query
argument at any nesting depth. Filters applied to scalars select nothing."

`eval_correct` is stated on compiled queries (the AST `parse.py` builds) for an
arbitrary registry of function extensions; the text → AST step is the subject of
C03/C04/C05/C12.  Hypotheses, each a decidable predicate or an explicit
contract, and what they exclude:
  * `Spec.wtQuery` — the query is well-typed (RFC §2.4.3); compile() refuses the
    others (C05), so they never reach evaluation;
  * `v.WF` — member names of every object are distinct (what `json.load` and
    dict literals produce);
  * `v.depth ≤ env.maxDepth` — the document is within the configured recursion
    limit (C18 covers the other side);
  * `EnvConforms` — each registered Python function body implements a typed
    function on arguments of its declared types (true of length/count/value:
    `builtin_conforms`; assumed of user functions, whose bodies are arbitrary
    Python).
-/
import JPV.Props.Common
import JPV.Proofs.Eval
namespace JPV.Props
open JPV

def eval_correct_statement : Prop :=
  ∀ (env : Impl.Env) (reg : Spec.Registry) (q : Query) (v : Json),
    EnvConforms env reg → Spec.wtQuery (sigsOf reg) q = true → v.WF →
    (v.depth : Int) ≤ env.maxDepth → 1 ≤ env.maxDepth →
    Impl.find env q v = .ok (Spec.select reg q v)

theorem eval_correct : eval_correct_statement := Proofs.eval_correct

/-- the three operationally modelled built-ins satisfy the contract -/
theorem builtin_conforms : EnvConforms builtinEnv builtinReg := Proofs.builtin_conforms

/-- C02 for the built-in registry, no function contract left to assume. -/
theorem C02_builtin (q : Query) (v : Json)
    (hwt : Spec.wtQuery (sigsOf builtinReg) q = true) (hwf : v.WF) (hd : v.depth ≤ 100) :
    Impl.find builtinEnv q v = .ok (Spec.select builtinReg q v) :=
  Proofs.eval_correct builtinEnv builtinReg q v builtin_conforms hwt hwf
    (by show (v.depth : Int) ≤ 100; exact_mod_cast hd) (by decide)

/-- "Filters applied to scalars select nothing" -/
theorem C02_scalar (env : Impl.Env) (root : Json) (e : Expr) (n : Node) (h : n.val.isContainer = false) :
    Impl.evalSel env root (.filter e) n = ([], none) := Proofs.filter_scalar env root e n h

/-- "a query used as a test is true iff it selects at least one node whatever
that node's value is": the evaluator's truth value of an embedded query depends
only on the node list being non-empty -/
theorem C02_existence (ns : List Node) : Impl.truthy (.nodes ns) = !ns.isEmpty := rfl

/-- classical logic: the truth value of `!`, `&&`, `||` over well-typed operands -/
theorem C02_logic (reg : Spec.Registry) (root cur : Json) (l r : Expr) :
    Spec.testOf reg root cur (.not l) = !Spec.testOf reg root cur l ∧
    Spec.testOf reg root cur (.logical .and l r) = (Spec.testOf reg root cur l && Spec.testOf reg root cur r) ∧
    Spec.testOf reg root cur (.logical .or l r) = (Spec.testOf reg root cur l || Spec.testOf reg root cur r) := by
  simp [Spec.testOf]

/-- Non-vacuity: `$[?@]` on `[0,false,"",null,[],{},1]` meets every hypothesis and
keeps all seven children (the defect repaired in 6629ab6). -/
example :
    let q : Query := [.child [.filter (.rel [])]]
    let v : Json := .arr [.num (Num.ofInt 0), .bool false, .str [], .null, .arr [], .obj [], .num (Num.ofInt 1)]
    Spec.wtQuery (sigsOf builtinReg) q = true ∧ (Impl.find builtinEnv q v).toOption.map List.length = some 7 := by
  decide

end JPV.Props
