import JPV.Proofs.PfComb
namespace JPV.Proofs.Pf
open JPV JPV.Proofs JPV.Proofs.Prn

/-! ### terms: literals, queries, calls -/

def litOK : Json → Bool
  | .str _ => true
  | .bool _ => true
  | .null => true
  | _ => false

def fnChar (d : Char) : Bool := Spec.isLCALPHA d || d = '_' || Spec.isDIGIT d

def nameOK (f : Str) : Bool :=
  match f with
  | c :: rest => Spec.isLCALPHA c && rest.all (fun d => Spec.isLCALPHA d || d = '_' || Spec.isDIGIT d)
  | [] => false

theorem SafeT.head {rest} (h : SafeT rest) :
    ∃ c t, rest = c :: t ∧ (c = ' ' ∨ c = ')' ∨ c = ']' ∨ c = ',') := by
  cases h with
  | follow h => cases h <;> exact ⟨_, _, rfl, by simp⟩
  | cop op t => exact ⟨_, _, rfl, by simp⟩

theorem functionName_stop (f : Str) (hf : nameOK f = true) (X : List Char)
    (hX : ∀ c t, X = c :: t → fnChar c = false) :
    Spec.functionName (f ++ X) = some (f, X) := by
  cases f with
  | nil => simp [nameOK] at hf
  | cons c u =>
    simp only [nameOK, Bool.and_eq_true, List.all_eq_true] at hf
    rw [List.cons_append, Spec.functionName, if_pos hf.1]
    have : (u ++ X).takeWhile (fun c => Spec.isLCALPHA c || c = '_' || Spec.isDIGIT c) = u :=
      takeWhile_append_of _ u X hf.2 hX
    simp only [this, List.drop_left]

theorem term_literal (f : Nat) (c : Char) (t : List Char) (h1 : c ≠ '@') (h2 : c ≠ '$')
    (hfn : ∀ name r, Spec.functionName (c :: t) ≠ some (name, '(' :: r)) :
    Spec.term (f + 1) (c :: t) = (Spec.literal (c :: t)).map (fun (v, r) => (.lit v, r)) := by
  rw [term_other _ _ _ h1 h2]
  split
  · rename_i h; exact absurd h (hfn _ _)
  · rfl

theorem literal_str (s : Str) (rest : List Char) :
    Spec.literal (Impl.canonicalString s ++ rest) = some (.str s, rest) := by
  rw [Spec.literal, canonicalString_eq, stringLiteral_normalName]

theorem literal_true (rest : List Char) :
    Spec.literal ('t' :: 'r' :: 'u' :: 'e' :: rest) = some (.bool true, rest) := by
  rw [Spec.literal, stringLiteral_other _ _ (by decide) (by decide)]
  simp [Spec.lit]; rfl

theorem literal_false (rest : List Char) :
    Spec.literal ('f' :: 'a' :: 'l' :: 's' :: 'e' :: rest) = some (.bool false, rest) := by
  rw [Spec.literal, stringLiteral_other _ _ (by decide) (by decide)]
  simp [Spec.lit]; rfl

theorem literal_null (rest : List Char) :
    Spec.literal ('n' :: 'u' :: 'l' :: 'l' :: rest) = some (.null, rest) := by
  rw [Spec.literal, stringLiteral_other _ _ (by decide) (by decide)]
  simp [Spec.lit]; rfl

theorem literal_strLit (v : Json) (hv : litOK v = true) (rest : List Char) :
    Spec.literal (Impl.strLit v ++ rest) = some (v, rest) := by
  cases v with
  | str s => rw [strLit_str]; exact literal_str s rest
  | bool b => cases b; exact literal_false rest; exact literal_true rest
  | null => exact literal_null rest
  | num _ | arr _ | obj _ => simp [litOK] at hv

theorem strLit_head (v : Json) (hv : litOK v = true) :
    ∃ c t, Impl.strLit v = c :: t ∧ (c = '\'' ∨ (nameOK (c :: t) = true)) := by
  cases v with
  | str s => rw [strLit_str, canonicalString_eq]; exact ⟨'\'', _, rfl, Or.inl rfl⟩
  | bool b => cases b; exact ⟨'f', _, rfl, Or.inr (by decide)⟩; exact ⟨'t', _, rfl, Or.inr (by decide)⟩
  | null => exact ⟨'n', _, rfl, Or.inr (by decide)⟩
  | num _ | arr _ | obj _ => simp [litOK] at hv

theorem nameOK_head {c : Char} {t : List Char} (h : nameOK (c :: t) = true) : Spec.isLCALPHA c = true := by
  simp only [nameOK, Bool.and_eq_true] at h; exact h.1

theorem functionName_none (c : Char) (t : List Char) (h : Spec.isLCALPHA c = false) :
    Spec.functionName (c :: t) = none := by
  rw [Spec.functionName, if_neg (by simp [h])]

theorem PT_lit (v : Json) (hv : litOK v = true) : PT (Impl.strLit v) (.lit v) := by
  obtain ⟨c, t, e, hc⟩ := strLit_head v hv
  have hth : THc c := by
    rcases hc with rfl | hc
    · show THb _ = true; decide
    · have := nameOK_head hc; simp [THc, THb, this]
  refine ⟨⟨c, t, e, hth⟩, ?_⟩
  intro rest hrest fuel hf
  obtain ⟨f, rfl⟩ : ∃ f, fuel = f + 1 := ⟨fuel - 1, by omega⟩
  refine ⟨.lit v, ?_, ⟨by rw [Spec.abstractExpr], by rw [Spec.cmpShapeExpr]⟩, fun _ => by rw [Spec.operandShape] <;> (intros; simp_all)⟩
  have hl := literal_strLit v hv rest
  rw [e, List.cons_append] at hl ⊢
  have c1 : c ≠ '@' := by
    rcases hc with rfl | hc
    · decide
    · have := nameOK_head hc; rintro rfl; revert this; decide
  have c2 : c ≠ '$' := by
    rcases hc with rfl | hc
    · decide
    · have := nameOK_head hc; rintro rfl; revert this; decide
  rw [term_literal _ _ _ c1 c2, hl]
  · rfl
  · intro name r
    rcases hc with rfl | hc
    · rw [functionName_none _ _ (by decide)]; simp
    · have := functionName_stop (c :: t) hc rest (by
        obtain ⟨d, u, rfl, hd⟩ := hrest.head
        intro d' u' e'
        simp only [List.cons.injEq] at e'
        rw [← e'.1]
        rcases hd with rfl | rfl | rfl | rfl <;> decide)
      rw [List.cons_append] at this
      rw [this]
      obtain ⟨d, u, rfl, hd⟩ := hrest.head
      intro h
      simp only [Option.some.injEq, Prod.mk.injEq, List.cons.injEq] at h
      rcases hd with rfl | rfl | rfl | rfl <;> exact absurd h.2.1 (by decide)


/-! ### queries -/

theorem segs_print_rest : ∀ (q : List Segment), (∀ sg ∈ q, GoodSeg sg) → ∀ (fuel : Nat) (rest : List Char),
    (∀ f, Spec.segment f (Spec.skipS rest) = none) →
    (Impl.strSegs q).length + 1 ≤ fuel →
    Spec.segments fuel (Impl.strSegs q ++ rest) = some (q.map csegOf, rest) := by
  intro q
  induction q with
  | nil =>
    intro _ fuel rest hrest hf
    obtain ⟨f, rfl⟩ : ∃ f, fuel = f + 1 := ⟨fuel - 1, by omega⟩
    rw [strSegs_nil, List.nil_append, Spec.segments, hrest f]
    rfl
  | cons sg q ih =>
    intro hg fuel rest hrest hf
    have hq := ih (fun x hx => hg x (by simp [hx]))
    have hsg := hg sg (by simp)
    cases sg with
    | child sels =>
      obtain ⟨hnf, hne⟩ := hsg
      cases sels with
      | nil => exact absurd rfl hne
      | cons s ss =>
        rw [strSegs_child] at hf ⊢
        rw [strSels_eq] at hf
        have := tailStr_length ss (fun x hx => hnf x (by simp [hx]))
        have := strSel_length s (hnf s (by simp))
        simp only [List.length_append, List.length_cons, List.length_nil] at hf
        obtain ⟨f, rfl⟩ : ∃ f, fuel = f + 2 := ⟨fuel - 2, by omega⟩
        have e : ['['] ++ Impl.strSels (s :: ss) ++ [']'] ++ Impl.strSegs q ++ rest
          = '[' :: (Impl.strSels (s :: ss) ++ ']' :: (Impl.strSegs q ++ rest)) := by simp
        rw [e, Spec.segments, skipS_cons (by decide), Spec.segment,
          bracketed_print s ss hnf f _ (by omega)]
        simp only [Option.map_some]
        rw [hq (f + 1) rest hrest (by omega)]
        rfl
    | desc sels =>
      obtain ⟨hnf, hne⟩ := hsg
      cases sels with
      | nil => exact absurd rfl hne
      | cons s ss =>
        rw [strSegs_desc] at hf ⊢
        rw [strSels_eq] at hf
        have := tailStr_length ss (fun x hx => hnf x (by simp [hx]))
        have := strSel_length s (hnf s (by simp))
        simp only [List.length_append, List.length_cons, List.length_nil] at hf
        obtain ⟨f, rfl⟩ : ∃ f, fuel = f + 2 := ⟨fuel - 2, by omega⟩
        have e : ['.', '.', '['] ++ Impl.strSels (s :: ss) ++ [']'] ++ Impl.strSegs q ++ rest
          = '.' :: '.' :: '[' :: (Impl.strSels (s :: ss) ++ ']' :: (Impl.strSegs q ++ rest)) := by simp
        rw [e, Spec.segments, skipS_cons (by decide), Spec.segment,
          bracketed_print s ss hnf f _ (by omega)]
        simp only [Option.map_some]
        rw [hq (f + 1) rest hrest (by omega)]
        rfl

/-- every slice step is written out -/
def stepsOK (q : Query) : Bool :=
  q.all (fun s => match s with
    | .child sels => sels.all (fun x => match x with | .slice _ _ none => false | _ => true)
    | .desc sels => sels.all (fun x => match x with | .slice _ _ none => false | _ => true))

theorem normStepSel_id (x : Selector)
    (h : (match x with | .slice _ _ none => false | _ => true) = true) : normStepSel x = x := by
  cases x with
  | slice a b c => cases c with
    | none => simp at h
    | some i => rfl
  | _ => rfl

theorem map_normStepSel_id (sels : List Selector)
    (h : sels.all (fun x => match x with | .slice _ _ none => false | _ => true) = true) :
    sels.map normStepSel = sels := by
  rw [List.all_eq_true] at h
  conv => rhs; rw [← List.map_id sels]
  apply List.map_congr_left
  intro x hx
  exact normStepSel_id x (h x hx)

theorem normStep_id (q : Query) (h : stepsOK q = true) : normStep q = q := by
  unfold normStep
  unfold stepsOK at h
  rw [List.all_eq_true] at h
  conv => rhs; rw [← List.map_id q]
  apply List.map_congr_left
  intro sg hsg
  have := h sg hsg
  cases sg with
  | child sels => simp only [normStepSeg, id]; rw [map_normStepSel_id sels this]
  | desc sels => simp only [normStepSeg, id]; rw [map_normStepSel_id sels this]

/-- what a printed query needs in order to read back as itself -/
def QOK (q : Query) : Prop := (∀ sg ∈ q, GoodSeg sg) ∧ normStep q = q

theorem qok_of (q : Query) (hff : Spec.filterFree q = true) (hne : nonEmptySegs q = true)
    (hs : stepsOK q = true) : QOK q := ⟨good_of q hff hne, normStep_id q hs⟩

theorem qok_of_singular : ∀ (q : Query), Query.isSingular q = true → QOK q
  | [], _ => ⟨by simp, rfl⟩
  | sg :: q, h => by
    simp only [Query.isSingular, List.all_cons, Bool.and_eq_true] at h
    obtain ⟨h1, h2⟩ := qok_of_singular q h.2
    have hsg : GoodSeg sg ∧ normStepSeg sg = sg := by
      cases sg with
      | desc sels => simp [Segment.isSingular] at h
      | child sels =>
        match sels, h.1 with
        | [.name s], _ => exact ⟨⟨by intro x hx; simp at hx; subst hx; rfl, by simp⟩, rfl⟩
        | [.index i], _ => exact ⟨⟨by intro x hx; simp at hx; subst hx; rfl, by simp⟩, rfl⟩
    refine ⟨?_, ?_⟩
    · intro x hx
      rcases List.mem_cons.1 hx with rfl | hx
      · exact hsg.1
      · exact h1 x hx
    · unfold normStep at h2 ⊢
      rw [List.map_cons, hsg.2, h2]

theorem singularSegs_cseg : ∀ (q : Query), Query.isSingular q = true →
    Spec.singularSegs (q.map csegOf) = (true, false)
  | [], _ => by rw [List.map, Spec.singularSegs]
  | sg :: q, h => by
    simp only [Query.isSingular, List.all_cons, Bool.and_eq_true] at h
    have ih := singularSegs_cseg q h.2
    cases sg with
    | desc sels => simp [Segment.isSingular] at h
    | child sels =>
      match sels, h.1 with
      | [.name s], _ =>
        simp only [List.map, csegOf, cselOf]
        rw [Spec.singularSegs]; simp only [ih]; rfl
      | [.index i], _ =>
        simp only [List.map, csegOf, cselOf]
        rw [Spec.singularSegs]; simp only [ih]; rfl

theorem PT_rel (q : Query) (h : QOK q) : PT ('@' :: Impl.strSegs q) (.rel q) := by
  refine ⟨⟨'@', _, rfl, by decide⟩, ?_⟩
  intro rest hrest fuel hf
  simp only [List.length_cons] at hf
  obtain ⟨f, rfl⟩ : ∃ f, fuel = f + 1 := ⟨fuel - 1, by omega⟩
  refine ⟨.rel (q.map csegOf), ?_, ⟨?_, ?_⟩, ?_⟩
  · rw [List.cons_append, term_rel, segs_print_rest q h.1 f rest hrest.segNone (by omega)]
    rfl
  · rw [Spec.abstractExpr, abstractSegs_cseg q h.1, h.2]
  · rw [Spec.cmpShapeExpr, cmpShapeSegs_cseg]
  · intro hs
    rw [Spec.operandShape]
    exact singularSegs_cseg q hs

theorem PT_root (q : Query) (h : QOK q) : PT ('$' :: Impl.strSegs q) (.root q) := by
  refine ⟨⟨'$', _, rfl, by decide⟩, ?_⟩
  intro rest hrest fuel hf
  simp only [List.length_cons] at hf
  obtain ⟨f, rfl⟩ : ∃ f, fuel = f + 1 := ⟨fuel - 1, by omega⟩
  refine ⟨.root (q.map csegOf), ?_, ⟨?_, ?_⟩, ?_⟩
  · rw [List.cons_append, term_root, segs_print_rest q h.1 f rest hrest.segNone (by omega)]
    rfl
  · rw [Spec.abstractExpr, abstractSegs_cseg q h.1, h.2]
  · rw [Spec.cmpShapeExpr, cmpShapeSegs_cseg]
  · intro hs
    rw [Spec.operandShape]
    exact singularSegs_cseg q hs


/-! ### function calls -/

theorem nameOK_THc {c : Char} {t : List Char} (h : nameOK (c :: t) = true) : THc c := by
  have := nameOK_head h; simp [THc, THb, this]

theorem lc_ne {c : Char} (h : Spec.isLCALPHA c = true) (d : Char)
    (hd : Spec.isLCALPHA d = false := by decide) : c ≠ d := by
  rintro rfl; rw [h] at hd; cases hd

theorem functionName_call (fn : Str) (hfn : nameOK fn = true) (Y : List Char) :
    Spec.functionName (fn ++ '(' :: Y) = some (fn, '(' :: Y) :=
  functionName_stop fn hfn _ (by intro c t e; simp only [List.cons.injEq] at e; rw [← e.1]; decide)

theorem term_call_nil (F : Nat) (fn : Str) (hfn : nameOK fn = true) (rest : List Char) :
    Spec.term (F + 1) (fn ++ '(' :: ')' :: rest) = some (.call fn [], rest) := by
  have hn := functionName_call fn hfn (')' :: rest)
  cases fn with
  | nil => simp [nameOK] at hfn
  | cons c u =>
    have hc := nameOK_head hfn
    rw [List.cons_append] at hn ⊢
    rw [term_other _ _ _ (lc_ne hc '@') (lc_ne hc '$'), hn]
    simp only [skipS_cons (show Spec.isBlank ')' = false by decide)]

theorem term_call_cons (F : Nat) (fn : Str) (hfn : nameOK fn = true) (d : Char) (t : List Char)
    (hb : Spec.isBlank d = false) (hd : d ≠ ')') :
    Spec.term (F + 1) (fn ++ '(' :: d :: t) =
      match Spec.argument F (d :: t) with
      | none => none
      | some (a, r2) =>
        match Spec.moreArgs F r2 with
        | none => none
        | some (as, r3) =>
          match Spec.skipS r3 with
          | ')' :: r4 => some (.call fn (a :: as), r4)
          | _ => none := by
  have hn := functionName_call fn hfn (d :: t)
  cases fn with
  | nil => simp [nameOK] at hfn
  | cons c u =>
    have hc := nameOK_head hfn
    rw [List.cons_append] at hn ⊢
    rw [term_other _ _ _ (lc_ne hc '@') (lc_ne hc '$'), hn]
    simp only [skipS_cons hb]
    split
    · rename_i h; simp only [List.cons.injEq] at h; exact absurd h.1 hd
    · rfl

def ArgFollow (rest : List Char) : Prop := (∃ t, rest = ',' :: t) ∨ (∃ t, rest = ')' :: t)

theorem ArgFollow.safeO {rest} (h : ArgFollow rest) : SafeO rest := by
  rcases h with ⟨t, rfl⟩ | ⟨t, rfl⟩
  · exact safeO_comma t
  · exact safeO_rparen t

def PArg (s : Str) (a : Expr) : Prop :=
  NB s ∧ ∀ rest, ArgFollow rest → ∀ fuel, 2 * s.length + 6 ≤ fuel →
    ∃ cx, Spec.argument fuel (s ++ rest) = some (cx, rest) ∧ Good cx a

/-- the text is not a literal followed by `,` or `)` (it is read as a logical-expr argument) -/
def NoLitArg (s : Str) : Prop :=
  ∀ rest v r, Spec.literal (s ++ rest) = some (v, r) →
    (∀ t, Spec.skipS r ≠ ',' :: t) ∧ (∀ t, Spec.skipS r ≠ ')' :: t)

theorem PO.arg {s a} (h : PO s a) (hn : NoLitArg s) : PArg s a := by
  obtain ⟨hh, hp⟩ := h
  refine ⟨hh, ?_⟩
  intro rest hr fuel hf
  obtain ⟨f, rfl⟩ : ∃ f, fuel = f + 1 := ⟨fuel - 1, by omega⟩
  obtain ⟨cx, hcx, hg⟩ := hp rest hr.safeO f (by omega)
  exact ⟨cx, by rw [argument_nolit _ _ (hn rest), hcx], hg⟩

theorem PArg_lit (v : Json) (hv : litOK v = true) : PArg (Impl.strLit v) (.lit v) := by
  refine ⟨(PT_lit v hv).1.nb, ?_⟩
  intro rest hr fuel hf
  obtain ⟨f, rfl⟩ : ∃ f, fuel = f + 1 := ⟨fuel - 1, by omega⟩
  exact ⟨.lit v, argument_lit _ _ _ _ (literal_strLit v hv rest) hr,
    ⟨by rw [Spec.abstractExpr], by rw [Spec.cmpShapeExpr]⟩⟩

/-- the text after the first argument -/
def tailArgs (as : List Expr) : Str := as.flatMap (fun a => [',', ' '] ++ Impl.strExpr a)

theorem strArgs_nil : Impl.strArgs [] = [] := by rw [Impl.strArgs]
theorem strArgs_one (a) : Impl.strArgs [a] = Impl.strExpr a := by rw [Impl.strArgs]
theorem strArgs_cons (a b as) :
    Impl.strArgs (a :: b :: as) = Impl.strExpr a ++ [',', ' '] ++ Impl.strArgs (b :: as) := by
  rw [Impl.strArgs]; simp

theorem strArgs_eq : ∀ (a : Expr) (as : List Expr),
    Impl.strArgs (a :: as) = Impl.strExpr a ++ tailArgs as
  | a, [] => by rw [strArgs_one]; simp [tailArgs]
  | a, b :: as => by
    rw [strArgs_cons, strArgs_eq b as]
    simp [tailArgs]

theorem tailArgs_follow (as : List Expr) (R : List Char) : ArgFollow (tailArgs as ++ ')' :: R) := by
  cases as with
  | nil => exact Or.inr ⟨R, rfl⟩
  | cons a as => exact Or.inl ⟨_, by simp only [tailArgs, List.flatMap_cons, List.cons_append, List.nil_append, List.append_assoc]; rfl⟩

theorem more_print : ∀ (as : List Expr), (∀ a ∈ as, PArg (Impl.strExpr a) a) →
    ∀ (fuel : Nat) (R : List Char), 2 * (tailArgs as).length + 5 ≤ fuel →
    ∃ cs, Spec.moreArgs fuel (tailArgs as ++ ')' :: R) = some (cs, ')' :: R) ∧
      Spec.abstractArgs cs = as ∧ Spec.cmpShapeArgs cs = (true, false) := by
  intro as
  induction as with
  | nil =>
    intro _ fuel R hf
    obtain ⟨f, rfl⟩ : ∃ f, fuel = f + 1 := ⟨fuel - 1, by omega⟩
    exact ⟨[], moreArgs_stop f R, by rw [Spec.abstractArgs], by rw [Spec.cmpShapeArgs]⟩
  | cons a as ih =>
    intro h fuel R hf
    have e : tailArgs (a :: as) = ',' :: ' ' :: (Impl.strExpr a ++ tailArgs as) := by
      simp [tailArgs]
    rw [e] at hf ⊢
    simp only [List.length_append, List.length_cons] at hf
    obtain ⟨f, rfl⟩ : ∃ f, fuel = f + 1 := ⟨fuel - 1, by omega⟩
    obtain ⟨hh, hp⟩ := h a (by simp)
    obtain ⟨ca, hca, hga⟩ := hp (tailArgs as ++ ')' :: R) (tailArgs_follow as R) f (by omega)
    obtain ⟨cs, hcs, hgs, hss⟩ := ih (fun x hx => h x (by simp [hx])) f R (by omega)
    refine ⟨ca :: cs, ?_, ?_, ?_⟩
    · rw [List.cons_append, List.cons_append, List.append_assoc, moreArgs_step, hh.skipS, hca]
      simp only [hcs]
    · rw [Spec.abstractArgs, hga.abs, hgs]
    · rw [Spec.cmpShapeArgs, hga.shape, hss]; rfl

theorem PT_call (fn : Str) (hfn : nameOK fn = true) (args : List Expr)
    (h : ∀ a ∈ args, PArg (Impl.strExpr a) a) :
    PT (fn ++ ['('] ++ Impl.strArgs args ++ [')']) (.call fn args) := by
  refine ⟨?_, ?_⟩
  · cases fn with
    | nil => simp [nameOK] at hfn
    | cons c u => exact ⟨c, _, by simp only [List.cons_append]; rfl, nameOK_THc hfn⟩
  intro rest hrest fuel hf
  have hfl : 1 ≤ fn.length := by
    cases fn with
    | nil => simp [nameOK] at hfn
    | cons c u => simp
  simp only [List.length_append, List.length_cons, List.length_nil] at hf
  obtain ⟨F, rfl⟩ : ∃ F, fuel = F + 1 := ⟨fuel - 1, by omega⟩
  cases args with
  | nil =>
    refine ⟨.call fn [], ?_, ⟨?_, ?_⟩, fun _ => ?_⟩
    · have e : fn ++ ['('] ++ Impl.strArgs [] ++ [')'] ++ rest = fn ++ '(' :: ')' :: rest := by
        rw [strArgs_nil]; simp
      rw [e, term_call_nil F fn hfn]
    · rw [Spec.abstractExpr, Spec.abstractArgs]
    · rw [Spec.cmpShapeExpr, Spec.cmpShapeArgs]
    · rw [Spec.operandShape] <;> (intros; simp_all)
  | cons a as =>
    rw [strArgs_eq] at hf
    simp only [List.length_append] at hf
    obtain ⟨hh, hp⟩ := h a (by simp)
    obtain ⟨ca, hca, hga⟩ := hp (tailArgs as ++ ')' :: rest) (tailArgs_follow as rest) F (by omega)
    obtain ⟨cs, hcs, hgs, hss⟩ := more_print as (fun x hx => h x (by simp [hx])) F rest (by omega)
    refine ⟨.call fn (ca :: cs), ?_, ⟨?_, ?_⟩, fun _ => ?_⟩
    · have e : fn ++ ['('] ++ Impl.strArgs (a :: as) ++ [')'] ++ rest
          = fn ++ '(' :: (Impl.strExpr a ++ (tailArgs as ++ ')' :: rest)) := by
        rw [strArgs_eq]; simp
      rw [e]
      obtain ⟨d, u, ed, hb, hd⟩ := hh
      rw [ed, List.cons_append] at hca ⊢
      rw [term_call_cons F fn hfn d _ hb hd, hca]
      simp only [hcs, skipS_cons (show Spec.isBlank ')' = false by decide)]
    · rw [Spec.abstractExpr, Spec.abstractArgs, hga.abs, hgs]
    · rw [Spec.cmpShapeExpr, Spec.cmpShapeArgs, hga.shape, hss]; rfl
    · rw [Spec.operandShape] <;> (intros; simp_all)


/-! ### arguments that are not literals -/

theorem lit_some {s : String} {inp r : List Char} (h : Spec.lit s inp = some r) :
    inp = s.toList ++ r := by
  unfold Spec.lit at h
  split at h
  · rename_i hp
    rw [List.isPrefixOf_iff_prefix] at hp
    obtain ⟨t, rfl⟩ := hp
    simp only [Option.some.injEq] at h
    rw [← h, ← String.length_toList, List.drop_left]
  · cases h

theorem intLit_none (c : Char) (t : List Char) (h3 : c ≠ '-') (h4 : c ≠ '0')
    (h5 : Spec.isDIGIT1 c = false) : Spec.intLit (c :: t) = none := by
  rw [Spec.intLit] <;> simp_all

theorem numberSpelling_none (c : Char) (t : List Char) (h3 : c ≠ '-') (h4 : c ≠ '0')
    (h5 : Spec.isDIGIT1 c = false) : Spec.numberSpelling (c :: t) = none := by
  unfold Spec.numberSpelling
  simp only [intLit_none c t h3 h4 h5]
  split
  · rfl
  · rename_i h
    split at h
    · rename_i h'; simp only [List.cons.injEq] at h'; exact absurd h'.1 h3
    · cases h

theorem literal_eq_kw (c : Char) (t : List Char) (h1 : c ≠ '"') (h2 : c ≠ '\'') (h3 : c ≠ '-')
    (h4 : c ≠ '0') (h5 : Spec.isDIGIT1 c = false) :
    Spec.literal (c :: t) =
      match Spec.lit "true" (c :: t) with
      | some r => some (.bool true, r)
      | none =>
      match Spec.lit "false" (c :: t) with
      | some r => some (.bool false, r)
      | none =>
      match Spec.lit "null" (c :: t) with
      | some r => some (.null, r)
      | none => none := by
  rw [Spec.literal, stringLiteral_other c t h1 h2, numberSpelling_none c t h3 h4 h5]
  cases Spec.lit "true" (c :: t) <;> cases Spec.lit "false" (c :: t) <;>
    cases Spec.lit "null" (c :: t) <;> rfl

theorem literal_kw (c : Char) (t : List Char) (hc : Spec.isLCALPHA c = true) (v : Json) (r : List Char)
    (h : Spec.literal (c :: t) = some (v, r)) :
    ∃ kw, c :: t = kw ++ r ∧ ∀ x ∈ kw, Spec.isLCALPHA x = true := by
  rw [literal_eq_kw c t (lc_ne hc _) (lc_ne hc _) (lc_ne hc _) (lc_ne hc _)
    (by rw [isLCALPHA_iff] at hc; cases h1 : Spec.isDIGIT1 c with
        | false => rfl
        | true => rw [isDIGIT1_iff] at h1; omega)] at h
  split at h
  · rename_i r' hr
    simp only [Option.some.injEq, Prod.mk.injEq] at h
    rw [← h.2]
    exact ⟨"true".toList, lit_some hr, by decide⟩
  · split at h
    · rename_i r' hr
      simp only [Option.some.injEq, Prod.mk.injEq] at h
      rw [← h.2]
      exact ⟨"false".toList, lit_some hr, by decide⟩
    · split at h
      · rename_i r' hr
        simp only [Option.some.injEq, Prod.mk.injEq] at h
        rw [← h.2]
        exact ⟨"null".toList, lit_some hr, by decide⟩
      · cases h

theorem literal_none_head (c : Char) (t : List Char)
    (hc : c = '(' ∨ c = '!' ∨ c = '@' ∨ c = '$') : Spec.literal (c :: t) = none := by
  rcases hc with rfl | rfl | rfl | rfl <;>
    rw [literal_eq_kw _ _ (by decide) (by decide) (by decide) (by decide) (by decide)] <;>
    simp [Spec.lit, List.isPrefixOf]

theorem fnChar_props {x : Char} (h : fnChar x = true ∨ x = '(') :
    Spec.isBlank x = false ∧ x ≠ ',' ∧ x ≠ ')' := by
  rcases h with h | rfl
  · simp only [fnChar, Bool.or_eq_true, decide_eq_true_eq] at h
    rcases h with (h | rfl) | h
    · rw [isLCALPHA_iff] at h
      refine ⟨?_, ?_, ?_⟩
      · simp only [Spec.isBlank, Bool.or_eq_false_iff, decide_eq_false_iff_not]
        refine ⟨⟨⟨?_, ?_⟩, ?_⟩, ?_⟩ <;> rintro rfl <;> revert h <;> decide
      · rintro rfl; revert h; decide
      · rintro rfl; revert h; decide
    · decide
    · rw [isDIGIT_iff] at h
      refine ⟨?_, ?_, ?_⟩
      · simp only [Spec.isBlank, Bool.or_eq_false_iff, decide_eq_false_iff_not]
        refine ⟨⟨⟨?_, ?_⟩, ?_⟩, ?_⟩ <;> rintro rfl <;> revert h <;> decide
      · rintro rfl; revert h; decide
      · rintro rfl; revert h; decide
  · decide

theorem nameOK_all {fn : Str} (h : nameOK fn = true) : ∀ x ∈ fn, fnChar x = true := by
  cases fn with
  | nil => simp [nameOK] at h
  | cons c u =>
    simp only [nameOK, Bool.and_eq_true, List.all_eq_true] at h
    intro x hx
    rcases List.mem_cons.1 hx with rfl | hx
    · simp [fnChar, h.1]
    · exact h.2 x hx

/-- the shapes a printed non-literal argument can have -/
inductive ArgForm : Str → Prop
  | head (c t) (hc : c = '(' ∨ c = '!' ∨ c = '@' ∨ c = '$') : ArgForm (c :: t)
  | call (fn X) (hfn : nameOK fn = true) : ArgForm (fn ++ '(' :: X)
  | cmpLit (v op X) (hv : litOK v = true) : ArgForm (Impl.strLit v ++ ' ' :: (Impl.copText op ++ X))

theorem ArgForm.noLit {s} (h : ArgForm s) : NoLitArg s := by
  intro rest v r hl
  cases h with
  | head c t hc =>
    rw [List.cons_append, literal_none_head c _ hc] at hl; cases hl
  | call fn X hfn =>
    have hall := nameOK_all hfn
    have hr : ∃ a', (∀ x ∈ a', fnChar x = true) ∧ r = a' ++ '(' :: (X ++ rest) := by
      cases fn with
      | nil => simp [nameOK] at hfn
      | cons c u =>
        have hc := nameOK_head hfn
        simp only [List.cons_append, List.append_assoc] at hl
        obtain ⟨kw, e, hkw⟩ := literal_kw c _ hc v r hl
        have e' : (c :: u) ++ '(' :: (X ++ rest) = kw ++ r := by simpa using e
        rw [List.append_eq_append_iff] at e'
        rcases e' with ⟨c', e1, e2⟩ | ⟨a', e1, e2⟩
        · cases c' with
          | nil => exact ⟨[], by simp, by simpa using e2.symm⟩
          | cons d c'' =>
            simp only [List.cons_append, List.cons.injEq] at e2
            have := hkw '(' (by rw [e1, ← e2.1]; simp)
            exact absurd this (by decide)
        · refine ⟨a', ?_, e2⟩
          intro x hx; exact hall x (by rw [e1]; simp [hx])
    obtain ⟨a', ha', rfl⟩ := hr
    have key : ∃ x t, a' ++ '(' :: (X ++ rest) = x :: t ∧ (fnChar x = true ∨ x = '(') := by
      cases a' with
      | nil => exact ⟨'(', _, rfl, Or.inr rfl⟩
      | cons x a'' => exact ⟨x, _, rfl, Or.inl (ha' x (by simp))⟩
    obtain ⟨x, t, e, hx⟩ := key
    obtain ⟨hb, h1, h2⟩ := fnChar_props hx
    rw [e, skipS_cons hb]
    exact ⟨fun t' h => h1 (by simp only [List.cons.injEq] at h; exact h.1),
      fun t' h => h2 (by simp only [List.cons.injEq] at h; exact h.1)⟩
  | cmpLit v' op X hv =>
    have := literal_strLit v' hv (' ' :: (Impl.copText op ++ X) ++ rest)
    rw [List.append_assoc, this] at hl
    simp only [Option.some.injEq, Prod.mk.injEq] at hl
    rw [← hl.2]
    obtain ⟨d, u, ed, hd⟩ := copText_cases op
    rw [ed]
    simp only [List.cons_append, skipS_sp]
    have hdb : Spec.isBlank d = false := by rcases hd with rfl | rfl | rfl | rfl <;> decide
    rw [skipS_cons hdb]
    refine ⟨fun t' h => ?_, fun t' h => ?_⟩ <;> simp only [List.cons.injEq] at h <;>
      rcases hd with rfl | rfl | rfl | rfl <;> exact absurd h.1 (by decide)

end JPV.Proofs.Pf
