/-
`Proofs.Sf.PiExec` — small facts used by the parser inversion: the token stream on `Ready` states,
inversion of the non-recursive checks (`raiseForUncompared`, `raiseForNonComparable`, `parseLiteral`).
-/
import JPV.Proofs.Sf.PiBase
set_option linter.unusedSimpArgs false
set_option linter.unusedVariables false
namespace JPV.Proofs.Sf
open JPV JPV.Impl JPV.Proofs.Rq JPV.Proofs.Cs JPV.Proofs.Ss

/-! ### streams -/

theorem ready_peek {x : Token} {more : List Token} {st : TStream} (h : Ready x more st) :
    ∃ c, TStream.peek st = (x, ⟨c, [x], more⟩) := by
  rcases h with ⟨c, hc, rfl⟩ | ⟨c, rfl⟩
  · exact ⟨c, peek_fresh c x more hc⟩
  · exact ⟨c, peek_pushed c x more⟩

theorem ready_next {x : Token} {more : List Token} {st : TStream} (h : Ready x more st) :
    (TStream.next st).2 = ⟨x, [], more⟩ := by
  rcases h with ⟨c, hc, rfl⟩ | ⟨c, rfl⟩
  · rw [next_fresh c x more hc]
  · rfl

theorem exec_peekTok_ok {st st1 : TStream} {a : Token} (h : exec peekTok st = (.ok a, st1)) :
    st.peek = (a, st1) := by
  rw [exec_peekTok] at h
  obtain ⟨h1, h2⟩ := Prod.mk.inj h
  have := Except.ok.inj h1
  rw [← this, ← h2]

/-- `peekTok` on a `Ready` stream -/
theorem ready_peekTok {x : Token} {more : List Token} {st st1 : TStream} {a : Token} (h : Ready x more st)
    (hp : exec peekTok st = (.ok a, st1)) : a = x ∧ ∃ c, st1 = ⟨c, [x], more⟩ := by
  obtain ⟨c, hc⟩ := ready_peek h
  have := exec_peekTok_ok hp
  rw [hc] at this
  obtain ⟨h1, h2⟩ := Prod.mk.inj this
  exact ⟨h1.symm, c, h2.symm⟩

/-- `nextTok` on a `Ready` stream -/
theorem ready_nextTok {x : Token} {more : List Token} {st st1 : TStream} {a : Token} (h : Ready x more st)
    (hp : exec nextTok st = (.ok a, st1)) : st1 = ⟨x, [], more⟩ := by
  have := exec_nextTok_ok hp
  rw [ready_next h] at this
  exact this.symm

/-- `nextTok` on a fresh stream with a non-EOF current token -/
theorem fresh_nextTok {c : Token} {rest : List Token} {st1 : TStream} {a : Token} (he : EndsEof (c :: rest))
    (hc : c.kind ≠ .eof) (hp : exec nextTok ⟨c, [], rest⟩ = (.ok a, st1)) :
    c = a ∧ ∃ t rest', rest = t :: rest' ∧ EndsEof (t :: rest') ∧ st1 = ⟨t, [], rest'⟩ := by
  obtain ⟨t, rest', rfl, he', hn⟩ := fresh_next he hc
  rw [exec_nextTok, hn] at hp
  obtain ⟨h1, h2⟩ := Prod.mk.inj hp
  exact ⟨Except.ok.inj h1, t, rest', rfl, he', h2.symm⟩

theorem outOfFuel_ne_ok {α} {st st' : TStream} {r : α} : exec (outOfFuel : P α) st ≠ (.ok r, st') := by
  simp [outOfFuel, exec_throw]

theorem keyError_ne_ok {α} {st st' : TStream} {r : α} : exec (keyError : P α) st ≠ (.ok r, st') := by
  simp [keyError, exec_throw]

/-! ### the checks -/

theorem raiseForUncompared_ok {env : Env} {p : PExpr} {st st' : TStream} {u : Unit}
    (h : exec (raiseForUncompared env p) st = (.ok u, st')) : isLiteral p.e = false ∧ st' = st := by
  unfold raiseForUncompared at h
  cases hl : isLiteral p.e with
  | true => simp [hl, exec_bind, failAt, exec_throw] at h
  | false =>
    refine ⟨rfl, ?_⟩
    simp only [hl, Bool.false_eq_true, if_false] at h
    split at h
    · split at h
      · split at h
        · simp [exec_bind, failAt, exec_throw] at h
        · exact ((exec_pure_ok h).2).symm
      · exact ((exec_pure_ok h).2).symm
    · exact ((exec_pure_ok h).2).symm

theorem raiseForNonComparable_ok {env : Env} {p : PExpr} {tok : Token} {st st' : TStream} {u : Unit}
    (h : exec (raiseForNonComparable env p tok) st = (.ok u, st')) : cmpOk p.e = true ∧ st' = st := by
  unfold raiseForNonComparable at h
  split at h
  · rename_i v hv; rw [hv]; exact ⟨rfl, ((exec_pure_ok h).2).symm⟩
  · rename_i q hv; rw [hv]; refine ⟨rfl, ?_⟩
    split at h
    · exact absurd h failAt_ne_ok
    · exact ((exec_pure_ok h).2).symm
  · rename_i q hv; rw [hv]; refine ⟨rfl, ?_⟩
    split at h
    · exact absurd h failAt_ne_ok
    · exact ((exec_pure_ok h).2).symm
  · rename_i nm args hv; rw [hv]; refine ⟨rfl, ?_⟩
    split at h
    · split at h
      · exact absurd h failAt_ne_ok
      · exact ((exec_pure_ok h).2).symm
    · exact ((exec_pure_ok h).2).symm
  · exact absurd h failAt_ne_ok

/-! ### literals -/

theorem tokenMap_string {k : TokKind} (h : tokenMap k = some .string) : k = .dqString ∨ k = .sqString := by
  cases k <;> simp [tokenMap] at h ⊢
theorem tokenMap_boolean {k : TokKind} (h : tokenMap k = some .boolean) : k = .true_ ∨ k = .false_ := by
  cases k <;> simp [tokenMap] at h ⊢
theorem tokenMap_float {k : TokKind} (h : tokenMap k = some .float) : k = .float := by
  cases k <;> simp [tokenMap] at h ⊢
theorem tokenMap_int {k : TokKind} (h : tokenMap k = some .int) : k = .int := by
  cases k <;> simp [tokenMap] at h ⊢
theorem tokenMap_null {k : TokKind} (h : tokenMap k = some .null) : k = .null := by
  cases k <;> simp [tokenMap] at h ⊢
theorem tokenMap_grouped {k : TokKind} (h : tokenMap k = some .grouped) : k = .lparen := by
  cases k <;> simp [tokenMap] at h ⊢
theorem tokenMap_prefix {k : TokKind} (h : tokenMap k = some .prefix) : k = .not := by
  cases k <;> simp [tokenMap] at h ⊢
theorem tokenMap_function {k : TokKind} (h : tokenMap k = some .function) : k = .function := by
  cases k <;> simp [tokenMap] at h ⊢
theorem tokenMap_rootQuery {k : TokKind} (h : tokenMap k = some .rootQuery) : k = .root := by
  cases k <;> simp [tokenMap] at h ⊢
theorem tokenMap_relQuery {k : TokKind} (h : tokenMap k = some .relQuery) : k = .current := by
  cases k <;> simp [tokenMap] at h ⊢
theorem tokenMap_ne_eof {k : TokKind} {h : Handler} (hk : tokenMap k = some h) : k ≠ .eof := by
  rintro rfl; simp [tokenMap] at hk

/-- `parseLiteral` agrees with `litVal` -/
theorem parseLiteral_ok {h : Handler} {st st' : TStream} {p : PExpr}
    (hk : tokenMap st.cur.kind = some h)
    (hh : h ≠ .grouped ∧ h ≠ .prefix ∧ h ≠ .function ∧ h ≠ .rootQuery ∧ h ≠ .relQuery)
    (hx : exec (parseLiteral h) st = (.ok p, st')) :
    ∃ v, litVal st.cur = some v ∧ p.e = .lit v ∧ st' = st := by
  unfold parseLiteral at hx
  obtain ⟨c, st1, h1, hx⟩ := exec_bind_ok hx
  obtain ⟨rfl, rfl⟩ := exec_cur_ok h1
  cases h with
  | grouped => exact absurd rfl hh.1
  | «prefix» => exact absurd rfl hh.2.1
  | function => exact absurd rfl hh.2.2.1
  | rootQuery => exact absurd rfl hh.2.2.2.1
  | relQuery => exact absurd rfl hh.2.2.2.2
  | boolean =>
    obtain ⟨rfl, rfl⟩ := exec_pure_ok hx
    rcases tokenMap_boolean hk with e | e
    · refine ⟨_, ?_, rfl, rfl⟩; simp [litVal, e]
    · refine ⟨_, ?_, rfl, rfl⟩; simp [litVal, e]
  | null =>
    obtain ⟨rfl, rfl⟩ := exec_pure_ok hx
    refine ⟨_, ?_, rfl, rfl⟩; simp [litVal, tokenMap_null hk]
  | string =>
    dsimp only at hx
    obtain ⟨s, st1, h1, hx⟩ := exec_bind_ok hx
    obtain ⟨rfl, rfl⟩ := exec_pure_ok hx
    cases hd : decodeStringLiteral st.cur.kind st.cur.value with
    | error e => cases e <;> simp [decodeAt, hd, failAt, exec_throw] at h1
    | ok s' =>
      simp only [decodeAt, hd] at h1
      obtain ⟨rfl, rfl⟩ := exec_pure_ok h1
      rcases tokenMap_string hk with e | e
      · refine ⟨_, ?_, rfl, rfl⟩
        rw [e] at hd; simp [litVal, e, hd]
      · refine ⟨_, ?_, rfl, rfl⟩
        rw [e] at hd; simp [litVal, e, hd]
  | int =>
    dsimp only at hx
    have hki := tokenMap_int hk
    obtain ⟨hz, hx⟩ := exec_guard_ok hx
    cases hi : Py.intOfFloatText st.cur.value with
    | none => rw [hi] at hx; exact absurd hx failAt_ne_ok
    | some oi =>
      rw [hi] at hx
      cases oi with
      | some i =>
        obtain ⟨rfl, rfl⟩ := exec_pure_ok hx
        refine ⟨_, ?_, rfl, rfl⟩; simp [litVal, hki, hz, hi]
      | none =>
        dsimp only at hx
        cases hf : Py.floatOfText st.cur.value with
        | none => rw [hf] at hx; exact absurd hx failAt_ne_ok
        | some y =>
          rw [hf] at hx
          obtain ⟨rfl, rfl⟩ := exec_pure_ok hx
          refine ⟨_, ?_, rfl, rfl⟩; simp [litVal, hki, hz, hi, hf]
  | float =>
    dsimp only at hx
    have hki := tokenMap_float hk
    obtain ⟨hz, hx⟩ := exec_guard_ok hx
    cases hf : Py.floatOfText st.cur.value with
    | none => rw [hf] at hx; exact absurd hx failAt_ne_ok
    | some y =>
      rw [hf] at hx
      obtain ⟨rfl, rfl⟩ := exec_pure_ok hx
      refine ⟨_, ?_, rfl, rfl⟩; simp [litVal, hki, hz, hf]

end JPV.Proofs.Sf
