/-
`Proofs.Cf.LexGSeg` — the step `LexAll f → LexAll (f + 1)` for the selector / segment-level functions
(`selector`, `moreSelectors`, `bracketed`, `segment`, `segments`), the base case, and `∀ f, LexAll f`.
-/
import JPV.Proofs.Cf.LexGExpr
set_option linter.unusedSimpArgs false
namespace JPV.Proofs.Cf
open JPV JPV.Impl JPV.Proofs.Rq

variable {f : Nat}

theorem SL.mono {D : Int} {a b : List Char} {P Q : List Token → Prop} (h : SL D a P b) (hpq : ∀ ts, P ts → Q ts) :
    SL D a Q b := by
  intro l toks br hs
  obtain ⟨s1, l1, t1, r1, v1, p1⟩ := h l toks br hs
  exact ⟨s1, l1, t1, r1, v1, hpq _ p1⟩

/-! ### selectors -/

theorem step_selector (ih : LexAll f) (D : Int) (hD : 0 ≤ D) (inp : List Char) (sel : Spec.CSelector)
    (rest : List Char) (h : Spec.selector (f + 1) inp = some (sel, rest)) (hin : Spec.skipS inp = inp)
    (hf : Cs.Follow rest) : SL D inp (FSelShape sel) rest := by
  cases inp with
  | nil => rw [selector_nil] at h; cases h
  | cons c t =>
    by_cases hc : c = '?'
    · subst hc
      obtain ⟨e, hlo, rfl⟩ := selector_filter_inv h
      intro l toks br hs
      obtain ⟨l1, pre1, h1, e1⟩ := hs.step_bracketed
      rw [hin] at h1
      obtain ⟨l2, s2, h2⟩ := lexBracketed_filter h1
      have b := (ih.logicalOr (D + 1) (by omega) (Spec.skipS t) e rest hlo (Cs.skipS_idem t)
        (.of_follow hf)).of_skipS
      obtain ⟨s3, l3, ts, r3, hv3, p⟩ := b .filter l2 _ br (.of_filter h2)
      exact ⟨s3, l3, ⟨.filter, ['?'], pre1.length⟩ :: ts, (Reach.one (e1.trans s2)).trans r3,
        .inr (by simpa using hv3), .filter e ts _ _ p⟩
    · have hff := selector_plain hc h
      exact (SL.of_FBL (FBL_selector hin h hff hf)).mono (fun ts hts => .plain sel ts hts)

theorem step_moreSelectors (ih : LexAll f) (D : Int) (hD : 0 ≤ D) (inp : List Char) (ss : List Spec.CSelector)
    (rest r5 : List Char) (h : Spec.moreSelectors (f + 1) inp = some (ss, rest))
    (hc : Spec.skipS rest = ']' :: r5) : ML D inp (FMoreShape ss) rest := by
  rcases moreSelectors_inv h with ⟨_, rfl, rfl⟩ | ⟨u, s, r2, ss', hu, hs, hm, rfl⟩
  · intro s l toks i br hv
    exact ⟨s, l, [], .refl, hv, .nil⟩
  · intro s0 l toks i br hv
    obtain ⟨l1, k, r1, hw1⟩ := hv.comma hD hu
    have b2 := (ih.selector D hD (Spec.skipS u) s r2 hs (Cs.skipS_idem u)
      (Cs.more_follow hm hc)).congr_left (Cs.skipS_idem u).symm
    obtain ⟨s2, l2, t1, r2', hv2, p1⟩ := b2 l1 _ _ hw1
    obtain ⟨s3, l3, t2, r3', hv3, p2⟩ := ih.moreSelectors D hD r2 ss' rest r5 hm hc s2 l2 _ i br hv2
    exact ⟨s3, l3, ⟨.comma, [','], k⟩ :: (t1 ++ t2), (r1.trans r2').trans r3', by simpa using hv3,
      .cons s ss' k t1 t2 p1 p2⟩

theorem step_bracketed (ih : LexAll f) (D : Int) (hD : 0 ≤ D) (r : List Char) (sels : List Spec.CSelector)
    (fl : Bool) (rest : List Char) (h : Spec.bracketed (f + 1) ('[' :: r) = some (sels, fl, rest))
    (l : Lexer) (pre : List Char) (toks : List Token) (br : List (Char × Nat))
    (i : Nat) (hst : FSt D l pre [] r toks (('[', i) :: br)) :
    ∃ l' pre' ts k, Reach .bracketed l .segment l' ∧
      FSt D l' pre' [] rest (⟨.rbracket, [']'], k⟩ :: (ts.reverse ++ toks)) br ∧ FSelsShape sels ts := by
  obtain ⟨t, s, r2, ss, r3, et, hs, hm, hcl, rfl⟩ := bracketed_inv h
  simp only [List.cons.injEq, true_and] at et
  subst et
  have b1 := (ih.selector D hD (Spec.skipS r) s r2 hs (Cs.skipS_idem r)
    (Cs.more_follow hm hcl)).congr_left (Cs.skipS_idem r).symm
  obtain ⟨s1, l1, t1, r1, hv1, p1⟩ := b1 l toks _ (.of_FSt hst)
  obtain ⟨s2, l2, t2, r2', hv2, p2⟩ := ih.moreSelectors D hD r2 ss r3 rest hm hcl s1 l1 _ i br hv1
  obtain ⟨l3, pre3, k, r3', hst3⟩ := hv2.close hD hcl
  exact ⟨l3, pre3, t1 ++ t2, k, (r1.trans r2').trans r3', by simpa using hst3, .mk s ss t1 t2 p1 p2⟩

/-! ### segments -/

theorem segment_nil (f : Nat) : Spec.segment f [] = none := by
  cases f with
  | zero => rw [Spec.segment]
  | succ f =>
    rw [Spec.segment]
    all_goals (intro r e; cases e)

theorem step_segment (ih : LexAll f) (D : Int) (hD : 0 ≤ D) (inp : List Char) (seg : Spec.CSegment)
    (rest : List Char) (h : Spec.segment (f + 1) inp = some (seg, rest))
    (l : Lexer) (pre : List Char) (toks : List Token) (br : List (Char × Nat))
    (hst : FSt D l pre [] inp toks br) :
    ∃ lm sm l' pre' ts, Impl.step .segment l = .ok (lm, some sm) ∧ Reach sm lm .segment l' ∧
      FSt D l' pre' [] rest (ts.reverse ++ toks) br ∧ FSegShape seg ts := by
  cases segment_inv h with
  | descWild e1 e2 =>
    subst e1 e2
    have s1 := lexSegment_dotdot hst
    have h1 := hst.adv.adv.emit .doubleDot
    simp only [List.nil_append, List.cons_append] at h1
    have s2 := lexDescendant_wild h1
    have h2 := h1.adv.emit .wild
    exact ⟨_, _, _, _, [_, _], s1, .one s2, by simpa using h2, .descWild _ _⟩
  | descBrack t sels fl e1 hbr e2 =>
    subst e1 e2
    have s1 := lexSegment_dotdot hst
    have h1 := hst.adv.adv.emit .doubleDot
    simp only [List.nil_append, List.cons_append] at h1
    have s2 := lexDescendant_lbracket h1
    have h2 := (h1.adv.emit .lbracket).pushBracket '[' (((l.adv.adv.emit .doubleDot).adv.emit .lbracket).pos - 1)
    simp only [List.nil_append] at h2
    obtain ⟨l3, pre3, ts, k, r3, h3, hsh⟩ := ih.bracketed D hD t sels fl rest hbr _ _ _ br _ h2
    refine ⟨_, _, l3, pre3, ⟨.doubleDot, ['.', '.'], pre.length⟩ ::
      ⟨.lbracket, ['['], (pre ++ ['.', '.']).length⟩ :: (ts ++ [⟨.rbracket, [']'], k⟩]), s1, .step s2 r3, ?_,
      .descBrack sels ts _ _ _ hsh⟩
    simpa using h3
  | descName c t s e1 hc1 hc2 hsh e2 =>
    subst e1 e2
    have s1 := lexSegment_dotdot hst
    have h1 := hst.adv.adv.emit .doubleDot
    simp only [List.nil_append, List.cons_append] at h1
    obtain ⟨c', t', e1, hnf, hre, e2, e3⟩ := Cs.shorthand_reProperty hsh
    simp only [List.cons.injEq] at e1
    obtain ⟨rfl, rfl⟩ := e1
    obtain ⟨l2, s2, h2⟩ := lexDescendant_name h1 hnf hre
      (by rw [← e2, List.length_take]; exact Nat.min_le_right _ _)
    rw [e2, e3] at h2
    exact ⟨_, _, l2, _, [_, _], s1, .one s2, by simpa using h2, .descName _ _ _⟩
  | dotWild e1 e2 =>
    subst e1 e2
    have s1 := lexSegment_dot hst (by decide)
    have h1 := hst.adv
    simp only [List.nil_append] at h1
    have s2 := lexShorthand_wild h1
    have h2 := h1.ignore.adv.emit .wild
    exact ⟨_, _, _, _, [_], s1, .one s2, by simpa using h2, .dotWild _⟩
  | dotName c t s e1 hc1 hc2 hsh e2 =>
    subst e1 e2
    have s1 := lexSegment_dot hst hc1
    have h1 := hst.adv
    simp only [List.nil_append] at h1
    obtain ⟨c', t', e1, hnf, hre, e2, e3⟩ := Cs.shorthand_reProperty hsh
    simp only [List.cons.injEq] at e1
    obtain ⟨rfl, rfl⟩ := e1
    obtain ⟨l2, s2, h2⟩ := lexShorthand_name h1 hnf hre
      (by rw [← e2, List.length_take]; exact Nat.min_le_right _ _)
    rw [e2, e3] at h2
    exact ⟨_, _, l2, _, [_], s1, .one s2, by simpa using h2, .dotName _ _⟩
  | brack t sels fl e1 hbr e2 =>
    subst e1 e2
    have s1 := lexSegment_lbracket hst
    have h2 := (hst.adv.emit .lbracket).pushBracket '[' ((l.adv.emit .lbracket).pos - 1)
    simp only [List.nil_append] at h2
    obtain ⟨l3, pre3, ts, k, r3, h3, hsh⟩ := ih.bracketed D hD t sels fl rest hbr _ _ _ br _ h2
    refine ⟨_, _, l3, pre3, ⟨.lbracket, ['['], pre.length⟩ :: (ts ++ [⟨.rbracket, [']'], k⟩]), s1, r3, ?_,
      .brack sels fl ts _ _ hsh⟩
    simpa using h3

theorem step_segments (ih : LexAll f) (D : Int) (hD : 0 ≤ D) (inp : List Char) (segs : List Spec.CSegment)
    (rest : List Char) (h : Spec.segments (f + 1) inp = some (segs, rest))
    (l : Lexer) (pre : List Char) (toks : List Token) (br : List (Char × Nat))
    (hst : FSt D l pre [] inp toks br) :
    ∃ l' pre' ts, Reach .segment l .segment l' ∧ FSt D l' pre' [] rest (ts.reverse ++ toks) br ∧
      FSegsShape segs ts := by
  rcases segments_inv h with ⟨_, rfl, rfl⟩ | ⟨seg, r1, segs', hseg, hsegs, rfl⟩
  · exact ⟨l, pre, [], .refl, by simpa using hst, .nil⟩
  · have hne : Spec.skipS inp ≠ [] := by
      intro e
      rw [e, segment_nil] at hseg
      cases hseg
    obtain ⟨l1, pre1, h1, e1⟩ := step_segment_ws hst hne
    obtain ⟨lm, sm, l2, pre2, ts, s1, r1', h2, hsh⟩ := ih.segment D hD _ seg r1 hseg l1 pre1 toks br h1
    obtain ⟨l3, pre3, ts', r3, h3, hsh'⟩ := ih.segments D hD r1 segs' rest hsegs l2 pre2 _ br h2
    exact ⟨l3, pre3, ts ++ ts', .step (e1.trans s1) (r1'.trans r3), by simpa using h3, .cons _ _ _ _ hsh hsh'⟩

/-! ### the induction -/

theorem lexAll_zero : LexAll 0 where
  term := by intro D _ inp e r h; rw [Spec.term] at h; cases h
  basic := by intro D _ inp e r h; rw [Spec.basic] at h; cases h
  logicalAnd := by intro D _ inp e r h; rw [Spec.logicalAnd] at h; cases h
  logicalOr := by intro D _ inp e r h; rw [Spec.logicalOr] at h; cases h
  parenExpr := by intro D _ t e r h; rw [Spec.parenExpr] at h; cases h
  argument := by intro D _ inp e r h; rw [Spec.argument] at h; cases h
  moreArgs := by intro D _ inp e r h; rw [Spec.moreArgs] at h; cases h
  selector := by intro D _ inp e r h; rw [Spec.selector] at h; cases h
  moreSelectors := by intro D _ inp e r r5 h; rw [Spec.moreSelectors] at h; cases h
  bracketed := by intro D _ r sels fl rest h; rw [Spec.bracketed] at h; cases h
  segment := by intro D _ inp seg rest h; rw [Spec.segment] at h; cases h
  segments := by intro D _ inp segs rest h; rw [Spec.segments] at h; cases h

theorem lexAll_succ (ih : LexAll f) : LexAll (f + 1) where
  term := step_term ih
  basic := step_basic ih
  logicalAnd := step_logicalAnd ih
  logicalOr := step_logicalOr ih
  parenExpr := step_parenExpr ih
  argument := step_argument ih
  moreArgs := step_moreArgs ih
  selector := step_selector ih
  moreSelectors := step_moreSelectors ih
  bracketed := step_bracketed ih
  segment := step_segment ih
  segments := step_segments ih

/-- the lexer follows every grammar function, at every fuel and every filter depth -/
theorem lexAll : ∀ f, LexAll f
  | 0 => lexAll_zero
  | f + 1 => lexAll_succ (lexAll f)

end JPV.Proofs.Cf
