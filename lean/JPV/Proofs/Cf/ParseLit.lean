/-
`Proofs.Cf.ParseLit` — the result predicates of the expression parser's simulation (`UnitRes`, `ChainRes`,
`ExprRes`), first-token facts of the shapes, and the literal handlers.
-/
import JPV.Proofs.Cf.ParseValid
set_option linter.unusedSimpArgs false
set_option linter.unusedVariables false
namespace JPV.Proofs.Cf
open JPV JPV.Impl JPV.Proofs.Rq

/-- the handler `h` run on `st` returns an expression with AST `e` and leaves the stream ready to
deliver `x`, then `more` -/
def UnitRes (env : Env) (e : Expr) (h : Handler) (st : TStream) (x : Token) (more : List Token) : Prop :=
  ∃ px st', px.e = e ∧ Cs.Ready x more st' ∧ Ev (fun F => parseByHandler env h F) st (.ok px, st')

/-- "handler, then the Pratt loop at `p`" run on `st` behaves like the Pratt loop continued with an
expression with AST `e` on a stream ready to deliver `x`, then `more` -/
def ChainRes (env : Env) (p : Nat) (e : Expr) (st : TStream) (x : Token) (more : List Token) : Prop :=
  ∃ h, tokenMap st.cur.kind = some h ∧ ∃ px st', px.e = e ∧ Cs.Ready x more st' ∧
    ∀ R, Ev (fun F => filterExprLoop env p F px) st' R → Ev (unitLoop env p h) st R

/-- `parseFilterExpr p` run on `st` returns an expression with AST `e`, the stream ready for `x`, `more` -/
def ExprRes (env : Env) (p : Nat) (e : Expr) (st : TStream) (x : Token) (more : List Token) : Prop :=
  ∃ px st', px.e = e ∧ Cs.Ready x more st' ∧ Ev (fun F => parseFilterExpr env p F) st (.ok px, st')

/-- like `ExprRes` for "handler, then the Pratt loop" -/
def UnitLoopRes (env : Env) (p : Nat) (e : Expr) (st : TStream) (x : Token) (more : List Token) : Prop :=
  ∃ h, tokenMap st.cur.kind = some h ∧ ∃ px st', px.e = e ∧ Cs.Ready x more st' ∧
    Ev (unitLoop env p h) st (.ok px, st')

theorem ChainRes.stop {env : Env} {p : Nat} {e : Expr} {st : TStream} {x : Token} {more : List Token}
    (h : ChainRes env p e st x more) (hs : Stops p x.kind = true) : UnitLoopRes env p e st x more := by
  obtain ⟨hd, ht, px, st', he, hr, hk⟩ := h
  obtain ⟨st'', hr', hev⟩ := loop_stop env p px hr hs
  exact ⟨hd, ht, px, st'', he, hr', hk _ hev⟩

theorem UnitLoopRes.expr {env : Env} {p : Nat} {e : Expr} {st : TStream} {x : Token} {more : List Token}
    (h : UnitLoopRes env p e st x more) : ExprRes env p e st x more := by
  obtain ⟨hd, ht, px, st', he, hr, hev⟩ := h
  exact ⟨px, st', he, hr, pfe_of_unitLoop ht hev⟩

/-- a unit followed by a token that stops the loop -/
theorem UnitRes.chain {env : Env} {p : Nat} {e : Expr} {h : Handler} {st : TStream} {x : Token} {more : List Token}
    (hu : UnitRes env e h st x more) (ht : tokenMap st.cur.kind = some h) : ChainRes env p e st x more := by
  obtain ⟨px, st', he, hr, hev⟩ := hu
  exact ⟨h, ht, px, st', he, hr, fun R hl => Ev.bind hev hl⟩

/-! ### first tokens -/

/-- the kinds of the first token of a term -/
def termStart : TokKind → Bool
  | .true_ | .false_ | .null | .sqString | .dqString | .int | .float | .current | .root | .function => true
  | _ => false

theorem strKind_termStart (q : Char) : termStart (strKind q) = true := by
  rcases Cs.strKind_cases q with e | e <;> simp [e, termStart]

theorem LitTok.termStart {t : Token} {v : Json} (h : LitTok t v) : termStart t.kind = true := by
  cases h <;> first | rfl | exact strKind_termStart _

theorem termStart_ne {k : TokKind} (h : termStart k = true) :
    k ≠ .eof ∧ k ≠ .lparen ∧ k ≠ .not ∧ k ≠ .rparen ∧ (tokenMap k).isSome = true := by
  cases k <;> simp_all [termStart, tokenMap]

theorem TermShape.start {e : Spec.CExpr} {ts : List Token} (h : TermShape e ts) :
    ∃ t ts', ts = t :: ts' ∧ termStart t.kind = true := by
  cases h with
  | lit t v hl => exact ⟨t, [], rfl, hl.termStart⟩
  | rel q ts tv k _ => exact ⟨_, _, rfl, rfl⟩
  | root q ts tv k _ => exact ⟨_, _, rfl, rfl⟩
  | call name args ts k tv' k' _ => exact ⟨_, _, rfl, rfl⟩

theorem BasicShape.start {e : Spec.CExpr} {ts : List Token} (h : BasicShape e ts) :
    ∃ t ts', ts = t :: ts' := by
  cases h with
  | paren => exact ⟨_, _, rfl⟩
  | notParen => exact ⟨_, _, rfl⟩
  | notTerm => exact ⟨_, _, rfl⟩
  | cmp op l r tl tr v k hl hr =>
    obtain ⟨t, ts', rfl, _⟩ := hl.start
    exact ⟨t, _, rfl⟩
  | test e ts ht _ =>
    obtain ⟨t, ts', rfl, _⟩ := ht.start
    exact ⟨t, _, rfl⟩

theorem AndShape.start {e : Spec.CExpr} {ts : List Token} (h : AndShape e ts) :
    ∃ t ts', ts = t :: ts' := by
  cases h with
  | one e ts hb => exact hb.start
  | and l r tl tr v k hl hr =>
    obtain ⟨t, ts', rfl⟩ := hl.start
    exact ⟨t, _, rfl⟩

theorem OrShape.start {e : Spec.CExpr} {ts : List Token} (h : OrShape e ts) :
    ∃ t ts', ts = t :: ts' := by
  cases h with
  | one e ts hb => exact hb.start
  | or l r tl tr v k hl hr =>
    obtain ⟨t, ts', rfl⟩ := hl.start
    exact ⟨t, _, rfl⟩

/-- an expression whose first token is `(` is not a term -/
theorem BasicShape.lparen {e : Spec.CExpr} {t : Token} {ts : List Token} (h : BasicShape e (t :: ts))
    (ht : t.kind = .lparen) : nonTerm e = true := by
  generalize hts : t :: ts = ts0 at h
  cases h with
  | paren => rfl
  | notParen => rfl
  | notTerm => rfl
  | cmp => rfl
  | test e ts1 hterm _ =>
    obtain ⟨t', ts', rfl, hs⟩ := hterm.start
    simp only [List.cons.injEq] at hts
    rw [← hts.1, ht] at hs
    simp [termStart] at hs

theorem AndShape.lparen {e : Spec.CExpr} {t : Token} {ts : List Token} (h : AndShape e (t :: ts))
    (ht : t.kind = .lparen) : nonTerm e = true := by
  generalize hts : t :: ts = ts0 at h
  cases h with
  | one e ts1 hb => subst hts; exact hb.lparen ht
  | and => rfl

theorem OrShape.lparen {e : Spec.CExpr} {t : Token} {ts : List Token} (h : OrShape e (t :: ts))
    (ht : t.kind = .lparen) : nonTerm e = true := by
  generalize hts : t :: ts = ts0 at h
  cases h with
  | one e ts1 hb => subst hts; exact hb.lparen ht
  | or => rfl

/-! ### literals -/

theorem parseByHandler_lit (env : Env) (f : Nat) (h : Handler)
    (hh : h = .boolean ∨ h = .null ∨ h = .string ∨ h = .int ∨ h = .float) :
    parseByHandler env h (f + 1) = parseLiteral h := by
  rcases hh with rfl | rfl | rfl | rfl | rfl <;> (rw [parseByHandler] <;> (intro h; cases h))

theorem lit_exec {t : Token} {v : Json} (hl : LitTok t v) :
    ∃ h, tokenMap t.kind = some h ∧ (h = .boolean ∨ h = .null ∨ h = .string ∨ h = .int ∨ h = .float) ∧
      ∀ p r, exec (parseLiteral h) ⟨t, p, r⟩ = (.ok ⟨.lit v, t⟩, ⟨t, p, r⟩) := by
  cases hl with
  | true_ tv k =>
    refine ⟨.boolean, rfl, by simp, fun p r => ?_⟩
    simp [parseLiteral, exec_bind, exec_cur, exec_pure, Cs.exec_map]
  | false_ tv k =>
    refine ⟨.boolean, rfl, by simp, fun p r => ?_⟩
    simp [parseLiteral, exec_bind, exec_cur, exec_pure, Cs.exec_map]
  | null tv k =>
    refine ⟨.null, rfl, by simp, fun p r => ?_⟩
    simp [parseLiteral, exec_bind, exec_cur, exec_pure, Cs.exec_map]
  | str q body s k hq hd =>
    refine ⟨.string, ?_, by simp, fun p r => ?_⟩
    · rcases Cs.strKind_cases q with e | e <;> simp [e, tokenMap]
    · simp [parseLiteral, exec_bind, exec_cur, exec_pure, decodeAt, hd, Cs.exec_map]
  | int tv k x hz hn =>
    refine ⟨.int, rfl, by simp, fun p r => ?_⟩
    unfold numOfIntTok at hn
    cases h1 : Py.intOfFloatText tv with
    | none => simp [h1] at hn
    | some o =>
      cases o with
      | some i =>
        simp only [h1, Option.some.injEq] at hn
        simp [parseLiteral, exec_bind, exec_cur, exec_pure, hz, h1, hn]
      | none =>
        simp only [h1] at hn
        simp [parseLiteral, exec_bind, exec_cur, exec_pure, hz, h1, hn]
  | float tv k x hz hn =>
    refine ⟨.float, rfl, by simp, fun p r => ?_⟩
    simp [parseLiteral, exec_bind, exec_cur, exec_pure, hz, hn]

/-- a literal token as a unit -/
theorem unit_lit (env : Env) {t : Token} {v : Json} (hl : LitTok t v) (x : Token) (more : List Token) :
    ∃ h, tokenMap t.kind = some h ∧ UnitRes env (.lit v) h ⟨t, [], x :: more⟩ x more := by
  obtain ⟨h, ht, hh, he⟩ := lit_exec hl
  refine ⟨h, ht, ⟨.lit v, t⟩, ⟨t, [], x :: more⟩, rfl, .inl ⟨t, (termStart_ne hl.termStart).1, rfl⟩, ?_⟩
  refine Ev.step0 fun f => ?_
  rw [parseByHandler_lit env f h hh]
  exact he _ _

end JPV.Proofs.Cf
