/-
`Proofs.Ss.LexStep` — what a successful run of the lexer does next, for every state outside filters:
total case descriptions of the root, segment (+ shorthand), descendant, bracketed and string states.
-/
import JPV.Proofs.Ss.LexRun
import JPV.Proofs.Cs.LexSeg
import JPV.Proofs.Ss.BrTok
set_option linter.unusedSimpArgs false
namespace JPV.Proofs.Ss
open JPV JPV.Impl JPV.Proofs.Rq JPV.Proofs.Cs

variable {l lf : Lexer} {pre cur rest inp : List Char} {toks : List Token} {br : List (Char × Nat)}

/-! ### blank space -/

/-- `ignore_whitespace()` with its flag -/
theorem St_ws' (h : St l pre [] rest toks br) :
    ∃ l' pre', l.ignoreWhitespace = .ok (decide (spanLen isWs rest ≠ 0), l') ∧
      St l' pre' [] (Spec.skipS rest) toks br := by
  unfold Lexer.ignoreWhitespace
  have hps : l.pos = l.start := by rw [h.pos, h.start]; simp
  rw [if_neg (by simp [hps])]
  by_cases hn : spanLen isWs rest = 0
  · have hm : l.acceptMatch reWhitespace = none := by
      simp [Lexer.acceptMatch, h.restFrom, reWhitespace, hn]
    rw [hm]
    refine ⟨l, pre, by simp [hn], ?_⟩
    rw [skipS_eq, hn]; exact h
  · have hre : reWhitespace rest = some (spanLen isWs rest) := by simp [reWhitespace, hn]
    obtain ⟨l', hm, h'⟩ := h.acceptMatch hre (Cs.spanLen_le _ _)
    rw [hm]
    refine ⟨l'.ignore, pre ++ ([] ++ rest.take (spanLen isWs rest)), by simp [hn], ?_⟩
    rw [skipS_eq]
    exact h'.ignore

theorem spanLen_zero_skipS {r : List Char} (h : spanLen isWs r = 0) : Spec.skipS r = r := by
  rw [skipS_eq, h]; rfl

/-! ### the root state -/

theorem root_first (hst : St l pre [] inp toks br) (hh : Halts .root l lf) (hg : ¬ Bad lf) :
    ∃ r l', inp = '$' :: r ∧ St l' (pre ++ ['$']) [] r (⟨.root, ['$'], pre.length⟩ :: toks) br ∧
      Halts .segment l' lf := by
  cases inp with
  | nil =>
    have hp : l.peek = none := by rw [hst.peek]; rfl
    have hs : Impl.step .root l = .ok (l.adv.error, none) := by
      simp [Impl.step, lexRoot, Lexer.next_eq, hp, stop]
    rw [hh.step_none hs] at hg
    exact absurd Bad.of_error hg
  | cons c r =>
    by_cases hc : c = '$'
    · subst hc
      have hs := lexRoot_exec hst
      have h1 := hst.adv.emit .root
      exact ⟨r, _, rfl, by simpa using h1, hh.step_some hs⟩
    · have hp : l.peek = some c := by rw [hst.peek]; rfl
      have hs : Impl.step .root l = .ok (l.adv.error, none) := by
        simp [Impl.step, lexRoot, Lexer.next_eq, hp, stop, hc]
      rw [hh.step_none hs] at hg
      exact absurd Bad.of_error hg

/-! ### the shorthand state -/

theorem reProperty_some {c : Char} {r : List Char} (hc : Impl.isNameFirst c = true) :
    reProperty (c :: r) = some (1 + spanLen isNameChar r) := by
  simp [reProperty, hc]

theorem reProperty_none {c : Char} {r : List Char} (hc : Impl.isNameFirst c = false) :
    reProperty (c :: r) = none := by
  simp [reProperty, hc]

theorem shorthand_first (hst : St l pre cur rest toks br) (hh : Halts .shorthand l lf) (hg : ¬ Bad lf) :
    (∃ r l', rest = '*' :: r ∧
      St l' (pre ++ cur ++ ['*']) [] r (⟨.wild, ['*'], (pre ++ cur).length⟩ :: toks) br ∧
      Halts .segment l' lf) ∨
    (∃ c r n l', rest = c :: r ∧ Impl.isNameFirst c = true ∧ reProperty (c :: r) = some n ∧
      St l' (pre ++ cur ++ (c :: r).take n) [] ((c :: r).drop n)
        (⟨.property, (c :: r).take n, (pre ++ cur).length⟩ :: toks) br ∧
      Halts .segment l' lf) := by
  have h0 := hst.ignore
  cases rest with
  | nil =>
    exfalso
    have hp : l.ignore.peek = none := by rw [h0.peek]; rfl
    have hmw : l.ignore.acceptMatch reWhitespace = none := by
      simp [Lexer.acceptMatch, h0.restFrom, reWhitespace, spanLen]
    have hb : l.ignore.backup = .error ⟨.syntax, some l.ignore.errTok⟩ := by
      simp [Lexer.backup, Lexer.ignore]
    have hs : Impl.step .shorthand l = .error ⟨.syntax, some l.ignore.errTok⟩ := by
      simp [Impl.step, lexShorthand, Lexer.next_eq, hp, hmw, Lexer.adv_none hp, hb, bind, Except.bind]
    exact hh.step_error hs
  | cons c r =>
    by_cases hw : isWs c = true
    · exfalso
      have hre : reWhitespace (c :: r) = some (spanLen isWs (c :: r)) := by
        simp [reWhitespace, spanLen, hw]
      obtain ⟨l1, hm, _⟩ := h0.acceptMatch hre (Cs.spanLen_le _ _)
      have hs : Impl.step .shorthand l = .ok (l1.error, none) := by
        simp [Impl.step, lexShorthand, hm, stop, bind, Except.bind]
      rw [hh.step_none hs] at hg
      exact hg Bad.of_error
    · have hw' : isWs c = false := by simpa using hw
      by_cases hc : c = '*'
      · subst hc
        left
        have hs := lexShorthand_wild hst
        have h2 := h0.adv.emit .wild
        exact ⟨r, _, rfl, by simpa using h2, hh.step_some hs⟩
      · by_cases hn : Impl.isNameFirst c = true
        · right
          have hre := reProperty_some (r := r) hn
          obtain ⟨l2, hs, h2⟩ := lexShorthand_name hst hn hre (reProperty_bounded _ _ hre)
          exact ⟨c, r, _, l2, rfl, hn, hre, h2, hh.step_some hs⟩
        · exfalso
          have hn' : Impl.isNameFirst c = false := by simpa using hn
          have hp : l.ignore.peek = some c := by rw [h0.peek]; rfl
          have hmw : l.ignore.acceptMatch reWhitespace = none := by
            simp [Lexer.acceptMatch, h0.restFrom, reWs_none hw']
          obtain ⟨l1, hb, h1⟩ := h0.adv.backup
          have hm : l1.acceptMatch reProperty = none := by
            simp [Lexer.acceptMatch, h1.restFrom, reProperty_none hn']
          have hs : Impl.step .shorthand l = .ok (l1.error, none) := by
            simp [Impl.step, lexShorthand, Lexer.next_eq, hp, hmw, stop, bind, Except.bind, hc, hb, hm]
          rw [hh.step_none hs] at hg
          exact hg Bad.of_error

/-! ### the segment state -/

theorem lexSegment_dot' {r : List Char} (h : St l pre [] ('.' :: r) toks br) (hr : r.head? ≠ some '.') :
    Impl.step .segment l = .ok (l.adv, some .shorthand) := by
  have hp : l.peek = some '.' := by rw [h.peek]; rfl
  have hp2 : l.adv.peek = r.head? := by rw [h.adv.peek]
  have hw := h.ws_none (by simp [isWs])
  simp [Impl.step, lexSegment, hw, Lexer.next_eq, hp, hp2, goto, bind, Except.bind, hr]

/-- what a successful run does from the segment state up to its first token -/
theorem seg_first (hst : St l pre [] inp toks br) (hh : Halts .segment l lf) (hg : ¬ Bad lf) :
    (inp = [] ∧ ∃ k, lf.toks = ⟨.eof, [], k⟩ :: toks) ∨
    (∃ r l' pre' k, Spec.skipS inp = '.' :: '.' :: r ∧
      St l' pre' [] r (⟨.doubleDot, ['.', '.'], k⟩ :: toks) br ∧ Halts .descendant l' lf) ∨
    (∃ r l' pre' k, Spec.skipS inp = '.' :: '*' :: r ∧
      St l' pre' [] r (⟨.wild, ['*'], k⟩ :: toks) br ∧ Halts .segment l' lf) ∨
    (∃ c r n l' pre' k, Spec.skipS inp = '.' :: c :: r ∧ Impl.isNameFirst c = true ∧
      reProperty (c :: r) = some n ∧
      St l' pre' [] ((c :: r).drop n) (⟨.property, (c :: r).take n, k⟩ :: toks) br ∧
      Halts .segment l' lf) ∨
    (∃ r l' pre' k i, Spec.skipS inp = '[' :: r ∧
      St l' pre' [] r (⟨.lbracket, ['['], k⟩ :: toks) (('[', i) :: br) ∧ Halts .bracketed l' lf) := by
  cases hsk : Spec.skipS inp with
  | nil =>
    obtain ⟨l1, pre1, hw, h1⟩ := St_ws' hst
    rw [hsk] at h1
    have hp : l1.peek = none := by rw [h1.peek]; rfl
    by_cases hn : spanLen isWs inp = 0
    · left
      have e : inp = [] := by rw [← spanLen_zero_skipS hn]; exact hsk
      subst e
      have s1 := lexSegment_eof hst
      have hp0 : l.peek = none := by rw [hst.peek]; rfl
      rw [Lexer.adv_none hp0] at s1
      have h2 := hst.emit .eof
      rw [hh.step_none s1]
      exact ⟨rfl, _, h2.toks⟩
    · exfalso
      have hs : Impl.step .segment l = .ok (l1.error, none) := by
        simp [Impl.step, lexSegment, hw, hn, hp, bind, Except.bind, pure, Except.pure]
      rw [hh.step_none hs] at hg
      exact hg Bad.of_error
  | cons c t =>
    right
    obtain ⟨l1, pre1, h1, e1⟩ := step_segment_ws hst (by rw [hsk]; simp)
    rw [hsk] at h1
    have hcw : isWs c = false := skipS_head inp c (by rw [hsk]; rfl)
    by_cases hc : c = '.'
    · subst hc
      by_cases hd : t.head? = some '.'
      · left
        obtain ⟨d, t', rfl⟩ : ∃ d t', t = d :: t' := by
          cases t with
          | nil => simp at hd
          | cons d t' => exact ⟨d, t', rfl⟩
        simp only [List.head?_cons, Option.some.injEq] at hd
        subst hd
        have s1 := lexSegment_dotdot h1
        have h2 := h1.adv.adv.emit .doubleDot
        exact ⟨t', _, _, _, rfl, by simpa using h2, hh.step_some (e1.trans s1)⟩
      · right
        have s1 := lexSegment_dot' h1 hd
        have h2 := h1.adv
        simp only [List.nil_append] at h2
        rcases shorthand_first h2 (hh.step_some (e1.trans s1)) hg with
          ⟨r, l', rfl, h3, hh3⟩ | ⟨c, r, n, l', rfl, hn, hre, h3, hh3⟩
        · left
          exact ⟨r, l', _, _, rfl, h3, hh3⟩
        · right; left
          exact ⟨c, r, n, l', _, _, rfl, hn, hre, h3, hh3⟩
    · by_cases hb : c = '['
      · subst hb
        right; right; right
        have s1 := lexSegment_lbracket h1
        have h2 := (h1.adv.emit .lbracket).pushBracket '[' ((l1.adv.emit .lbracket).pos - 1)
        exact ⟨t, _, _, _, _, rfl, by simpa using h2, hh.step_some (e1.trans s1)⟩
      · exfalso
        have hp : l1.peek = some c := by rw [h1.peek]; rfl
        have hw := h1.ws_none (by simp [hcw])
        have hs : Impl.step .segment l1 = .ok (l1.adv.error, none) := by
          simp only [Impl.step, lexSegment, hw, Lexer.next_eq, hp, bind, Except.bind]
          have : l1.adv.filterDepth = 0 := h1.adv.fd
          simp [this, stop]
        rw [hh.step_none (e1.trans hs)] at hg
        exact hg Bad.of_error

/-! ### the descendant state -/

theorem desc_first (hst : St l pre [] inp toks br) (hh : Halts .descendant l lf) (hg : ¬ Bad lf) :
    (∃ r l' pre' k, inp = '*' :: r ∧
      St l' pre' [] r (⟨.wild, ['*'], k⟩ :: toks) br ∧ Halts .segment l' lf) ∨
    (∃ c r n l' pre' k, inp = c :: r ∧ Impl.isNameFirst c = true ∧
      reProperty (c :: r) = some n ∧
      St l' pre' [] ((c :: r).drop n) (⟨.property, (c :: r).take n, k⟩ :: toks) br ∧
      Halts .segment l' lf) ∨
    (∃ r l' pre' k i, inp = '[' :: r ∧
      St l' pre' [] r (⟨.lbracket, ['['], k⟩ :: toks) (('[', i) :: br) ∧ Halts .bracketed l' lf) := by
  cases inp with
  | nil =>
    exfalso
    have hp : l.peek = none := by rw [hst.peek]; rfl
    have hs : Impl.step .descendant l = .ok (l.adv.error, none) := by
      simp [Impl.step, lexDescendant, Lexer.next_eq, hp, stop, bind, Except.bind]
    rw [hh.step_none hs] at hg
    exact hg Bad.of_error
  | cons c t =>
    by_cases hc : c = '*'
    · subst hc
      left
      have s1 := lexDescendant_wild hst
      have h2 := hst.adv.emit .wild
      exact ⟨t, _, _, _, rfl, by simpa using h2, hh.step_some s1⟩
    · by_cases hb : c = '['
      · subst hb
        right; right
        have s1 := lexDescendant_lbracket hst
        have h2 := (hst.adv.emit .lbracket).pushBracket '[' ((l.adv.emit .lbracket).pos - 1)
        exact ⟨t, _, _, _, _, rfl, by simpa using h2, hh.step_some s1⟩
      · by_cases hn : Impl.isNameFirst c = true
        · right; left
          have hre := reProperty_some (r := t) hn
          obtain ⟨l2, hs, h2⟩ := lexDescendant_name hst hn hre (reProperty_bounded _ _ hre)
          exact ⟨c, t, _, l2, _, _, rfl, hn, hre, h2, hh.step_some hs⟩
        · exfalso
          have hn' : Impl.isNameFirst c = false := by simpa using hn
          have hp : l.peek = some c := by rw [hst.peek]; rfl
          obtain ⟨l1, hbk, h1⟩ := hst.adv.backup
          have hm : l1.acceptMatch reProperty = none := by
            simp [Lexer.acceptMatch, h1.restFrom, reProperty_none hn']
          have hs : Impl.step .descendant l = .ok (l1.adv.error, none) := by
            simp only [Impl.step, lexDescendant, Lexer.next_eq, hp, bind, Except.bind]
            simp [hbk, hm, stop]
          rw [hh.step_none hs] at hg
          exact hg Bad.of_error

/-! ### the string states -/

theorem str_loop {q : Char} (hq : q ≠ '\\') : ∀ (n : Nat) (inp cur : List Char) (l : Lexer), inp.length ≤ n →
    St l pre cur inp toks br → Halts (.strLoop q false) l lf → ¬ Bad lf →
    ∃ body rest l', scanString q inp = some (body, rest) ∧
      St l' (pre ++ cur ++ body ++ [q]) [] rest (⟨strKind q, cur ++ body, pre.length⟩ :: toks) br ∧
      Halts .bracketed l' lf := by
  intro n
  induction n with
  | zero =>
    intro inp cur l hl hst hh hg
    have e : inp = [] := by cases inp with
      | nil => rfl
      | cons => simp at hl
    subst e
    exfalso
    have hp : l.peek = none := by rw [hst.peek]; rfl
    have hs : Impl.step (.strLoop q false) l = .ok (l.adv.error, none) := by
      simp [Impl.step, lexStrLoop, Lexer.next_eq, hp, stop, bind, Except.bind]
    rw [hh.step_none hs] at hg
    exact hg Bad.of_error
  | succ n ih =>
    intro inp cur l hl hst hh hg
    cases inp with
    | nil =>
      exfalso
      have hp : l.peek = none := by rw [hst.peek]; rfl
      have hs : Impl.step (.strLoop q false) l = .ok (l.adv.error, none) := by
        simp [Impl.step, lexStrLoop, Lexer.next_eq, hp, stop, bind, Except.bind]
      rw [hh.step_none hs] at hg
      exact hg Bad.of_error
    | cons c r =>
      have hp : l.peek = some c := by rw [hst.peek]; rfl
      by_cases hc : c = '\\'
      · subst hc
        cases r with
        | nil =>
          exfalso
          have hp2 : l.adv.peek = none := by rw [hst.adv.peek]; rfl
          have hs : Impl.step (.strLoop q false) l = .ok (l.adv.error, none) := by
            simp [Impl.step, lexStrLoop, Lexer.next_eq, hp, hp2, stop, bind, Except.bind]
          rw [hh.step_none hs] at hg
          exact hg Bad.of_error
        | cons p r2 =>
          by_cases he : (isEscapeChar p || p = q) = true
          · have hs := lexStrLoop_esc (f := false) hst he
            obtain ⟨body, rest, l', hsc, h', hh'⟩ := ih r2 (cur ++ ['\\'] ++ [p]) l.adv.adv
              (by simp at hl; omega) hst.adv.adv (hh.step_some hs) hg
            refine ⟨'\\' :: p :: body, rest, l', ?_, by simpa using h', hh'⟩
            rw [scanString.eq_def]
            simp [he, hsc]
          · exfalso
            have hp2 : l.adv.peek = some p := by rw [hst.adv.peek]; rfl
            have he' : ¬ (isEscapeChar p = true ∨ p = q) := by simpa using he
            have hs : Impl.step (.strLoop q false) l = .ok (l.adv.error, none) := by
              simp [Impl.step, lexStrLoop, Lexer.next_eq, hp, hp2, stop, bind, Except.bind, he']
            rw [hh.step_none hs] at hg
            exact hg Bad.of_error
      · by_cases hcq : c = q
        · subst hcq
          obtain ⟨l', hs, h'⟩ := lexStrLoop_close (f := false) hst hq
          refine ⟨[], r, l', ?_, by simpa [retState] using h', by simpa [retState] using hh.step_some hs⟩
          rw [scanString.eq_def]
          simp [hc]
        · have hs := lexStrLoop_plain (f := false) hst hc hcq
          obtain ⟨body, rest, l', hsc, h', hh'⟩ := ih r (cur ++ [c]) l.adv
            (by simp at hl; omega) hst.adv (hh.step_some hs) hg
          refine ⟨c :: body, rest, l', ?_, by simpa using h', hh'⟩
          rw [scanString.eq_def]
          simp [hc, hcq, hsc]

/-! ### the bracketed state -/

theorem brk_nil (hst : St l pre [] inp toks br) (hsk : Spec.skipS inp = []) (hh : Halts .bracketed l lf) :
    Bad lf := by
  obtain ⟨l1, pre1, h1, e1⟩ := step_bracketed_ws hst
  rw [hsk] at h1
  have hp : l1.peek = none := by rw [h1.peek]; rfl
  have hw := h1.ws_none (by simp)
  have hs : Impl.step .bracketed l1 = .ok (l1.adv.error, none) := by
    simp [Impl.step, lexBracketed, hw, Lexer.next_eq, hp, stop, bind, Except.bind]
  rw [hh.step_none (e1.trans hs)]
  exact Bad.of_error

/-- a string literal inside brackets, from after the opening quote -/
theorem str_first {q : Char} (hq : q = '\'' ∨ q = '"') {r : List Char} (hst : St l pre [q] r toks br)
    (hh : Halts (.strStart q false) l lf) (hg : ¬ Bad lf) :
    ∃ body rest l' pre', scanString q r = some (body, rest) ∧
      St l' pre' [] rest (⟨strKind q, body, (pre ++ [q]).length⟩ :: toks) br ∧ Halts .bracketed l' lf := by
  have hq' : q ≠ '\\' := by rcases hq with rfl | rfl <;> decide
  cases r with
  | nil =>
    exfalso
    have h0 := hst.ignore
    have hp : l.ignore.peek = none := by rw [h0.peek]; rfl
    have h1 := h0.emit (strKind q)
    have hp1 : (l.ignore.emit (strKind q)).peek = none := by rw [h1.peek]; rfl
    have hs : Impl.step (.strStart q false) l = .ok ((l.ignore.emit (strKind q)).ignore, some .bracketed) := by
      simp [Impl.step, lexStrStart, hp, Lexer.next_eq, Lexer.adv_none hp1, goto, retState]
    exact hg (brk_nil h1.ignore rfl (hh.step_some hs))
  | cons c r =>
    have hs := lexStrStart_exec (q := q) (f := false) hst (by simp)
    obtain ⟨body, rest, l', hsc, h', hh'⟩ := str_loop hq' _ _ _ _ (Nat.le_refl _) hst.ignore (hh.step_some hs) hg
    exact ⟨body, rest, l', _, hsc, by simpa using h', hh'⟩

/-- what a successful run does from the bracketed state up to its next token -/
theorem brk_next {i : Nat} (hst : St l pre [] inp toks (('[', i) :: br)) (hh : Halts .bracketed l lf)
    (hg : ¬ Bad lf) :
    ∃ k v rest l' n, brTok inp = some (k, v, rest) ∧
      ((k = .rbracket ∧ ∃ pre', St l' pre' [] rest (⟨k, v, n⟩ :: toks) br ∧ Halts .segment l' lf) ∨
       (k = .filter ∧ l'.toks = ⟨k, v, n⟩ :: toks ∧ Halts .filter l' lf) ∨
       (k ≠ .rbracket ∧ k ≠ .filter ∧ ∃ pre', St l' pre' [] rest (⟨k, v, n⟩ :: toks) (('[', i) :: br) ∧
          Halts .bracketed l' lf)) := by
  cases hsk : Spec.skipS inp with
  | nil => exact absurd (brk_nil hst hsk hh) hg
  | cons c r =>
    obtain ⟨l1, pre1, h1, e1⟩ := step_bracketed_ws hst
    rw [hsk] at h1
    have hcw : isWs c = false := skipS_head inp c (by rw [hsk]; rfl)
    have hp : l1.peek = some c := by rw [h1.peek]; rfl
    have hw := h1.ws_none (by simp [hcw])
    by_cases c1 : c = ']'
    · subst c1
      have s1 := lexBracketed_rbracket h1
      have h2 := (h1.adv.popBracket).emit .rbracket
      refine ⟨.rbracket, [']'], r, _, _, by simp [brTok, hsk], .inl ⟨rfl, _, by simpa using h2,
        hh.step_some (e1.trans s1)⟩⟩
    · by_cases c2 : c = '*'
      · subst c2
        have s1 := lexBracketed_wild h1
        have h2 := h1.adv.emit .wild
        refine ⟨.wild, ['*'], r, _, _, by simp [brTok, hsk], .inr (.inr ⟨by simp, by simp, _, by simpa using h2,
          hh.step_some (e1.trans s1)⟩)⟩
      · by_cases c3 : c = '?'
        · subst c3
          have h2 := h1.adv.emit .filter
          have s1 : Impl.step .bracketed l1 = .ok ({ (l1.adv.emit .filter) with
              filterDepth := l1.adv.filterDepth + 1 }, some .filter) := by
            simp [Impl.step, lexBracketed, hw, Lexer.next_eq, hp, goto, bind, Except.bind]
          refine ⟨.filter, ['?'], r, _, (pre1.length : Int), by simp [brTok, hsk], .inr (.inl ⟨rfl, ?_, hh.step_some (e1.trans s1)⟩)⟩
          simpa using h2.toks
        · by_cases c4 : c = ','
          · subst c4
            have s1 := lexBracketed_comma h1
            have h2 := h1.adv.emit .comma
            refine ⟨.comma, [','], r, _, _, by simp [brTok, hsk], .inr (.inr ⟨by simp, by simp, _,
              by simpa using h2, hh.step_some (e1.trans s1)⟩)⟩
          · by_cases c5 : c = ':'
            · subst c5
              have s1 := lexBracketed_colon h1
              have h2 := h1.adv.emit .colon
              refine ⟨.colon, [':'], r, _, _, by simp [brTok, hsk], .inr (.inr ⟨by simp, by simp, _,
                by simpa using h2, hh.step_some (e1.trans s1)⟩)⟩
            · by_cases c6 : c = '\''
              · subst c6
                have s1 := lexBracketed_quote h1
                have h2 := h1.adv
                obtain ⟨body, rest, l', pre', hsc, h3, hh3⟩ := str_first (.inl rfl) (by simpa using h2)
                  (hh.step_some (e1.trans s1)) hg
                refine ⟨.sqString, body, rest, l', _, by simp [brTok, hsk, hsc], .inr (.inr ⟨by simp, by simp,
                  pre', by simpa [strKind] using h3, hh3⟩)⟩
              · by_cases c7 : c = '"'
                · subst c7
                  have s1 := lexBracketed_dquote h1
                  have h2 := h1.adv
                  obtain ⟨body, rest, l', pre', hsc, h3, hh3⟩ := str_first (.inr rfl) (by simpa using h2)
                    (hh.step_some (e1.trans s1)) hg
                  refine ⟨.dqString, body, rest, l', _, by simp [brTok, hsk, hsc], .inr (.inr ⟨by simp, by simp,
                    pre', by simpa [strKind] using h3, hh3⟩)⟩
                · obtain ⟨l2, hb, h2⟩ := h1.adv.backup
                  cases hre : reIndex (c :: r) with
                  | none =>
                    exfalso
                    have hm : l2.acceptMatch reIndex = none := by
                      simp [Lexer.acceptMatch, h2.restFrom, hre]
                    have hs : Impl.step .bracketed l1 = .ok (l2.error, none) := by
                      simp only [Impl.step, lexBracketed, hw, Lexer.next_eq, hp, bind, Except.bind]
                      simp [hb, hm, stop]
                    rw [hh.step_none (e1.trans hs)] at hg
                    exact hg Bad.of_error
                  | some n =>
                    obtain ⟨l3, hm, h3⟩ := h2.acceptMatch hre (reIndex_bounded _ _ hre)
                    have h4 := h3.emit .index
                    have hs : Impl.step .bracketed l1 = .ok (l3.emit .index, some .bracketed) := by
                      simp only [Impl.step, lexBracketed, hw, Lexer.next_eq, hp, bind, Except.bind]
                      simp [hb, hm, goto]
                    refine ⟨.index, (c :: r).take n, (c :: r).drop n, _, _,
                      by simp [brTok, hsk, hre, c1, c2, c3, c4, c5, c6, c7],
                      .inr (.inr ⟨by simp, by simp, _, by simpa using h4, hh.step_some (e1.trans hs)⟩)⟩

end JPV.Proofs.Ss
