/-
`Proofs.Sf.PiFun` — inversion of `parseFunction` / `functionArgs`, one fuel step each.
-/
import JPV.Proofs.Sf.PiExpr
set_option linter.unusedSimpArgs false
set_option linter.unusedVariables false
namespace JPV.Proofs.Sf
open JPV JPV.Impl JPV.Proofs.Rq JPV.Proofs.Cs JPV.Proofs.Ss

/-- a successful run leaves the stream alone -/
def Quiet {α} (m : P α) : Prop := ∀ st st' r, exec m st = (.ok r, st') → st' = st

theorem Quiet.pure {α} (a : α) : Quiet (pure a : P α) := fun _ _ _ h => (exec_pure_ok h).2.symm
theorem Quiet.failAt {α} (k : ErrKind) (t : Token) : Quiet (failAt k t : P α) :=
  fun _ _ _ h => absurd h failAt_ne_ok
theorem Quiet.bind {α β} {m : P α} {f : α → P β} (hm : Quiet m) (hf : ∀ a, Quiet (f a)) : Quiet (m >>= f) := by
  intro st st' r h
  obtain ⟨a, st1, h1, h2⟩ := exec_bind_ok h
  rw [hf a _ _ _ h2, hm _ _ _ h1]
theorem Quiet.ite {α} {c : Prop} [Decidable c] {m1 m2 : P α} (h1 : Quiet m1) (h2 : Quiet m2) :
    Quiet (if c then m1 else m2) := by
  split <;> assumption

theorem Quiet.forIn {α} (l : List α) (body : α → PUnit → P (ForInStep PUnit))
    (hb : ∀ a u, Quiet (body a u)) : ∀ u, Quiet (forIn l u body) := by
  induction l with
  | nil => intro u; simp only [List.forIn_nil]; exact Quiet.pure _
  | cons a l ih =>
    intro u
    rw [List.forIn_cons]
    refine Quiet.bind (hb a u) ?_
    intro s
    cases s with
    | done b => exact Quiet.pure _
    | yield b => exact ih b

theorem validateSignature_quiet (env : Env) (tok : Token) (args : List Expr) :
    Quiet (validateSignature env tok args) := by
  unfold validateSignature
  split
  · exact Quiet.failAt _ _
  · dsimp only
    refine Quiet.ite (Quiet.bind (Quiet.failAt _ _) ?_) ?_
    · intro _; exact Quiet.ite (Quiet.failAt _ _) (Quiet.pure _)
    · exact Quiet.ite (Quiet.failAt _ _) (Quiet.pure _)

/-- the checks of `parseFunction` after the argument list -/
theorem functionFin_ok {env : Env} {t : Token} {args : List Expr} {st st' : TStream} {p : PExpr}
    (h : exec (do validateSignature env t args; pure (⟨.call t.value args, t⟩ : PExpr)) st = (.ok p, st')) :
    p.e = .call t.value args ∧ st' = st := by
  obtain ⟨_, st1, hV, h2⟩ := exec_bind_ok h
  obtain ⟨rfl, rfl⟩ := exec_pure_ok h2
  exact ⟨rfl, validateSignature_quiet env t args _ _ _ hV⟩

theorem function_step {env : Env} {f : Nat} (ih : ArgsInv env f) : FunctionInv env (f + 1) := by
  intro t rest st' p he hk h
  rw [parseFunction] at h
  have hne : t.kind ≠ .eof := by rw [hk]; simp
  obtain ⟨tok, st1, hN, h2⟩ := exec_bind_ok h
  clear h
  obtain ⟨rfl, c, rest', rfl, he', rfl⟩ := fresh_nextTok he hne hN
  clear hN
  obtain ⟨ap, st2, hA, h3⟩ := exec_bind_ok h2
  clear h2
  obtain ⟨args, parens⟩ := ap
  dsimp only at h3
  have hfin : p.e = .call t.value args ∧ st' = st2 := by
    split at h3
    · obtain ⟨_, st3, hF, h4⟩ := exec_bind_ok h3
      have : st3 = st2 := by
        refine Quiet.forIn _ _ ?_ _ _ _ _ hF
        intro a u
        split
        · exact Quiet.ite (Quiet.bind (Quiet.failAt _ _) (fun _ => Quiet.pure _)) (Quiet.pure _)
        · exact Quiet.pure _
      subst this
      exact functionFin_ok h4
    · exact functionFin_ok h3
  clear h3
  obtain ⟨hp, rfl⟩ := hfin
  obtain ⟨as, ts, rp, more, has, htoks, hrp, rfl, herp, hA1, hA2⟩ := ih _ _ _ _ _ _ he' hA
  simp only [List.nil_append] at has
  subst has
  have hrpe : rp.kind ≠ .eof := by rw [hrp]; simp
  obtain ⟨x, more', rfl, hx⟩ := herp.next hrpe
  have hargs : ArgsD args ts := by
    by_cases hc : c.kind = .rparen
    · obtain ⟨rfl, rfl⟩ := hA1 hc
      exact .nil
    · obtain ⟨a, as', t1, t2, rfl, rfl, ha, hm⟩ := hA2 hc
      exact .cons a as' t1 t2 ha hm
  refine ⟨ts ++ [rp], x, more', ?_, .inl ⟨rp, hrpe, rfl⟩, hx, ?_⟩
  · rw [htoks]; simp
  · rw [hp]
    exact .term _ _ (.call t rp args ts hk hrp hargs)

/-! ### the argument loop -/

/-- what follows an argument in one `functionArgs` iteration -/
def argTail (env : Env) (fuel : Nat) (args : List Expr) (parens : List Nat) (x : PExpr) :
    P (List Expr × List Nat) := do
  if (← peekTok).kind ≠ .rparen then
    expectPeek .comma
    let _ ← nextTok
    expectPeekNot .rparen
  let _ ← nextTok
  functionArgs env fuel (args ++ [x.e]) parens

theorem functionArgs_eq (env : Env) (fuel : Nat) (args : List Expr) (parens : List Nat) :
    functionArgs env (fuel + 1) args parens = (do
      let c ← cur
      if c.kind = .rparen then return (args, parens)
      match functionArgumentMap c.kind with
      | none => failAt .syntax c
      | some h =>
        let parens := if c.kind = .lparen then parens ++ [args.length] else parens
        let x ← parseByHandler env h fuel
        let x ← functionArgInfix env fuel x
        argTail env fuel args parens x) := by
  rw [functionArgs]; rfl

theorem argTail_inv {env : Env} {f : Nat} {args : List Expr} {parens : List Nat} {e : PExpr}
    {x : Token} {more : List Token} {st st' : TStream} {r : List Expr × List Nat}
    (hr : Ready x more st) (he : EndsEof (x :: more))
    (h : exec (argTail env f args parens e) st = (.ok r, st')) :
    (x.kind = .rparen ∧ exec (functionArgs env f (args ++ [e.e]) parens) ⟨x, [], more⟩ = (.ok r, st')) ∨
    (x.kind = .comma ∧ ∃ y more', more = y :: more' ∧ y.kind ≠ .rparen ∧
      exec (functionArgs env f (args ++ [e.e]) parens) ⟨y, [], more'⟩ = (.ok r, st')) := by
  by_cases hx : x.kind = .rparen
  · left
    refine ⟨hx, ?_⟩
    rcases hr with ⟨c, hcc, rfl⟩ | ⟨c, rfl⟩
    · simpa [argTail, exec_bind, exec_peekTok, exec_nextTok, exec_pure, peek_fresh, peek_pushed,
        next_pushed, hcc, hx] using h
    · simpa [argTail, exec_bind, exec_peekTok, exec_nextTok, exec_pure, peek_fresh, peek_pushed,
        next_pushed, hx] using h
  · by_cases hc : x.kind = .comma
    · right
      have hne : x.kind ≠ .eof := by rw [hc]; simp
      obtain ⟨y, more', rfl, he'⟩ := he.next hne
      refine ⟨hc, y, more', rfl, ?_⟩
      by_cases hy : y.kind = .rparen
      · exfalso
        rcases hr with ⟨c, hcc, rfl⟩ | ⟨c, rfl⟩
        · simp [argTail, exec_bind, exec_peekTok, exec_nextTok, exec_pure, peek_fresh, peek_pushed,
            next_pushed, expectPeek, expectPeekNot, hcc, hc, hy, hne, failAt, exec_throw] at h
        · simp [argTail, exec_bind, exec_peekTok, exec_nextTok, exec_pure, peek_fresh, peek_pushed,
            next_pushed, expectPeek, expectPeekNot, hc, hy, hne, failAt, exec_throw] at h
      · refine ⟨hy, ?_⟩
        rcases hr with ⟨c, hcc, rfl⟩ | ⟨c, rfl⟩
        · simpa [argTail, exec_bind, exec_peekTok, exec_nextTok, exec_pure, peek_fresh, peek_pushed,
            next_pushed, expectPeek, expectPeekNot, hcc, hc, hy, hne] using h
        · simpa [argTail, exec_bind, exec_peekTok, exec_nextTok, exec_pure, peek_fresh, peek_pushed,
            next_pushed, expectPeek, expectPeekNot, hc, hy, hne] using h
    · exfalso
      rcases hr with ⟨c, hcc, rfl⟩ | ⟨c, rfl⟩
      · simp [argTail, exec_bind, exec_peekTok, exec_nextTok, exec_pure, peek_fresh, peek_pushed,
          next_pushed, expectPeek, hcc, hc, hx, failAt, exec_throw] at h
      · simp [argTail, exec_bind, exec_peekTok, exec_nextTok, exec_pure, peek_fresh, peek_pushed,
          next_pushed, expectPeek, hc, hx, failAt, exec_throw] at h

theorem args_step {env : Env} {f : Nat} (ihH : ByHandlerInv env f) (ihI : ArgInfixInv env f)
    (ihA : ArgsInv env f) : ArgsInv env (f + 1) := by
  intro args parens c rest st' r he h
  rw [functionArgs_eq] at h
  obtain ⟨c0, st0, hC, h2⟩ := exec_bind_ok h
  clear h
  obtain ⟨rfl, rfl⟩ := exec_cur_ok hC
  clear hC
  by_cases hk : c.kind = .rparen
  · simp only [hk, if_true] at h2
    obtain ⟨rfl, rfl⟩ := exec_pure_ok h2
    exact ⟨[], [], c, rest, by simp, rfl, hk, rfl, he, fun _ => ⟨rfl, rfl⟩, fun hn => absurd hk hn⟩
  · simp only [hk, if_false] at h2
    cases hm : functionArgumentMap c.kind with
    | none => rw [hm] at h2; exact absurd h2 failAt_ne_ok
    | some hd =>
      rw [hm] at h2
      dsimp only at h2
      obtain ⟨x1, st1, hH, h3⟩ := exec_bind_ok h2
      clear h2
      obtain ⟨t1, y, more, rfl, hrdy, hy, hprim⟩ := ihH _ _ _ _ _ he hm hH
      clear hH
      obtain ⟨x2, st2, hI, h4⟩ := exec_bind_ok h3
      clear h3
      obtain ⟨t2, z, more2, htoks, hrdy2, hz, hLI, hbz⟩ :=
        ihI _ _ _ _ _ _ _ hrdy hy (.prim _ _ hprim) hI
      clear hI
      have harg : ArgD x2.e (c :: t1 ++ t2) := hLI.arg
      rcases argTail_inv hrdy2 hz h4 with ⟨hzk, h5⟩ | ⟨hzk, w, more3, rfl, hw, h5⟩
      · obtain ⟨as, ts, rp, more4, has, htoks2, hrp, rfl, herp, hA1, -⟩ := ihA _ _ _ _ _ _ hz h5
        obtain ⟨rfl, rfl⟩ := hA1 hzk
        simp only [List.nil_append, List.cons.injEq] at htoks2
        obtain ⟨rfl, rfl⟩ := htoks2
        refine ⟨[x2.e], c :: t1 ++ t2, z, more2, by simpa using has, ?_, hrp, rfl, herp,
          fun hc => absurd hc hk, fun _ => ⟨x2.e, [], c :: t1 ++ t2, [], rfl, by simp, harg, .nil⟩⟩
        rw [htoks]; simp
      · obtain ⟨as, ts, rp, more4, has, htoks2, hrp, rfl, herp, -, hA2⟩ := ihA _ _ _ _ _ _ hz.tail h5
        obtain ⟨a, as', u1, u2, rfl, rfl, ha, hmore⟩ := hA2 hw
        refine ⟨x2.e :: a :: as', (c :: t1 ++ t2) ++ (z :: (u1 ++ u2)), rp, more4, by simpa using has, ?_,
          hrp, rfl, herp, fun hc => absurd hc hk,
          fun _ => ⟨x2.e, a :: as', c :: t1 ++ t2, z :: (u1 ++ u2), rfl, rfl, harg,
            .cons z a as' u1 u2 hzk ha hmore⟩⟩
        rw [htoks, htoks2]; simp

end JPV.Proofs.Sf
