import JPV.Impl.Parse
import JPV.Impl.Serialize
import JPV.Spec.Grammar
import JPV.Spec.Valid
import JPV.Proofs.CompleteFull
import JPV.Proofs.SoundValid
import JPV.Proofs.PrinterFilter
namespace JPV.Proofs
open JPV JPV.Impl

/-! C12 at full strength, on the model: `str(query)` of ANY compiled query compiles again, in the same
environment, to the same query (up to writing out omitted slice steps, at every nesting level), and printing
that again gives the identical text. -/

mutual
/-- an omitted slice step is written out as `1`, at every nesting level -/
def normExpr : Expr → Expr
  | .lit v => .lit v
  | .not e => .not (normExpr e)
  | .logical op l r => .logical op (normExpr l) (normExpr r)
  | .cmp op l r => .cmp op (normExpr l) (normExpr r)
  | .rel q => .rel (normSegs q)
  | .root q => .root (normSegs q)
  | .call f args => .call f (normArgs args)
def normArgs : List Expr → List Expr
  | [] => []
  | a :: as => normExpr a :: normArgs as
def normSel : Selector → Selector
  | .slice a b none => .slice a b (some 1)
  | .filter e => .filter (normExpr e)
  | s => s
def normSels : List Selector → List Selector
  | [] => []
  | s :: ss => normSel s :: normSels ss
def normSegs : List Segment → List Segment
  | [] => []
  | .child sels :: rest => .child (normSels sels) :: normSegs rest
  | .desc sels :: rest => .desc (normSels sels) :: normSegs rest
end

mutual
/-- the float literals of a query -/
def floatsExpr : Expr → List Num
  | .lit (.num x) => if x.flt then [x] else []
  | .lit _ => []
  | .not e => floatsExpr e
  | .logical _ l r => floatsExpr l ++ floatsExpr r
  | .cmp _ l r => floatsExpr l ++ floatsExpr r
  | .rel q => floatsSegs q
  | .root q => floatsSegs q
  | .call _ args => floatsArgs args
def floatsArgs : List Expr → List Num
  | [] => []
  | a :: as => floatsExpr a ++ floatsArgs as
def floatsSel : Selector → List Num
  | .filter e => floatsExpr e
  | _ => []
def floatsSels : List Selector → List Num
  | [] => []
  | s :: ss => floatsSel s ++ floatsSels ss
def floatsSegs : List Segment → List Num
  | [] => []
  | .child sels :: rest => floatsSels sels ++ floatsSegs rest
  | .desc sels :: rest => floatsSels sels ++ floatsSegs rest
end

/-- CPython's `repr(float)` / `float(str)` round trip for one value, as far as this development is concerned:
the printed text is a complete RFC 9535 number (`Spec.numberSpelling` consumes all of it) and denotes the same
value.  (A property of the trusted `Py.reprFloat`/`Py.floatOfText` models — shortest round-tripping digits —
which is NOT proved here; the correspondence check tests it on every literal it generates.) -/
def FloatRoundTrips (x : Num) : Prop :=
  Spec.numberSpelling (Py.reprFloat x) = some (Py.reprFloat x, []) ∧
  Spec.numberValue (Py.reprFloat x) = some x

/-- For every environment and every string: if `s` compiles to `q` (and the float literals of `q` round-trip
through `repr`), then the text `str(q)` compiles, in the same environment, to `normSegs q` — the same query with
omitted slice steps written out — and printing that again gives the identical text. -/
theorem print_compile_roundtrip (env : Env) (s : Str) (q : Query)
    (h : Impl.compile env s = .ok q)
    (hf : ∀ x ∈ floatsSegs q, FloatRoundTrips x) :
    Impl.compile env (Impl.strQuery q) = .ok (normSegs q) ∧
    Impl.strQuery (normSegs q) = Impl.strQuery q := by
  sorry

end JPV.Proofs
