/-
`Proofs.Pc.Roundtrip` — assembly: the printed text of a compiled query is derivable (`Pc.Print`), its
canonical derivation is valid and undisputed (`Pc.Good`, `Pc.Valid`), so `compile_complete` compiles it to the
derivation's abstraction — the query with omitted slice steps written out (`Pc.CTree`).
-/
import JPV.Proofs.CompleteFull
import JPV.Proofs.SoundValid
import JPV.Proofs.Pc.Ok
import JPV.Proofs.Pc.Valid
import JPV.Proofs.Pc.Good
import JPV.Proofs.Pc.WtNorm
namespace JPV.Proofs.Pc
open JPV JPV.Impl

theorem segments_of_parseQuery {s : Str} {c : List Spec.CSegment}
    (h : Spec.parseQuery s = .valid c ∨ Spec.parseQuery s = .disputed c) :
    ∃ F r, Spec.segments F r = some (c, []) := by
  unfold Spec.parseQuery at h
  split at h
  · rename_i r
    split at h
    · rename_i segs heq
      refine ⟨2 * ('$' :: r).length + 4, r, ?_⟩
      rw [heq]
      simp only at h
      rcases h with h | h
      · split at h
        · cases h
        · split at h
          · cases h
          · cases h; rfl
      · split at h
        · cases h
        · split at h
          · cases h; rfl
          · cases h
    · rcases h with h | h <;> cases h
  · rcases h with h | h <;> cases h

theorem parseQuery_of_judge {sg : Spec.Sigs} {lo hi : Int} {s : Str} {c : List Spec.CSegment} {v : Spec.Validity}
    (h : Spec.judge sg lo hi s = (v, some c)) :
    Spec.parseQuery s = .valid c ∨ Spec.parseQuery s = .disputed c := by
  unfold Spec.judge at h
  split at h
  · cases h
  · rename_i q hq
    simp only [Prod.mk.injEq, Option.some.injEq] at h
    rw [← h.2]; exact .inl hq
  · rename_i q hq
    simp only [Prod.mk.injEq, Option.some.injEq] at h
    rw [← h.2]; exact .inr hq

/-- the round trip, in terms of the copies `Pc.normSegs`, `Pc.floatsSegs`, `Pc.FloatRT` of the definitions
of `Proofs.PrintCompile` -/
theorem roundtrip (env : Env) (s : Str) (q : Query)
    (h : Impl.compile env s = .ok q)
    (h1 : env.minIdx ≤ 1 ∧ 1 ≤ env.maxIdx)
    (hf : ∀ x ∈ floatsSegs q, FloatRT x) :
    Impl.compile env (Impl.strQuery q) = .ok (normSegs q) ∧
    Impl.strQuery (normSegs q) = Impl.strQuery q := by
  refine ⟨?_, strQuery_norm q⟩
  -- what the derivation of the original string says about `q`
  obtain ⟨c, hj, ha⟩ := compile_sound_valid env s q h
  obtain ⟨F, r, hseg0⟩ := segments_of_parseQuery (hj.elim parseQuery_of_judge parseQuery_of_judge)
  have hd : DOkQ q := by rw [← ha]; exact dok_of_segments hseg0
  have hok : OkQ q := okQ_of q hd hf
  obtain ⟨hwt, hints⟩ := compile_welltyped env s q h
  -- the derivation of the printed text
  have hseg := segments_print (sigsOfEnv' env) q hok hwt
  have hnwt : Spec.wtQuery (sigsOfEnv' env) (Spec.abstractSegs (csegs q)) = true := by
    rw [abstract_csegs, wtQuery_norm]; exact hwt
  have hnints : Spec.intsQuery env.minIdx env.maxIdx (Spec.abstractSegs (csegs q)) = true := by
    rw [abstract_csegs]
    exact intsQuery_norm _ _ (by simp [Spec.inRange, h1.1, h1.2]) q hints
  have hsh1 := Sf.cmpShape_of_wt (sigsOfEnv' env) (csegs q) hnwt
  have hsh2 := cmpShapeSegs2_of_nb (csegs q) (nb_csegs q)
  have hpq : Spec.parseQuery (Impl.strQuery q) = .valid (csegs q) := by
    have e : Impl.strQuery q = '$' :: Impl.strSegs q := rfl
    unfold Spec.parseQuery
    rw [e] at hseg ⊢
    simp only [hseg, hsh1, hsh2]
    rfl
  have hv1 : (Spec.cSegs (sigsOfEnv' env) env.minIdx env.maxIdx (csegs q)).1 = true := by
    letI : Sv.SigC := ⟨sigsOfEnv' env⟩
    exact Sv.cSegs_of_good env.minIdx env.maxIdx (csegs q) (g_csegs q hwt) hnwt hnints
  have hv2 := cSegs2_of_nb (sigsOfEnv' env) env.minIdx env.maxIdx (csegs q) (nb_csegs q)
  have hjudge : Spec.judge (sigsOfEnv' env) env.minIdx env.maxIdx (Impl.strQuery q)
      = (.valid, some (csegs q)) := by
    unfold Spec.judge
    rw [hpq]
    simp [hv1, hv2]
  have := compile_complete env (Impl.strQuery q) (csegs q) hjudge
  rw [abstract_csegs] at this
  exact this

end JPV.Proofs.Pc
