/-
`Proofs.Cs.LexInt` — `Spec.intLit` against `RE_INDEX`, and the INDEX token inside brackets.
-/
import JPV.Proofs.Cs.LexBrk
import JPV.Proofs.PrinterInt
namespace JPV.Proofs.Cs
open JPV JPV.Impl JPV.Proofs.Rq

theorem D1_digit {c : Char} (h : Spec.isDIGIT1 c = true) : Spec.isDIGIT c = true := by
  rw [Prn.isDIGIT1_iff] at h; rw [Prn.isDIGIT_iff]; omega

theorem D1_ne_zero {c : Char} (h : Spec.isDIGIT1 c = true) : c ≠ '0' := by
  rintro rfl; revert h; decide

theorem D1_ne_minus {c : Char} (h : Spec.isDIGIT1 c = true) : c ≠ '-' := by
  rintro rfl; revert h; decide

theorem spanLen_noDigit {r : List Char} (h : Prn.NoDigit r) : spanLen isDigit r = 0 := by
  cases r with
  | nil => rfl
  | cons c t => simp [spanLen, isDigit_eq, h c t rfl]

theorem takeWhile_append_drop {α} (p : α → Bool) (l : List α) :
    l.takeWhile p ++ l.drop (l.takeWhile p).length = l := by
  induction l with
  | nil => rfl
  | cons c cs ih =>
    simp only [List.takeWhile]
    cases p c <;> simp [ih]

theorem takeWhile_all {α} (p : α → Bool) (l : List α) : ∀ x ∈ l.takeWhile p, p x = true := by
  induction l with
  | nil => simp
  | cons c cs ih =>
    simp only [List.takeWhile]
    cases h : p c
    · simp
    · intro x hx
      rcases List.mem_cons.mp hx with rfl | hx
      · exact h
      · exact ih x hx

theorem allDigits_takeWhile {c : Char} {r : List Char} (hc : Spec.isDIGIT c = true) :
    Py.allDigits ((c :: r).takeWhile Spec.isDIGIT) = true := by
  unfold Py.allDigits
  have : (fun c => decide ('0' ≤ c) && decide (c ≤ '9')) = Spec.isDIGIT := rfl
  rw [this]
  simp only [List.takeWhile, hc, List.isEmpty_cons, Bool.not_false, Bool.true_and]
  rw [List.all_eq_true]
  intro x hx
  rcases List.mem_cons.mp hx with rfl | hx
  · exact hc
  · exact takeWhile_all _ _ x hx

/-- an integer of the grammar followed by a non-digit is what `RE_INDEX` matches, and passes the
parser's leading-zero checks -/
theorem intLit_reIndex {inp r : List Char} {i : Int} (h : Spec.intLit inp = some (i, r)) (hnd : Prn.NoDigit r) :
    ∃ c t v, inp = c :: t ∧ (isDigit c = true ∨ c = '-') ∧ inp = v ++ r ∧ reIndex inp = some v.length ∧
      IdxTok v i := by
  unfold Spec.intLit at h
  split at h
  · rename_i r0
    simp only [Option.some.injEq, Prod.mk.injEq] at h
    obtain ⟨rfl, rfl⟩ := h
    refine ⟨'0', r0, ['0'], rfl, .inl (by decide), rfl, ?_, ⟨by decide, by simp, by decide⟩⟩
    simp [reIndex, reSignedDigits, spanLen, isDigit, spanLen_noDigit hnd]
  · rename_i c r0
    split at h
    · rename_i hc
      simp only [Option.some.injEq, Prod.mk.injEq] at h
      obtain ⟨rfl, rfl⟩ := h
      have hd := D1_digit hc
      refine ⟨'-', c :: r0, '-' :: (c :: r0).takeWhile Spec.isDIGIT, rfl, .inr rfl, ?_, ?_, ?_, ?_, ?_⟩
      · rw [List.cons_append, takeWhile_append_drop]
      · simp only [reIndex, reSignedDigits, spanLen_eq]
        have : (List.takeWhile isDigit (c :: r0)).length ≠ 0 := by
          simp [List.takeWhile, isDigit_eq, hd]
        simp only [this, if_false, List.length_cons]
        congr 1; rw [Nat.add_comm]; rfl
      · simp only [Py.intOfText, allDigits_takeWhile hd, if_true]
      · simp
      · simp [List.takeWhile, hd, Ne.symm (D1_ne_zero hc)]
    · simp at h
  · rename_i c r0 h0 hm
    split at h
    · rename_i hc
      simp only [Option.some.injEq, Prod.mk.injEq] at h
      obtain ⟨rfl, rfl⟩ := h
      have hd := D1_digit hc
      have hne := D1_ne_minus hc
      refine ⟨c, r0, (c :: r0).takeWhile Spec.isDIGIT, rfl, .inl hd, ?_, ?_, ?_, ?_, ?_⟩
      · rw [takeWhile_append_drop]
      · simp only [reIndex, reSignedDigits]
        split
        · rename_i heq; simp only [List.cons.injEq] at heq; exact absurd heq.1 hne
        · have : (List.takeWhile isDigit (c :: r0)).length ≠ 0 := by
            simp [List.takeWhile, isDigit_eq, hd]
          simp only [spanLen_eq, this, if_false, Nat.zero_add]
          rfl
      · unfold Py.intOfText
        split
        · rename_i heq
          simp only [List.takeWhile, hd, List.cons.injEq] at heq
          exact absurd heq.1 hne
        · simp only [allDigits_takeWhile hd, if_true]
      · simp [List.takeWhile, hd, D1_ne_zero hc]
      · simp [List.takeWhile, hd, Ne.symm hne]
    · simp at h
  · simp at h


theorem BL_int {inp r : List Char} {i : Int} (h : Spec.intLit (Spec.skipS inp) = some (i, r))
    (hnd : Prn.NoDigit r) : BL inp (fun ts => ∃ v k, IdxTok v i ∧ ts = [⟨.index, v, k⟩]) r := by
  intro l toks br hs
  obtain ⟨l1, pre', h1, hst⟩ := hs.step_bracketed
  obtain ⟨c, t, v, e1, hc, e2, hre, hi⟩ := intLit_reIndex h hnd
  rw [e1] at h1 e2 hre
  obtain ⟨l2, s2, h2⟩ := lexBracketed_int h1 hc hre (by rw [e2]; simp)
  have e3 : (c :: t).take v.length = v := by rw [e2]; simp
  have e4 : (c :: t).drop v.length = r := by rw [e2]; simp
  rw [e3, e4] at h2
  exact ⟨l2, [_], .one (hst.trans s2), .of_St (by simpa using h2), v, _, hi, rfl⟩

theorem noDigit_of_skipS {r t : List Char} {c : Char} (h : Spec.skipS r = c :: t) (hc : Spec.isDIGIT c = false) :
    Prn.NoDigit r := by
  intro d t' e
  subst e
  by_cases hw : isWs d = true
  · have : ((d = ' ' ∨ d = '\n') ∨ d = '\r') ∨ d = '\t' := by simpa [isWs] using hw
    rcases this with ((rfl | rfl) | rfl) | rfl <;> decide
  · rw [skipS_of_head (by simpa using hw)] at h
    simp only [List.cons.injEq] at h
    rw [h.1]; exact hc

theorem noDigit_nil : Prn.NoDigit [] := by intro c t e; cases e

end JPV.Proofs.Cs
