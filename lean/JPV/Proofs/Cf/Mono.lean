/-
`Proofs.Cf.Mono` — fuel monotonicity of the parser: more fuel never changes a result that is not a
fuel error.
-/
import JPV.Proofs.ParseSafe
namespace JPV.Proofs.Cf
open JPV JPV.Impl

/-- whenever `m` finishes with anything but a fuel error, `m'` finishes in exactly the same way -/
def Sub {α} (m m' : P α) : Prop :=
  ∀ st, match exec m st with
    | (.ok a, st') => exec m' st = (.ok a, st')
    | (.error e, st') => e.kind = .fuel ∨ exec m' st = (.error e, st')

section
variable {α β : Type}

theorem Sub.refl (m : P α) : Sub m m := by
  intro st
  rcases h : exec m st with ⟨r, st'⟩
  cases r with
  | ok a => rfl
  | error e => exact .inr rfl

theorem Sub.outOfFuel (m' : P α) : Sub outOfFuel m' := by
  intro st
  exact .inl rfl

theorem Sub.bind {m m' : P α} {f f' : α → P β} (h1 : Sub m m') (h2 : ∀ a, Sub (f a) (f' a)) :
    Sub (m >>= f) (m' >>= f') := by
  intro st
  have h := h1 st
  rw [exec_bind, exec_bind]
  rcases hm : exec m st with ⟨r, st'⟩
  rw [hm] at h
  cases r with
  | ok a =>
    simp only at h ⊢
    rw [h]
    exact h2 a st'
  | error e =>
    simp only at h ⊢
    rcases h with h | h
    · exact .inl h
    · rw [h]; exact .inr rfl

theorem Sub.bind_left {m : P α} {f f' : α → P β} (h2 : ∀ a, Sub (f a) (f' a)) :
    Sub (m >>= f) (m >>= f') := Sub.bind (Sub.refl m) h2

theorem Sub.ite {c : Prop} [Decidable c] {a a' b b' : P α} (h1 : c → Sub a a') (h2 : ¬c → Sub b b') :
    Sub (if c then a else b) (if c then a' else b') := by
  by_cases h : c
  · rw [if_pos h, if_pos h]; exact h1 h
  · rw [if_neg h, if_neg h]; exact h2 h

/-- the handler maps a fuel error to a fuel error -/
theorem Sub.tryCatch {m m' : P α} {h : Err → P α} (h1 : Sub m m')
    (hh : ∀ e, e.kind = .fuel → h e = throw e) : Sub (tryCatch m h) (tryCatch m' h) := by
  intro st
  have h0 := h1 st
  rw [exec_tryCatch, exec_tryCatch]
  rcases hm : exec m st with ⟨r, st'⟩
  rw [hm] at h0
  cases r with
  | ok a =>
    simp only at h0 ⊢
    rw [h0]
  | error e =>
    simp only at h0 ⊢
    rcases h0 with h0 | h0
    · rw [hh e h0, exec_throw]; exact .inl h0
    · rw [h0]; exact Sub.refl (h e) st'

theorem Sub.trans {m₁ m₂ m₃ : P α} (h1 : Sub m₁ m₂) (h2 : Sub m₂ m₃) : Sub m₁ m₃ := by
  intro st
  have a := h1 st
  have b := h2 st
  rcases hm : exec m₁ st with ⟨r, st'⟩
  rw [hm] at a
  cases r with
  | ok x =>
    simp only at a ⊢
    rw [a] at b
    exact b
  | error e =>
    simp only at a ⊢
    rcases a with a | a
    · exact .inl a
    · rw [a] at b; exact b

end

/-- the fourteen functions at fuel `f` are simulated by the same functions at fuel `f'` -/
structure AllMono (env : Env) (f f' : Nat) : Prop where
  parseQuery : ∀ inF acc, Sub (parseQuery env inF f acc) (parseQuery env inF f' acc)
  parseSelectors : Sub (parseSelectors env f) (parseSelectors env f')
  parseBracketed : ∀ op acc, Sub (parseBracketed env op f acc) (parseBracketed env op f' acc)
  parseFilterSelector : Sub (parseFilterSelector env f) (parseFilterSelector env f')
  parseByHandler : ∀ h, Sub (parseByHandler env h f) (parseByHandler env h f')
  parseFilterExpr : ∀ prec, Sub (parseFilterExpr env prec f) (parseFilterExpr env prec f')
  filterExprLoop : ∀ prec left, Sub (filterExprLoop env prec f left) (filterExprLoop env prec f' left)
  parseInfix : ∀ left, Sub (parseInfix env left f) (parseInfix env left f')
  parsePrefix : Sub (parsePrefix env f) (parsePrefix env f')
  parseGrouped : Sub (parseGrouped env f) (parseGrouped env f')
  groupedLoop : ∀ x, Sub (groupedLoop env f x) (groupedLoop env f' x)
  parseFunction : Sub (parseFunction env f) (parseFunction env f')
  functionArgs : ∀ args parens, Sub (functionArgs env f args parens) (functionArgs env f' args parens)
  functionArgInfix : ∀ x, Sub (functionArgInfix env f x) (functionArgInfix env f' x)

/-- one step of the structural simulation proof -/
syntax "sub_step" : tactic
macro_rules | `(tactic| sub_step) => `(tactic| first
  | with_reducible exact Sub.refl _
  | exact AllMono.parseQuery (by assumption) _ _
  | exact AllMono.parseSelectors (by assumption)
  | exact AllMono.parseBracketed (by assumption) _ _
  | exact AllMono.parseFilterSelector (by assumption)
  | exact AllMono.parseByHandler (by assumption) _
  | exact AllMono.parseFilterExpr (by assumption) _
  | exact AllMono.filterExprLoop (by assumption) _ _
  | exact AllMono.parseInfix (by assumption) _
  | exact AllMono.parsePrefix (by assumption)
  | exact AllMono.parseGrouped (by assumption)
  | exact AllMono.groupedLoop (by assumption) _
  | exact AllMono.parseFunction (by assumption)
  | exact AllMono.functionArgs (by assumption) _ _
  | exact AllMono.functionArgInfix (by assumption) _
  | refine Sub.bind ?_ (fun _ => ?_)
  | (refine Sub.ite ?_ ?_ <;> intro _)
  | dsimp only
  | split)

macro "sub_auto" : tactic => `(tactic| repeat' sub_step)

variable {env : Env} {f f' : Nat}

theorem parseQuery_step (ih : AllMono env f f') (inF acc) :
    Sub (parseQuery env inF (f + 1) acc) (parseQuery env inF (f' + 1) acc) := by
  rw [parseQuery, parseQuery]
  sub_auto

theorem parseSelectors_step (ih : AllMono env f f') :
    Sub (parseSelectors env (f + 1)) (parseSelectors env (f' + 1)) := by
  rw [parseSelectors, parseSelectors]
  sub_auto

theorem parseBracketed_step (ih : AllMono env f f') (op acc) :
    Sub (parseBracketed env op (f + 1) acc) (parseBracketed env op (f' + 1) acc) := by
  rw [parseBracketed, parseBracketed]
  sub_auto

theorem parseFilterSelector_step (ih : AllMono env f f') :
    Sub (parseFilterSelector env (f + 1)) (parseFilterSelector env (f' + 1)) := by
  rw [parseFilterSelector, parseFilterSelector]
  sub_auto

theorem parseByHandler_step (ih : AllMono env f f') (h) :
    Sub (parseByHandler env h (f + 1)) (parseByHandler env h (f' + 1)) := by
  cases h <;> rw [parseByHandler, parseByHandler] <;> sub_auto
  all_goals (intro h; cases h)

theorem parseFilterExpr_step (ih : AllMono env f f') (prec) :
    Sub (parseFilterExpr env prec (f + 1)) (parseFilterExpr env prec (f' + 1)) := by
  rw [parseFilterExpr, parseFilterExpr]
  sub_auto
  refine Sub.tryCatch (ih.parseByHandler _) ?_
  intro e he
  show (if e.kind = ErrKind.py "KeyError" then _ else _) = _
  rw [if_neg]
  rw [he]
  intro h
  cases h

theorem filterExprLoop_step (ih : AllMono env f f') (prec left) :
    Sub (filterExprLoop env prec (f + 1) left) (filterExprLoop env prec (f' + 1) left) := by
  rw [filterExprLoop, filterExprLoop]
  sub_auto

theorem parseInfix_step (ih : AllMono env f f') (left) :
    Sub (parseInfix env left (f + 1)) (parseInfix env left (f' + 1)) := by
  rw [parseInfix, parseInfix]
  sub_auto

theorem parsePrefix_step (ih : AllMono env f f') :
    Sub (parsePrefix env (f + 1)) (parsePrefix env (f' + 1)) := by
  rw [parsePrefix, parsePrefix]
  sub_auto

theorem parseGrouped_step (ih : AllMono env f f') :
    Sub (parseGrouped env (f + 1)) (parseGrouped env (f' + 1)) := by
  rw [parseGrouped, parseGrouped]
  sub_auto

theorem groupedLoop_step (ih : AllMono env f f') (x) :
    Sub (groupedLoop env (f + 1) x) (groupedLoop env (f' + 1) x) := by
  rw [groupedLoop, groupedLoop]
  sub_auto

theorem parseFunction_step (ih : AllMono env f f') :
    Sub (parseFunction env (f + 1)) (parseFunction env (f' + 1)) := by
  rw [parseFunction, parseFunction]
  sub_auto

theorem functionArgs_step (ih : AllMono env f f') (args parens) :
    Sub (functionArgs env (f + 1) args parens) (functionArgs env (f' + 1) args parens) := by
  rw [functionArgs, functionArgs]
  sub_auto

theorem functionArgInfix_step (ih : AllMono env f f') (x) :
    Sub (functionArgInfix env (f + 1) x) (functionArgInfix env (f' + 1) x) := by
  rw [functionArgInfix, functionArgInfix]
  sub_auto

theorem allMono (env : Env) : ∀ f f', f ≤ f' → AllMono env f f' := by
  intro f
  induction f with
  | zero =>
    intro f' _
    constructor
    all_goals intros
    · rw [parseQuery]; exact Sub.outOfFuel _
    · rw [parseSelectors]; exact Sub.outOfFuel _
    · rw [parseBracketed]; exact Sub.outOfFuel _
    · rw [parseFilterSelector]; exact Sub.outOfFuel _
    · rw [parseByHandler]; exact Sub.outOfFuel _
    · rw [parseFilterExpr]; exact Sub.outOfFuel _
    · rw [filterExprLoop]; exact Sub.outOfFuel _
    · rw [parseInfix]; exact Sub.outOfFuel _
    · rw [parsePrefix]; exact Sub.outOfFuel _
    · rw [parseGrouped]; exact Sub.outOfFuel _
    · rw [groupedLoop]; exact Sub.outOfFuel _
    · rw [parseFunction]; exact Sub.outOfFuel _
    · rw [functionArgs]; exact Sub.outOfFuel _
    · rw [functionArgInfix]; exact Sub.outOfFuel _
  | succ f ih =>
    intro f' hle
    cases f' with
    | zero => omega
    | succ f' =>
      have ih := ih f' (by omega)
      exact
        { parseQuery := parseQuery_step ih
          parseSelectors := parseSelectors_step ih
          parseBracketed := parseBracketed_step ih
          parseFilterSelector := parseFilterSelector_step ih
          parseByHandler := parseByHandler_step ih
          parseFilterExpr := parseFilterExpr_step ih
          filterExprLoop := filterExprLoop_step ih
          parseInfix := parseInfix_step ih
          parsePrefix := parsePrefix_step ih
          parseGrouped := parseGrouped_step ih
          groupedLoop := groupedLoop_step ih
          parseFunction := parseFunction_step ih
          functionArgs := functionArgs_step ih
          functionArgInfix := functionArgInfix_step ih }

/-! ### consequences in `exec` form -/

/-- what `Sub` says about one run -/
theorem Sub.exec_eq {α} {m m' : P α} (h : Sub m m') {st st' : TStream} {r : Except Err α}
    (hr : exec m st = (r, st')) (hnf : ∀ e, r = .error e → e.kind ≠ .fuel) : exec m' st = (r, st') := by
  have := h st
  rw [hr] at this
  cases r with
  | ok a => exact this
  | error e =>
    rcases this with h | h
    · exact absurd h (hnf e rfl)
    · exact h

theorem Sub.exec_ok {α} {m m' : P α} (h : Sub m m') {st st' : TStream} {a : α}
    (hr : exec m st = (.ok a, st')) : exec m' st = (.ok a, st') :=
  h.exec_eq hr (fun _ h => by cases h)

/-- a non-fuel error is reproduced -/
theorem Sub.exec_error {α} {m m' : P α} (h : Sub m m') {st st' : TStream} {e : Err}
    (hr : exec m st = (.error e, st')) (hnf : e.kind ≠ .fuel) : exec m' st = (.error e, st') :=
  h.exec_eq hr (fun _ h => by cases h; exact hnf)

section
variable (env : Env) {F F' : Nat} (hF : F ≤ F')
include hF

theorem parseQuery_mono (inF acc) : Sub (parseQuery env inF F acc) (parseQuery env inF F' acc) :=
  (allMono env F F' hF).parseQuery inF acc
theorem parseSelectors_mono : Sub (parseSelectors env F) (parseSelectors env F') :=
  (allMono env F F' hF).parseSelectors
theorem parseBracketed_mono (op acc) : Sub (parseBracketed env op F acc) (parseBracketed env op F' acc) :=
  (allMono env F F' hF).parseBracketed op acc
theorem parseFilterSelector_mono : Sub (parseFilterSelector env F) (parseFilterSelector env F') :=
  (allMono env F F' hF).parseFilterSelector
theorem parseByHandler_mono (h) : Sub (parseByHandler env h F) (parseByHandler env h F') :=
  (allMono env F F' hF).parseByHandler h
theorem parseFilterExpr_mono (prec) : Sub (parseFilterExpr env prec F) (parseFilterExpr env prec F') :=
  (allMono env F F' hF).parseFilterExpr prec
theorem filterExprLoop_mono (prec left) :
    Sub (filterExprLoop env prec F left) (filterExprLoop env prec F' left) :=
  (allMono env F F' hF).filterExprLoop prec left
theorem parseInfix_mono (left) : Sub (parseInfix env left F) (parseInfix env left F') :=
  (allMono env F F' hF).parseInfix left
theorem parsePrefix_mono : Sub (parsePrefix env F) (parsePrefix env F') :=
  (allMono env F F' hF).parsePrefix
theorem parseGrouped_mono : Sub (parseGrouped env F) (parseGrouped env F') :=
  (allMono env F F' hF).parseGrouped
theorem groupedLoop_mono (x) : Sub (groupedLoop env F x) (groupedLoop env F' x) :=
  (allMono env F F' hF).groupedLoop x
theorem parseFunction_mono : Sub (parseFunction env F) (parseFunction env F') :=
  (allMono env F F' hF).parseFunction
theorem functionArgs_mono (args parens) :
    Sub (functionArgs env F args parens) (functionArgs env F' args parens) :=
  (allMono env F F' hF).functionArgs args parens
theorem functionArgInfix_mono (x) : Sub (functionArgInfix env F x) (functionArgInfix env F' x) :=
  (allMono env F F' hF).functionArgInfix x

end

theorem parseTop_sub (env : Env) {F F' : Nat} (hF : F ≤ F') : Sub (parseTop env F) (parseTop env F') := by
  have ih := allMono env F F' hF
  unfold parseTop
  sub_auto

/-- fuel monotonicity, with the final stream -/
theorem parseTop_mono' (env : Env) (F F' : Nat) (hF : F ≤ F') (st st' : TStream) (r : Except Err Query)
    (h : exec (parseTop env F) st = (r, st')) (hnf : ∀ e, r = .error e → e.kind ≠ .fuel) :
    exec (parseTop env F') st = (r, st') :=
  (parseTop_sub env hF).exec_eq h hnf

/-- fuel monotonicity: more fuel never changes a result that is not a fuel error -/
theorem parseTop_mono (env : Env) (F F' : Nat) (hF : F ≤ F') (st : TStream) (r : Except Err Query)
    (h : (exec (parseTop env F) st).1 = r) (hnf : ∀ e, r = .error e → e.kind ≠ .fuel) :
    (exec (parseTop env F') st).1 = r := by
  rcases hx : exec (parseTop env F) st with ⟨r', st'⟩
  rw [hx] at h
  subst h
  rw [parseTop_mono' env F F' hF st st' _ hx hnf]

/-- a successful parse is reproduced with any larger fuel -/
theorem parseTop_mono_ok (env : Env) (F F' : Nat) (hF : F ≤ F') (st st' : TStream) (q : Query)
    (h : exec (parseTop env F) st = (.ok q, st')) : exec (parseTop env F') st = (.ok q, st') :=
  (parseTop_sub env hF).exec_ok h

end JPV.Proofs.Cf
