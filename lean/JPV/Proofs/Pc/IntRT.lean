import JPV.Proofs.Pc.IntRTParse
namespace JPV.Proofs.Pc
open JPV JPV.Proofs.Prn

/-- the integer part of a binary64 value is representable -/
theorem ratio_rep (m : Nat) (e : Int) (hm : m < 2 ^ 53) (he : e ≤ 971) :
    ∃ m' e', m' < 2 ^ 53 ∧ e' ≤ 971 ∧
      (Py.ratioOfBinary m e).1 / (Py.ratioOfBinary m e).2 = m' * 2 ^ e' := by
  unfold Py.ratioOfBinary
  split
  · exact ⟨m, e.toNat, hm, by omega, by simp only [Nat.div_one]⟩
  · refine ⟨_, 0, ?_, by omega, (Nat.mul_one _).symm⟩
    simp only []
    exact Nat.lt_of_le_of_lt (Nat.le_trans (Nat.div_le_self _ _) (Nat.div_le_self _ _)) hm

theorem intOfFloatText_shape {sp : Str} {i : Int} (h : Py.intOfFloatText sp = some (some i)) :
    ∃ N m e : Nat, m < 2 ^ 53 ∧ e ≤ 971 ∧ N = m * 2 ^ e ∧ (i = (N : Int) ∨ i = -(N : Int)) := by
  unfold Py.intOfFloatText Py.floatOfText at h
  cases hp : Py.parseDecimal sp with
  | none => rw [hp] at h; cases h
  | some t =>
    obtain ⟨neg, n, d⟩ := t
    rw [hp] at h
    simp only [] at h
    cases hr : Py.roundBinary64 n d with
    | none => rw [hr] at h; simp at h
    | some me =>
      obtain ⟨m, e⟩ := me
      rw [hr] at h
      obtain ⟨hm, he⟩ := roundBinary64_bound hr
      obtain ⟨m', e', hm', he', heq⟩ := ratio_rep m e hm he
      simp only [] at h
      generalize Py.ratioOfBinary m e = ab at h heq
      obtain ⟨a, b⟩ := ab
      simp only [] at h heq
      by_cases hc : neg = true ∧ a = 0
      · rw [if_pos hc] at h
        simp only [] at h
        split at h
        · cases h
        · cases h
          exact ⟨0, 0, 0, by decide, by decide, by decide, Or.inl (by decide)⟩
      · rw [if_neg hc] at h
        simp only [] at h
        split at h
        · cases h
        · cases h
          refine ⟨a / b, m', e', hm', he', heq, ?_⟩
          split
          · right; rw [Int.neg_tdiv, Int.ofNat_tdiv]
          · left; rw [Int.ofNat_tdiv]

theorem intOfFloatText_of_parse {s : Str} {neg : Bool} {N m e : Nat} (hN : N ≠ 0) (hm : m < 2 ^ 53)
    (he : e ≤ 971) (hNe : N = m * 2 ^ e) (hp : Py.parseDecimal s = some (neg, N, 1)) :
    Py.intOfFloatText s = some (some (if neg then -(N : Int) else N)) := by
  obtain ⟨q, E, hr, hab⟩ := round_exact N m e hN hm he hNe
  unfold Py.intOfFloatText Py.floatOfText
  rw [hp]
  simp only []
  rw [hr]
  simp only []
  rw [hab]
  simp only []
  rw [if_neg (fun h => hN h.2)]
  simp only []
  rw [if_neg (by decide)]
  simp only [Int.cast_ofNat_Int, Int.tdiv_one]

theorem intOfFloatText_repr_rep (N m e : Nat) (hm : m < 2 ^ 53) (he : e ≤ 971) (hNe : N = m * 2 ^ e) :
    Py.intOfFloatText (Py.reprInt (N : Int)) = some (some (N : Int)) ∧
    Py.intOfFloatText (Py.reprInt (-(N : Int))) = some (some (-(N : Int))) := by
  by_cases hN : N = 0
  · subst hN
    have h0 : Py.intOfFloatText (Py.reprInt 0) = some (some 0) := by
      rw [reprInt_eq]; decide
    exact ⟨h0, h0⟩
  · have hds : Nat.toDigits 10 N ≠ [] := by
      obtain ⟨d, ds, e, _⟩ := toDigits_head N (by omega)
      rw [e]; exact List.cons_ne_nil _ _
    have hv : Py.digitsToNat (Nat.toDigits 10 N) ≠ 0 := by rw [digitsToNat_toDigits]; exact hN
    have hp := parseDecimal_pos _ hds (toDigits_isDIGIT N) hv
    have hn := parseDecimal_neg _ hds (toDigits_isDIGIT N) hv
    rw [digitsToNat_toDigits] at hp hn
    constructor
    · rw [reprInt_eq, if_pos (by omega), Int.toNat_natCast]
      exact intOfFloatText_of_parse hN hm he hNe hp
    · rw [reprInt_eq, if_neg (by omega), Int.neg_neg, Int.toNat_natCast]
      exact intOfFloatText_of_parse hN hm he hNe hn

/-- `int(float(repr(i))) = i` for every `i` in the image of `int ∘ float`. -/
theorem intOfFloatText_reprInt (sp : Str) (i : Int) (h : Py.intOfFloatText sp = some (some i)) :
    Py.intOfFloatText (Py.reprInt i) = some (some i) := by
  obtain ⟨N, m, e, hm, he, hNe, hi⟩ := intOfFloatText_shape h
  obtain ⟨h1, h2⟩ := intOfFloatText_repr_rep N m e hm he hNe
  rcases hi with rfl | rfl
  · exact h1
  · exact h2
end JPV.Proofs.Pc
