/-
`Proofs.Float.Ratio` — `Py.ratioOfBinary m e` is `m·2^e` in lowest terms; normalising the mantissa of a double.
-/
import JPV.Proofs.Float.Q
namespace JPV.Proofs.Float
open JPV

theorem ratioOfBinary_zero (e : ℤ) : Py.ratioOfBinary 0 e = (0, 1) := by
  unfold Py.ratioOfBinary
  split
  · simp
  · simp only [Nat.gcd_zero_left, Nat.zero_div]
    rw [Nat.div_self (Nat.two_pow_pos _)]

/-- lowest terms, and the value `m·2^e` (cross-multiplied) -/
theorem ratioOfBinary_spec (m : ℕ) (e : ℤ) (hm : 0 < m) :
    0 < (Py.ratioOfBinary m e).1 ∧ 0 < (Py.ratioOfBinary m e).2 ∧
    Nat.gcd (Py.ratioOfBinary m e).1 (Py.ratioOfBinary m e).2 = 1 ∧
    (Py.ratioOfBinary m e).1 * 2 ^ (-e).toNat = m * 2 ^ e.toNat * (Py.ratioOfBinary m e).2 := by
  unfold Py.ratioOfBinary
  split
  · rename_i h
    have : (-e).toNat = 0 := by omega
    simp only [this, Nat.pow_zero, Nat.mul_one, Nat.gcd_one_right]
    exact ⟨Nat.mul_pos hm (Nat.two_pow_pos _), by norm_num, trivial, trivial⟩
  · rename_i h
    have h0 : e.toNat = 0 := by omega
    simp only [h0, Nat.pow_zero, Nat.mul_one]
    generalize (-e).toNat = k
    have hD : 0 < 2 ^ k := Nat.two_pow_pos k
    have hg : 0 < Nat.gcd m (2 ^ k) := Nat.gcd_pos_of_pos_left _ hm
    obtain ⟨a, ha⟩ := Nat.gcd_dvd_left m (2 ^ k)
    obtain ⟨b, hb⟩ := Nat.gcd_dvd_right m (2 ^ k)
    refine ⟨Nat.div_pos (Nat.le_of_dvd hm (Nat.gcd_dvd_left _ _)) hg,
      Nat.div_pos (Nat.le_of_dvd hD (Nat.gcd_dvd_right _ _)) hg,
      Nat.coprime_div_gcd_div_gcd hg, ?_⟩
    generalize Nat.gcd m (2 ^ k) = g at *
    rw [hb]
    conv => lhs; rw [ha]
    conv => rhs; rw [ha]
    rw [Nat.mul_div_cancel_left _ hg, Nat.mul_div_cancel_left _ hg]
    ring

/-- a fraction in lowest terms with the value `M·2^E` IS `ratioOfBinary M E` -/
theorem ratioOfBinary_of_val (M : ℕ) (E : ℤ) (N d : ℕ) (hM : 0 < M) (hg : Nat.gcd N d = 1)
    (hv : N * 2 ^ (-E).toNat = M * 2 ^ E.toNat * d) : Py.ratioOfBinary M E = (N, d) := by
  unfold Py.ratioOfBinary
  split
  · rename_i h
    have : (-E).toNat = 0 := by omega
    rw [this, Nat.pow_zero, Nat.mul_one] at hv
    have hd1 : d = 1 := by
      have : d ∣ N := ⟨M * 2 ^ E.toNat, by rw [hv, Nat.mul_comm]⟩
      have := Nat.gcd_eq_right this
      omega
    subst hd1
    rw [hv, Nat.mul_one]
  · rename_i h
    have h0 : E.toNat = 0 := by omega
    rw [h0, Nat.pow_zero, Nat.mul_one] at hv
    generalize (-E).toNat = k at *
    have hN : 0 < N := by
      rcases Nat.eq_zero_or_pos N with h | h
      · subst h
        have hd : d = 1 := by simpa using hg
        subst hd; omega
      · exact h
    have hcop : Nat.Coprime N d := hg
    obtain ⟨c, hc⟩ : N ∣ M := hcop.dvd_of_dvd_mul_right ⟨2 ^ k, hv.symm⟩
    have hc0 : 0 < c := by
      rcases Nat.eq_zero_or_pos c with h | h
      · subst h; omega
      · exact h
    have hD : 2 ^ k = c * d := by
      rw [hc, Nat.mul_assoc] at hv
      exact Nat.eq_of_mul_eq_mul_left hN hv
    have hgc : Nat.gcd M (2 ^ k) = c := by
      rw [hc, hD, Nat.mul_comm N c, Nat.gcd_mul_left, hg, Nat.mul_one]
    simp only [hgc]
    rw [hD, Nat.mul_div_cancel_left _ hc0]
    rw [hc, Nat.mul_div_cancel _ hc0]

/-- the value equation of `IsDouble`, on rationals -/
theorem val_iff (N d M : ℕ) (E : ℤ) (hd : 0 < d) :
    N * 2 ^ (-E).toNat = M * 2 ^ E.toNat * d ↔ (N : ℚ) / d = M * 2 ^ E := by
  have hdq : (0 : ℚ) < d := by exact_mod_cast hd
  rw [zpow_split 2 (by norm_num) E, div_eq_iff hdq.ne']
  have hp : (0 : ℚ) < 2 ^ (-E).toNat := by positivity
  constructor
  · intro h
    have : (N : ℚ) * 2 ^ (-E).toNat = M * 2 ^ E.toNat * d := by exact_mod_cast h
    field_simp
    linarith
  · intro h
    field_simp at h
    have : ((N * 2 ^ (-E).toNat : ℕ) : ℚ) = ((M * 2 ^ E.toNat * d : ℕ) : ℚ) := by
      push_cast; linarith
    exact_mod_cast this

/-- every `m·2^e` in the double range has a normalised mantissa: `2^52 ≤ M`, or the least exponent -/
theorem normalize (m : ℕ) (e : ℤ) (hm0 : 0 < m) (hm : m < 2 ^ 53) (he0 : -1074 ≤ e) (he1 : e ≤ 971) :
    ∃ (M : ℕ) (E : ℤ), 0 < M ∧ M < 2 ^ 53 ∧ (2 ^ 52 ≤ M ∨ E = -1074) ∧ -1074 ≤ E ∧ E ≤ 971 ∧
      (M : ℚ) * 2 ^ E = m * 2 ^ e := by
  have hlo := Nat.log2_self_le (by omega : m ≠ 0)
  have hhi := @Nat.lt_log2_self m
  have hL : Nat.log2 m < 53 := (Nat.log2_lt (by omega)).mpr hm
  generalize Nat.log2 m = L at *
  let j : ℕ := min (52 - L) (e + 1074).toNat
  have hj1 : j ≤ 52 - L := Nat.min_le_left _ _
  have hj2 : j ≤ (e + 1074).toNat := Nat.min_le_right _ _
  refine ⟨m * 2 ^ j, e - j, Nat.mul_pos hm0 (Nat.two_pow_pos j), ?_, ?_, by omega, by omega, ?_⟩
  · calc m * 2 ^ j < 2 ^ (L + 1) * 2 ^ j := Nat.mul_lt_mul_of_pos_right hhi (Nat.two_pow_pos j)
      _ = 2 ^ (L + 1 + j) := (Nat.pow_add 2 _ _).symm
      _ ≤ 2 ^ 53 := Nat.pow_le_pow_right (by norm_num) (by omega)
  · rcases Nat.le_total (52 - L) (e + 1074).toNat with h | h
    · left
      have hj : j = 52 - L := Nat.min_eq_left h
      calc 2 ^ 52 = 2 ^ (L + j) := by congr 1; omega
        _ = 2 ^ L * 2 ^ j := Nat.pow_add 2 _ _
        _ ≤ m * 2 ^ j := Nat.mul_le_mul_right _ hlo
    · right
      have hj : j = (e + 1074).toNat := Nat.min_eq_right h
      omega
  · push_cast
    rw [zpow_sub₀ (by norm_num), zpow_natCast]
    have : (0 : ℚ) < 2 ^ j := by positivity
    field_simp

end JPV.Proofs.Float
