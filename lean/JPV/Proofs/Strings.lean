import JPV.Impl.Parse
import JPV.Spec.Grammar
import JPV.Proofs.StringsAux
namespace JPV.Proofs
open JPV

def quoteKind' (q : Char) : Impl.TokKind := if q = '\'' then .sqString else .dqString

def implString' (q : Char) (inp : List Char) : Option (Str × List Char) :=
  match Impl.scanString q inp with
  | none => none
  | some (tok, rest) =>
    match Impl.decodeStringLiteral (quoteKind' q) tok with
    | .ok s => some (s, rest)
    | .error _ => none

theorem surrogate_arith (hi lo : Nat) (h1 : 0xD800 ≤ hi) (h2 : hi ≤ 0xDBFF) (h3 : 0xDC00 ≤ lo) (h4 : lo ≤ 0xDFFF) :
    0x10000 + (((hi &&& 0x03FF) <<< 10) ||| (lo &&& 0x03FF)) = 0x10000 + (hi - 0xD800) * 0x400 + (lo - 0xDC00) :=
  StrAux.surrogate_arith' hi lo h1 h2 h3 h4

theorem string_literal_correct : ∀ (q : Char), q = '\'' ∨ q = '"' → ∀ inp : List Char,
    implString' q inp = Spec.stringBody q (inp.length + 1) inp [] := by
  intro q hq inp
  rw [← StrAux.D_spec q hq inp.length inp [] (inp.length + 1) (Nat.le_refl _) (Nat.le_refl _)]
  unfold implString' StrAux.D
  cases hs : Impl.scanString q inp with
  | none => rfl
  | some res =>
    obtain ⟨tok, rest⟩ := res
    have ht := StrAux.scan_tok q inp.length inp tok rest (Nat.le_refl _) hs
    simp only [Option.map_some, Option.bind_some, quoteKind', StrAux.decode_eq q hq ht]
    cases StrAux.unescL (StrAux.normL q tok) [] <;> rfl

theorem decode_no_index_error (q : Char) (hq : q = '\'' ∨ q = '"') (inp : List Char) (tok : Str) (rest : List Char)
    (h : Impl.scanString q inp = some (tok, rest)) :
    Impl.decodeStringLiteral (quoteKind' q) tok ≠ .error .indexError := by
  have ht := StrAux.scan_tok q inp.length inp tok rest (Nat.le_refl _) h
  rw [quoteKind', StrAux.decode_eq q hq ht]
  apply StrAux.D_no_index q hq inp.length inp [] _ rest (Nat.le_refl _)
  simp [StrAux.D, h]

end JPV.Proofs
