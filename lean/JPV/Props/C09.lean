/-
C09 — String literals and member names decode exactly as RFC 9535 specifies.

Property text: "For every string literal the grammar allows, in either quote
style, the name selected (or the string compared) is precisely the sequence of
Unicode scalar values the RFC assigns: unescaped characters stand for
themselves, each of \b \f \n \r \t \/ \\ and the escaped own-quote for its
character, \uXXXX (any hex case) for that code point including controls and
U+0000, and a high+low surrogate escape pair for one non-BMP character. Literals
containing a raw control character, an unknown or truncated escape, the other
quote escaped, or an unpaired surrogate escape are rejected."

The implementation reads a literal in two phases — the lexer's string loop
(`Impl.scanString`: finds the closing quote, checks that every backslash is
followed by an `ESCAPES` member or the own quote) and `_decode_string_literal`
(`Impl.decodeStringLiteral`: the quote-normalising `replace` pair, then the
escape decoder with its surrogate arithmetic).  The RFC side is the one-pass
recogniser `Spec.stringBody` written from the ABNF (`string-literal`,
`double-quoted`, `single-quoted`, `escapable`, `hexchar`) which returns the
denoted string.  The statement is an equation for *every* input: same
acceptance, same denoted string, same remaining input — so it is the "complete"
and the "sound" direction at once.
-/
import JPV.Impl.Parse
import JPV.Spec.Grammar
import JPV.Proofs.Strings
namespace JPV.Props
open JPV

def quoteKind (q : Char) : Impl.TokKind := if q = '\'' then .sqString else .dqString

/-- what the implementation makes of the characters after an opening quote `q` -/
def implString (q : Char) (inp : List Char) : Option (Str × List Char) :=
  match Impl.scanString q inp with
  | none => none
  | some (tok, rest) =>
    match Impl.decodeStringLiteral (quoteKind q) tok with
    | .ok s => some (s, rest)
    | .error _ => none

def C09_statement : Prop :=
  ∀ (q : Char), q = '\'' ∨ q = '"' → ∀ inp : List Char,
    implString q inp = Spec.stringBody q (inp.length + 1) inp []

theorem C09 : C09_statement := Proofs.string_literal_correct

/-- the decoder never raises anything but a syntax error on a token the lexer let through -/
theorem C09_no_index_error (q : Char) (hq : q = '\'' ∨ q = '"') (inp : List Char) (tok : Str) (rest : List Char)
    (h : Impl.scanString q inp = some (tok, rest)) :
    Impl.decodeStringLiteral (quoteKind q) tok ≠ .error .indexError := Proofs.decode_no_index_error q hq inp tok rest h

/-- surrogate arithmetic, for all 1024 x 1024 pairs: the masked/shifted combination is the scalar
value the RFC assigns -/
theorem C09_surrogate_arith (hi lo : Nat) (h1 : 0xD800 ≤ hi) (h2 : hi ≤ 0xDBFF) (h3 : 0xDC00 ≤ lo) (h4 : lo ≤ 0xDFFF) :
    0x10000 + (((hi &&& 0x03FF) <<< 10) ||| (lo &&& 0x03FF)) = 0x10000 + (hi - 0xD800) * 0x400 + (lo - 0xDC00) :=
  Proofs.surrogate_arith hi lo h1 h2 h3 h4

example : implString '\'' "a\\'\\u00e9\\uD83D\\uDE00\"' rest".toList = some ("a'é😀\"".toList, " rest".toList) := by
  decide +kernel
example : implString '"' "\\'\"".toList = none := by decide +kernel
example : implString '"' "\\uD83Dx\"".toList = none := by decide +kernel

end JPV.Props
