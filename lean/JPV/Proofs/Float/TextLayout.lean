/-
`Proofs.Float.TextLayout` — the four layouts of `layout m decpt` (`m > 0`) taken apart: integer part, optional
fraction, optional exponent (`Shape`), with the digit value and the decimal exponent each part stands for.
-/
import JPV.Proofs.Float.TextDigits
namespace JPV.Proofs.Float
open JPV JPV.Proofs.Cf

/-! ### the layouts, one by one -/

theorem layout_exp1 (m : Nat) (decpt : Int) (c : Char)
    (hs : Py.stripTrailingZeros (Py.natDigits m) = [c]) (h : decpt > 16 ∨ decpt < -3) :
    layout m decpt = [c] ++ ['e', if decpt - 1 < 0 then '-' else '+'] ++ expDigits (decpt - 1).natAbs := by
  unfold layout
  simp only [hs, List.isEmpty_cons, Bool.false_eq_true, if_false, if_pos h]
  rfl

theorem layout_exp2 (m : Nat) (decpt : Int) (c r : Char) (rs : List Char)
    (hs : Py.stripTrailingZeros (Py.natDigits m) = c :: r :: rs) (h : decpt > 16 ∨ decpt < -3) :
    layout m decpt = c :: '.' :: r :: rs ++ ['e', if decpt - 1 < 0 then '-' else '+'] ++ expDigits (decpt - 1).natAbs := by
  unfold layout
  simp only [hs, List.isEmpty_cons, Bool.false_eq_true, if_false, if_pos h]
  rfl

theorem layout_small (m : Nat) (decpt : Int) (c : Char) (rest : List Char)
    (hs : Py.stripTrailingZeros (Py.natDigits m) = c :: rest) (h : ¬ (decpt > 16 ∨ decpt < -3)) (h2 : decpt ≤ 0) :
    layout m decpt = ['0'] ++ '.' :: (List.replicate (-decpt).toNat '0' ++ c :: rest) := by
  unfold layout
  simp only [hs, List.isEmpty_cons, Bool.false_eq_true, if_false, if_neg h, if_pos h2]
  rfl

theorem layout_big (m : Nat) (decpt : Int) (c : Char) (rest : List Char)
    (hs : Py.stripTrailingZeros (Py.natDigits m) = c :: rest) (h : ¬ (decpt > 16 ∨ decpt < -3)) (h2 : ¬ decpt ≤ 0)
    (h3 : ((c :: rest).length : Int) ≤ decpt) :
    layout m decpt = (c :: rest ++ List.replicate (decpt - ((c :: rest).length : Int)).toNat '0') ++ ['.', '0'] := by
  unfold layout
  simp only [hs, List.isEmpty_cons, Bool.false_eq_true, if_false, if_neg h, if_neg h2, if_pos h3]
  rfl

theorem layout_mid (m : Nat) (decpt : Int) (c : Char) (rest : List Char)
    (hs : Py.stripTrailingZeros (Py.natDigits m) = c :: rest) (h : ¬ (decpt > 16 ∨ decpt < -3)) (h2 : ¬ decpt ≤ 0)
    (h3 : ¬ ((c :: rest).length : Int) ≤ decpt) :
    layout m decpt = (c :: rest).take decpt.toNat ++ '.' :: (c :: rest).drop decpt.toNat := by
  unfold layout
  simp only [hs, List.isEmpty_cons, Bool.false_eq_true, if_false, if_neg h, if_neg h2, if_neg h3]
  simp

/-! ### the parts of a layout -/

/-- `[frac]` -/
def fracTxt : Option (List Char) → List Char
  | none => []
  | some f => '.' :: f

/-- `[exp]`, as `layout` writes it: `e`, a sign, digits -/
def expTxt : Option (Bool × List Char) → List Char
  | none => []
  | some (b, xs) => 'e' :: (if b then '-' else '+') :: xs

/-- the exponent written -/
def expVal : Option (Bool × List Char) → Int
  | none => 0
  | some (b, xs) => (if b then -1 else 1) * (Py.digitsToNat xs : Int)

/-- `layout m decpt` is `ip [. f] [e± xs]`; the digits `ip ++ f` are the significant digits of `m` followed by `u` zeros
(leading zeros apart) and the exponent written makes up for the position of the point. -/
structure Shape (m : Nat) (decpt : Int) (ip : List Char) (fp : Option (List Char))
    (ex : Option (Bool × List Char)) : Prop where
  text : layout m decpt = ip ++ fracTxt fp ++ expTxt ex
  ip_digs : Digs ip
  ip_zero : ip.head? = some '0' → ip.length = 1
  fp_digs : ∀ f, fp = some f → Digs f
  ex_digs : ∀ b xs, ex = some (b, xs) → Digs xs
  value : ∃ u : Nat, u ≤ 17 ∧
    Py.digitsToNat (ip ++ fp.getD []) = Py.digitsToNat (Py.stripTrailingZeros (Py.natDigits m)) * 10 ^ u ∧
    expVal ex - ((fp.getD []).length : Int) + (u : Int) = decpt - ((Py.stripTrailingZeros (Py.natDigits m)).length : Int)
  small : decpt ≤ 16 → fp ≠ none ∨ ∃ xs, ex = some (true, xs)
  many : 2 ≤ (Py.stripTrailingZeros (Py.natDigits m)).length → fp ≠ none
  one : 16 < decpt → (Py.stripTrailingZeros (Py.natDigits m)).length = 1 → fp = none ∧ ∃ xs, ex = some (false, xs)

theorem expVal_some (x : Int) :
    expVal (some (decide (x < 0), expDigits x.natAbs)) = x := by
  simp only [expVal, digitsToNat_expDigits]
  by_cases h : x < 0
  · simp only [h, decide_true, if_true]; omega
  · simp only [h, decide_false, Bool.false_eq_true, if_false]; omega

theorem ite_decide (x : Int) : (if x < 0 then '-' else '+') = (if decide (x < 0) = true then '-' else '+') := by
  by_cases h : x < 0 <;> simp [h]

theorem layout_shape (m : Nat) (hm : 0 < m) (decpt : Int) : ∃ ip fp ex, Shape m decpt ip fp ex := by
  obtain ⟨c, rest, t, hs, hc, hrest, -, -⟩ := strip_spec m hm
  have hcd := D1_isDigit hc
  have hlen : (c :: rest).length = rest.length + 1 := rfl
  have hc0 := D1_ne_zero hc
  have hall : ∀ x ∈ c :: rest, Impl.isDigit x = true := by
    intro x hx
    rcases List.mem_cons.mp hx with rfl | hx
    · exact hcd
    · exact hrest x hx
  by_cases h : decpt > 16 ∨ decpt < -3
  · -- exponent form
    cases rest with
    | nil =>
      refine ⟨[c], none, some (decide (decpt - 1 < 0), expDigits (decpt - 1).natAbs), ?_⟩
      refine ⟨?_, ⟨by simp, hall⟩, fun _ => rfl, by simp, ?_, ⟨0, by omega, ?_, ?_⟩, ?_, ?_, ?_⟩
      · rw [layout_exp1 m decpt c hs h, ite_decide]; rfl
      · intro b xs e; cases e; exact expDigits_digs _
      · rw [hs]; simp
      · rw [expVal_some, hs]; simp
      · intro h16; exact .inr ⟨_, by rw [decide_eq_true (by omega : decpt - 1 < 0)]⟩
      · rw [hs]; simp
      · intro h16 _; exact ⟨rfl, _, by rw [decide_eq_false (by omega : ¬ decpt - 1 < 0)]⟩
    | cons r rs =>
      refine ⟨[c], some (r :: rs), some (decide (decpt - 1 < 0), expDigits (decpt - 1).natAbs), ?_⟩
      refine ⟨?_, ⟨by simp, fun x hx => hall x (by simp at hx; simp [hx])⟩, fun _ => rfl, ?_, ?_,
        ⟨0, by omega, ?_, ?_⟩, ?_, ?_, ?_⟩
      · rw [layout_exp2 m decpt c r rs hs h, ite_decide]; simp [fracTxt, expTxt]
      · intro f e; cases e; exact ⟨by simp, hrest⟩
      · intro b xs e; cases e; exact expDigits_digs _
      · rw [hs]; simp
      · rw [expVal_some, hs]; simp; omega
      · intro _; exact .inl (by simp)
      · intro _; simp
      · intro _ h1; rw [hs] at h1; simp at h1
  · by_cases h2 : decpt ≤ 0
    · -- 0.000ddd
      refine ⟨['0'], some (List.replicate (-decpt).toNat '0' ++ c :: rest), none, ?_⟩
      refine ⟨?_, ⟨by simp, by simp; decide⟩, fun _ => rfl, ?_, by simp, ⟨0, by omega, ?_, ?_⟩, ?_, ?_, ?_⟩
      · rw [layout_small m decpt c rest hs h h2]; simp [fracTxt, expTxt]
      · intro f e; cases e
        refine ⟨by simp, fun x hx => ?_⟩
        rcases List.mem_append.mp hx with hx | hx
        · exact zeros_isDigit _ x hx
        · exact hall x hx
      · rw [hs]
        simp only [Option.getD_some, Nat.pow_zero, Nat.mul_one]
        rw [digitsToNat_append, digitsToNat_append, digitsToNat_zeros]
        have : Py.digitsToNat ['0'] = 0 := by decide
        rw [this]; simp
      · rw [hs]; simp [expVal]; omega
      · intro _; exact .inl (by simp)
      · intro _; simp
      · intro h16; omega
    · by_cases h3 : ((c :: rest).length : Int) ≤ decpt
      · -- ddd000.0
        refine ⟨c :: rest ++ List.replicate (decpt - ((c :: rest).length : Int)).toNat '0', some ['0'], none, ?_⟩
        refine ⟨?_, ⟨by simp, ?_⟩, ?_, ?_, by simp,
          ⟨(decpt - ((c :: rest).length : Int)).toNat + 1, ?_, ?_, ?_⟩, ?_, ?_, ?_⟩
        · rw [layout_big m decpt c rest hs h h2 h3]; simp [fracTxt, expTxt]
        · intro x hx
          rcases List.mem_append.mp hx with hx | hx
          · exact hall x hx
          · exact zeros_isDigit _ x hx
        · intro h0; simp at h0; exact absurd h0 hc0
        · intro f e; cases e; exact ⟨by simp, by simp; decide⟩
        · simp only [List.length_cons] at h3 ⊢; omega
        · rw [hs]
          simp only [Option.getD_some]
          rw [digitsToNat_append, digitsToNat_append, digitsToNat_zeros]
          have : Py.digitsToNat ['0'] = 0 := by decide
          rw [this]; simp [Nat.pow_succ, Nat.mul_assoc]
        · rw [hs]; simp [expVal]; rw [hlen] at h3; omega
        · intro _; exact .inl (by simp)
        · intro _; simp
        · intro h16; omega
      · -- dd.ddd
        refine ⟨(c :: rest).take decpt.toNat, some ((c :: rest).drop decpt.toNat), none, ?_⟩
        have hk : 0 < decpt.toNat := by omega
        have hk2 : decpt.toNat < (c :: rest).length := by omega
        refine ⟨?_, ⟨?_, fun x hx => hall x (List.mem_of_mem_take hx)⟩, ?_, ?_, by simp, ⟨0, by omega, ?_, ?_⟩, ?_, ?_, ?_⟩
        · rw [layout_mid m decpt c rest hs h h2 h3]; simp [fracTxt, expTxt]
        · intro e; rw [List.take_eq_nil_iff] at e; rcases e with e | e
          · omega
          · cases e
        · intro h0
          obtain ⟨k, hk'⟩ : ∃ k, decpt.toNat = k + 1 := ⟨decpt.toNat - 1, by omega⟩
          rw [hk'] at h0; simp at h0; exact absurd h0 hc0
        · intro f e; cases e
          refine ⟨?_, fun x hx => hall x (List.mem_of_mem_drop hx)⟩
          intro e; rw [List.drop_eq_nil_iff] at e; omega
        · rw [hs]; simp
        · rw [hs]; simp [expVal]; rw [hlen] at h3 hk2; omega
        · intro _; exact .inl (by simp)
        · intro _; simp
        · intro h16; omega

end JPV.Proofs.Float
