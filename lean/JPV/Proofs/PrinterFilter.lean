import JPV.Impl.Serialize
import JPV.Spec.Grammar
import JPV.Spec.Typing
import JPV.Proofs.Printer
import JPV.Proofs.PfPrint
namespace JPV.Proofs
open JPV

/-- literals whose printed spelling is proved to read back: strings, booleans, null (number literals go
through `repr(float)`/`float()` and are covered by the oracle search only) -/
def printableLit : Json → Bool
  | .str _ => true
  | .bool _ => true
  | .null => true
  | _ => false

/-- a function name as the grammar spells it -/
def printableName (f : Str) : Bool :=
  match f with
  | c :: rest => Spec.isLCALPHA c && rest.all (fun d => Spec.isLCALPHA d || d = '_' || Spec.isDIGIT d)
  | [] => false

/-- every slice step is written out (so printing is the identity on the AST) -/
def stepsExplicit (q : Query) : Bool :=
  q.all (fun s => match s with
    | .child sels => sels.all (fun x => match x with | .slice _ _ none => false | _ => true)
    | .desc sels => sels.all (fun x => match x with | .slice _ _ none => false | _ => true))

mutual
/-- Expressions the parser can build in *test* position, with literals restricted to the kinds whose
spelling is proved to read back (strings, booleans, null, integers): queries are filter-free here
(nested filters are covered by the oracle search). -/
def printableTest : Expr → Bool
  | .not e => printableTest e
  | .logical _ l r => printableTest l && printableTest r
  | .cmp _ l r => printableCmp l && printableCmp r
  | .rel q => Spec.filterFree q && nonEmptySegs q && stepsExplicit q
  | .root q => Spec.filterFree q && nonEmptySegs q && stepsExplicit q
  | .call f args => printableName f && printableArgs args
  | .lit _ => false
/-- comparison operands: literal, singular query, call -/
def printableCmp : Expr → Bool
  | .lit v => printableLit v
  | .rel q => Query.isSingular q
  | .root q => Query.isSingular q
  | .call f args => printableName f && printableArgs args
  | _ => false
def printableArgs : List Expr → Bool
  | [] => true
  | a :: as => (printableCmp a || printableTest a) && printableArgs as
end

namespace Pf
open JPV.Proofs.Prn

theorem printableLit_eq (v : Json) : printableLit v = litOK v := by cases v <;> rfl
theorem printableName_eq (f : Str) : printableName f = nameOK f := rfl
theorem stepsExplicit_eq (q : Query) : stepsExplicit q = stepsOK q := rfl

theorem printableTest_not (e) : printableTest (.not e) = printableTest e := by rw [printableTest]
theorem printableTest_logical (op l r) :
    printableTest (.logical op l r) = (printableTest l && printableTest r) := by rw [printableTest]
theorem printableTest_cmp (op l r) :
    printableTest (.cmp op l r) = (printableCmp l && printableCmp r) := by rw [printableTest]
theorem printableTest_rel (q) : printableTest (.rel q) =
    (Spec.filterFree q && nonEmptySegs q && stepsExplicit q) := by rw [printableTest]
theorem printableTest_root (q) : printableTest (.root q) =
    (Spec.filterFree q && nonEmptySegs q && stepsExplicit q) := by rw [printableTest]
theorem printableTest_call (f args) : printableTest (.call f args) =
    (printableName f && printableArgs args) := by rw [printableTest]
theorem printableTest_lit (v) : printableTest (.lit v) = false := by rw [printableTest]
theorem printableCmp_lit (v) : printableCmp (.lit v) = printableLit v := by rw [printableCmp]
theorem printableCmp_rel (q) : printableCmp (.rel q) = Query.isSingular q := by rw [printableCmp]
theorem printableCmp_root (q) : printableCmp (.root q) = Query.isSingular q := by rw [printableCmp]
theorem printableCmp_call (f args) : printableCmp (.call f args) =
    (printableName f && printableArgs args) := by rw [printableCmp]
theorem printableCmp_not (e) : printableCmp (.not e) = false := by rw [printableCmp]; all_goals (intros; simp_all)
theorem printableCmp_logical (op l r) : printableCmp (.logical op l r) = false := by
  rw [printableCmp]; all_goals (intros; simp_all)
theorem printableCmp_cmp (op l r) : printableCmp (.cmp op l r) = false := by
  rw [printableCmp]; all_goals (intros; simp_all)
theorem printableArgs_nil : printableArgs [] = true := by rw [printableArgs]
theorem printableArgs_cons (a as) : printableArgs (a :: as) =
    ((printableCmp a || printableTest a) && printableArgs as) := by rw [printableArgs]

theorem singOK_of_cmp (e : Expr) (h : printableCmp e = true) : singOK e = true := by
  cases e with
  | rel q => rw [printableCmp_rel] at h; exact h
  | root q => rw [printableCmp_root] at h; exact h
  | _ => rfl

/-- queries and calls -/
def isTermLike : Expr → Bool
  | .rel _ => true
  | .root _ => true
  | .call _ _ => true
  | _ => false

theorem qok_of_test (q : Query)
    (h : (Spec.filterFree q && nonEmptySegs q && stepsExplicit q) = true) : QOK q := by
  simp only [Bool.and_eq_true] at h
  exact qok_of q h.1.1 h.1.2 h.2

/-- the shape of a printed comparison operand followed by an operator -/
theorem argForm_cmpLhs (l : Expr) (h : printableCmp l = true) (op : COp) (Y : List Char) :
    ArgForm (Impl.strExpr l ++ [' '] ++ Impl.copText op ++ Y) := by
  cases l with
  | lit v =>
    rw [printableCmp_lit, printableLit_eq] at h
    rw [strExpr_lit]
    have := ArgForm.cmpLit v op Y h
    simpa using this
  | rel q => rw [strExpr_rel]; exact .head '@' _ (by simp)
  | root q => rw [strExpr_root]; exact .head '$' _ (by simp)
  | call f args =>
    rw [printableCmp_call, printableName_eq] at h
    simp only [Bool.and_eq_true] at h
    rw [strExpr_call]
    have := ArgForm.call f (Impl.strArgs args ++ [')'] ++ [' '] ++ Impl.copText op ++ Y) h.1
    simpa using this
  | not e => rw [printableCmp_not] at h; cases h
  | logical o a b => rw [printableCmp_logical] at h; cases h
  | cmp o a b => rw [printableCmp_cmp] at h; cases h

theorem argForm_test (e : Expr) (h : printableTest e = true) : ArgForm (Impl.strExpr e) := by
  cases e with
  | lit v => rw [printableTest_lit] at h; cases h
  | rel q => rw [strExpr_rel]; exact .head '@' _ (by simp)
  | root q => rw [strExpr_root]; exact .head '$' _ (by simp)
  | call f args =>
    rw [printableTest_call, printableName_eq] at h
    simp only [Bool.and_eq_true] at h
    rw [strExpr_call]
    have := ArgForm.call f (Impl.strArgs args ++ [')']) h.1
    simpa using this
  | not e =>
    cases e with
    | cmp o a b => rw [strExpr_not_cmp]; exact .head '!' _ (by simp)
    | not x => rw [strExpr_not_not]; exact .head '!' _ (by simp)
    | logical o a b => rw [strExpr_not_logical]; exact .head '!' _ (by simp)
    | rel q => rw [strExpr_not_rel]; exact .head '!' _ (by simp)
    | root q => rw [strExpr_not_root]; exact .head '!' _ (by simp)
    | call f args => rw [strExpr_not_call]; exact .head '!' _ (by simp)
    | lit v => rw [printableTest_not, printableTest_lit] at h; cases h
  | logical o a b =>
    cases o with
    | and => rw [strExpr_and]; exact .head '(' _ (by simp)
    | or => rw [strExpr_or]; exact .head '(' _ (by simp)
  | cmp o a b =>
    rw [printableTest_cmp] at h
    simp only [Bool.and_eq_true] at h
    rw [strExpr_cmp]
    have := argForm_cmpLhs a h.1 o ([' '] ++ Impl.strExpr b)
    simpa using this

theorem argForm_termLike (e : Expr) (h : printableCmp e = true) (hl : isLit e = false) :
    ArgForm (Impl.strExpr e) := by
  cases e with
  | lit v => simp [isLit] at hl
  | rel q => rw [strExpr_rel]; exact .head '@' _ (by simp)
  | root q => rw [strExpr_root]; exact .head '$' _ (by simp)
  | call f args =>
    rw [printableCmp_call, printableName_eq] at h
    simp only [Bool.and_eq_true] at h
    rw [strExpr_call]
    have := ArgForm.call f (Impl.strArgs args ++ [')']) h.1
    simpa using this
  | not e => rw [printableCmp_not] at h; cases h
  | logical o a b => rw [printableCmp_logical] at h; cases h
  | cmp o a b => rw [printableCmp_cmp] at h; cases h

/-- what the induction establishes for one expression printed by `strExpr` -/
def StrOK (e : Expr) : Prop :=
  (printableTest e = true → PB (Impl.strExpr e) e) ∧
  ((printableCmp e = true ∨ (printableTest e = true ∧ isTermLike e = true)) → PT (Impl.strExpr e) e)

theorem parg_of (a : Expr) (ih : StrOK a) (h : (printableCmp a || printableTest a) = true) :
    PArg (Impl.strExpr a) a := by
  by_cases ht : printableTest a = true
  · exact (ih.1 ht).toO.arg (argForm_test a ht).noLit
  · have hc : printableCmp a = true := by
      simp only [Bool.or_eq_true] at h
      rcases h with h | h
      · exact h
      · exact absurd h ht
    cases hl : isLit a with
    | false => exact ((ih.2 (Or.inl hc)).test hl).toO.arg (argForm_termLike a hc hl).noLit
    | true =>
      cases a with
      | lit v =>
        rw [printableCmp_lit, printableLit_eq] at hc
        rw [strExpr_lit]
        exact PArg_lit v hc
      | _ => simp [isLit] at hl

mutual
theorem str_ok : ∀ (e : Expr), StrOK e
  | .lit v => by
    refine ⟨fun h => ?_, fun h => ?_⟩
    · rw [printableTest_lit] at h; cases h
    · rcases h with h | ⟨h, _⟩
      · rw [printableCmp_lit, printableLit_eq] at h
        rw [strExpr_lit]; exact PT_lit v h
      · rw [printableTest_lit] at h; cases h
  | .not e => by
    have ih := str_ok e
    refine ⟨fun h => ?_, fun h => ?_⟩
    · rw [printableTest_not] at h
      have hb := ih.1 h
      cases e with
      | lit v => rw [printableTest_lit] at h; cases h
      | cmp o a b =>
        rw [strExpr_not_cmp]
        exact hb.toO.notParen
      | not x =>
        rw [strExpr_not_not]
        exact hb.toO.notParen
      | logical o a b =>
        rw [strExpr_not_logical]
        cases o with
        | and =>
          rw [strExpr_and] at hb ⊢
          exact PB.notOfParen hb
        | or =>
          rw [strExpr_or] at hb ⊢
          exact PB.notOfParen hb
      | rel q => rw [strExpr_not_rel]; exact (ih.2 (Or.inr ⟨h, rfl⟩)).not rfl
      | root q => rw [strExpr_not_root]; exact (ih.2 (Or.inr ⟨h, rfl⟩)).not rfl
      | call f args => rw [strExpr_not_call]; exact (ih.2 (Or.inr ⟨h, rfl⟩)).not rfl
    · rcases h with h | ⟨_, h⟩
      · rw [printableCmp_not] at h; cases h
      · cases h
  | .logical op l r => by
    have ihl := str_ok l
    have ihr := str_ok r
    refine ⟨fun h => ?_, fun h => ?_⟩
    · rw [printableTest_logical] at h
      simp only [Bool.and_eq_true] at h
      cases op with
      | and => rw [strExpr_and]; exact (ihl.1 h.1).andParen (ihr.1 h.2)
      | or => rw [strExpr_or]; exact (ihl.1 h.1).orParen (ihr.1 h.2)
    · rcases h with h | ⟨_, h⟩
      · rw [printableCmp_logical] at h; cases h
      · cases h
  | .cmp op l r => by
    have ihl := str_ok l
    have ihr := str_ok r
    refine ⟨fun h => ?_, fun h => ?_⟩
    · rw [printableTest_cmp] at h
      simp only [Bool.and_eq_true] at h
      rw [strExpr_cmp]
      exact PT.cmp op (ihl.2 (Or.inl h.1)) (ihr.2 (Or.inl h.2)) (singOK_of_cmp l h.1) (singOK_of_cmp r h.2)
    · rcases h with h | ⟨_, h⟩
      · rw [printableCmp_cmp] at h; cases h
      · cases h
  | .rel q => by
    have hq : (printableCmp (.rel q) = true ∨ (printableTest (.rel q) = true ∧ isTermLike (.rel q) = true)) → QOK q := by
      rintro (h | ⟨h, _⟩)
      · rw [printableCmp_rel] at h; exact qok_of_singular q h
      · rw [printableTest_rel] at h; exact qok_of_test q h
    refine ⟨fun h => ?_, fun h => ?_⟩
    · rw [strExpr_rel]; exact (PT_rel q (hq (Or.inr ⟨h, rfl⟩))).test rfl
    · rw [strExpr_rel]; exact PT_rel q (hq h)
  | .root q => by
    have hq : (printableCmp (.root q) = true ∨ (printableTest (.root q) = true ∧ isTermLike (.root q) = true)) → QOK q := by
      rintro (h | ⟨h, _⟩)
      · rw [printableCmp_root] at h; exact qok_of_singular q h
      · rw [printableTest_root] at h; exact qok_of_test q h
    refine ⟨fun h => ?_, fun h => ?_⟩
    · rw [strExpr_root]; exact (PT_root q (hq (Or.inr ⟨h, rfl⟩))).test rfl
    · rw [strExpr_root]; exact PT_root q (hq h)
  | .call f args => by
    have iha := args_ok args
    have key : (printableName f && printableArgs args) = true →
        PT (Impl.strExpr (.call f args)) (.call f args) := by
      intro h
      simp only [Bool.and_eq_true] at h
      rw [strExpr_call]
      exact PT_call f (by rw [← printableName_eq]; exact h.1) args (iha h.2)
    refine ⟨fun h => ?_, fun h => ?_⟩
    · rw [printableTest_call] at h; exact (key h).test rfl
    · rcases h with h | ⟨h, _⟩
      · rw [printableCmp_call] at h; exact key h
      · rw [printableTest_call] at h; exact key h
theorem args_ok : ∀ (as : List Expr), printableArgs as = true → ∀ a ∈ as, PArg (Impl.strExpr a) a
  | [] => by intro _ a ha; simp at ha
  | a :: as => by
    have ih1 := str_ok a
    have ih2 := args_ok as
    intro h x hx
    rw [printableArgs_cons] at h
    simp only [Bool.and_eq_true] at h
    rcases List.mem_cons.1 hx with rfl | hx
    · exact parg_of x ih1 h.1
    · exact ih2 h.2 x hx
end

/-- what the induction establishes for one expression printed by `canonExpr` -/
structure CanonOK (e : Expr) : Prop where
  b : PB (Impl.canonExpr 4 e) e
  a : PA (Impl.canonExpr 3 e) e
  o : PO (Impl.canonExpr 1 e) e
  n : PB ('!' :: Impl.canonExpr 7 e) (.not e)

theorem canonOK_of_body {e : Expr} {body : Str} (hb : PB body e)
    (e4 : Impl.canonExpr 4 e = body) (e3 : Impl.canonExpr 3 e = body) (e1 : Impl.canonExpr 1 e = body)
    (e7 : Impl.canonExpr 7 e = ['('] ++ body ++ [')']) : CanonOK e := by
  refine ⟨by rw [e4]; exact hb, by rw [e3]; exact hb.toA, by rw [e1]; exact hb.toO, ?_⟩
  rw [e7]
  exact PB.notOfParen hb.toO.paren

theorem canon_ok : ∀ (e : Expr), printableTest e = true → CanonOK e
  | .lit v, h => by rw [printableTest_lit] at h; cases h
  | .logical .and l r, h => by
    rw [printableTest_logical] at h
    simp only [Bool.and_eq_true] at h
    have ihl := canon_ok l h.1
    have ihr := canon_ok r h.2
    have hbody := ihl.b.and ihr.b.toA
    refine ⟨?_, ?_, ?_, ?_⟩
    · rw [canon_and, if_pos (by decide)]; exact hbody.toO.paren
    · rw [canon_and, if_neg (by decide)]; exact hbody
    · rw [canon_and, if_neg (by decide)]; exact hbody.toO
    · rw [canon_and, if_pos (by decide)]; exact PB.notOfParen hbody.toO.paren
  | .logical .or l r, h => by
    rw [printableTest_logical] at h
    simp only [Bool.and_eq_true] at h
    have ihl := canon_ok l h.1
    have ihr := canon_ok r h.2
    have hbody := ihl.a.or ihr.a.toO
    refine ⟨?_, ?_, ?_, ?_⟩
    · rw [canon_or, if_pos (by decide)]; exact hbody.paren
    · rw [canon_or, if_pos (by decide)]; exact hbody.paren.toA
    · rw [canon_or, if_neg (by decide)]; exact hbody
    · rw [canon_or, if_pos (by decide)]; exact PB.notOfParen hbody.paren
  | .not x, h => by
    rw [printableTest_not] at h
    have ih := canon_ok x h
    exact canonOK_of_body ih.n (by rw [canon_not, if_neg (by decide)])
      (by rw [canon_not, if_neg (by decide)]) (by rw [canon_not, if_neg (by decide)])
      (by rw [canon_not, if_pos (by decide)])
  | .cmp op l r, h => by
    exact canonOK_of_body ((str_ok (.cmp op l r)).1 h) (by rw [canon_cmp, if_neg (by decide)])
      (by rw [canon_cmp, if_neg (by decide)]) (by rw [canon_cmp, if_neg (by decide)])
      (by rw [canon_cmp, if_pos (by decide)])
  | .rel q, h => by
    have hb := (str_ok (.rel q)).1 h
    refine ⟨by rw [canon_rel]; exact hb, by rw [canon_rel]; exact hb.toA, by rw [canon_rel]; exact hb.toO, ?_⟩
    rw [canon_rel, ← strExpr_not_rel]
    exact (str_ok (.not (.rel q))).1 (by rw [printableTest_not]; exact h)
  | .root q, h => by
    have hb := (str_ok (.root q)).1 h
    refine ⟨by rw [canon_root]; exact hb, by rw [canon_root]; exact hb.toA, by rw [canon_root]; exact hb.toO, ?_⟩
    rw [canon_root, ← strExpr_not_root]
    exact (str_ok (.not (.root q))).1 (by rw [printableTest_not]; exact h)
  | .call f args, h => by
    have hb := (str_ok (.call f args)).1 h
    refine ⟨by rw [canon_call]; exact hb, by rw [canon_call]; exact hb.toA, by rw [canon_call]; exact hb.toO, ?_⟩
    rw [canon_call, ← strExpr_not_call]
    exact (str_ok (.not (.call f args))).1 (by rw [printableTest_not]; exact h)

end Pf

theorem print_parse_filter (e : Expr) (h : printableTest e = true) :
    ∃ c, Spec.parseQuery (Impl.strQuery [.child [.filter e]]) = .valid c ∧
      Spec.abstractSegs c = [.child [.filter e]] := by
  obtain ⟨hnb, hp⟩ := (Pf.canon_ok e h).o
  have htxt : Impl.strQuery [.child [.filter e]]
      = '$' :: '[' :: '?' :: (Impl.canonExpr 1 e ++ [']']) := by
    unfold Impl.strQuery
    rw [Prn.strSegs_child, Prn.strSels_one, Impl.strSel, Prn.strSegs_nil]
    simp [Impl.serPrecLowest]
  obtain ⟨cx, hcx, hg⟩ := hp [']'] (Pf.safeO_rbrack []) (2 * (Impl.canonExpr 1 e).length + 8) (by omega)
  have hsel : Spec.selector (2 * (Impl.canonExpr 1 e).length + 8 + 1) ('?' :: (Impl.canonExpr 1 e ++ [']']))
      = some (.filter cx, [']']) := by
    rw [Spec.selector, hnb.skipS, hcx]; rfl
  have hbr : Spec.bracketed (2 * (Impl.canonExpr 1 e).length + 8 + 1 + 1)
      ('[' :: '?' :: (Impl.canonExpr 1 e ++ [']'])) = some ([.filter cx], false, []) := by
    rw [Spec.bracketed]
    simp only [Prn.skipS_cons (show Spec.isBlank '?' = false by decide), hsel,
      Prn.moreSelectors_stop, Prn.skipS_cons (show Spec.isBlank ']' = false by decide)]
    simp
  have hseg : Spec.segments (2 * (Impl.canonExpr 1 e).length + 8 + 1 + 1 + 1 + 1)
      ('[' :: '?' :: (Impl.canonExpr 1 e ++ [']'])) = some ([.child [.filter cx] false], []) := by
    rw [Spec.segments, Prn.skipS_cons (show Spec.isBlank '[' = false by decide), Spec.segment, hbr]
    simp only [Option.map_some, Prn.segments_nil]
  refine ⟨[.child [.filter cx] false], ?_, ?_⟩
  · rw [htxt]
    unfold Spec.parseQuery
    have hfuel : 2 * ('$' :: '[' :: '?' :: (Impl.canonExpr 1 e ++ [']'])).length + 4
        = 2 * (Impl.canonExpr 1 e).length + 8 + 1 + 1 + 1 + 1 := by
      simp only [List.length_cons, List.length_append, List.length_nil]; omega
    simp only [hfuel, hseg]
    simp [Spec.cmpShapeSegs, Spec.cmpShapeSels, Spec.cmpShapeSel, hg.shape]
  · simp [Spec.abstractSegs, Spec.abstractSels, Spec.abstractSel, hg.abs]

end JPV.Proofs
