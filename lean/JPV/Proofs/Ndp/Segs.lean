import JPV.Proofs.Ndp.Visit
/-
Selectors, segments and queries: the depth-first continuation-passing evaluation produces one of
the nodelists `Spec.ND.outcomesFrom` enumerates.
-/
namespace JPV.Proofs.Ndp
open JPV JPV.Impl JPV.Spec.ND
open JPV.Proofs.NDp

/-! ### `outcomesFrom` -/

theorem mem_outcomesFrom (reg : Spec.Registry) (root : Json) :
    ∀ (segs : List Segment) (acc : List (List Node)) (r : List Node),
      r ∈ outcomesFrom reg root segs acc ↔ ∃ ns ∈ acc, r ∈ outcomesFrom reg root segs [ns] := by
  intro segs
  induction segs with
  | nil => intro acc r; simp [outcomesFrom]
  | cons seg segs ih =>
    intro acc r
    simp only [outcomesFrom]
    rw [ih]
    constructor
    · rintro ⟨m, hm, hr⟩
      obtain ⟨ns, hns, hm'⟩ := List.mem_flatMap.1 hm
      refine ⟨ns, hns, ?_⟩
      rw [ih]
      exact ⟨m, by simpa using hm', hr⟩
    · rintro ⟨ns, hns, hr⟩
      rw [ih] at hr
      obtain ⟨m, hm, hr'⟩ := hr
      exact ⟨m, List.mem_flatMap.2 ⟨ns, hns, by simpa using hm⟩, hr'⟩

theorem outcomesFrom_step {reg : Spec.Registry} {root : Json} {seg : Segment} {segs : List Segment}
    {ns m r : List Node} (hm : m ∈ segOutcomes reg root seg ns)
    (hr : r ∈ outcomesFrom reg root segs [m]) : r ∈ outcomesFrom reg root (seg :: segs) [ns] := by
  simp only [outcomesFrom]
  rw [mem_outcomesFrom]
  exact ⟨m, by simpa using hm, hr⟩

theorem outcomesFrom_step_inv {reg : Spec.Registry} {root : Json} {seg : Segment} {segs : List Segment}
    {ns r : List Node} (hr : r ∈ outcomesFrom reg root (seg :: segs) [ns]) :
    ∃ m ∈ segOutcomes reg root seg ns, r ∈ outcomesFrom reg root segs [m] := by
  simp only [outcomesFrom] at hr
  rw [mem_outcomesFrom] at hr
  obtain ⟨m, hm, hr'⟩ := hr
  exact ⟨m, by simpa using hm, hr'⟩

theorem segOutcomes_append {reg : Spec.Registry} {root : Json} (seg : Segment)
    {ns1 ns2 m1 m2 : List Node} (h1 : m1 ∈ segOutcomes reg root seg ns1)
    (h2 : m2 ∈ segOutcomes reg root seg ns2) : m1 ++ m2 ∈ segOutcomes reg root seg (ns1 ++ ns2) := by
  cases seg with
  | child sels =>
    simp only [segOutcomes, List.map_append] at *
    exact mem_product_append _ _ _ _ h1 h2
  | desc sels =>
    simp only [segOutcomes, List.map_append] at *
    exact mem_product_append _ _ _ _ h1 h2

theorem segOutcomes_nil (reg : Spec.Registry) (root : Json) (seg : Segment) :
    [] ∈ segOutcomes reg root seg [] := by
  cases seg <;> simp [segOutcomes, product]

theorem outcomesFrom_nil (reg : Spec.Registry) (root : Json) :
    ∀ (segs : List Segment), [] ∈ outcomesFrom reg root segs [[]] := by
  intro segs
  induction segs with
  | nil => simp [outcomesFrom]
  | cons seg segs ih => exact outcomesFrom_step (segOutcomes_nil reg root seg) ih

theorem outcomesFrom_append (reg : Spec.Registry) (root : Json) :
    ∀ (segs : List Segment) (ns1 ns2 r1 r2 : List Node),
      r1 ∈ outcomesFrom reg root segs [ns1] → r2 ∈ outcomesFrom reg root segs [ns2] →
      r1 ++ r2 ∈ outcomesFrom reg root segs [ns1 ++ ns2] := by
  intro segs
  induction segs with
  | nil =>
    intro ns1 ns2 r1 r2 h1 h2
    simp only [outcomesFrom, List.mem_singleton] at *
    rw [h1, h2]
  | cons seg segs ih =>
    intro ns1 ns2 r1 r2 h1 h2
    obtain ⟨m1, hm1, h1'⟩ := outcomesFrom_step_inv h1
    obtain ⟨m2, hm2, h2'⟩ := outcomesFrom_step_inv h2
    exact outcomesFrom_step (segOutcomes_append seg hm1 hm2) (ih _ _ _ _ h1' h2')

/-- per-node results concatenate to a result for the whole nodelist -/
theorem outcomesFrom_lift (reg : Spec.Registry) (root : Json) (segs : List Segment)
    {ns r : List Node} (h : Lift (fun m r => r ∈ outcomesFrom reg root segs [[m]]) ns r) :
    r ∈ outcomesFrom reg root segs [ns] := by
  induction h with
  | nil => exact outcomesFrom_nil reg root segs
  | cons hq _ ih => exact outcomesFrom_append reg root segs [_] _ _ _ hq ih

/-! ### selectors -/

theorem forEach_lift {mx : Int} {k : Node → ND.Script → ND.Out} {f : Node → List Node}
    {Q : Node → List Node → Prop} (hk : KOK mx k f) (hQ : KQ mx k Q) :
    ∀ (ns : List Node) (s : ND.Script), (∀ n ∈ ns, Good mx n) →
      Lift Q ns (ND.forEach ns s k).nodes := by
  intro ns
  induction ns with
  | nil => intro s _; exact .nil
  | cons n rest ih =>
    intro s hns
    have h1 := hk n s (hns n List.mem_cons_self)
    have h2 := ih (k n s).script (fun x hx => hns x (List.mem_cons_of_mem _ hx))
    simp only [ND.forEach, h1.1]
    exact .cons (hQ n s (hns n List.mem_cons_self)) h2

theorem runSel_lift {mx : Int} (env : Env) (reg : Spec.Registry) (root : Json)
    {k : Node → ND.Script → ND.Out} {f : Node → List Node} {Q : Node → List Node → Prop}
    (hk : KOK mx k f) (hQ : KQ mx k Q)
    (sel : Selector) (hs : ∀ e, sel ≠ .filter e) (n : Node) (s : ND.Script) (hn : Good mx n) :
    ∃ m ∈ selOutcomes reg root sel n, Lift Q m (ND.runSel env root k sel n s).nodes := by
  have hgood : ∀ m ∈ Spec.selectSel reg root sel n, Good mx m := fun m hm =>
    good_kid (j := n.val) hn (mem_selectSel hm)
  cases sel with
  | name nm =>
    simp only [ND.runSel, Spec.selectSel, selName_eq nm n hn.1] at hgood ⊢
    exact ⟨_, by simp [selOutcomes, Spec.selectSel], forEach_lift hk hQ _ s hgood⟩
  | index i =>
    simp only [ND.runSel, Spec.selectSel, selIndex_correct] at hgood ⊢
    exact ⟨_, by simp [selOutcomes, Spec.selectSel], forEach_lift hk hQ _ s hgood⟩
  | slice a b c =>
    simp only [ND.runSel, Spec.selectSel, selSlice_correct] at hgood ⊢
    exact ⟨_, by simp [selOutcomes, Spec.selectSel], forEach_lift hk hQ _ s hgood⟩
  | wild =>
    simp only [ND.runSel, Spec.selectSel, ND.ndMembers] at hgood ⊢
    have hp := ndChildren_perm_spec n s
    refine ⟨(ND.ndChildren n s).1, ?_,
      forEach_lift hk hQ _ _ (fun m hm => hgood m (hp.mem_iff.1 hm))⟩
    cases hv : n.val with
    | obj kvs =>
      simp only [selOutcomes, hv]
      exact mem_perms_of_perm hp
    | arr xs =>
      have := ndChildren_arr n s xs hv
      rw [children_eq] at this
      simp [selOutcomes, this, hv]
    | _ =>
      simp [selOutcomes, ND.ndChildren, Spec.children, hv]
  | filter e => exact absurd rfl (hs e)

theorem runSels_lift {mx : Int} (env : Env) (reg : Spec.Registry) (root : Json)
    {k : Node → ND.Script → ND.Out} {f : Node → List Node} {Q : Node → List Node → Prop}
    (hk : KOK mx k f) (hQ : KQ mx k Q) :
    ∀ (sels : List Selector), Spec.filterFreeSels sels = true → ∀ (n : Node) (s : ND.Script), Good mx n →
    ∃ m ∈ selsOutcomes reg root sels n, Lift Q m (ND.runSels env root k sels n s).nodes := by
  intro sels
  induction sels with
  | nil =>
    intro _ n s _
    exact ⟨[], by simp [selsOutcomes, product], by simp only [ND.runSels, ND.Out.ok]; exact .nil⟩
  | cons sel sels ih =>
    intro hf n s hn
    have hs : ∀ e, sel ≠ .filter e := by
      intro e he; subst he; simp [Spec.filterFreeSels] at hf
    have hf' : Spec.filterFreeSels sels = true := by
      cases sel <;> simp_all [Spec.filterFreeSels]
    have h1 := runSel_ok env reg root hk sel hs n s hn
    obtain ⟨m1, hm1, hl1⟩ := runSel_lift env reg root hk hQ sel hs n s hn
    obtain ⟨m2, hm2, hl2⟩ := ih hf' n (ND.runSel env root k sel n s).script hn
    refine ⟨m1 ++ m2, ?_, ?_⟩
    · simp only [selsOutcomes, List.map_cons] at hm2 ⊢
      exact mem_product_cons hm1 hm2
    · simp only [ND.runSels, h1.1]
      exact hl1.append hl2

/-! ### segments -/

/-- the per-node selector results along a visit order form an alternative of the `product` -/
theorem lift_sels {reg : Spec.Registry} {root : Json} {sels : List Selector}
    {P : Node → List Node → Prop} {ord r : List Node}
    (h : Lift (fun m r => ∃ x ∈ selsOutcomes reg root sels m, Lift P x r) ord r) :
    ∃ y ∈ product (ord.map (selsOutcomes reg root sels)), Lift P y r := by
  induction h with
  | nil => exact ⟨[], mem_product_nil, .nil⟩
  | cons hq _ ih =>
    obtain ⟨x, hx, hlx⟩ := hq
    obtain ⟨y, hy, hly⟩ := ih
    exact ⟨x ++ y, mem_product_cons hx hy, hlx.append hly⟩

theorem runSegs_permitted (env : Env) (reg : Spec.Registry) (root : Json) :
    ∀ (segs : List Segment), Spec.filterFree segs = true →
      KQ env.maxDepth (fun n s => ND.runSegs env root segs n s)
        (fun n r => r ∈ outcomesFrom reg root segs [[n]]) := by
  intro segs
  induction segs with
  | nil =>
    intro _ n s _
    simp [ND.runSegs, outcomesFrom]
  | cons seg segs ih =>
    intro hf
    have hf0 := hf
    simp only [Spec.filterFree, List.all_cons, Bool.and_eq_true] at hf
    have ih' := ih hf.2
    have hk' := runSegs_ok env reg root segs hf.2
    intro n s hn
    cases seg with
    | child sels =>
      obtain ⟨m, hm, hl⟩ := runSels_lift env reg root hk' ih' sels hf.1 n s hn
      simp only [ND.runSegs]
      refine outcomesFrom_step (m := m) ?_ (outcomesFrom_lift reg root segs hl)
      simp only [segOutcomes, List.map_cons, List.map_nil]
      exact mem_product_single hm
    | desc sels =>
      have hk : KOK env.maxDepth
          (fun m s' => ND.runSels env root (fun m2 s2 => ND.runSegs env root segs m2 s2) sels m s')
          (fun m => (Spec.selectSels reg root sels m).flatMap
            (fun m2 => Spec.selectFrom reg root segs [m2])) :=
        fun m s' hm => runSels_ok env reg root hk' sels hf.1 m s' hm
      have hQ : KQ env.maxDepth
          (fun m s' => ND.runSels env root (fun m2 s2 => ND.runSegs env root segs m2 s2) sels m s')
          (fun m r => ∃ x ∈ selsOutcomes reg root sels m,
            Lift (fun n r => r ∈ outcomesFrom reg root segs [[n]]) x r) :=
        fun m s' hm => runSels_lift env reg root hk' ih' sels hf.1 m s' hm
      obtain ⟨ord, hord, hl⟩ := visit_ord hk hQ n s hn
      obtain ⟨y, hy, hly⟩ := lift_sels hl
      simp only [ND.runSegs]
      refine outcomesFrom_step (m := y) ?_ (outcomesFrom_lift reg root segs hly)
      simp only [segOutcomes, List.map_cons, List.map_nil]
      exact mem_product_single (List.mem_flatMap.2 ⟨ord, hord, hy⟩)

theorem find_permitted (env : Env) (reg : Spec.Registry) (q : Query) (v : Json) (s : ND.Script)
    (hf : Spec.filterFree q = true) (hwf : v.WF) (hd : (v.depth : Int) ≤ env.maxDepth) :
    ∃ r, ND.find env q v s = .ok r ∧ r ∈ outcomes reg q v := by
  have h := runSegs_ok env reg v q hf ⟨[], v⟩ s ⟨hwf, hd⟩
  have h2 := runSegs_permitted env reg v q hf ⟨[], v⟩ s ⟨hwf, hd⟩
  simp only at h h2
  refine ⟨(ND.runSegs env v q ⟨[], v⟩ s).nodes, ?_, h2⟩
  simp only [ND.find, h.1]

end JPV.Proofs.Ndp
