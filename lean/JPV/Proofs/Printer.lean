import JPV.Impl.Serialize
import JPV.Spec.Grammar
import JPV.Spec.Typing
import JPV.Spec.NormalizedPath
import JPV.Proofs.PathsCanon
import JPV.Proofs.PrinterSegs
namespace JPV.Proofs
open JPV

/-- an omitted slice step written out (what the canonical text does) -/
def normStepSel : Selector → Selector
  | .slice a b none => .slice a b (some 1)
  | s => s

def normStepSeg : Segment → Segment
  | .child sels => .child (sels.map normStepSel)
  | .desc sels => .desc (sels.map normStepSel)

def normStep (q : Query) : Query := q.map normStepSeg

/-- every segment has at least one selector (true of every parsed query) -/
def nonEmptySegs (q : Query) : Bool :=
  q.all (fun s => match s with | .child sels => !sels.isEmpty | .desc sels => !sels.isEmpty)

namespace Prn

theorem abstractSel_csel (s : Selector) (h : isFilter s = false) :
    Spec.abstractSel (cselOf s) = normStepSel s := by
  cases s with
  | filter e => simp [isFilter] at h
  | slice a b c => cases c <;> simp [cselOf, Spec.abstractSel, normStepSel]
  | name _ | index _ | wild => simp [cselOf, Spec.abstractSel, normStepSel]

theorem abstractSels_csel : ∀ (ss : List Selector), NoFilter ss →
    Spec.abstractSels (ss.map cselOf) = ss.map normStepSel
  | [], _ => by rw [List.map, Spec.abstractSels]; rfl
  | s :: ss, h => by
    rw [List.map, Spec.abstractSels, abstractSel_csel s (h s (by simp)),
      abstractSels_csel ss (fun x hx => h x (by simp [hx]))]
    rfl

theorem abstractSegs_cseg : ∀ (q : List Segment), (∀ sg ∈ q, GoodSeg sg) →
    Spec.abstractSegs (q.map csegOf) = normStep q
  | [], _ => by rw [List.map, Spec.abstractSegs]; rfl
  | .child sels :: q, h => by
    rw [List.map, csegOf, Spec.abstractSegs, abstractSegs_cseg q (fun x hx => h x (by simp [hx])),
      abstractSels_csel sels (h (.child sels) (by simp)).1]
    rfl
  | .desc sels :: q, h => by
    rw [List.map, csegOf, Spec.abstractSegs, abstractSegs_cseg q (fun x hx => h x (by simp [hx])),
      abstractSels_csel sels (h (.desc sels) (by simp)).1]
    rfl

theorem good_of (q : Query) (hff : Spec.filterFree q = true) (hne : nonEmptySegs q = true) :
    ∀ sg ∈ q, GoodSeg sg := by
  intro sg hsg
  have h1 := List.all_eq_true.1 hff sg hsg
  have h2 := List.all_eq_true.1 hne sg hsg
  cases sg with
  | child sels =>
    refine ⟨noFilter_of sels h1, ?_⟩
    rintro rfl; simp at h2
  | desc sels =>
    refine ⟨noFilter_of sels h1, ?_⟩
    rintro rfl; simp at h2

theorem strSel_norm (s : Selector) : Impl.strSel (normStepSel s) = Impl.strSel s := by
  cases s with
  | slice a b c =>
    cases c with
    | none => simp only [normStepSel, strSel_slice, stepStr, show Py.reprInt 1 = ['1'] by decide]
    | some i => rfl
  | _ => rfl

theorem strSels_norm : ∀ (ss : List Selector), Impl.strSels (ss.map normStepSel) = Impl.strSels ss
  | [] => rfl
  | [s] => by simp only [List.map, strSels_one, strSel_norm]
  | s :: t :: ss => by
    have ih := strSels_norm (t :: ss)
    simp only [List.map] at ih ⊢
    rw [strSels_cons, strSels_cons, strSel_norm, ih]

theorem strSegs_norm : ∀ (q : List Segment), Impl.strSegs (q.map normStepSeg) = Impl.strSegs q
  | [] => rfl
  | .child sels :: rest => by
    simp only [List.map, normStepSeg]
    rw [strSegs_child, strSegs_child, strSels_norm, strSegs_norm rest]
  | .desc sels :: rest => by
    simp only [List.map, normStepSeg]
    rw [strSegs_desc, strSegs_desc, strSels_norm, strSegs_norm rest]

theorem strLit_str (s : Str) : Impl.strLit (.str s) = Impl.canonicalString s := by
  rw [Impl.strLit]

end Prn

theorem print_parse_structural (q : Query) (hff : Spec.filterFree q = true) (hne : nonEmptySegs q = true) :
    ∃ c, Spec.parseQuery (Impl.strQuery q) = .valid c ∧ Spec.abstractSegs c = normStep q :=
  ⟨q.map Prn.csegOf, Prn.parse_print q (Prn.good_of q hff hne),
    Prn.abstractSegs_cseg q (Prn.good_of q hff hne)⟩

theorem print_normStep (q : Query) : Impl.strQuery (normStep q) = Impl.strQuery q := by
  unfold Impl.strQuery normStep
  rw [Prn.strSegs_norm]

theorem print_quoting (s : Str) :
    Impl.strSel (.name s) = Spec.normalName s ∧ Impl.strLit (.str s) = Spec.normalName s := by
  rw [Prn.strSel_name, Prn.strLit_str, canonicalString_eq]
  exact ⟨rfl, rfl⟩

end JPV.Proofs
